import PetgraphModel.Common
import PetgraphModel.GraphProto
import PetgraphModel.Oracle.Reach
import PetgraphModel.Model.Acyclic
import PetgraphModel.Spec.Dag
import PetgraphModel.Driver.C14Checks
import PetgraphModel.Model.AcyclicGraph
import PetgraphModel.Model.AcyclicStable
/-
C14 driver.  Lines of a case (see harness/src/c14.rs):

  case k kind=g|s ix=u8|u32
  new | withcap n e                          => ok
  graph …                                    => ok      inner graph, concrete ids, `lab=` idx:label
  from tfg|tf [fn= fe= nl= el=]              => ok | err cycle <n>     (uses the preceding graph line; StableGraph: its free lists)
  add_node <label>                           => <idx>
  try_add_edge|try_update_edge a b w         => ok <e> | err selfloop | err cycle <n> | err invalid | panic
  add_edge a b w                             => some <e> | none | panic
  update_edge a b w                          => ok <e> | panic
  remove_edge e                              => some <w> | none
  remove_node n                              => some <label> | none
  clone                                      => ok
  order | pos | gpx <l> | at lo hi | range <b> <b> | valid      the dump
  validp                                     => a:b:r,…   is_valid_edge of SOME pairs (big graphs, `fam=ncap`), judged like `valid`
  validx a:b,…                               => r,…       is_valid_edge with an absent endpoint, each on a fresh clone (exact only)
  <insertion> a b w full                     the inner graph is at its edge limit (observed on a clone of `inner()`); run on a dropped clone
  add_node <label>                           => panic     only at the node limit of the index type (tried on a clone, the object is untouched)
  snap | swap | clonefrom in|out | take      => ok        the second object of the case (wave 6)
  law <name…>                                => ok | VIOLATED <why>   a law the harness checked against the implementation itself

Wave 6.  The case line carries `ix=u8|u16|u32|usize` (index limit of the storage models), `fam=` (generator family) and
`profile=debug|release` (only the C02 storage model has build-dependent behaviour: its `debug_assert!`s; the mirror
model of `acyclic.rs` keeps every `debug_assert!` as an error in both profiles — none is reachable from a `Safe` state,
`C14_no_panic_step`, so the expected answers of the two profiles coincide on every judged state).
Two objects: `other` is the mirror state (model, view, replayed machine, last dump) of the harness's second
`Acyclic`; `snap` copies the current one into it, `swap` exchanges them, `clonefrom in` overwrites the current one by
`other` (`clone_from`), `clonefrom out` the other way round, `take` moves the current one into `other` and leaves a
`Default` one.  The graph line and the dump that follow must be those of the object that is current now.

The mirror model (`Acy`) runs on the view of the last graph line; the spec-level judges (`Dag`) run on
the abstract graph of that view.  A mutating call sets `pend`: what the NEXT graph line has to be
(spec level) and which model update still needs the graph after the call.

Run-time checks of the theorems' hypotheses (`Driver/C14Checks.lean`; `Theorems/C14.lean`, section
"run-time checks of the hypotheses" proves that they imply the hypotheses):
  * every graph line: `viewOkB` (`ViewOk`, `Closed`, index and fuel bounds incl. `TopoFuelOk`) and the counts;
  * every graph line that follows a call: the call's contract `Call.InnerOk` / `EdgesOk` (`contractWhy`),
    after the stronger labelled-graph comparison `judgeGraph`;
  * every state of the mirror model that is judged in: `safeB` (`Safe`), after each graph line, an
    accepted `from` and the `valid` dump (the only requests that change the model state).
A failing check is `SPECFAIL side condition <name> does not hold: …`.

Replay of the instantiated machines (`Model/AcyclicGraph.lean`, `Model/AcyclicStable.lean`: the C01 /
C02 storage model + the bookkeeping, the subjects of the unconditional theorems `C14_digraph_*`,
`C14_stable_*`): for every `Acyclic<DiGraph>` case (built by `new`, `with_capacity` or from a graph —
the `Graph` is rebuilt from the graph line) and every `Acyclic<StableDiGraph>` case (a `StableGraph` with
vacancies is rebuilt from the graph line and the free lists the harness observes on a clone), the driver steps the machine with the same calls and compares, after every call, the
view the storage model presents (`gView` / `sView`: nodes, `node_bound`, edge list, both adjacency
tables in iteration order) with the graph line of the real crate, and its order map with the mirror
model's.  A difference is a `MODELDIFF`.
-/
namespace PetgraphModel.C14
open PetgraphModel PetgraphModel.Acy PetgraphModel.Dag PetgraphModel.Oracle

inductive Pend where
  | idle                                   -- graph line is an input candidate for `from`
  | empty                                  -- after new / with_capacity
  | same                                   -- nothing may have changed
  | addNode (label idx : Nat)
  | addEdge (a b : Nat) (w : Int)
  | updEdge (a b : Nat) (w : Int)
  | remEdge (e : Nat)
  | remNode (n : Nat)
  deriving Repr, Inhabited

/-- the mirror state of ONE `Acyclic` object (wave 6: a case has two) -/
structure Obj where
  have_ : Bool := false
  lost : Bool := false
  v : View := default
  vok : Bool := false
  lab : List (Nat × Nat) := []
  gline : String := ""
  m : AState := {}
  lastOrder : String := ""
  lastPos : String := ""
  lastValid : String := ""
  implOrder : List Nat := []
  implPos : List (Nat × Nat) := []
  ag : Option AcyG.AG := none
  as : Option AcyS.AS := none
  rnote : String := ""

structure DState where
  stable : Bool := false
  have_ : Bool := false              -- an `Acyclic` object exists
  lost : Bool := false               -- the mirror model lost track (after a MODELDIFF on a state-changing answer)
  v : View := default
  vok : Bool := false                -- `v` passed `viewOkB` (it is the view of a checked graph line)
  lab : List (Nat × Nat) := []
  gline : String := ""
  m : AState := {}
  pend : Pend := .idle
  mustSame : Bool := false
  lastOrder : String := ""
  lastPos : String := ""
  lastValid : String := ""
  implOrder : List Nat := []
  implPos : List (Nat × Nat) := []
  endv : Nat := 4294967295           -- `Ix::max()` of the case
  noLimit : Bool := false            -- `Ix = usize`: `Ix::max().index() == !0`, the index-limit assertions are vacuous
  dbg : Bool := true                 -- `profile=debug`
  ag : Option AcyG.AG := none        -- replay of `Acyclic<DiGraph>` over the C01 storage model
  as : Option AcyS.AS := none        -- replay of `Acyclic<StableDiGraph>` over the C02 storage model
  rnote : String := ""               -- why the replay was abandoned (reported at the next graph line)
  other : Option Obj := none         -- the second object of the case (wave 6)

def DState.obj (d : DState) : Obj :=
  { have_ := d.have_, lost := d.lost, v := d.v, vok := d.vok, lab := d.lab, gline := d.gline, m := d.m,
    lastOrder := d.lastOrder, lastPos := d.lastPos, lastValid := d.lastValid, implOrder := d.implOrder,
    implPos := d.implPos, ag := d.ag, as := d.as, rnote := d.rnote }

/-- make `o` the current object; the next graph line and dump must be `o`'s last ones -/
def DState.load (d : DState) (o : Obj) : DState :=
  { d with have_ := o.have_, lost := o.lost, v := o.v, vok := o.vok, lab := o.lab, gline := o.gline, m := o.m,
           lastOrder := o.lastOrder, lastPos := o.lastPos, lastValid := o.lastValid, implOrder := o.implOrder,
           implPos := o.implPos, ag := o.ag, as := o.as, rnote := o.rnote, pend := .same, mustSame := true }

def endvOf (rest : List String) : Nat :=
  if rest.contains "ix=u8" then 255 else if rest.contains "ix=u16" then 65535
  else if rest.contains "ix=usize" then 18446744073709551615 else 4294967295

/-- `validx` pairs `a:b,…` -/
def parseAB (s : String) : List (Nat × Nat) :=
  if s == "-" then [] else
  (s.splitOn ",").filterMap fun t =>
    match t.splitOn ":" with
    | [a, b] => match a.toNat?, b.toNat? with
      | some a, some b => some (a, b)
      | _, _ => none
    | _ => none

def labelOf (lab : List (Nat × Nat)) (i : Nat) : Nat := (lab.lookup i).getD (1000000 + i)

/-- the labelled graph of a view -/
def toLG (v : View) (lab : List (Nat × Nat)) : LG :=
  { nodes := v.g.nodes.map (labelOf lab),
    edges := v.g.edges.map fun e => (labelOf lab e.src, labelOf lab e.tgt, e.w) }

def verdict (spec : Option String) (model impl : String) : String :=
  match spec with
  | some why => s!"SPECFAIL {why}"
  | none => cmpExact model impl

def expectS (want impl : String) : Option String :=
  if want == impl then none else some s!"expected [{want}], implementation answered [{impl}]"

def parseBnd (s : String) : Bnd :=
  if s.startsWith "i" then .inc ((s.drop 1).toString.toNat?.getD 0)
  else if s.startsWith "e" then .exc ((s.drop 1).toString.toNat?.getD 0)
  else .unb

/-- `a:b:r,…` -/
def parseValid (s : String) : Option (List (Nat × Nat × Bool)) :=
  if s == "-" then some [] else
  (s.splitOn ",").mapM fun t =>
    match t.splitOn ":" with
    | [a, b, r] =>
      match a.toNat?, b.toNat? with
      | some a, some b => if r == "1" then some (a, b, true) else if r == "0" then some (a, b, false) else none
      | _, _ => none
    | _ => none

def showValid (l : List (Nat × Nat × String)) : String :=
  if l.isEmpty then "-" else String.intercalate "," (l.map fun (a, b, r) => s!"{a}:{b}:{r}")

/-- the model's `valid` line: every ordered pair of live nodes, scratch state threaded through -/
def modelValid (v : View) (m : AState) : AState × List (Nat × Nat × String) :=
  (v.g.nodes.flatMap fun a => v.g.nodes.map fun b => (a, b)).foldl (fun (acc : AState × List (Nat × Nat × String)) (ab : Nat × Nat) =>
    match isValidEdge v acc.1 ab.1 ab.2 with
    | .ok (m', r) => (m', acc.2 ++ [(ab.1, ab.2, if r then "1" else "0")])
    | .error _ => (acc.1, acc.2 ++ [(ab.1, ab.2, "p")])) (m, [])

/-- the model's answers for the listed pairs, scratch state threaded through (`validp`) -/
def modelValidPairs (v : View) (m : AState) (pairs : List (Nat × Nat)) : AState × List (Nat × Nat × String) :=
  pairs.foldl (fun (acc : AState × List (Nat × Nat × String)) (ab : Nat × Nat) =>
    match isValidEdge v acc.1 ab.1 ab.2 with
    | .ok (m', r) => (m', acc.2 ++ [(ab.1, ab.2, if r then "1" else "0")])
    | .error _ => (acc.1, acc.2 ++ [(ab.1, ab.2, "p")])) (m, [])

def showPosPairs (l : List (Nat × String)) : String :=
  if l.isEmpty then "-" else String.intercalate "," (l.map fun (a, p) => s!"{a}:{p}")

def showGetPos (m : AState) (i : Nat) : String :=
  match m.om.getPos i with
  | .ok p => toString p
  | .error _ => "p"

def showOptTok : Option Nat → String
  | some n => toString n
  | none => "x"

def joinS (l : List String) : String := if l.isEmpty then "-" else String.intercalate "," l

/-- spec-level check of the graph line that follows a call -/
def judgeGraph (d : DState) (v' : View) (lab' : List (Nat × Nat)) (line : String) : Option String :=
  let old := toLG d.v d.lab
  let new := toLG v' lab'
  match d.pend with
  | .idle => none
  | .empty => if v'.g.nodes.isEmpty && v'.g.edges.isEmpty then none else some "a new Acyclic is not empty"
  | .same => if line == d.gline then none else some "the inner graph changed although the call was rejected / a no-op"
  | .addNode l i =>
    if !(LG.same (old.addNode l) new) then some s!"after add_node the inner graph is not the old graph plus node {l}"
    else if labelOf lab' i != l then some s!"add_node returned index {i} which does not hold the new node" else none
  | .addEdge a b w =>
    if LG.same (old.addEdge (labelOf d.lab a) (labelOf d.lab b) w) new && toString lab' == toString d.lab then none
    else some s!"after the accepted insertion {a}->{b} the inner graph is not the old graph plus that edge"
  | .updEdge a b w =>
    if LG.updateOk old new (labelOf d.lab a) (labelOf d.lab b) w && toString lab' == toString d.lab then none
    else some s!"after the accepted update_edge {a}->{b} the inner graph is not the old graph with one {a}->{b} edge set/added"
  | .remEdge e =>
    match d.v.edge? e with
    | some ed =>
      if LG.same (old.removeEdge (labelOf d.lab ed.src, labelOf d.lab ed.tgt, ed.w)) new && toString lab' == toString d.lab then none
      else some s!"after remove_edge({e}) the inner graph is not the old graph minus that edge"
    | none => some "internal: pending remove_edge of an absent edge"
  | .remNode n =>
    if LG.same (old.removeNode (labelOf d.lab n)) new then none
    else some s!"after remove_node({n}) the inner graph is not the old graph minus that node and its edges"

/-- G-A: the inner-graph contracts `Call.InnerOk` / `EdgesOk` of the call that produced the graph line
`v'` (`Theorems/C14.lean`: `C14_innerOk_check`, `C14_edgesOk_check`); `some name` = the one that fails -/
def contractWhy (d : DState) (v' : View) : Option String :=
  match d.pend with
  | .addNode _ i =>
    if !(innerAddNodeB d.v i v') then some "InnerOk(add_node) does not hold: the live indices after add_node are not the old ones plus the new index"
    else if !(edgesSubB d.v v') then some "EdgesOk(add_node) does not hold: an adjacency appeared" else none
  | .addEdge a b _ | .updEdge a b _ =>
    if !(innerEdgeB d.v a b v') then some "InnerOk(edge insertion) does not hold: the node list changed"
    else if !(edgesEdgeB d.v a b v') then some s!"EdgesOk(edge insertion) does not hold: an adjacency other than {a}->{b} appeared" else none
  | .remEdge _ =>
    if !(innerRemoveEdgeB d.v v') then some "InnerOk(remove_edge) does not hold: the node list changed"
    else if !(edgesSubB d.v v') then some "EdgesOk(remove_edge) does not hold: an adjacency appeared" else none
  | .remNode n =>
    if !(innerRemoveNodeB d.v n v') then some s!"InnerOk(remove_node {n}) does not hold: RemoveContract — neither 'the index vanishes' nor 'the last node moves into it'"
    else if !(edgesRemoveNodeB d.v n v') then some s!"EdgesOk(remove_node {n}) does not hold: an adjacency appeared (up to the renaming of the moved node)" else none
  | _ => none

/-- G-A: the state of the mirror model satisfies `Safe` on the current (checked) view
(`C14_safe_check`); `some why` otherwise -/
def safeWhyOpt (v : View) (m : AState) : Option String :=
  if safeB v m then none else some s!"SPECFAIL side condition Safe does not hold: {safeWhy v m}"

/-- step the replayed storage machine(s) with the call the real object just executed -/
def replay (d : DState) (op : AcyG.AOp) : DState :=
  match d.ag, d.as with
  | some x, _ =>
    match x.step op with
    | .ok x' => { d with ag := some x' }
    | .error e => { d with ag := none, rnote := s!"the C01-based machine panicked: {e}" }
  | none, some x =>
    match x.step op with
    | .ok x' => { d with as := some x' }
    | .error e => { d with as := none, rnote := s!"the C02-based machine panicked: {e}" }
  | none, none => d

/-- after a call: does the replayed machine present the reported graph and hold the mirror model's order map? -/
def replayDiff (d : DState) (v' : View) (m' : AState) : Option String :=
  if d.rnote != "" then some d.rnote else
  match d.ag, d.as with
  | some x, _ =>
    if !(AcyG.sameView (AcyG.gView x.g) v') then some "the view of the C01 storage model (gView) is not the reported inner graph"
    else if x.a.om != m'.om then some "the order map of the replayed Acyclic<DiGraph> machine differs from the mirror model's"
    else none
  | none, some x =>
    if !(AcyS.sameView (AcyS.sView x.g) v') then some "the view of the C02 storage model (sView) is not the reported inner graph"
    else if x.a.om != m'.om then some "the order map of the replayed Acyclic<StableDiGraph> machine differs from the mirror model's"
    else none
  | none, none => none

def isAccept (impl : String) : Bool := impl.startsWith "ok" || impl.startsWith "some"

def step (d : DState) (req : List String) (impl : String) : DState × String :=
  match req with
  | "case" :: k :: rest =>
    ({ stable := rest.contains "kind=s", endv := endvOf rest, noLimit := rest.contains "ix=usize",
       dbg := !(rest.contains "profile=release") }, s!"case {k}")
  | "new" :: _ =>                          -- `new` / `new default` (`Default::default()`)
    ({ d with have_ := true, lost := false, m := {}, pend := .empty, mustSame := false, rnote := "",
              ag := if d.stable then none else some (AcyG.AG.new d.endv 0),
              as := if d.stable then some (AcyS.AS.new d.endv d.noLimit d.dbg 0) else none }, cmpExact "ok" impl)
  | ["withcap", n, _] =>
    ({ d with have_ := true, lost := false, m := withCapacity (n.toNat?.getD 0), pend := .empty, mustSame := false, rnote := "",
              ag := if d.stable then none else some (AcyG.AG.new d.endv (n.toNat?.getD 0)),
              as := if d.stable then some (AcyS.AS.new d.endv d.noLimit d.dbg (n.toNat?.getD 0)) else none }, cmpExact "ok" impl)
  | "law" :: name =>
    -- a law the harness checked against the implementation itself (iterator laws, pass-through traits against
    -- `inner()`, Clone / clone_from / Default / Debug, petgraph's own algorithms on `&Acyclic<G>`)
    (d, if impl == "ok" then "ok" else s!"SPECFAIL law [{String.intercalate " " name}] does not hold: {impl}")
  | ["snap"] => ({ d with other := some d.obj, pend := .same, mustSame := true }, cmpExact "ok" impl)
  | ["clonefrom", "out"] => ({ d with other := some d.obj, pend := .same, mustSame := true }, cmpExact "ok" impl)
  | ["swap"] =>
    match d.other with
    | some o => ({ d.load o with other := some d.obj }, cmpExact "ok" impl)
    | none => (d, "SPECFAIL bad request swap (no second object)")
  | ["clonefrom", "in"] =>
    match d.other with
    | some o => (d.load o, cmpExact "ok" impl)
    | none => (d, "SPECFAIL bad request clonefrom (no second object)")
  | ["take"] =>
    ({ d with other := some d.obj, have_ := true, lost := false, m := {}, pend := .empty, mustSame := false, rnote := "",
              v := default, vok := false, lab := [], gline := "",
              ag := if d.stable then none else some (AcyG.AG.new d.endv 0),
              as := if d.stable then some (AcyS.AS.new d.endv d.noLimit d.dbg 0) else none }, cmpExact "ok" impl)
  | "graph" :: _ =>
    let line := String.intercalate " " req
    match parseView req with
    | none => (d, "SPECFAIL unparsable graph line")
    | some v' =>
      let lab' := parsePairs ((field? req "lab").getD "-")
      if !(viewOkB v') then (d, s!"SPECFAIL side condition {viewWhy v'} does not hold: the graph line of the inner graph is not self-consistent") else
      if (field? req "nc").bind (·.toNat?) != some v'.g.nodes.length || (field? req "ec").bind (·.toNat?) != some v'.g.edges.length then
        (d, "SPECFAIL side condition counts does not hold: node_count / edge_count disagree with the node and edge iterators") else
      match judgeGraph d v' lab' line with
      | some why => ({ d with v := v', vok := true, lab := lab', gline := line, pend := .idle }, s!"SPECFAIL {why}")
      | none =>
      match contractWhy d v' with
      | some why => ({ d with v := v', vok := true, lab := lab', gline := line, pend := .idle }, s!"SPECFAIL side condition {why}")
      | none =>
        -- complete the model update that needs the graph after the call
        let (m', lost, note) := match d.pend with
          | .addNode _ i =>
            match Acy.addNode v' d.m i with
            | .ok m' => (m', d.lost, "")
            | .error e => (d.m, true, s!"MODELDIFF model=[panic {e}] impl=[add_node returned]")
          | .remNode n =>
            match Acy.removeNode d.v v' d.m n with
            | .ok (m', _) => (m', d.lost, "")
            | .error e => (d.m, true, s!"MODELDIFF model=[panic {e}] impl=[remove_node returned]")
          | _ => (d.m, d.lost, "")
        let d' := { d with v := v', vok := true, lab := lab', gline := line, m := m', lost := lost, pend := .idle }
        if note != "" then (d', note) else
        -- G-A: every state the model is judged in satisfies `Safe` (hypothesis of the step / history / no-panic theorems)
        match (if d.have_ && !lost then safeWhyOpt v' m' else none) with
        | some why => (d', why)
        | none =>
          -- replay of the instantiated machines (C01 / C02 storage model + bookkeeping)
          match (if d.have_ && !lost then replayDiff d v' m' else none) with
          | some why => ({ d' with ag := none, as := none, rnote := "" }, s!"MODELDIFF model=[{why}] impl=[graph line]")
          | none => (d', "ok")
  | "from" :: _via :: _ =>
    let v := d.v
    -- G-A: the hypotheses of `C14_try_from_graph_exact` (well-formed view, `TopoFuelOk`) were checked on the graph line
    if !d.vok then (d, "SPECFAIL side condition graph-line does not hold: `from` without a checked graph line") else
    let specCyc := cycleEdge v.g
    let implOk := impl == "ok"
    let spec : Option String :=
      match specCyc with
      | some (some e) => if implOk then some s!"a graph with the cycle through edge {e.src}->{e.tgt} was accepted" else
          if impl.startsWith "err cycle" then none else some s!"unexpected answer {impl}"
      | some none => if implOk then none else some s!"an acyclic graph was refused: {impl}"
      | none => none
    match tryFromGraph v with
    | .error e => ({ d with have_ := implOk, lost := true, pend := if implOk then .same else .idle }, verdict spec s!"panic {e}" impl)
    | .ok (.inl x) =>
      ({ d with have_ := implOk, lost := implOk, pend := if implOk then .same else .idle, mustSame := false }, verdict spec s!"err cycle {x}" impl)
    | .ok (.inr m) =>
      -- replay: rebuild the `Graph` / `StableGraph` behind the graph line (for a `StableGraph` with the
      -- free lists the harness observed: `fn=`, `fe=`, `nl=`, `el=`) and wrap it
      let g0 := AcyG.ofView v (labelOf d.lab) d.endv
      let (ag, rnote) : Option AcyG.AG × String :=
        if d.stable || !implOk then (none, "") else
        if !(AcyG.sameView (AcyG.gView g0) v) then (none, "the C01 storage state could not be rebuilt from the graph line") else
        match AcyG.AG.tryFromGraph g0 with
        | .ok (.inr x) => (some x, "")
        | _ => (none, "the C01-based machine did not accept the graph")
      let freeN := parseNats ((field? req "fn").getD "-")
      let freeE := parseNats ((field? req "fe").getD "-")
      let nl := ((field? req "nl").bind (·.toNat?)).getD 0
      let el := ((field? req "el").bind (·.toNat?)).getD 0
      let s0 := { AcyS.ofView v (labelOf d.lab) d.endv freeN freeE nl el with noLimit := d.noLimit, debug := d.dbg }
      let (as, rnote) : Option AcyS.AS × String :=
        if !d.stable || !implOk then (none, rnote) else
        if !(AcyS.freeListsFit v freeN freeE nl el) then (none, "the reported free lists are not the vacant slots") else
        if !(AcyS.sameView (AcyS.sView s0) v) then (none, "the C02 storage state could not be rebuilt from the graph line") else
        match AcyS.AS.tryFromGraph s0 with
        | .ok (.inr x) => (some x, "")
        | _ => (none, "the C02-based machine did not accept the graph")
      let d' := { d with have_ := implOk, lost := !implOk, m := m, pend := if implOk then .same else .idle, mustSame := false,
                         ag := ag, as := as, rnote := rnote }
      match (if implOk then safeWhyOpt v m else none) with
      | some why => (d', why)
      | none => (d', verdict spec "ok" impl)
  | _ =>
  if !d.have_ then (d, s!"SPECFAIL bad request {req} (no object)") else
  if d.lost then
    -- the mirror model is out of step since an earlier MODELDIFF; keep judging nothing further
    (d, "MODELDIFF model=[state lost after an earlier disagreement] impl=[-]")
  else
  match req with
  | ["clone"] => ({ d with pend := .same, mustSame := true }, cmpExact "ok" impl)
  | ["add_node", l] =>
    let l := l.toNat?.getD 0
    -- the documented panic of the inner graph at the node limit of its index type (`Ix::max()` is reserved): exactly
    -- when every index below the limit is live; the harness tried it on a clone, the object is untouched
    let atLimit := !d.noLimit && d.v.g.nodes.length ≥ d.endv
    if impl == "panic" then
      ({ d with pend := .same, mustSame := true },
        verdict (if atLimit then none else some s!"add_node panicked although only {d.v.g.nodes.length} of {d.endv} indices are in use") "panic" impl)
    else
    match impl.toNat? with
    | none => (d, s!"SPECFAIL add_node answered {impl}")
    | some i =>
      let spec := if live d.v i then some s!"add_node returned index {i} which is already live"
        else if !d.noLimit && i ≥ d.endv then some s!"add_node returned index {i}, not below the limit {d.endv} of the index type" else none
      let model := if d.stable then toString i else toString d.v.nb
      (replay { d with pend := .addNode l i, mustSame := false } (.addNode l), verdict spec model impl)
  | op :: a :: b :: w :: fl =>
    -- `full`: the harness observed (on a clone of `inner()`) that the inner graph's `add_edge` panics at the edge limit
    -- of its index type; the call ran on a clone that was dropped
    let full := fl == ["full"]
    if !(fl.isEmpty || full) then (d, s!"SPECFAIL bad request {req}") else
    let a := a.toNat?.getD 0
    let b := b.toNat?.getD 0
    let w := w.toInt?.getD 0
    let isTry := op == "try_add_edge" || op == "try_update_edge"
    let isUpd := op == "try_update_edge" || op == "update_edge"
    if !(isTry || op == "add_edge" || op == "update_edge") then (d, s!"SPECFAIL bad request {req}") else
    let both := live d.v a && live d.v b
    let implEid := ((impl.splitOn " ").getD 1 "?")
    -- at the edge limit only `update_edge` of an existing edge gets past the inner graph
    let fits := !full || (isUpd && d.v.g.edges.any fun ed => ed.src == a && ed.tgt == b)
    -- G-A (wave 6): for `Graph` the claim `full` is checkable on the graph line: every edge index below the limit is in use
    if full && !d.stable && !(!d.noLimit && d.v.g.edges.length ≥ d.endv) then
      (d, s!"SPECFAIL side condition edge-limit does not hold: the inner Graph refused an edge with {d.v.g.edges.length} of {d.endv} edge indices in use") else
    -- mirror model
    let (m', modelS, modelAcc) : AState × String × Bool :=
      match tryAddEdge d.v d.m a b with
      | .error _ => (d.m, "panic", false)
      | .ok (m', .accepted) => if fits then (m', (if op == "add_edge" then "some " else "ok ") ++ implEid, true) else (m', "panic", false)
      | .ok (m', .selfLoop) => (m', if isTry then "err selfloop" else if op == "add_edge" then "none" else "panic", false)
      | .ok (m', .cycle n) => (m', if isTry then s!"err cycle {n}" else if op == "add_edge" then "none" else "panic", false)
    -- specification
    let acc := isAccept impl
    let spec : Option String :=
      if !both then
        if acc then some s!"{op}({a},{b}) with an absent endpoint was accepted" else none
      else match mustRejectB d.v.g a b with
        | none => none
        | some rej =>
          if rej && acc then some s!"{op}({a},{b}) was accepted although it {if a == b then "is a self-loop" else "closes a cycle"}"
          else if !rej && !fits then
            (if impl == "panic" then none else some s!"{op}({a},{b}) answered [{impl}] although the inner graph is at its edge limit (its add_edge panics)")
          else if !rej && !acc then some s!"{op}({a},{b}) was refused ({impl}) although it neither is a self-loop nor closes a cycle"
          else if rej then
            let want := if isTry then (if a == b then "err selfloop" else "err cycle") else if op == "add_edge" then "none" else "panic"
            if impl.startsWith want then none else some s!"{op}({a},{b}) must be rejected as [{want}], implementation answered [{impl}]"
          else if isUpd then
            -- an existing a->b edge must be the one reported
            match implEid.toNat? with
            | some e =>
              if d.v.g.edges.any (fun ed => ed.src == a && ed.tgt == b) && !(d.v.g.edges.any fun ed => ed.id == e && ed.src == a && ed.tgt == b)
              then some s!"{op}({a},{b}) returned edge {e} which is not an existing {a}->{b} edge" else none
            | none => some s!"{op}({a},{b}) accepted without an edge id"
          else none
    if both && !full then
      let pend := if acc then (if isUpd then Pend.updEdge a b w else Pend.addEdge a b w) else Pend.same
      (replay { d with m := m', lost := modelAcc != acc, pend := pend, mustSame := !acc }
        (if isUpd then .tryUpdateEdge a b w.toNat else .tryAddEdge a b w.toNat), verdict spec modelS impl)
    else
      ({ d with pend := .same, mustSame := true }, verdict spec modelS impl)
  | ["remove_edge", e] =>
    let e := e.toNat?.getD 0
    match d.v.edge? e with
    | some ed =>
      let want := s!"some {ed.w}"
      (replay { d with pend := if impl == want then .remEdge e else .idle, mustSame := false } (.removeEdge e),
        verdict (expectS want impl) want impl)
    | none => (replay { d with pend := .same, mustSame := true } (.removeEdge e), verdict (expectS "none" impl) "none" impl)
  | ["remove_node", n] =>
    let n := n.toNat?.getD 0
    if live d.v n then
      let want := s!"some {labelOf d.lab n}"
      (replay { d with pend := if impl == want then .remNode n else .idle, mustSame := false } (.removeNode n),
        verdict (expectS want impl) want impl)
    else (replay { d with pend := .same, mustSame := true } (.removeNode n), verdict (expectS "none" impl) "none" impl)
  -- ------------------------------------------------------------------ the dump
  | ["order"] =>
    let o := parseNats impl
    let spec := match judgeOrder d.v.g o with
      | some why => some why
      | none => if d.mustSame && impl != d.lastOrder then some s!"the order changed from {d.lastOrder} to {impl} although the call was rejected / a no-op" else none
    ({ d with implOrder := o, lastOrder := impl }, verdict spec (showNats d.m.om.nodesIter) impl)
  | ["pos"] =>
    let ps := parsePairs impl
    let spec :=
      if impl.contains 'p' then some "get_position of a live node panicked"
      else match judgePos d.implOrder ps with
        | some why => some why
        | none => if d.mustSame && impl != d.lastPos then some s!"positions changed although the call was rejected / a no-op" else none
    let model := showPosPairs (d.v.g.nodes.map fun n => (n, showGetPos d.m n))
    ({ d with implPos := ps, lastPos := impl }, verdict spec model impl)
  | ["gpx", l] =>
    (d, cmpExact (joinS ((parseNats l).map (showGetPos d.m))) impl)
  | ["at", lo, hi] =>
    let lo := lo.toNat?.getD 0
    let hi := hi.toNat?.getD 0
    let toks := if impl == "-" then [] else impl.splitOn ","
    let ans := toks.map fun t => t.toNat?
    let spec := if toks.length != hi + 1 - lo then some "malformed at answer" else judgeAt d.implPos lo ans
    let model := joinS ((List.range (hi + 1 - lo)).map fun i => showOptTok (d.m.om.atPos (lo + i)))
    (d, verdict spec model impl)
  | ["range", lo, hi] =>
    let lo := parseBnd lo
    let hi := parseBnd hi
    let model := match d.m.om.range lo hi with
      | some l => showNats l
      | none => "panic"
    let spec :=
      if rangePanics lo hi then none      -- std's BTreeMap decides (panic); exact comparison only
      else if impl == "panic" then some "range panicked on well-formed bounds"
      else expectS (showNats (rangeSpec d.implOrder d.implPos lo.loOk hi.hiOk)) impl
    (d, verdict spec model impl)
  | ["valid"] =>
    let (m', mv) := modelValid d.v d.m
    let spec := match parseValid impl with
      | none => some "is_valid_edge panicked on a pair of live nodes (or malformed answer)"
      | some l =>
        match judgeValid d.v.g l with
        | some why => some why
        | none => if d.mustSame && impl != d.lastValid then some "is_valid_edge answers changed although the call was rejected / a no-op" else none
    match safeWhyOpt d.v m' with
    | some why => ({ d with m := m', lastValid := impl, mustSame := false }, why)
    | none => ({ d with m := m', lastValid := impl, mustSame := false }, verdict spec (showValid mv) impl)
  | ["validp"] =>
    -- a sample of pairs (big graphs): the pairs are those of the answer
    match parseValid impl with
    | none => (d, "SPECFAIL is_valid_edge panicked on a pair of live nodes (or malformed answer)")
    | some l =>
      if !(l.all fun (a, b, _) => live d.v a && live d.v b) then (d, "SPECFAIL bad request validp (a pair with an absent node)") else
      let (m', mv) := modelValidPairs d.v d.m (l.map fun (a, b, _) => (a, b))
      match safeWhyOpt d.v m' with
      | some why => ({ d with m := m', mustSame := false }, why)
      | none => ({ d with m := m', mustSame := false }, verdict (judgeValid d.v.g l) (showValid mv) impl)
  | ["validx", ps] =>
    -- is_valid_edge with an absent endpoint, each call on a fresh clone: nothing is determined by the property
    -- (a documented panic, or an answer from a stale order entry); exact comparison with the mirror model only
    let model := (parseAB ps).map fun (a, b) =>
      match isValidEdge d.v d.m a b with
      | .ok (_, r) => if r then "1" else "0"
      | .error _ => "p"
    (d, cmpExact (String.intercalate "," model) impl)
  | _ => (d, s!"SPECFAIL bad request {req}")

end PetgraphModel.C14
