import PetgraphModel.Common
import PetgraphModel.GraphProto
import PetgraphModel.Oracle.Reach
import PetgraphModel.Oracle.C20Judge
import PetgraphModel.Model.C20
import PetgraphModel.Model.C20Steiner
import PetgraphModel.Model.C20W4Scope
import PetgraphModel.Model.C20W4DsaturBin
import PetgraphModel.Model.C20W4CliquesRun
/-
C20 driver.  Requests (after a `graph …` line; all ids abstract):

  fas eorder=<edge ids in edge_references order>       => <edge ids returned, iteration order>
  dsatur                                               => colors=<a:c,..> k=<k>
  tred topo=<nodes in the toposort handed in>          => revmap=<a:r,..> len=<n> res=<r:s,s;..> red=<..> clo=<..>
  cliques                                              => <c1;c2;..>        (`e` = the empty clique)
  paths <a> <b> <min> <max|none>                       => <p1;p2;..>        (iterator order)
  steiner terms=<..>                                   => nodes=<..> edges=<edge ids>
  pagerank d=<num>/<den> it=<k> perm=<p> [tol=<units>]  => <ranks·1e12>|<ranks·1e12 of the relabelled copy>
                                                          (tol: tolerance in units of 1e-12; default 1000 = 1e-9; the f32 runs send 2e-5)
  note <tags>                                          => -                 (tags of the case for the distribution report; always `ok`)
  law <name> <details>                                 => ok | VIOLATED <why>
                                                          (wave 6: a law the harness checked against the implementation itself — iterator
                                                          contracts of the returned iterators and of the result types' readers, independence
                                                          of a type parameter, capacity corners; anything but `ok` is a SPECFAIL)

Verdict = (0) run-time checks of the hypotheses of the property theorems (`Model/C20W4Scope.lean`,
`Steiner.scopeB`, `DsaturBin.hypsB`, …; a failing check of something the graph type / encoding must
guarantee is `SPECFAIL side condition …`, one that only concerns the generated input is
`SPECFAIL generator left the proved range …`), (1) spec-level judge (Oracle/C20Judge.lean) on the
implementation's answer against the abstract graph, then (2) exact comparison with the mirror model:
fas, tred, paths (`from = to` too), dsatur (the exact `BinaryHeap` mirror `DsaturBin.run`) — determined
by the view's iteration orders; cliques and steiner — existential over what the hash order decides
(`CliquesRun.check`: some run of Bron–Kerbosch with the code's pivot rule reports the cliques in this
order; `Steiner.mstCandidates`: some tie order of Kruskal's heap yields this subgraph); page_rank
numerically.
-/
namespace PetgraphModel.C20
open PetgraphModel PetgraphModel.Oracle

structure DState where
  v : View := default
  ok : Bool := false

def verdict (spec : Option String) (model impl : String) : String :=
  match spec with
  | some why => s!"SPECFAIL {why}"
  | none => cmpExact model impl

/-- `i:a,b;j:-` -/
def parseRows (s : String) : List (Nat × List Nat) :=
  if s == "-" then [] else
  (s.splitOn ";").filterMap fun r =>
    match r.splitOn ":" with
    | [i, row] => i.toNat?.map fun i => (i, parseNats row)
    | _ => none

def showRows (rows : List (List Nat)) : String :=
  if rows.isEmpty then "-" else
  String.intercalate ";" ((List.range rows.length).map fun i => s!"{i}:{showNats (rows.getD i [])}")

def showPairs (l : List (Nat × Nat)) : String :=
  if l.isEmpty then "-" else String.intercalate "," (l.map fun p => s!"{p.1}:{p.2}")

/-! ### page_rank: numeric judge -/

/-- `|x·den − num·1e12| ≤ tol·den`  for the rational `num/den` -/
def closeTo (x : Int) (q : Rat) (tol : Int) : Bool :=
  let lhs := x * (q.den : Int) - q.num * 1000000000000
  lhs.natAbs ≤ (tol * (q.den : Int)).natAbs

def parseRat (s : String) : Option Rat :=
  match s.splitOn "/" with
  | [a, b] => match a.toInt?, b.toNat? with
    | some a, some b => if b = 0 then none else some ((a : Rat) / (b : Rat))
    | _, _ => none
  | _ => none

def hasNaN (s : String) : Bool := (s.splitOn ",").any fun t => t == "nan"

/-- spec-level clauses of page_rank on the printed integers (rank·1e12; `tol` units of 1e-12: 1000 = 1e-9
for `f64`, 2e7 = 2e-5 for `f32`) -/
def judgeRanks (tol : Nat) (n : Nat) (perm : List Nat) (r1 r2 : List Int) : Option String :=
  if r1.length != n || r2.length != n then some s!"{r1.length} / {r2.length} ranks for {n} node indices"
  else if n == 0 then none
  else if r1.any (· < 0) || r2.any (· < 0) then some "a rank is negative"
  else if (r1.sum - 1000000000000).natAbs > tol then some s!"ranks sum to {r1.sum}e-12, not 1"
  else if (r2.sum - 1000000000000).natAbs > tol then some s!"ranks of the relabelled copy sum to {r2.sum}e-12, not 1"
  else
    match (List.range n).find? fun a => ((r1.getD a 0) - (r2.getD (applyPerm perm a) 0)).natAbs > tol with
    | some a => some s!"rank of node {a} is {r1.getD a 0}e-12 but its image {applyPerm perm a} in the relabelled copy has {r2.getD (applyPerm perm a) 0}e-12"
    | none => none

/-- lexicographic order on node lists (`Vec<usize>` ordering) -/
def lexLe : List Nat → List Nat → Bool
  | [], _ => true
  | _ :: _, [] => false
  | a :: as, b :: bs => a < b || (a == b && lexLe as bs)

/-- answer to any request of a case whose `graph` line failed `viewOkB` -/
def sideViewMsg : String :=
  "SPECFAIL side condition viewOk does not hold: neighbour iteration of this encoding does not describe the abstract graph"

def step (d : DState) (req : List String) (impl : String) : DState × String :=
  let g := d.v.g
  match req with
  | "case" :: k :: _ => ({}, s!"case {k}")
  | "graph" :: _ =>
    match parseView req with
    | none => (d, "SPECFAIL unparsable graph line")
    | some v =>
      if viewOkB v then ({ v := v, ok := true }, "ok")
      else ({ v := v, ok := false }, "SPECFAIL neighbour iteration of this encoding does not describe the abstract graph")
  | ["fas", eo] =>
    if !d.ok then (d, sideViewMsg) else
    if impl == "panic" then (d, "SPECFAIL greedy_feedback_arc_set panicked") else
    let eorder := parseNats ((eo.drop 7).toString)
    let removed := parseNats impl
    if !g.directed then (d, "SPECFAIL generator left the proved range: feedback arc set of an undirected graph") else
    if !fasScopeB g eorder then (d, "SPECFAIL side condition fasScope does not hold: edge_references does not list the graph's edges") else
    let es := (fasOrder g eorder).map fun e => (e.id, e.src, e.tgt)
    let spec := if sameSet eorder (g.edges.map (·.id)) then judgeFas g removed else some "edge_references does not list the graph's edges once each"
    (d, verdict spec (showNats (Fas.feedbackArcSet es)) impl)
  | ["dsatur"] =>
    if !d.ok then (d, sideViewMsg) else
    if impl == "panic" then (d, "SPECFAIL dsatur_coloring panicked") else
    if !DsaturBin.undirectedB g then (d, "SPECFAIL generator left the proved range: dsatur_coloring of a directed graph") else
    if !DsaturBin.hypsB g then (d, "SPECFAIL side condition dsaturHyps does not hold: a node is listed twice or an edge ends outside the nodes") else
    if !DsaturBin.viewPermB d.v then (d, "SPECFAIL side condition viewPerm does not hold: neighbors() is not a rearrangement of the abstract neighbours") else
    let ws := splitWords impl
    match field? ws "colors", (field? ws "k").bind (·.toNat?) with
    | some cs, some k =>
      -- exact part: the mirror of the code with std's `BinaryHeap` (every tie of the heap is decided
      -- as the real sift-up / sift-down-to-bottom decide it); by `C20_dsatur_run_check` this run is an
      -- instance of the oracle model of `C20_dsatur_heap_model`
      let model := (DsaturBin.answer d.v).getD "model-out-of-fuel"
      (d, verdict (judgeDsatur g (parsePairs cs) k) model impl)
    | _, _ => (d, s!"SPECFAIL malformed answer {impl}")
  | ["tred", tp] =>
    if !d.ok then (d, sideViewMsg) else
    if impl == "panic" then (d, "SPECFAIL tred panicked") else
    let topo := parseNats ((tp.drop 5).toString)
    if !dagInputB d.v topo then
      (if g.directed && decide (∀ e ∈ g.edges, topo.idxOf e.src < topo.idxOf e.tgt) && decide topo.Nodup && sameSet topo g.nodes
        then (d, "SPECFAIL side condition dagInput does not hold: Incoming iteration, node ids or edge endpoints of this encoding are inconsistent")
        else (d, "SPECFAIL generator left the proved range: not a DAG with a toposort of its nodes")) else
    let ws := splitWords impl
    match field? ws "revmap", field? ws "len", field? ws "res", field? ws "red", field? ws "clo" with
    | some rm, some len, some res, some red, some clo =>
      let ans : TredAnswer := { revmap := parsePairs rm, res := parseRows res, red := parseRows red, clo := parseRows clo }
      let n := g.nodes.length
      let (mres, mrev) := Tred.toposorted d.v.pred id n topo
      let (mred, mclo) := Tred.reductionClosure mres
      let model := s!"revmap={showPairs ((List.range n).map fun a => (a, mrev.getD a 0))} len={n} res={showRows mres} red={showRows mred} clo={showRows mclo}"
      let _ := len
      (d, verdict (judgeTred g topo ans) model impl)
    | _, _, _, _, _ => (d, s!"SPECFAIL malformed answer {impl}")
  | ["cliques"] =>
    if !d.ok then (d, sideViewMsg) else
    if impl == "panic" then (d, "SPECFAIL maximal_cliques panicked") else
    if g.directed then (d, "SPECFAIL generator left the proved range: maximal_cliques of a directed graph") else
    if !CliquesRun.nodupB g.nodes then (d, "SPECFAIL side condition nodesNodup does not hold: a node is listed twice") else
    let out := parseNatLists impl
    -- exact part: SOME run of the Bron–Kerbosch mirror with the code's pivot rule (a vertex of P of
    -- maximal degree; the tie and the exploration order are the hash order) reports exactly these
    -- cliques in exactly this order (`CliquesRun.check`, sound by `C20_cliques_run_check`)
    match judgeCliques g out with
    | some why => (d, s!"SPECFAIL {why}")
    | none =>
      match CliquesRun.check g out with
      | none => (d, "ok")
      | some why => (d, s!"MODELDIFF model=[{why}] impl=[{impl}]")
  | ["paths", a, b, lo, hi] =>
    if !d.ok then (d, sideViewMsg) else
    if impl == "panic" then (d, "SPECFAIL all_simple_paths panicked") else
    match a.toNat?, b.toNat?, lo.toNat? with
    | some a, some b, some lo =>
      if !g.directed then (d, "SPECFAIL generator left the proved range: all_simple_paths judged on directed graphs only") else
      if !pathsScopeB g a then (d, "SPECFAIL side condition pathsScope does not hold: an edge ends outside the nodes or `from` is not a node") else
      let hi := hi.toNat?
      let out := parseNatLists impl
      -- the iterator's work is not bounded by the size of its output (an absent target, `min` above what
      -- the graph offers: the whole tree of simple paths from `a` is explored and nothing is yielded), hence
      -- the constant floor: enough for the complete digraph on 8 nodes (~1.1e5 steps); fuel is only an upper bound
      let fuel := 64 * (g.nodes.length + 2) * (g.edges.length + 2) * (out.length + 2) + 4000000
      let model := match Paths.allSimplePaths d.v.succ g.nodes.length a b lo hi fuel with
        | some ps => showNatLists ps
        | none => "FUEL"
      -- `from = to`: the statement of `C20_paths_from_eq_to` (simple cycles through `a`)
      let spec := if a == b then judgeCycles g a lo hi out else judgePaths g a b lo hi out
      (d, verdict spec model impl)
    | _, _, _ => (d, "SPECFAIL bad request")
  | ["steiner", ts] =>
    if !d.ok then (d, sideViewMsg) else
    if impl == "panic" then (d, "SPECFAIL steiner_tree panicked") else
    let terms := parseNats ((ts.drop 6).toString)
    if g.directed then (d, "SPECFAIL generator left the proved range: steiner_tree of a directed graph") else
    if !C11M.wfB g then (d, "SPECFAIL side condition wellFormed does not hold: a node is listed twice or an edge ends outside the nodes") else
    if !C11M.viewArcsB d.v then (d, "SPECFAIL side condition viewArcs does not hold: edges() does not describe the abstract graph's arcs") else
    if !Steiner.scopeB d.v terms then (d, "SPECFAIL generator left the proved range: a cost beyond 2^32 or a terminal that is not a node") else
    if !C10.viewOkB d.v && g.edges.all (fun e => decide (0 ≤ e.w)) then (d, "SPECFAIL side condition viewArcs does not hold: edges() does not describe the abstract graph's arcs") else
    if !Steiner.domainB d.v terms then (d, "SPECFAIL generator left the proved range: a cost that is not positive or terminals that are not connected") else
    let ws := splitWords impl
    if ws.contains "INCONSISTENT" then (d, "SPECFAIL a retained edge changed its endpoints or weight") else
    match field? ws "nodes", field? ws "edges" with
    | some ns, some es =>
      let N := parseNats ns
      let E := parseNats es
      -- exact part: is there a run of the mirror model (some tie order of Kruskal's heap, i.e. some
      -- hash order of the metric closure) that returns exactly this subgraph?
      let exact : String :=
        match C11M.floydWarshall C11M.Meas.i64 d.v, Steiner.closure d.v terms with
        | some fw, some c =>
          let hit (pops : List Steiner.Item) : Bool := Steiner.popsOkB terms pops &&
            match Steiner.steinerWith (Steiner.prevOf fw) g terms pops with
            | .ok mn me => sortNats mn == N && sortNats me == E
            | _ => false
          -- guided search: only closure edges whose expanded path lies inside the answer can have been
          -- accepted by Kruskal's loop; then (small closures only) the full enumeration
          let implPairs := (resultEdges g E).map fun e => (e.src, e.tgt)
          let allowed := Steiner.compatible (Steiner.prevOf fw) g.nodes.length implPairs c
          if (Steiner.mstCandidatesIn c allowed).any hit then "ok"
          else if c.length ≤ 15 && (Steiner.mstCandidates c).any hit then "ok"
          else
            let first := match (Steiner.mstCandidatesIn c c.reverse).head? with
              | some pops => match Steiner.steinerWith (Steiner.prevOf fw) g terms pops with
                | .ok mn me => s!"nodes={showNats (sortNats mn)} edges={showNats (sortNats me)}"
                | .panic => "panic"
                | .diverge => "does not return"
              | none => "no spanning tree of the closure"
            s!"MODELDIFF model=[no minimum spanning tree of the metric closure ({c.length} entries, {allowed.length} of them expand inside this answer) yields this subgraph; e.g. {first}] impl=[{impl}]"
        | _, _ => s!"MODELDIFF model=[panic] impl=[{impl}]"
      match judgeSteiner g terms N E with
      | .ok => (d, exact)
      | .fail why => (d, s!"SPECFAIL {why}")
      | .cycleOnly why =>
        -- D21 is classified narrowly: the answer must be one the mirror model OF THE UNCHANGED CODE
        -- produces (a cyclic union of expanded shortest paths); any other subgraph with a cycle is a failure
        if exact == "ok" then
          (d, s!"KNOWN D21 {why}; every other clause (inside the graph, terminals, leaves, connected, weight <= 2*optimum) holds, and the mirror model of the unchanged code returns exactly this subgraph")
        else (d, s!"SPECFAIL {why} (not finding D21: no run of the mirror model of the unchanged code returns this subgraph)")
    | _, _ => (d, s!"SPECFAIL malformed answer {impl}")
  | "pagerank" :: ds :: its :: ps :: rest =>
    if !d.ok then (d, sideViewMsg) else
    let tol : Nat := match rest with
      | [t] => if t.startsWith "tol=" then ((t.drop 4).toString.toNat?).getD 1000 else 1000
      | _ => 1000
    match parseRat ((ds.drop 2).toString), ((its.drop 3).toString).toNat?, impl.splitOn "|" with
    | some dq, some it, [s1, s2] =>
      let perm := parseNats ((ps.drop 5).toString)
      let n := g.nodes.length
      if !nodesNodupB g || !endpointsB g then (d, "SPECFAIL side condition pagerankGraph does not hold: a node is listed twice or an edge ends outside the nodes") else
      if !pagerankScopeB g dq perm then (d, "SPECFAIL generator left the proved range: damping factor outside [0,1] or perm is not a permutation") else
      if s1 == "panic" || s2 == "panic" then (d, "SPECFAIL page_rank panicked for a damping factor in [0,1]") else
      let model := PR.pageRank g dq it
      if hasNaN s1 || hasNaN s2 then
        if dq = 0 then
          (d, s!"KNOWN D22 NaN ranks with damping factor 0 (normalising sum of the rational model is {if model.isNone then "zero" else "non-zero"})")
        else (d, "SPECFAIL NaN ranks for a damping factor in (0,1]")
      else
      let r1 := parseInts s1
      let r2 := parseInts s2
      match judgeRanks tol n perm r1 r2 with
      | some why => (d, s!"SPECFAIL {why}")
      | none =>
        if n == 0 then (d, "ok") else
        match model with
        | none => (d, "MODELDIFF model=[normalising sum is zero] impl=[finite ranks]")
        | some m =>
          match (List.range n).find? fun a => !(closeTo (r1.getD a 0) (PR.rk m a) (tol + 1)) with
          | none => (d, "ok")
          | some a => (d, s!"MODELDIFF model=[rank {a} = {PR.rk m a}] impl=[{r1.getD a 0}e-12]")
    | _, _, _ => (d, s!"SPECFAIL bad request")
  | "note" :: _ => (d, "ok")
  | "law" :: name :: _ =>
    if impl == "ok" then (d, "ok")
    else (d, s!"SPECFAIL law {name} does not hold for the implementation: {impl} ({String.intercalate " " req})")
  | _ => (d, s!"SPECFAIL bad request {req}")

end PetgraphModel.C20
