import PetgraphModel.Common
import PetgraphModel.GraphProto
import PetgraphModel.Oracle.Reach
import PetgraphModel.Oracle.C20Judge
import PetgraphModel.Model.C20
/-
C20 driver.  Requests (after a `graph …` line; all ids abstract):

  fas eorder=<edge ids in edge_references order>       => <edge ids returned, iteration order>
  dsatur                                               => colors=<a:c,..> k=<k>
  tred topo=<nodes in the toposort handed in>          => revmap=<a:r,..> len=<n> res=<r:s,s;..> red=<..> clo=<..>
  cliques                                              => <c1;c2;..>        (`e` = the empty clique)
  paths <a> <b> <min> <max|none>                       => <p1;p2;..>        (iterator order)
  steiner terms=<..>                                   => nodes=<..> edges=<edge ids>
  pagerank d=<num>/<den> it=<k> perm=<p>               => <ranks·1e12>|<ranks·1e12 of the relabelled copy>

Verdict = spec-level judge (Oracle/C20Judge.lean) on the implementation's answer against the abstract
graph, then exact comparison with the mirror model (Model/C20.lean) where the answer is determined
by the view's iteration orders (fas, tred, paths) or unique (cliques; page_rank numerically).
-/
namespace PetgraphModel.C20
open PetgraphModel PetgraphModel.Oracle

structure DState where
  v : View := default
  ok : Bool := false

/-- the view's neighbour lists describe the abstract graph (as multisets) -/
def viewOkB (v : View) : Bool :=
  v.g.nodes.all fun a => sameSet (v.succ a) (v.g.succ a) && sameSet (v.pred a) (v.g.pred a)

def verdict (spec : Option String) (model impl : String) : String :=
  match spec with
  | some why => s!"SPECFAIL {why}"
  | none => cmpExact model impl

/-- `i:a,b;j:-` -/
def parseRows (s : String) : List (Nat × List Nat) :=
  if s == "-" then [] else
  (s.splitOn ";").filterMap fun r =>
    match r.splitOn ":" with
    | [i, row] => i.toNat?.map fun i => (i, parseNats row)
    | _ => none

def showRows (rows : List (List Nat)) : String :=
  if rows.isEmpty then "-" else
  String.intercalate ";" ((List.range rows.length).map fun i => s!"{i}:{showNats (rows.getD i [])}")

def showPairs (l : List (Nat × Nat)) : String :=
  if l.isEmpty then "-" else String.intercalate "," (l.map fun p => s!"{p.1}:{p.2}")

/-! ### page_rank: numeric judge -/

/-- `|x·den − num·1e12| ≤ tol·den`  for the rational `num/den` -/
def closeTo (x : Int) (q : Rat) (tol : Int) : Bool :=
  let lhs := x * (q.den : Int) - q.num * 1000000000000
  lhs.natAbs ≤ (tol * (q.den : Int)).natAbs

def parseRat (s : String) : Option Rat :=
  match s.splitOn "/" with
  | [a, b] => match a.toInt?, b.toNat? with
    | some a, some b => if b = 0 then none else some ((a : Rat) / (b : Rat))
    | _, _ => none
  | _ => none

def hasNaN (s : String) : Bool := (s.splitOn ",").any fun t => t == "nan"

def applyPerm (p : List Nat) (a : Nat) : Nat := p.getD a a

/-- spec-level clauses of page_rank on the printed integers (rank·1e12, tolerance 1e-9 = 1000 units) -/
def judgeRanks (n : Nat) (perm : List Nat) (r1 r2 : List Int) : Option String :=
  if r1.length != n || r2.length != n then some s!"{r1.length} / {r2.length} ranks for {n} node indices"
  else if n == 0 then none
  else if r1.any (· < 0) || r2.any (· < 0) then some "a rank is negative"
  else if (r1.sum - 1000000000000).natAbs > 1000 then some s!"ranks sum to {r1.sum}e-12, not 1"
  else if (r2.sum - 1000000000000).natAbs > 1000 then some s!"ranks of the relabelled copy sum to {r2.sum}e-12, not 1"
  else
    match (List.range n).find? fun a => ((r1.getD a 0) - (r2.getD (applyPerm perm a) 0)).natAbs > 1000 with
    | some a => some s!"rank of node {a} is {r1.getD a 0}e-12 but its image {applyPerm perm a} in the relabelled copy has {r2.getD (applyPerm perm a) 0}e-12"
    | none => none

/-- lexicographic order on node lists (`Vec<usize>` ordering) -/
def lexLe : List Nat → List Nat → Bool
  | [], _ => true
  | _ :: _, [] => false
  | a :: as, b :: bs => a < b || (a == b && lexLe as bs)

def step (d : DState) (req : List String) (impl : String) : DState × String :=
  let g := d.v.g
  match req with
  | "case" :: k :: _ => ({}, s!"case {k}")
  | "graph" :: _ =>
    match parseView req with
    | none => (d, "SPECFAIL unparsable graph line")
    | some v =>
      if viewOkB v then ({ v := v, ok := true }, "ok")
      else ({ v := v, ok := false }, "SPECFAIL neighbour iteration of this encoding does not describe the abstract graph")
  | ["fas", eo] =>
    if impl == "panic" then (d, "SPECFAIL greedy_feedback_arc_set panicked") else
    let eorder := parseNats ((eo.drop 7).toString)
    let removed := parseNats impl
    let es := eorder.filterMap fun i => (g.edges.find? (·.id == i)).map fun e => (e.id, e.src, e.tgt)
    let spec := if sameSet eorder (g.edges.map (·.id)) then judgeFas g removed else some "edge_references does not list the graph's edges"
    (d, verdict spec (showNats (Fas.feedbackArcSet es)) impl)
  | ["dsatur"] =>
    if impl == "panic" then (d, "SPECFAIL dsatur_coloring panicked") else
    let ws := splitWords impl
    match field? ws "colors", (field? ws "k").bind (·.toNat?) with
    | some cs, some k =>
      -- determined part: the colouring is a greedy one (every node sees all smaller colours among its
      -- neighbours), as it is for any pop order of the heap (`C20_dsatur_any_order`)
      let col := parsePairs cs
      let greedyOk := col.all fun p => (List.range p.2).all fun c =>
        (g.succ p.1).any fun u => col.lookup u == some c
      (d, verdict (judgeDsatur g col k) "greedy" (if greedyOk then "greedy" else s!"not-greedy {cs}"))
    | _, _ => (d, s!"SPECFAIL malformed answer {impl}")
  | ["tred", tp] =>
    if impl == "panic" then (d, "SPECFAIL tred panicked") else
    let topo := parseNats ((tp.drop 5).toString)
    let ws := splitWords impl
    match field? ws "revmap", field? ws "len", field? ws "res", field? ws "red", field? ws "clo" with
    | some rm, some len, some res, some red, some clo =>
      let ans : TredAnswer := { revmap := parsePairs rm, res := parseRows res, red := parseRows red, clo := parseRows clo }
      let n := g.nodes.length
      let (mres, mrev) := Tred.toposorted d.v.pred id n topo
      let (mred, mclo) := Tred.reductionClosure mres
      let model := s!"revmap={showPairs ((List.range n).map fun a => (a, mrev.getD a 0))} len={n} res={showRows mres} red={showRows mred} clo={showRows mclo}"
      let _ := len
      (d, verdict (judgeTred g topo ans) model impl)
    | _, _, _, _, _ => (d, s!"SPECFAIL malformed answer {impl}")
  | ["cliques"] =>
    if impl == "panic" then (d, "SPECFAIL maximal_cliques panicked") else
    let out := parseNatLists impl
    -- unique answer: also compared exactly (each clique ascending, list sorted lexicographically by the harness)
    let want := ((maxCliques g).map sortNats).mergeSort lexLe
    let model := if want.isEmpty then "-" else String.intercalate ";" (want.map fun c => if c.isEmpty then "e" else showNats c)
    (d, verdict (judgeCliques g out) model impl)
  | ["paths", a, b, lo, hi] =>
    if impl == "panic" then (d, "SPECFAIL all_simple_paths panicked") else
    match a.toNat?, b.toNat?, lo.toNat? with
    | some a, some b, some lo =>
      let hi := hi.toNat?
      let out := parseNatLists impl
      let fuel := 64 * (g.nodes.length + 2) * (g.edges.length + 2) * (out.length + 2)
      let model := match Paths.allSimplePaths d.v.succ g.nodes.length a b lo hi fuel with
        | some ps => showNatLists ps
        | none => "FUEL"
      (d, verdict (judgePaths g a b lo hi out) model impl)
    | _, _, _ => (d, "SPECFAIL bad request")
  | ["steiner", ts] =>
    if impl == "panic" then (d, "SPECFAIL steiner_tree panicked") else
    let terms := parseNats ((ts.drop 6).toString)
    let ws := splitWords impl
    if ws.contains "INCONSISTENT" then (d, "SPECFAIL a retained edge changed its endpoints or weight") else
    match field? ws "nodes", field? ws "edges" with
    | some ns, some es =>
      match judgeSteiner g terms (parseNats ns) (parseNats es) with
      | .ok => (d, "ok")
      | .fail why =>
        -- new finding: a single terminal yields the empty graph (the tree should be that node alone)
        if terms.length == 1 && ns == "-" && es == "-" then
          (d, s!"KNOWN NEW-steiner-single-terminal steiner_tree with the single terminal {showNats terms} returns the empty graph, which does not contain the terminal")
        else (d, s!"SPECFAIL {why}")
      | .cycleOnly why => (d, s!"KNOWN D21 {why}; every other clause (inside the graph, terminals, leaves, connected, weight <= 2*optimum) holds")
    | _, _ => (d, s!"SPECFAIL malformed answer {impl}")
  | ["pagerank", ds, its, ps] =>
    match parseRat ((ds.drop 2).toString), ((its.drop 3).toString).toNat?, impl.splitOn "|" with
    | some dq, some it, [s1, s2] =>
      let perm := parseNats ((ps.drop 5).toString)
      let n := g.nodes.length
      if s1 == "panic" || s2 == "panic" then (d, "SPECFAIL page_rank panicked for a damping factor in [0,1]") else
      let model := PR.pageRank g dq it
      if hasNaN s1 || hasNaN s2 then
        if dq = 0 then
          (d, s!"KNOWN D22 NaN ranks with damping factor 0 (normalising sum of the rational model is {if model.isNone then "zero" else "non-zero"})")
        else (d, "SPECFAIL NaN ranks for a damping factor in (0,1]")
      else
      let r1 := parseInts s1
      let r2 := parseInts s2
      match judgeRanks n perm r1 r2 with
      | some why => (d, s!"SPECFAIL {why}")
      | none =>
        if n == 0 then (d, "ok") else
        match model with
        | none => (d, "MODELDIFF model=[normalising sum is zero] impl=[finite ranks]")
        | some m =>
          match (List.range n).find? fun a => !(closeTo (r1.getD a 0) (PR.rk m a) 1001) with
          | none => (d, "ok")
          | some a => (d, s!"MODELDIFF model=[rank {a} = {PR.rk m a}] impl=[{r1.getD a 0}e-12]")
    | _, _, _ => (d, s!"SPECFAIL bad request")
  | _ => (d, s!"SPECFAIL bad request {req}")

end PetgraphModel.C20
