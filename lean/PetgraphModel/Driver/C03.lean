import PetgraphModel.Common
import PetgraphModel.Model.GraphMap
import PetgraphModel.Spec.SimpleGraph
import PetgraphModel.Spec.SimpleGraphJudge
/-
C03 driver: runs the mirror model (`GM`) and the abstract simple graph (`SG`) side by side with the
implementation's answers.

* exact part: the model's answer, rendered, must equal the implementation's line (incl. iteration order);
* spec part: the implementation's answer is parsed into an `Out` and judged against the abstract graph
  with the executable counterpart of `SimpleGraphSpec.OutOk` (lists as sets, edge orientation of an
  undirected `all_edges` free, numbering only required to be a bijection …).  Node values are drawn
  from `0..K` (`k=K` on the case line), so the abstract sets are enumerated over `List.range K`.
-/
namespace PetgraphModel.C03
open PetgraphModel PetgraphModel.GM PetgraphModel.SimpleGraphSpec

structure DState where
  s : GM.State := GM.State.empty true
  g : SG := SG.empty true
  k : Nat := 0

/-! ### rendering / parsing -/

def showTriple (t : Nat × Nat × Nat) : String := s!"{t.1}:{t.2.1}:{t.2.2}"
def showTriples (l : List (Nat × Nat × Nat)) : String :=
  if l.isEmpty then "-" else String.intercalate "," (l.map showTriple)
def showPairs (l : List (Nat × Nat)) : String :=
  if l.isEmpty then "-" else String.intercalate "," (l.map fun p => s!"{p.1}:{p.2}")

def showWTriples (l : List (Nat × Nat × Option Nat)) : String :=
  match allSome l with
  | some t => showTriples t
  | none => "panic"

def showGraph (ws : List Nat) (es : List (Option Nat × Option Nat × Nat)) : String :=
  match GM.resolveEdges es with
  | some t => s!"ws={showNats ws} es={showTriples t}"
  | none => "panic"

def showOut : Out → String
  | .unit => "ok"
  | .bool b => showBool b
  | .nat n => toString n
  | .optNat none => "none"
  | .optNat (some n) => s!"some {n}"
  | .pair a b => s!"{a}:{b}"
  | .optPair none => "none"
  | .optPair (some p) => s!"some {p.1}:{p.2}"
  | .natList l => showNats l
  | .triples l => showTriples l
  | .wtriples l => showWTriples l
  | .graph ws es => showGraph ws es
  | .panic => "panic"

def parseNatsStrict (s : String) : Option (List Nat) :=
  if s == "-" then some [] else (s.splitOn ",").mapM (·.toNat?)

def parseTriple (s : String) : Option (Nat × Nat × Nat) :=
  match s.splitOn ":" with
  | [a, b, w] => do some ((← a.toNat?), (← b.toNat?), (← w.toNat?))
  | _ => none

def parsePair (s : String) : Option (Nat × Nat) :=
  match s.splitOn ":" with
  | [a, b] => do some ((← a.toNat?), (← b.toNat?))
  | _ => none

def parseTriples (s : String) : Option (List (Nat × Nat × Nat)) :=
  if s == "-" then some [] else (s.splitOn ",").mapM parseTriple

def parsePairs (s : String) : Option (List (Nat × Nat)) :=
  if s == "-" then some [] else (s.splitOn ",").mapM parsePair

def parseOptNats (s : String) : Option (List (Option Nat)) :=
  if s == "-" then some [] else (s.splitOn ",").mapM fun x => if x == "x" then some none else x.toNat?.map some

def dropPrefix (s pre : String) : Option String :=
  if s.startsWith pre then some (s.drop pre.length).toString else none

/-- shape of the answer a call has -/
inductive Kind | unit | bool | nat | optNat | pair | optPair | natList | triples | wtriples | graph

def kindOf : Op → Kind
  | .addNode _ | .indexSet .. | .index .. | .nodeCount | .edgeCount | .toIndex _ | .fromIndex _
  | .edgeToIndex .. => .nat
  | .addEdge .. | .removeEdge .. | .setWeight .. | .edgeWeight .. => .optNat
  | .removeNode _ | .containsNode _ | .containsEdge .. | .isAdjacent .. => .bool
  | .bumpAll _ | .allEdges => .triples
  | .clear | .extend _ | .roundTrip | .fromGraph .. | .fromEdges _ | .clone => .unit
  | .buildAddEdge .. => .optPair
  | .buildUpdateEdge .. | .edgeFromIndex _ => .pair
  | .neighbors _ | .neighborsDirected .. | .nodes => .natList
  | .edges _ | .edgesDirected .. => .wtriples
  | .intoGraph => .graph

/-- the implementation's answer as an `Out` (`none`: not of the expected shape) -/
def parseOut (k : Kind) (impl : String) : Option Out :=
  if impl == "panic" then some .panic else
  match k with
  | .unit => if impl == "ok" then some .unit else none
  | .bool => if impl == "true" then some (.bool true) else if impl == "false" then some (.bool false) else none
  | .nat => impl.toNat?.map .nat
  | .optNat => if impl == "none" then some (.optNat none) else (dropPrefix impl "some ").bind fun r => r.toNat?.map fun n => .optNat (some n)
  | .pair => (parsePair impl).map fun p => .pair p.1 p.2
  | .optPair => if impl == "none" then some (.optPair none) else (dropPrefix impl "some ").bind fun r => (parsePair r).map fun p => .optPair (some p)
  | .natList => (parseNatsStrict impl).map .natList
  | .triples => (parseTriples impl).map .triples
  | .wtriples => (parseTriples impl).map fun t => .wtriples (someWeights t)
  | .graph =>
    match impl.splitOn " " with
    | [a, b] => do
      let ws ← (dropPrefix a "ws=").bind parseNatsStrict
      let es ← (dropPrefix b "es=").bind parseTriples
      some (.graph ws (es.map fun e => (some e.1, some e.2.1, e.2.2)))
    | _ => none

/-! ### the judge: the decision is `SimpleGraphSpec.judgeB` (proved equivalent to `OutOk`); the functions
below decide with the same boolean procedures and only add the wording of a rejection -/

def orWhy (ok : Bool) (why : Option String) : Option String :=
  if ok then none else some (why.getD "rejected by the specification")

def okNodes (g : SG) (k : Nat) (l : List Nat) : Option String :=
  orWhy (nodesB g k l) <|
    if !(nodupB l) then some s!"node listed twice in [{showNats l}]"
    else if !(l.all g.node) then some s!"[{showNats l}] lists a value that is not a node"
    else some s!"[{showNats l}] misses a node (the graph has {specNodeCount g k})"

def okAllEdges (g : SG) (k : Nat) (l : List (Nat × Nat × Nat)) : Option String :=
  orWhy (allEdgesB g k l) <|
    if !(nodupB (l.map fun e => canon g.directed (e.1, e.2.1))) then some s!"edge listed twice in [{showTriples l}]"
    else match l.find? (fun e => !(validEdge g e)) with
      | some e => some s!"[{showTriples l}] lists {showTriple e} but the edge {e.1}->{e.2.1} is {showOptNat (g.w e.1 e.2.1)}"
      | none => some s!"[{showTriples l}] misses an edge of [{showTriples (specEdges g k)}]"

def okNeighbors (g : SG) (k : Nat) (a : Nat) (d : Dir) (l : List Nat) : Option String :=
  let want := (univ k).filter (hasDir g a d)
  orWhy (neighborsB g k a d l) <|
    if !(nodupB l) then some s!"neighbour listed twice in [{showNats l}] (self-loops are reported once)"
    else if !(l.all (hasDir g a d)) then some s!"[{showNats l}] lists a non-neighbour of {a}; neighbours are [{showNats want}]"
    else some s!"[{showNats l}] misses a neighbour of {a}; neighbours are [{showNats want}]"

def okEdges (g : SG) (k : Nat) (a : Nat) (d : Dir) (t : List (Nat × Nat × Nat)) : Option String :=
  let want := (univ k).filter (hasDir g a d)
  orWhy (edgesB g k a d t) <|
    match t.find? (fun e => !(goodEdge g a d e)) with
    | some e => some s!"{showTriple e} is not an edge with {a} as the {if d = .out then "source" else "target"} and that weight"
    | none =>
      if !(nodupB (t.map (otherEnd d))) then some s!"edge listed twice in [{showTriples t}]"
      else some s!"[{showTriples t}] misses an edge at {a}; neighbours are [{showNats want}]"

def expectOut (want got : Out) : Option String :=
  if want == got then none else some s!"expected [{showOut want}], implementation answered [{showOut got}]"

def isSamePair (g : SG) (a b : Nat) (p : Nat × Nat) : Bool := samePair g.directed a b p.1 p.2

/-- wording of a rejection (the decision itself is `judgeB`) -/
def explain (g : SG) (k : Nat) : Op → Out → Option String
  | .addNode n, o => expectOut (.nat n) o
  | .addEdge a b _, o => expectOut (.optNat (g.w a b)) o
  | .removeNode n, o => expectOut (.bool (g.node n)) o
  | .removeEdge a b, o => expectOut (.optNat (g.w a b)) o
  | .setWeight a b _, o => expectOut (.optNat (g.w a b)) o
  | .indexSet a b _, o | .index a b, o => expectOut (indexOut g a b) o
  | .bumpAll _, .triples l | .allEdges, .triples l => okAllEdges g k l
  | .clear, o | .extend _, o | .roundTrip, o | .fromEdges _, o | .clone, o => expectOut .unit o
  | .fromGraph ws es, o => expectOut (if (SG.fromGraph g.directed ws es).isSome then .unit else .panic) o
  | .buildAddEdge a b _, o =>
    if g.hasEdge a b then expectOut (.optPair none) o
    else match o with
      | .optPair (some p) => if isSamePair g a b p then none else some s!"edge id {p.1}:{p.2} is not the edge {a},{b}"
      | _ => some s!"a new edge must be reported, got [{showOut o}]"
  | .buildUpdateEdge a b _, o =>
    match o with
    | .pair x y => if isSamePair g a b (x, y) then none else some s!"edge id {x}:{y} is not the edge {a},{b}"
    | _ => some s!"edge id expected, got [{showOut o}]"
  | .containsNode n, o => expectOut (.bool (g.node n)) o
  | .containsEdge a b, o | .isAdjacent a b, o => expectOut (.bool (g.hasEdge a b)) o
  | .edgeWeight a b, o => expectOut (.optNat (g.w a b)) o
  | .neighbors a, .natList l => okNeighbors g k a .out l
  | .neighborsDirected a d, .natList l => okNeighbors g k a d l
  | .edges a, .wtriples l =>
    match allSome l with | some t => okEdges g k a .out t | none => some "edges reached unreachable!()"
  | .edgesDirected a d, .wtriples l =>
    match allSome l with | some t => okEdges g k a d t | none => some "edges_directed reached unreachable!()"
  | .nodes, .natList l => okNodes g k l
  | .nodeCount, o => expectOut (.nat (specNodeCount g k)) o
  | .edgeCount, o => expectOut (.nat (specEdgeKeys g k).length) o
  | .toIndex n, o =>
    if g.node n then match o with
      | .nat i => if i < specNodeCount g k then none else some s!"to_index({n}) = {i} is not below node_count"
      | _ => some s!"to_index({n}) of a node answered [{showOut o}]"
    else expectOut .panic o
  | .fromIndex i, o =>
    if i < specNodeCount g k then match o with
      | .nat n => if g.node n then none else some s!"from_index({i}) = {n} is not a node"
      | _ => some s!"from_index({i}) answered [{showOut o}]"
    else expectOut .panic o
  | .edgeToIndex a b, o =>
    match o with
    | .nat i => if g.hasEdge a b && i < (specEdgeKeys g k).length then none else some s!"to_index(({a},{b})) = {i}: not an edge or out of range"
    | .panic => none   -- which of the two orientations of an undirected edge is its id is judged in `dump`
    | _ => some s!"edge to_index answered [{showOut o}]"
  | .edgeFromIndex i, o =>
    if i < (specEdgeKeys g k).length then match o with
      | .pair a b => if g.hasEdge a b then none else some s!"from_index({i}) = {a}:{b} is not an edge"
      | _ => some s!"edge from_index({i}) answered [{showOut o}]"
    else expectOut .panic o
  | .intoGraph, .graph ws es =>
    match okNodes g k ws with
    | some why => some s!"into_graph node weights: {why}"
    | none =>
      match resolveVia ws es with
      | none => some "into_graph: edge endpoint out of range"
      | some t => (okAllEdges g k t).map fun why => s!"into_graph edges: {why}"
  | _, o => some s!"answer [{showOut o}] has the wrong shape"

/-- `none` = the answer is what the property prescribes in the abstract graph `g` (before the call) -/
def judge (g : SG) (k : Nat) (op : Op) (o : Out) : Option String :=
  orWhy (judgeB g k op o) (explain g k op o)

/-! ### request parsing -/

def parseDir (s : String) : Option Dir :=
  if s == "out" then some .out else if s == "in" then some .inc else none

def parseOp (req : List String) : Option Op :=
  let n := fun (s : String) => s.toNat?
  match req with
  | ["add_node", a] => (n a).map .addNode
  | ["add_edge", a, b, w] => do some (.addEdge (← n a) (← n b) (← n w))
  | ["remove_node", a] => (n a).map .removeNode
  | ["remove_edge", a, b] => do some (.removeEdge (← n a) (← n b))
  | ["set_weight", a, b, w] => do some (.setWeight (← n a) (← n b) (← n w))
  | ["index_set", a, b, w] => do some (.indexSet (← n a) (← n b) (← n w))
  | ["bump_all", x] => (n x).map .bumpAll
  | ["clear"] => some .clear
  | ["extend", es] => (parseTriples es).map .extend
  | ["build_add_edge", a, b, w] => do some (.buildAddEdge (← n a) (← n b) (← n w))
  | ["build_update_edge", a, b, w] => do some (.buildUpdateEdge (← n a) (← n b) (← n w))
  | ["round_trip"] => some .roundTrip
  | ["from_graph", ws, es] => do some (.fromGraph (← parseNatsStrict ws) (← parseTriples es))
  | ["from_edges", es] => (parseTriples es).map .fromEdges
  | ["clone"] => some .clone
  | ["contains_node", a] => (n a).map .containsNode
  | ["contains_edge", a, b] => do some (.containsEdge (← n a) (← n b))
  | ["is_adjacent", a, b] => do some (.isAdjacent (← n a) (← n b))
  | ["edge_weight", a, b] => do some (.edgeWeight (← n a) (← n b))
  | ["index", a, b] => do some (.index (← n a) (← n b))
  | ["neighbors", a] => (n a).map .neighbors
  | ["neighbors_directed", a, d] => do some (.neighborsDirected (← n a) (← parseDir d))
  | ["edges", a] => (n a).map .edges
  | ["edges_directed", a, d] => do some (.edgesDirected (← n a) (← parseDir d))
  | ["nodes"] => some .nodes
  | ["all_edges"] => some .allEdges
  | ["node_count"] => some .nodeCount
  | ["edge_count"] => some .edgeCount
  | ["to_index", a] => (n a).map .toIndex
  | ["from_index", i] => (n i).map .fromIndex
  | ["edge_to_index", a, b] => do some (.edgeToIndex (← n a) (← n b))
  | ["edge_from_index", i] => (n i).map .edgeFromIndex
  | ["into_graph"] => some .intoGraph
  | _ => none

/-! ### the dump: a full observation through the public API -/

def outStr (s : GM.State) (op : Op) : String := showOut (GM.step s op).2

def joinD (l : List String) : String := if l.isEmpty then "-" else String.intercalate "," l

def showOptNats (l : List (Option Nat)) : String :=
  if l.isEmpty then "-" else String.intercalate "," (l.map fun o => match o with | some n => toString n | none => "x")

/-- the model's dump line, field for field what `harness/src/c03.rs::dump` prints -/
def modelDump (s : GM.State) (k : Nat) : String :=
  let q := outStr s
  let nodes := GM.nodesOf s
  let es := GM.allEdges s
  let head := String.intercalate " " [
    s!"nc={q .nodeCount}", s!"ec={q .edgeCount}", s!"nb={q .nodeCount}", s!"eb={q .edgeCount}",
    s!"nodes={q .nodes}", s!"ids={q .nodes}", s!"refs={q .nodes}",
    s!"edges={q .allEdges}", s!"erefs={q .allEdges}",
    s!"ni={joinD (nodes.map fun n => q (.toIndex n))}",
    s!"nf={joinD ((List.range nodes.length).map fun i => q (.fromIndex i))}",
    s!"ei={joinD (es.map fun e => q (.edgeToIndex e.1 e.2.1))}",
    s!"ef={joinD ((List.range es.length).map fun i => q (.edgeFromIndex i))}",
    s!"dir={if s.directed then 1 else 0}",
    s!"rnodes={showNats nodes.reverse}", s!"nlen={q .nodeCount}",
    s!"redges={showTriples es.reverse}", s!"ecnt={q .edgeCount}",
    s!"elast={match es.getLast? with | some e => showTriple e | none => "none"}",
    s!"enth={match es[es.length / 2]? with | some e => showTriple e | none => "none"}"]
  let per := (univ k).map fun v =>
    String.intercalate " " [
      toString v, s!"c={if GM.containsNode s v then 1 else 0}",
      s!"N={q (.neighbors v)}", s!"NO={q (.neighborsDirected v .out)}", s!"NI={q (.neighborsDirected v .inc)}",
      s!"E={q (.edges v)}", s!"EO={q (.edgesDirected v .out)}", s!"EI={q (.edgesDirected v .inc)}",
      s!"W={showOptNats ((univ k).map fun b => GM.edgeWeight s v b)}",
      s!"A={String.intercalate "" ((univ k).map fun b => if GM.containsEdge s v b then "1" else "0")}"]
  String.intercalate " | " (head :: per)

def fields (seg : String) : List (String × String) :=
  (splitWords seg).filterMap fun w =>
    match w.splitOn "=" with
    | [a, b] => some (a, b)
    | _ => none

def field (fs : List (String × String)) (key : String) : String :=
  match fs.find? (·.1 == key) with
  | some p => p.2
  | none => "?missing"

def orElse (a : Option String) (b : Unit → Option String) : Option String :=
  match a with
  | some x => some x
  | none => b ()

def firstSome : List (Unit → Option String) → Option String
  | [] => none
  | f :: fs => match f () with | some x => some x | none => firstSome fs

def tag (t : String) (o : Option String) : Option String := o.map fun why => s!"{t}: {why}"

def needNats (name s : String) (f : List Nat → Option String) : Option String :=
  match parseNatsStrict s with
  | some l => tag name (f l)
  | none => some s!"{name}: [{s}]"
def needTriples (name s : String) (f : List (Nat × Nat × Nat) → Option String) : Option String :=
  match parseTriples s with
  | some l => tag name (f l)
  | none => some s!"{name}: [{s}]"

/-- spec-level judgment of the implementation's dump line -/
def judgeDump (g : SG) (k : Nat) (impl : String) : Option String :=
  match impl.splitOn " | " with
  | [] => some "empty dump"
  | head :: per =>
    let h := fields head
    let f := field h
    let nc := specNodeCount g k
    let ec := (specEdgeKeys g k).length
    let cnt := fun (name : String) (want : Nat) (_ : Unit) =>
      if f name == toString want then none else some s!"{name}={f name}, the abstract graph has {want}"
    let oneEdge := fun (name v : String) (expectSome : Bool) =>
      if v == "none" then (if expectSome then some s!"{name} = none on a graph with edges" else none)
      else match parseTriple v with
        | some e => if expectSome && g.w e.1 e.2.1 == some e.2.2 then none else some s!"{name} = {v} is not an edge of the graph"
        | none => some s!"{name}: [{v}]"
    let headChecks : List (Unit → Option String) := [
      cnt "nc" nc, cnt "ec" ec, cnt "nb" nc, cnt "eb" ec,
      fun _ => needNats "nodes" (f "nodes") (okNodes g k),
      fun _ => needNats "node_identifiers" (f "ids") (okNodes g k),
      fun _ => needNats "node_references" (f "refs") (okNodes g k),
      fun _ => needTriples "all_edges" (f "edges") (okAllEdges g k),
      fun _ => needTriples "edge_references" (f "erefs") (okAllEdges g k),
      -- compact numbering: from_index enumerates the nodes, to_index is its inverse
      fun _ => needNats "from_index" (f "nf") fun nf =>
        orElse (okNodes g k nf) fun _ =>
        needNats "nodes" (f "nodes") fun nodes =>
        needNats "to_index" (f "ni") fun ni =>
          if ni.length ≠ nodes.length then some "to_index list has the wrong length"
          else match (nodes.zip ni).find? (fun p => nf[p.2]? != some p.1) with
            | some p => some s!"from_index(to_index({p.1})) = {showOptNat nf[p.2]?}"
            | none => none,
      fun _ =>
        match parsePairs (f "ef"), parseTriples (f "edges") with
        | some ef, some es =>
          orElse (tag "edge from_index" (okAllEdges g k (ef.map fun p => (p.1, p.2, (g.w p.1 p.2).getD 0)))) fun _ =>
          needNats "edge to_index" (f "ei") fun ei =>
            if ei.length ≠ es.length then some "edge to_index list has the wrong length"
            else match (es.zip ei).find? (fun p => ef[p.2]? != some (p.1.1, p.1.2.1)) with
              | some p => some s!"from_index(to_index({p.1.1}:{p.1.2.1})) differs"
              | none => none
        | _, _ => some s!"edge from_index: [{f "ef"}]",
      fun _ => if f "dir" == (if g.directed then "1" else "0") then none else some s!"is_directed={f "dir"}",
      fun _ => needNats "nodes().rev()" (f "rnodes") (okNodes g k),
      cnt "nlen" nc, cnt "ecnt" ec,
      fun _ => needTriples "all_edges().rev()" (f "redges") (okAllEdges g k),
      -- `last`/`nth` answer an edge of the graph exactly when there is one at that position
      fun _ => oneEdge "all_edges().last()" (f "elast") (ec > 0),
      fun _ => oneEdge "all_edges().nth(edge_count/2)" (f "enth") (ec > 0),
      -- the iterators' own `rev`/`last`/`nth` must agree with the sequence the same iterator yields forwards
      fun _ => match parseNatsStrict (f "nodes"), parseNatsStrict (f "rnodes") with
        | some a, some b => if b == a.reverse then none else some s!"nodes().rev() = [{f "rnodes"}] is not the reverse of nodes() = [{f "nodes"}]"
        | _, _ => some "nodes/rnodes unparsable",
      fun _ => match parseTriples (f "edges"), parseTriples (f "redges") with
        | some a, some b =>
          if b != a.reverse then some s!"all_edges().rev() = [{f "redges"}] is not the reverse of all_edges() = [{f "edges"}]"
          else if f "elast" != (match a.getLast? with | some e => showTriple e | none => "none") then
            some s!"all_edges().last() = {f "elast"} is not the last of [{f "edges"}]"
          else if f "enth" != (match a[a.length / 2]? with | some e => showTriple e | none => "none") then
            some s!"all_edges().nth({a.length / 2}) = {f "enth"} is not that element of [{f "edges"}]"
          else none
        | _, _ => some "edges/redges unparsable"]
    orElse (firstSome headChecks) fun _ =>
    if per.length ≠ k then some s!"dump has {per.length} node sections, expected {k}" else
    firstSome (per.map fun seg => fun _ =>
      let fs := fields seg
      let p := field fs
      match (splitWords seg).head?.bind (·.toNat?) with
      | none => some s!"node section [{seg}]"
      | some v =>
        tag s!"node {v}" <| firstSome [
          fun _ => if p "c" == (if g.node v then "1" else "0") then none else some s!"contains_node={p "c"}",
          fun _ => needNats "neighbors" (p "N") (okNeighbors g k v .out),
          fun _ => needNats "neighbors_directed(Outgoing)" (p "NO") (okNeighbors g k v .out),
          fun _ => needNats "neighbors_directed(Incoming)" (p "NI") (okNeighbors g k v .inc),
          fun _ => needTriples "edges" (p "E") (okEdges g k v .out),
          fun _ => needTriples "edges_directed(Outgoing)" (p "EO") (okEdges g k v .out),
          fun _ => needTriples "edges_directed(Incoming)" (p "EI") (okEdges g k v .inc),
          fun _ =>
            let want := showOptNats ((univ k).map fun b => g.w v b)
            if p "W" == want then none else some s!"edge_weight row {p "W"}, expected {want}",
          fun _ =>
            let want := String.intercalate "" ((univ k).map fun b => if g.hasEdge v b then "1" else "0")
            if p "A" == want then none else some s!"contains_edge row {p "A"}, expected {want}"])

def verdict (spec : Option String) (model impl : String) : String :=
  match spec with
  | some why => s!"SPECFAIL {why}"
  | none => cmpExact model impl

def step (d : DState) (req : List String) (impl : String) : DState × String :=
  match req with
  | ["case", c, dir, kk] =>
    let directed := dir == "dir"
    let k := ((dropPrefix kk "k=").bind (·.toNat?)).getD 0
    ({ s := GM.State.empty directed, g := SG.empty directed, k := k }, s!"case {c}")
  | "init" :: _ =>
    -- `new`, `default`, `with_capacity`, `with_capacity_and_hasher`: the empty graph
    ({ d with s := GM.State.empty d.s.directed, g := SG.empty d.s.directed }, verdict (if impl == "ok" then none else some s!"constructor answered [{impl}]") "ok" impl)
  | ["dump"] => (d, verdict (judgeDump d.g d.k impl) (modelDump d.s d.k) impl)
  | ["hashers"] => (d, cmpExact "same" impl)
  | ["from_elements", ws, es] =>
    -- `FromElements` (data.rs `from_elements_indexable`): a fresh graph, `add_node` per node element, then
    -- `Build::add_edge` between the nodes at the given positions (so the FIRST of two parallel edges
    -- wins, unlike `from_graph`).  The harness only sends distinct node weights and valid positions.
    match parseNatsStrict ws, parseTriples es with
    | some ws, some es =>
      let ops : List Op := .clear :: (ws.map .addNode ++ es.filterMap fun e =>
        match ws[e.1]?, ws[e.2.1]? with
        | some a, some b => some (.buildAddEdge a b e.2.2)
        | _, _ => none)
      ({ d with s := (GM.run d.s ops).1, g := specRun d.g ops },
        verdict (if impl == "ok" then none else some s!"from_elements answered [{impl}]") "ok" impl)
    | _, _ => (d, s!"SPECFAIL bad request {req}")
  | ["bump_rev", x] =>
    -- `all_edges_mut().rev()`: the same call as `bump_all`, yielded back to front
    let op := Op.bumpAll (x.toNat?.getD 0)
    let r := GM.step d.s op
    let model := match r.2 with | .triples l => showTriples l.reverse | o => showOut o
    let spec := match parseOut .triples impl with
      | some o => judge d.g d.k op o
      | none => some s!"unparsable answer [{impl}]"
    ({ d with s := r.1, g := specStep d.g op }, verdict spec model impl)
  | _ =>
    match parseOp req with
    | none => (d, s!"SPECFAIL bad request {req}")
    | some op =>
      let r := GM.step d.s op
      let spec := match parseOut (kindOf op) impl with
        | some o => judge d.g d.k op o
        | none => some s!"unparsable answer [{impl}]"
      ({ d with s := r.1, g := specStep d.g op }, verdict spec (showOut r.2) impl)

end PetgraphModel.C03
