import PetgraphModel.Common
import PetgraphModel.Model.GraphMap
import PetgraphModel.Spec.SimpleGraph
import PetgraphModel.Spec.SimpleGraphJudge
import PetgraphModel.Spec.C03Dump
/-
C03 driver: runs the mirror model (`GM`) and the abstract simple graph (`SG`) side by side with the
implementation's answers.

* exact part: the model's answer, rendered, must equal the implementation's line (incl. iteration order
  and numbering).  The mirror model is proved to answer exactly what the ORDERED specification machine
  (`Spec/C03Ordered.lean`: insertion order + `swap_remove`, as `IndexMap`/`Vec` document) answers, for all
  histories (`C03_ordered_all_histories`), so a `MODELDIFF` is a deviation from that machine.  petgraph
  itself promises no order, hence never a `SPECFAIL` for order alone.
* spec part: the implementation's answer is parsed into an `Out` and judged against the abstract graph
  with `SimpleGraphSpec.judgeB`, proved to decide `OutOk` (lists as duplicate-free enumerations, edge
  orientation of an undirected `all_edges` free, a single numbering answer only required to be in range);
  a `dump` is parsed into a `C03Dump.Dump` and judged with `dumpOkB`, proved to decide `DumpOk` (all
  listings, counts, the numbering a bijection consistent with the iterators, `rev`/`last`/`nth` agreeing
  with the forward iteration).  Node values are drawn from `0..K` (`k=K` on the case line), so the abstract
  sets are enumerated over `List.range K`.
* side condition of those two decision theorems (`OpBounded`: node values below `K`): checked on every call
  (`advance`); a failure is `SPECFAIL generator left the proved range`.  `C03_driver_in_scope` proves that
  the two machines are always the result of one checked history from the empty graph.
-/
namespace PetgraphModel.C03
open PetgraphModel PetgraphModel.GM PetgraphModel.SimpleGraphSpec

structure DState where
  s : GM.State := GM.State.empty true
  g : SG := SG.empty true
  k : Nat := 0

/-! ### rendering / parsing -/

def showTriple (t : Nat × Nat × Nat) : String := s!"{t.1}:{t.2.1}:{t.2.2}"
def showTriples (l : List (Nat × Nat × Nat)) : String :=
  if l.isEmpty then "-" else String.intercalate "," (l.map showTriple)
def showPairs (l : List (Nat × Nat)) : String :=
  if l.isEmpty then "-" else String.intercalate "," (l.map fun p => s!"{p.1}:{p.2}")

def showWTriples (l : List (Nat × Nat × Option Nat)) : String :=
  match allSome l with
  | some t => showTriples t
  | none => "panic"

def showGraph (ws : List Nat) (es : List (Option Nat × Option Nat × Nat)) : String :=
  match GM.resolveEdges es with
  | some t => s!"ws={showNats ws} es={showTriples t}"
  | none => "panic"

def showOut : Out → String
  | .unit => "ok"
  | .bool b => showBool b
  | .nat n => toString n
  | .optNat none => "none"
  | .optNat (some n) => s!"some {n}"
  | .pair a b => s!"{a}:{b}"
  | .optPair none => "none"
  | .optPair (some p) => s!"some {p.1}:{p.2}"
  | .natList l => showNats l
  | .triples l => showTriples l
  | .wtriples l => showWTriples l
  | .graph ws es => showGraph ws es
  | .panic => "panic"

def parseNatsStrict (s : String) : Option (List Nat) :=
  if s == "-" then some [] else (s.splitOn ",").mapM (·.toNat?)

def parseTriple (s : String) : Option (Nat × Nat × Nat) :=
  match s.splitOn ":" with
  | [a, b, w] => do some ((← a.toNat?), (← b.toNat?), (← w.toNat?))
  | _ => none

def parsePair (s : String) : Option (Nat × Nat) :=
  match s.splitOn ":" with
  | [a, b] => do some ((← a.toNat?), (← b.toNat?))
  | _ => none

def parseTriples (s : String) : Option (List (Nat × Nat × Nat)) :=
  if s == "-" then some [] else (s.splitOn ",").mapM parseTriple

def parsePairs (s : String) : Option (List (Nat × Nat)) :=
  if s == "-" then some [] else (s.splitOn ",").mapM parsePair

def parseOptNats (s : String) : Option (List (Option Nat)) :=
  if s == "-" then some [] else (s.splitOn ",").mapM fun x => if x == "x" then some none else x.toNat?.map some

def dropPrefix (s pre : String) : Option String :=
  if s.startsWith pre then some (s.drop pre.length).toString else none

/-- shape of the answer a call has -/
inductive Kind | unit | bool | nat | optNat | pair | optPair | natList | triples | wtriples | graph

def kindOf : Op → Kind
  | .addNode _ | .indexSet .. | .index .. | .nodeCount | .edgeCount | .toIndex _ | .fromIndex _
  | .edgeToIndex .. => .nat
  | .addEdge .. | .removeEdge .. | .setWeight .. | .edgeWeight .. => .optNat
  | .removeNode _ | .containsNode _ | .containsEdge .. | .isAdjacent .. => .bool
  | .bumpAll _ | .allEdges => .triples
  | .clear | .extend _ | .roundTrip | .fromGraph .. | .fromEdges _ | .clone => .unit
  | .buildAddEdge .. => .optPair
  | .buildUpdateEdge .. | .edgeFromIndex _ => .pair
  | .neighbors _ | .neighborsDirected .. | .nodes => .natList
  | .edges _ | .edgesDirected .. => .wtriples
  | .intoGraph => .graph

/-- the implementation's answer as an `Out` (`none`: not of the expected shape) -/
def parseOut (k : Kind) (impl : String) : Option Out :=
  if impl == "panic" then some .panic else
  match k with
  | .unit => if impl == "ok" then some .unit else none
  | .bool => if impl == "true" then some (.bool true) else if impl == "false" then some (.bool false) else none
  | .nat => impl.toNat?.map .nat
  | .optNat => if impl == "none" then some (.optNat none) else (dropPrefix impl "some ").bind fun r => r.toNat?.map fun n => .optNat (some n)
  | .pair => (parsePair impl).map fun p => .pair p.1 p.2
  | .optPair => if impl == "none" then some (.optPair none) else (dropPrefix impl "some ").bind fun r => (parsePair r).map fun p => .optPair (some p)
  | .natList => (parseNatsStrict impl).map .natList
  | .triples => (parseTriples impl).map .triples
  | .wtriples => (parseTriples impl).map fun t => .wtriples (someWeights t)
  | .graph =>
    match impl.splitOn " " with
    | [a, b] => do
      let ws ← (dropPrefix a "ws=").bind parseNatsStrict
      let es ← (dropPrefix b "es=").bind parseTriples
      some (.graph ws (es.map fun e => (some e.1, some e.2.1, e.2.2)))
    | _ => none

/-! ### the judge: the decision is `SimpleGraphSpec.judgeB` (proved equivalent to `OutOk`); the functions
below decide with the same boolean procedures and only add the wording of a rejection -/

def orWhy (ok : Bool) (why : Option String) : Option String :=
  if ok then none else some (why.getD "rejected by the specification")

def okNodes (g : SG) (k : Nat) (l : List Nat) : Option String :=
  orWhy (nodesB g k l) <|
    if !(nodupB l) then some s!"node listed twice in [{showNats l}]"
    else if !(l.all g.node) then some s!"[{showNats l}] lists a value that is not a node"
    else some s!"[{showNats l}] misses a node (the graph has {specNodeCount g k})"

def okAllEdges (g : SG) (k : Nat) (l : List (Nat × Nat × Nat)) : Option String :=
  orWhy (allEdgesB g k l) <|
    if !(nodupB (l.map fun e => canon g.directed (e.1, e.2.1))) then some s!"edge listed twice in [{showTriples l}]"
    else match l.find? (fun e => !(validEdge g e)) with
      | some e => some s!"[{showTriples l}] lists {showTriple e} but the edge {e.1}->{e.2.1} is {showOptNat (g.w e.1 e.2.1)}"
      | none => some s!"[{showTriples l}] misses an edge of [{showTriples (specEdges g k)}]"

def okNeighbors (g : SG) (k : Nat) (a : Nat) (d : Dir) (l : List Nat) : Option String :=
  let want := (univ k).filter (hasDir g a d)
  orWhy (neighborsB g k a d l) <|
    if !(nodupB l) then some s!"neighbour listed twice in [{showNats l}] (self-loops are reported once)"
    else if !(l.all (hasDir g a d)) then some s!"[{showNats l}] lists a non-neighbour of {a}; neighbours are [{showNats want}]"
    else some s!"[{showNats l}] misses a neighbour of {a}; neighbours are [{showNats want}]"

def okEdges (g : SG) (k : Nat) (a : Nat) (d : Dir) (t : List (Nat × Nat × Nat)) : Option String :=
  let want := (univ k).filter (hasDir g a d)
  orWhy (edgesB g k a d t) <|
    match t.find? (fun e => !(goodEdge g a d e)) with
    | some e => some s!"{showTriple e} is not an edge with {a} as the {if d = .out then "source" else "target"} and that weight"
    | none =>
      if !(nodupB (t.map (otherEnd d))) then some s!"edge listed twice in [{showTriples t}]"
      else some s!"[{showTriples t}] misses an edge at {a}; neighbours are [{showNats want}]"

def expectOut (want got : Out) : Option String :=
  if want == got then none else some s!"expected [{showOut want}], implementation answered [{showOut got}]"

def isSamePair (g : SG) (a b : Nat) (p : Nat × Nat) : Bool := samePair g.directed a b p.1 p.2

/-- wording of a rejection (the decision itself is `judgeB`) -/
def explain (g : SG) (k : Nat) : Op → Out → Option String
  | .addNode n, o => expectOut (.nat n) o
  | .addEdge a b _, o => expectOut (.optNat (g.w a b)) o
  | .removeNode n, o => expectOut (.bool (g.node n)) o
  | .removeEdge a b, o => expectOut (.optNat (g.w a b)) o
  | .setWeight a b _, o => expectOut (.optNat (g.w a b)) o
  | .indexSet a b _, o | .index a b, o => expectOut (indexOut g a b) o
  | .bumpAll _, .triples l | .allEdges, .triples l => okAllEdges g k l
  | .clear, o | .extend _, o | .roundTrip, o | .fromEdges _, o | .clone, o => expectOut .unit o
  | .fromGraph ws es, o => expectOut (if (SG.fromGraph g.directed ws es).isSome then .unit else .panic) o
  | .buildAddEdge a b _, o =>
    if g.hasEdge a b then expectOut (.optPair none) o
    else match o with
      | .optPair (some p) => if isSamePair g a b p then none else some s!"edge id {p.1}:{p.2} is not the edge {a},{b}"
      | _ => some s!"a new edge must be reported, got [{showOut o}]"
  | .buildUpdateEdge a b _, o =>
    match o with
    | .pair x y => if isSamePair g a b (x, y) then none else some s!"edge id {x}:{y} is not the edge {a},{b}"
    | _ => some s!"edge id expected, got [{showOut o}]"
  | .containsNode n, o => expectOut (.bool (g.node n)) o
  | .containsEdge a b, o | .isAdjacent a b, o => expectOut (.bool (g.hasEdge a b)) o
  | .edgeWeight a b, o => expectOut (.optNat (g.w a b)) o
  | .neighbors a, .natList l => okNeighbors g k a .out l
  | .neighborsDirected a d, .natList l => okNeighbors g k a d l
  | .edges a, .wtriples l =>
    match allSome l with | some t => okEdges g k a .out t | none => some "edges reached unreachable!()"
  | .edgesDirected a d, .wtriples l =>
    match allSome l with | some t => okEdges g k a d t | none => some "edges_directed reached unreachable!()"
  | .nodes, .natList l => okNodes g k l
  | .nodeCount, o => expectOut (.nat (specNodeCount g k)) o
  | .edgeCount, o => expectOut (.nat (specEdgeKeys g k).length) o
  | .toIndex n, o =>
    if g.node n then match o with
      | .nat i => if i < specNodeCount g k then none else some s!"to_index({n}) = {i} is not below node_count"
      | _ => some s!"to_index({n}) of a node answered [{showOut o}]"
    else expectOut .panic o
  | .fromIndex i, o =>
    if i < specNodeCount g k then match o with
      | .nat n => if g.node n then none else some s!"from_index({i}) = {n} is not a node"
      | _ => some s!"from_index({i}) answered [{showOut o}]"
    else expectOut .panic o
  | .edgeToIndex a b, o =>
    if g.hasEdge a b then match o with
      | .nat i => if i < (specEdgeKeys g k).length then none else some s!"to_index(({a},{b})) = {i} is not below edge_count"
      | .panic => some s!"to_index(({a},{b})) panicked although ({a},{b}) is an edge"
      | _ => some s!"edge to_index answered [{showOut o}]"
    else (expectOut .panic o).map fun why => s!"to_index(({a},{b})) of a pair that is not an edge: {why}"
  | .edgeFromIndex i, o =>
    if i < (specEdgeKeys g k).length then match o with
      | .pair a b => if g.hasEdge a b then none else some s!"from_index({i}) = {a}:{b} is not an edge"
      | _ => some s!"edge from_index({i}) answered [{showOut o}]"
    else expectOut .panic o
  | .intoGraph, .graph ws es =>
    match okNodes g k ws with
    | some why => some s!"into_graph node weights: {why}"
    | none =>
      match resolveVia ws es with
      | none => some "into_graph: edge endpoint out of range"
      | some t => (okAllEdges g k t).map fun why => s!"into_graph edges: {why}"
  | _, o => some s!"answer [{showOut o}] has the wrong shape"

/-- `none` = the answer is what the property prescribes in the abstract graph `g` (before the call) -/
def judge (g : SG) (k : Nat) (op : Op) (o : Out) : Option String :=
  if judgeB g k op o then none else some ((explain g k op o).getD "rejected by the specification")

/-! ### request parsing -/

def parseDir (s : String) : Option Dir :=
  if s == "out" then some .out else if s == "in" then some .inc else none

def parseOp (req : List String) : Option Op :=
  let n := fun (s : String) => s.toNat?
  match req with
  | ["add_node", a] => (n a).map .addNode
  | ["add_edge", a, b, w] => do some (.addEdge (← n a) (← n b) (← n w))
  | ["remove_node", a] => (n a).map .removeNode
  | ["remove_edge", a, b] => do some (.removeEdge (← n a) (← n b))
  | ["set_weight", a, b, w] => do some (.setWeight (← n a) (← n b) (← n w))
  | ["index_set", a, b, w] => do some (.indexSet (← n a) (← n b) (← n w))
  | ["bump_all", x] => (n x).map .bumpAll
  | ["clear"] => some .clear
  | ["extend", es] => (parseTriples es).map .extend
  | ["build_add_edge", a, b, w] => do some (.buildAddEdge (← n a) (← n b) (← n w))
  | ["build_update_edge", a, b, w] => do some (.buildUpdateEdge (← n a) (← n b) (← n w))
  | ["round_trip"] => some .roundTrip
  | ["from_graph", ws, es] => do some (.fromGraph (← parseNatsStrict ws) (← parseTriples es))
  | ["from_edges", es] => (parseTriples es).map .fromEdges
  | ["clone"] => some .clone
  | ["contains_node", a] => (n a).map .containsNode
  | ["contains_edge", a, b] => do some (.containsEdge (← n a) (← n b))
  | ["is_adjacent", a, b] => do some (.isAdjacent (← n a) (← n b))
  | ["edge_weight", a, b] => do some (.edgeWeight (← n a) (← n b))
  | ["index", a, b] => do some (.index (← n a) (← n b))
  | ["neighbors", a] => (n a).map .neighbors
  | ["neighbors_directed", a, d] => do some (.neighborsDirected (← n a) (← parseDir d))
  | ["edges", a] => (n a).map .edges
  | ["edges_directed", a, d] => do some (.edgesDirected (← n a) (← parseDir d))
  | ["nodes"] => some .nodes
  | ["all_edges"] => some .allEdges
  | ["node_count"] => some .nodeCount
  | ["edge_count"] => some .edgeCount
  | ["to_index", a] => (n a).map .toIndex
  | ["from_index", i] => (n i).map .fromIndex
  | ["edge_to_index", a, b] => do some (.edgeToIndex (← n a) (← n b))
  | ["edge_from_index", i] => (n i).map .edgeFromIndex
  | ["into_graph"] => some .intoGraph
  | _ => none

/-! ### the dump: a full observation through the public API

`Spec/C03Dump.lean` has the dump as a value (`Dump`), the mirror model's dump (`modelDumpS`), the
statement `DumpOk` and the executable check `dumpOkB` (proved equivalent, and proved to accept the
model's dump in every reachable state: `Theorems/C03.lean`).  Here: rendering, parsing and the wording
of a rejection. -/
open PetgraphModel.C03Dump

def joinD (l : List String) : String := if l.isEmpty then "-" else String.intercalate "," l

def showOptNats (l : List (Option Nat)) : String :=
  if l.isEmpty then "-" else String.intercalate "," (l.map fun o => match o with | some n => toString n | none => "x")

def orPanic {α : Type} (f : α → String) : Option α → String
  | some x => f x
  | none => "panic"

def showOptT3 : Option T3 → String
  | some e => showTriple e
  | none => "none"

def renderSec (sec : NodeSec) : String :=
  String.intercalate " " [
    toString sec.v, s!"c={if sec.c then 1 else 0}",
    s!"N={orPanic showNats sec.nb}", s!"NO={orPanic showNats sec.nbO}", s!"NI={orPanic showNats sec.nbI}",
    s!"E={orPanic showTriples sec.ed}", s!"EO={orPanic showTriples sec.edO}", s!"EI={orPanic showTriples sec.edI}",
    s!"W={showOptNats sec.w}",
    s!"A={String.intercalate "" (sec.adj.map fun b => if b then "1" else "0")}"]

/-- a dump as the line `harness/src/c03.rs::dump` prints -/
def renderDump (d : Dump) : String :=
  let head := String.intercalate " " [
    s!"nc={d.nc}", s!"ec={d.ec}", s!"nb={d.nb}", s!"eb={d.eb}",
    s!"nodes={showNats d.nodes}", s!"ids={showNats d.ids}", s!"refs={showNats d.refs}",
    s!"edges={showTriples d.edges}", s!"erefs={showTriples d.erefs}",
    s!"ni={joinD (d.ni.map (orPanic toString))}",
    s!"nf={joinD (d.nf.map (orPanic toString))}",
    s!"ei={joinD (d.ei.map (orPanic toString))}",
    s!"ef={joinD (d.ef.map (orPanic fun p => s!"{p.1}:{p.2}"))}",
    s!"dir={if d.dir then 1 else 0}",
    s!"rnodes={showNats d.rnodes}", s!"nlen={d.nlen}",
    s!"redges={showTriples d.redges}", s!"ecnt={d.ecnt}",
    s!"elast={showOptT3 d.elast}", s!"enth={showOptT3 d.enth}"]
  String.intercalate " | " (head :: d.per.map renderSec)

/-- the model's dump line -/
def modelDump (s : GM.State) (k : Nat) : String := renderDump (modelDumpS s k)

def fields (seg : String) : List (String × String) :=
  (splitWords seg).filterMap fun w =>
    match w.splitOn "=" with
    | [a, b] => some (a, b)
    | _ => none

def field (fs : List (String × String)) (key : String) : String :=
  match fs.find? (·.1 == key) with
  | some p => p.2
  | none => "?missing"

/-- a field through parser `p`; the error names the field and shows its text -/
def fld {α : Type} (fs : List (String × String)) (name key : String) (p : String → Option α) : Except String α :=
  match p (field fs key) with
  | some x => .ok x
  | none => .error s!"{name}: [{field fs key}]"

/-- comma-separated entries, each an answer or a caught `panic` -/
def parseEntries {α : Type} (p : String → Option α) (s : String) : Option (List (Option α)) :=
  if s == "-" then some [] else (s.splitOn ",").mapM fun x => if x == "panic" then some none else (p x).map some

/-- a whole answer or a caught `panic` -/
def parseOrPanic {α : Type} (p : String → Option α) (s : String) : Option (Option α) :=
  if s == "panic" then some none else (p s).map some

def parseBit (s : String) : Option Bool :=
  if s == "1" then some true else if s == "0" then some false else none

def parseBits (s : String) : Option (List Bool) :=
  s.toList.mapM fun c => if c == '1' then some true else if c == '0' then some false else none

def parseOptT3 (s : String) : Option (Option T3) :=
  if s == "none" then some none else (parseTriple s).map some

def parseSec (seg : String) : Except String NodeSec :=
  match (splitWords seg).head?.bind (·.toNat?) with
  | none => .error s!"node section [{seg}]"
  | some v =>
    let fs := fields seg
    let f := fun {α : Type} (name key : String) (p : String → Option α) => fld fs s!"node {v}: {name}" key p
    do
      let c ← f "contains_node" "c" parseBit
      let nb ← f "neighbors" "N" (parseOrPanic parseNatsStrict)
      let nbO ← f "neighbors_directed(Outgoing)" "NO" (parseOrPanic parseNatsStrict)
      let nbI ← f "neighbors_directed(Incoming)" "NI" (parseOrPanic parseNatsStrict)
      let ed ← f "edges" "E" (parseOrPanic parseTriples)
      let edO ← f "edges_directed(Outgoing)" "EO" (parseOrPanic parseTriples)
      let edI ← f "edges_directed(Incoming)" "EI" (parseOrPanic parseTriples)
      let w ← f "edge_weight row" "W" parseOptNats
      let adj ← f "contains_edge row" "A" parseBits
      pure { v, c, nb, nbO, nbI, ed, edO, edI, w, adj }

def parseDump (impl : String) : Except String Dump :=
  match impl.splitOn " | " with
  | [] => .error "empty dump"
  | head :: per =>
    let fs := fields head
    do
      let nc ← fld fs "node_count" "nc" (·.toNat?)
      let ec ← fld fs "edge_count" "ec" (·.toNat?)
      let nb ← fld fs "node_bound" "nb" (·.toNat?)
      let eb ← fld fs "edge_bound" "eb" (·.toNat?)
      let nodes ← fld fs "nodes" "nodes" parseNatsStrict
      let ids ← fld fs "node_identifiers" "ids" parseNatsStrict
      let refs ← fld fs "node_references" "refs" parseNatsStrict
      let edges ← fld fs "all_edges" "edges" parseTriples
      let erefs ← fld fs "edge_references" "erefs" parseTriples
      let ni ← fld fs "to_index" "ni" (parseEntries (·.toNat?))
      let nf ← fld fs "from_index" "nf" (parseEntries (·.toNat?))
      let ei ← fld fs "edge to_index" "ei" (parseEntries (·.toNat?))
      let ef ← fld fs "edge from_index" "ef" (parseEntries parsePair)
      let dir ← fld fs "is_directed" "dir" parseBit
      let rnodes ← fld fs "nodes().rev()" "rnodes" parseNatsStrict
      let nlen ← fld fs "nodes().len()" "nlen" (·.toNat?)
      let redges ← fld fs "all_edges().rev()" "redges" parseTriples
      let ecnt ← fld fs "all_edges().count()" "ecnt" (·.toNat?)
      let elast ← fld fs "all_edges().last()" "elast" parseOptT3
      let enth ← fld fs "all_edges().nth(edge_count/2)" "enth" parseOptT3
      let per ← per.mapM parseSec
      pure { nc, ec, nb, eb, nodes, ids, refs, edges, erefs, ni, nf, ei, ef, dir, rnodes, nlen, redges, ecnt,
             elast, enth, per }

def orElse (a : Option String) (b : Unit → Option String) : Option String :=
  match a with
  | some x => some x
  | none => b ()

def firstSome : List (Unit → Option String) → Option String
  | [] => none
  | f :: fs => match f () with | some x => some x | none => firstSome fs

def tag (t : String) (o : Option String) : Option String := o.map fun why => s!"{t}: {why}"

def needSome {α : Type} (name : String) (o : Option α) (f : α → Option String) : Option String :=
  match o with
  | some x => tag name (f x)
  | none => some s!"{name} panicked"

def explainSec (g : SG) (k : Nat) (v : Nat) (sec : NodeSec) : Option String :=
  tag s!"node {v}" <| firstSome [
    fun _ => if sec.v == v then none else some s!"section is labelled {sec.v}",
    fun _ => if sec.c == g.node v then none else some s!"contains_node={sec.c}",
    fun _ => needSome "neighbors" sec.nb (okNeighbors g k v .out),
    fun _ => needSome "neighbors_directed(Outgoing)" sec.nbO (okNeighbors g k v .out),
    fun _ => needSome "neighbors_directed(Incoming)" sec.nbI (okNeighbors g k v .inc),
    fun _ => needSome "edges" sec.ed (okEdges g k v .out),
    fun _ => needSome "edges_directed(Outgoing)" sec.edO (okEdges g k v .out),
    fun _ => needSome "edges_directed(Incoming)" sec.edI (okEdges g k v .inc),
    fun _ =>
      let want := (univ k).map fun b => g.w v b
      if sec.w == want then none else some s!"edge_weight row {showOptNats sec.w}, expected {showOptNats want}",
    fun _ =>
      let want := (univ k).map fun b => g.hasEdge v b
      if sec.adj == want then none else some s!"contains_edge row differs from the abstract graph's"]

def explainSecs (g : SG) (k : Nat) : Nat → List NodeSec → Option String
  | _, [] => none
  | i, sec :: t => orElse (explainSec g k i sec) fun _ => explainSecs g k (i + 1) t

/-- wording of a rejected dump (the decision itself is `dumpOkB`) -/
def explainDump (g : SG) (k : Nat) (d : Dump) : Option String :=
  let nc := specNodeCount g k
  let ec := (specEdgeKeys g k).length
  let cnt := fun (name : String) (got want : Nat) (_ : Unit) =>
    if got == want then none else some s!"{name}={got}, the abstract graph has {want}"
  firstSome [
    cnt "node_count" d.nc nc, cnt "edge_count" d.ec ec, cnt "node_bound" d.nb nc, cnt "edge_bound" d.eb ec,
    fun _ => tag "nodes" (okNodes g k d.nodes),
    fun _ => tag "node_identifiers" (okNodes g k d.ids),
    fun _ => tag "node_references" (okNodes g k d.refs),
    fun _ => tag "all_edges" (okAllEdges g k d.edges),
    fun _ => tag "edge_references" (okAllEdges g k d.erefs),
    -- compact numbering: from_index enumerates the nodes, to_index is its inverse
    fun _ => match allSomes d.nf with
      | none => some "from_index panicked below node_count"
      | some nf =>
        orElse (tag "from_index" (okNodes g k nf)) fun _ =>
        match allSomes d.ni with
        | none => some "to_index panicked on a node that nodes() lists"
        | some ni =>
          if ni.length ≠ d.nodes.length then some "to_index list has the wrong length"
          else match (d.nodes.zip ni).find? (fun p => nf[p.2]? != some p.1) with
            | some p => some s!"to_index({p.1}) = {p.2} but from_index({p.2}) = {showOptNat nf[p.2]?}"
            | none => none,
    fun _ => match allSomes d.ef with
      | none => some "edge from_index panicked below edge_count"
      | some ef =>
        orElse (tag "edge from_index" (okAllEdges g k (withWeights g ef))) fun _ =>
        match allSomes d.ei with
        | none => some "edge to_index panicked on an edge id that all_edges() lists"
        | some ei =>
          if ei.length ≠ d.edges.length then some "edge to_index list has the wrong length"
          else match ((d.edges.map edgeId).zip ei).find? (fun p => ef[p.2]? != some p.1) with
            | some p => some s!"edge to_index(({p.1.1},{p.1.2})) = {p.2} but from_index({p.2}) differs"
            | none => none,
    fun _ => if d.dir == g.directed then none else some s!"is_directed={d.dir}",
    cnt "nodes().len()" d.nlen nc, cnt "all_edges().count()" d.ecnt ec,
    -- the iterators' own `rev`/`last`/`nth` must agree with the sequence the same iterator yields forwards
    fun _ => if d.rnodes == d.nodes.reverse then none
      else some s!"nodes().rev() = [{showNats d.rnodes}] is not the reverse of nodes() = [{showNats d.nodes}]",
    fun _ => if d.redges == d.edges.reverse then none
      else some s!"all_edges().rev() = [{showTriples d.redges}] is not the reverse of all_edges() = [{showTriples d.edges}]",
    fun _ => if d.elast == d.edges.getLast? then none
      else some s!"all_edges().last() = {showOptT3 d.elast} is not the last of [{showTriples d.edges}]",
    fun _ => if d.enth == d.edges[d.edges.length / 2]? then none
      else some s!"all_edges().nth({d.edges.length / 2}) = {showOptT3 d.enth} is not that element of [{showTriples d.edges}]",
    fun _ => if d.per.length == k then none else some s!"dump has {d.per.length} node sections, expected {k}",
    fun _ => explainSecs g k 0 d.per]

/-- spec-level judgment of the implementation's dump line -/
def judgeDump (g : SG) (k : Nat) (impl : String) : Option String :=
  match parseDump impl with
  | .error why => some why
  | .ok d => if dumpOkB g k d then none else some ((explainDump g k d).getD "dump rejected by the specification")

def verdict (spec : Option String) (model impl : String) : String :=
  match spec with
  | some why => s!"SPECFAIL {why}"
  | none => cmpExact model impl

/-- the side condition of the judge theorems (`OpBounded`: node values below the case's `k`) failed -/
def outOfRange (k : Nat) (req : List String) : String :=
  s!"SPECFAIL generator left the proved range: a node value of [{String.intercalate " " req}] is not below k={k}"

/-- the calls `FromElements` (data.rs `from_elements_indexable`) makes: a fresh graph, `add_node` per node
element, then `Build::add_edge` between the nodes at the given positions (so the FIRST of two parallel
edges wins, unlike `from_graph`).  Valid for distinct node weights and valid positions (`step` checks both). -/
def fromElementsOps (ws : List Nat) (es : List (Nat × Nat × Nat)) : List Op :=
  .clear :: (ws.map .addNode ++ es.filterMap fun e =>
    match ws[e.1]?, ws[e.2.1]? with
    | some a, some b => some (.buildAddEdge a b e.2.2)
    | _, _ => none)

/-! ### `from_elements` on an arbitrary element sequence (wave 6)

`data.rs::from_elements_indexable`: a fresh graph; a node element is `add_node`; an edge element looks both
endpoints up with `NodeIndexable::from_index` (an `assert!` — the call panics for a position that does not exist
at that moment) and calls `Build::add_edge`.  In a graph that only grows `from_index` is the order of first
insertion, so the positions can be resolved on the element list alone (`seen`); `C03_from_elems_is_the_indexable_loop`
proves that these are the calls the loop makes on the mirror model, panic for panic. -/

inductive Elem where
  | node (w : Nat)
  | edge (i j w : Nat)
  deriving Repr, DecidableEq

def parseElem (s : String) : Option Elem :=
  if s.startsWith "n" then (s.drop 1).toString.toNat?.map .node
  else if s.startsWith "e" then (parseTriple (s.drop 1).toString).map fun t => .edge t.1 t.2.1 t.2.2
  else none

def parseElems (s : String) : Option (List Elem) :=
  if s == "-" then some [] else (s.splitOn ",").mapM parseElem

/-- the calls after the initial `with_capacity(0, 0)`; `seen` = the distinct node weights so far, in order of first
appearance; `none` = an edge element names a position that does not exist yet (the call panics) -/
def fromElemsGo : List Nat → List Elem → Option (List Op)
  | _, [] => some []
  | seen, .node w :: t => (fromElemsGo (if seen.contains w then seen else seen ++ [w]) t).map (.addNode w :: ·)
  | seen, .edge i j w :: t =>
    match seen[i]?, seen[j]? with
    | some a, some b => (fromElemsGo seen t).map (.buildAddEdge a b w :: ·)
    | _, _ => none

def fromElemsOps (el : List Elem) : Option (List Op) := (fromElemsGo [] el).map (.clear :: ·)

/-- the node weights of the node elements -/
def elemNodes : List Elem → List Nat
  | [] => []
  | .node w :: t => w :: elemNodes t
  | .edge .. :: t => elemNodes t

/-- both machines advanced by calls whose node values are in range (`none`: out of range) -/
def advance (d : DState) (ops : List Op) : Option DState :=
  if ops.all (opBoundedB d.k) then some { d with s := (GM.run d.s ops).1, g := specRun d.g ops } else none

/-- the protocol lines of waves 1–5 (one call / one dump / the hasher comparison per line) -/
def stepCore (d : DState) (req : List String) (impl : String) : DState × String :=
  match req with
  | ["case", c, dir, kk] =>
    let directed := dir == "dir"
    let k := ((dropPrefix kk "k=").bind (·.toNat?)).getD 0
    ({ s := GM.State.empty directed, g := SG.empty directed, k := k }, s!"case {c}")
  | "init" :: _ =>
    -- `new`, `default`, `with_capacity`, `with_capacity_and_hasher`: the empty graph
    ({ d with s := GM.State.empty d.s.directed, g := SG.empty d.s.directed }, verdict (if impl == "ok" then none else some s!"constructor answered [{impl}]") "ok" impl)
  | ["dump"] => (d, verdict (judgeDump d.g d.k impl) (modelDump d.s d.k) impl)
  | ["hashers"] => (d, cmpExact "same" impl)
  | ["from_elements", ws, es] =>
    match parseNatsStrict ws, parseTriples es with
    | some ws, some es =>
      -- the reading of `from_elements` as these calls needs distinct node weights (position = `from_index`)
      -- and valid positions: checked, the generator must respect it
      if !(nodupB ws) || !(es.all fun e => decide (e.1 < ws.length) && decide (e.2.1 < ws.length)) then
        (d, s!"SPECFAIL generator left the proved range: from_elements with repeated node weights or a position out of range [{String.intercalate " " req}]")
      else
      match advance d (fromElementsOps ws es) with
      | some d' => (d', verdict (if impl == "ok" then none else some s!"from_elements answered [{impl}]") "ok" impl)
      | none => (d, outOfRange d.k req)
    | _, _ => (d, s!"SPECFAIL bad request {req}")
  | ["bump_rev", x] =>
    -- `all_edges_mut().rev()`: the same call as `bump_all`, yielded back to front
    let op := Op.bumpAll (x.toNat?.getD 0)
    let model := match (GM.step d.s op).2 with | .triples l => showTriples l.reverse | o => showOut o
    let spec := match parseOut .triples impl with
      | some o => judge d.g d.k op o
      | none => some s!"unparsable answer [{impl}]"
    match advance d [op] with
    | some d' => (d', verdict spec model impl)
    | none => (d, outOfRange d.k req)
  | _ =>
    match parseOp req with
    | none => (d, s!"SPECFAIL bad request {req}")
    | some op =>
      let spec := match parseOut (kindOf op) impl with
        | some o => judge d.g d.k op o
        | none => some s!"unparsable answer [{impl}]"
      match advance d [op] with
      | some d' => (d', verdict spec (showOut (GM.step d.s op).2) impl)
      | none => (d, outOfRange d.k req)

/-- wave 6: the lines that do not address one call.
* `law <family> …`: a law the harness checked against the implementation itself (c03_laws.rs: every iterator
  under the iterator laws, `clone_from`, `Default`, `Debug`, the visit traits and adaptors against the inherent
  methods, every construction form against the `add_edge` loop, serde, walkers, rayon); the only acceptable
  answer is `ok`, anything else is a failing input.  Neither machine moves.
* `instances`: the same history under another node / weight type (and hasher) must give the same observations.
* `from_elems <elements>`: `from_elements` on an arbitrary element sequence (distinct node weights), a panic
  exactly when an edge element names a position that does not exist yet. -/
def step (d : DState) (req : List String) (impl : String) : DState × String :=
  match req with
  | "law" :: _ =>
    (d, verdict (if impl == "ok" then none else some s!"law violated [{String.intercalate " " req}]: {impl}") "ok" impl)
  | ["instances"] => (d, cmpExact "same" impl)
  | ["from_elems", el] =>
    match parseElems el with
    | none => (d, s!"SPECFAIL bad request {req}")
    | some el =>
      -- positions are read as "index of appearance" (the documentation of `Element`): needs distinct node weights
      if !(nodupB (elemNodes el)) then
        (d, s!"SPECFAIL generator left the proved range: from_elements with repeated node weights [{String.intercalate " " req}]")
      else
      match fromElemsOps el with
      | none =>
        -- an edge element names a position that does not exist (yet): `from_index` panics, the graph is not replaced
        (d, verdict (if impl == "panic" then none else some s!"from_elements with a dangling position answered [{impl}]") "panic" impl)
      | some ops =>
        match advance d ops with
        | some d' => (d', verdict (if impl == "ok" then none else some s!"from_elements answered [{impl}]") "ok" impl)
        | none => (d, outOfRange d.k req)
  | _ => stepCore d req impl

end PetgraphModel.C03
