import PetgraphModel.Common
import PetgraphModel.GraphProto
import PetgraphModel.Oracle.C16
import PetgraphModel.Model.C16Dom
import PetgraphModel.Model.C16Artic
/-
C16 driver.  Requests (after a `graph …` line):

  sf <root> [clone|clonefrom]
                dominators::simple_fast(g, root) observed through every accessor (wave 6: also through
                `Dominators::clone()` with the original dropped, and through `clone_from` onto the result
                of another root — the observation path does not change the expected answer):
                `root=<r> <rec>;<rec>;…`, one record per node `b` (ascending abstract id)
                `b:<immediate_dominator>:<dominators>:<strict_dominators>:<immediately_dominated_by>`
                with `x` = None, lists `a/b/c` (`-` = empty); `immediately_dominated_by` sorted
  ap            articulation_points(g): sorted node list
  law <name> …  a law checked by the harness against the implementation itself (iterator laws of
                `DominatorsIter` / `DominatedByIter`, ids that are not nodes have no entry, `Debug`):
                the answer must be `ok` (`VIOLATED <why>` is a SPECFAIL)

Wave 6: the `graph` line carries `base=<storage> ad=<adaptor> via=neighbors|edges`.  The first line of a
case is what `neighbors()` enumerates (that is what `simple_fast` walks); when `edges().target()` — what
`articulation_points` walks — enumerates something else, a second `graph … via=edges` line precedes `ap`.
Open finding D23 (`UndirectedAdaptor::edges` reports an incoming edge with its stored orientation, so its
`target()` is the node itself): such a view fails `viewOkB`; it is classified `KNOWN D23` only when the
adaptor is `UndirectedAdaptor`, `via=edges`, and every row is the abstract row with some entries replaced
by the node itself (`d23ViewB`); the following `ap` answer is judged against the abstract graph as always
and a wrong answer is `KNOWN D23` only if it is exactly what the mirror model computes on that view.

`panic` as answer = the call panicked.

Run-time checks of the hypotheses of the model theorems (wave 4, `Theorems/C16.lean` section "run-time
checks of the hypotheses"): every `graph` line must pass `graphScopeB` (`wfB`: `MGraph.WellFormed`;
`viewOkB`: neighbour lists are permutations of the abstract graph's; `rowsOkB`: nothing is enumerated
for a non-node), every `sf r` line `sfScopeB` (… and `r` is a node), every `ap` line `apScopeB`
(… and the graph is undirected and `indexOkB`: `to_index` is injective and below `node_bound()` on the
nodes).  A failed check is a `SPECFAIL side condition <name> does not hold` (the encoding's trait
implementations do not describe one graph) or, for the root, `SPECFAIL generator left the proved
range`.

Exact part: the mirror models (`Model/C16Dom.lean`, `Model/C16Artic.lean`) run on the view.
Spec part: the checkers of `Oracle/C16.lean` (proved sound in `Theorems/C16.lean`) on the abstract graph.
-/
namespace PetgraphModel.C16
open PetgraphModel PetgraphModel.Oracle PetgraphModel.C16O PetgraphModel.C16M

structure DState where
  v : View := default
  ok : Bool := false
  /-- `some "D23"`: the current view is the one `UndirectedAdaptor::edges` presents (open finding D23) -/
  known : Option String := none
  /-- D6: the view the mirror model runs on -/
  mv : View := default

/-- the view's neighbour lists describe the abstract graph (as multisets) -/
def viewOkB (v : View) : Bool :=
  v.g.nodes.all fun a => sameSet (v.succ a) (v.g.succ a) && sameSet (v.pred a) (v.g.pred a)

/-! ### run-time checks of the hypotheses of the model theorems -/

/-- `MGraph.WellFormed`: `node_identifiers()` lists every node once and every edge of the abstract graph
joins two of them -/
def wfB (g : MGraph) : Bool :=
  nodupB g.nodes && g.edges.all fun e => g.nodes.contains e.src && g.nodes.contains e.tgt

/-- the view enumerates no neighbour for an id that is not a node -/
def rowsOkB (v : View) : Bool := v.out.all fun p => v.g.nodes.contains p.1 || p.2.isEmpty

/-- `IndexOk`: the `ix` table lists exactly the nodes (in `node_identifiers()` order), `to_index` of a
node is below `node_bound()`, neighbours of nodes are nodes, `to_index` is injective on the nodes -/
def indexOkB (v : View) : Bool :=
  (v.ix.map (·.1) == v.g.nodes) &&
  (v.g.nodes.all fun a => decide (v.toIndex a < v.nb)) &&
  (v.g.nodes.all fun a => (v.succ a).all fun t => v.g.nodes.contains t) &&
  (v.g.nodes.all fun a => v.g.nodes.all fun b => v.toIndex a != v.toIndex b || a == b)

/-- the root given to `simple_fast` is a node -/
def rootOkB (v : View) (r : Nat) : Bool := v.g.nodes.contains r

/-- what every `graph` line must satisfy -/
def graphScopeB (v : View) : Bool := wfB v.g && viewOkB v && rowsOkB v

/-- every hypothesis of `C16_simple_fast` / `C16_simple_fast_accessors` (`C16_sf_scope_check`) -/
def sfScopeB (v : View) (r : Nat) : Bool := graphScopeB v && rootOkB v r

/-- every hypothesis of `C16_articulation` (`C16_ap_scope_check`) -/
def apScopeB (v : View) : Bool := graphScopeB v && !v.g.directed && indexOkB v

/-! ### open finding D23: the view `UndirectedAdaptor::edges` presents -/

/-- `a` is a sub-multiset of `b` -/
def subMultiset : List Nat → List Nat → Bool
  | [], _ => true
  | x :: xs, b => b.contains x && subMultiset xs (b.erase x)

/-- row of `a` as D23 produces it: as long as the abstract row, and what is not the node itself is part
of the abstract row (some incident edges are reported with `target() = a`) -/
def d23RowB (a : Nat) (row abstractRow : List Nat) : Bool :=
  row.length == abstractRow.length &&
  subMultiset (row.filter (· != a)) (abstractRow.filter (· != a))

/-- the whole view has the D23 shape (and is otherwise sane) -/
def d23ViewB (v : View) : Bool :=
  wfB v.g && rowsOkB v && !v.g.directed && v.g.nodes.all fun a => d23RowB a (v.succ a) (v.g.succ a)

/-! ### open finding D6 seen through `UndirectedAdaptor(NodeFiltered(&MatrixGraph))`

`MatrixGraph::edges_directed(a, Incoming)` yields `(a, predecessor)`; `NodeFiltered` tests the `source()` of
an incoming edge against the node filter — here that is `a` itself — so edges from excluded predecessors
pass, and `UndirectedAdaptor::edges` hands them to `articulation_points`. -/

/-- the rows restricted to the nodes are the abstract rows; what else is enumerated is not a node -/
def d6ViewB (v : View) : Bool :=
  wfB v.g && rowsOkB v && !v.g.directed &&
  (v.g.nodes.all fun a => sameSet ((v.succ a).filter v.g.nodes.contains) (v.g.succ a)) &&
  (v.g.nodes.any fun a => (v.succ a).any fun t => !v.g.nodes.contains t)

/-- the view the mirror model runs on: `to_index` of the leaked ids added, fuel for the leaked entries -/
def d6ModelView (v : View) (xix : List (Nat × Nat)) : View :=
  let leaked := (v.g.nodes.map fun a => ((v.succ a).filter fun t => !v.g.nodes.contains t).length).foldl (· + ·) 0
  { v with ix := v.ix ++ xix,
           g := { v.g with edges := v.g.edges ++ List.replicate leaked ⟨999999, 999999, 999999, 0⟩ } }

def showSl (l : List Nat) : String :=
  if l.isEmpty then "-" else String.intercalate "/" (l.map toString)

def showOptSl : Option (List Nat) → String
  | none => "x"
  | some l => showSl l

def showOptX : Option Nat → String
  | none => "x"
  | some n => toString n

def parseSl (s : String) : List Nat :=
  if s == "-" then [] else (s.splitOn "/").filterMap (·.toNat?)

def parseOptSl (s : String) : Option (List Nat) := if s == "x" then none else some (parseSl s)

structure Rec where
  b : Nat
  idom : Option Nat
  doms : Option (List Nat)
  strict : Option (List Nat)
  idb : List Nat
  deriving Repr

def parseRec (s : String) : Option Rec :=
  match s.splitOn ":" with
  | [b, i, d, st, idb] =>
    match b.toNat? with
    | some b =>
      if i == "x" then some ⟨b, none, parseOptSl d, parseOptSl st, parseSl idb⟩
      else match i.toNat? with
        | some i => some ⟨b, some i, parseOptSl d, parseOptSl st, parseSl idb⟩
        | none => none
    | none => none
  | _ => none

def showRec (r : Rec) : String :=
  s!"{r.b}:{showOptX r.idom}:{showOptSl r.doms}:{showOptSl r.strict}:{showSl r.idb}"

/-- the model's observation of a `Doms` value, in the harness's format -/
def recsOf (nodes : List Nat) (d : Doms) : List Rec :=
  nodes.map fun b =>
    ⟨b, d.immediateDominator b, d.dominators b, d.strictDominators b, sortNats (d.immediatelyDominatedBy b)⟩

def showDoms (nodes : List Nat) (d : Doms) : String :=
  let recs := (recsOf nodes d).map showRec
  s!"root={d.root} " ++ (if recs.isEmpty then "-" else String.intercalate ";" recs)

def modelSf (v : View) (root : Nat) : String :=
  match simpleFast v root with
  | .ok d => showDoms (sortNats v.g.nodes) d
  | .panic _ => "panic"
  | .fuel => "FUEL"

/-- spec-level verdict on one `sf` answer, given the dominator table: every clause of the property,
per node -/
def judgeSfT (T : DomTable) (g : MGraph) (r : Nat) (implRoot : Nat) (recs : List Rec) : Option String :=
    if implRoot != r then some s!"root() = {implRoot}, the root given was {r}" else
    if !(sameSet (recs.map (·.b)) g.nodes) then some "answer does not list every node once" else
    recs.findSome? fun rc =>
      if !T.checkDominators rc.b rc.doms then
        some s!"dominators({rc.b}) = {showOptSl rc.doms}; by the path definition: {if T.R.contains rc.b then showSl (sortNats (T.domsOf rc.b)) else "x (unreachable from the root)"}"
      else if !T.checkStrict rc.b rc.strict then
        some s!"strict_dominators({rc.b}) = {showOptSl rc.strict}; by the path definition: {if T.R.contains rc.b then showSl (sortNats (T.strictOf rc.b)) else "x (unreachable from the root)"}"
      else if !T.checkIdom rc.b rc.idom then
        some s!"immediate_dominator({rc.b}) = {showOptX rc.idom}; the closest strict dominator is {if rc.b == r || !T.R.contains rc.b then "x" else showSl (T.idomOf rc.b)}"
      else if !T.checkIdb rc.b rc.idb then
        some s!"immediately_dominated_by({rc.b}) = {showSl rc.idb}; nodes whose immediate dominator it is: {showSl (sortNats (T.idbOf rc.b))}"
      else none

/-- spec-level verdict on one `sf` answer.  The `ORACLE-FUEL` branch is unreachable
(`C16_judge_sf_conclusive`: `domTable` always returns). -/
def judgeSf (g : MGraph) (r : Nat) (implRoot : Nat) (recs : List Rec) : Option String :=
  match domTable g r with
  | none => some "ORACLE-FUEL"
  | some T => judgeSfT T g r implRoot recs

def parseSfAnswer (impl : String) : Option (Nat × List Rec) :=
  match splitWords impl with
  | [r, recs] =>
    if !r.startsWith "root=" then none else
    match (r.drop 5).toString.toNat? with
    | none => none
    | some root =>
      if recs == "-" then some (root, []) else
      let parts := recs.splitOn ";"
      let rs := parts.filterMap parseRec
      if rs.length == parts.length then some (root, rs) else none
  | _ => none

def modelAp (v : View) : String :=
  match articulationPoints v with
  | .ok l => showNats (sortNats l)
  | .error "FUEL" => "FUEL"
  | .error _ => "panic"

def apWhy (out l : List Nat) : String :=
  s!"articulation_points = {showNats out}; nodes whose removal increases the number of connected components: {showNats (sortNats l)}"

/-- spec-level verdict on an `ap` answer.  The `ORACLE-FUEL` branch is unreachable
(`C16_judge_ap_conclusive`: `cutSet` always returns). -/
def judgeAp (g : MGraph) (out : List Nat) : Option String :=
  if checkAP g out then none else
  match cutSet g with
  | none => some "ORACLE-FUEL"
  | some l => some (apWhy out l)

def verdict (spec : Option String) (model impl : String) : String :=
  match spec with
  | some "ORACLE-FUEL" => "JUDGE-ERROR the reachability oracle ran out of fuel (never expected)"
  | some why => s!"SPECFAIL {why}"
  | none => cmpExact model impl

/-- the answer to an `sf` / `ap` line whose scope check fails -/
def sfScopeFail (v : View) (r : Nat) : String :=
  if !rootOkB v r then s!"SPECFAIL generator left the proved range: root {r} is not a node of the graph"
  else "SPECFAIL side condition of simple_fast does not hold (graph line not accepted)"

def apScopeFail (v : View) : String :=
  if v.g.directed then "SPECFAIL bad request: articulation points are judged on undirected graphs"
  else if !indexOkB v then
    s!"SPECFAIL side condition IndexOk does not hold: to_index is not injective and below node_bound() = {v.nb} on the nodes, or a neighbour is not a node"
  else "SPECFAIL side condition of articulation_points does not hold (graph line not accepted)"

/-- an `sf r` line: judged only inside the scope of `C16_simple_fast_checked` -/
def stepSf (v : View) (r : Nat) (impl : String) : String :=
  if !sfScopeB v r then sfScopeFail v r else
  if impl == "panic" then s!"SPECFAIL simple_fast panicked (root {r})" else
  match parseSfAnswer impl with
  | none => s!"SPECFAIL malformed answer {impl}"
  | some (ir, recs) => verdict (judgeSf v.g r ir recs) (modelSf v r) impl

/-- an `ap` line: judged only inside the scope of `C16_articulation_checked` -/
def stepAp (v : View) (impl : String) : String :=
  if !apScopeB v then apScopeFail v else
  if impl == "panic" then "SPECFAIL articulation_points panicked" else
  verdict (judgeAp v.g (parseNats impl)) (modelAp v) impl

/-- an `ap` line on a view classified as D23: the spec-level judge is the same (it never looks at the
view); a rejected answer is the known finding only if it is exactly the mirror model's answer on that view -/
def stepApKnown (v : View) (impl : String) : String :=
  if v.g.directed then "SPECFAIL bad request: articulation points are judged on undirected graphs" else
  if !indexOkB v then apScopeFail v else
  if impl == "panic" then "SPECFAIL articulation_points panicked" else
  match judgeAp v.g (parseNats impl) with
  | none => cmpExact (modelAp v) impl
  | some "ORACLE-FUEL" => "JUDGE-ERROR the reachability oracle ran out of fuel (never expected)"
  | some why =>
    if modelAp v == impl then
      s!"KNOWN D23 articulation_points over UndirectedAdaptor walks edges().target(), which is the node itself for incoming edges: {why}"
    else s!"SPECFAIL {why}"

/-- an `ap` line on a view classified as D6 (see `d6ViewB`): as `stepApKnown`, the model runs on the view
with the leaked ids -/
def stepApD6 (v mv : View) (impl : String) : String :=
  if impl == "panic" then "SPECFAIL articulation_points panicked" else
  match judgeAp v.g (parseNats impl) with
  | none => cmpExact (modelAp mv) impl
  | some "ORACLE-FUEL" => "JUDGE-ERROR the reachability oracle ran out of fuel (never expected)"
  | some why =>
    if modelAp mv == impl then
      s!"KNOWN D6 articulation_points walks edges from nodes the filter excludes (MatrixGraph incoming edges have their endpoints swapped, NodeFiltered tests the wrong one): {why}"
    else s!"SPECFAIL {why}"

/-- a `law …` line: the harness checked a law against the implementation itself -/
def stepLaw (req : List String) (impl : String) : String :=
  if impl == "ok" then "ok" else s!"SPECFAIL law `{String.intercalate " " req}` does not hold: {impl}"

def isMatrixFilteredUndirected (req : List String) : Bool :=
  ((field? req "base").getD "").startsWith "MatrixGraph" && field? req "ad" == some "UndirectedAdaptor(NodeFiltered)" &&
  field? req "via" == some "edges"

def isUndirectedAdaptor (req : List String) : Bool :=
  ((field? req "ad").getD "").startsWith "UndirectedAdaptor" && field? req "via" == some "edges"

def step (d : DState) (req : List String) (impl : String) : DState × String :=
  match req with
  | "case" :: k :: _ => ({}, s!"case {k}")
  | "graph" :: _ =>
    match parseView req with
    | none => (d, "SPECFAIL unparsable graph line")
    | some v =>
      if graphScopeB v then ({ v := v, ok := true }, "ok")
      else if isUndirectedAdaptor req && d23ViewB v then
        ({ v := v, ok := true, known := some "D23" },
         "KNOWN D23 UndirectedAdaptor::edges reports incoming edges with their stored orientation (target() = the node itself)")
      else if isMatrixFilteredUndirected req && d6ViewB v then
        ({ v := v, ok := true, known := some "D6", mv := d6ModelView v (parsePairs ((field? req "xix").getD "-")) },
         "KNOWN D6 MatrixGraph::edges_directed(_, Incoming) yields (a, predecessor): NodeFiltered lets edges from excluded nodes through")
      else if !wfB v.g then
        ({ v := v, ok := false }, "SPECFAIL side condition WellFormed does not hold: node_identifiers() repeats a node or an edge of the abstract graph joins an id it does not list")
      else if !viewOkB v then
        ({ v := v, ok := false }, "SPECFAIL side condition ViewOk does not hold: neighbour iteration of this encoding does not describe the abstract graph")
      else ({ v := v, ok := false }, "SPECFAIL side condition ViewOk does not hold: neighbours are enumerated for an id that is not a node")
  | "sf" :: root :: via =>
    if !d.ok then (d, "SPECFAIL no valid graph") else
    if d.known.isSome then (d, "SPECFAIL bad request: simple_fast is judged on the neighbors() view") else
    if !(via == [] || via == ["clone"] || via == ["clonefrom"]) then (d, s!"SPECFAIL bad request {req}") else
    match root.toNat? with
    | none => (d, "SPECFAIL bad request")
    | some r => (d, stepSf d.v r impl)
  | ["ap"] =>
    if !d.ok then (d, "SPECFAIL no valid graph") else
    if d.known == some "D6" then (d, stepApD6 d.v d.mv impl) else
    if d.known.isSome then (d, stepApKnown d.v impl) else (d, stepAp d.v impl)
  | "law" :: _ => (d, stepLaw req impl)
  | _ => (d, s!"SPECFAIL bad request {req}")

end PetgraphModel.C16
