import PetgraphModel.Common
import PetgraphModel.GraphProto
import PetgraphModel.Oracle.C16
import PetgraphModel.Model.C16Dom
import PetgraphModel.Model.C16Artic
/-
C16 driver.  Requests (after a `graph …` line):

  sf <root>     dominators::simple_fast(g, root) observed through every accessor:
                `root=<r> <rec>;<rec>;…`, one record per node `b` (ascending abstract id)
                `b:<immediate_dominator>:<dominators>:<strict_dominators>:<immediately_dominated_by>`
                with `x` = None, lists `a/b/c` (`-` = empty); `immediately_dominated_by` sorted
  ap            articulation_points(g): sorted node list

`panic` as answer = the call panicked.

Exact part: the mirror models (`Model/C16Dom.lean`, `Model/C16Artic.lean`) run on the view.
Spec part: the checkers of `Oracle/C16.lean` (proved sound in `Theorems/C16.lean`) on the abstract graph.
-/
namespace PetgraphModel.C16
open PetgraphModel PetgraphModel.Oracle PetgraphModel.C16O PetgraphModel.C16M

structure DState where
  v : View := default
  ok : Bool := false

/-- the view's neighbour lists describe the abstract graph (as multisets) -/
def viewOkB (v : View) : Bool :=
  v.g.nodes.all fun a => sameSet (v.succ a) (v.g.succ a) && sameSet (v.pred a) (v.g.pred a)

def showSl (l : List Nat) : String :=
  if l.isEmpty then "-" else String.intercalate "/" (l.map toString)

def showOptSl : Option (List Nat) → String
  | none => "x"
  | some l => showSl l

def showOptX : Option Nat → String
  | none => "x"
  | some n => toString n

def parseSl (s : String) : List Nat :=
  if s == "-" then [] else (s.splitOn "/").filterMap (·.toNat?)

def parseOptSl (s : String) : Option (List Nat) := if s == "x" then none else some (parseSl s)

structure Rec where
  b : Nat
  idom : Option Nat
  doms : Option (List Nat)
  strict : Option (List Nat)
  idb : List Nat
  deriving Repr

def parseRec (s : String) : Option Rec :=
  match s.splitOn ":" with
  | [b, i, d, st, idb] =>
    match b.toNat? with
    | some b =>
      if i == "x" then some ⟨b, none, parseOptSl d, parseOptSl st, parseSl idb⟩
      else match i.toNat? with
        | some i => some ⟨b, some i, parseOptSl d, parseOptSl st, parseSl idb⟩
        | none => none
    | none => none
  | _ => none

def showRec (r : Rec) : String :=
  s!"{r.b}:{showOptX r.idom}:{showOptSl r.doms}:{showOptSl r.strict}:{showSl r.idb}"

/-- the model's observation of a `Doms` value, in the harness's format -/
def showDoms (nodes : List Nat) (d : Doms) : String :=
  let recs := nodes.map fun b =>
    showRec ⟨b, d.immediateDominator b, d.dominators b, d.strictDominators b, sortNats (d.immediatelyDominatedBy b)⟩
  s!"root={d.root} " ++ (if recs.isEmpty then "-" else String.intercalate ";" recs)

def modelSf (v : View) (root : Nat) : String :=
  match simpleFast v root with
  | .ok d => showDoms (sortNats v.g.nodes) d
  | .panic _ => "panic"
  | .fuel => "FUEL"

/-- spec-level verdict on one `sf` answer: every clause of the property, per node -/
def judgeSf (g : MGraph) (r : Nat) (implRoot : Nat) (recs : List Rec) : Option String :=
  match domTable g r with
  | none => some "ORACLE-FUEL"
  | some T =>
    if implRoot != r then some s!"root() = {implRoot}, the root given was {r}" else
    if !(sameSet (recs.map (·.b)) g.nodes) then some "answer does not list every node once" else
    recs.findSome? fun rc =>
      if !T.checkDominators rc.b rc.doms then
        some s!"dominators({rc.b}) = {showOptSl rc.doms}; by the path definition: {if T.R.contains rc.b then showSl (sortNats (T.domsOf rc.b)) else "x (unreachable from the root)"}"
      else if !T.checkStrict rc.b rc.strict then
        some s!"strict_dominators({rc.b}) = {showOptSl rc.strict}; by the path definition: {if T.R.contains rc.b then showSl (sortNats (T.strictOf rc.b)) else "x (unreachable from the root)"}"
      else if !T.checkIdom rc.b rc.idom then
        some s!"immediate_dominator({rc.b}) = {showOptX rc.idom}; the closest strict dominator is {if rc.b == r || !T.R.contains rc.b then "x" else showSl (T.idomOf rc.b)}"
      else if !T.checkIdb rc.b rc.idb then
        some s!"immediately_dominated_by({rc.b}) = {showSl rc.idb}; nodes whose immediate dominator it is: {showSl (sortNats (T.idbOf rc.b))}"
      else none

def parseSfAnswer (impl : String) : Option (Nat × List Rec) :=
  match splitWords impl with
  | [r, recs] =>
    if !r.startsWith "root=" then none else
    match (r.drop 5).toString.toNat? with
    | none => none
    | some root =>
      if recs == "-" then some (root, []) else
      let parts := recs.splitOn ";"
      let rs := parts.filterMap parseRec
      if rs.length == parts.length then some (root, rs) else none
  | _ => none

def modelAp (v : View) : String :=
  match articulationPoints v with
  | .ok l => showNats (sortNats l)
  | .error "FUEL" => "FUEL"
  | .error _ => "panic"

def judgeAp (g : MGraph) (out : List Nat) : Option String :=
  if checkAP g out then none else
  match cutSet g with
  | none => some "ORACLE-FUEL"
  | some l => some s!"articulation_points = {showNats out}; nodes whose removal increases the number of connected components: {showNats (sortNats l)}"

def verdict (spec : Option String) (model impl : String) : String :=
  match spec with
  | some "ORACLE-FUEL" => "JUDGE-ERROR the reachability oracle ran out of fuel (never expected)"
  | some why => s!"SPECFAIL {why}"
  | none => cmpExact model impl

def step (d : DState) (req : List String) (impl : String) : DState × String :=
  match req with
  | "case" :: k :: _ => ({}, s!"case {k}")
  | "graph" :: _ =>
    match parseView req with
    | none => (d, "SPECFAIL unparsable graph line")
    | some v =>
      if viewOkB v then ({ v := v, ok := true }, "ok")
      else ({ v := v, ok := false }, "SPECFAIL neighbour iteration of this encoding does not describe the abstract graph")
  | ["sf", root] =>
    if !d.ok then (d, "SPECFAIL no valid graph") else
    match root.toNat? with
    | none => (d, "SPECFAIL bad request")
    | some r =>
      if impl == "panic" then (d, s!"SPECFAIL simple_fast panicked (root {r})") else
      match parseSfAnswer impl with
      | none => (d, s!"SPECFAIL malformed answer {impl}")
      | some (ir, recs) => (d, verdict (judgeSf d.v.g r ir recs) (modelSf d.v r) impl)
  | ["ap"] =>
    if !d.ok then (d, "SPECFAIL no valid graph") else
    if d.v.g.directed then (d, "SPECFAIL bad request: articulation points are judged on undirected graphs") else
    if impl == "panic" then (d, "SPECFAIL articulation_points panicked") else
    (d, verdict (judgeAp d.v.g (parseNats impl)) (modelAp d.v) impl)
  | _ => (d, s!"SPECFAIL bad request {req}")

end PetgraphModel.C16
