import PetgraphModel.Common
import PetgraphModel.Model.StableGraph
import PetgraphModel.Spec.StableGraphSpec
import PetgraphModel.Spec.C02W4Queries
import PetgraphModel.Model.C02W4Calls
import PetgraphModel.Model.C02W6Debug
/-
C02 driver: runs the mirror model (`SG.State`) and the abstract reference multigraph (`SGSpec.Spec`)
side by side with the implementation's answers.

* exact part: the mirror model's answer string must equal the implementation's (which index is handed
  out, every iteration order, every dump line);
* spec-level judge: every implementation answer is checked against the clauses of the property only —
  a returned index must not be live, counts = number of live elements, bounds = last live + 1, every
  iterator/query describes the reference multigraph (as multisets where petgraph leaves the order open,
  unordered endpoints for undirected graphs), a call that answered `err` leaves every dumped observable
  textually unchanged, no valid call panics.  The spec machine advances with the IMPLEMENTATION's
  answers (the index it handed out), never with the mirror model's.

Wave 4: every query of a dump line is computed by the ONE model function `SG.query` (theorem `C02_query_refines`) and judged
by the executable reference predicate `SGSpec.specQueryB` (theorem `C02_query_judge_iff`: it accepts exactly the answers the
reference multigraph admits); the panicking variants run through `SG.pstep` and must panic EXACTLY when `Spec.panics` says so
(`C02_panicking_variants`); `extend_with_edges` must complete iff `extendFits` and a panicking call must leave exactly the
processed prefix behind (`C02_extend_general`); constructors run through `SG.construct` (`C02_constructors`).

Wave 6 (corners of the API): `law <name> … => ok | VIOLATED <why>` lines carry the verdict of a LAW the harness checked on the
implementation itself (iterator contracts of every iterator struct, `clone`/`clone_from`/`clear`/constructors observably equal,
trait views = inherent methods, `Index` = `*_weight`, `Debug` never panics, `visit_map`/`reset_map`, `GetAdjacencyMatrix`,
`IntoWeightedEdge` forms of `extend_with_edges`, `filter_elements`, the `u16` index limit, the `Frozen` proxy): anything but `ok`
is a SPECFAIL.  `d.dbg` is the `Debug` rendering of the graph: compared exactly with `SG.renderDbg` (it shows `free_node` /
`free_edge`) and its live parts judged against the reference (`C02_debug_refines`).  `retain_* rm c` with `c ≠ 0`: the closure
also added `c` to every element it was shown (through `IndexMut` of the `Frozen` proxy) — a write happens when the element is
shown, removals never read weights, so the call is `bump` followed by `retain_*`.  `family …` lines only label the generator
family (for the distribution report).
-/
namespace PetgraphModel.C02
open PetgraphModel PetgraphModel.SG PetgraphModel.SGSpec

structure DState where
  st : SG.State := SG.empty true 0 false false
  sp : Spec := SGSpec.empty true
  fin : Nat := 0
  noLimit : Bool := false
  /-- implementation dump lines (request ↦ answer) of the previous / the current dump -/
  prevDump : List (String × String) := []
  curDump : List (String × String) := []
  /-- a state-changing call succeeded since the last dump -/
  dirty : Bool := false
  /-- a call answered `err` since the last dump (and nothing changed the state since) -/
  errSince : Bool := false
  /-- the dump being read must equal the previous one -/
  compareDump : Bool := false
  /-- the spec state is to be re-read from the next dump: `0` no, `1` after `compact`,
  `2` after a panicking `extend_with_edges` -/
  resync : Nat := 0
  oldSp : Spec := SGSpec.empty true
  pendingEdges : List String := []

/-! ### small helpers -/

def toks (s : String) (sep : String := ",") : List String :=
  if s == "-" || s == "" then [] else s.splitOn sep

def showL (l : List String) : String := if l.isEmpty then "-" else String.intercalate "," l

def sortS (l : List String) : List String := l.mergeSort (fun a b => !(decide (b < a)))
def sameMS (a b : List String) : Bool := sortS a == sortS b
def sortN (l : List Nat) : List Nat := l.mergeSort (fun a b => a ≤ b)

def natOf (s : String) : Nat := s.toNat?.getD 0
def intOf (s : String) : Int := s.toInt?.getD 0

def nth (l : List String) (i : Nat) : String := l.getD i ""

/-- `e:a:b:w` -/
def showERef (r : ERef) : String := s!"{r.id}:{r.a}:{r.b}:{r.w}"
def showERefs (l : List ERef) : String := showL (l.map showERef)
def showPairs (l : List (Nat × Nat)) : String := showL (l.map fun (a, b) => s!"{a}:{b}")
def showNI (l : List (Nat × Int)) : String := showL (l.map fun (a, b) => s!"{a}:{b}")

def showF {α : Type} (f : α → String) : Except Fault α → String
  | .ok v => f v
  | .error .oob => "FAULT-oob"
  | .error .fuel => "FAULT-fuel"
  | .error .debugAssert => "FAULT-debug-assert"
  | .error .overflow => "FAULT-overflow"

def showFault : Fault → String
  | .oob => "FAULT-oob" | .fuel => "FAULT-fuel" | .debugAssert => "FAULT-debug-assert" | .overflow => "FAULT-overflow"

def showErr : GErr → String
  | .nodeIxLimit => "NodeIxLimit"
  | .edgeIxLimit => "EdgeIxLimit"
  | .nodeMissed i => s!"NodeMissed {i}"

/-- canonical form of an `…:a:b:w` token whose endpoints are unordered in an undirected graph;
`off` = position of `a` -/
def canonTok (directed : Bool) (off : Nat) (t : String) : String :=
  if directed then t else
    let p := t.splitOn ":"
    let a := natOf (nth p off)
    let b := natOf (nth p (off + 1))
    if a ≤ b then t
    else String.intercalate ":" (p.take off ++ [toString b, toString a] ++ p.drop (off + 2))

def parseTriples (s : String) : List (Nat × Nat × Int) :=
  (toks s).map fun t => let p := t.splitOn ":"; (natOf (nth p 0), natOf (nth p 1), intOf (nth p 2))

/-! ### answers of queries as text, and back -/

def showRefT (r : ERefT) : String := s!"{r.1}:{r.2.1}:{r.2.2.1}:{r.2.2.2}"

def showQ : QOut → String
  | .nat n => toString n
  | .nats l => showNats l
  | .nodeRefs l => showNI l
  | .erefs l => showL (l.map showRefT)
  | .pairs l => showPairs l
  | .optInt o => (match o with | some w => toString w | none => "x")
  | .bool b => if b then "1" else "0"
  | .optPair o => (match o with | some (a, b) => s!"{a}:{b}" | none => "x")
  | .optNat o => (match o with | some e => toString e | none => "x")
  | .optDir o => (match o with | some (e, d) => toString e ++ (if d then "<" else ">") | none => "x")

def revQ : QOut → QOut
  | .nats l => .nats l.reverse
  | .nodeRefs l => .nodeRefs l.reverse
  | .erefs l => .erefs l.reverse
  | o => o

/-- the mirror model's answer to a query, as text -/
def mq (s : SG.State) (q : Query) : String := showF showQ (query s q)
def mqRev (s : SG.State) (q : Query) : String := showF (fun o => showQ (revQ o)) (query s q)

def pList {α : Type} (f : String → Option α) (s : String) : Option (List α) := (toks s).mapM f

def pRef (t : String) : Option ERefT :=
  match t.splitOn ":" with
  | [e, a, b, w] => match e.toNat?, a.toNat?, b.toNat?, w.toInt? with
    | some e, some a, some b, some w => some (e, a, b, w)
    | _, _, _, _ => none
  | _ => none

def pPair (t : String) : Option (Nat × Nat) :=
  match t.splitOn ":" with
  | [a, b] => match a.toNat?, b.toNat? with
    | some a, some b => some (a, b)
    | _, _ => none
  | _ => none

def pNI (t : String) : Option (Nat × Int) :=
  match t.splitOn ":" with
  | [a, b] => match a.toNat?, b.toInt? with
    | some a, some b => some (a, b)
    | _, _ => none
  | _ => none

/-- parse the implementation's answer to query `q` (strict: anything unexpected is `none`) -/
def parseQ (q : Query) (t : String) : Option QOut :=
  match q with
  | .nodeCount | .edgeCount | .nodeBound | .edgeBound => t.toNat?.map .nat
  | .nodeIndices | .edgeIndices | .neighbors _ | .neighborsDirected _ _ | .neighborsUndirected _ | .externals _ =>
    (pList String.toNat? t).map .nats
  | .nodeReferences => (pList pNI t).map .nodeRefs
  | .edgeReferences | .edges _ | .edgesDirected _ _ | .edgesConnecting _ _ => (pList pRef t).map .erefs
  | .walker _ _ => (pList pPair t).map .pairs
  | .nodeWeight _ | .edgeWeight _ => if t == "x" then some (.optInt none) else t.toInt?.map fun w => .optInt (some w)
  | .containsNode _ | .containsEdge _ _ => if t == "1" then some (.bool true) else if t == "0" then some (.bool false) else none
  | .edgeEndpoints _ => if t == "x" then some (.optPair none) else (pPair t).map fun p => .optPair (some p)
  | .findEdge _ _ => if t == "x" then some (.optNat none) else t.toNat?.map fun e => .optNat (some e)
  | .findEdgeUndirected _ _ =>
    if t == "x" then some (.optDir none)
    else
      let body := (t.dropEnd 1).toString
      if t.endsWith ">" then body.toNat?.map fun e => .optDir (some (e, false))
      else if t.endsWith "<" then body.toNat?.map fun e => .optDir (some (e, true))
      else none

/-- **the spec-level judge of a query answer**: the implementation's text `t` must parse to an answer that the reference
multigraph admits (`specQueryB`, proved equivalent to `SpecQuery`) -/
def jq (sp : Spec) (name : String) (q : Query) (t : String) : Option String :=
  match parseQ q t with
  | none => some s!"{name}: unparsable answer [{t}]"
  | some o =>
    if specQueryB sp q o then none
    else some s!"{name} = [{t}]; the reference admits [{showQ (specAnswer sp q)}] (iterators up to order)"

def firstWhy (l : List (Option String)) : Option String := l.findSome? id

/-! ### the mirror model's dump lines (all through `SG.query`) -/

def mNodes (s : SG.State) : String := s!"{mq s .nodeReferences}|{mqRev s .nodeReferences}"
def mEdges (s : SG.State) : String := s!"{mq s .edgeReferences}|{mqRev s .edgeReferences}"

def mCounts (s : SG.State) : String :=
  s!"{mq s .nodeCount} {mq s .edgeCount} {mq s .nodeBound} {mq s .edgeBound} {mq s .nodeBound}"

def mNidx (s : SG.State) : String := s!"{mq s .nodeIndices}|{mqRev s .nodeIndices}|{mq s .nodeIndices}"
def mEidx (s : SG.State) : String := s!"{mq s .edgeIndices}|{mqRev s .edgeIndices}"

def mWts (s : SG.State) : String :=
  s!"{showInts ((nodeReferences s).map (·.2))}|{showInts ((edgeReferences s).map (·.w))}"

def mNw (s : SG.State) (k : Nat) : String :=
  let l := List.range k
  s!"{showL (l.map fun i => mq s (.nodeWeight i))}|{showL (l.map fun i => mq s (.containsNode i))}"

def mEw (s : SG.State) (k : Nat) : String :=
  showL ((List.range k).map fun e => s!"{mq s (.edgeWeight e)}/{mq s (.edgeEndpoints e)}")

def joinSemi (l : List String) : String := if l.isEmpty then "-" else String.intercalate ";" l

def mAdj (s : SG.State) (k : Nat) : String :=
  joinSemi ((List.range k).map fun i =>
    String.intercalate "/" [mq s (.neighbors i), mq s (.neighborsDirected i false), mq s (.neighborsDirected i true),
      mq s (.neighborsUndirected i)])

def mInc (s : SG.State) (k : Nat) : String :=
  joinSemi ((List.range k).map fun i =>
    String.intercalate "/" [mq s (.edges i), mq s (.edgesDirected i false), mq s (.edgesDirected i true)])

def mWalk (s : SG.State) (k : Nat) : String :=
  joinSemi ((List.range k).map fun i =>
    String.intercalate "/" [mq s (.walker i 0), mq s (.walker i 1), mq s (.walker i 2)])

def mExt (s : SG.State) : String := s!"{mq s (.externals false)}|{mq s (.externals true)}"

def mPairs (s : SG.State) (ids : List Nat) : String :=
  joinSemi (ids.flatMap fun a => ids.map fun b =>
    String.intercalate "/" [mq s (.findEdge a b), mq s (.findEdgeUndirected a b), mq s (.containsEdge a b),
      mq s (.edgesConnecting a b)])

/-- the queries of the `d.endq` line: everything asked about the `end()` index -/
def endQueries (e : Nat) : List (String × Query) :=
  [("node_weight(end)", .nodeWeight e), ("contains_node(end)", .containsNode e), ("neighbors(end)", .neighbors e),
   ("neighbors_undirected(end)", .neighborsUndirected e), ("edges_directed(end, Outgoing)", .edgesDirected e false),
   ("edges_directed(end, Incoming)", .edgesDirected e true), ("edge_weight(end)", .edgeWeight e),
   ("edge_endpoints(end)", .edgeEndpoints e), ("find_edge(end, 0)", .findEdge e 0), ("find_edge(0, end)", .findEdge 0 e),
   ("neighbors_undirected(end).detach()", .walker e 2)]

def mEndq (s : SG.State) : String := String.intercalate " " ((endQueries s.fin).map fun p => mq s p.2)

def mToGraph (s : SG.State) : String :=
  match toGraph s with
  | .error f => showFault f
  | .ok g =>
    let ws := showInts ((nodeReferences g).map (·.2))
    let es := showL ((edgeReferences g).map fun r => s!"{r.a}:{r.b}:{r.w}")
    -- `Graph::neighbors_undirected` (no debug assertions in `Graph`'s iterator)
    let nb := joinSemi ((List.range g.nodes.length).map fun i =>
      showF showNats (neighborsUndirected { g with debug := false } i))
    s!"{ws}|{es}|{nb}"

/-! ### spec-level judges of the dump lines (on the IMPLEMENTATION's answer; every query through `jq`) -/

def specNodeToks (sp : Spec) : List String := sp.nodeRefs.map fun (i, w) => s!"{i}:{w}"
def specEdgeToks (sp : Spec) : List String :=
  sp.edgeRefs.map fun (i, e) => canonTok sp.directed 1 s!"{i}:{e.a}:{e.b}:{e.w}"

def part (s : String) (i : Nat) (sep : String := "|") : String := nth (s.splitOn sep) i

def jNodes (sp : Spec) (impl : String) : Option String :=
  firstWhy [jq sp "node_references" .nodeReferences (part impl 0), jq sp "node_references().rev()" .nodeReferences (part impl 1)]

def jEdges (sp : Spec) (impl : String) : Option String :=
  firstWhy [jq sp "edge_references" .edgeReferences (part impl 0), jq sp "edge_references().rev()" .edgeReferences (part impl 1)]

def jCounts (sp : Spec) (impl : String) : Option String :=
  let p := splitWords impl
  firstWhy [jq sp "node_count" .nodeCount (nth p 0), jq sp "edge_count" .edgeCount (nth p 1),
    jq sp "node_bound" .nodeBound (nth p 2), jq sp "edge_bound" .edgeBound (nth p 3),
    if natOf (nth p 4) ≠ sp.nodeBound then some s!"visit_map has {nth p 4} slots, last live node + 1 = {sp.nodeBound}" else none]

def jNidx (sp : Spec) (impl : String) : Option String :=
  firstWhy [jq sp "node_indices" .nodeIndices (part impl 0), jq sp "node_indices().rev()" .nodeIndices (part impl 1),
    jq sp "node_identifiers" .nodeIndices (part impl 2)]

def jEidx (sp : Spec) (impl : String) : Option String :=
  firstWhy [jq sp "edge_indices" .edgeIndices (part impl 0), jq sp "edge_indices().rev()" .edgeIndices (part impl 1)]

def jIdx (what : String) (want : List Nat) (impl : String) (n : Nat) : Option String :=
  let w := want.map toString
  match (List.range n).find? (fun i => !sameMS (toks (part impl i)) w) with
  | some i => some s!"{what} (variant {i}) does not list the live indices {showNats want}"
  | none => none

def jWts (sp : Spec) (impl : String) : Option String :=
  let nw := showInts (sp.nodeRefs.map (·.2))
  let ew := showInts (sp.edgeRefs.map (·.2.w))
  if part impl 0 != nw then some s!"node_weights() yields {part impl 0}, live weights in index order are {nw}"
  else if part impl 1 != ew then some s!"edge_weights() yields {part impl 1}, live weights in index order are {ew}"
  else none

def jNw (sp : Spec) (k : Nat) (impl : String) : Option String :=
  let ws := toks (part impl 0)
  let cs := toks (part impl 1)
  if ws.length ≠ k || cs.length ≠ k then some "node_weight line has the wrong length"
  else (List.range k).findSome? fun i =>
    firstWhy [jq sp s!"node_weight({i})" (.nodeWeight i) (nth ws i), jq sp s!"contains_node({i})" (.containsNode i) (nth cs i)]

def jEw (sp : Spec) (k : Nat) (impl : String) : Option String :=
  let ts := toks impl
  if ts.length ≠ k then some "edge_weight line has the wrong length"
  else (List.range k).findSome? fun e =>
    let t := nth ts e
    firstWhy [jq sp s!"edge_weight({e})" (.edgeWeight e) (part t 0 "/"), jq sp s!"edge_endpoints({e})" (.edgeEndpoints e) (part t 1 "/")]

/-- per-node line: `check i fields` returns a reason or none -/
def jPerNode (k : Nat) (impl : String) (check : Nat → List String → Option String) : Option String :=
  let ns := if impl == "-" then [] else impl.splitOn ";"
  if ns.length ≠ k then some s!"line has {ns.length} node entries, expected {k}"
  else (List.range k).findSome? fun i => check i ((nth ns i).splitOn "/")

def jAdj (sp : Spec) (k : Nat) (impl : String) : Option String :=
  jPerNode k impl fun i f =>
    firstWhy [jq sp s!"neighbors({i})" (.neighbors i) (nth f 0),
      jq sp s!"neighbors_directed({i}, Outgoing)" (.neighborsDirected i false) (nth f 1),
      jq sp s!"neighbors_directed({i}, Incoming)" (.neighborsDirected i true) (nth f 2),
      jq sp s!"neighbors_undirected({i})" (.neighborsUndirected i) (nth f 3)]

def jInc (sp : Spec) (k : Nat) (impl : String) : Option String :=
  jPerNode k impl fun i f =>
    firstWhy [jq sp s!"edges({i})" (.edges i) (nth f 0),
      jq sp s!"edges_directed({i}, Outgoing)" (.edgesDirected i false) (nth f 1),
      jq sp s!"edges_directed({i}, Incoming)" (.edgesDirected i true) (nth f 2)]

def jWalk (sp : Spec) (k : Nat) (impl : String) : Option String :=
  jPerNode k impl fun i f =>
    (List.range 3).findSome? fun d => jq sp s!"detached walker {d} of node {i}" (.walker i d) (nth f d)

def jExt (sp : Spec) (impl : String) : Option String :=
  firstWhy [jq sp "externals(Outgoing)" (.externals false) (part impl 0), jq sp "externals(Incoming)" (.externals true) (part impl 1)]

def specConn (sp : Spec) (a b : Nat) : List (Nat × SEdge) :=
  if sp.nodeLive a && sp.nodeLive b then sp.edgeRefs.filter (fun (_, e) => sp.connects e a b) else []

def jPairs (sp : Spec) (ids : List Nat) (impl : String) : Option String :=
  let ps := ids.flatMap fun a => ids.map fun b => (a, b)
  let ts := if impl == "-" then [] else impl.splitOn ";"
  if ts.length ≠ ps.length then some "pairs line has the wrong length" else
  (List.range ps.length).findSome? fun j =>
    let (a, b) := ps.getD j (0, 0)
    let f := (nth ts j).splitOn "/"
    firstWhy [jq sp s!"find_edge({a},{b})" (.findEdge a b) (nth f 0),
      jq sp s!"find_edge_undirected({a},{b})" (.findEdgeUndirected a b) (nth f 1),
      jq sp s!"contains_edge({a},{b})" (.containsEdge a b) (nth f 2),
      jq sp s!"edges_connecting({a},{b})" (.edgesConnecting a b) (nth f 3)]

def jEndq (sp : Spec) (fin : Nat) (impl : String) : Option String :=
  let f := splitWords impl
  let qs := endQueries fin
  if f.length ≠ qs.length then some "end() line has the wrong length"
  else (qs.zip f).findSome? fun (p, t) => jq sp p.1 p.2 t

def jToGraph (sp : Spec) (impl : String) : Option String :=
  let ws := (toks (part impl 0)).map intOf
  let es := parseTriples (part impl 1)
  let wantN := sp.nodeRefs.map (·.2)
  let key := fun (x y : Int) (w : Int) => if sp.directed || x ≤ y then s!"{x}:{y}:{w}" else s!"{y}:{x}:{w}"
  let gotE := es.map fun (a, b, w) => key (ws.getD a 0) (ws.getD b 0) w
  let wantE := sp.edgeRefs.map fun (_, e) => key ((sp.node e.a).getD 0) ((sp.node e.b).getD 0) e.w
  if !sameMS (ws.map toString) (wantN.map toString) then some s!"Graph::from: node weights {part impl 0}, live node weights {showInts wantN}"
  else if !sameMS gotE wantE then some s!"Graph::from: edges (by endpoint weights) {showL gotE}, reference {showL wantE}"
  else if es.any (fun (a, b, _) => a ≥ ws.length || b ≥ ws.length) then some "Graph::from: edge endpoint out of range"
  else if sp.nodeCount == sp.nodeBound && sp.edgeCount == sp.edgeBound then
    -- no vacancies: documented to keep the indices
    let exact := sp.edgeRefs.map fun (_, e) => canonTok sp.directed 0 s!"{e.a}:{e.b}:{e.w}"
    let got := (toks (part impl 1)).map (canonTok sp.directed 0)
    if ws != wantN || got != exact then some "Graph::from a StableGraph without vacancies changed indices" else none
  else none

/-! ### `Debug` (wave 6) -/

def mDbg (s : SG.State) : String := renderDbg (dbgView s)

/-- the text between the first occurrence of `pre` and the next occurrence of `post` -/
def between (s pre post : String) : Option String :=
  match s.splitOn pre with
  | _ :: rest :: _ =>
    match rest.splitOn post with
    | x :: _ :: _ => some x
    | _ => none
  | _ => none

def parseEdgePairs (t : String) : Option (List (Nat × Nat)) :=
  let body := ((t.drop 1).dropEnd 1).toString
  (body.splitOn "), (").mapM fun x =>
    match x.splitOn ", " with
    | [a, b] => match a.toNat?, b.toNat? with
      | some a, some b => some (a, b)
      | _, _ => none
    | _ => none

/-- spec-level judge of the `Debug` rendering: the parts that can be located in the text must show the reference's counts and
live elements (a text of another shape is left to the exact comparison) -/
def jDbg (sp : Spec) (impl : String) : Option String :=
  if impl == "panic" then some "formatting the graph with {:?} panicked" else
  let v := specDbg sp
  let field (what pre post want : String) : Option String :=
    match between impl pre post with
    | some got => if got == want then none else some s!"Debug shows {what} [{got}], the reference has [{want}]"
    | none => none
  firstWhy [
    field "node_count" "node_count: " "," (toString v.nodeCount),
    field "edge_count" "edge_count: " "," (toString v.edgeCount),
    field "the node weights" "node weights: " ", edge weights: " (showWeightMap v.nodeWeights),
    field "the edge weights" ", edge weights: " ", free_node: " (showWeightMap v.edgeWeights),
    match between impl ", edges: " ", node weights: " with
    | some t =>
      match parseEdgePairs t with
      | some l =>
        if l.map sp.canon == v.edges.map sp.canon then none
        else some s!"Debug shows the edges [{t}], the reference has [{showEdgePairs v.edges}]"
      | none => none
    | none =>
      if v.edges.isEmpty || (between impl "node_count: " ",").isNone then none
      else some s!"Debug shows no edges, the reference has [{showEdgePairs v.edges}]"]

/-! ### spec-level judges of the calls -/

def missingOf (sp : Spec) (a b : Nat) : List Nat := [a, b].filter (fun x => !sp.nodeLive x)

def nodesFull (d : DState) : Bool := !d.noLimit && d.sp.nodeCount == d.fin
def edgesFull (d : DState) : Bool := !d.noLimit && d.sp.edgeCount == d.fin

/-- judge `try_add_node`-like answers; `r`: `ok i` / `err NodeIxLimit` (already normalised) -/
def jAddNode (d : DState) (w : Int) (r : List String) : Spec × Option String :=
  match r with
  | ["ok", i] =>
    let i := natOf i
    if d.sp.freshNode d.fin i then (d.sp.addNodeAt i w, none)
    else (d.sp.addNodeAt i w, some s!"new node received index {i} which is live or not a valid index")
  | ["err", "NodeIxLimit"] =>
    if nodesFull d then (d.sp, none)
    else (d.sp, some s!"NodeIxLimit reported with {d.sp.nodeCount} live nodes (capacity {d.fin})")
  | _ => (d.sp, some s!"unexpected answer {r}")

def jAddEdge (d : DState) (a b : Nat) (w : Int) (r : List String) : Spec × Option String :=
  let miss := missingOf d.sp a b
  match r with
  | ["ok", e] =>
    let e := natOf e
    if !miss.isEmpty then (d.sp, some s!"edge added although node {miss.head!} does not exist")
    else if d.sp.freshEdge d.fin e then (d.sp.addEdgeAt e a b w, none)
    else (d.sp.addEdgeAt e a b w, some s!"new edge received index {e} which is live or not a valid index")
  | ["err", "NodeMissed", i] =>
    if miss.contains (natOf i) then (d.sp, none)
    else (d.sp, some s!"NodeMissed({i}) but that node is not a missing endpoint (missing: {miss})")
  | ["err", "EdgeIxLimit"] =>
    if edgesFull d then (d.sp, none)
    else (d.sp, some s!"EdgeIxLimit reported with {d.sp.edgeCount} live edges (capacity {d.fin})")
  | _ => (d.sp, some s!"unexpected answer {r}")

def jUpdateEdge (d : DState) (a b : Nat) (w : Int) (r : List String) : Spec × Option String :=
  let conn := specConn d.sp a b
  if conn.isEmpty then jAddEdge d a b w r
  else match r with
    | ["ok", e] =>
      if (conn.map (·.1)).contains (natOf e) then (d.sp.setEdgeWeight (natOf e) w, none)
      else (d.sp, some s!"update_edge returned {e} which does not connect {a} and {b} although such an edge exists")
    | _ => (d.sp, some s!"update_edge of an existing edge answered {r}")

/-- normalise the answer of a panicking variant (`<i>` / `panic`) to the `try_` form, using the spec to
pick the error a documented panic stands for -/
def normPanic (impl : String) (errWords : List String) : List String :=
  if impl == "panic" then errWords else ["ok", impl]

/-- answer of a panicking variant as text -/
def showP : POut → String
  | .idx i => toString i
  | .weight w => toString w
  | .unit => "ok"
  | .panic => "panic"

/-- **exact panic judge**: the implementation must panic iff the documented panic condition `Spec.panics` holds in the
reference; `okJudge` judges a non-panicking answer -/
def jPanic (d : DState) (name : String) (c : PCall) (impl : String) (okJudge : Unit → Spec × Option String) :
    Spec × Option String :=
  let must := d.sp.panics d.fin c
  if impl == "panic" then
    (d.sp, if must then none else some s!"{name} panicked although its documented panic condition does not hold")
  else
    let (sp, why) := okJudge ()
    (sp, if must then some s!"{name} answered [{impl}] although its documented panic condition holds (it must panic)" else why)

/-- the edges of an `extend_with_edges` request that are processed before the first one that does not fit, and the endpoints
of the offending edge that are created nevertheless (`SpecExtendP`) -/
def extendPrefix (fin : Nat) : Nat → List (Nat × Nat × Int) → List (Nat × Nat × Int) × List Nat
  | _, [] => ([], [])
  | ec, (a, b, w) :: rest =>
    if a ≥ fin then ([], [])
    else if b ≥ fin then ([], [a])
    else if ec ≥ fin then ([], [a, b])
    else
      let (p, x) := extendPrefix fin (ec + 1) rest
      ((a, b, w) :: p, x)

def ensureSp (sp : Spec) (a : Nat) : Spec := if sp.nodeLive a then sp else sp.addNodeAt a 0

def parseElems (s : String) : List Elem :=
  (toks s).filterMap fun t =>
    match t.splitOn ":" with
    | ["n", w] => some (.node (intOf w))
    | ["e", a, b, w] => some (.edge (natOf a) (natOf b) (intOf w))
    | _ => none

/-- G-A: the index arguments of a request (they must be representable in the index type: `NodeIndex::new` would wrap) -/
def indexArgs (req : List String) : List Nat :=
  match req with
  | [f, a, b, _] =>
    if f == "try_add_edge" || f == "add_edge" || f == "try_update_edge" || f == "update_edge" then [natOf a, natOf b] else []
  | ["remove_node", a] | ["remove_edge", a] => [natOf a]
  | ["retain_nodes", rm, _] | ["retain_edges", rm, _] => parseNats rm
  | [f, a, _] =>
    if f == "node_weight_mut" || f == "index_mut_node" || f == "edge_weight_mut" || f == "index_mut_edge" then [natOf a] else []
  | ["index_twice", _, i, j, _, _] => [natOf i, natOf j]
  | ["filter_map", dn, de, _, _] => parseNats dn ++ parseNats de
  | ["extend_with_edges", es] | ["from_edges", es] => (parseTriples es).flatMap fun (a, b, _) => [a, b]
  | _ => []

def verdict (spec : Option String) (model impl : String) : String :=
  match spec with
  | some why => s!"SPECFAIL {why}"
  | none => cmpExact model impl

def expect (what want impl : String) : Option String :=
  if want == impl then none else some s!"{what}: reference says [{want}], implementation answered [{impl}]"

def finOf (w : String) : Nat × Bool :=
  match w with
  | "w=8" => (255, false) | "w=16" => (65535, false) | "w=32" => (4294967295, false)
  | _ => (18446744073709551615, true)

def showRes (r : Except GErr Nat) : String :=
  match r with
  | .ok i => s!"ok {i}"
  | .error e => s!"err {showErr e}"

/-- mark the outcome of a call for the "error ⇒ unchanged" clause -/
def DState.after (d : DState) (changed isErr : Bool) : DState :=
  if changed then { d with dirty := true, errSince := false }
  else if isErr && !d.dirty then { d with errSince := true }
  else d

/-- new edges of the model after `extend_with_edges` -/
def newEdgeToks (before after : SG.State) : String :=
  showERefs ((edgeReferences after).filter fun r => (edgeWeight before r.id).isNone)

/-- spec transition of `extend_with_edges` answered `ok new=…` -/
def jExtend (d : DState) (l : List (Nat × Nat × Int)) (newToks : List String) : Spec × Option String :=
  let sp1 := l.foldl (fun sp (a, b, _) =>
    let sp := if sp.nodeLive a then sp else sp.addNodeAt a 0
    if sp.nodeLive b then sp else sp.addNodeAt b 0) d.sp
  let parsed := newToks.map fun t => let p := t.splitOn ":"; (natOf (nth p 0), natOf (nth p 1), natOf (nth p 2), intOf (nth p 3))
  let sp2 := parsed.foldl (fun sp (e, a, b, w) => sp.addEdgeAt e a b w) sp1
  let ids := parsed.map (·.1)
  let why : Option String :=
    if l.any (fun (a, b, _) => a ≥ d.fin || b ≥ d.fin) then some "extend_with_edges accepted a node index that is not valid for the index type"
    else if parsed.length ≠ l.length then some s!"extend_with_edges of {l.length} edges created {parsed.length} edges"
    else if ids.any (fun e => !(d.sp.freshEdge d.fin e)) || ids.eraseDups.length ≠ ids.length then some "extend_with_edges reused a live edge index"
    else if !sameMS (parsed.map fun (_, a, b, w) => canonTok d.sp.directed 0 s!"{a}:{b}:{w}")
                    (l.map fun (a, b, w) => canonTok d.sp.directed 0 s!"{a}:{b}:{w}") then
      some "extend_with_edges created edges other than those requested"
    else none
  (sp2, why)

/-- rebuild the reference from the implementation's `d.nodes` / `d.edges` lines -/
def specOfDump (directed : Bool) (nodesLine edgesLine : String) : Spec :=
  let ns := (toks (part nodesLine 0)).map fun t => let p := t.splitOn ":"; (natOf (nth p 0), intOf (nth p 1))
  let es := (toks (part edgesLine 0)).map fun t =>
    let p := t.splitOn ":"; (natOf (nth p 0), natOf (nth p 1), natOf (nth p 2), intOf (nth p 3))
  let sp := ns.foldl (fun sp (i, w) => sp.addNodeAt i w) (SGSpec.empty directed)
  es.foldl (fun sp (e, a, b, w) => sp.addEdgeAt e a b w) sp

/-- conditions a re-read reference must satisfy -/
def resyncOk (d : DState) (nw : Spec) : Option String :=
  let old := d.oldSp
  let wellFormed := nw.edgeRefs.all fun (_, e) => nw.nodeLive e.a && nw.nodeLive e.b
  if !wellFormed then some "an edge is attached to a node that does not exist" else
  if d.resync == 1 then
    -- compact: same multigraph up to renaming, indices a compact interval
    let key := fun (sp : Spec) (e : SEdge) =>
      let x := (sp.node e.a).getD 0; let y := (sp.node e.b).getD 0
      if sp.directed || x ≤ y then s!"{x}:{y}:{e.w}" else s!"{y}:{x}:{e.w}"
    if nw.nodeIds != List.range old.nodeCount then some "Graph round trip: node indices are not the compact interval"
    else if nw.edgeIds != List.range old.edgeCount then some "Graph round trip: edge indices are not the compact interval"
    else if !sameMS (nw.nodeRefs.map (toString ·.2)) (old.nodeRefs.map (toString ·.2)) then some "Graph round trip changed the node weights"
    else if !sameMS (nw.edgeRefs.map (key nw ·.2)) (old.edgeRefs.map (key old ·.2)) then some "Graph round trip changed the edges"
    else if old.nodeCount == old.nodeBound && old.edgeCount == old.edgeBound &&
        (specNodeToks nw != specNodeToks old || specEdgeToks nw != specEdgeToks old) then
      some "Graph round trip of a graph without vacancies changed indices"
    else none
  else
    -- panicking extend_with_edges (`SpecExtendP`): exactly the processed prefix has been inserted, of the offending edge only
    -- the valid endpoints have been created; nothing that existed is lost or altered
    let req := parseTriples (showL d.pendingEdges)
    let (pre, extra) := extendPrefix d.fin old.edgeCount req
    let sp1 := (pre.flatMap (fun (a, b, _) => [a, b]) ++ extra).foldl ensureSp old
    let k := max sp1.nodes.length nw.nodes.length
    if old.nodeRefs.any (fun (i, w) => nw.node i != some w) then some "a node was lost or altered by a panicking extend_with_edges"
    else if old.edgeRefs.any (fun (i, e) => (nw.edge i).map (fun x => canonTok old.directed 0 s!"{x.a}:{x.b}:{x.w}") !=
        some (canonTok old.directed 0 s!"{e.a}:{e.b}:{e.w}")) then some "an edge was lost or altered by a panicking extend_with_edges"
    else match (List.range k).find? (fun i => nw.node i != sp1.node i) with
      | some i => some s!"panicking extend_with_edges: node {i} is {repr (nw.node i)}, the processed prefix of the request gives {repr (sp1.node i)}"
      | none =>
        let added := (nw.edgeRefs.filter fun (i, _) => !old.edgeLive i).map fun (_, e) => canonTok old.directed 0 s!"{e.a}:{e.b}:{e.w}"
        let want := pre.map fun (a, b, w) => canonTok old.directed 0 s!"{a}:{b}:{w}"
        if !sameMS added want then some s!"panicking extend_with_edges left the new edges {showL added}, the processed prefix of the request is {showL want}"
        else none

/-- handle one dump line: rotate/compare/judge -/
def dumpLine (d : DState) (key : String) (impl : String) (model : String) (judge : Spec → Option String) : DState × String :=
  let same : Option String :=
    if d.compareDump then
      match d.prevDump.lookup key with
      | some old => if old == impl then none else some s!"a call that reported an error changed an observable: [{key}] was [{old}] and is now [{impl}]"
      | none => none
    else none
  let d := { d with curDump := (key, impl) :: d.curDump }
  let spec := same.orElse fun _ => if d.resync != 0 then none else judge d.sp
  (d, verdict spec model impl)

def step (d : DState) (req : List String) (impl : String) : DState × String :=
  let bad := (d, s!"SPECFAIL bad request {req}")
  -- run a model transition, keeping the old model state on a fault
  let runM (r : Except Fault (SG.State × String)) : SG.State × String :=
    match r with
    | .ok (s, o) => (s, o)
    | .error f => (d.st, showFault f)
  let implW := splitWords impl
  -- G-A: index arguments must be representable in the index type (`NodeIndex::new` would wrap otherwise)
  match (indexArgs req).find? (fun i => i > d.fin) with
  | some i => (d, s!"SPECFAIL generator left the proved range: index argument {i} is not representable (Ix::max = {d.fin})")
  | none =>
  match req with
  | "law" :: name =>
    -- a law the harness checked on the implementation itself (c02laws.rs); the graph state is not touched
    if impl == "ok" then (d, "ok")
    else (d, s!"SPECFAIL law {String.intercalate " " name}: {impl}")
  | ["case", k, dir, w, dbg] =>
    let (fin, nl) := finOf w
    let directed := dir == "dir=1"
    ({ st := SG.empty directed fin nl (dbg == "debug=1"), sp := SGSpec.empty directed, fin := fin, noLimit := nl,
       oldSp := SGSpec.empty directed }, s!"case {k}")
  | ["new", _] =>
    ({ d with st := SG.empty d.st.directed d.fin d.noLimit d.st.debug, sp := SGSpec.empty d.st.directed,
              dirty := true }, verdict (expect "constructor" "ok" impl) "ok" impl)
  | ["from_elements", els] =>
    let els := parseElems els
    if !elemsInRangeB d.fin els then
      (d, s!"SPECFAIL generator left the proved range: from_elements names an endpoint beyond Ix::max = {d.fin}")
    else
    let s0 := SG.empty d.st.directed d.fin d.noLimit d.st.debug
    let (st, m) := runM (match construct d.st.directed d.fin d.noLimit d.st.debug (.fromElements els) with
      | .ok (some g) => .ok (g, "ok")
      | .ok none => .ok (s0, "panic")     -- the graph under construction is lost; the harness continues on an empty one
      | .error f => .error f)
    let want := fromElementsSpec d.st.directed d.fin els (SGSpec.empty d.st.directed)
    let why := match want with
      | some _ => if impl == "ok" then none else some s!"from_elements answered [{impl}] on a valid element list"
      | none => if impl == "panic" then none else
          some s!"from_elements answered [{impl}] although an edge names a node that does not exist / the index type is exhausted (documented panic)"
    ({ d with st := st, sp := if impl == "ok" then want.getD (SGSpec.empty d.st.directed) else SGSpec.empty d.st.directed,
              dirty := true, errSince := false }, verdict why m impl)
  | ["from_graph", n, es] =>
    let n := natOf n
    let l := parseTriples es
    let s0 := SG.empty d.st.directed d.fin d.noLimit d.st.debug
    let build : Except Fault SG.State :=
      (List.range n).foldlM (fun s (i : Nat) => match tryAddNode s (100 + (i : Int)) with
        | .ok (s', _) => .ok s' | .error f => .error f) s0 >>= fun s1 =>
      l.foldlM (fun s (a, b, w) => match tryAddEdge s a b w with
        | .ok (s', _) => .ok s' | .error f => .error f) s1 >>= fun s2 => compact s2
    let (st, m) := runM (build.map fun s => (s, "ok"))
    let sp0 := (List.range n).foldl (fun sp (i : Nat) => sp.addNodeAt i (100 + (i : Int))) (SGSpec.empty d.st.directed)
    let sp1 := (l.zipIdx).foldl (fun sp ((a, b, w), e) => sp.addEdgeAt e a b w) sp0
    ({ d with st := st, sp := sp1, dirty := true }, verdict (expect "From<Graph>" "ok" impl) m impl)
  | ["try_add_node", w] | ["add_node", w] =>
    let w := intOf w
    let isTry := req.head! == "try_add_node"
    let (st, m) := runM (if isTry then (match tryAddNode d.st w with
        | .ok (s, r) => .ok (s, showRes r) | .error f => .error f)
      else (match pstep d.st (.addNode w) with
        | .ok (s, o) => .ok (s, showP o) | .error f => .error f))
    let r := if isTry then implW else normPanic impl ["err", "NodeIxLimit"]
    let (sp, why) := if isTry then jAddNode d w r else jPanic d "add_node" (.addNode w) impl fun _ => jAddNode d w r
    (({ d with st := st, sp := sp }).after (r.head! == "ok") (r.head! == "err"), verdict why m impl)
  | [f, a, b, w] =>
    let a := natOf a
    let b := natOf b
    let wi := intOf w
    match f with
    | "try_add_edge" | "add_edge" | "try_update_edge" | "update_edge" =>
      let isTry := f.startsWith "try_"
      let isUpd := f.endsWith "update_edge"
      let pc : PCall := if isUpd then .updateEdge a b wi else .addEdge a b wi
      let (st, m) := runM (if isTry then (match (if isUpd then tryUpdateEdge d.st a b wi else tryAddEdge d.st a b wi) with
          | .ok (s, r) => .ok (s, showRes r) | .error x => .error x)
        else (match pstep d.st pc with
          | .ok (s, o) => .ok (s, showP o) | .error x => .error x))
      let miss := missingOf d.sp a b
      let errW := if !miss.isEmpty then ["err", "NodeMissed", toString miss.head!] else ["err", "EdgeIxLimit"]
      let r := if isTry then implW else normPanic impl errW
      let okJ := fun (_ : Unit) => if isUpd then jUpdateEdge d a b wi r else jAddEdge d a b wi r
      let (sp, why) := if isTry then okJ () else jPanic d f pc impl okJ
      (({ d with st := st, sp := sp }).after (r.head! == "ok") (r.head! == "err"), verdict why m impl)
    | _ => bad
  | ["remove_node", a] =>
    let a := natOf a
    let (st, m) := runM (match removeNode d.st a with
      | .ok (s, r) => .ok (s, match r with | some w => s!"some {w}" | none => "none") | .error x => .error x)
    let want := match d.sp.node a with | some w => s!"some {w}" | none => "none"
    (({ d with st := st, sp := d.sp.removeNode a }).after (impl != "none") false,
      verdict (expect s!"remove_node({a})" want impl) m impl)
  | ["remove_edge", e] =>
    let e := natOf e
    let (st, m) := runM (match removeEdge d.st e with
      | .ok (s, r) => .ok (s, match r with | some w => s!"some {w}" | none => "none") | .error x => .error x)
    let want := match d.sp.edge e with | some ed => s!"some {ed.w}" | none => "none"
    (({ d with st := st, sp := d.sp.removeEdge e }).after (impl != "none") false,
      verdict (expect s!"remove_edge({e})" want impl) m impl)
  | ["mapw", cn, ce] =>
    let cn := intOf cn
    let ce := intOf ce
    let (st, vn, ve) := mapGraph d.st cn ce
    let m := s!"{showNats vn}|{showNats ve}"
    let why := (jIdx "map: node closure calls" d.sp.nodeIds impl 1).orElse fun _ =>
      if sameMS (toks (part impl 1)) (d.sp.edgeIds.map toString) then none else some "map: edge closure was not called for exactly the live edges"
    (({ d with st := st, sp := d.sp.mapWeights cn ce }).after true false, verdict why m impl)
  | ["retain_nodes", rm, c] =>
    let rm := parseNats rm
    let c := intOf c
    -- the closure adds `c` to every node it is shown before deciding: `node_weights_mut` bump, then `retain_nodes`
    let st0 := if c == 0 then d.st else (mapGraph d.st c 0).1
    let sp0 := if c == 0 then d.sp else d.sp.mapWeights c 0
    let (st, m) := runM (match retainNodes st0 rm with
      | .ok (s, vis) => .ok (s, showNats vis) | .error x => .error x)
    let why := if impl == "panic" then some "retain_nodes panicked" else jIdx "retain_nodes: closure calls" d.sp.nodeIds impl 1
    (({ d with st := st, sp := sp0.retainNodes rm }).after true false, verdict why m impl)
  | ["retain_edges", rm, c] =>
    let rm := parseNats rm
    let c := intOf c
    let st0 := if c == 0 then d.st else (mapGraph d.st 0 c).1
    let sp0 := if c == 0 then d.sp else d.sp.mapWeights 0 c
    let (st, m) := runM (match retainEdges st0 rm with
      | .ok (s, vis) => .ok (s, showNats vis) | .error x => .error x)
    let why := if impl == "panic" then some "retain_edges panicked" else jIdx "retain_edges: closure calls" d.sp.edgeIds impl 1
    (({ d with st := st, sp := sp0.retainEdges rm }).after true false, verdict why m impl)
  | [f, a, w] =>
    let a := natOf a
    let wi := intOf w
    match f with
    | "node_weight_mut" =>
      let (st, b) := setNodeWeight d.st a wi
      let want := if d.sp.nodeLive a then "some" else "none"
      (({ d with st := st, sp := d.sp.setNodeWeight a wi }).after (impl == "some") false,
        verdict (expect s!"{f}({a})" want impl) (if b then "some" else "none") impl)
    | "edge_weight_mut" =>
      let (st, b) := setEdgeWeight d.st a wi
      let want := if d.sp.edgeLive a then "some" else "none"
      (({ d with st := st, sp := d.sp.setEdgeWeight a wi }).after (impl == "some") false,
        verdict (expect s!"{f}({a})" want impl) (if b then "some" else "none") impl)
    | "index_mut_node" | "index_mut_edge" =>
      -- `let _ = g[i]; g[i] = w`: `Index` then `IndexMut`, each `unwrap`s
      let isN := f == "index_mut_node"
      let rd : PCall := if isN then .indexNode a else .indexEdge a
      let wr : PCall := if isN then .indexMutNode a wi else .indexMutEdge a wi
      let (st, m) := runM (match pstep d.st rd with
        | .error x => .error x
        | .ok (_, .panic) => .ok (d.st, "panic")
        | .ok (s1, _) => match pstep s1 wr with
          | .ok (s2, o) => .ok (s2, showP o) | .error x => .error x)
      let (sp, why) := jPanic d f wr impl fun _ =>
        (if isN then d.sp.setNodeWeight a wi else d.sp.setEdgeWeight a wi,
         if d.sp.panics d.fin rd then some s!"Index on an absent element did not panic" else expect s!"{f}({a})" "ok" impl)
      (({ d with st := st, sp := sp }).after (impl == "ok") false, verdict why m impl)
    | "mapw" => bad   -- handled above
    | _ => bad
  | ["bump_nodes", c] =>
    let c := intOf c
    let (st, _, _) := mapGraph d.st c 0
    (({ d with st := st, sp := d.sp.mapWeights c 0 }).after true false, verdict (expect "node_weights_mut" "ok" impl) "ok" impl)
  | ["bump_edges", c] =>
    let c := intOf c
    let (st, _, _) := mapGraph d.st 0 c
    (({ d with st := st, sp := d.sp.mapWeights 0 c }).after true false, verdict (expect "edge_weights_mut" "ok" impl) "ok" impl)
  | ["index_twice", kind, i, j, w1, w2] =>
    let i := natOf i
    let j := natOf j
    let w1 := intOf w1
    let w2 := intOf w2
    let n1 := kind.startsWith "n"
    let n2 := kind.endsWith "n"
    let pc : PCall := .indexTwice n1 n2 i j w1 w2
    let (st, m) := runM (match pstep d.st pc with
      | .ok (s, o) => .ok (s, showP o) | .error x => .error x)
    let (sp, why) := jPanic d "index_twice_mut" pc impl fun _ =>
      ((d.sp.setWeight n1 i w1).setWeight n2 j w2, expect "index_twice_mut" "ok" impl)
    (({ d with st := st, sp := sp }).after (impl == "ok") false, verdict why m impl)
  | ["reverse"] =>
    (({ d with st := reverse d.st, sp := d.sp.reverse }).after true false,
      verdict (expect "reverse" "ok" impl) "ok" impl)
  | ["clear"] =>
    (({ d with st := clear d.st, sp := d.sp.clear }).after true false, verdict (expect "clear" "ok" impl) "ok" impl)
  | ["clear_edges"] =>
    (({ d with st := clearEdges d.st, sp := d.sp.clearEdges }).after true false,
      verdict (expect "clear_edges" "ok" impl) "ok" impl)
  | ["clone"] | ["clone_from"] =>
    (d.after true false, verdict (expect "clone" "ok" impl) "ok" impl)
  | ["filter_map", dn, de, cn, ce] =>
    let dn := parseNats dn
    let de := parseNats de
    let cn := intOf cn
    let ce := intOf ce
    let (st, m) := runM (match filterMap d.st dn de cn ce with
      | .ok (s, vn, ve) => .ok (s, s!"{showNats vn}|{showNats ve}") | .error x => .error x)
    let why := if impl == "panic" then some "filter_map panicked" else
      (jIdx "filter_map: node closure calls" d.sp.nodeIds impl 1).orElse fun _ =>
      if sameMS (toks (part impl 1)) ((d.sp.filterMapEdgeCalls dn).map toString) then none
      else some s!"filter_map: edge closure calls {part impl 1}, documented: the edges whose endpoints survived {showNats (d.sp.filterMapEdgeCalls dn)}"
    (({ d with st := st, sp := d.sp.filterMap dn de cn ce }).after true false, verdict why m impl)
  | ["extend_with_edges", es] | ["from_edges", es] =>
    let l := parseTriples es
    let fresh := req.head! == "from_edges"
    let st0 := if fresh then SG.empty d.st.directed d.fin d.noLimit d.st.debug else d.st
    let d0 := if fresh then { d with sp := SGSpec.empty d.st.directed } else d
    let (st, m) := runM (match extendWithEdges st0 l with
      | .ok (s, p) => .ok (s, (if p then "panic" else "ok") ++ " new=" ++ newEdgeToks st0 s) | .error x => .error x)
    let newToks := toks ((nth implW 1).drop 4).toString
    -- `C02_extend_general`: the call completes iff the request fits the index type
    let fits := extendFits d.fin d0.sp.edgeCount l
    if nth implW 0 == "ok" then
      let (sp, why) := jExtend d0 l newToks
      let why := if fits then why else
        some "extend_with_edges completed although the request does not fit the index type (it must panic)"
      (({ d0 with st := st, sp := sp }).after true false, verdict why m impl)
    else
      let why := if !fits then none else some "extend_with_edges panicked on a request that fits the index type"
      if fresh then
        -- a panicking `from_edges` loses the graph under construction; the harness continues on an empty one
        (({ d0 with st := st0 }).after true false, verdict why (if m.startsWith "panic" then "panic new=-" else m) impl)
      else
        (({ d0 with st := st, resync := 2, oldSp := d0.sp, pendingEdges := toks es }).after true false, verdict why m impl)
  | ["compact"] =>
    let (st, m) := runM (match compact d.st with | .ok s => .ok (s, "ok") | .error x => .error x)
    (({ d with st := st, resync := 1, oldSp := d.sp }).after true false, verdict (expect "Graph round trip" "ok" impl) m impl)
  -- ---- the dump
  | ["d.nodes"] =>
    -- first line of a dump: rotate
    let d := { d with prevDump := d.curDump, curDump := [], compareDump := d.errSince && !d.dirty,
                      dirty := false, errSince := false }
    dumpLine d "d.nodes" impl (mNodes d.st) (fun sp => jNodes sp impl)
  | ["d.edges"] =>
    -- a pending re-read of the reference happens here (d.nodes has been seen)
    let d := if d.resync != 0 then
        let nw := specOfDump d.sp.directed ((d.curDump.lookup "d.nodes").getD "-|-") impl
        match resyncOk d nw with
        | some why => { d with sp := nw, resync := 3, pendingEdges := [why] }
        | none => { d with sp := nw, resync := 0 }
      else d
    if d.resync == 3 then
      ({ d with resync := 0, curDump := ("d.edges", impl) :: d.curDump }, s!"SPECFAIL {nth d.pendingEdges 0}")
    else dumpLine d "d.edges" impl (mEdges d.st) (fun sp => jEdges sp impl)
  | ["d.counts"] => dumpLine d "d.counts" impl (mCounts d.st) (fun sp => jCounts sp impl)
  | ["d.nidx"] => dumpLine d "d.nidx" impl (mNidx d.st) (fun sp => jNidx sp impl)
  | ["d.eidx"] => dumpLine d "d.eidx" impl (mEidx d.st) (fun sp => jEidx sp impl)
  | ["d.wts"] => dumpLine d "d.wts" impl (mWts d.st) (fun sp => jWts sp impl)
  | ["d.nw", k] => dumpLine d s!"d.nw {k}" impl (mNw d.st (natOf k)) (fun sp => jNw sp (natOf k) impl)
  | ["d.ew", k] => dumpLine d s!"d.ew {k}" impl (mEw d.st (natOf k)) (fun sp => jEw sp (natOf k) impl)
  | ["d.adj", k] => dumpLine d s!"d.adj {k}" impl (mAdj d.st (natOf k)) (fun sp => jAdj sp (natOf k) impl)
  | ["d.inc", k] => dumpLine d s!"d.inc {k}" impl (mInc d.st (natOf k)) (fun sp => jInc sp (natOf k) impl)
  | ["d.walk", k] => dumpLine d s!"d.walk {k}" impl (mWalk d.st (natOf k)) (fun sp => jWalk sp (natOf k) impl)
  | ["d.ext"] => dumpLine d "d.ext" impl (mExt d.st) (fun sp => jExt sp impl)
  | ["d.pairs", ids] =>
    dumpLine d s!"d.pairs {ids}" impl (mPairs d.st (parseNats ids)) (fun sp => jPairs sp (parseNats ids) impl)
  | ["d.endq"] =>
    dumpLine d "d.endq" impl (mEndq d.st) (fun sp => jEndq sp d.fin impl)
  | ["d.tograph"] => dumpLine d "d.tograph" impl (mToGraph d.st) (fun sp => jToGraph sp impl)
  | ["d.dbg"] => dumpLine d "d.dbg" impl (mDbg d.st) (fun sp => jDbg sp impl)
  | ["family", _] => (d, "ok")
  | "note" :: _ => (d, "ok")
  | ["uncaught"] => (d, "SPECFAIL a call that is valid for every graph state (or a query of the generator) panicked")
  | _ => bad

end PetgraphModel.C02
