import PetgraphModel.Common
import PetgraphModel.Model.Graph
import PetgraphModel.Spec.CompactGraph
import PetgraphModel.Model.GraphWalkers
import PetgraphModel.Spec.CompactGraphWalkers
import PetgraphModel.Spec.C01RunChecks
/-
C01 driver: runs the mirror model (`G`) and the compact-multigraph specification (`CGS`) side by
side with the implementation's answers.

* exact part: the mirror model's answer must equal the implementation's, character by character
  (including neighbour order of undirected graphs, raw `first_edge`/`next_edge` chains, which of
  several parallel edges `find_edge` returns) — a difference is `MODELDIFF`;
* spec part: the implementation's answer is judged against the plain multigraph, demanding only
  what the property states: directed adjacency most-recently-added first, undirected adjacency as
  multisets with the queried node as source and a self-loop once, `find_edge` = *some* connecting
  edge, absent indices ⇒ `none`/`Err`/empty/documented panic and an unchanged graph (the dump that
  follows every call shows it), capacity errors exactly at `2^w - 1` elements.
* the renumbering after `remove_node` / `retain_*` is documented only as "as by `remove_edge` for each
  incident edge" resp. "visiting order unspecified".  The spec machine uses the reference order
  (out-edges then in-edges, most recent first; descending index), which is also the mirror model's.
  If a line of the dump block right after such a call differs from the mirror model but still has the
  specified content (counts; node weights / edges as multisets), the implementation chose another
  admissible renumbering: the judge reports `MODELDIFF` (not a failing input) and stops spec-judging
  the rest of that case (`desync`); see `dumpVerdict`.
* detached walkers kept alive across other calls (`walker_new a mode`, `walker_next w`): the mirror is
  the walker layer `GW` (`Model/GraphWalkers.lean`), the judge is the executable specification
  `GProofs.specWalkerNew` / `GProofs.specWalkerNext` (`Spec/CompactGraphWalkers.lean`) — the very
  functions `C01_walker_all_histories` is stated with: while only structure-preserving calls
  (`GW.keepsLinks`) happen a walker must list what `neighbors*` listed when it was detached; after a
  structural change only "`None`, or a live edge with one of its endpoints, never a panic" is demanded.
-/
namespace PetgraphModel.C01
open PetgraphModel PetgraphModel.G
open PetgraphModel.CGS (edgeAt)

structure DState where
  g : G.State := G.empty 0 true
  sp : CGS.Spec := CGS.empty 0 true
  desync : Bool := false
  /-- 0: renumbering fully specified; 1: after remove_node / retain_edges (node numbering known);
  2: after retain_nodes (node numbering reference-order only) -/
  renum : Nat := 0
  /-- mirror walkers (`GW.WState.ws`) and what the specification knows about each of them -/
  wks : List Walker := []
  sws : List GProofs.SWalker := []

/-! ### printing -/

def joinOr (sep : String) (l : List String) : String :=
  if l.isEmpty then "-" else String.intercalate sep l

def showPair (p : Nat × Nat) : String := s!"{p.1}:{p.2}"
def showRef (r : ERef) : String := s!"{r.ix}:{r.src}:{r.tgt}:{r.weight}"
def showFault : Fault → String
  | .oob => "FAULT-oob" | .fuel => "FAULT-fuel" | .dbg => "FAULT-dbg"
def showErr : GErr → String
  | .nodeIxLimit => "NodeIxLimit" | .edgeIxLimit => "EdgeIxLimit" | .nodeOutBounds => "NodeOutBounds"
def showOpt (o : Option Nat) : String :=
  match o with
  | none => "none"
  | some n => s!"some {n}"
def dirCh (k : Bool) : String := if k then "i" else "o"

/-- canonical text of a model answer; `plain` selects the form of the panicking variants
(`add_node` prints the bare index, `try_add_node` prints `ok <index>`) -/
def showOut : Out → String
  | .unit => "ok"
  | .panic => "panic"
  | .fault f => showFault f
  | .nat n => toString n
  | .bool b => showBool b
  | .optNat o => showOpt o
  | .res (.ok n) => s!"ok {n}"
  | .res (.error e) => s!"err {showErr e}"
  | .optPair none => "none"
  | .optPair (some p) => s!"some {showPair p}"
  | .optEdgeDir none => "none"
  | .optEdgeDir (some (e, k)) => s!"some {e}:{dirCh k}"
  | .nats l => showNats l
  | .pairs l => joinOr "," (l.map showPair)
  | .erefs l => joinOr "," (l.map showRef)

def exceptStr {α : Type} (r : Except Fault α) (f : α → String) : String :=
  match r with
  | .ok v => f v
  | .error e => showFault e

/-! ### parsing -/

def items (s : String) : List String := if s == "-" || s == "" then [] else s.splitOn ","
def blocks (s : String) : List String := if s == "" then [] else s.splitOn ";"
def fields (s : String) : List Nat := (s.splitOn ":").filterMap (·.toNat?)
def parseMask (s : String) : List Bool := if s == "-" then [] else s.toList.map (· == '1')
def parseTriples (s : String) : List (Nat × Nat × Nat) :=
  (items s).filterMap fun it =>
    match fields it with
    | [a, b, w] => some (a, b, w)
    | _ => none
def parseElems (s : String) : List Elem :=
  (items s).filterMap fun it =>
    match it.splitOn ":" with
    | ["n", w] => w.toNat?.map Elem.node
    | ["e", a, b, w] =>
      match a.toNat?, b.toNat?, w.toNat? with
      | some a, some b, some w => some (Elem.edge a b w)
      | _, _, _ => none
    | _ => none
def parseDir (s : String) : Bool := s == "i"
def nat (s : String) : Nat := s.toNat?.getD 0

def sortStr (l : List String) : List String := l.mergeSort fun a b => !(b < a)

/-! ### spec-level queries on the plain multigraph -/

section spec
open CGS

def modeOf (m : String) : Mode := if m == "u" then 2 else if m == "i" then 1 else 0

/-- (edge, other endpoint) pairs of the walk from `a`; `mode`: "o" / "i" / "u" -/
def spNbr (sp : Spec) (a : Nat) (mode : String) : List (Nat × Nat) := nbr sp a (modeOf mode)

def spNbrOrdered (sp : Spec) (mode : String) : Bool := nbrOrdered sp (modeOf mode)

/-- `edges_directed(a, dir)` -/
def spRefs (sp : Spec) (a : Nat) (dir : Bool) : List ERef :=
  (refs sp a dir).map fun r => ⟨r.ix, r.src, r.tgt, r.weight⟩

def spConnecting (sp : Spec) (a b : Nat) : List ERef :=
  (connecting sp a b).map fun r => ⟨r.ix, r.src, r.tgt, r.weight⟩

def spExternals (sp : Spec) (k : Bool) : List Nat := externals sp k

def spHasEdge (sp : Spec) (a b : Nat) : Bool := hasEdge sp a b

/-- is `fe` an acceptable answer of `find_edge(a, b)`? -/
def spFindOk (sp : Spec) (a b : Nat) (ans : String) : Option String :=
  if ans == "none" then
    if spHasEdge sp a b then some s!"find_edge({a},{b}) = none but an edge connects them" else none
  else if ans.startsWith "some " then
    let e := nat (ans.drop 5).toString
    if e < sp.edges.length && connects sp a b (edgeAt sp e) then none
    else some s!"find_edge({a},{b}) = {ans}: that is not an edge from {a} to {b}"
  else some s!"find_edge({a},{b}): unexpected answer [{ans}]"

/-- `find_edge_undirected(a, b)`; `ans` is `none` or `some e:o` / `some e:i` -/
def spFindUndOk (sp : Spec) (a b : Nat) (ans : String) : Option String :=
  let any := sp.edges.any fun ed => (ed.src == a && ed.tgt == b) || (ed.src == b && ed.tgt == a)
  if ans == "none" then
    if any then some s!"find_edge_undirected({a},{b}) = none but an edge joins them" else none
  else if ans.startsWith "some " then
    match ((ans.drop 5).toString).splitOn ":" with
    | [es, d] =>
      let e := nat es
      let ed := edgeAt sp e
      let fwd := ed.src == a && ed.tgt == b
      let bwd := ed.src == b && ed.tgt == a
      let good := e < sp.edges.length &&
        (if sp.directed then (if d == "o" then fwd else if d == "i" then bwd else false) else (fwd || bwd))
      if good then none else some s!"find_edge_undirected({a},{b}) = {ans}: wrong edge or direction"
    | _ => some s!"find_edge_undirected({a},{b}): unexpected answer [{ans}]"
  else some s!"find_edge_undirected({a},{b}): unexpected answer [{ans}]"

end spec

/-! ### comparing an implementation answer with the specified one -/

/-- one list: exact sequence or multiset of items -/
def cmpList (ordered : Bool) (what want impl : String) : Option String :=
  if want == impl then none
  else if !ordered && sortStr (items want) == sortStr (items impl) then none
  else some s!"{what}: specified [{want}]{if ordered then "" else " (as a multiset)"}, implementation answered [{impl}]"

/-- `;`-separated blocks, one per node -/
def cmpBlocks (ordered : Bool) (what : String) (want : List String) (impl : String) : Option String :=
  let got := blocks impl
  if got.length ≠ want.length then some s!"{what}: {want.length} entries specified, implementation listed {got.length}"
  else
    let rec go (i : Nat) : List String → List String → Option String
      | w :: ws, g :: gs =>
        match cmpList ordered s!"{what} of {i}" w g with
        | some why => some why
        | none => go (i + 1) ws gs
      | _, _ => none
    go 0 want got

def expect (want impl : String) : Option String :=
  if want == impl then none else some s!"specified [{want}], implementation answered [{impl}]"

/-- final verdict of a line -/
def verdict (d : DState) (spec : Option String) (model impl : String) : String :=
  if d.desync then cmpExact model impl
  else match spec with
    | some why => s!"SPECFAIL {why}"
    | none => cmpExact model impl

/-- verdict of a line of the dump block.  `weak` is what the property still determines about this
line when the renumbering is only partly specified (directly after `remove_node` / `retain_*`):
in that window a dump line that differs from the mirror model — whose renumbering *is* the reference
order — but passes `weak` means "the implementation chose another admissible renumbering": reported
as `MODELDIFF`, and the spec machine stops judging the rest of the case (`desync`). -/
def dumpVerdict (d : DState) (spec weak : Option String) (model impl : String) : DState × String :=
  if d.desync then (d, cmpExact model impl)
  else if model == impl then
    (d, match spec with
      | some why => s!"SPECFAIL {why}"
      | none => "ok")
  else if d.renum ≥ 1 then
    match weak with
    | some why => (d, s!"SPECFAIL {why}")
    | none =>
      ({ d with desync := true },
        s!"MODELDIFF renumbering after remove_node/retain_* deviates from the reference order: model=[{model}] impl=[{impl}]")
  else
    (d, match spec with
      | some why => s!"SPECFAIL {why}"
      | none => cmpExact model impl)

def endvOf (w : String) : Nat :=
  match w with
  | "w=8" => 255 | "w=16" => 65535 | "w=32" => 4294967295
  | _ => 18446744073709551615

/-! ### spec-side canonical dump texts -/

def spEdgesText (sp : CGS.Spec) (norm : Bool) : List String :=
  sp.edges.map fun ed =>
    if norm then s!"{min ed.src ed.tgt}:{max ed.src ed.tgt}:{ed.weight}" else s!"{ed.src}:{ed.tgt}:{ed.weight}"

def normEdgeItem (it : String) : String :=
  match fields it with
  | [a, b, w] => s!"{min a b}:{max a b}:{w}"
  | _ => it

/-! ### the handler -/

def modelNbrBlock (g : G.State) (a : Nat) (mode : String) : String :=
  let r := if mode == "u" then neighborsUndirected g a else neighborsDirected g a (mode == "i")
  exceptStr r fun l => joinOr "," (l.map showPair)

def optX (o : Option Nat) : String :=
  match o with
  | none => "x"
  | some n => toString n

def stepCore (d : DState) (req : List String) (impl : String) : DState × String :=
  let g := d.g
  let sp := d.sp
  let n := sp.nodes.length
  let m := sp.edges.length
  -- run a model op and print its answer
  let runOp (op : Op) : G.State × String := let (g', o) := G.step g op; (g', showOut o)
  -- a mutating call: model op, spec transition, spec check of the answer
  let mutate (op : Op) (sp' : CGS.Spec) (spec : Option String) (renum : Nat := 0) : DState × String :=
    let (g', ms) := runOp op
    -- a call that may change the structure disturbs every live walker (`GProofs.WAccepts`)
    let sws' := if GW.keepsLinks op then d.sws else d.sws.map GProofs.SWalker.disturb
    ({ d with g := g', sp := sp', renum := renum, sws := sws' }, verdict d spec ms impl)
  let query (op : Op) (spec : Option String) : DState × String :=
    let (_, ms) := runOp op
    (d, verdict d spec ms impl)
  let bad : DState × String := (d, s!"SPECFAIL bad request {req}")
  -- add_edge / try_add_edge / update_edge / try_update_edge
  let edgeOp (f : String) (a b w : Nat) : DState × String :=
    let addSpec (isTry : Bool) : CGS.Spec × Option String :=
      match CGS.addEdge sp a b w with
      | .ok sp' => (sp', expect (if isTry then s!"ok {m}" else toString m) impl)
      | .error e =>
        (sp, if !isTry then expect "panic" impl
          else match e with
            | .limit => expect "err EdgeIxLimit" impl
            | .absent => expect "err NodeOutBounds" impl
            | .both => if impl.startsWith "err " then none else some s!"an Err was specified, implementation answered [{impl}]")
    if f == "add_edge" then let (sp', c) := addSpec false; mutate (.addEdge a b w) sp' c
    else if f == "try_add_edge" then let (sp', c) := addSpec true; mutate (.tryAddEdge a b w) sp' c
    else
      let isTry := f == "try_update_edge"
      let op := if isTry then Op.tryUpdateEdge a b w else Op.updateEdge a b w
      if a < n && b < n && spHasEdge sp a b then
        -- some connecting edge gets the weight; which one (among parallel edges) is the implementation's choice
        let es := if isTry then (if impl.startsWith "ok " then (impl.drop 3).toString else "?") else impl
        match es.toNat? with
        | some e =>
          if e < m && CGS.connects sp a b (edgeAt sp e) then
            let ed := edgeAt sp e
            mutate op { sp with edges := sp.edges.set e { ed with weight := w } } none
          else mutate op sp (some s!"{f}({a},{b}) answered [{impl}]: that is not an edge from {a} to {b}")
        | none => mutate op sp (some s!"{f}({a},{b}): an existing edge must be updated, implementation answered [{impl}]")
      else let (sp', c) := addSpec isTry; mutate op sp' c
  match req with
  | ["case", k, w, dir] =>
    let endv := endvOf w
    let directed := dir == "dir"
    ({ g := G.empty endv directed, sp := CGS.empty endv directed }, s!"case {k}")
  -- ------------------------------------------------------------------ constructors
  | ["new", _] => mutate (.new sp.directed) (CGS.empty sp.cap sp.directed) (expect "ok" impl)
  | "from_edges" :: l :: form =>
    -- `form` (optional): which `IntoWeightedEdge` item form the harness used; the call is the same call
    if !C01Checks.formOkB form then bad else
    let l := parseTriples l
    let (sp', ok) := CGS.extendWithEdges (CGS.empty sp.cap sp.directed) l
    if ok then mutate (.fromEdges l) sp' (expect "ok" impl)
    else mutate (.fromEdges l) sp (expect "panic" impl)
  | ["from_elements", l] =>
    let l := parseElems l
    let r := l.foldl (fun (acc : Option CGS.Spec) el =>
      match acc, el with
      | none, _ => none
      | some s, .node w => CGS.addNode s w
      | some s, .edge a b w => match CGS.addEdge s a b w with
        | .ok s' => some s'
        | .error _ => none) (some (CGS.empty sp.cap sp.directed))
    match r with
    | some sp' => mutate (.fromElements l) sp' (expect "ok" impl)
    | none => mutate (.fromElements l) sp (expect "panic" impl)
  -- ------------------------------------------------------------------ adding
  | ["add_node", w] =>
    match CGS.addNode sp (nat w) with
    | some sp' => mutate (.addNode (nat w)) sp' (expect (toString n) impl)
    | none => mutate (.addNode (nat w)) sp (expect "panic" impl)
  | ["try_add_node", w] =>
    match CGS.addNode sp (nat w) with
    | some sp' => mutate (.tryAddNode (nat w)) sp' (expect s!"ok {n}" impl)
    | none => mutate (.tryAddNode (nat w)) sp (expect "err NodeIxLimit" impl)
  | ["add_edge", a, b, w] => edgeOp "add_edge" (nat a) (nat b) (nat w)
  | ["try_add_edge", a, b, w] => edgeOp "try_add_edge" (nat a) (nat b) (nat w)
  | ["update_edge", a, b, w] => edgeOp "update_edge" (nat a) (nat b) (nat w)
  | ["try_update_edge", a, b, w] => edgeOp "try_update_edge" (nat a) (nat b) (nat w)
  -- ------------------------------------------------------------------ removal
  | ["remove_node", a] =>
    let a := nat a
    if a < n then mutate (.removeNode a) (CGS.removeNode sp a) (expect s!"some {sp.nodes[a]?.getD 0}" impl) 1
    else mutate (.removeNode a) sp (expect "none" impl)
  | ["remove_edge", e] =>
    let e := nat e
    if e < m then mutate (.removeEdge e) (CGS.removeEdge sp e) (expect s!"some {(edgeAt sp e).weight}" impl)
    else mutate (.removeEdge e) sp (expect "none" impl)
  -- ------------------------------------------------------------------ weights
  | ["node_weight_mut", a, w] =>
    let (a, w) := (nat a, nat w)
    if a < n then mutate (.nodeWeightMut a w) { sp with nodes := sp.nodes.set a w } (expect s!"some {sp.nodes[a]?.getD 0}" impl)
    else mutate (.nodeWeightMut a w) sp (expect "none" impl)
  | ["edge_weight_mut", e, w] =>
    let (e, w) := (nat e, nat w)
    if e < m then mutate (.edgeWeightMut e w) { sp with edges := sp.edges.set e { edgeAt sp e with weight := w } }
      (expect s!"some {(edgeAt sp e).weight}" impl)
    else mutate (.edgeWeightMut e w) sp (expect "none" impl)
  | ["index_mut_node", a, w] =>
    let (a, w) := (nat a, nat w)
    if a < n then mutate (.indexMutNode a w) { sp with nodes := sp.nodes.set a w } (expect "ok" impl)
    else mutate (.indexMutNode a w) sp (expect "panic" impl)
  | ["index_mut_edge", e, w] =>
    let (e, w) := (nat e, nat w)
    if e < m then mutate (.indexMutEdge e w) { sp with edges := sp.edges.set e { edgeAt sp e with weight := w } } (expect "ok" impl)
    else mutate (.indexMutEdge e w) sp (expect "panic" impl)
  | ["index_twice_mut", kinds, i, j, wi, wj] =>
    let (i, j, wi, wj) := (nat i, nat j, nat wi, nat wj)
    let ki := kinds.toList[0]? == some 'e'
    let kj := kinds.toList[1]? == some 'e'
    let op := Op.indexTwiceMut ki kj i j wi wj
    let inb (k : Bool) (x : Nat) : Bool := if k then x < m else x < n
    if (ki == kj && i == j) || !(inb ki i) || !(inb kj j) then mutate op sp (expect "panic" impl)
    else
      let put (s : CGS.Spec) (k : Bool) (x w : Nat) : CGS.Spec :=
        if k then { s with edges := s.edges.set x { edgeAt s x with weight := w } }
        else { s with nodes := s.nodes.set x w }
      mutate op (put (put sp ki i wi) kj j wj) (expect "ok" impl)
  | ["bump_nodes", dd] =>
    mutate (.bumpNodes (nat dd)) { sp with nodes := sp.nodes.map (· + nat dd) } (expect "ok" impl)
  | ["bump_edges", dd] =>
    mutate (.bumpEdges (nat dd)) { sp with edges := sp.edges.map fun ed => { ed with weight := ed.weight + nat dd } } (expect "ok" impl)
  -- ------------------------------------------------------------------ whole graph
  | ["reverse"] => mutate .reverse (CGS.reverse sp) (expect "ok" impl)
  | ["clear"] => mutate .clear (CGS.clear sp) (expect "ok" impl)
  | ["clear_edges"] => mutate .clearEdges (CGS.clearEdges sp) (expect "ok" impl)
  | ["retain_nodes", mask, bump] =>
    let (mask, bump) := (parseMask mask, parseMask bump)
    mutate (.retainNodes mask bump) (CGS.retainNodes mask bump n sp) (expect "ok" impl) 2
  | ["retain_edges", mask, bump] =>
    let (mask, bump) := (parseMask mask, parseMask bump)
    mutate (.retainEdges mask bump) (CGS.retainEdges mask bump m sp) (expect "ok" impl) 1
  | "extend_with_edges" :: l :: form =>
    if !C01Checks.formOkB form then bad else
    let l := parseTriples l
    let (sp', ok) := CGS.extendWithEdges sp l
    mutate (.extendWithEdges l) sp' (expect (if ok then "ok" else "panic") impl)
  | ["map", dn, de] =>
    mutate (.map (nat dn) (nat de)) (CGS.mapWeights sp (nat dn) (nat de)) (expect "ok" impl)
  | ["filter_map", nmask, emask, dn, de] =>
    let (nmask, emask) := (parseMask nmask, parseMask emask)
    mutate (.filterMap nmask emask (nat dn) (nat de)) (CGS.filterMap sp nmask emask (nat dn) (nat de)) (expect "ok" impl)
  | ["into_edge_type", t] =>
    mutate (.intoEdgeType (t == "dir")) { sp with directed := t == "dir" } (expect "ok" impl)
  | ["clone", _] => mutate .clone sp (expect "ok" impl)
  -- `rebuild 0`: Graph::from(StableGraph::from(g)); `rebuild 1`: into_nodes_edges + re-insertion in index order
  | ["rebuild"] => mutate .rebuild (CGS.filterMap sp [] [] 0 0) (expect "ok" impl)
  | ["rebuild", _] => mutate .rebuild (CGS.filterMap sp [] [] 0 0) (expect "ok" impl)
  | ["cap", _] => mutate .capacityOp sp (expect "ok" impl)
  | ["walk", a, mode, bump] =>
    let a := nat a
    let md := if mode == "u" then 2 else if mode == "i" then 1 else 0
    let b := bump == "1"
    let want := spNbr sp a mode
    let spec := cmpList (spNbrOrdered sp mode) s!"walk({a},{mode})" (joinOr "," (want.map showPair)) impl
    let sp' := if b then want.foldl (fun s p => CGS.bumpEdge s p.1) sp else sp
    mutate (.walk a md b) sp' spec
  -- ------------------------------------------------------------------ detached walkers
  | ["walker_new", a, mode] =>
    let a := nat a
    let md := if mode == "u" then 2 else if mode == "i" then 1 else 0
    let (ws', o) := GW.step ⟨g, d.wks⟩ (.walkerNew a md)
    let ms := match o with | .walkerId k => toString k | _ => "?"
    ({ d with wks := ws'.ws, sws := d.sws ++ [GProofs.specWalkerNew sp a md] },
      verdict d (expect (toString d.sws.length) impl) ms impl)
  | ["walker_next", w] =>
    let w := nat w
    match d.sws[w]? with
    | none => bad
    | some sw =>
      let (ws', o) := GW.step ⟨g, d.wks⟩ (.walkerNext w)
      let ms := match o with
        | .item none => "none"
        | .item (some p) => s!"some {showPair p}"
        | .fault f => showFault f
        | _ => "?"
      -- the implementation's answer, parsed: `none` / `some e:n`
      let ans : Option (Option (Nat × Nat)) :=
        if impl == "none" then some none
        else if impl.startsWith "some " then
          match fields (impl.drop 5).toString with
          | [e, x] => some (some (e, x))
          | _ => none
        else none
      let state := match sw.rest with
        | some rest => s!"undisturbed walker, still to list [{joinOr "," (rest.map showPair)}]{if sw.ordered then "" else " (as a multiset)"}"
        | none => "walker whose graph was changed structurally: None or a live edge with one of its endpoints is specified"
      match ans with
      | none =>
        ({ d with wks := ws'.ws, sws := d.sws.set w sw.disturb },
          verdict d (some s!"walker_next({w}) must answer None or Some((edge, node)) and never panic, implementation answered [{impl}]") ms impl)
      | some r =>
        match GProofs.specWalkerNext sp sw r with
        | some sw' => ({ d with wks := ws'.ws, sws := d.sws.set w sw' }, verdict d none ms impl)
        | none =>
          ({ d with wks := ws'.ws, sws := d.sws.set w sw.disturb },
            verdict d (some s!"walker_next({w}) answered [{impl}]: {state}") ms impl)
  -- ------------------------------------------------------------------ queries
  -- ------------------------------------------------------------------ laws checked by the harness
  -- `law <name> …`: a law of the public API (iterator contracts, clone_from = clone, Default, Debug, trait
  -- views, capacity) checked in the harness against the implementation itself; anything but `ok` is a violation
  | "law" :: name :: _ =>
    (d, match C01Checks.lawVerdict name impl with
      | none => "ok"
      | some why => s!"SPECFAIL {why}")
  | ["node_count"] => query .nodeCount (expect (toString n) impl)
  | ["edge_count"] => query .edgeCount (expect (toString m) impl)
  | ["is_directed"] => query .isDirected (expect (showBool sp.directed) impl)
  | ["node_weight", a] => query (.nodeWeight (nat a)) (expect (showOpt sp.nodes[nat a]?) impl)
  | ["edge_weight", e] => query (.edgeWeight (nat e)) (expect (showOpt (sp.edges[nat e]?.map (·.weight))) impl)
  | ["index_node", a] =>
    query (.indexNode (nat a)) (expect (match sp.nodes[nat a]? with | some w => toString w | none => "panic") impl)
  | ["index_edge", e] =>
    query (.indexEdge (nat e)) (expect (match sp.edges[nat e]? with | some ed => toString ed.weight | none => "panic") impl)
  | ["edge_endpoints", e] =>
    let spec := match sp.edges[nat e]? with
      | none => expect "none" impl
      | some ed =>
        if sp.directed then expect s!"some {ed.src}:{ed.tgt}" impl
        else if impl == s!"some {ed.src}:{ed.tgt}" || impl == s!"some {ed.tgt}:{ed.src}" then none
        else some s!"edge_endpoints({e}): specified {ed.src}:{ed.tgt} (unordered), implementation answered [{impl}]"
    query (.edgeEndpoints (nat e)) spec
  | ["find_edge", a, b] => query (.findEdge (nat a) (nat b)) (spFindOk sp (nat a) (nat b) impl)
  | ["find_edge_undirected", a, b] => query (.findEdgeUndirected (nat a) (nat b)) (spFindUndOk sp (nat a) (nat b) impl)
  | ["contains_edge", a, b] => query (.containsEdge (nat a) (nat b)) (expect (showBool (spHasEdge sp (nat a) (nat b))) impl)
  | ["neighbors", a] =>
    query (.neighbors (nat a)) (cmpList sp.directed s!"neighbors({a})" (showNats ((spNbr sp (nat a) "o").map (·.2))) impl)
  | ["neighbors_directed", a, k] =>
    query (.neighborsDirected (nat a) (parseDir k))
      (cmpList sp.directed s!"neighbors_directed({a},{k})" (showNats ((spNbr sp (nat a) k).map (·.2))) impl)
  | ["neighbors_undirected", a] =>
    query (.neighborsUndirected (nat a)) (cmpList false s!"neighbors_undirected({a})" (showNats ((spNbr sp (nat a) "u").map (·.2))) impl)
  | ["edges", a] =>
    query (.edges (nat a)) (cmpList sp.directed s!"edges({a})" (joinOr "," ((spRefs sp (nat a) false).map showRef)) impl)
  | ["edges_directed", a, k] =>
    query (.edgesDirected (nat a) (parseDir k))
      (cmpList sp.directed s!"edges_directed({a},{k})" (joinOr "," ((spRefs sp (nat a) (parseDir k)).map showRef)) impl)
  | ["edges_connecting", a, b] =>
    query (.edgesConnecting (nat a) (nat b))
      (cmpList sp.directed s!"edges_connecting({a},{b})" (joinOr "," ((spConnecting sp (nat a) (nat b)).map showRef)) impl)
  | ["externals", k] => query (.externals (parseDir k)) (expect (showNats (spExternals sp (parseDir k))) impl)
  | ["first_edge", a, k] =>
    let a := nat a
    let kk := parseDir k
    let spec := if !sp.directed && a < n then none
      else expect (showOpt ((if a < n then (if kk then CGS.inEdges sp a else CGS.outEdges sp a) else []).head?)) impl
    query (.firstEdge a kk) spec
  | ["next_edge", e, k] =>
    let e := nat e
    let kk := parseDir k
    let spec := if !sp.directed && e < m then none
      else
        let ed := edgeAt sp e
        let l := if e < m then (if kk then CGS.inEdges sp ed.tgt else CGS.outEdges sp ed.src) else []
        expect (showOpt ((l.dropWhile (· != e)).tail.head?)) impl
    query (.nextEdge e kk) spec
  -- ------------------------------------------------------------------ the dump block
  | ["d_counts"] =>
    let ms := s!"{g.nodes.length} {g.edges.length} {showBool g.directed}"
    let c := expect s!"{n} {m} {showBool sp.directed}" impl
    dumpVerdict d c c ms impl
  | ["d_nw"] =>
    let ms := showNats (g.nodes.map (·.weight))
    let want := showNats sp.nodes
    let exact : Option String := if want == impl then none
      else some s!"node weights: specified [{want}], implementation answered [{impl}]"
    let weak : Option String :=
      if d.renum == 2 then
        (if sortStr (items want) == sortStr (items impl) then none
         else some s!"node weights (as a multiset): specified [{want}], implementation answered [{impl}]")
      else exact
    dumpVerdict d exact weak ms impl
  | ["d_edges"] =>
    let ms := joinOr "," (g.edges.map fun ed => s!"{ed.src}:{ed.tgt}:{ed.weight}")
    let norm := !sp.directed
    let want := spEdgesText sp norm
    let got := if norm then (items impl).map normEdgeItem else items impl
    let exact : Option String := if want == got then none
      else some s!"edges (src:tgt:weight by index): specified [{joinOr "," want}], implementation answered [{impl}]"
    let wOnly (l : List String) : List String := l.map fun it => match it.splitOn ":" with | [_, _, w] => w | _ => it
    let weak : Option String :=
      if d.renum == 2 then
        (if sortStr (wOnly want) == sortStr (wOnly got) then none
         else some s!"edge weights (as a multiset): specified [{joinOr "," want}], implementation answered [{impl}]")
      else if sortStr want == sortStr got then none
      else some s!"edges (as a multiset): specified [{joinOr "," want}], implementation answered [{impl}]"
    dumpVerdict d exact weak ms impl
  | ["d_nbr", mode] =>
    let ms := joinOr ";" ((List.range g.nodes.length).map fun a => modelNbrBlock g a mode)
    let want := (List.range n).map fun a => joinOr "," ((spNbr sp a mode).map showPair)
    dumpVerdict d (cmpBlocks (spNbrOrdered sp mode) s!"walk/neighbors[{mode}]" want (if n == 0 then "" else impl)) none (if g.nodes.isEmpty then "-" else ms) impl
  | ["d_edg", k] =>
    let kk := parseDir k
    let ms := joinOr ";" ((List.range g.nodes.length).map fun a => exceptStr (edgesDirected g a kk) fun l => joinOr "," (l.map showRef))
    let want := (List.range n).map fun a => joinOr "," ((spRefs sp a kk).map showRef)
    dumpVerdict d (cmpBlocks sp.directed s!"edges_directed[{k}]" want (if n == 0 then "" else impl)) none (if g.nodes.isEmpty then "-" else ms) impl
  | ["d_ext", k] =>
    let kk := parseDir k
    dumpVerdict d (expect (showNats (spExternals sp kk)) impl) none (showNats (externals g kk)) impl
  | ["d_first"] =>
    let ms := joinOr ";" ((List.range g.nodes.length).map fun a => s!"{optX (firstEdge g a false)}:{optX (firstEdge g a true)}")
    let want := (List.range n).map fun a => s!"{optX (CGS.outEdges sp a).head?}:{optX (CGS.inEdges sp a).head?}"
    let spec := if sp.directed then cmpBlocks true "first_edge" want (if n == 0 then "" else impl) else none
    dumpVerdict d spec none (if g.nodes.isEmpty then "-" else ms) impl
  | ["d_next"] =>
    let ms := joinOr ";" ((List.range g.edges.length).map fun e => s!"{optX (nextEdge g e false)}:{optX (nextEdge g e true)}")
    let want := (List.range m).map fun e =>
      let ed := edgeAt sp e
      let nx (l : List Nat) : Option Nat := (l.dropWhile (· != e)).tail.head?
      s!"{optX (nx (CGS.outEdges sp ed.src))}:{optX (nx (CGS.inEdges sp ed.tgt))}"
    let spec := if sp.directed then cmpBlocks true "next_edge" want (if m == 0 then "" else impl) else none
    dumpVerdict d spec none (if g.edges.isEmpty then "-" else ms) impl
  | ["d_pairs", ps] =>
    -- per pair: <find_edge>/<find_edge_undirected>/<contains_edge>/<edges_connecting ids joined by +>
    let pairs := (items ps).filterMap fun it => match fields it with | [a, b] => some (a, b) | _ => none
    let one (a b : Nat) : String :=
      let fe := exceptStr (findEdge g a b) fun o => optX o
      let fu := exceptStr (findEdgeUndirected g a b) fun o =>
        match o with
        | none => "x"
        | some (e, k) => s!"{e}{dirCh k}"
      let ce := exceptStr (findEdge g a b) fun o => if o.isSome then "t" else "f"
      let ec := exceptStr (edgesConnecting g a b) fun l => if l.isEmpty then "x" else String.intercalate "+" (l.map fun r => toString r.ix)
      s!"{fe}/{fu}/{ce}/{ec}"
    let ms := joinOr ";" (pairs.map fun p => one p.1 p.2)
    let got := blocks impl
    let judgeOne (p : Nat × Nat) (ans : String) : Option String :=
      match ans.splitOn "/" with
      | [fe, fu, ce, ec] =>
        let (a, b) := p
        let c1 := spFindOk sp a b (if fe == "x" then "none" else s!"some {fe}")
        let fuAns := if fu == "x" then "none" else
          s!"some {(fu.dropEnd 1).toString}:{(fu.takeEnd 1).toString}"
        let c2 := spFindUndOk sp a b fuAns
        let c3 := expect (if spHasEdge sp a b then "t" else "f") ce
        let wantEc := (spConnecting sp a b).map fun r => toString r.ix
        let gotEc := if ec == "x" then [] else ec.splitOn "+"
        let c4 := if (if sp.directed then wantEc == gotEc else sortStr wantEc == sortStr gotEc) then none
          else some s!"edges_connecting({a},{b}): specified {wantEc}, implementation answered {gotEc}"
        match c1, c2, c3, c4 with
        | some w, _, _, _ => some w
        | _, some w, _, _ => some w
        | _, _, some w, _ => some s!"contains_edge({a},{b}): {w}"
        | _, _, _, some w => some w
        | _, _, _, _ => none
      | _ => some s!"d_pairs: unexpected item [{ans}]"
    let spec := if got.length ≠ pairs.length then
        (if pairs.isEmpty && impl == "-" then none else some s!"d_pairs: {pairs.length} pairs asked, {got.length} answered")
      else (pairs.zip got).findSome? fun pg => judgeOne pg.1 pg.2
    dumpVerdict d spec none ms impl
  | _ => bad

/-! ### run-time checks of the side conditions (see `Spec/C01RunChecks.lean`) -/

/-- the index arguments (node / edge indices) of a request line -/
def indexArgs (req : List String) : List Nat :=
  let tri (l : String) : List Nat := (parseTriples l).flatMap fun t => [t.1, t.2.1]
  match req with
  | [f, a, b, _] =>
    if f == "add_edge" || f == "try_add_edge" || f == "update_edge" || f == "try_update_edge" then [nat a, nat b]
    else if f == "walk" then [nat a]
    else []
  | ["index_twice_mut", _, i, j, _, _] => [nat i, nat j]
  | [f, a, b] =>
    if f == "extend_with_edges" || f == "from_edges" then tri a else
    if f == "find_edge" || f == "find_edge_undirected" || f == "contains_edge" || f == "edges_connecting" then [nat a, nat b]
    else if f == "node_weight_mut" || f == "edge_weight_mut" || f == "index_mut_node" || f == "index_mut_edge"
      || f == "neighbors_directed" || f == "edges_directed" || f == "first_edge" || f == "next_edge" || f == "walker_new" then [nat a]
    else []
  | [f, a] =>
    if f == "remove_node" || f == "remove_edge" || f == "node_weight" || f == "edge_weight" || f == "index_node"
      || f == "index_edge" || f == "edge_endpoints" || f == "neighbors" || f == "neighbors_undirected" || f == "edges" then [nat a]
    else if f == "extend_with_edges" || f == "from_edges" then tri a
    else if f == "from_elements" then
      (parseElems a).flatMap fun el => match el with | .edge x y _ => [x, y] | .node _ => []
    else []
  | _ => []

def step (d : DState) (req : List String) (impl : String) : DState × String :=
  match req with
  | ["case", _, w, _] =>
    if C01Checks.widthOkB w then stepCore d req impl
    else ({}, s!"SPECFAIL bad request {req}: unknown index width")
  | _ =>
    let ia := indexArgs req
    if !C01Checks.reprB d.g.endv ia then
      (d, s!"SPECFAIL generator left the proved range: an index argument of {req} is not representable in the index type (max {d.g.endv})")
    else if !C01Checks.usizeOkB d.g.endv d.g.nodes.length d.g.edges.length then
      (d, s!"SPECFAIL generator left the proved range: a usize graph reached usize::MAX elements")
    else stepCore d req impl

end PetgraphModel.C01
