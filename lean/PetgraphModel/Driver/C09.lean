import PetgraphModel.Common
import PetgraphModel.GraphProto
import PetgraphModel.Oracle.Reach
import PetgraphModel.Oracle.C09Judge
import PetgraphModel.Model.C09Algo
/-
C09 driver.  Requests (after a `graph … enc=<encoding>` line), see harness/src/c09.rs:

  kosaraju | tarjan            => a,b;c;d
  tarjanrun                    => <comps>|<x:i,..>|<comps>|<x:i,..>
  cc er=<s:t,..>               => k
  cycu er=<s:t,..>             => true|false
  haspath fresh|reuse          => a:b,c;b:-;..
  haspath1 a b                 => <reused> <fresh>
  cycd                         => true|false
  bip <s>                      => true|false
  toposort fresh|reuse         => ok a,b,c | err x
  cond <0|1> eo=<edge ids>     => <members;..>|<s:t:w,..>

Per line: (a) the mirror model's exact answer on the VIEW, (b) the verdict of the spec-level checker
of `Oracle/C09Judge.lean` on the IMPLEMENTATION's answer against the abstract graph.
-/
namespace PetgraphModel.C09
open PetgraphModel PetgraphModel.Oracle PetgraphModel.C09J PetgraphModel.C09M

structure DState where
  v : View := default
  ok : Bool := false
  enc : String := ""

/-- the view's neighbour lists describe the abstract graph (as multisets) -/
def viewOkB (v : View) : Bool :=
  v.g.nodes.all fun a => sameSet (v.succ a) (v.g.succ a) && sameSet (v.pred a) (v.g.pred a)

def verdict (spec : Option String) (model impl : String) : String :=
  match spec with
  | some why => s!"SPECFAIL {why}"
  | none => cmpExact model impl

def showOpt {α} (f : α → String) : Option α → String
  | some a => f a
  | none => "FUEL"

/-! ### explanations (diagnostics only; acceptance is decided by the checkers of `C09Judge`) -/

def explainPart (g : MGraph) (comps : List (List Nat)) : String :=
  if !coverOkB g comps then s!"components {showNatLists comps} do not list every node exactly once (nodes {showNats g.nodes})"
  else match comps.find? fun c => !classOkB g c with
    | some c => s!"component {showNats c} is not a class of mutual reachability"
    | none => "components are not the mutual-reachability partition"

def judgeScc (g : MGraph) (comps : List (List Nat)) : Option String :=
  if sccOkB g comps then none
  else if !partOkB g comps then some (explainPart g comps)
  else some s!"an earlier component can reach a later one: {showNatLists comps}"

def judgeIndex (comps : List (List Nat)) (idx : List (Nat × Nat)) : Option String :=
  if indexOkB comps idx then none
  else some s!"node_component_index is not consistent with the components {showNatLists comps}"

def showPairs (l : List (Nat × Nat)) : String :=
  if l.isEmpty then "-" else String.intercalate "," (l.map fun p => s!"{p.1}:{p.2}")

def judgeBool (yes no : Bool) (impl : String) (what : String) : Option String :=
  if impl == "true" then (if yes then none else some s!"answered true but {what} does not hold")
  else if impl == "false" then (if no then none else some s!"answered false but {what} holds")
  else some s!"unexpected answer {impl}"

/-- rows `a:b,c;…` -/
def parseRows (s : String) : List (Nat × List Nat) :=
  if s == "-" then [] else
  (s.splitOn ";").filterMap fun r =>
    match r.splitOn ":" with
    | [a, row] => a.toNat?.map fun a => (a, parseNats row)
    | _ => none

def showRows (l : List (Nat × List Nat)) : String :=
  if l.isEmpty then "-" else String.intercalate ";" (l.map fun r => s!"{r.1}:{showNats r.2}")

def judgeRows (g : MGraph) (rows : List (Nat × List Nat)) : Option String :=
  if !(sameSet (rows.map (·.1)) g.nodes) then some "has_path matrix does not have one row per node" else
  rows.findSome? fun (a, bs) =>
    match reachFrom g a with
    | none => some "oracle out of fuel"
    | some r =>
      let want := g.nodes.filter fun b => r.contains b
      if sameSet want bs then none
      else some s!"has_path_connecting({a}, ·) is true for {showNats bs}, reachable from {a}: {showNats (sortNats want)}"

def parseTriples (s : String) : List (Nat × Nat × Int) :=
  if s == "-" then [] else
  (s.splitOn ",").filterMap fun t =>
    match t.splitOn ":" with
    | [a, b, w] => match a.toNat?, b.toNat?, w.toInt? with
      | some a, some b, some w => some (a, b, w)
      | _, _, _ => none
    | _ => none

def showTriples (l : List (Nat × Nat × Int)) : String :=
  if l.isEmpty then "-" else String.intercalate "," (l.map fun t => s!"{t.1}:{t.2.1}:{t.2.2}")

/-- D7 (`Csr<Undirected>::edge_references` lists every non-loop edge twice): the reported sequence is
exactly the abstract edges with every non-loop edge in both orientations -/
def erDoubled (g : MGraph) (er : List (Nat × Nat)) : Bool :=
  let want := g.edges.flatMap fun e => if e.src == e.tgt then [(e.src, e.tgt)] else [(e.src, e.tgt), (e.tgt, e.src)]
  let key := fun (p : Nat × Nat) => p.1 * 100000 + p.2
  sameSet (want.map key) (er.map key) && g.edges.any fun e => e.src != e.tgt

def step (d : DState) (req : List String) (impl : String) : DState × String :=
  let g := d.v.g
  match req with
  | "case" :: k :: _ => ({}, s!"case {k}")
  | "graph" :: _ =>
    match parseView req with
    | none => (d, "SPECFAIL unparsable graph line")
    | some v =>
      let enc := (field? req "enc").getD ""
      if viewOkB v then ({ v := v, ok := true, enc := enc }, "ok")
      else ({ v := v, ok := false, enc := enc }, "SPECFAIL neighbour iteration of this encoding does not describe the abstract graph")
  | _ =>
  if impl == "panic" then (d, s!"SPECFAIL {req.headD ""} panicked") else
  match req with
  | ["kosaraju"] =>
    (d, verdict (judgeScc g (parseNatLists impl)) (showOpt showNatLists (kosaraju d.v)) impl)
  | ["tarjan"] =>
    (d, verdict (judgeScc g (parseNatLists impl)) (showOpt (fun t => showNatLists t.out) (tjRun d.v {})) impl)
  | ["tarjanrun"] =>
    match impl.splitOn "|" with
    | [c1, i1, c2, i2] =>
      let (c1, c2) := (parseNatLists c1, parseNatLists c2)
      let (i1, i2) := (parsePairs i1, parsePairs i2)
      let spec := (judgeScc g c1).orElse fun _ => (judgeIndex c1 i1).orElse fun _ => (judgeScc g c2).orElse fun _ => judgeIndex c2 i2
      let showIdx := fun (t : TJ) => showPairs ((sortNats g.nodes).map fun x => (x, tjIndex d.v t x))
      let model := match tjRun d.v {} with
        | none => "FUEL"
        | some t1 => match tjRun d.v t1 with
          | none => "FUEL"
          | some t2 => s!"{showNatLists t1.out}|{showIdx t1}|{showNatLists t2.out}|{showIdx t2}"
      (d, verdict spec model impl)
    | _ => (d, s!"SPECFAIL malformed answer {impl}")
  | ["cc", er] =>
    let er := parsePairs ((er.drop 3).toString)
    let pairs := er.map fun p => (d.v.toIndex p.1, d.v.toIndex p.2)
    let model := match connectedComponents d.v.nb pairs with | some k => toString k | none => "panic"
    let spec := match wccCount g, impl.toNat? with
      | some k, some k' => if k == k' then none else some s!"answered {k'}, the graph has {k} weakly connected components"
      | none, _ => some "oracle out of fuel"
      | _, none => some s!"unexpected answer {impl}"
    (d, verdict spec model impl)
  | ["cycu", er] =>
    let er := parsePairs ((er.drop 3).toString)
    let pairs := er.map fun p => (d.v.toIndex p.1, d.v.toIndex p.2)
    let model := match cyclicUndirected d.v.nb pairs (UF.new 0 d.v.nb) with | some b => showBool b | none => "panic"
    let spec := judgeBool (cycUYes g) (cycUNo g) impl "\"some edge joins two nodes that are connected without it (direction ignored)\""
    match spec with
    | some why =>
      if d.enc == "csr" && !g.directed && impl == "true" && cycUNo g && erDoubled g er && model == "true" then
        (d, "KNOWN D7 Csr<Undirected>::edge_references lists every non-loop edge twice, so is_cyclic_undirected answers true on a forest")
      else (d, s!"SPECFAIL {why}")
    | none => (d, cmpExact model impl)
  | ["haspath", _] =>
    let rows := parseRows impl
    let model := (sortNats g.nodes).map fun a => (a, (sortNats g.nodes).filter fun b => hasPath d.v a b == some true)
    let fuelOut := g.nodes.any fun a => g.nodes.any fun b => (hasPath d.v a b).isNone
    (d, verdict (judgeRows g rows) (if fuelOut then "FUEL" else showRows model) impl)
  | ["haspath1", a, b] =>
    let (a, b) := (a.toNat?.getD 0, b.toNat?.getD 0)
    let m := showOpt showBool (hasPath d.v a b)
    let spec := match reachB g a b with
      | none => some "oracle out of fuel"
      | some r => if impl == s!"{showBool r} {showBool r}" then none
        else some s!"has_path_connecting({a},{b}) with a used workspace / fresh = {impl}, reachable = {showBool r}"
    (d, verdict spec s!"{m} {m}" impl)
  | ["cycd"] =>
    (d, verdict (judgeBool (cycDYes g) (cycDNo g) impl "\"some node lies on a directed cycle\"")
      (showOpt showBool (cyclicDirected d.v)) impl)
  | ["bip", s] =>
    let s := s.toNat?.getD 0
    let model := match bipartite d.v s with | .answer b => showBool b | .panic => "panic" | .fuel => "FUEL"
    let spec := match twoColB g s with
      | none => some "oracle out of fuel"
      | some b => if impl == showBool b then none
        else some s!"answered {impl}, 2-colourability of the component of {s} is {showBool b}"
    (d, verdict spec model impl)
  | ["toposort", _] =>
    let model := match toposort d.v with
      | none => "FUEL"
      | some (.ok l) => s!"ok {showNats l}"
      | some (.cycle x) => s!"err {x}"
    let spec := match splitWords impl with
      | ["ok", l] =>
        let ord := parseNats l
        if topoOkB g ord then none
        else if cycDYes g then some s!"returned Ok({showNats ord}) although the graph has a cycle"
        else some s!"Ok({showNats ord}) is not a topological order (every node once, every edge forward)"
      | ["err", x] =>
        let x := x.toNat?.getD 0
        if onCycleB g x then none
        else if cycDNo g then some s!"returned Err(Cycle({x})) although the graph is acyclic"
        else some s!"Cycle({x}) names a node that does not lie on a cycle"
      | _ => some s!"unexpected answer {impl}"
    (d, verdict spec model impl)
  | ["cond", acyc, eo] =>
    let eo := parseNats ((eo.drop 3).toString)
    let acyc := acyc == "1"
    match impl.splitOn "|" with
    | [ns, es] =>
      let nodes := parseNatLists ns
      let es := parseTriples es
      let model := match condensation d.v eo acyc with
        | none => "FUEL"
        | some c => s!"{showNatLists c.nodes}|{showTriples c.edges}"
      let spec :=
        if !partOkB g nodes then some (explainPart g nodes)
        else if acyc then
          (if condAcyclicOkB g nodes es then none
           else some s!"make_acyclic condensation is not the simple acyclic quotient: nodes {showNatLists nodes} edges {showTriples es}")
        else if condOkB g nodes es then none
        else some s!"condensation edges are not the original edges mapped to their components: nodes {showNatLists nodes} edges {showTriples es}"
      (d, verdict spec model impl)
    | _ => (d, s!"SPECFAIL malformed answer {impl}")
  | _ => (d, s!"SPECFAIL bad request {req}")

end PetgraphModel.C09
