import PetgraphModel.Common
import PetgraphModel.GraphProto
import PetgraphModel.Oracle.Reach
import PetgraphModel.Oracle.C09Judge
import PetgraphModel.Model.C09Algo
import PetgraphModel.Model.C09Space
import PetgraphModel.Oracle.C09Checks
import PetgraphModel.Oracle.C09Adapt
/-
C09 driver.  Requests (after a `graph … enc=<encoding>` line), see harness/src/c09.rs:

  kosaraju | tarjan            => a,b;c;d
  tarjanrun                    => <comps>|<x:i,..>|<comps>|<x:i,..>
  cc er=<s:t,..>               => k
  cycu er=<s:t,..>             => true|false
  haspath fresh|reuse          => a:b,c;b:-;..
  haspath1 a b                 => <reused> <fresh>
  cycd                         => true|false
  bip <s>                      => true|false
  toposort fresh|reuse         => ok a,b,c | err x
  cond <0|1> eo=<edge ids>     => <members;..>|<s:t:w,..>
  space new|default|foreign <m> => -      the DfsSpace the following `reuse` lines go through
  stalepath a b                => true|false   has_path_connecting with an id that is not a node
  law <name> …                 => ok | VIOLATED <why>   a law the harness judged against the implementation itself

Adaptor cases (wave 6): the `graph` line of a view behind `Reversed` / `EdgeFiltered` / `NodeFiltered` /
`UndirectedAdaptor` / `&Frozen` carries `ad=<chain> bd= bnodes= bedges=`; `adaptOkB` (Oracle/C09Adapt.lean)
recomputes the abstract graph of the view from the base and the chain and compares it with the line's graph.

Side conditions (wave 4): every hypothesis of the C09 theorems that concerns the concrete case is
evaluated here (`Oracle/C09Checks.lean`; `Theorems/C09.lean`, "run-time checks of the hypotheses"):
on the `graph` line `viewOkB`, `wfB`, `houtB`, `ixOkB`, `sizeB` (= `caseOkB`), per request `nodeB`
(start nodes), `eoOkB` (condensation), `erSetOkB` + `compactB` (connected_components), `erOkB`
(is_cyclic_undirected; fails for `Csr<Undirected>` = open finding D7, the documented exception).
A failure is `SPECFAIL side condition <name> does not hold: …`.

Per line: (a) the mirror model's exact answer on the VIEW, (b) the verdict of the spec-level checker
of `Oracle/C09Judge.lean` on the IMPLEMENTATION's answer against the abstract graph.
-/
namespace PetgraphModel.C09
open PetgraphModel PetgraphModel.Oracle PetgraphModel.C09J PetgraphModel.C09M

structure DState where
  v : View := default
  ok : Bool := false
  enc : String := ""
  /-- the model of the `DfsSpace` the harness reuses (`space` line) -/
  space : Option Space := none
  /-- the view of this case shows the recorded shape of open finding D6 (see `d6View`) -/
  d6 : Bool := false

/-- the view's neighbour lists describe the abstract graph (as multisets) -/
def viewOkB (v : View) : Bool :=
  v.g.nodes.all fun a => sameSet (v.succ a) (v.g.succ a) && sameSet (v.pred a) (v.g.pred a)

/-- everything the `graph` line must satisfy for the case to be inside the scope of the theorems -/
def caseOkB (v : View) : Bool := viewOkB v && wfB v.g && houtB v && ixOkB v && sizeB v

def sideFail (name detail : String) : String := s!"SPECFAIL side condition {name} does not hold: {detail}"

/-- the first side condition of the `graph` line that fails (`viewKnown`: the neighbour lists were
recognised as the recorded shape of an open finding, so `viewOkB` is not demanded) -/
def caseWhy (v : View) (viewKnown : Bool := false) : Option String :=
  if !viewKnown && !viewOkB v then some "SPECFAIL neighbour iteration of this encoding does not describe the abstract graph"
  else if !wfB v.g then some (sideFail "WellFormed" "node ids repeat or an edge endpoint is not a node")
  else if !houtB v then some (sideFail "hout" "the view lists neighbours for an id that is not a node")
  else if !ixOkB v then some (sideFail "IxOk" s!"to_index is not injective on the nodes or not below node_bound = {v.nb}")
  else if !sizeB v then some (sideFail "hsize" "2*|nodes|+1 exceeds usize::MAX")
  else none

/-- an adaptor case: the line's graph must be the graph the adaptor chain presents over the base -/
def adaptWhy (req : List String) (g : MGraph) : Option String :=
  match field? req "ad" with
  | none => none
  | some chain =>
    match parseAds chain with
    | none => some s!"SPECFAIL unparsable adaptor chain {chain}"
    | some ads =>
      let base : MGraph := { directed := field? req "bd" == some "1",
                             nodes := parseNats ((field? req "bnodes").getD "-"),
                             edges := parseEdges ((field? req "bedges").getD "-") }
      if !wfB base then some (sideFail "WellFormed" "the base graph of the adaptor repeats node ids or has an edge endpoint that is not a node")
      else if adaptOkB base ads g then none
      else some (sideFail "Adaptor" s!"the graph of this line is not what the adaptor chain {chain} presents over its base")

/-- Open finding D6 (`MatrixGraph::edges_directed(b, Incoming)` reports `(b, a)` for an edge a→b), as it
shows in C09 — two stacks over a directed `MatrixGraph` read that iterator without tolerating it:

1. `NodeFiltered::edges_directed(_, Incoming)` tests `edge.source()` against the node filter, which under D6
   is the node asked about, so it removes NO incoming edge of a kept node; an `EdgeFiltered` stacked on that
   `NodeFiltered` (chain `nf+ef`) takes its `neighbors_directed(_, Incoming)` from it and lists filtered-out
   predecessors.  Shape: successor lists right; the predecessor list of every kept node is exactly its
   predecessor list in the graph whose node filter removed no edge.
2. `Reversed::edges(n)` hands `edges_directed(n, Incoming)` on with the endpoints swapped, so under D6 its edge
   references have `target = n`; `EdgeFiltered::neighbors` (chain `rev+ef`) takes `edge.target()` and lists `n`
   itself once per kept predecessor.  Shape: predecessor lists right; the successor list of every node `a`
   is `a` repeated as often as `a` has successors in the view's graph.

Recognised narrowly: the base is a directed MatrixGraph, the chain is exactly one of the two, the lists have
exactly that shape. -/
def d6View (req : List String) (v : View) : Bool :=
  let base : MGraph := { directed := field? req "bd" == some "1",
                         nodes := parseNats ((field? req "bnodes").getD "-"),
                         edges := parseEdges ((field? req "bedges").getD "-") }
  let matrixd := ((field? req "enc").getD "").startsWith "matrixd" && base.directed
  match (field? req "ad").bind parseAds with
  | some [.nf k, .ef t] =>
    let leaky := filterEdges { base with nodes := base.nodes.filter fun x => k.contains x } t
    matrixd && !viewOkB v &&
      v.g.nodes.all fun a => sameSet (v.succ a) (v.g.succ a) && sameSet (v.pred a) (leaky.pred a)
  | some [.rev, .ef _] =>
    matrixd && !viewOkB v &&
      v.g.nodes.all fun a => sameSet (v.pred a) (v.g.pred a) && v.succ a == List.replicate (v.g.succ a).length a
  | _ => false

def knownD6 : String :=
  "KNOWN D6 MatrixGraph::edges_directed(_, Incoming) reports (a, predecessor): NodeFiltered::edges_directed(_, Incoming) and Reversed::edges hand it on, so an EdgeFiltered over them lists filtered-out predecessors resp. the node itself"

/-- in a case whose view shows a D6 shape, a wrong answer that is exactly what the mirror model computes on
that view is D6 too; any other wrong answer is a SPECFAIL as usual -/
-- (in such a case the view names ids that are not nodes, whose `to_index` the view cannot know, so the
-- workspace-free models are the reference for the `reuse` lines too)
def verdictD6 (d6 : Bool) (spec : Option String) (model impl : String) : String :=
  match spec with
  | some why => if d6 && model == impl then knownD6 else s!"SPECFAIL {why}"
  | none => cmpExact model impl

def verdict (spec : Option String) (model impl : String) : String :=
  match spec with
  | some why => s!"SPECFAIL {why}"
  | none => cmpExact model impl

def showOpt {α} (f : α → String) : Option α → String
  | some a => f a
  | none => "FUEL"

/-! ### explanations (diagnostics only; acceptance is decided by the checkers of `C09Judge`) -/

def explainPart (g : MGraph) (comps : List (List Nat)) : String :=
  if !coverOkB g comps then s!"components {showNatLists comps} do not list every node exactly once (nodes {showNats g.nodes})"
  else match comps.find? fun c => !classOkB g c with
    | some c => s!"component {showNats c} is not a class of mutual reachability"
    | none => "components are not the mutual-reachability partition"

def judgeScc (g : MGraph) (comps : List (List Nat)) : Option String :=
  if sccOkB g comps then none
  else if !partOkB g comps then some (explainPart g comps)
  else some s!"an earlier component can reach a later one: {showNatLists comps}"

def judgeIndex (comps : List (List Nat)) (idx : List (Nat × Nat)) : Option String :=
  if indexOkB comps idx then none
  else some s!"node_component_index is not consistent with the components {showNatLists comps}"

def showPairs (l : List (Nat × Nat)) : String :=
  if l.isEmpty then "-" else String.intercalate "," (l.map fun p => s!"{p.1}:{p.2}")

def judgeBool (yes no : Bool) (impl : String) (what : String) : Option String :=
  if impl == "true" then (if yes then none else some s!"answered true but {what} does not hold")
  else if impl == "false" then (if no then none else some s!"answered false but {what} holds")
  else some s!"unexpected answer {impl}"

/-- rows `a:b,c;…` -/
def parseRows (s : String) : List (Nat × List Nat) :=
  if s == "-" then [] else
  (s.splitOn ";").filterMap fun r =>
    match r.splitOn ":" with
    | [a, row] => a.toNat?.map fun a => (a, parseNats row)
    | _ => none

def showRows (l : List (Nat × List Nat)) : String :=
  if l.isEmpty then "-" else String.intercalate ";" (l.map fun r => s!"{r.1}:{showNats r.2}")

def judgeRows (g : MGraph) (rows : List (Nat × List Nat)) : Option String :=
  if !(sameSet (rows.map (·.1)) g.nodes) then some "has_path matrix does not have one row per node" else
  rows.findSome? fun (a, bs) =>
    match reachFrom g a with
    | none => some "oracle out of fuel"
    | some r =>
      let want := g.nodes.filter fun b => r.contains b
      if sameSet want bs then none
      else some s!"has_path_connecting({a}, ·) is true for {showNats bs}, reachable from {a}: {showNats (sortNats want)}"

def parseTriples (s : String) : List (Nat × Nat × Int) :=
  if s == "-" then [] else
  (s.splitOn ",").filterMap fun t =>
    match t.splitOn ":" with
    | [a, b, w] => match a.toNat?, b.toNat?, w.toInt? with
      | some a, some b, some w => some (a, b, w)
      | _, _, _ => none
    | _ => none

def showTriples (l : List (Nat × Nat × Int)) : String :=
  if l.isEmpty then "-" else String.intercalate "," (l.map fun t => s!"{t.1}:{t.2.1}:{t.2.2}")

/-- D7 (`Csr<Undirected>::edge_references` lists every non-loop edge twice): the reported sequence is
exactly the abstract edges with every non-loop edge in both orientations -/
def erDoubled (g : MGraph) (er : List (Nat × Nat)) : Bool :=
  let want := g.edges.flatMap fun e => if e.src == e.tgt then [(e.src, e.tgt)] else [(e.src, e.tgt), (e.tgt, e.src)]
  let key := fun (p : Nat × Nat) => p.1 * 100000 + p.2
  sameSet (want.map key) (er.map key) && g.edges.any fun e => e.src != e.tgt

def judgeTopo (g : MGraph) (impl : String) : Option String :=
  match splitWords impl with
  | ["ok", l] =>
    let ord := parseNats l
    if topoOkB g ord then none
    else if cycDYes g then some s!"returned Ok({showNats ord}) although the graph has a cycle"
    else some s!"Ok({showNats ord}) is not a topological order (every node once, every edge forward)"
  | ["err", x] =>
    let x := x.toNat?.getD 0
    if onCycleB g x then none
    else if cycDNo g then some s!"returned Err(Cycle({x})) although the graph is acyclic"
    else some s!"Cycle({x}) names a node that does not lie on a cycle"
  | _ => some s!"unexpected answer {impl}"

def judgeCond (g : MGraph) (acyc : Bool) (nodes : List (List Nat)) (es : List (Nat × Nat × Int)) : Option String :=
  if !partOkB g nodes then some (explainPart g nodes)
  else if acyc then
    (if condAcyclicOkB g nodes es then none
     else some s!"make_acyclic condensation is not the simple acyclic quotient: nodes {showNatLists nodes} edges {showTriples es}")
  else if condOkB g nodes es then none
  else some s!"condensation edges are not the original edges mapped to their components: nodes {showNatLists nodes} edges {showTriples es}"

def judgeCc (g : MGraph) (impl : String) : Option String :=
  match wccCount g, impl.toNat? with
  | some k, some k' => if k == k' then none else some s!"answered {k'}, the graph has {k} weakly connected components"
  | none, _ => some "oracle out of fuel"
  | _, none => some s!"unexpected answer {impl}"

def judgeHasPath1 (g : MGraph) (a b : Nat) (impl : String) : Option String :=
  match reachB g a b with
  | none => some "oracle out of fuel"
  | some r => if impl == s!"{showBool r} {showBool r}" then none
    else some s!"has_path_connecting({a},{b}) with a used workspace / fresh = {impl}, reachable = {showBool r}"

def judgeBip (g : MGraph) (s : Nat) (impl : String) : Option String :=
  match twoColB g s with
  | none => some "oracle out of fuel"
  | some b => if impl == showBool b then none
    else some s!"answered {impl}, 2-colourability of the component of {s} is {showBool b}"

def showTopo : WR (TopoRes × Space) → String
  | .fuel => "FUEL"
  | .panic => "panic"
  | .ret (.ok l, _) => s!"ok {showNats l}"
  | .ret (.cycle x, _) => s!"err {x}"

def spaceAfter {α : Type} (ws : Space) : WR (α × Space) → Space
  | .ret (_, ws') => ws'
  | _ => ws

/-- the workspace a `space <kind> <m>` line describes.  Its content cannot be observed through the API;
the model takes the WORST case the kind allows (all `m` bits set resp. a set holding `0..m`, leftovers
on the stack) — by `C09_space_independent` no content can change an answer. -/
def mkSpace (v : View) (hashed : Bool) (kind : String) (m : Nat) : Space :=
  if kind == "new" then Space.fresh v hashed
  else if kind == "default" then { stack := [], map := if hashed then .set [] else .bits [] }
  else { stack := (List.range m).reverse,
         map := if hashed then .set (List.range m) else .bits (List.replicate m true) }

/-- all pairs through the workspace, one after the other (rows of `has_path_connecting(a, ·)`) -/
def hasPathRowsS (v : View) (nodes : List Nat) (ws : Space) : Option (List (Nat × List Nat)) × Space :=
  nodes.foldl (fun (acc : Option (List (Nat × List Nat)) × Space) a =>
    let (row, ws', bad) := nodes.foldl (fun (st : List Nat × Space × Bool) b =>
      match hasPathS v st.2.1 a b with
      | .ret (true, w) => (st.1 ++ [b], w, st.2.2)
      | .ret (false, w) => (st.1, w, st.2.2)
      | _ => (st.1, st.2.1, true)) ([], acc.2, false)
    (if bad then none else acc.1.map (· ++ [(a, row)]), ws')) (some [], ws)

def step (d : DState) (req : List String) (impl : String) : DState × String :=
  let g := d.v.g
  let hashed := d.enc.startsWith "map"
  let vd := verdictD6 d.d6
  match req with
  | "case" :: k :: _ => ({}, s!"case {k}")
  | "graph" :: _ =>
    match parseView req with
    | none => (d, "SPECFAIL unparsable graph line")
    | some v =>
      let enc := (field? req "enc").getD ""
      let d6 := d6View req v
      match caseWhy v d6 with
      | some why => ({ v := v, ok := false, enc := enc }, why)
      | none =>
        match adaptWhy req v.g with
        | some why => ({ v := v, ok := false, enc := enc }, why)
        | none => ({ v := v, ok := true, enc := enc, d6 := d6 }, if d6 then knownD6 else "ok")
  | ["space", kind, m] =>
    ({ d with space := some (mkSpace d.v hashed kind (m.toNat?.getD 0)) }, "ok")
  | "law" :: name :: rest =>
    -- a `TarjanScc` that ran on a graph with `m` nodes before: inside the range of `C09_tarjan_across`?
    let m := (rest.head?.bind (·.toNat?)).getD 0
    if (name == "tarjan-foreign" || name == "tarjan-after-mutation") && !acrossB m d.v then
      (d, s!"SPECFAIL generator left the proved range: {m} + {g.nodes.length} nodes leave no room for the counters of a TarjanScc")
    else if impl == "ok" then (d, "ok")
    else if d.d6 && name == "iter-neighbors-directed" && (impl.splitOn "neighbors_directed(_, Outgoing)").length > 1 then (d, knownD6)
    else (d, s!"SPECFAIL law {name} does not hold: {impl}")
  | _ =>
  if impl == "panic" then (d, s!"SPECFAIL {req.headD ""} panicked") else
  match req with
  | ["kosaraju"] =>
    (d, vd (judgeScc g (parseNatLists impl)) (showOpt showNatLists (kosaraju d.v)) impl)
  | ["tarjan"] =>
    (d, vd (judgeScc g (parseNatLists impl)) (showOpt (fun t => showNatLists t.out) (tjRun d.v {})) impl)
  | ["tarjanrun"] =>
    match impl.splitOn "|" with
    | [c1, i1, c2, i2] =>
      let (c1, c2) := (parseNatLists c1, parseNatLists c2)
      let (i1, i2) := (parsePairs i1, parsePairs i2)
      let spec := (judgeScc g c1).orElse fun _ => (judgeIndex c1 i1).orElse fun _ => (judgeScc g c2).orElse fun _ => judgeIndex c2 i2
      let showIdx := fun (t : TJ) => showPairs ((sortNats g.nodes).map fun x => (x, tjIndex d.v t x))
      let model := match tjRun d.v {} with
        | none => "FUEL"
        | some t1 => match tjRun d.v t1 with
          | none => "FUEL"
          | some t2 => s!"{showNatLists t1.out}|{showIdx t1}|{showNatLists t2.out}|{showIdx t2}"
      (d, vd spec model impl)
    | _ => (d, s!"SPECFAIL malformed answer {impl}")
  | ["cc", er] =>
    let er := parsePairs ((er.drop 3).toString)
    if !erSetOkB g er then (d, sideFail "ErSet" s!"edge_references() = {showPairs er} is not the edge set of the graph") else
    if !compactB d.v then (d, sideFail "Compact" s!"some index below node_bound = {d.v.nb} belongs to no node") else
    let pairs := er.map fun p => (d.v.toIndex p.1, d.v.toIndex p.2)
    let model := match connectedComponents d.v.nb pairs with | some k => toString k | none => "panic"
    (d, vd (judgeCc g impl) model impl)
  | ["cycu", er] =>
    let er := parsePairs ((er.drop 3).toString)
    let pairs := er.map fun p => (d.v.toIndex p.1, d.v.toIndex p.2)
    let model := match cyclicUndirected d.v.nb pairs (UF.new 0 d.v.nb) with | some b => showBool b | none => "panic"
    let spec := judgeBool (cycUYes g) (cycUNo g) impl "\"some edge joins two nodes that are connected without it (direction ignored)\""
    -- D7: `Csr<Undirected>::edge_references` lists every non-loop edge twice (`ErOk` fails, `ErSet` holds)
    let d7 := d.enc == "csr" && !g.directed && erDoubled g er
    match spec with
    | some why =>
      if d7 && impl == "true" && cycUNo g && model == "true" then
        (d, "KNOWN D7 Csr<Undirected>::edge_references lists every non-loop edge twice, so is_cyclic_undirected answers true on a forest")
      else (d, s!"SPECFAIL {why}")
    | none =>
      if erOkB g er || d7 then (d, cmpExact model impl)
      else (d, sideFail "ErOk" s!"edge_references() = {showPairs er} is not the edge multiset of the graph")
  | ["haspath", mode] =>
    let rows := parseRows impl
    let nodes := sortNats g.nodes
    if mode == "reuse" && !d.d6 then
      -- through the reused workspace (`space` line; a fresh one if the harness announced none)
      let ws := d.space.getD (Space.fresh d.v hashed)
      let (m, ws') := hasPathRowsS d.v nodes ws
      ({ d with space := some ws' }, vd (judgeRows g rows) (match m with | some r => showRows r | none => "FUEL") impl)
    else
    let model := nodes.map fun a => (a, nodes.filter fun b => hasPath d.v a b == some true)
    let fuelOut := g.nodes.any fun a => g.nodes.any fun b => (hasPath d.v a b).isNone
    (d, vd (judgeRows g rows) (if fuelOut then "FUEL" else showRows model) impl)
  | ["haspath1", a, b] =>
    let (a, b) := (a.toNat?.getD 0, b.toNat?.getD 0)
    if !nodeB g a then (d, s!"SPECFAIL generator left the proved range: start node {a} is not a node") else
    let ws := d.space.getD (Space.fresh d.v hashed)
    let r := hasPathS d.v ws a b
    let m := showOpt showBool (hasPath d.v a b)
    let mr := if d.d6 then m else match r with | .ret (x, _) => showBool x | .fuel => "FUEL" | .panic => "panic"
    ({ d with space := some (spaceAfter ws r) }, vd (judgeHasPath1 g a b impl) s!"{mr} {m}" impl)
  | ["stalepath", a, b] =>
    let (a, b) := (a.toNat?.getD 0, b.toNat?.getD 0)
    if nodeB g a && nodeB g b then (d, s!"SPECFAIL generator left the proved range: neither {a} nor {b} is an id without a node") else
    -- `C09_has_path_stale`: an id that is not a node reaches itself only and is reached by itself only
    let want := a == b
    let spec := if impl == showBool want then none
      else some s!"has_path_connecting({a},{b}) = {impl}, but one of the ids is not a node of the graph: it has no edges, so the answer is {showBool want}"
    (d, verdict spec (showOpt showBool (hasPath d.v a b)) impl)
  | ["cycd"] =>
    (d, vd (judgeBool (cycDYes g) (cycDNo g) impl "\"some node lies on a directed cycle\"")
      (showOpt showBool (cyclicDirected d.v)) impl)
  | ["bip", s] =>
    let s := s.toNat?.getD 0
    if !nodeB g s then (d, s!"SPECFAIL generator left the proved range: start node {s} is not a node") else
    let model := match bipartite d.v s with | .answer b => showBool b | .panic => "panic" | .fuel => "FUEL"
    (d, vd (judgeBip g s impl) model impl)
  | ["toposort", mode] =>
    if mode == "reuse" && !d.d6 then
      let ws := d.space.getD (Space.fresh d.v hashed)
      let r := toposortS d.v ws
      ({ d with space := some (spaceAfter ws r) }, vd (judgeTopo g impl) (showTopo r) impl)
    else
    let model := match toposort d.v with
      | none => "FUEL"
      | some (.ok l) => s!"ok {showNats l}"
      | some (.cycle x) => s!"err {x}"
    (d, vd (judgeTopo g impl) model impl)
  | ["cond", acyc, eo] =>
    let eo := parseNats ((eo.drop 3).toString)
    let acyc := acyc == "1"
    if !eoOkB d.v eo then (d, sideFail "heo" s!"the edge-index order {showNats eo} does not enumerate the edges") else
    match impl.splitOn "|" with
    | [ns, es] =>
      let nodes := parseNatLists ns
      let es := parseTriples es
      let model := match condensation d.v eo acyc with
        | none => "FUEL"
        | some c => s!"{showNatLists c.nodes}|{showTriples c.edges}"
      (d, vd (judgeCond g acyc nodes es) model impl)
    | _ => (d, s!"SPECFAIL malformed answer {impl}")
  | _ => (d, s!"SPECFAIL bad request {req}")

end PetgraphModel.C09
