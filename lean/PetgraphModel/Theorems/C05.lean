import PetgraphModel.Model.Csr
import PetgraphModel.Model.AdjList
import PetgraphModel.Spec.AppendOnly
import PetgraphModel.Proofs.CsrCanon
import PetgraphModel.Proofs.CsrFromSorted
import PetgraphModel.Proofs.CsrIter
import PetgraphModel.Proofs.AdjList
import PetgraphModel.Proofs.C05W3Csr
import PetgraphModel.Proofs.C05W3List
import PetgraphModel.Proofs.C05W5Scope
import PetgraphModel.Proofs.C05W5Search
import PetgraphModel.Proofs.C05W5Cap
/-
C05 — `Csr` and `adj::List`, the append-only graphs, report exactly what was inserted.

Only property theorems live here; helper lemmas are in `Proofs/Csr*.lean` and `Proofs/AdjList.lean`.
Every theorem is about the mirror models `CsrM` / `AdjM` (tied to `/repo/src/csr.rs`, `/repo/src/adj.rs` by
the exact correspondence run of `./check C05`) and the abstract specifications `AppendSpec.SG` (a finite
map from node pairs to weights) / `AppendSpec.ML` (the insertion log).  All statements quantify over the
binary-search cut-off, the index width, the edge type and `debug`.

**The capacity of the index type (finding D31, repaired by /repo commit 8cab180).**  `modulus` is the number of
values of the node index type (256 for `u8`, 65536 for `u16`, …; `modulus = 0` models `usize` = no bound).  Up to
that commit `Csr::add_node` and `adj::List::add_node` / `add_node_with_capacity` / `add_node_from_edges` returned
`Ix::new(i)` = `i as u8`, which silently WRAPPED: the 257th node of a `Csr<_, _, _, u8>` was reported as index 0, a
node that already existed, and the refinement theorems of this file had to exclude such histories by a hypothesis
(`Fits` / `LFits` / `hfit`).  The repaired code asserts `i <= Ix::max().index()` before the first write: at the
capacity the call is the *documented panic* and the structure is unchanged.  The models (`CsrM.addNode`,
`AdjM.nextNodeIndex`) and the specifications (`AppendSpec.full`, `SG.addNodeCap`, `ML.addNodeCap`,
`ML.addNodeFromCap`; the spec machines take the capacity as a parameter) follow, and the refinement theorems now
hold for EVERY history, without those hypotheses.  `C05_csr_add_node_capacity`, `C05_list_add_node_capacity`
(general form), `C05_csr_no_wrap_all_histories`, `C05_list_no_wrap_all_histories` (no returned index ever wraps)
and `C05_D31_witness_repaired_csr`, `C05_D31_witness_repaired_list` (the old counterexample histories) record it.
-/
namespace PetgraphModel.C05T
open PetgraphModel PetgraphModel.AppendSpec

/-! ## Csr -/
section Csr
open PetgraphModel.CsrM PetgraphModel.CsrProofs

/-- strictly ascending -/
abbrev Asc := CsrProofs.Asc
/-- representation invariant: the flat vectors `column`/`edges`/`row` are the rows `R` laid out one after
the other (`row` = the running offsets), every row strictly ascending with entries `< node_count`,
`Undirected` ⇒ symmetric edge map, `Directed` ⇒ the `edge_count` field is never touched. -/
abbrev Good := CsrProofs.Good
abbrev Inv (s : State) : Prop := ∃ R, Good s R
/-- `s` (with rows `R`) represents the abstract simple graph `g`: same node weights, same edge map
(`look R a b = g.lookup a b` for all `a b`), `edge_count()` = number of abstract edges -/
abbrev Abs := CsrProofs.Abs
abbrev specStep := CsrProofs.specStep
abbrev specRun := CsrProofs.specRun
/-- `Fits m n ops`: starting from `n` nodes, no `add_node` in `ops` is issued when the node count has already
reached the capacity `m` of the index type (`m = 0`: unbounded), i.e. the history never runs into the capacity
panic of `add_node`.  No theorem of this file needs it any more (before the repair of finding D31 the refinement
theorems did); it is kept for the C06 theorems that still state it. -/
abbrev Fits := CsrProofs.Fits
abbrev SGEquiv := CsrProofs.SGEquiv
abbrev SameParams := CsrProofs.SameParams

/-- **both search branches agree**: on every strictly ascending slice the binary-search branch and the
linear branch of `find_edge_pos` return the same `Ok(pos)` / `Err(insertion point)` — so the value of
`BINARY_SEARCH_CUTOFF` cannot matter. -/
theorem C05_find_pos (c1 c2 : Nat) (xs : List Nat) (b : Nat) (h : Asc xs) :
    searchPos c1 xs b = searchPos c2 xs b ∧ searchPos c1 xs b = linearPos b xs 0 ∧
    binaryPos xs b (xs.length + 1) 0 xs.length = linearPos b xs 0 := by
  refine ⟨by rw [searchPos_eq_linear c1 xs b h, searchPos_eq_linear c2 xs b h], searchPos_eq_linear c1 xs b h, ?_⟩
  have := searchPos_eq_linear 0 xs b h
  simpa [searchPos] using this

/-- the search meets the documented contract of `slice::binary_search` on a strictly ascending slice:
`Ok(i)` ⇒ `xs[i] = b`; `Err(i)` ⇒ `b` does not occur and inserting at `i` keeps the slice strictly ascending. -/
theorem C05_find_pos_contract (c : Nat) (xs : List Nat) (b : Nat) (h : Asc xs) :
    match searchPos c xs b with
    | .found i => xs[i]? = some b
    | .absent i => b ∉ xs ∧ i ≤ xs.length ∧ Asc (xs.insertIdx i b) := by
  rw [searchPos_eq_linear c xs b h, linearPos_eq]
  by_cases hf : xs[lb b xs]? = some b
  · simp only [hf, if_true, Nat.zero_add]
  · simp only [hf, if_false, Nat.zero_add]
    have hnot : b ∉ xs := fun hm => hf ((mem_iff_lb xs b h).mpr hm)
    refine ⟨hnot, lb_le b xs, ?_⟩
    -- reuse the row-level lemma with dummy weights
    let r : CsrProofs.Row := xs.map fun x => (x, (0 : Int))
    have hk : keys r = xs := by simp [r, keys, Function.comp_def]
    have h1 := asc_insRow b 0 r (by rw [hk]; exact h) (by rw [hk]; exact hnot)
    rw [← insertIdx_lb, hk] at h1
    have h2 : keys (r.insertIdx (lb b xs) (b, 0)) = (keys r).insertIdx (lb b xs) b := by
      unfold keys; rw [map_insertIdx']
    rw [h2, hk] at h1
    exact h1

/-- `Csr::new()` and `Csr::with_nodes(n)` establish the invariant and represent the edgeless graph. -/
theorem C05_csr_inv_init (d : Bool) (m c : Nat) (dbg : Bool) (n : Nat) :
    Inv (new d m c dbg) ∧ Inv (withNodes d m c dbg n) ∧
    Abs (withNodes d m c dbg n) (List.replicate n []) { directed := d, nodes := List.replicate n 0, edges := [] } := by
  refine ⟨⟨_, good_new d m c dbg⟩, ⟨_, good_withNodes d m c dbg n⟩, ⟨rfl, rfl, ?_, ?_⟩⟩
  · intro a b; rw [look_replicate_nil]; rfl
  · unfold State.edgeCountQ withNodes SG.edgeCount; cases d <;> rfl

/-- every mutating public call, with arbitrary (valid or invalid) arguments, preserves the invariant. -/
theorem C05_csr_inv_step (s : State) (op : Op) (h : Inv s) : Inv (step s op).1 := by
  obtain ⟨R, good⟩ := h
  cases op with
  | addNode w =>
    by_cases hfit : s.modulus = 0 ∨ R.length < s.modulus
    · obtain ⟨s', e, good', _⟩ := good.addNode w hfit
      exact ⟨_, by simpa [step, e] using good'⟩
    · exact ⟨R, by simpa [step, good.addNode_full w hfit] using good⟩
  | clearEdges => exact ⟨_, good.clearEdges⟩
  | setWeight a w =>
    by_cases ha : a < R.length
    · obtain ⟨s', e, good', _⟩ := good.setWeight a w ha
      exact ⟨_, by simpa [step, e] using good'⟩
    · exact ⟨R, by simpa [step, good.setWeight_oob a w ha] using good⟩
  | tryAddEdge a b w =>
    by_cases hr : a < R.length ∧ b < R.length
    · by_cases hp : look R a b = none
      · obtain ⟨s', R', e, good', _⟩ := good.tryAddEdge_absent a b w hr.1 hr.2 hp
        exact ⟨R', by simpa [step, e] using good'⟩
      · exact ⟨R, by simpa [step, good.tryAddEdge_present a b w hr.1 hr.2 hp] using good⟩
    · exact ⟨R, by simpa [step, good.tryAddEdge_oob a b w hr] using good⟩
  | addEdge a b w =>
    by_cases hr : a < R.length ∧ b < R.length
    · by_cases hp : look R a b = none
      · obtain ⟨s', R', e, good', _⟩ := good.tryAddEdge_absent a b w hr.1 hr.2 hp
        exact ⟨R', by simpa [step, CsrM.addEdge, e] using good'⟩
      · exact ⟨R, by simpa [step, CsrM.addEdge, good.tryAddEdge_present a b w hr.1 hr.2 hp] using good⟩
    · exact ⟨R, by simpa [step, CsrM.addEdge, good.tryAddEdge_oob a b w hr] using good⟩

/-- the invariant in the terms of `csr.rs`: `row` has `node_count + 1` nondecreasing entries from `0` to
`column.len()`, `edges` in lock step with `column`, every row slice strictly ascending with entries
`< node_count`, `Undirected` ⇒ `contains_edge` symmetric (the edge is in both rows). -/
theorem C05_csr_inv_elementary (s : State) (h : Inv s) :
    s.row.length = s.nodeCount + 1 ∧ s.nodeWeights.length = s.nodeCount ∧
    s.row.Pairwise (· ≤ ·) ∧ s.row[0]? = some 0 ∧ s.row[s.nodeCount]? = some s.column.length ∧
    s.edges.length = s.column.length ∧
    (∀ a, a < s.nodeCount → ∃ nb, neighborsSlice s a = some nb ∧ nb.Pairwise (· < ·) ∧ ∀ x ∈ nb, x < s.nodeCount) ∧
    (s.directed = false → ∀ a b, a < s.nodeCount → b < s.nodeCount → containsEdge s a b = containsEdge s b a) ∧
    (s.directed = true → s.edgeCount = 0) := by
  obtain ⟨R, good⟩ := h
  exact good.elementary

/-- **`add_edge` on an existing edge returns `false` and changes nothing** (both entry points, any row
length, either search branch). -/
theorem C05_csr_existing_edge (s : State) (h : Inv s) (a b : Nat) (w : Int)
    (hc : containsEdge s a b = some true) (ha : a < s.nodeCount) (hb : b < s.nodeCount) :
    step s (.tryAddEdge a b w) = (s, .res (.ok false)) ∧ step s (.addEdge a b w) = (s, .bool false) := by
  obtain ⟨R, good⟩ := h
  rw [good.rep.nodeCount] at ha hb
  have hp : look R a b ≠ none := by
    intro hn
    have hnin := (look_none_iff R a b ha).mp hn
    simp [containsEdge, good.rep.findEdgePos_lt good.ok a b ha, hnin, Pos.isFound] at hc
  have e := good.tryAddEdge_present a b w ha hb hp
  exact ⟨by simp [step, e], by simp [step, CsrM.addEdge, e]⟩

/-- **out-of-range endpoints**: `try_add_edge` answers `Err(IndicesOutBounds(a, b))`, `add_edge` panics
(the documented panic), and the structure is unchanged. -/
theorem C05_csr_out_of_range (s : State) (h : Inv s) (a b : Nat) (w : Int)
    (hr : ¬ (a < s.nodeCount ∧ b < s.nodeCount)) :
    step s (.tryAddEdge a b w) = (s, .res (.error (a, b))) ∧ step s (.addEdge a b w) = (s, .panic) := by
  obtain ⟨R, good⟩ := h
  rw [good.rep.nodeCount] at hr
  have e := good.tryAddEdge_oob a b w hr
  exact ⟨by simp [step, e], by simp [step, CsrM.addEdge, e]⟩

/-- no valid call panics: under the invariant `clear_edges`, `add_node` below the capacity of the index type, and
`add_edge`/`try_add_edge`/`IndexMut` with in-range arguments never hit an index, slice or `Vec::insert` panic nor
the `debug_assert_eq!` of `try_add_edge` (in debug or release).  (`add_node` AT the capacity is the documented
panic of commit 8cab180 — `C05_csr_add_node_capacity`; before that commit it did not panic but wrapped, D31.) -/
theorem C05_csr_no_panic (s : State) (h : Inv s) (op : Op)
    (hv : match op with
      | .addEdge a b _ | .tryAddEdge a b _ => a < s.nodeCount ∧ b < s.nodeCount
      | .setWeight a _ => a < s.nodeCount
      | .addNode _ => s.modulus = 0 ∨ s.nodeCount < s.modulus
      | _ => True) : (step s op).2 ≠ .panic := by
  obtain ⟨R, good⟩ := h
  rw [good.rep.nodeCount] at hv
  cases op with
  | addNode w => obtain ⟨s', e, _⟩ := good.addNode w hv; simp [step, e]
  | clearEdges => simp [step]
  | setWeight a w => obtain ⟨s', e, _⟩ := good.setWeight a w hv; simp [step, e]
  | tryAddEdge a b w =>
    by_cases hp : look R a b = none
    · obtain ⟨s', R', e, _⟩ := good.tryAddEdge_absent a b w hv.1 hv.2 hp; simp [step, e]
    · simp [step, good.tryAddEdge_present a b w hv.1 hv.2 hp]
  | addEdge a b w =>
    by_cases hp : look R a b = none
    · obtain ⟨s', R', e, _⟩ := good.tryAddEdge_absent a b w hv.1 hv.2 hp; simp [step, CsrM.addEdge, e]
    · simp [step, CsrM.addEdge, good.tryAddEdge_present a b w hv.1 hv.2 hp]

/-- **refinement, one call**: invariant and abstraction are preserved and the answer is the one the
abstract simple graph prescribes (`true`/`false`/`Err`/panic, the new node's index) — for EVERY call, including
`add_node` at the capacity of the index type, where specification and model agree on "documented panic,
nothing changes".  (The hypothesis `hfit` that excluded that call before the repair of D31 is gone.) -/
theorem C05_csr_refines_step (s : State) (R : List CsrProofs.Row) (g : SG) (good : Good s R) (abs : Abs s R g)
    (op : Op) :
    ∃ R', Good (step s op).1 R' ∧ Abs (step s op).1 R' (specStep s.modulus g op).1 ∧
      (step s op).2 = (specStep s.modulus g op).2 := by
  obtain ⟨R', h1, h2, h3, _⟩ := step_refines good abs op
  exact ⟨R', h1, h2, h3⟩

/-- **refinement, all histories**: after ANY sequence of `add_node`/`add_edge`/`try_add_edge`/`clear_edges`/
`IndexMut` calls (valid or not, within the capacity of the index type or running into it) on `with_nodes(n)`
(`new()` is `n = 0`), directed or undirected, any index width and cut-off: the invariant holds, the state
represents exactly the abstract graph the same calls build, and every answer along the way was the specified one.
(The hypothesis `Fits m n ops` that restricted the histories before the repair of D31 is gone.) -/
theorem C05_csr_all_histories (d : Bool) (m c : Nat) (dbg : Bool) (n : Nat) (ops : List Op) :
    let s := (run (withNodes d m c dbg n) ops).1
    let g0 : SG := { directed := d, nodes := List.replicate n 0, edges := [] }
    ∃ R, Good s R ∧ Abs s R (specRun m g0 ops).1 ∧ (run (withNodes d m c dbg n) ops).2 = (specRun m g0 ops).2 := by
  have h0 := C05_csr_inv_init d m c dbg n
  obtain ⟨R, h1, h2, h3, _⟩ := run_refines (good_withNodes d m c dbg n) h0.2.2 ops
  exact ⟨R, h1, h2, h3⟩

/-- **the readers report exactly the abstract graph**: `neighbors_slice`/`edges_slice` are the ascending
successor list with its weights, `out_degree` its length, `contains_edge` membership, `edge_count` the number
of edges, `Index` the node weight; for EVERY node that does not exist (`a ≥ node_count`) `neighbors_slice`,
`edges_slice`, `out_degree`, `contains_edge` (for every `b`) and the private `find_edge_pos` they are built on
are the documented panic ("**Panics** if the node `a` does not exist").

(History: up to /repo commit aadb875 `neighbors_range` read `row.get(a + 1).unwrap_or(column.len())`, so for
`a = node_count` — where `row[a]` is the sentinel entry — these calls returned the empty answer instead of
panicking: finding D32, formerly remark R-C05-1 of this file.  The repaired code indexes `row[a + 1]`; the mirror
`CsrM.neighborsRange` follows, and the clause for `a = node_count` that adopted the old behaviour is gone —
`C05_D32_witness_repaired` records the old witness.) -/
theorem C05_csr_readers (s : State) (R : List CsrProofs.Row) (g : SG) (good : Good s R) (abs : Abs s R g) (a : Nat) :
    (a < g.n →
      neighborsSlice s a = some ((g.succ a).map (·.1)) ∧
      edgesSlice s a = some ((g.succ a).map (·.2)) ∧
      outDegree s a = some (g.succ a).length ∧
      (∀ b, containsEdge s a b = some (g.has a b)) ∧
      index s a = g.nodes[a]?) ∧
    (g.n ≤ a → neighborsSlice s a = none ∧ edgesSlice s a = none ∧ outDegree s a = none ∧
      (∀ b, containsEdge s a b = none) ∧ (∀ b, findEdgePos s a b = none)) ∧
    s.edgeCountQ = g.edgeCount ∧ s.nodeCount = g.n :=
  readers good abs a

/-- **`edges(a)`** yields, for an existing node, exactly `(a, target, weight)` for the specified successors, in
ascending target order, with the consecutive edge ids `row[a], row[a]+1, …`; for every node that does not exist
(`a ≥ node_count`) it is the documented panic (since the repair of D32, see `C05_csr_readers`). -/
theorem C05_csr_edges_iter (s : State) (R : List CsrProofs.Row) (g : SG) (good : Good s R) (abs : Abs s R g) (a : Nat) :
    (a < g.n → ∃ refs, edgesOf s a = some refs ∧
      refs.map (fun e => (e.2.1, e.2.2.1, e.2.2.2)) = (g.succ a).map (fun x => (a, x.1, x.2)) ∧
      refs.map (·.1) = (List.range (g.succ a).length).map (· + start R a)) ∧
    (g.n ≤ a → edgesOf s a = none) :=
  edgesOf_spec good abs a

/-- **the documented panic of the readers, in the terms of `csr.rs` and for all histories**: after ANY history from
`with_nodes(n)` every reader called with a node index `a ≥ node_count()` panics, and every reader called with an
existing node does not. -/
theorem C05_csr_readers_panic_iff_all_histories (d : Bool) (m c : Nat) (dbg : Bool) (n : Nat) (ops : List Op) (a : Nat) :
    let s := (run (withNodes d m c dbg n) ops).1
    ((neighborsSlice s a).isNone ↔ s.nodeCount ≤ a) ∧ ((edgesSlice s a).isNone ↔ s.nodeCount ≤ a) ∧
    ((outDegree s a).isNone ↔ s.nodeCount ≤ a) ∧ ((edgesOf s a).isNone ↔ s.nodeCount ≤ a) ∧
    (∀ b, (containsEdge s a b).isNone ↔ s.nodeCount ≤ a) := by
  intro s
  obtain ⟨R, good, abs, _⟩ := C05_csr_all_histories d m c dbg n ops
  have hr := readers good abs a
  have he := edgesOf_spec good abs a
  have hn : s.nodeCount = _ := hr.2.2.2
  by_cases ha : a < s.nodeCount
  · have h1 := hr.1 (hn ▸ ha)
    obtain ⟨refs, h2, _⟩ := he.1 (hn ▸ ha)
    have hna : ¬ s.nodeCount ≤ a := by omega
    refine ⟨?_, ?_, ?_, ?_, fun b => ?_⟩
    · simp only [show neighborsSlice s a = _ from h1.1, hna]; simp
    · simp only [show edgesSlice s a = _ from h1.2.1, hna]; simp
    · simp only [show outDegree s a = _ from h1.2.2.1, hna]; simp
    · simp only [show edgesOf s a = _ from h2, hna]; simp
    · simp only [show containsEdge s a b = _ from h1.2.2.2.1 b, hna]; simp
  · have hge : s.nodeCount ≤ a := by omega
    have h1 := hr.2.1 (hn ▸ hge)
    have h2 := he.2 (hn ▸ hge)
    refine ⟨?_, ?_, ?_, ?_, fun b => ?_⟩
    · simp only [show neighborsSlice s a = _ from h1.1, hge]; simp
    · simp only [show edgesSlice s a = _ from h1.2.1, hge]; simp
    · simp only [show outDegree s a = _ from h1.2.2.1, hge]; simp
    · simp only [show edgesOf s a = _ from h2, hge]; simp
    · simp only [show containsEdge s a b = _ from h1.2.2.2.1 b, hge]; simp

/-- **finding D32, the old witness, repaired**: on `Csr::with_nodes(3)` (and after a history on it) `out_degree(3)`,
`neighbors_slice(3)`, `edges_slice(3)`, `contains_edge(3, b)`, `edges(3)` used to answer `0` / `[]` / `false` although
node 3 does not exist; now each of them is the documented panic, exactly as for `a = 4, 5, …`, while the readers of the
existing nodes `0..2` — including the last one, whose range ends at the sentinel entry `row[3]` — answer as before. -/
theorem C05_D32_witness_repaired :
    let s0 := withNodes true 256 32 true 3
    let s1 := (run (withNodes false 256 32 true 3) [.addEdge 0 2 5, .tryAddEdge 2 1 7]).1
    (outDegree s0 3 = none ∧ neighborsSlice s0 3 = none ∧ edgesSlice s0 3 = none ∧ edgesOf s0 3 = none ∧
     containsEdge s0 3 0 = none ∧ containsEdge s0 3 3 = none ∧ findEdgePos s0 3 0 = none ∧
     outDegree s0 4 = none ∧ outDegree s0 2 = some 0 ∧ neighborsSlice s0 2 = some [] ∧ containsEdge s0 2 3 = some false) ∧
    (outDegree s1 3 = none ∧ neighborsSlice s1 3 = none ∧ edgesSlice s1 3 = none ∧ edgesOf s1 3 = none ∧
     containsEdge s1 3 0 = none ∧
     outDegree s1 2 = some 2 ∧ neighborsSlice s1 2 = some [0, 1] ∧ edgesSlice s1 2 = some [5, 7] ∧
     edgesOf s1 2 = some [(2, 2, 0, 5), (3, 2, 1, 7)] ∧ containsEdge s1 2 1 = some true ∧
     (List.range 3).map (outDegree s1) = [some 1, some 1, some 2]) ∧
    -- the empty graph: node 0 does not exist
    (outDegree (new true 256 32 true) 0 = none ∧ neighborsSlice (new true 256 32 true) 0 = none) := by
  decide

/-- **`edge_references()`** never panics under the invariant and yields every stored entry once, row by row
(`allTriples`: source `Ix::new(row index)`, then the row's `(target, weight)` in ascending order), with the ids
`0, 1, …, column.len() - 1`; each row `a` is the specified successor list `g.succ a`.  (For `Undirected` every
non-loop edge is stored in two rows and therefore yielded twice — finding D7, which belongs to C06.) -/
theorem C05_csr_edge_references (s : State) (R : List CsrProofs.Row) (g : SG) (good : Good s R) (abs : Abs s R g) :
    ∃ refs, edgeReferences s = some refs ∧
      refs.map (fun e => (e.2.1, e.2.2.1, e.2.2.2)) = allTriples s.modulus 0 R ∧
      refs.map (·.1) = List.range' 0 s.column.length ∧
      R.length = g.n ∧ ∀ a (h : a < R.length), R[a] = g.succ a := by
  refine ⟨_, good.rep.edgeReferences, (allRefs_proj _ 0 0 R).1, ?_, (Abs.n good abs).symm,
    fun a h => Abs.row_eq_succ good abs a h⟩
  rw [(allRefs_proj _ 0 0 R).2, good.rep.column_length]

/-- the representation is canonical: two `Csr` values (same type parameters) that represent abstract graphs
with the same node weights, edge map and edge count are *equal*, vector for vector. -/
theorem C05_csr_canonical (s1 s2 : State) (R1 R2 : List CsrProofs.Row) (g1 g2 : SG)
    (good1 : Good s1 R1) (good2 : Good s2 R2) (abs1 : Abs s1 R1 g1) (abs2 : Abs s2 R2 g2)
    (sp : SameParams s1 s2) (hg : SGEquiv g1 g2) : s1 = s2 :=
  canonical good1 good2 abs1 abs2 sp hg

/-- **insertion-order independence**: two call histories from the same start after which the specification
holds the same abstract graph (the order of its edge list is not compared) leave the same `Csr` value.
(Any two histories: the `Fits` hypotheses that were needed before the repair of D31 are gone.) -/
theorem C05_csr_order_independent (d : Bool) (m c : Nat) (dbg : Bool) (n : Nat) (ops1 ops2 : List Op)
    (heq : SGEquiv (specRun m { directed := d, nodes := List.replicate n 0, edges := [] } ops1).1
                   (specRun m { directed := d, nodes := List.replicate n 0, edges := [] } ops2).1) :
    (run (withNodes d m c dbg n) ops1).1 = (run (withNodes d m c dbg n) ops2).1 := by
  have h0 := C05_csr_inv_init d m c dbg n
  exact order_independent (good_withNodes d m c dbg n) h0.2.2 ops1 ops2 heq

/-- **`from_sorted_edges` succeeds exactly on strictly sorted, duplicate-free input** (lexicographic order on
`(source, target)`; in-range is automatic because the node count is the largest endpoint + 1). -/
theorem C05_from_sorted_ok_iff (m c : Nat) (dbg : Bool) (es : List Edge) :
    (∃ s, fromSortedEdges m c dbg es = .ok s) ↔ strictlySorted es = true :=
  fromSorted_ok_iff m c dbg es

/-- **… and then equals the graph built edge by edge**: the result is, vector for vector, the `Csr` obtained
from `with_nodes(max endpoint + 1)` by `add_edge`-ing the edges one at a time; it satisfies the invariant and
represents the abstract graph `SG.ofEdges` (so every reader answers accordingly, `C05_csr_readers`). -/
theorem C05_from_sorted_equals_fold (m c : Nat) (dbg : Bool) (es : List Edge) (s : State)
    (h : fromSortedEdges m c dbg es = .ok s) :
    s = (run (withNodes true m c dbg (fsNodes es)) (addOps es)).1 ∧ Inv s ∧
    ∃ R, Good s R ∧ Abs s R (SG.ofEdges true (fsNodes es) es) := by
  have hs : CsrProofs.Sorted es := (strictlySorted_iff es).mp ((fromSorted_ok_iff m c dbg es).mp ⟨s, h⟩)
  obtain ⟨s', e', good, _, _⟩ := fromSorted_good m c dbg es hs
  rw [h] at e'; injection e' with e'; subst e'
  obtain ⟨h1, h2⟩ := fromSorted_eq_fold m c dbg es s h
  exact ⟨h1, ⟨_, good⟩, _, good, h2⟩

/-- the order matters to `from_sorted_edges` only: the same edges in a wrong order are rejected, while
`add_edge` accepts them in any order and ends in the same value (`C05_csr_order_independent`). -/
example : (fromSortedEdges 0 32 true [(0, 1, 5), (0, 2, 6), (2, 0, 7)]).toOption.map (·.column) = some [1, 2, 0] := by decide
example : (fromSortedEdges 0 32 true [(0, 2, 6), (0, 1, 5), (2, 0, 7)]).toOption = none := by decide
example : (fromSortedEdges 0 32 true [(0, 1, 5), (0, 1, 6)]).toOption = none := by decide

/-! non-vacuity: a concrete undirected history through a 3-node graph, inserted in two different orders -/
example : Fits 256 3 [.addEdge 0 2 5, .tryAddEdge 2 1 7, .addEdge 0 2 9, .tryAddEdge 1 3 1, .addNode 4] := by
  simp [CsrProofs.Fits, CsrProofs.nodesAfter]
example : (run (withNodes false 256 32 true 3) [.addEdge 0 2 5, .tryAddEdge 2 1 7, .addEdge 0 2 9, .tryAddEdge 1 3 1]).1.column
    = [2, 2, 0, 1] := by decide
example : (run (withNodes false 256 32 true 3) [.tryAddEdge 1 2 7, .addEdge 2 0 5]).1
    = (run (withNodes false 256 32 true 3) [.addEdge 0 2 5, .tryAddEdge 2 1 7, .addEdge 0 2 9, .tryAddEdge 1 3 1]).1 := by decide

/-! ### wave 3: node readers, capacity of the index type (finding D31, repaired) -/

/-- **`node_identifiers()` / `node_references()` / `IntoNeighbors::neighbors`**: within the capacity of the index
type (`hcap`: it holds in every state reachable from `with_nodes(n)`, `n ≤ modulus` —
`C05_csr_node_readers_all_histories`; `with_nodes` itself does not check it) `node_identifiers()` yields
`0, 1, …, n-1`, `node_references()` pairs each index with the specified node weight, and `neighbors(a)` (which is
`neighbors_slice(a).iter()`) yields the specified successors of an existing node in ascending order. -/
theorem C05_csr_node_readers (s : State) (R : List CsrProofs.Row) (g : SG) (good : Good s R) (abs : Abs s R g)
    (hcap : s.modulus = 0 ∨ g.n ≤ s.modulus) :
    nodeIdentifiers s = List.range g.n ∧ nodeReferences s = (List.range g.n).zip g.nodes ∧
    ∀ a, a < g.n → neighborsSlice s a = some ((g.succ a).map (·.1)) :=
  ⟨(node_readers good abs hcap).1, (node_readers good abs hcap).2, fun a ha => ((readers good abs a).1 ha).1⟩

/-- … without the capacity assumption: each position is passed through `Ix::new` (`mkIx`), so beyond the capacity
(reachable only through `with_nodes(n)` with `n > modulus`) the same identifier is yielded for several nodes. -/
theorem C05_csr_node_readers_raw (s : State) (R : List CsrProofs.Row) (g : SG) (good : Good s R) (abs : Abs s R g) :
    nodeIdentifiers s = (List.range g.n).map (mkIx s.modulus) ∧
    nodeReferences s = ((List.range g.n).map (mkIx s.modulus)).zip g.nodes :=
  node_readers_raw good abs

/-- **node readers, all histories**: after ANY history from `with_nodes(n)` with `n` within the capacity of the
index type (`hn`; the `Fits` hypothesis that was needed before the repair of D31 is gone) the node readers report
exactly the nodes of the abstract graph the same calls build. -/
theorem C05_csr_node_readers_all_histories (d : Bool) (m c : Nat) (dbg : Bool) (n : Nat) (ops : List Op)
    (hn : m = 0 ∨ n ≤ m) :
    let s := (run (withNodes d m c dbg n) ops).1
    let g := (specRun m { directed := d, nodes := List.replicate n 0, edges := [] } ops).1
    nodeIdentifiers s = List.range g.n ∧ nodeReferences s = (List.range g.n).zip g.nodes ∧
    s.nodeCount = g.n ∧
    ∀ a, a < g.n → neighborsSlice s a = some ((g.succ a).map (·.1)) :=
  run_node_readers d m c dbg n ops hn

/-- EVERY history that starts within the capacity of the index type ends within it: `add_node` panics rather than
exceed it.  (Before the repair of D31 this needed `Fits m g.n ops`.) -/
theorem C05_csr_fits_capacity (m : Nat) (ops : List Op) (g : SG) (hc : m = 0 ∨ g.n ≤ m) :
    m = 0 ∨ (specRun m g ops).1.n ≤ m :=
  CsrProofs.run_cap m ops g hc

/-- **finding D31 repaired, general form — `add_node` and the capacity of the index type**, in every valid `Csr`
state.  At the capacity (`modulus ≠ 0`, `modulus ≤ node_count`; for `u8`: 256 nodes) `add_node` is the documented
panic (`none`) and the state is unchanged; below the capacity it succeeds, returns the FRESH index `node_count` —
which is `< modulus`, so it fits the index type and `Ix::new` does not alter it — the invariant is kept, there is
one node more and its weight is the given one. -/
theorem C05_csr_add_node_capacity (s : State) (h : Inv s) (w : Int) :
    (s.modulus ≠ 0 ∧ s.modulus ≤ s.nodeCount →
      addNode s w = none ∧ step s (.addNode w) = (s, .panic)) ∧
    (s.modulus = 0 ∨ s.nodeCount < s.modulus →
      ∃ s', addNode s w = some (s', s.nodeCount) ∧ step s (.addNode w) = (s', .ix s.nodeCount) ∧
        Inv s' ∧ s'.nodeCount = s.nodeCount + 1 ∧ s'.nodeWeights = s.nodeWeights ++ [w] ∧
        mkIx s.modulus s.nodeCount = s.nodeCount) := by
  obtain ⟨R, good⟩ := h
  obtain ⟨h1, h2⟩ := addNode_capacity good w
  refine ⟨fun hc => h1 (by omega), fun hf => ?_⟩
  obtain ⟨s', e1, e2, good', rest⟩ := h2 hf
  exact ⟨s', e1, e2, ⟨_, good'⟩, rest⟩

/-- … and against the specification: at the capacity model and abstract graph both answer "panic" and both stay
as they are; below it both answer the fresh index `g.n`. -/
theorem C05_csr_add_node_capacity_spec (s : State) (R : List CsrProofs.Row) (g : SG) (good : Good s R)
    (abs : Abs s R g) (w : Int) :
    (s.modulus ≠ 0 ∧ s.modulus ≤ g.n →
      step s (.addNode w) = (s, .panic) ∧ specStep s.modulus g (.addNode w) = (g, .panic)) ∧
    (s.modulus = 0 ∨ g.n < s.modulus →
      (step s (.addNode w)).2 = .ix g.n ∧ (specStep s.modulus g (.addNode w)).2 = .ix g.n ∧
      (specStep s.modulus g (.addNode w)).1.n = g.n + 1) := by
  have hn : s.nodeCount = g.n := (readers good abs 0).2.2.2
  obtain ⟨h1, h2⟩ := addNode_capacity good w
  rw [hn] at h1 h2
  refine ⟨fun hc => ?_, fun hf => ?_⟩
  · have hfull : ¬ (s.modulus = 0 ∨ g.n < s.modulus) := by omega
    exact ⟨(h1 hfull).2, by simp [CsrProofs.specStep, SG.addNodeCap_full s.modulus g w hfull]⟩
  · obtain ⟨s', _, e2, _⟩ := h2 hf
    refine ⟨by rw [e2], by simp [CsrProofs.specStep, SG.addNodeCap_fit s.modulus g w hf, SG.addNode], ?_⟩
    simp [CsrProofs.specStep, SG.addNodeCap_fit s.modulus g w hf, SG.addNode, SG.n]

/-- the node index an answer carries, if it is one (`Out` has no decidable equality) -/
abbrev outIx := CsrProofs.outIx

/-- **no wrap in any history**: along EVERY history from `with_nodes(n)` with `n` within the capacity of the index
type, the node count never exceeds the capacity and every index an `add_node` call returns fits the index type
(`i < modulus`: `Ix::new(i)` is `i`) and is at least `n` (it is the node count at the time of the call — never the
index of a node that existed at the start, let alone one that exists at the time of the call). -/
theorem C05_csr_no_wrap_all_histories (d : Bool) (m c : Nat) (dbg : Bool) (n : Nat) (ops : List Op)
    (hn : m = 0 ∨ n ≤ m) :
    (m = 0 ∨ (run (withNodes d m c dbg n) ops).1.nodeCount ≤ m) ∧
    ∀ i, some i ∈ (run (withNodes d m c dbg n) ops).2.map outIx → (m = 0 ∨ i < m) ∧ n ≤ i := by
  have := run_no_wrap (good_withNodes d m c dbg n) (by simpa [withNodes] using hn) ops
  simpa [withNodes] using this

/-- **finding D31, the old witness, repaired** (a 2-bit index type, `modulus = 4`; the `u8` case is the instance
`modulus = 256` of `C05_csr_add_node_capacity`): five `add_node` calls on `Csr::new()` used to answer
`0, 1, 2, 3, 0` (the fifth node reported as the live index 0).  Now the model answers `0, 1, 2, 3, panic` exactly as
the specification does, and the fifth call changes nothing: the state after five calls IS the state after four,
`node_count() = 4`, `node_identifiers()` is duplicate-free, `node_references()` still has the four weights and
`Index[0]` is the first node. -/
theorem C05_D31_witness_repaired_csr :
    ((run (new true 4 32 true) [.addNode 10, .addNode 11, .addNode 12, .addNode 13, .addNode 14]).2.map outIx
        = [some 0, some 1, some 2, some 3, none] ∧
     (run (new true 4 32 true) [.addNode 10, .addNode 11, .addNode 12, .addNode 13, .addNode 14]).2.map CsrProofs.outPanic
        = [false, false, false, false, true] ∧
     (specRun 4 {} [.addNode 10, .addNode 11, .addNode 12, .addNode 13, .addNode 14]).2.map outIx
        = [some 0, some 1, some 2, some 3, none] ∧
     (specRun 4 {} [.addNode 10, .addNode 11, .addNode 12, .addNode 13, .addNode 14]).2.map CsrProofs.outPanic
        = [false, false, false, false, true] ∧
     (run (new true 4 32 true) [.addNode 10, .addNode 11, .addNode 12, .addNode 13, .addNode 14]).1
        = (run (new true 4 32 true) [.addNode 10, .addNode 11, .addNode 12, .addNode 13]).1 ∧
     (specRun 4 {} [.addNode 10, .addNode 11, .addNode 12, .addNode 13, .addNode 14]).1
        = (specRun 4 {} [.addNode 10, .addNode 11, .addNode 12, .addNode 13]).1 ∧
     (run (new true 4 32 true) [.addNode 10, .addNode 11, .addNode 12, .addNode 13, .addNode 14]).1.nodeCount = 4 ∧
     nodeIdentifiers (run (new true 4 32 true) [.addNode 10, .addNode 11, .addNode 12, .addNode 13, .addNode 14]).1
        = [0, 1, 2, 3] ∧
     nodeReferences (run (new true 4 32 true) [.addNode 10, .addNode 11, .addNode 12, .addNode 13, .addNode 14]).1
        = [(0, 10), (1, 11), (2, 12), (3, 13)] ∧
     index (run (new true 4 32 true) [.addNode 10, .addNode 11, .addNode 12, .addNode 13, .addNode 14]).1 0
        = some 10) := by
  decide

/-! ### wave 5: the constructors and the capacity of the index type -/

/-- **`with_nodes(n)` beyond the capacity of the index type** (`m ≠ 0` values, `n > m`; e.g.
`Csr::<_, _, _, u8>::with_nodes(300)`).  `with_nodes` performs no capacity check, and this is what it builds: a valid
`Csr` (`Inv`) with `node_count() = n` representing the edgeless graph on `n` nodes — whose nodes `m..n-1` CANNOT BE
NAMED: `node_identifiers()` / `node_references()` pass each position through `Ix::new`, so position `i + m` yields the
same identifier as position `i` (the list is not duplicate-free), every node index a caller can form is `< m`
(`mkIx m a < m`), and `add_node` is the documented panic.  This lies OUTSIDE the property's quantifier (histories on
graphs whose nodes are the values of the index type); the harness records the real code's behaviour there as an
observation (`obs` lines, compared exactly with the mirror, never judged).  All theorems that do not assume `hcap`/`hn`
— refinement for all histories, readers for `a < node_count`, panic for `a ≥ node_count` — still hold there. -/
theorem C05_csr_with_nodes_beyond_capacity (d : Bool) (m c : Nat) (dbg : Bool) (n : Nat) (hm : m ≠ 0) (hn : m < n) :
    let s := withNodes d m c dbg n
    Inv s ∧ s.nodeCount = n ∧
    nodeIdentifiers s = (List.range n).map (· % m) ∧
    nodeReferences s = (List.range n).map (fun i => (i % m, (0 : Int))) ∧
    (∀ i, i + m < n → (nodeIdentifiers s)[i + m]? = (nodeIdentifiers s)[i]?) ∧
    ¬ (nodeIdentifiers s).Nodup ∧
    (∀ a, mkIx m a < m) ∧
    (∀ w, step s (.addNode w) = (s, .panic)) := by
  intro s
  obtain ⟨h1, h2, h3, h4, h5⟩ := withNodes_beyond d m c dbg n hm hn
  have hinv : Inv s := ⟨_, good_withNodes d m c dbg n⟩
  refine ⟨hinv, h1, h2, h3, h4, h5, fun a => mkIx_lt m a hm, fun w => ?_⟩
  have := (C05_csr_add_node_capacity s hinv w).1 ⟨hm, by rw [h1]; exact Nat.le_of_lt hn⟩
  exact this.2

/-- … and it stays that way: a `Csr` that is full for (or beyond) its index type never gets another node — in EVERY
history from `with_nodes(n)`, `m ≤ n`, the node count stays `n` and `node_identifiers()` stays what it was (so beyond
the capacity the collision of identifiers is permanent, and at the capacity `n = m` the identifiers stay `0..m-1`). -/
theorem C05_csr_full_forever (d : Bool) (m c : Nat) (dbg : Bool) (n : Nat) (ops : List Op) (hm : m ≠ 0) (hn : m ≤ n) :
    (run (withNodes d m c dbg n) ops).1.nodeCount = n ∧
    nodeIdentifiers (run (withNodes d m c dbg n) ops).1 = nodeIdentifiers (withNodes d m c dbg n) :=
  run_full d m c dbg n ops hm hn

/-- **`from_sorted_edges` cannot exceed the capacity**: its endpoints are `NodeIndex<Ix>` values (`hrep`: every
endpoint `< m`; the driver checks it on every `from_sorted` line), the node count is the largest endpoint + 1, hence at
most `m`.  So the capacity assumption of the property concerns `with_nodes` alone. -/
theorem C05_from_sorted_within_capacity (m c : Nat) (dbg : Bool) (es : List Edge) (s : State)
    (hrep : m = 0 ∨ ∀ e ∈ es, e.1 < m ∧ e.2.1 < m) (h : fromSortedEdges m c dbg es = .ok s) :
    s.nodeCount = fsNodes es ∧ (m = 0 ∨ s.nodeCount ≤ m) :=
  fromSorted_within_capacity m c dbg es s hrep h

/-! non-vacuity (a 2-bit index type): six nodes, identifiers `0,1,2,3,0,1`; `from_sorted_edges` at the top of the range -/
example : nodeIdentifiers (withNodes true 4 32 true 6) = [0, 1, 2, 3, 0, 1] ∧
    (run (withNodes true 4 32 true 6) [.addNode 1, .addEdge 1 5 7, .addEdge 1 2 7]).2.map CsrProofs.outPanic
      = [true, false, false] := by decide
example : ∃ s, fromSortedEdges 4 32 true [(0, 3, 1), (3, 3, 2)] = .ok s ∧ s.nodeCount = 4 := ⟨_, rfl, by decide⟩

/-! ### wave 5: `slice::binary_search` by its documented contract -/

/-- the documented contract of `<[T]>::binary_search` for one call: `Ok(i)` ⇒ `xs[i] = b`; `Err(i)` ⇒ `b` does not
occur, `i ≤ len` and inserting `b` at `i` keeps the slice sorted -/
abbrev BSAnswer := CsrProofs.BSAnswer
/-- `search` meets that contract on every strictly ascending slice (nothing is assumed about other inputs) -/
abbrev MeetsContract := CsrProofs.MeetsContract
/-- `find_edge_pos` / one public call / a history, with `search` in place of `slice::binary_search` -/
abbrev findEdgePosWith := CsrProofs.findEdgePosWith
abbrev stepWith := CsrProofs.stepWith
abbrev runWith := CsrProofs.runWith

/-- **the contract determines the answer on a strictly ascending slice**: an answer that meets the contract is the
answer of the linear scan, i.e. of both branches of the mirror's `find_edge_pos` search. -/
theorem C05_binary_search_contract_unique (c : Nat) (xs : List Nat) (b : Nat) (h : Asc xs) (p : Pos)
    (hp : BSAnswer xs b p) : p = searchPos c xs b ∧ p = linearPos b xs 0 ∧
      p = binaryPos xs b (xs.length + 1) 0 xs.length := by
  have h1 := CsrProofs.BSAnswer.unique h hp
  have h2 := C05_find_pos c c xs b h
  exact ⟨by rw [h1, h2.2.1], h1, by rw [h1, h2.2.2]⟩

/-- the mirror's search (both branches, any cut-off) meets the contract: `MeetsContract` is satisfiable, and the
differential `bsearch` test of the harness compares std with a function that is inside the contract. -/
theorem C05_mirror_search_meets_contract (c : Nat) : MeetsContract (searchPos c) := searchPos_meets c

/-- without strictness the contract does NOT determine the answer (std: "if there are multiple matches, then any one
of the matches could be returned") — which is why the exact comparison is made on strictly ascending slices only and
slices with repeated entries are judged by the contract. -/
theorem C05_binary_search_contract_not_unique_false_witness :
    BSAnswer [1, 1] 1 (.found 0) ∧ BSAnswer [1, 1] 1 (.found 1) ∧ Pos.found 0 ≠ Pos.found 1 ∧ ¬ Asc [1, 1] := by
  refine ⟨rfl, rfl, by decide, ?_⟩
  show ¬ List.Pairwise (· < ·) [1, 1]
  decide

/-- **ANY search that meets std's documented contract gives the same `find_edge_pos`**: in every valid `Csr` state
(rows strictly ascending by the invariant), for every `a`, `b` — existing node or not, row on either side of the
cut-off — `find_edge_pos` computed with `search` in place of `slice::binary_search` is the mirror's `find_edge_pos`. -/
theorem C05_find_edge_pos_any_contract_search (search : List Nat → Nat → Pos) (hc : MeetsContract search)
    (s : State) (h : Inv s) (a b : Nat) : findEdgePosWith search s a b = findEdgePos s a b := by
  obtain ⟨R, good⟩ := h
  exact good.rep.findEdgePosWith_eq good.ok search hc a b

/-- … hence **every history is the same**: the model run with ANY contract-meeting search in `add_edge` /
`try_add_edge` (including the intermediate state of an undirected insertion) ends in the same `Csr` value and gives
the same answers as the mirror, so every C05 theorem about `run` holds for std's `binary_search` provided std meets its
documented contract — the trusted-base item is exactly that contract, not the textbook algorithm. -/
theorem C05_csr_any_contract_search_all_histories (search : List Nat → Nat → Pos) (hc : MeetsContract search)
    (s : State) (h : Inv s) (ops : List Op) : runWith search s ops = run s ops := by
  induction ops generalizing s with
  | nil => rfl
  | cons op ops ih =>
    obtain ⟨R, good⟩ := h
    have h1 : stepWith search s op = step s op := good.stepWith_eq search hc op
    have h2 : Inv (step s op).1 := C05_csr_inv_step s op ⟨R, good⟩
    have h3 := ih _ h2
    show (let (s1, o) := CsrProofs.stepWith search s op
          let (s2, os) := CsrProofs.runWith search s1 ops
          (s2, o :: os)) = _
    rw [show CsrProofs.stepWith search s op = step s op from h1]
    show (let (s2, os) := CsrProofs.runWith search (step s op).1 ops
          (s2, (step s op).2 :: os)) = _
    rw [show CsrProofs.runWith search (step s op).1 ops = run (step s op).1 ops from h3]
    rfl

/-- the judge of the `bsearch` protocol lines is sound and complete: on a sorted slice it accepts an answer iff the
answer meets the documented contract. -/
theorem C05_bsearch_judge_iff (xs : List Nat) (x : Nat) (p : Pos) (hs : xs.Pairwise (· ≤ ·)) :
    C05Scope.bsContractB xs x p = true ↔ BSAnswer xs x p :=
  bsContractB_iff xs x p hs

/-! non-vacuity: a search that differs from the mirror's OUTSIDE strictly ascending slices still meets the contract -/
example : MeetsContract (fun xs b => if C05Scope.ascB xs then searchPos 0 xs b else .found 7) := by
  intro xs b h
  have : C05Scope.ascB xs = true := (ascB_iff xs).mpr h
  simp only [this, if_true]
  exact searchPos_meets 0 xs b h
example : BSAnswer [2, 5, 9] 6 (.absent 2) ∧ BSAnswer [2, 5, 9] 5 (.found 1) := by
  refine ⟨⟨by decide, by decide, by decide⟩, rfl⟩

/-! ### run-time checks of the hypotheses (Csr)

Every hypothesis of the theorems above that concerns the concrete case is evaluated by the driver
(`Driver/C05.lean`) on every case it judges, as one of the executable Booleans of `Spec/C05Scope.lean`; the theorems
below turn a successful check into the hypothesis.  `csrScopeB` is evaluated after every constructor / mutating line
on the driver's (mirror state, specification state) pair, `capB` with it, `representableB` on every `from_sorted`
line, `ascB` / `sortedB` on every `bsearch` line.  A failing check is answered
`SPECFAIL side condition … does not hold` / `SPECFAIL generator left the proved range` and never fires on the
unchanged tree.  (Index bounds such as `a < node_count` are not assumed: the theorems case-split on them as the
driver does.) -/

/-- `Inv` / `Good` / `Abs` — the hypotheses of `C05_csr_readers`, `C05_csr_edges_iter`, `C05_csr_edge_references`,
`C05_csr_refines_step`, `C05_csr_existing_edge`, `C05_csr_out_of_range`, `C05_csr_no_panic`, … -/
theorem C05_csr_scope_check (s : State) (g : SG) (h : C05Scope.csrScopeB s g = true) :
    Inv s ∧ ∃ R, Good s R ∧ Abs s R g :=
  ⟨⟨_, (csrScope_check s g h).1⟩, _, csrScope_check s g h⟩

/-- `hcap` of `C05_csr_node_readers`, `hn` of `C05_csr_node_readers_all_histories` / `C05_csr_no_wrap_all_histories`,
`hc` of `C05_csr_fits_capacity` -/
theorem C05_cap_check (m n : Nat) (h : C05Scope.capB m n = true) : m = 0 ∨ n ≤ m := (capB_iff m n).mp h

/-- `Asc xs` of `C05_find_pos`, `C05_find_pos_contract`, `C05_binary_search_contract_unique` -/
theorem C05_asc_check (xs : List Nat) (h : C05Scope.ascB xs = true) : Asc xs := (ascB_iff xs).mp h

/-- sortedness, the hypothesis of `C05_bsearch_judge_iff` -/
theorem C05_sorted_check (xs : List Nat) (h : C05Scope.sortedB xs = true) : xs.Pairwise (· ≤ ·) :=
  (sortedB_iff xs).mp h

/-- `hrep` of `C05_from_sorted_within_capacity` -/
theorem C05_representable_check (m : Nat) (es : List Edge) (h : C05Scope.representableB m es = true) :
    m = 0 ∨ ∀ e ∈ es, e.1 < m ∧ e.2.1 < m := (representableB_iff m es).mp h

/-! non-vacuity of the scope check: the state and the specification graph after a real history pass it -/
example : C05Scope.csrScopeB
    (run (withNodes false 256 32 true 3) [.addEdge 0 2 5, .tryAddEdge 2 1 7, .addEdge 0 2 9, .tryAddEdge 1 3 1, .addNode 4]).1
    (specRun 256 { directed := false, nodes := List.replicate 3 0, edges := [] }
      [.addEdge 0 2 5, .tryAddEdge 2 1 7, .addEdge 0 2 9, .tryAddEdge 1 3 1, .addNode 4]).1 = true := by decide
/-! … and it can fail: a state whose row 0 is not ascending / a specification graph with a different weight -/
example : C05Scope.csrScopeB { (withNodes true 256 32 true 3) with column := [2, 1], edges := [0, 0], row := [0, 2, 2, 2] }
    { directed := true, nodes := [0, 0, 0], edges := [((0, 2), 0), ((0, 1), 0)] } = false := by decide
example : C05Scope.csrScopeB (run (withNodes true 256 32 true 3) [.addEdge 0 2 5]).1
    { directed := true, nodes := [0, 0, 0], edges := [((0, 2), 6)] } = false := by decide

end Csr

/-! ## adj::List -/
section AdjList
open PetgraphModel.AdjM PetgraphModel.AdjProofs

/-- the rows of the model are the per-source subsequences of the insertion log, and the `k`-th edge out of
`a` carries the index `(a, k)` -/
abbrev LAbs := AdjProofs.LAbs
abbrev lspecStep := AdjProofs.specStep
abbrev lspecRun := AdjProofs.specRun
/-- `LFits m n ops`: starting from `n` nodes, no `add_node` / `add_node_from_edges` in `ops` is issued when the
node count has already reached the capacity `m` of the index type (`m = 0`: unbounded; `clear` resets the
count), i.e. the history never runs into the capacity panic of `add_node*`.  No theorem of this file needs it any
more (before the repair of finding D31 the refinement theorems did); it is kept for the C06 theorems that still
state it. -/
abbrev LFits := AdjProofs.Fits

/-- **refinement, one call**: `add_node*`, `add_edge`, `update_edge`, `edge_weight_mut`, `clear` with arbitrary
arguments act on the rows exactly as the specification acts on the insertion log, and answer the same
(`EdgeIndex`, node index, documented panic + unchanged for an out-of-range endpoint and for `add_node*` at the
capacity of the index type).  (The hypothesis `hfit` that excluded the latter before the repair of D31 is gone.) -/
theorem C05_list_refines_step (s : AdjM.State) (g : ML) (h : LAbs s g) (op : AdjM.Op) :
    LAbs (AdjM.step s op).1 (lspecStep s.modulus g op).1 ∧ (AdjM.step s op).2 = (lspecStep s.modulus g op).2 := by
  obtain ⟨h1, h2, _⟩ := AdjProofs.step_refines h op
  exact ⟨h1, h2⟩

/-- **refinement, all histories** from `List::new()`: parallel edges are kept (the log only grows, except
`clear`), every answer is the specified one — for ANY history (the hypothesis `LFits m 0 ops` that restricted the
histories before the repair of D31 is gone). -/
theorem C05_list_all_histories (m : Nat) (ops : List AdjM.Op) :
    LAbs (AdjM.run (AdjM.new m) ops).1 (lspecRun m {} ops).1 ∧
    (AdjM.run (AdjM.new m) ops).2 = (lspecRun m {} ops).2 :=
  AdjProofs.run_refines (new_abs m) ops

/-- `find_edge`, `contains_edge`, `edge_endpoints`, `edge_weight`, `neighbors`, `edge_indices_from` agree with
the insertion log: `find_edge` is the *first* inserted `a → b`, neighbours come in insertion order, an index
`(a, k)` denotes the `k`-th edge inserted out of `a`. -/
theorem C05_list_readers (s : AdjM.State) (g : ML) (h : LAbs s g) :
    s.nodeCount = g.n ∧
    (∀ a b, AdjM.findEdge s a b = (g.find a b).map (·.id)) ∧
    (∀ a b, AdjM.containsEdge s a b = (g.find a b).isSome) ∧
    (∀ e, AdjM.edgeEndpoints s e = (g.get e).map fun x => (x.src, x.tgt)) ∧
    (∀ e, AdjM.edgeWeight s e = (g.get e).map (·.w)) ∧
    (∀ a, AdjM.neighbors s a = if a < g.n then some ((g.outOf a).map (·.tgt)) else none) ∧
    (∀ a, AdjM.edgeIndicesFrom s a = if a < g.n then some ((g.outOf a).map (·.id)) else none) :=
  AdjProofs.readers h

/-- **every returned edge index stays valid**: until `clear`, an index that denotes an edge keeps denoting an
edge with the same endpoints, whatever is called. -/
theorem C05_list_index_stable (m : Nat) (g : ML) (op : AdjM.Op) (hop : op ≠ .clear) (id : Nat × Nat) (e : MEdge)
    (h : g.get id = some e) :
    ∃ e', (lspecStep m g op).1.get id = some e' ∧ e'.id = e.id ∧ e'.src = e.src ∧ e'.tgt = e.tgt :=
  AdjProofs.index_stable m g op hop id e h

/-- **parallel edges are kept**: `add_edge` with in-range endpoints always appends one edge to the log and
returns a fresh index, even when `a → b` already exists. -/
theorem C05_list_parallel_kept (s : AdjM.State) (g : ML) (h : LAbs s g) (a b : Nat) (w : Int)
    (ha : a < g.n) (hb : b < g.n) :
    (lspecStep s.modulus g (.addEdge a b w)).1.edges.length = g.edges.length + 1 ∧
    (AdjM.step s (.addEdge a b w)).2 = .eix (a, (g.outOf a).length) ∧
    g.get (a, (g.outOf a).length) = none := by
  have hs : g.addEdge a b w = some (g.push a b w) := by simp [ML.addEdge, ha, hb]
  refine ⟨by simp [AdjProofs.specStep, hs, ML.push], ?_, h.get_none a _ (Nat.le_refl _)⟩
  have := (AdjProofs.step_refines h (.addEdge a b w)).2.1
  rw [this]; simp [AdjProofs.specStep, hs, ML.push]

/-! non-vacuity -/
example : LFits 256 0 [.addNode, .addNode, .addEdge 0 1 5, .addEdge 0 1 6, .updateEdge 0 1 9, .addEdge 0 7 1] := by
  simp [AdjProofs.Fits]
example : (AdjM.run (AdjM.new 256) [.addNode, .addNode, .addEdge 0 1 5, .addEdge 0 1 6, .updateEdge 0 1 9, .addEdge 0 7 1]).1.suc
    = [[(1, 9), (1, 6)], []] := by decide

/-! ### wave 3: whole-graph iteration, capacity of the index type (finding D31, repaired) -/

/-- the `EdgeReference` the log prescribes for an edge: `(source, successor_index, target, weight)` -/
abbrev lrefOf := AdjProofs.refOf

/-- **`edge_count()`** is the length of the insertion log (every inserted edge counted once, parallel edges
included). -/
theorem C05_list_edge_count (s : AdjM.State) (g : ML) (h : LAbs s g) : s.edgeCount = g.edges.length :=
  h.edgeCount

/-- **`edge_references()` / `edge_indices()` / `node_indices()`** (the iterators run to completion), within the
capacity of the index type (`hcap`: it holds in every state reachable from `List::new()` —
`C05_list_iteration_all_histories`, `C05_list_no_wrap_all_histories`):
`edge_references()` yields the log GROUPED BY SOURCE — sources ascending, within one source in insertion order —
each edge as `(source, successor_index, target, current weight)`; `edge_indices()` yields the indices of the same
edges in the same order; `node_indices()` (= `node_identifiers()` = `node_references()`) yields `0, …, n-1`. -/
theorem C05_list_iteration (s : AdjM.State) (g : ML) (h : LAbs s g) (hcap : s.modulus = 0 ∨ g.n ≤ s.modulus) :
    AdjM.edgeReferences s = ((List.range g.n).flatMap fun a => (g.outOf a).map lrefOf) ∧
    AdjM.edgeIndices s = ((List.range g.n).flatMap fun a => (g.outOf a).map (·.id)) ∧
    AdjM.nodeIndices s = List.range g.n :=
  h.iteration hcap

/-- … without the capacity assumption (states that no history from `List::new()` reaches): the row index is passed
through `Ix::new` (`mkIx`), so beyond the capacity the edges of row `a` would be reported with source
`a % modulus`. -/
theorem C05_list_iteration_raw (s : AdjM.State) (g : ML) (h : LAbs s g) :
    AdjM.edgeReferences s = ((List.range g.n).flatMap fun a =>
      (g.outOf a).map fun e => (AdjM.mkIx s.modulus a, e.id.2, e.tgt, e.w)) ∧
    AdjM.edgeIndices s = ((List.range g.n).flatMap fun a =>
      (g.outOf a).map fun e => (AdjM.mkIx s.modulus a, e.id.2)) ∧
    AdjM.nodeIndices s = (List.range g.n).map (AdjM.mkIx s.modulus) :=
  h.iteration_raw

/-- the grouped order is a rearrangement of the log: **every inserted edge is yielded exactly once** (as a
multiset, `edge_references()` is the whole log; nothing lost, nothing doubled). -/
theorem C05_list_grouped_perm (s : AdjM.State) (g : ML) (h : LAbs s g) :
    ((List.range g.n).flatMap g.outOf).Perm g.edges :=
  h.grouped_perm

/-- **`IntoEdges::edges(a)`** yields, for an existing node, exactly the edges inserted out of `a`, in insertion
order, as `(a, successor_index, target, current weight)`; it panics for `a ≥ node_count`.  (No capacity
assumption: the source of the references is the argument `a` itself.) -/
theorem C05_list_edges_of (s : AdjM.State) (g : ML) (h : LAbs s g) (a : Nat) :
    AdjM.edgesOf s a = if a < g.n then some ((g.outOf a).map lrefOf) else none :=
  h.edgesOf a

/-- EVERY history that starts within the capacity of the index type ends within it: `add_node*` panic rather than
exceed it.  (Before the repair of D31 this needed `LFits m g.n ops`.) -/
theorem C05_list_fits_capacity (m : Nat) (ops : List AdjM.Op) (g : ML)
    (hc : m = 0 ∨ g.n ≤ m) : m = 0 ∨ (lspecRun m g ops).1.n ≤ m :=
  AdjProofs.run_cap m ops g hc

/-- **whole-graph iteration, all histories**: in every state reachable from `List::new()` by ANY history (the
`LFits` hypothesis that was needed before the repair of D31 is gone), `edge_count`, `edge_references`,
`edge_indices`, `node_indices` and `edges(a)` report exactly the insertion log the same calls build, grouped by
source. -/
theorem C05_list_iteration_all_histories (m : Nat) (ops : List AdjM.Op) :
    let s := (AdjM.run (AdjM.new m) ops).1
    let g := (lspecRun m {} ops).1
    s.edgeCount = g.edges.length ∧
    AdjM.edgeReferences s = ((List.range g.n).flatMap fun a => (g.outOf a).map lrefOf) ∧
    AdjM.edgeIndices s = ((List.range g.n).flatMap fun a => (g.outOf a).map (·.id)) ∧
    AdjM.nodeIndices s = List.range g.n ∧
    (∀ a, AdjM.edgesOf s a = if a < g.n then some ((g.outOf a).map lrefOf) else none) ∧
    ((List.range g.n).flatMap g.outOf).Perm g.edges :=
  AdjProofs.run_iteration m ops

/-- **finding D31 repaired, general form — `add_node*` and the capacity of the index type**, in EVERY state (the
list has no representation invariant to assume).  At the capacity (`modulus ≠ 0`, `modulus ≤ node_count`; `u8`:
256 nodes) `add_node` / `add_node_with_capacity` / `Build::add_node` (one model function) and
`add_node_from_edges` are the documented panic (`none`) and the list is unchanged; below the capacity they
succeed, append exactly the new row and return the FRESH index `node_count` — which is `< modulus`, so it fits
the index type and `Ix::new` does not alter it. -/
theorem C05_list_add_node_capacity (s : AdjM.State) (es : AdjM.Row) :
    (s.modulus ≠ 0 ∧ s.modulus ≤ s.nodeCount →
      AdjM.addNode s = none ∧ AdjM.addNodeFromEdges s es = none ∧
      AdjM.step s .addNode = (s, .panic) ∧ AdjM.step s (.addNodeFromEdges es) = (s, .panic)) ∧
    (s.modulus = 0 ∨ s.nodeCount < s.modulus →
      AdjM.addNode s = some ({ s with suc := s.suc ++ [[]] }, s.nodeCount) ∧
      AdjM.addNodeFromEdges s es = some ({ s with suc := s.suc ++ [es] }, s.nodeCount) ∧
      AdjM.step s .addNode = ({ s with suc := s.suc ++ [[]] }, .ix s.nodeCount) ∧
      AdjM.step s (.addNodeFromEdges es) = ({ s with suc := s.suc ++ [es] }, .ix s.nodeCount) ∧
      AdjM.mkIx s.modulus s.nodeCount = s.nodeCount) :=
  ⟨fun hc => (AdjProofs.addNode_capacity s es).1 (by omega), (AdjProofs.addNode_capacity s es).2⟩

/-- … and against the specification: at the capacity model and insertion log both answer "panic" and both stay
as they are; below it both answer the fresh index `g.n`. -/
theorem C05_list_add_node_capacity_spec (s : AdjM.State) (g : ML) (h : LAbs s g) (es : AdjM.Row) :
    (s.modulus ≠ 0 ∧ s.modulus ≤ g.n →
      AdjM.step s .addNode = (s, .panic) ∧ lspecStep s.modulus g .addNode = (g, .panic) ∧
      AdjM.step s (.addNodeFromEdges es) = (s, .panic) ∧ lspecStep s.modulus g (.addNodeFromEdges es) = (g, .panic)) ∧
    (s.modulus = 0 ∨ g.n < s.modulus →
      (AdjM.step s .addNode).2 = .ix g.n ∧ (lspecStep s.modulus g .addNode).2 = .ix g.n ∧
      (AdjM.step s (.addNodeFromEdges es)).2 = .ix g.n ∧ (lspecStep s.modulus g (.addNodeFromEdges es)).2 = .ix g.n) := by
  have hn : s.nodeCount = g.n := h.n.symm
  obtain ⟨h1, h2⟩ := AdjProofs.addNode_capacity s es
  rw [hn] at h1 h2
  refine ⟨fun hc => ?_, fun hf => ?_⟩
  · have hfull : ¬ (s.modulus = 0 ∨ g.n < s.modulus) := by omega
    obtain ⟨_, _, e1, e2⟩ := h1 hfull
    exact ⟨e1, by simp [AdjProofs.specStep, AdjProofs.addNodeCap_full _ g hfull], e2,
      by simp [AdjProofs.specStep, AdjProofs.addNodeFromCap_full _ g es hfull]⟩
  · obtain ⟨_, _, e1, e2, _⟩ := h2 hf
    exact ⟨by rw [e1], by simp [AdjProofs.specStep, AdjProofs.addNodeCap_fit _ g hf, ML.addNode],
      by rw [e2], by simp [AdjProofs.specStep, AdjProofs.addNodeFromCap_fit _ g es hf, ML.addNodeFrom]⟩

/-- the node index an answer carries, if it is one -/
abbrev loutIx := AdjProofs.outIx

/-- **no wrap in any history**: along EVERY history from `List::new()` the node count never exceeds the capacity
of the index type and every index an `add_node*` call returns fits the index type (`i < modulus`: `Ix::new(i)` is
`i`, the node count at the time of the call — not the index of an existing node). -/
theorem C05_list_no_wrap_all_histories (m : Nat) (ops : List AdjM.Op) :
    (m = 0 ∨ (AdjM.run (AdjM.new m) ops).1.nodeCount ≤ m) ∧
    ∀ i, some i ∈ (AdjM.run (AdjM.new m) ops).2.map loutIx → m = 0 ∨ i < m :=
  AdjProofs.run_no_wrap (AdjM.new m) (Or.inr (Nat.zero_le _)) ops

/-- **finding D31, the old witness, repaired** (a 2-bit index type, `modulus = 4`; the `u8` case is the instance
`modulus = 256` of `C05_list_add_node_capacity`): four `add_node`, then `add_node_from_edges([(1, 7)])` used to
answer `0, 1, 2, 3, 0` (the fifth node reported as the live index 0, its edge then listed under source 0).  Now
model and specification answer `0, 1, 2, 3, panic`, the fifth call changes nothing (the state IS the state after
four calls: `node_count() = 4`, `node_indices()` duplicate-free, no edge), a plain `add_node` as fifth call panics
as well, and a following `add_edge(0, 2, 9)` goes to node 0 because the caller said so, not through a wrapped
index. -/
theorem C05_D31_witness_repaired_list :
    ((AdjM.run (AdjM.new 4) [.addNode, .addNode, .addNode, .addNode, .addNodeFromEdges [(1, 7)]]).2
        = [.ix 0, .ix 1, .ix 2, .ix 3, .panic] ∧
     (lspecRun 4 {} [.addNode, .addNode, .addNode, .addNode, .addNodeFromEdges [(1, 7)]]).2
        = [.ix 0, .ix 1, .ix 2, .ix 3, .panic] ∧
     (AdjM.run (AdjM.new 4) [.addNode, .addNode, .addNode, .addNode, .addNode]).2
        = [.ix 0, .ix 1, .ix 2, .ix 3, .panic] ∧
     (AdjM.run (AdjM.new 4) [.addNode, .addNode, .addNode, .addNode, .addNodeFromEdges [(1, 7)]]).1
        = (AdjM.run (AdjM.new 4) [.addNode, .addNode, .addNode, .addNode]).1 ∧
     (lspecRun 4 {} [.addNode, .addNode, .addNode, .addNode, .addNodeFromEdges [(1, 7)]]).1
        = (lspecRun 4 {} [.addNode, .addNode, .addNode, .addNode]).1 ∧
     (AdjM.run (AdjM.new 4) [.addNode, .addNode, .addNode, .addNode, .addNodeFromEdges [(1, 7)]]).1.nodeCount = 4 ∧
     AdjM.nodeIndices (AdjM.run (AdjM.new 4) [.addNode, .addNode, .addNode, .addNode, .addNodeFromEdges [(1, 7)]]).1
        = [0, 1, 2, 3] ∧
     AdjM.edgeReferences (AdjM.run (AdjM.new 4) [.addNode, .addNode, .addNode, .addNode, .addNodeFromEdges [(1, 7)]]).1
        = [] ∧
     (AdjM.run (AdjM.new 4) [.addNode, .addNode, .addNode, .addNode, .addNodeFromEdges [(1, 7)], .addEdge 0 2 9]).1.suc
        = [[(2, 9)], [], [], []]) := by
  decide

/-! non-vacuity of the iteration theorem: parallel edges, an update, interleaved sources -/
example : LFits 256 0 [.addNode, .addNode, .addEdge 1 0 5, .addEdge 0 1 6, .addEdge 1 0 7, .updateEdge 0 1 9] := by
  simp [AdjProofs.Fits]
example : AdjM.edgeReferences (AdjM.run (AdjM.new 256)
      [.addNode, .addNode, .addEdge 1 0 5, .addEdge 0 1 6, .addEdge 1 0 7, .updateEdge 0 1 9]).1
    = [(0, 0, 1, 9), (1, 0, 0, 5), (1, 1, 0, 7)] := by decide
example : (lspecRun 256 {} [.addNode, .addNode, .addEdge 1 0 5, .addEdge 0 1 6, .addEdge 1 0 7, .updateEdge 0 1 9]).1.edges.map lrefOf
    = [(1, 0, 0, 5), (0, 0, 1, 9), (1, 1, 0, 7)] := by decide

/-! ### run-time checks of the hypotheses (adj::List) -/

/-- `LAbs` — the hypothesis of `C05_list_readers`, `C05_list_refines_step`, `C05_list_parallel_kept`,
`C05_list_edge_count`, `C05_list_iteration*`, `C05_list_edges_of`, … — from the executable check the driver evaluates
after every constructor / mutating line of a `List` case (`hcap` of `C05_list_iteration` is `C05_cap_check`). -/
theorem C05_list_scope_check (s : AdjM.State) (g : ML) (h : C05Scope.listScopeB s g = true) : LAbs s g :=
  AdjProofs.listScope_check s g h

example : C05Scope.listScopeB
    (AdjM.run (AdjM.new 256) [.addNode, .addNode, .addEdge 1 0 5, .addEdge 0 1 6, .addEdge 1 0 7, .updateEdge 0 1 9]).1
    (lspecRun 256 {} [.addNode, .addNode, .addEdge 1 0 5, .addEdge 0 1 6, .addEdge 1 0 7, .updateEdge 0 1 9]).1 = true := by
  decide
example : C05Scope.listScopeB (AdjM.run (AdjM.new 256) [.addNode, .addNode, .addEdge 1 0 5]).1
    (lspecRun 256 {} [.addNode, .addNode, .addEdge 0 1 5]).1 = false := by decide

end AdjList

/-! ### `law …` lines (wave 6): only `ok` passes

The laws themselves (the `Iterator` / `DoubleEndedIterator` / `ExactSizeIterator` contract on every iterator of csr.rs and
adj.rs, the visit-trait views against the inherent readers, `VisitMap` / `reset_map`, `clone_from` ≡ `clone`,
`Default` ≡ `new`, `Debug` never panics) are evaluated by the harness on the real values; what the driver contributes is
that no answer but `ok` is accepted. -/

/-- the driver's verdict on a `law` line is `ok` exactly when the harness answered `ok` (so a `VIOLATED …` answer, a
panic text or anything unreadable is a `SPECFAIL`) -/
theorem C05_law_verdict_ok_iff (name : List String) (impl : String) :
    C05Scope.lawVerdict name impl = "ok" ↔ impl = "ok" := by
  unfold C05Scope.lawVerdict
  by_cases h : impl = "ok"
  · simp [h]
  · have hb : (impl == "ok") = false := by simpa using h
    rw [hb]
    simp only [Bool.false_eq_true, if_false, h, iff_false]
    intro hc
    have := congrArg String.length hc
    rw [String.length_append, String.length_append, String.length_append] at this
    have h1 : "SPECFAIL law [".length = 14 := by decide
    have h2 : "ok".length = 2 := by decide
    omega

example : C05Scope.lawVerdict ["iter", "csr.edges"] "ok" = "ok" := by decide
example : C05Scope.lawVerdict ["iter", "csr.edges"] "VIOLATED nth(1) = Some((0, 0, 2, 5)), stepping with next gives Some((1, 0, 2, 5))"
    ≠ "ok" := by decide

end PetgraphModel.C05T
