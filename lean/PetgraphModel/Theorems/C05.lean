import PetgraphModel.Model.Csr
import PetgraphModel.Model.AdjList
import PetgraphModel.Spec.AppendOnly
import PetgraphModel.Proofs.CsrCanon
import PetgraphModel.Proofs.CsrFromSorted
import PetgraphModel.Proofs.CsrIter
import PetgraphModel.Proofs.AdjList
import PetgraphModel.Proofs.C05W3Csr
import PetgraphModel.Proofs.C05W3List
/-
C05 — `Csr` and `adj::List`, the append-only graphs, report exactly what was inserted.

Only property theorems live here; helper lemmas are in `Proofs/Csr*.lean` and `Proofs/AdjList.lean`.
Every theorem is about the mirror models `CsrM` / `AdjM` (tied to `/repo/src/csr.rs`, `/repo/src/adj.rs` by
the exact correspondence run of `./check C05`) and the abstract specifications `AppendSpec.SG` (a finite
map from node pairs to weights) / `AppendSpec.ML` (the insertion log).  All statements quantify over the
binary-search cut-off, the index width, the edge type and `debug`.

**The capacity of the index type (finding D31, repaired by /repo commit 8cab180).**  `modulus` is the number of
values of the node index type (256 for `u8`, 65536 for `u16`, …; `modulus = 0` models `usize` = no bound).  Up to
that commit `Csr::add_node` and `adj::List::add_node` / `add_node_with_capacity` / `add_node_from_edges` returned
`Ix::new(i)` = `i as u8`, which silently WRAPPED: the 257th node of a `Csr<_, _, _, u8>` was reported as index 0, a
node that already existed, and the refinement theorems of this file had to exclude such histories by a hypothesis
(`Fits` / `LFits` / `hfit`).  The repaired code asserts `i <= Ix::max().index()` before the first write: at the
capacity the call is the *documented panic* and the structure is unchanged.  The models (`CsrM.addNode`,
`AdjM.nextNodeIndex`) and the specifications (`AppendSpec.full`, `SG.addNodeCap`, `ML.addNodeCap`,
`ML.addNodeFromCap`; the spec machines take the capacity as a parameter) follow, and the refinement theorems now
hold for EVERY history, without those hypotheses.  `C05_csr_add_node_capacity`, `C05_list_add_node_capacity`
(general form), `C05_csr_no_wrap_all_histories`, `C05_list_no_wrap_all_histories` (no returned index ever wraps)
and `C05_D31_witness_repaired_csr`, `C05_D31_witness_repaired_list` (the old counterexample histories) record it.
-/
namespace PetgraphModel.C05T
open PetgraphModel PetgraphModel.AppendSpec

/-! ## Csr -/
section Csr
open PetgraphModel.CsrM PetgraphModel.CsrProofs

/-- strictly ascending -/
abbrev Asc := CsrProofs.Asc
/-- representation invariant: the flat vectors `column`/`edges`/`row` are the rows `R` laid out one after
the other (`row` = the running offsets), every row strictly ascending with entries `< node_count`,
`Undirected` ⇒ symmetric edge map, `Directed` ⇒ the `edge_count` field is never touched. -/
abbrev Good := CsrProofs.Good
abbrev Inv (s : State) : Prop := ∃ R, Good s R
/-- `s` (with rows `R`) represents the abstract simple graph `g`: same node weights, same edge map
(`look R a b = g.lookup a b` for all `a b`), `edge_count()` = number of abstract edges -/
abbrev Abs := CsrProofs.Abs
abbrev specStep := CsrProofs.specStep
abbrev specRun := CsrProofs.specRun
/-- `Fits m n ops`: starting from `n` nodes, no `add_node` in `ops` is issued when the node count has already
reached the capacity `m` of the index type (`m = 0`: unbounded), i.e. the history never runs into the capacity
panic of `add_node`.  No theorem of this file needs it any more (before the repair of finding D31 the refinement
theorems did); it is kept for the C06 theorems that still state it. -/
abbrev Fits := CsrProofs.Fits
abbrev SGEquiv := CsrProofs.SGEquiv
abbrev SameParams := CsrProofs.SameParams

/-- **both search branches agree**: on every strictly ascending slice the binary-search branch and the
linear branch of `find_edge_pos` return the same `Ok(pos)` / `Err(insertion point)` — so the value of
`BINARY_SEARCH_CUTOFF` cannot matter. -/
theorem C05_find_pos (c1 c2 : Nat) (xs : List Nat) (b : Nat) (h : Asc xs) :
    searchPos c1 xs b = searchPos c2 xs b ∧ searchPos c1 xs b = linearPos b xs 0 ∧
    binaryPos xs b (xs.length + 1) 0 xs.length = linearPos b xs 0 := by
  refine ⟨by rw [searchPos_eq_linear c1 xs b h, searchPos_eq_linear c2 xs b h], searchPos_eq_linear c1 xs b h, ?_⟩
  have := searchPos_eq_linear 0 xs b h
  simpa [searchPos] using this

/-- the search meets the documented contract of `slice::binary_search` on a strictly ascending slice:
`Ok(i)` ⇒ `xs[i] = b`; `Err(i)` ⇒ `b` does not occur and inserting at `i` keeps the slice strictly ascending. -/
theorem C05_find_pos_contract (c : Nat) (xs : List Nat) (b : Nat) (h : Asc xs) :
    match searchPos c xs b with
    | .found i => xs[i]? = some b
    | .absent i => b ∉ xs ∧ i ≤ xs.length ∧ Asc (xs.insertIdx i b) := by
  rw [searchPos_eq_linear c xs b h, linearPos_eq]
  by_cases hf : xs[lb b xs]? = some b
  · simp only [hf, if_true, Nat.zero_add]
  · simp only [hf, if_false, Nat.zero_add]
    have hnot : b ∉ xs := fun hm => hf ((mem_iff_lb xs b h).mpr hm)
    refine ⟨hnot, lb_le b xs, ?_⟩
    -- reuse the row-level lemma with dummy weights
    let r : CsrProofs.Row := xs.map fun x => (x, (0 : Int))
    have hk : keys r = xs := by simp [r, keys, Function.comp_def]
    have h1 := asc_insRow b 0 r (by rw [hk]; exact h) (by rw [hk]; exact hnot)
    rw [← insertIdx_lb, hk] at h1
    have h2 : keys (r.insertIdx (lb b xs) (b, 0)) = (keys r).insertIdx (lb b xs) b := by
      unfold keys; rw [map_insertIdx']
    rw [h2, hk] at h1
    exact h1

/-- `Csr::new()` and `Csr::with_nodes(n)` establish the invariant and represent the edgeless graph. -/
theorem C05_csr_inv_init (d : Bool) (m c : Nat) (dbg : Bool) (n : Nat) :
    Inv (new d m c dbg) ∧ Inv (withNodes d m c dbg n) ∧
    Abs (withNodes d m c dbg n) (List.replicate n []) { directed := d, nodes := List.replicate n 0, edges := [] } := by
  refine ⟨⟨_, good_new d m c dbg⟩, ⟨_, good_withNodes d m c dbg n⟩, ⟨rfl, rfl, ?_, ?_⟩⟩
  · intro a b; rw [look_replicate_nil]; rfl
  · unfold State.edgeCountQ withNodes SG.edgeCount; cases d <;> rfl

/-- every mutating public call, with arbitrary (valid or invalid) arguments, preserves the invariant. -/
theorem C05_csr_inv_step (s : State) (op : Op) (h : Inv s) : Inv (step s op).1 := by
  obtain ⟨R, good⟩ := h
  cases op with
  | addNode w =>
    by_cases hfit : s.modulus = 0 ∨ R.length < s.modulus
    · obtain ⟨s', e, good', _⟩ := good.addNode w hfit
      exact ⟨_, by simpa [step, e] using good'⟩
    · exact ⟨R, by simpa [step, good.addNode_full w hfit] using good⟩
  | clearEdges => exact ⟨_, good.clearEdges⟩
  | setWeight a w =>
    by_cases ha : a < R.length
    · obtain ⟨s', e, good', _⟩ := good.setWeight a w ha
      exact ⟨_, by simpa [step, e] using good'⟩
    · exact ⟨R, by simpa [step, good.setWeight_oob a w ha] using good⟩
  | tryAddEdge a b w =>
    by_cases hr : a < R.length ∧ b < R.length
    · by_cases hp : look R a b = none
      · obtain ⟨s', R', e, good', _⟩ := good.tryAddEdge_absent a b w hr.1 hr.2 hp
        exact ⟨R', by simpa [step, e] using good'⟩
      · exact ⟨R, by simpa [step, good.tryAddEdge_present a b w hr.1 hr.2 hp] using good⟩
    · exact ⟨R, by simpa [step, good.tryAddEdge_oob a b w hr] using good⟩
  | addEdge a b w =>
    by_cases hr : a < R.length ∧ b < R.length
    · by_cases hp : look R a b = none
      · obtain ⟨s', R', e, good', _⟩ := good.tryAddEdge_absent a b w hr.1 hr.2 hp
        exact ⟨R', by simpa [step, CsrM.addEdge, e] using good'⟩
      · exact ⟨R, by simpa [step, CsrM.addEdge, good.tryAddEdge_present a b w hr.1 hr.2 hp] using good⟩
    · exact ⟨R, by simpa [step, CsrM.addEdge, good.tryAddEdge_oob a b w hr] using good⟩

/-- the invariant in the terms of `csr.rs`: `row` has `node_count + 1` nondecreasing entries from `0` to
`column.len()`, `edges` in lock step with `column`, every row slice strictly ascending with entries
`< node_count`, `Undirected` ⇒ `contains_edge` symmetric (the edge is in both rows). -/
theorem C05_csr_inv_elementary (s : State) (h : Inv s) :
    s.row.length = s.nodeCount + 1 ∧ s.nodeWeights.length = s.nodeCount ∧
    s.row.Pairwise (· ≤ ·) ∧ s.row[0]? = some 0 ∧ s.row[s.nodeCount]? = some s.column.length ∧
    s.edges.length = s.column.length ∧
    (∀ a, a < s.nodeCount → ∃ nb, neighborsSlice s a = some nb ∧ nb.Pairwise (· < ·) ∧ ∀ x ∈ nb, x < s.nodeCount) ∧
    (s.directed = false → ∀ a b, a < s.nodeCount → b < s.nodeCount → containsEdge s a b = containsEdge s b a) ∧
    (s.directed = true → s.edgeCount = 0) := by
  obtain ⟨R, good⟩ := h
  exact good.elementary

/-- **`add_edge` on an existing edge returns `false` and changes nothing** (both entry points, any row
length, either search branch). -/
theorem C05_csr_existing_edge (s : State) (h : Inv s) (a b : Nat) (w : Int)
    (hc : containsEdge s a b = some true) (ha : a < s.nodeCount) (hb : b < s.nodeCount) :
    step s (.tryAddEdge a b w) = (s, .res (.ok false)) ∧ step s (.addEdge a b w) = (s, .bool false) := by
  obtain ⟨R, good⟩ := h
  rw [good.rep.nodeCount] at ha hb
  have hp : look R a b ≠ none := by
    intro hn
    have hnin := (look_none_iff R a b ha).mp hn
    simp [containsEdge, good.rep.findEdgePos_lt good.ok a b ha, hnin, Pos.isFound] at hc
  have e := good.tryAddEdge_present a b w ha hb hp
  exact ⟨by simp [step, e], by simp [step, CsrM.addEdge, e]⟩

/-- **out-of-range endpoints**: `try_add_edge` answers `Err(IndicesOutBounds(a, b))`, `add_edge` panics
(the documented panic), and the structure is unchanged. -/
theorem C05_csr_out_of_range (s : State) (h : Inv s) (a b : Nat) (w : Int)
    (hr : ¬ (a < s.nodeCount ∧ b < s.nodeCount)) :
    step s (.tryAddEdge a b w) = (s, .res (.error (a, b))) ∧ step s (.addEdge a b w) = (s, .panic) := by
  obtain ⟨R, good⟩ := h
  rw [good.rep.nodeCount] at hr
  have e := good.tryAddEdge_oob a b w hr
  exact ⟨by simp [step, e], by simp [step, CsrM.addEdge, e]⟩

/-- no valid call panics: under the invariant `clear_edges`, `add_node` below the capacity of the index type, and
`add_edge`/`try_add_edge`/`IndexMut` with in-range arguments never hit an index, slice or `Vec::insert` panic nor
the `debug_assert_eq!` of `try_add_edge` (in debug or release).  (`add_node` AT the capacity is the documented
panic of commit 8cab180 — `C05_csr_add_node_capacity`; before that commit it did not panic but wrapped, D31.) -/
theorem C05_csr_no_panic (s : State) (h : Inv s) (op : Op)
    (hv : match op with
      | .addEdge a b _ | .tryAddEdge a b _ => a < s.nodeCount ∧ b < s.nodeCount
      | .setWeight a _ => a < s.nodeCount
      | .addNode _ => s.modulus = 0 ∨ s.nodeCount < s.modulus
      | _ => True) : (step s op).2 ≠ .panic := by
  obtain ⟨R, good⟩ := h
  rw [good.rep.nodeCount] at hv
  cases op with
  | addNode w => obtain ⟨s', e, _⟩ := good.addNode w hv; simp [step, e]
  | clearEdges => simp [step]
  | setWeight a w => obtain ⟨s', e, _⟩ := good.setWeight a w hv; simp [step, e]
  | tryAddEdge a b w =>
    by_cases hp : look R a b = none
    · obtain ⟨s', R', e, _⟩ := good.tryAddEdge_absent a b w hv.1 hv.2 hp; simp [step, e]
    · simp [step, good.tryAddEdge_present a b w hv.1 hv.2 hp]
  | addEdge a b w =>
    by_cases hp : look R a b = none
    · obtain ⟨s', R', e, _⟩ := good.tryAddEdge_absent a b w hv.1 hv.2 hp; simp [step, CsrM.addEdge, e]
    · simp [step, CsrM.addEdge, good.tryAddEdge_present a b w hv.1 hv.2 hp]

/-- **refinement, one call**: invariant and abstraction are preserved and the answer is the one the
abstract simple graph prescribes (`true`/`false`/`Err`/panic, the new node's index) — for EVERY call, including
`add_node` at the capacity of the index type, where specification and model agree on "documented panic,
nothing changes".  (The hypothesis `hfit` that excluded that call before the repair of D31 is gone.) -/
theorem C05_csr_refines_step (s : State) (R : List CsrProofs.Row) (g : SG) (good : Good s R) (abs : Abs s R g)
    (op : Op) :
    ∃ R', Good (step s op).1 R' ∧ Abs (step s op).1 R' (specStep s.modulus g op).1 ∧
      (step s op).2 = (specStep s.modulus g op).2 := by
  obtain ⟨R', h1, h2, h3, _⟩ := step_refines good abs op
  exact ⟨R', h1, h2, h3⟩

/-- **refinement, all histories**: after ANY sequence of `add_node`/`add_edge`/`try_add_edge`/`clear_edges`/
`IndexMut` calls (valid or not, within the capacity of the index type or running into it) on `with_nodes(n)`
(`new()` is `n = 0`), directed or undirected, any index width and cut-off: the invariant holds, the state
represents exactly the abstract graph the same calls build, and every answer along the way was the specified one.
(The hypothesis `Fits m n ops` that restricted the histories before the repair of D31 is gone.) -/
theorem C05_csr_all_histories (d : Bool) (m c : Nat) (dbg : Bool) (n : Nat) (ops : List Op) :
    let s := (run (withNodes d m c dbg n) ops).1
    let g0 : SG := { directed := d, nodes := List.replicate n 0, edges := [] }
    ∃ R, Good s R ∧ Abs s R (specRun m g0 ops).1 ∧ (run (withNodes d m c dbg n) ops).2 = (specRun m g0 ops).2 := by
  have h0 := C05_csr_inv_init d m c dbg n
  obtain ⟨R, h1, h2, h3, _⟩ := run_refines (good_withNodes d m c dbg n) h0.2.2 ops
  exact ⟨R, h1, h2, h3⟩

/-- **the readers report exactly the abstract graph**: `neighbors_slice`/`edges_slice` are the ascending
successor list with its weights, `out_degree` its length, `contains_edge` membership, `edge_count` the number
of edges, `Index` the node weight; at `a = node_count` they answer "empty", beyond that they panic.

**Remark R-C05-1.**  The clause for `a = g.n` (= `node_count`) ADOPTS THE IMPLEMENTATION'S BEHAVIOUR, not the
documentation's: `neighbors_slice`, `edges_slice`, `out_degree`, `contains_edge` (and `edges`, see
`C05_csr_edges_iter`) are all documented "**Panics** if the node `a` does not exist", and node `node_count`
does not exist — yet `neighbors_range` reads `row[a]` (present: `row` has `node_count + 1` entries) and
`row.get(a + 1)` (`None` → `column.len()`), so the call returns the empty answer without panicking.  The
theorem records what the code does (`some []` / `some 0` / `some false`); it is *not* evidence that the
documented panic happens.  The documented panic is only proved for `a > node_count` (third clause). -/
theorem C05_csr_readers (s : State) (R : List CsrProofs.Row) (g : SG) (good : Good s R) (abs : Abs s R g) (a : Nat) :
    (a < g.n →
      neighborsSlice s a = some ((g.succ a).map (·.1)) ∧
      edgesSlice s a = some ((g.succ a).map (·.2)) ∧
      outDegree s a = some (g.succ a).length ∧
      (∀ b, containsEdge s a b = some (g.has a b)) ∧
      index s a = g.nodes[a]?) ∧
    (a = g.n → neighborsSlice s a = some [] ∧ edgesSlice s a = some [] ∧ outDegree s a = some 0 ∧
      ∀ b, containsEdge s a b = some false) ∧
    (g.n < a → neighborsSlice s a = none ∧ edgesSlice s a = none ∧ outDegree s a = none ∧
      ∀ b, containsEdge s a b = none) ∧
    s.edgeCountQ = g.edgeCount ∧ s.nodeCount = g.n :=
  readers good abs a

/-- **`edges(a)`** yields, for an existing node, exactly `(a, target, weight)` for the specified successors, in
ascending target order, with the consecutive edge ids `row[a], row[a]+1, …`; empty at `a = node_count`
(implementation behaviour, not the documented panic — remark R-C05-1 at `C05_csr_readers`), panic beyond. -/
theorem C05_csr_edges_iter (s : State) (R : List CsrProofs.Row) (g : SG) (good : Good s R) (abs : Abs s R g) (a : Nat) :
    (a < g.n → ∃ refs, edgesOf s a = some refs ∧
      refs.map (fun e => (e.2.1, e.2.2.1, e.2.2.2)) = (g.succ a).map (fun x => (a, x.1, x.2)) ∧
      refs.map (·.1) = (List.range (g.succ a).length).map (· + start R a)) ∧
    (a = g.n → edgesOf s a = some []) ∧ (g.n < a → edgesOf s a = none) :=
  edgesOf_spec good abs a

/-- **`edge_references()`** never panics under the invariant and yields every stored entry once, row by row
(`allTriples`: source `Ix::new(row index)`, then the row's `(target, weight)` in ascending order), with the ids
`0, 1, …, column.len() - 1`; each row `a` is the specified successor list `g.succ a`.  (For `Undirected` every
non-loop edge is stored in two rows and therefore yielded twice — finding D7, which belongs to C06.) -/
theorem C05_csr_edge_references (s : State) (R : List CsrProofs.Row) (g : SG) (good : Good s R) (abs : Abs s R g) :
    ∃ refs, edgeReferences s = some refs ∧
      refs.map (fun e => (e.2.1, e.2.2.1, e.2.2.2)) = allTriples s.modulus 0 R ∧
      refs.map (·.1) = List.range' 0 s.column.length ∧
      R.length = g.n ∧ ∀ a (h : a < R.length), R[a] = g.succ a := by
  refine ⟨_, good.rep.edgeReferences, (allRefs_proj _ 0 0 R).1, ?_, (Abs.n good abs).symm,
    fun a h => Abs.row_eq_succ good abs a h⟩
  rw [(allRefs_proj _ 0 0 R).2, good.rep.column_length]

/-- the representation is canonical: two `Csr` values (same type parameters) that represent abstract graphs
with the same node weights, edge map and edge count are *equal*, vector for vector. -/
theorem C05_csr_canonical (s1 s2 : State) (R1 R2 : List CsrProofs.Row) (g1 g2 : SG)
    (good1 : Good s1 R1) (good2 : Good s2 R2) (abs1 : Abs s1 R1 g1) (abs2 : Abs s2 R2 g2)
    (sp : SameParams s1 s2) (hg : SGEquiv g1 g2) : s1 = s2 :=
  canonical good1 good2 abs1 abs2 sp hg

/-- **insertion-order independence**: two call histories from the same start after which the specification
holds the same abstract graph (the order of its edge list is not compared) leave the same `Csr` value.
(Any two histories: the `Fits` hypotheses that were needed before the repair of D31 are gone.) -/
theorem C05_csr_order_independent (d : Bool) (m c : Nat) (dbg : Bool) (n : Nat) (ops1 ops2 : List Op)
    (heq : SGEquiv (specRun m { directed := d, nodes := List.replicate n 0, edges := [] } ops1).1
                   (specRun m { directed := d, nodes := List.replicate n 0, edges := [] } ops2).1) :
    (run (withNodes d m c dbg n) ops1).1 = (run (withNodes d m c dbg n) ops2).1 := by
  have h0 := C05_csr_inv_init d m c dbg n
  exact order_independent (good_withNodes d m c dbg n) h0.2.2 ops1 ops2 heq

/-- **`from_sorted_edges` succeeds exactly on strictly sorted, duplicate-free input** (lexicographic order on
`(source, target)`; in-range is automatic because the node count is the largest endpoint + 1). -/
theorem C05_from_sorted_ok_iff (m c : Nat) (dbg : Bool) (es : List Edge) :
    (∃ s, fromSortedEdges m c dbg es = .ok s) ↔ strictlySorted es = true :=
  fromSorted_ok_iff m c dbg es

/-- **… and then equals the graph built edge by edge**: the result is, vector for vector, the `Csr` obtained
from `with_nodes(max endpoint + 1)` by `add_edge`-ing the edges one at a time; it satisfies the invariant and
represents the abstract graph `SG.ofEdges` (so every reader answers accordingly, `C05_csr_readers`). -/
theorem C05_from_sorted_equals_fold (m c : Nat) (dbg : Bool) (es : List Edge) (s : State)
    (h : fromSortedEdges m c dbg es = .ok s) :
    s = (run (withNodes true m c dbg (fsNodes es)) (addOps es)).1 ∧ Inv s ∧
    ∃ R, Good s R ∧ Abs s R (SG.ofEdges true (fsNodes es) es) := by
  have hs : CsrProofs.Sorted es := (strictlySorted_iff es).mp ((fromSorted_ok_iff m c dbg es).mp ⟨s, h⟩)
  obtain ⟨s', e', good, _, _⟩ := fromSorted_good m c dbg es hs
  rw [h] at e'; injection e' with e'; subst e'
  obtain ⟨h1, h2⟩ := fromSorted_eq_fold m c dbg es s h
  exact ⟨h1, ⟨_, good⟩, _, good, h2⟩

/-- the order matters to `from_sorted_edges` only: the same edges in a wrong order are rejected, while
`add_edge` accepts them in any order and ends in the same value (`C05_csr_order_independent`). -/
example : (fromSortedEdges 0 32 true [(0, 1, 5), (0, 2, 6), (2, 0, 7)]).toOption.map (·.column) = some [1, 2, 0] := by decide
example : (fromSortedEdges 0 32 true [(0, 2, 6), (0, 1, 5), (2, 0, 7)]).toOption = none := by decide
example : (fromSortedEdges 0 32 true [(0, 1, 5), (0, 1, 6)]).toOption = none := by decide

/-! non-vacuity: a concrete undirected history through a 3-node graph, inserted in two different orders -/
example : Fits 256 3 [.addEdge 0 2 5, .tryAddEdge 2 1 7, .addEdge 0 2 9, .tryAddEdge 1 3 1, .addNode 4] := by
  simp [CsrProofs.Fits, CsrProofs.nodesAfter]
example : (run (withNodes false 256 32 true 3) [.addEdge 0 2 5, .tryAddEdge 2 1 7, .addEdge 0 2 9, .tryAddEdge 1 3 1]).1.column
    = [2, 2, 0, 1] := by decide
example : (run (withNodes false 256 32 true 3) [.tryAddEdge 1 2 7, .addEdge 2 0 5]).1
    = (run (withNodes false 256 32 true 3) [.addEdge 0 2 5, .tryAddEdge 2 1 7, .addEdge 0 2 9, .tryAddEdge 1 3 1]).1 := by decide

/-! ### wave 3: node readers, capacity of the index type (finding D31, repaired) -/

/-- **`node_identifiers()` / `node_references()` / `IntoNeighbors::neighbors`**: within the capacity of the index
type (`hcap`: it holds in every state reachable from `with_nodes(n)`, `n ≤ modulus` —
`C05_csr_node_readers_all_histories`; `with_nodes` itself does not check it) `node_identifiers()` yields
`0, 1, …, n-1`, `node_references()` pairs each index with the specified node weight, and `neighbors(a)` (which is
`neighbors_slice(a).iter()`) yields the specified successors of an existing node in ascending order. -/
theorem C05_csr_node_readers (s : State) (R : List CsrProofs.Row) (g : SG) (good : Good s R) (abs : Abs s R g)
    (hcap : s.modulus = 0 ∨ g.n ≤ s.modulus) :
    nodeIdentifiers s = List.range g.n ∧ nodeReferences s = (List.range g.n).zip g.nodes ∧
    ∀ a, a < g.n → neighborsSlice s a = some ((g.succ a).map (·.1)) :=
  ⟨(node_readers good abs hcap).1, (node_readers good abs hcap).2, fun a ha => ((readers good abs a).1 ha).1⟩

/-- … without the capacity assumption: each position is passed through `Ix::new` (`mkIx`), so beyond the capacity
(reachable only through `with_nodes(n)` with `n > modulus`) the same identifier is yielded for several nodes. -/
theorem C05_csr_node_readers_raw (s : State) (R : List CsrProofs.Row) (g : SG) (good : Good s R) (abs : Abs s R g) :
    nodeIdentifiers s = (List.range g.n).map (mkIx s.modulus) ∧
    nodeReferences s = ((List.range g.n).map (mkIx s.modulus)).zip g.nodes :=
  node_readers_raw good abs

/-- **node readers, all histories**: after ANY history from `with_nodes(n)` with `n` within the capacity of the
index type (`hn`; the `Fits` hypothesis that was needed before the repair of D31 is gone) the node readers report
exactly the nodes of the abstract graph the same calls build. -/
theorem C05_csr_node_readers_all_histories (d : Bool) (m c : Nat) (dbg : Bool) (n : Nat) (ops : List Op)
    (hn : m = 0 ∨ n ≤ m) :
    let s := (run (withNodes d m c dbg n) ops).1
    let g := (specRun m { directed := d, nodes := List.replicate n 0, edges := [] } ops).1
    nodeIdentifiers s = List.range g.n ∧ nodeReferences s = (List.range g.n).zip g.nodes ∧
    s.nodeCount = g.n ∧
    ∀ a, a < g.n → neighborsSlice s a = some ((g.succ a).map (·.1)) :=
  run_node_readers d m c dbg n ops hn

/-- EVERY history that starts within the capacity of the index type ends within it: `add_node` panics rather than
exceed it.  (Before the repair of D31 this needed `Fits m g.n ops`.) -/
theorem C05_csr_fits_capacity (m : Nat) (ops : List Op) (g : SG) (hc : m = 0 ∨ g.n ≤ m) :
    m = 0 ∨ (specRun m g ops).1.n ≤ m :=
  CsrProofs.run_cap m ops g hc

/-- **finding D31 repaired, general form — `add_node` and the capacity of the index type**, in every valid `Csr`
state.  At the capacity (`modulus ≠ 0`, `modulus ≤ node_count`; for `u8`: 256 nodes) `add_node` is the documented
panic (`none`) and the state is unchanged; below the capacity it succeeds, returns the FRESH index `node_count` —
which is `< modulus`, so it fits the index type and `Ix::new` does not alter it — the invariant is kept, there is
one node more and its weight is the given one. -/
theorem C05_csr_add_node_capacity (s : State) (h : Inv s) (w : Int) :
    (s.modulus ≠ 0 ∧ s.modulus ≤ s.nodeCount →
      addNode s w = none ∧ step s (.addNode w) = (s, .panic)) ∧
    (s.modulus = 0 ∨ s.nodeCount < s.modulus →
      ∃ s', addNode s w = some (s', s.nodeCount) ∧ step s (.addNode w) = (s', .ix s.nodeCount) ∧
        Inv s' ∧ s'.nodeCount = s.nodeCount + 1 ∧ s'.nodeWeights = s.nodeWeights ++ [w] ∧
        mkIx s.modulus s.nodeCount = s.nodeCount) := by
  obtain ⟨R, good⟩ := h
  obtain ⟨h1, h2⟩ := addNode_capacity good w
  refine ⟨fun hc => h1 (by omega), fun hf => ?_⟩
  obtain ⟨s', e1, e2, good', rest⟩ := h2 hf
  exact ⟨s', e1, e2, ⟨_, good'⟩, rest⟩

/-- … and against the specification: at the capacity model and abstract graph both answer "panic" and both stay
as they are; below it both answer the fresh index `g.n`. -/
theorem C05_csr_add_node_capacity_spec (s : State) (R : List CsrProofs.Row) (g : SG) (good : Good s R)
    (abs : Abs s R g) (w : Int) :
    (s.modulus ≠ 0 ∧ s.modulus ≤ g.n →
      step s (.addNode w) = (s, .panic) ∧ specStep s.modulus g (.addNode w) = (g, .panic)) ∧
    (s.modulus = 0 ∨ g.n < s.modulus →
      (step s (.addNode w)).2 = .ix g.n ∧ (specStep s.modulus g (.addNode w)).2 = .ix g.n ∧
      (specStep s.modulus g (.addNode w)).1.n = g.n + 1) := by
  have hn : s.nodeCount = g.n := (readers good abs 0).2.2.2.2
  obtain ⟨h1, h2⟩ := addNode_capacity good w
  rw [hn] at h1 h2
  refine ⟨fun hc => ?_, fun hf => ?_⟩
  · have hfull : ¬ (s.modulus = 0 ∨ g.n < s.modulus) := by omega
    exact ⟨(h1 hfull).2, by simp [CsrProofs.specStep, SG.addNodeCap_full s.modulus g w hfull]⟩
  · obtain ⟨s', _, e2, _⟩ := h2 hf
    refine ⟨by rw [e2], by simp [CsrProofs.specStep, SG.addNodeCap_fit s.modulus g w hf, SG.addNode], ?_⟩
    simp [CsrProofs.specStep, SG.addNodeCap_fit s.modulus g w hf, SG.addNode, SG.n]

/-- the node index an answer carries, if it is one (`Out` has no decidable equality) -/
abbrev outIx := CsrProofs.outIx

/-- **no wrap in any history**: along EVERY history from `with_nodes(n)` with `n` within the capacity of the index
type, the node count never exceeds the capacity and every index an `add_node` call returns fits the index type
(`i < modulus`: `Ix::new(i)` is `i`) and is at least `n` (it is the node count at the time of the call — never the
index of a node that existed at the start, let alone one that exists at the time of the call). -/
theorem C05_csr_no_wrap_all_histories (d : Bool) (m c : Nat) (dbg : Bool) (n : Nat) (ops : List Op)
    (hn : m = 0 ∨ n ≤ m) :
    (m = 0 ∨ (run (withNodes d m c dbg n) ops).1.nodeCount ≤ m) ∧
    ∀ i, some i ∈ (run (withNodes d m c dbg n) ops).2.map outIx → (m = 0 ∨ i < m) ∧ n ≤ i := by
  have := run_no_wrap (good_withNodes d m c dbg n) (by simpa [withNodes] using hn) ops
  simpa [withNodes] using this

/-- **finding D31, the old witness, repaired** (a 2-bit index type, `modulus = 4`; the `u8` case is the instance
`modulus = 256` of `C05_csr_add_node_capacity`): five `add_node` calls on `Csr::new()` used to answer
`0, 1, 2, 3, 0` (the fifth node reported as the live index 0).  Now the model answers `0, 1, 2, 3, panic` exactly as
the specification does, and the fifth call changes nothing: the state after five calls IS the state after four,
`node_count() = 4`, `node_identifiers()` is duplicate-free, `node_references()` still has the four weights and
`Index[0]` is the first node. -/
theorem C05_D31_witness_repaired_csr :
    ((run (new true 4 32 true) [.addNode 10, .addNode 11, .addNode 12, .addNode 13, .addNode 14]).2.map outIx
        = [some 0, some 1, some 2, some 3, none] ∧
     (run (new true 4 32 true) [.addNode 10, .addNode 11, .addNode 12, .addNode 13, .addNode 14]).2.map CsrProofs.outPanic
        = [false, false, false, false, true] ∧
     (specRun 4 {} [.addNode 10, .addNode 11, .addNode 12, .addNode 13, .addNode 14]).2.map outIx
        = [some 0, some 1, some 2, some 3, none] ∧
     (specRun 4 {} [.addNode 10, .addNode 11, .addNode 12, .addNode 13, .addNode 14]).2.map CsrProofs.outPanic
        = [false, false, false, false, true] ∧
     (run (new true 4 32 true) [.addNode 10, .addNode 11, .addNode 12, .addNode 13, .addNode 14]).1
        = (run (new true 4 32 true) [.addNode 10, .addNode 11, .addNode 12, .addNode 13]).1 ∧
     (specRun 4 {} [.addNode 10, .addNode 11, .addNode 12, .addNode 13, .addNode 14]).1
        = (specRun 4 {} [.addNode 10, .addNode 11, .addNode 12, .addNode 13]).1 ∧
     (run (new true 4 32 true) [.addNode 10, .addNode 11, .addNode 12, .addNode 13, .addNode 14]).1.nodeCount = 4 ∧
     nodeIdentifiers (run (new true 4 32 true) [.addNode 10, .addNode 11, .addNode 12, .addNode 13, .addNode 14]).1
        = [0, 1, 2, 3] ∧
     nodeReferences (run (new true 4 32 true) [.addNode 10, .addNode 11, .addNode 12, .addNode 13, .addNode 14]).1
        = [(0, 10), (1, 11), (2, 12), (3, 13)] ∧
     index (run (new true 4 32 true) [.addNode 10, .addNode 11, .addNode 12, .addNode 13, .addNode 14]).1 0
        = some 10) := by
  decide

end Csr

/-! ## adj::List -/
section AdjList
open PetgraphModel.AdjM PetgraphModel.AdjProofs

/-- the rows of the model are the per-source subsequences of the insertion log, and the `k`-th edge out of
`a` carries the index `(a, k)` -/
abbrev LAbs := AdjProofs.LAbs
abbrev lspecStep := AdjProofs.specStep
abbrev lspecRun := AdjProofs.specRun
/-- `LFits m n ops`: starting from `n` nodes, no `add_node` / `add_node_from_edges` in `ops` is issued when the
node count has already reached the capacity `m` of the index type (`m = 0`: unbounded; `clear` resets the
count), i.e. the history never runs into the capacity panic of `add_node*`.  No theorem of this file needs it any
more (before the repair of finding D31 the refinement theorems did); it is kept for the C06 theorems that still
state it. -/
abbrev LFits := AdjProofs.Fits

/-- **refinement, one call**: `add_node*`, `add_edge`, `update_edge`, `edge_weight_mut`, `clear` with arbitrary
arguments act on the rows exactly as the specification acts on the insertion log, and answer the same
(`EdgeIndex`, node index, documented panic + unchanged for an out-of-range endpoint and for `add_node*` at the
capacity of the index type).  (The hypothesis `hfit` that excluded the latter before the repair of D31 is gone.) -/
theorem C05_list_refines_step (s : AdjM.State) (g : ML) (h : LAbs s g) (op : AdjM.Op) :
    LAbs (AdjM.step s op).1 (lspecStep s.modulus g op).1 ∧ (AdjM.step s op).2 = (lspecStep s.modulus g op).2 := by
  obtain ⟨h1, h2, _⟩ := AdjProofs.step_refines h op
  exact ⟨h1, h2⟩

/-- **refinement, all histories** from `List::new()`: parallel edges are kept (the log only grows, except
`clear`), every answer is the specified one — for ANY history (the hypothesis `LFits m 0 ops` that restricted the
histories before the repair of D31 is gone). -/
theorem C05_list_all_histories (m : Nat) (ops : List AdjM.Op) :
    LAbs (AdjM.run (AdjM.new m) ops).1 (lspecRun m {} ops).1 ∧
    (AdjM.run (AdjM.new m) ops).2 = (lspecRun m {} ops).2 :=
  AdjProofs.run_refines (new_abs m) ops

/-- `find_edge`, `contains_edge`, `edge_endpoints`, `edge_weight`, `neighbors`, `edge_indices_from` agree with
the insertion log: `find_edge` is the *first* inserted `a → b`, neighbours come in insertion order, an index
`(a, k)` denotes the `k`-th edge inserted out of `a`. -/
theorem C05_list_readers (s : AdjM.State) (g : ML) (h : LAbs s g) :
    s.nodeCount = g.n ∧
    (∀ a b, AdjM.findEdge s a b = (g.find a b).map (·.id)) ∧
    (∀ a b, AdjM.containsEdge s a b = (g.find a b).isSome) ∧
    (∀ e, AdjM.edgeEndpoints s e = (g.get e).map fun x => (x.src, x.tgt)) ∧
    (∀ e, AdjM.edgeWeight s e = (g.get e).map (·.w)) ∧
    (∀ a, AdjM.neighbors s a = if a < g.n then some ((g.outOf a).map (·.tgt)) else none) ∧
    (∀ a, AdjM.edgeIndicesFrom s a = if a < g.n then some ((g.outOf a).map (·.id)) else none) :=
  AdjProofs.readers h

/-- **every returned edge index stays valid**: until `clear`, an index that denotes an edge keeps denoting an
edge with the same endpoints, whatever is called. -/
theorem C05_list_index_stable (m : Nat) (g : ML) (op : AdjM.Op) (hop : op ≠ .clear) (id : Nat × Nat) (e : MEdge)
    (h : g.get id = some e) :
    ∃ e', (lspecStep m g op).1.get id = some e' ∧ e'.id = e.id ∧ e'.src = e.src ∧ e'.tgt = e.tgt :=
  AdjProofs.index_stable m g op hop id e h

/-- **parallel edges are kept**: `add_edge` with in-range endpoints always appends one edge to the log and
returns a fresh index, even when `a → b` already exists. -/
theorem C05_list_parallel_kept (s : AdjM.State) (g : ML) (h : LAbs s g) (a b : Nat) (w : Int)
    (ha : a < g.n) (hb : b < g.n) :
    (lspecStep s.modulus g (.addEdge a b w)).1.edges.length = g.edges.length + 1 ∧
    (AdjM.step s (.addEdge a b w)).2 = .eix (a, (g.outOf a).length) ∧
    g.get (a, (g.outOf a).length) = none := by
  have hs : g.addEdge a b w = some (g.push a b w) := by simp [ML.addEdge, ha, hb]
  refine ⟨by simp [AdjProofs.specStep, hs, ML.push], ?_, h.get_none a _ (Nat.le_refl _)⟩
  have := (AdjProofs.step_refines h (.addEdge a b w)).2.1
  rw [this]; simp [AdjProofs.specStep, hs, ML.push]

/-! non-vacuity -/
example : LFits 256 0 [.addNode, .addNode, .addEdge 0 1 5, .addEdge 0 1 6, .updateEdge 0 1 9, .addEdge 0 7 1] := by
  simp [AdjProofs.Fits]
example : (AdjM.run (AdjM.new 256) [.addNode, .addNode, .addEdge 0 1 5, .addEdge 0 1 6, .updateEdge 0 1 9, .addEdge 0 7 1]).1.suc
    = [[(1, 9), (1, 6)], []] := by decide

/-! ### wave 3: whole-graph iteration, capacity of the index type (finding D31, repaired) -/

/-- the `EdgeReference` the log prescribes for an edge: `(source, successor_index, target, weight)` -/
abbrev lrefOf := AdjProofs.refOf

/-- **`edge_count()`** is the length of the insertion log (every inserted edge counted once, parallel edges
included). -/
theorem C05_list_edge_count (s : AdjM.State) (g : ML) (h : LAbs s g) : s.edgeCount = g.edges.length :=
  h.edgeCount

/-- **`edge_references()` / `edge_indices()` / `node_indices()`** (the iterators run to completion), within the
capacity of the index type (`hcap`: it holds in every state reachable from `List::new()` —
`C05_list_iteration_all_histories`, `C05_list_no_wrap_all_histories`):
`edge_references()` yields the log GROUPED BY SOURCE — sources ascending, within one source in insertion order —
each edge as `(source, successor_index, target, current weight)`; `edge_indices()` yields the indices of the same
edges in the same order; `node_indices()` (= `node_identifiers()` = `node_references()`) yields `0, …, n-1`. -/
theorem C05_list_iteration (s : AdjM.State) (g : ML) (h : LAbs s g) (hcap : s.modulus = 0 ∨ g.n ≤ s.modulus) :
    AdjM.edgeReferences s = ((List.range g.n).flatMap fun a => (g.outOf a).map lrefOf) ∧
    AdjM.edgeIndices s = ((List.range g.n).flatMap fun a => (g.outOf a).map (·.id)) ∧
    AdjM.nodeIndices s = List.range g.n :=
  h.iteration hcap

/-- … without the capacity assumption (states that no history from `List::new()` reaches): the row index is passed
through `Ix::new` (`mkIx`), so beyond the capacity the edges of row `a` would be reported with source
`a % modulus`. -/
theorem C05_list_iteration_raw (s : AdjM.State) (g : ML) (h : LAbs s g) :
    AdjM.edgeReferences s = ((List.range g.n).flatMap fun a =>
      (g.outOf a).map fun e => (AdjM.mkIx s.modulus a, e.id.2, e.tgt, e.w)) ∧
    AdjM.edgeIndices s = ((List.range g.n).flatMap fun a =>
      (g.outOf a).map fun e => (AdjM.mkIx s.modulus a, e.id.2)) ∧
    AdjM.nodeIndices s = (List.range g.n).map (AdjM.mkIx s.modulus) :=
  h.iteration_raw

/-- the grouped order is a rearrangement of the log: **every inserted edge is yielded exactly once** (as a
multiset, `edge_references()` is the whole log; nothing lost, nothing doubled). -/
theorem C05_list_grouped_perm (s : AdjM.State) (g : ML) (h : LAbs s g) :
    ((List.range g.n).flatMap g.outOf).Perm g.edges :=
  h.grouped_perm

/-- **`IntoEdges::edges(a)`** yields, for an existing node, exactly the edges inserted out of `a`, in insertion
order, as `(a, successor_index, target, current weight)`; it panics for `a ≥ node_count`.  (No capacity
assumption: the source of the references is the argument `a` itself.) -/
theorem C05_list_edges_of (s : AdjM.State) (g : ML) (h : LAbs s g) (a : Nat) :
    AdjM.edgesOf s a = if a < g.n then some ((g.outOf a).map lrefOf) else none :=
  h.edgesOf a

/-- EVERY history that starts within the capacity of the index type ends within it: `add_node*` panic rather than
exceed it.  (Before the repair of D31 this needed `LFits m g.n ops`.) -/
theorem C05_list_fits_capacity (m : Nat) (ops : List AdjM.Op) (g : ML)
    (hc : m = 0 ∨ g.n ≤ m) : m = 0 ∨ (lspecRun m g ops).1.n ≤ m :=
  AdjProofs.run_cap m ops g hc

/-- **whole-graph iteration, all histories**: in every state reachable from `List::new()` by ANY history (the
`LFits` hypothesis that was needed before the repair of D31 is gone), `edge_count`, `edge_references`,
`edge_indices`, `node_indices` and `edges(a)` report exactly the insertion log the same calls build, grouped by
source. -/
theorem C05_list_iteration_all_histories (m : Nat) (ops : List AdjM.Op) :
    let s := (AdjM.run (AdjM.new m) ops).1
    let g := (lspecRun m {} ops).1
    s.edgeCount = g.edges.length ∧
    AdjM.edgeReferences s = ((List.range g.n).flatMap fun a => (g.outOf a).map lrefOf) ∧
    AdjM.edgeIndices s = ((List.range g.n).flatMap fun a => (g.outOf a).map (·.id)) ∧
    AdjM.nodeIndices s = List.range g.n ∧
    (∀ a, AdjM.edgesOf s a = if a < g.n then some ((g.outOf a).map lrefOf) else none) ∧
    ((List.range g.n).flatMap g.outOf).Perm g.edges :=
  AdjProofs.run_iteration m ops

/-- **finding D31 repaired, general form — `add_node*` and the capacity of the index type**, in EVERY state (the
list has no representation invariant to assume).  At the capacity (`modulus ≠ 0`, `modulus ≤ node_count`; `u8`:
256 nodes) `add_node` / `add_node_with_capacity` / `Build::add_node` (one model function) and
`add_node_from_edges` are the documented panic (`none`) and the list is unchanged; below the capacity they
succeed, append exactly the new row and return the FRESH index `node_count` — which is `< modulus`, so it fits
the index type and `Ix::new` does not alter it. -/
theorem C05_list_add_node_capacity (s : AdjM.State) (es : AdjM.Row) :
    (s.modulus ≠ 0 ∧ s.modulus ≤ s.nodeCount →
      AdjM.addNode s = none ∧ AdjM.addNodeFromEdges s es = none ∧
      AdjM.step s .addNode = (s, .panic) ∧ AdjM.step s (.addNodeFromEdges es) = (s, .panic)) ∧
    (s.modulus = 0 ∨ s.nodeCount < s.modulus →
      AdjM.addNode s = some ({ s with suc := s.suc ++ [[]] }, s.nodeCount) ∧
      AdjM.addNodeFromEdges s es = some ({ s with suc := s.suc ++ [es] }, s.nodeCount) ∧
      AdjM.step s .addNode = ({ s with suc := s.suc ++ [[]] }, .ix s.nodeCount) ∧
      AdjM.step s (.addNodeFromEdges es) = ({ s with suc := s.suc ++ [es] }, .ix s.nodeCount) ∧
      AdjM.mkIx s.modulus s.nodeCount = s.nodeCount) :=
  ⟨fun hc => (AdjProofs.addNode_capacity s es).1 (by omega), (AdjProofs.addNode_capacity s es).2⟩

/-- … and against the specification: at the capacity model and insertion log both answer "panic" and both stay
as they are; below it both answer the fresh index `g.n`. -/
theorem C05_list_add_node_capacity_spec (s : AdjM.State) (g : ML) (h : LAbs s g) (es : AdjM.Row) :
    (s.modulus ≠ 0 ∧ s.modulus ≤ g.n →
      AdjM.step s .addNode = (s, .panic) ∧ lspecStep s.modulus g .addNode = (g, .panic) ∧
      AdjM.step s (.addNodeFromEdges es) = (s, .panic) ∧ lspecStep s.modulus g (.addNodeFromEdges es) = (g, .panic)) ∧
    (s.modulus = 0 ∨ g.n < s.modulus →
      (AdjM.step s .addNode).2 = .ix g.n ∧ (lspecStep s.modulus g .addNode).2 = .ix g.n ∧
      (AdjM.step s (.addNodeFromEdges es)).2 = .ix g.n ∧ (lspecStep s.modulus g (.addNodeFromEdges es)).2 = .ix g.n) := by
  have hn : s.nodeCount = g.n := h.n.symm
  obtain ⟨h1, h2⟩ := AdjProofs.addNode_capacity s es
  rw [hn] at h1 h2
  refine ⟨fun hc => ?_, fun hf => ?_⟩
  · have hfull : ¬ (s.modulus = 0 ∨ g.n < s.modulus) := by omega
    obtain ⟨_, _, e1, e2⟩ := h1 hfull
    exact ⟨e1, by simp [AdjProofs.specStep, AdjProofs.addNodeCap_full _ g hfull], e2,
      by simp [AdjProofs.specStep, AdjProofs.addNodeFromCap_full _ g es hfull]⟩
  · obtain ⟨_, _, e1, e2, _⟩ := h2 hf
    exact ⟨by rw [e1], by simp [AdjProofs.specStep, AdjProofs.addNodeCap_fit _ g hf, ML.addNode],
      by rw [e2], by simp [AdjProofs.specStep, AdjProofs.addNodeFromCap_fit _ g es hf, ML.addNodeFrom]⟩

/-- the node index an answer carries, if it is one -/
abbrev loutIx := AdjProofs.outIx

/-- **no wrap in any history**: along EVERY history from `List::new()` the node count never exceeds the capacity
of the index type and every index an `add_node*` call returns fits the index type (`i < modulus`: `Ix::new(i)` is
`i`, the node count at the time of the call — not the index of an existing node). -/
theorem C05_list_no_wrap_all_histories (m : Nat) (ops : List AdjM.Op) :
    (m = 0 ∨ (AdjM.run (AdjM.new m) ops).1.nodeCount ≤ m) ∧
    ∀ i, some i ∈ (AdjM.run (AdjM.new m) ops).2.map loutIx → m = 0 ∨ i < m :=
  AdjProofs.run_no_wrap (AdjM.new m) (Or.inr (Nat.zero_le _)) ops

/-- **finding D31, the old witness, repaired** (a 2-bit index type, `modulus = 4`; the `u8` case is the instance
`modulus = 256` of `C05_list_add_node_capacity`): four `add_node`, then `add_node_from_edges([(1, 7)])` used to
answer `0, 1, 2, 3, 0` (the fifth node reported as the live index 0, its edge then listed under source 0).  Now
model and specification answer `0, 1, 2, 3, panic`, the fifth call changes nothing (the state IS the state after
four calls: `node_count() = 4`, `node_indices()` duplicate-free, no edge), a plain `add_node` as fifth call panics
as well, and a following `add_edge(0, 2, 9)` goes to node 0 because the caller said so, not through a wrapped
index. -/
theorem C05_D31_witness_repaired_list :
    ((AdjM.run (AdjM.new 4) [.addNode, .addNode, .addNode, .addNode, .addNodeFromEdges [(1, 7)]]).2
        = [.ix 0, .ix 1, .ix 2, .ix 3, .panic] ∧
     (lspecRun 4 {} [.addNode, .addNode, .addNode, .addNode, .addNodeFromEdges [(1, 7)]]).2
        = [.ix 0, .ix 1, .ix 2, .ix 3, .panic] ∧
     (AdjM.run (AdjM.new 4) [.addNode, .addNode, .addNode, .addNode, .addNode]).2
        = [.ix 0, .ix 1, .ix 2, .ix 3, .panic] ∧
     (AdjM.run (AdjM.new 4) [.addNode, .addNode, .addNode, .addNode, .addNodeFromEdges [(1, 7)]]).1
        = (AdjM.run (AdjM.new 4) [.addNode, .addNode, .addNode, .addNode]).1 ∧
     (lspecRun 4 {} [.addNode, .addNode, .addNode, .addNode, .addNodeFromEdges [(1, 7)]]).1
        = (lspecRun 4 {} [.addNode, .addNode, .addNode, .addNode]).1 ∧
     (AdjM.run (AdjM.new 4) [.addNode, .addNode, .addNode, .addNode, .addNodeFromEdges [(1, 7)]]).1.nodeCount = 4 ∧
     AdjM.nodeIndices (AdjM.run (AdjM.new 4) [.addNode, .addNode, .addNode, .addNode, .addNodeFromEdges [(1, 7)]]).1
        = [0, 1, 2, 3] ∧
     AdjM.edgeReferences (AdjM.run (AdjM.new 4) [.addNode, .addNode, .addNode, .addNode, .addNodeFromEdges [(1, 7)]]).1
        = [] ∧
     (AdjM.run (AdjM.new 4) [.addNode, .addNode, .addNode, .addNode, .addNodeFromEdges [(1, 7)], .addEdge 0 2 9]).1.suc
        = [[(2, 9)], [], [], []]) := by
  decide

/-! non-vacuity of the iteration theorem: parallel edges, an update, interleaved sources -/
example : LFits 256 0 [.addNode, .addNode, .addEdge 1 0 5, .addEdge 0 1 6, .addEdge 1 0 7, .updateEdge 0 1 9] := by
  simp [AdjProofs.Fits]
example : AdjM.edgeReferences (AdjM.run (AdjM.new 256)
      [.addNode, .addNode, .addEdge 1 0 5, .addEdge 0 1 6, .addEdge 1 0 7, .updateEdge 0 1 9]).1
    = [(0, 0, 1, 9), (1, 0, 0, 5), (1, 1, 0, 7)] := by decide
example : (lspecRun 256 {} [.addNode, .addNode, .addEdge 1 0 5, .addEdge 0 1 6, .addEdge 1 0 7, .updateEdge 0 1 9]).1.edges.map lrefOf
    = [(1, 0, 0, 5), (0, 0, 1, 9), (1, 1, 0, 7)] := by decide

end AdjList

end PetgraphModel.C05T
