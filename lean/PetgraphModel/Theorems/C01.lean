import PetgraphModel.Model.Graph
import PetgraphModel.Spec.CompactGraph
import PetgraphModel.Proofs.Graph
import PetgraphModel.Proofs.GraphRefine
import PetgraphModel.Proofs.GraphRemove
import PetgraphModel.Proofs.C01W2Main
import PetgraphModel.Proofs.C01W4Walker
import PetgraphModel.Proofs.C01W4Convert
import PetgraphModel.Spec.C01RunChecks
import PetgraphModel.Proofs.C01W6Laws
/-
C01 — `Graph` behaves as a compact-indexed multigraph under every operation history.

Only property theorems live here; helper lemmas are in `Proofs/Graph.lean`.  Every theorem is about
the mirror model `G` (tied to `/repo/src/graph_impl/mod.rs` by the exact correspondence run of
`./check C01`) and the plain-multigraph specification `CGS`.
-/
namespace PetgraphModel.C01T
open PetgraphModel PetgraphModel.G PetgraphModel.GProofs

/-- representation invariant: both vectors fit the index type, every edge's endpoints are nodes, and
for every node and direction the `next` chain from the node's head is a finite duplicate-free list
of exactly the edges having that node at that end (ghost adjacency lists, DESIGN Appendix D) -/
abbrev Inv := GProofs.Inv

/-- every constructor establishes the invariant -/
theorem C01_inv_init (endv : Nat) (directed : Bool) : Inv (G.empty endv directed) :=
  inv_empty endv directed

/-- **every public call preserves the invariant** — adds (the three `index_twice` cases),
`update_edge`, weight mutation through every entry point, `reverse`, `clear*`, `map`, `filter_map`,
`extend_with_edges`, `from_edges`, `from_elements`, `into_edge_type`, conversion via `StableGraph`,
detached walkers, all queries, **and** `remove_edge` (unlink + `swap_remove` + re-link of the moved
edge), `remove_node` (drain both lists, `swap_remove`, re-point the moved node's edges),
`retain_nodes`, `retain_edges` — with arbitrary (valid or invalid) arguments. -/
theorem C01_inv_step (s : State) (op : Op) (h : Inv s) : Inv (step s op).1 :=
  inv_step h op

/-- hence after every finite history from any constructor, for every index width and edge type -/
theorem C01_inv_all_histories (endv : Nat) (directed : Bool) (ops : List Op) :
    Inv (run (G.empty endv directed) ops).1 :=
  inv_run ops _ (inv_empty endv directed)

/-- (src, tgt, weight) of an edge slot -/
abbrev edgeEnds := GProofs.edgeEnds

/-- `remove_edge(e)` for a live `e`, in any reachable state: no fault (both list walks terminate, no
`debug_assert!` fires), returns the weight, re-establishes the invariant, and on the content it is
exactly `swap_remove(e)`: the last edge adopts index `e`, every other edge keeps index, endpoints and
weight; node weights are untouched. -/
theorem C01_remove_edge (s : State) (h : Inv s) (e : Nat) (ed : Edge) (hed : s.edges[e]? = some ed) :
    ∃ s', removeEdge s e = .ok (s', some ed.weight) ∧ Inv s' ∧
      s'.edges.map edgeEnds = swapRemove (s.edges.map edgeEnds) e ∧
      s'.nodes.map (·.weight) = s.nodes.map (·.weight) ∧ s'.endv = s.endv ∧ s'.directed = s.directed := by
  obtain ⟨s', hs', hinv, hrem⟩ := removeEdge_spec h hed
  exact ⟨s', hs', hinv, hrem.edges, hrem.nodes, hrem.endv, hrem.directed⟩

/-- `remove_node(a)` for a live `a`, in any reachable state: no fault (the two draining loops
terminate, every `debug_assert!` holds, `self.nodes[a]` is in bounds), returns the weight,
re-establishes the invariant; the node list is `swap_remove(a)` (the last node adopts index `a`); the
surviving edges are exactly the edges not incident with `a` — as a multiset, their numbering being
that of successive `remove_edge` calls — with the moved node renamed. -/
theorem C01_remove_node (s : State) (h : Inv s) (a : Nat) (nd : Node) (hnd : s.nodes[a]? = some nd) :
    ∃ s', removeNode s a = .ok (s', some nd.weight) ∧ Inv s' ∧
      s'.nodes.map (·.weight) = swapRemove (s.nodes.map (·.weight)) a ∧
      s'.endv = s.endv ∧ s'.directed = s.directed ∧
      (s'.edges.map edgeEnds).Perm
        (((s.edges.map edgeEnds).filter (notAt a)).map (renT (s.nodes.length - 1) a)) :=
  removeNode_spec h hnd

/-- `remove_node`, `remove_edge`, `retain_nodes`, `retain_edges` never reach a fault (out-of-bounds
index, failing `debug_assert!`, non-terminating walk) in a state satisfying the invariant, whatever
their arguments and masks. -/
theorem C01_removal_no_fault (s : State) (h : Inv s) (op : Op) (hop : GProofs.isRemoval op = true) (f : Fault) :
    (step s op).2 ≠ .fault f :=
  removal_no_fault h op hop f

/-! ### capacity limits -/

/-- `try_add_node` fails exactly when the graph holds `2^w - 1` nodes, and then changes nothing;
otherwise it appends the node and returns the old node count as its index.  (`add_node` is the same
call followed by `unwrap`: the documented panic, graph unchanged.) -/
theorem C01_limit_nodes (s : State) (w : Nat) :
    (s.nodes.length = s.endv → step s (.tryAddNode w) = (s, .res (.error .nodeIxLimit)) ∧
                               step s (.addNode w) = (s, .panic)) ∧
    (s.nodes.length ≠ s.endv →
      step s (.tryAddNode w) = ({ s with nodes := s.nodes ++ [⟨w, s.endv, s.endv⟩] }, .res (.ok s.nodes.length)) ∧
      step s (.addNode w) = ({ s with nodes := s.nodes ++ [⟨w, s.endv, s.endv⟩] }, .nat s.nodes.length)) := by
  constructor
  · intro hf; simp [step, tryAddNode_full w hf]
  · intro hf; simp [step, tryAddNode_room w hf]

/-- `try_add_edge` reports `EdgeIxLimit` exactly when the graph holds `2^w - 1` edges (whatever the
endpoints), `NodeOutBounds` exactly when there is room but an endpoint is absent, and succeeds with
the old edge count as index otherwise; both errors leave the graph unchanged. -/
theorem C01_limit_edges (s : State) (a b w : Nat) :
    (s.edges.length = s.endv → step s (.tryAddEdge a b w) = (s, .res (.error .edgeIxLimit))) ∧
    (s.edges.length ≠ s.endv → ¬ (a < s.nodes.length ∧ b < s.nodes.length) →
      step s (.tryAddEdge a b w) = (s, .res (.error .nodeOutBounds))) ∧
    (s.edges.length ≠ s.endv → a < s.nodes.length → b < s.nodes.length →
      (step s (.tryAddEdge a b w)).2 = .res (.ok s.edges.length)) := by
  refine ⟨?_, ?_, ?_⟩
  · intro hf; simp [step, tryAddEdge_full a b w hf]
  · intro hf hab; simp [step, tryAddEdge_absent a b w hf hab]
  · intro hf ha hb
    obtain ⟨s', hs⟩ := tryAddEdge_room a b w hf ha hb
    simp [step, hs]

/-- growth never passes the limit: under the invariant both counts stay `≤ 2^w - 1` (part of `Inv`),
so `EdgeIndex::end()` / `NodeIndex::end()` never denotes a live element. -/
theorem C01_end_is_never_live (s : State) (h : Inv s) :
    s.nodes[s.endv]? = none ∧ s.edges[s.endv]? = none :=
  ⟨List.getElem?_eq_none h.szN, List.getElem?_eq_none h.szE⟩

/-! ### absent indices -/

/-- the call names a node / edge index that is not live (`≥` the count; `end()` included) -/
abbrev NamesAbsent := GProofs.NamesAbsent
/-- the prescribed answer: `None` / `Err(_)` / empty iterator / `false`, or the panic the rustdoc
of that method promises (`add_edge`, `update_edge`, `Index`, `IndexMut`, `index_twice_mut`) -/
abbrev AbsentAnswer := GProofs.AbsentAnswer

/-- a call that names an absent index answers as prescribed and leaves the graph *equal* -/
theorem C01_absent_unchanged (s : State) (h : Inv s) (op : Op) (ha : NamesAbsent s op) :
    (step s op).1 = s ∧ AbsentAnswer op (step s op).2 :=
  absent_unchanged h op ha

/-! ### `index_twice` / `index_twice_mut` -/

/-- SAFETY condition of `index_twice` (used by `try_add_edge`): whenever the `Pair::Both` branch is
taken — the call succeeds with `a ≠ b` — both indices are in bounds and distinct; and of
`index_twice_mut`: whenever it does not panic, the two accesses are in bounds and do not alias
(different kinds, or different indices). -/
theorem C01_index_twice_disjoint (s : State) :
    (∀ a b w s' e, tryAddEdge s a b w = (s', .ok e) → a < s.nodes.length ∧ b < s.nodes.length) ∧
    (∀ ki kj i j wi wj s', indexTwiceMut s ki kj i j wi wj = some s' →
      (ki ≠ kj ∨ i ≠ j) ∧ inBounds s ki i = true ∧ inBounds s kj j = true) := by
  constructor
  · intro a b w s' e he
    obtain ⟨an, bn, han, hbn, _⟩ := tryAddEdge_ok he
    exact ⟨lt_of_getElem? han, lt_of_getElem? hbn⟩
  · intro ki kj i j wi wj s' he
    unfold indexTwiceMut at he
    split at he
    · simp at he
    · rename_i h1
      split at he
      · simp at he
      · rename_i h2
        simp at h1 h2
        refine ⟨?_, h2.1, h2.2⟩
        by_cases hk : ki = kj
        · right; exact h1 hk
        · left; exact hk

/-! ### refinement to the compact multigraph -/

/-- abstraction of a model state: node weights and `(source, target, weight)` per edge index -/
abbrev abs := GProofs.abs
/-- the specification as a transition relation on the plain multigraph `CGS.Spec` (what a call may
answer and what graph results); see `Proofs/GraphRefine.lean` -/
abbrev SpecAccepts := GProofs.SpecAccepts
abbrev SpecRun := GProofs.SpecRun
/-- the calls the relation speaks about: everything except `remove_*`, `retain_*` (stage 2) and
`filter_map`, conversion via `StableGraph`, detached walkers, `first_edge`/`next_edge` -/
abbrev isCore := GProofs.isCore
/-- `Inv` plus "every `next` link points to a smaller index": true while nothing has been removed -/
abbrev Inv1 := GProofs.Inv1

/-- full statement: every history of public calls, started from any constructor, keeps the
invariant and is a run of the specification (answers and resulting multigraph agree) -/
def C01_all_histories_statement : Prop :=
  ∀ (endv : Nat) (directed : Bool) (ops : List Op),
    Inv (run (G.empty endv directed) ops).1 ∧
    ∃ sp, SpecRun (CGS.empty endv directed) ops (run (G.empty endv directed) ops).2 sp ∧
      sp.nodes = (run (G.empty endv directed) ops).1.nodes.map (·.weight) ∧
      sp.edges.map (fun e => (e.src, e.tgt, e.weight)) =
        (run (G.empty endv directed) ops).1.edges.map (fun e => (e.src, e.tgt, e.weight))

/-- *(stage 1 — SUPERSEDED by `C01_refines`, which covers every call under `RInv`; kept for the record)*
**refinement step**: in a state reached without removals, every core call answers what the
plain multigraph allows — counts, weights, endpoints, `find_edge`/`contains_edge`/`update_edge`
(some connecting edge), neighbours and incident edges per direction (directed: most recently added
first; undirected: each incident edge once with the queried node as source, a self-loop once),
`edges_connecting`, `externals`, whole-graph iteration, `Err`/panic exactly at the capacity limit or
for an absent endpoint — and the new state abstracts to the multigraph's successor. -/
theorem C01_refines_partial (s : State) (h : Inv1 s) (op : Op) (hc : isCore op = true) :
    SpecAccepts (abs s) op (step s op).2 (abs (step s op).1) ∧ Inv1 (step s op).1 :=
  ⟨refines_step h op hc, inv1_step h op (isRemoval_of_core hc)⟩

/-- *(stage 1 — SUPERSEDED by `C01_all_histories`, which has no restriction on the calls; a stage-1 run
is a run of the full relation by `C01_specRun2_of_specRun`; kept for the record)*
**all histories without removal**: after any sequence of core calls from any constructor the
invariant holds and the whole sequence of answers is a run of the specification ending in the
abstraction of the final state.  Missing for the full statement: stage 2 (`remove_*`, `retain_*`)
and `filter_map` / conversion / walkers / `first_edge` / `next_edge` as steps of the relation (they
are covered by `C01_inv_step`, `C01_remove_edge` and by the correspondence run). -/
theorem C01_all_histories_partial (endv : Nat) (directed : Bool) (ops : List Op)
    (hall : ∀ op ∈ ops, isCore op = true) :
    Inv1 (run (G.empty endv directed) ops).1 ∧
    SpecRun (CGS.empty endv directed) ops (run (G.empty endv directed) ops).2
      (abs (run (G.empty endv directed) ops).1) :=
  refines_run ops (G.empty endv directed) (inv1_empty endv directed) hall

/-- *(stage 1 — SUPERSEDED by `C01_no_fault` / `C01_walker_no_fault`; kept for the record)*
SAFETY / termination for those histories: no unchecked access goes out of bounds, no list walk
runs out of fuel, no `debug_assert!` fires — the specification never answers with a fault. -/
theorem C01_no_fault_partial (s : State) (h : Inv1 s) (op : Op) (hc : isCore op = true) (f : Fault) :
    (step s op).2 ≠ .fault f := by
  intro hf
  have := refines_step h op hc
  rw [hf] at this
  exact specAccepts_no_fault this

/-! ### refinement for ALL histories (wave 2): removals, `retain_*`, `filter_map`, conversion, walkers, raw chains

`C01_all_histories_statement` above cannot hold literally: it is phrased with `SpecRun`, whose step
relation `SpecAccepts` is `False` on the nine call forms stage 1 left out, so the first `remove_edge`
of a history already refutes it (`C01_all_histories_statement_false_witness`).  The repaired statement
`C01_all_histories` is the same sentence over `SpecRun2`, the run relation of `SpecAccepts2` — which
*is* `SpecAccepts` on every core call (`C01_specAccepts2_core`) and on the remaining calls demands
exactly what `Spec/CompactGraph.lean` (and the judge of `Driver/C01.lean`) prescribe.

The proof carries a ghost insertion stamp per edge index (`st`) and the specification's clock through
the history: `absG s st ck` is the plain multigraph of a model state, `RInv s st ck` the refinement
invariant (`Inv`, every stored link points to an edge with a smaller stamp, stamps below the clock).
`swap_remove` moves the stamp with the edge, so "most recently added first" survives renumbering. -/

/-- abstraction of a model state with ghost stamps `st` (per edge index) and clock `ck` -/
abbrev absG := GProofs.absG
/-- the refinement invariant: `Inv`, links point to smaller stamps, stamps below the clock -/
abbrev RInv := GProofs.RInv
/-- `SpecAccepts` extended to `remove_node`, `remove_edge`, `retain_nodes`, `retain_edges`,
`filter_map`, conversion via `StableGraph`, detached walkers, `first_edge`, `next_edge` -/
abbrev SpecAccepts2 := GProofs.SpecAccepts2
abbrev SpecRun2 := GProofs.SpecRun2

/-- the original statement is false as written: `SpecAccepts` rejects every `remove_edge` -/
theorem C01_all_histories_statement_false_witness : ¬ C01_all_histories_statement := by
  intro h
  obtain ⟨_, sp, hrun, _⟩ := h 0 true [.removeEdge 0]
  cases hrun with
  | cons hacc _ => exact hacc

/-- the extended relation is the stage-1 relation on every core call … -/
theorem C01_specAccepts2_core (sp sp' : CGS.Spec) (op : Op) (o : Out) (hc : isCore op = true) :
    SpecAccepts2 sp op o sp' ↔ SpecAccepts sp op o sp' := by
  constructor
  · intro h; cases op <;> simp only [GProofs.isCore] at hc <;> first | exact h | cases hc
  · exact GProofs.specAccepts2_of_core hc

/-- … so a stage-1 run is a run of the extended relation (`C01_all_histories_partial` is subsumed) -/
theorem C01_specRun2_of_specRun (sp sp' : CGS.Spec) (ops : List Op) (os : List Out)
    (hall : ∀ op ∈ ops, isCore op = true) (h : SpecRun sp ops os sp') : SpecRun2 sp ops os sp' :=
  GProofs.specRun2_of_specRun hall h

/-- every constructor establishes the refinement invariant (stamp = index, clock 0) -/
theorem C01_rinv_init (endv : Nat) (directed : Bool) :
    RInv (G.empty endv directed) id 0 ∧ absG (G.empty endv directed) id 0 = CGS.empty endv directed :=
  ⟨GProofs.rinv_empty endv directed, rfl⟩

/-- **stage 2 — order survives removals**: in any state satisfying the refinement invariant the walk
from a node's head (`k = false` out-list, `k = true` in-list) is fault-free and lists exactly the
specification's selection — the incident edges, *most recently added first* — whatever `swap_remove`
renumberings lie in the past -/
theorem C01_adjacency_order (s : State) (st : Nat → Nat) (ck : Nat) (h : RInv s st ck) (k : Bool) (i : Nat)
    (nd : Node) (hnd : s.nodes[i]? = some nd) :
    ∃ c, chain s.edges k s.fuel (nd.next k) = .ok c ∧
      c.map Prod.fst = (if k then CGS.inEdges (absG s st ck) i else CGS.outEdges (absG s st ck) i) ∧
      ∀ p ∈ c, s.edges[p.1]? = some p.2 ∧ p.2.node k = i := by
  obtain ⟨c, h1, h2, h3, _⟩ := h.chain_select k i nd hnd
  exact ⟨c, h1, h2, h3⟩

/-- **stage 1/2 — `remove_edge`** of a live edge: returns the weight, re-establishes the refinement
invariant with the moved edge keeping its stamp, and the new state abstracts to the specification's
`removeEdge` (content *and* stamps) -/
theorem C01_remove_edge_refines (s : State) (st : Nat → Nat) (ck : Nat) (h : RInv s st ck) (e : Nat) (ed : Edge)
    (hed : s.edges[e]? = some ed) :
    ∃ s' st', removeEdge s e = .ok (s', some ed.weight) ∧ RInv s' st' ck ∧
      absG s' st' ck = CGS.removeEdge (absG s st ck) e := by
  obtain ⟨s', h1, h2, h3, _⟩ := GProofs.removeEdge_refines h hed
  exact ⟨s', _, h1, h2, h3⟩

/-- **stage 1/2 — `remove_node`** of a live node: returns the weight and the new state abstracts to
the specification's `removeNode`.  This sharpens `C01_remove_node` (edges as a multiset): the model
drops the incident edges in the specification's reference order — out-edges then in-edges, most
recent first — so the *numbering* of the surviving edges agrees as well. -/
theorem C01_remove_node_refines (s : State) (st : Nat → Nat) (ck : Nat) (h : RInv s st ck) (a : Nat) (nd : Node)
    (hnd : s.nodes[a]? = some nd) :
    ∃ s' st', removeNode s a = .ok (s', some nd.weight) ∧ RInv s' st' ck ∧
      absG s' st' ck = CGS.removeNode (absG s st ck) a := by
  obtain ⟨s', st', h1, h2, h3, _⟩ := GProofs.removeNode_refines h hnd
  exact ⟨s', st', h1, h2, h3⟩

/-- **stage 1/2 — `retain_edges` / `retain_nodes`** (closure = mask + optional weight bump through
`Frozen`): never fault and abstract to the specification's `retainEdges` / `retainNodes` -/
theorem C01_retain_refines (s : State) (st : Nat → Nat) (ck : Nat) (h : RInv s st ck) (mask bump : List Bool) :
    (∃ s' st', retainEdges mask bump s.edges.length s = .ok s' ∧ RInv s' st' ck ∧
      absG s' st' ck = CGS.retainEdges mask bump s.edges.length (absG s st ck)) ∧
    (∃ s' st', retainNodes mask bump s.nodes.length s = .ok s' ∧ RInv s' st' ck ∧
      absG s' st' ck = CGS.retainNodes mask bump s.nodes.length (absG s st ck)) :=
  ⟨GProofs.retainEdges_refines mask bump ck _ s st h (Nat.le_refl _),
   GProofs.retainNodes_refines mask bump ck _ s st h (Nat.le_refl _)⟩

/-- **stage 3 — `filter_map` and the conversion through `StableGraph`**: never fault; the result is
a removal-free state (`Inv1`) that abstracts to the specification's `filterMap` (kept nodes, then kept
edges, in index order; insertion stamps restart) -/
theorem C01_filter_map_refines (s : State) (h : Inv s) (st : Nat → Nat) (ck : Nat) (nm em : List Bool) (dn de : Nat) :
    ∃ s', filterMap s nm em dn de = .ok s' ∧ Inv1 s' ∧ abs s' = CGS.filterMap (absG s st ck) nm em dn de :=
  GProofs.filterMap_refines h st ck nm em dn de

/-- **refinement step, every call**: in a state satisfying the refinement invariant every public
call — the core of `C01_refines_partial` *and* `remove_*`, `retain_*`, `filter_map`, conversion,
detached walkers (with weight mutation while the walker is alive), `first_edge` / `next_edge` —
answers what the plain multigraph allows, and the successor state satisfies the invariant again and
abstracts to the multigraph's successor -/
theorem C01_refines (s : State) (st : Nat → Nat) (ck : Nat) (h : RInv s st ck) (op : Op) :
    ∃ st' ck', SpecAccepts2 (absG s st ck) op (step s op).2 (absG (step s op).1 st' ck') ∧
      RInv (step s op).1 st' ck' :=
  GProofs.stepOK_all h op

/-- **all histories** (the repaired `C01_all_histories_statement`): after any finite sequence of
public calls from any constructor, for every index width and edge type, the invariant holds and the
whole sequence of answers is a run of the specification ending in a plain multigraph with the model's
node weights and `(source, target, weight)` per edge index -/
theorem C01_all_histories (endv : Nat) (directed : Bool) (ops : List Op) :
    Inv (run (G.empty endv directed) ops).1 ∧
    ∃ sp, SpecRun2 (CGS.empty endv directed) ops (run (G.empty endv directed) ops).2 sp ∧
      sp.nodes = (run (G.empty endv directed) ops).1.nodes.map (·.weight) ∧
      sp.edges.map (fun e => (e.src, e.tgt, e.weight)) =
        (run (G.empty endv directed) ops).1.edges.map (fun e => (e.src, e.tgt, e.weight)) := by
  obtain ⟨st', ck', hrun, hr⟩ := GProofs.refines_run2 ops (G.empty endv directed) id 0 (GProofs.rinv_empty endv directed)
  exact ⟨hr.inv, _, hrun, rfl, GProofs.absG_content _ _ _⟩

/-- SAFETY / termination for all histories: no unchecked access goes out of bounds, no list walk runs
out of fuel, no `debug_assert!` fires — in any state satisfying the refinement invariant (hence after
any history) no call answers with a fault -/
theorem C01_no_fault (s : State) (st : Nat → Nat) (ck : Nat) (h : RInv s st ck) (op : Op) (f : Fault) :
    (step s op).2 ≠ .fault f := by
  intro hf
  obtain ⟨_, _, hacc, _⟩ := GProofs.stepOK_all h op
  rw [hf] at hacc
  exact GProofs.specAccepts2_no_fault hacc

/-- the refinement invariant holds after every history (so `C01_refines`, `C01_no_fault`,
`C01_adjacency_order` apply to every reachable state) -/
theorem C01_rinv_all_histories (endv : Nat) (directed : Bool) (ops : List Op) :
    ∃ st ck, RInv (run (G.empty endv directed) ops).1 st ck := by
  obtain ⟨st', ck', _, hr⟩ := GProofs.refines_run2 ops (G.empty endv directed) id 0 (GProofs.rinv_empty endv directed)
  exact ⟨st', ck', hr⟩

/-! ### queries in any state satisfying the invariant (also after removals) -/

/-- `find_edge` / `contains_edge` in *any* state satisfying `Inv`: fault-free; `Some(e)` is an edge
joining `a` to `b` (either orientation when undirected), `None` means there is none. -/
theorem C01_find_edge (s : State) (h : Inv s) (a b : Nat) :
    ∃ r, findEdge s a b = .ok r ∧ (∀ e, r = some e → Connects s a b e) ∧ (r = none → ∀ e, ¬ Connects s a b e) :=
  h.findEdge_spec a b

/-- every walk from a node head, in any state satisfying `Inv`: fault-free, duplicate-free, and
exactly the edges having that node at that end (so `neighbors*`, `edges*`, walkers enumerate each
incident edge once; order is the subject of `C01_refines_partial`). -/
theorem C01_chain (s : State) (h : Inv s) (k : Bool) (i : Nat) (nd : Node) (hnd : s.nodes[i]? = some nd) :
    ∃ c, chain s.edges k s.fuel (nd.next k) = .ok c ∧ ChainSpec s k i c :=
  h.chain_spec k i nd hnd

/-! ### detached walkers interleaved with other calls (wave 4)

`Model/GraphWalkers.lean` puts a table of `WalkNeighbors` values beside the graph: `walkerNew a mode`
detaches a walker, `walkerNext w` is `walkers[w].next(&g)`, every call of the `Graph` alphabet may be
interleaved (`GW.WOp`).  `Spec/CompactGraphWalkers.lean` says what the plain multigraph prescribes:
as long as only structure-preserving calls happen (queries, weight mutation — the documented use —,
`map`, `into_edge_type`, other walkers) a walker lists what `neighbors*` listed when it was detached;
once the structure changes under it only memory safety and the shape of an answer remain specified. -/

/-- walker-layer specification: state, step relation, runs (see `Spec/CompactGraphWalkers.lean`) -/
abbrev WSpec := GProofs.WSpec
abbrev WAccepts := GProofs.WAccepts
abbrev SpecRunW := GProofs.SpecRunW

/-- **`WalkNeighbors::next` never faults** in a graph satisfying the invariant — for EVERY walker
value: fresh, exhausted, or stale because nodes / edges were removed, the graph was cleared, reversed,
rebuilt … under it (every cursor is either out of range or a live edge whose `next` chain is a
suffix of an adjacency list) -/
theorem C01_walker_next_total (s : State) (h : Inv s) (wk : Walker) :
    ∃ wk' r, walkerNext s wk = .ok (wk', r) :=
  GProofs.walkerNext_ok h wk

/-- the shape of every answer, in every graph and for every walker value (no hypothesis): a
`Some((e, n))` names an edge that is live *now*, and `n` is one of its endpoints -/
theorem C01_walker_answer_live (s : State) (wk wk' : Walker) (e n : Nat)
    (h : walkerNext s wk = .ok (wk', some (e, n))) :
    ∃ ed, s.edges[e]? = some ed ∧ (n = ed.src ∨ n = ed.tgt) :=
  GProofs.walkerNext_some h

/-- **all histories with interleaved walkers**: after any finite sequence of `Graph` calls,
`walkerNew` and `walkerNext` — in any interleaving, with any arguments — the whole sequence of answers
is a run of the walker-layer specification: every `Graph` call is accepted by `SpecAccepts2`, every
undisturbed walker answers the next item of `CGS.nbr` as it was when the walker was detached (in
order for a directed graph, as a multiset otherwise), a disturbed walker answers `None` or a live
edge with one of its endpoints; the final multigraph has the model's content -/
theorem C01_walker_all_histories (endv : Nat) (directed : Bool) (ops : List GW.WOp) :
    ∃ x : WSpec, SpecRunW ⟨CGS.empty endv directed, []⟩ ops (GW.run (GW.init endv directed) ops).2 x ∧
      x.ws.length = (GW.run (GW.init endv directed) ops).1.ws.length ∧
      x.sp.nodes = (GW.run (GW.init endv directed) ops).1.g.nodes.map (·.weight) ∧
      x.sp.edges.map (fun e => (e.src, e.tgt, e.weight)) =
        (GW.run (GW.init endv directed) ops).1.g.edges.map (fun e => (e.src, e.tgt, e.weight)) := by
  obtain ⟨x, hrun, hw⟩ := GProofs.wrun_refines ops _ _ (GProofs.winv_init endv directed)
  obtain ⟨st, ck, _, hsp⟩ := hw.rinv
  refine ⟨x, hrun, hw.len, ?_, ?_⟩
  · rw [hsp]; rfl
  · rw [hsp]; exact GProofs.absG_content _ _ _

/-- **never a fault, for any interleaving** of `Graph` calls (removals, `retain_*`, `clear`, `reverse`,
conversions … included) with the creation and stepping of detached walkers: no answer of any such
history is a fault — neither of a `Graph` call nor of a walker -/
theorem C01_walker_no_fault (endv : Nat) (directed : Bool) (ops : List GW.WOp) :
    ∀ o ∈ (GW.run (GW.init endv directed) ops).2, (∀ f, o ≠ .fault f) ∧ (∀ f, o ≠ .base (.fault f)) := by
  obtain ⟨x, hrun, _⟩ := GProofs.wrun_refines ops _ _ (GProofs.winv_init endv directed)
  exact GProofs.specRunW_no_fault hrun

/-- **an undisturbed walker lists exactly what `neighbors` / `edges` list.**  Detach a walker after
any history `pre` and let any quiet history `post` follow — link-preserving `Graph` calls (all
queries; weight mutation through every entry point, `map`, `into_edge_type`, an atomic bumping walk),
creation of further walkers, steps of any walker.  Then the `i`-th answer of the new walker is
`L[i]?` — the items of `L` in order, then `None` for ever — where `L` is, in the graph at the moment
of detaching: the specification's `CGS.nbr`; what the atomic `walk` lists; the (edge, neighbour)
sequence of `neighbors_directed` / `neighbors_undirected` of that mode; and its edge indices are those
of `edges_directed`. -/
theorem C01_walker_fresh_exact (endv : Nat) (directed : Bool) (pre : List GW.WOp) (a mode : Nat) (post : List GW.WOp)
    (hq : ∀ op ∈ post, op.quietFor = true) :
    ∃ (st : Nat → Nat) (ck : Nat) (L : List (Nat × Nat)),
      RInv (GW.run (GW.init endv directed) pre).1.g st ck ∧
      L = CGS.nbr (absG (GW.run (GW.init endv directed) pre).1.g st ck) a (GProofs.normMode mode) ∧
      (let s0 := (GW.run (GW.init endv directed) pre).1
       let ans := GW.answersOf s0.ws.length post (GW.run (GW.step s0 (.walkerNew a mode)).1 post).2
       ans = (List.range ans.length).map (fun i => GW.WOut.item L[i]?) ∧
       step s0.g (.walk a mode false) = (s0.g, .pairs L) ∧
       (mode = 2 → neighborsUndirected s0.g a = .ok L) ∧
       (∀ k : Bool, mode = (if k then 1 else 0) → neighborsDirected s0.g a k = .ok L ∧
          ∃ refs, edgesDirected s0.g a k = .ok refs ∧ refs.map (·.ix) = L.map (·.1))) := by
  obtain ⟨x, _, hw⟩ := GProofs.wrun_refines pre _ _ (GProofs.winv_init endv directed)
  obtain ⟨st, ck, hr, _⟩ := hw.rinv
  refine ⟨st, ck, _, hr, rfl, ?_, ?_, ?_, ?_⟩
  · have hws : (GW.step (GW.run (GW.init endv directed) pre).1 (.walkerNew a mode)).1.ws[(GW.run (GW.init endv directed) pre).1.ws.length]? =
        some (walkerNew (GW.run (GW.init endv directed) pre).1.g a mode) := by
      show ((GW.run (GW.init endv directed) pre).1.ws ++ [_])[_]? = _
      rw [List.getElem?_append_right (Nat.le_refl _)]
      simp
    exact GProofs.answers_of_rem _ post _ _ _ hr.inv hws (GProofs.rem_to_remG (GProofs.rem_new hr a mode)) hq
  · obtain ⟨l, h1, h2⟩ := GProofs.walk_result hr a mode false
    have hf : ∀ (l : List (Nat × Nat)) (g : State), l.foldl (fun g p => GProofs.bumpIf false g p.1) g = g := by
      intro l
      induction l with
      | nil => intro g; rfl
      | cons p l ih => intro g; rw [List.foldl_cons, ih]; rfl
    simp only [step, h1, liftF, hf]
    rw [h2]
  · intro hm
    rw [hm]
    exact hr.neighborsUndirected_eq a
  · intro k hm
    have hn : GProofs.normMode mode = (if k then 1 else 0) := by
      rw [hm]; cases k <;> rfl
    rw [hn]
    refine ⟨hr.neighborsDirected_eq a k, _, hr.edgesDirected_eq a k, ?_⟩
    rw [List.map_map]
    exact GProofs.refs_ix _ a k

/-- **every walker runs dry, stale ones included.**  After any history `pre`, for EVERY walker in the
table — whatever happened to the graph since it was detached — there is a list `R` of at most `2 m`
items (`m` = current edge count) such that, while only quiet calls follow, the `i`-th answer of that
walker is `R[i]?`: at most `2 m` items, then `None` for ever.  (The harness runs walkers to exhaustion
at the end of a case and reports a walker that yields more than `2 m + 2` items.) -/
theorem C01_walker_terminates (endv : Nat) (directed : Bool) (pre : List GW.WOp) (w : Nat) (post : List GW.WOp)
    (hw : w < (GW.run (GW.init endv directed) pre).1.ws.length) (hq : ∀ op ∈ post, op.quietFor = true) :
    ∃ R : List (Nat × Nat), R.length ≤ 2 * (GW.run (GW.init endv directed) pre).1.g.edges.length ∧
      (let ans := GW.answersOf w post (GW.run (GW.run (GW.init endv directed) pre).1 post).2
       ans = (List.range ans.length).map (fun i => GW.WOut.item R[i]?)) := by
  obtain ⟨x, _, hwi⟩ := GProofs.wrun_refines pre _ _ (GProofs.winv_init endv directed)
  obtain ⟨st, ck, hr, _⟩ := hwi.rinv
  obtain ⟨R, hrem, hlen⟩ := GProofs.remG_any hr.inv ((GW.run (GW.init endv directed) pre).1.ws[w])
  exact ⟨R, hlen, GProofs.answers_of_rem w post _ _ R hr.inv (List.getElem?_eq_getElem hw) hrem hq⟩

/-! ### conversions `Graph ↔ StableGraph`: the C01 and the C02 model agree (wave 4)

C01 models the round trip `Graph::from(StableGraph::from(g))` as `rebuild` (re-insertion in index
order).  The C02 vertical has its own mirror model `SG` of `stable_graph/mod.rs`, in which
`Graph::from(stable_graph)` is `SG.toGraph` and a plain `Graph` is a state without vacancies.
`toStable` is `StableGraph::from(graph)` from a C01 state to a C02 state (weights wrapped in `Some`,
links kept, counts = lengths, empty free lists; `noLimit` / `debug` are the two build parameters the
C02 model carries). -/

/-- `StableGraph::from(graph)` between the two mirror models -/
abbrev toStable := C01Conv.toStable
/-- C01's plain multigraph read as a C02 reference multigraph (every slot live, stamps forgotten) -/
abbrev liftSpec := C01Conv.liftSpec

/-- **the two models agree on `Graph → StableGraph → Graph`.**  For every C01 state satisfying the
invariant, every index width and both build modes: C02's `Graph::from` applied to
`StableGraph::from(g)` returns — without fault — exactly the embedding of C01's `rebuild g`; both the
intermediate `StableGraph` and the result satisfy C02's invariant; in C02's reference semantics the
result is the compaction of the input, which (no vacancy) keeps every node and edge index; and in
C01's terms node weights and `(source, target, weight)` per edge index are unchanged, the result
being a removal-free state (`Inv1`: adjacency = descending index). -/
theorem C01_conversion_agrees_with_C02 (s : State) (h : Inv s) (noLimit debug : Bool) :
    ∃ s', rebuild s = .ok s' ∧
      SG.toGraph (toStable noLimit debug s) = .ok (toStable noLimit debug s') ∧
      SGProofs.Inv (toStable noLimit debug s) ∧ SGProofs.Inv (toStable noLimit debug s') ∧
      SGProofs.abs (toStable noLimit debug s') = (SGProofs.abs (toStable noLimit debug s)).compact ∧
      (SGProofs.abs (toStable noLimit debug s')).equiv (SGProofs.abs (toStable noLimit debug s)) ∧
      s'.nodes.map (·.weight) = s.nodes.map (·.weight) ∧ s'.edges.map edgeEnds = s.edges.map edgeEnds ∧
      s'.endv = s.endv ∧ s'.directed = s.directed ∧ Inv1 s' := by
  obtain ⟨s', h1, h2, h3, h4, h5, h6⟩ := C01Conv.rebuild_toGraph noLimit debug s h
  have hi := C01Conv.inv_toStable noLimit debug s h
  obtain ⟨r1, r2, _⟩ := SGProofs.toGraph_refines hi h2
  have hnv := SGProofs.toGraph_no_vacancy hi h2
    (by rw [C01Conv.nodeBound_toStable]; rfl) (by rw [C01Conv.edgeBound_toStable]; rfl)
  obtain ⟨s'', f1, f2, _⟩ := GProofs.filterMap_refines h id 0 [] [] 0 0
  have : s'' = s' := by
    have : rebuild s = .ok s'' := f1
    rw [h1] at this
    exact (Except.ok.inj this).symm
  subst this
  exact ⟨s'', h1, h2, hi, r2, r1, hnv, h5, h6, h3, h4, f2⟩

/-- C02's reference multigraph of `StableGraph::from(g)` is C01's plain multigraph of `g` -/
theorem C01_stable_abs (s : State) (st : Nat → Nat) (ck : Nat) (noLimit debug : Bool) :
    SGProofs.abs (toStable noLimit debug s) = liftSpec (absG s st ck) :=
  C01Conv.abs_toStable noLimit debug s st ck

/-- **`Graph::from(stable_graph)` lands in the C01 model, indices compacted in order.**  For ANY state
of the C02 model satisfying C02's invariant — vacancies, free lists, any history — whose live
weights are non-negative (C01 models weights as `Nat`): C02's `Graph::from` returns normally, its
result is the embedding of a C01 state `g` built by `add_node` / `add_edge` alone (`Inv1`, hence `Inv`
and every C01 theorem applies to it and to every history continuing from it), and the plain
multigraph of `g` is the compaction of the `StableGraph`'s reference multigraph: live nodes in index
order (new index = rank among the live nodes), live edges in index order with renamed endpoints. -/
theorem C01_from_stable_graph (sg : SG.State) (hinv : SGProofs.Inv sg)
    (hwn : ∀ n ∈ sg.nodes, 0 ≤ n.w.getD 0) (hwe : ∀ e ∈ sg.edges, 0 ≤ e.w.getD 0) :
    ∃ (r : SG.State) (g : State), SG.toGraph sg = .ok r ∧ r = toStable sg.noLimit sg.debug g ∧ Inv1 g ∧
      g.endv = sg.fin ∧ g.directed = sg.directed ∧
      ∀ st ck, liftSpec (absG g st ck) = (SGProofs.abs sg).compact := by
  obtain ⟨r, hr⟩ := C01Conv.toGraph_ok hinv
  obtain ⟨g, h1, h2, h3, h4⟩ := C01Conv.toGraph_image sg r
    (fun n hn w hw => by have := hwn n hn; rw [hw] at this; exact this)
    (fun e he w hw => by have := hwe e he; rw [hw] at this; exact this) hr
  refine ⟨r, g, hr, h1, h2, h3, h4, ?_⟩
  intro st ck
  have := (SGProofs.toGraph_refines hinv hr).1
  rw [h1, C01Conv.abs_toStable sg.noLimit sg.debug g st ck] at this
  exact this

/-! ### run-time checks of the hypotheses

Every history-quantified theorem above starts from a constructor (`G.empty` / `GW.init`) and has no
hypothesis about the concrete case: the driver's mirror state *is* `run (G.empty endv directed) ops`
for the requests seen so far, so `Inv` / `RInv` hold for it by `C01_rinv_all_histories`.  What the
driver does evaluate on every request:

* the two INPUT conditions of props/C01.json (`Spec/C01RunChecks.lean`): index arguments representable
  in the index type, a `usize` graph below `usize::MAX` elements — a failure is reported as
  `SPECFAIL generator left the proved range`;
* the classification "this call keeps the structure" (`GW.keepsLinks`), which decides whether a
  detached walker is still judged exactly — the hypothesis `quietFor` of `C01_walker_fresh_exact`;
* the walker judge itself (`specWalkerNext`). -/

/-- a passed `reprB` check: every index argument of the request is `≤ Ix::max()` -/
theorem C01_repr_check (endv : Nat) (l : List Nat) (h : C01Checks.reprB endv l = true) : ∀ a ∈ l, a ≤ endv := by
  intro a ha
  have := List.all_eq_true.mp h a ha
  simpa using this

/-- a passed `usizeOkB` check: a `usize` graph has fewer than `usize::MAX` nodes and edges, so the
model's limit test `END ≠ len` answers what the real (limit-free) `usize` code answers -/
theorem C01_usize_check (s : State) (h : C01Checks.usizeOkB s.endv s.nodes.length s.edges.length = true)
    (hu : s.endv = C01Checks.usizeMax) : canGrow s s.nodes.length = true ∧ canGrow s s.edges.length = true := by
  unfold C01Checks.usizeOkB at h
  simp only [hu, bne_self_eq_false, Bool.false_or, Bool.and_eq_true, decide_eq_true_eq] at h
  unfold canGrow
  simp only [hu, bne_iff_ne, ne_eq]
  omega

/-- a passed `keepsLinks` check: the call leaves every `next` link, every endpoint and both counts
as they are (so every walker keeps what it still has to list) -/
theorem C01_keepsLinks_check (s : State) (op : Op) (h : GW.keepsLinks op = true) :
    (step s op).1.endv = s.endv ∧
    (step s op).1.nodes.map (fun n => (n.next0, n.next1)) = s.nodes.map (fun n => (n.next0, n.next1)) ∧
    (step s op).1.edges.map (fun e => (e.next0, e.next1, e.src, e.tgt)) = s.edges.map (fun e => (e.next0, e.next1, e.src, e.tgt)) :=
  let hs := GProofs.keepsLinks_sameLinks s op h
  ⟨hs.endv, hs.nodes, hs.edges⟩

/-- an answer the driver's walker judge lets pass is an answer the specification accepts -/
theorem C01_walker_judge_check (x : WSpec) (w : Nat) (sw sw' : GProofs.SWalker) (ans : Option (Nat × Nat))
    (hw : x.ws[w]? = some sw) (h : GProofs.specWalkerNext x.sp sw ans = some sw') :
    WAccepts x (.walkerNext w) (.item ans) { x with ws := x.ws.set w sw' } := by
  show (match x.ws[w]? with
    | none => _
    | some sw => _)
  rw [hw]
  exact ⟨ans, sw', rfl, h, rfl⟩

/-! ### non-vacuity -/

/-- a concrete history: parallel edges, a self-loop, `update_edge`, `reverse`, a failing call -/
def demoOps : List Op :=
  [.addNode 1, .addNode 2, .addNode 3, .addEdge 0 1 5, .addEdge 0 2 6, .addEdge 0 1 7, .addEdge 2 2 8,
   .updateEdge 0 2 9, .tryAddEdge 0 7 1, .reverse, .neighborsDirected 1 false, .edgesDirected 2 true]

example : ∀ op ∈ demoOps, isCore op = true := by decide
example : (run (G.empty 255 true) demoOps).2.getLast? = some (.erefs [⟨3, 2, 2, 8⟩]) := rfl
example : ((run (G.empty 255 true) demoOps).2.drop 10).head? = some (.nats [0, 0]) := rfl
example : NamesAbsent (run (G.empty 255 true) demoOps).1 (.removeNode 3) :=
  (by decide : (run (G.empty 255 true) demoOps).1.nodes.length ≤ 3)

/-- a history with removals: after `remove_edge(0)` the last edge (index 3, the most recent one) adopts
index 0, and node 0's out-neighbours are still listed most recently added first — indices `0, 2, 1`,
not the descending-index order a stamp-free abstraction would predict -/
def demoOps2 : List Op :=
  [.addNode 1, .addNode 2, .addNode 3, .addEdge 0 1 5, .addEdge 0 2 6, .addEdge 0 1 7, .addEdge 0 2 8,
   .removeEdge 0, .neighborsDirected 0 false, .edgesDirected 0 false, .removeNode 1,
   .retainEdges [true, false] [true], .addEdge 1 0 9, .walk 0 2 true, .firstEdge 0 false, .nextEdge 0 false,
   .rebuild, .filterMap [true] [] 1 1, .edgeRefs]

example : ((run (G.empty 255 true) demoOps2).2.drop 8).head? = some (.nats [2, 1, 2]) := rfl
example : ((run (G.empty 255 true) demoOps2).2.drop 9).head? =
    some (.erefs [⟨0, 0, 2, 8⟩, ⟨2, 0, 1, 7⟩, ⟨1, 0, 2, 6⟩]) := rfl
example : ((run (G.empty 255 true) demoOps2).2.drop 13).head? = some (.pairs [(0, 1), (1, 1)]) := rfl
example : (run (G.empty 255 true) demoOps2).2.getLast? = some (.erefs [⟨0, 0, 1, 11⟩, ⟨1, 1, 0, 11⟩]) := rfl
example : ∃ op ∈ demoOps2, isCore op = false := ⟨.removeEdge 0, by simp [demoOps2], rfl⟩
example : ∃ sp, SpecRun2 (CGS.empty 255 true) demoOps2 (run (G.empty 255 true) demoOps2).2 sp :=
  let ⟨_, sp, h, _⟩ := C01_all_histories 255 true demoOps2; ⟨sp, h⟩

/-! non-vacuity of the wave-4 theorems -/

/-- walkers interleaved with weight mutation (keeps them exact), `remove_edge` / `remove_node` / `clear`
(disturb them): walker 0 walks the out-list of node 0, walker 1 all incident edges of node 0 -/
def demoW : List GW.WOp :=
  [.base (.addNode 1), .base (.addNode 2), .base (.addNode 3), .base (.addEdge 0 1 5), .base (.addEdge 0 2 6),
   .base (.addEdge 0 1 7), .base (.addEdge 2 0 8),
   .walkerNew 0 0, .walkerNext 0, .base (.edgeWeightMut 2 9), .walkerNew 0 2, .walkerNext 0, .walkerNext 1,
   .base (.removeEdge 0), .walkerNext 0, .walkerNext 1, .walkerNext 1, .base (.removeNode 0), .walkerNext 1, .walkerNext 1,
   .base .clear, .walkerNext 1]

/-- the stale walker 0 keeps answering after `remove_edge(0)` moved edge 3 = (2 → 0) to index 0: it
reads the *new* edge 0 and answers `(0, 0)` — a live edge with one of its endpoints, as specified -/
example : ((GW.run (GW.init 255 true) demoW).2.drop 7).take 8 =
    [.walkerId 0, .item (some (2, 1)), .base (.optNat (some 7)), .walkerId 1, .item (some (1, 2)),
     .item (some (2, 1)), .base (.optNat (some 5)), .item (some (0, 0))] := rfl
example : ∃ x, SpecRunW ⟨CGS.empty 255 true, []⟩ demoW (GW.run (GW.init 255 true) demoW).2 x :=
  let ⟨x, h, _⟩ := C01_walker_all_histories 255 true demoW; ⟨x, h⟩
/-- the hypothesis of `C01_walker_fresh_exact` is satisfiable by a history that mutates weights,
switches the edge type, queries, creates and steps other walkers -/
example : ∀ op ∈ ([.walkerNext 0, .base (.edgeWeightMut 2 9), .base (.intoEdgeType false), .walkerNew 0 2,
    .walkerNext 0, .walkerNext 1, .base (.neighbors 0), .base (.map 1 1), .walkerNext 0, .walkerNext 0] : List GW.WOp),
    op.quietFor = true := by decide
/-- the hypothesis of `C01_walker_terminates`: walker 1 exists after `demoW` (it is stale: `clear`) -/
example : 1 < (GW.run (GW.init 255 true) demoW).1.ws.length := by decide
/-- … and it is sharp: `remove_edge` is not quiet -/
example : (GW.WOp.base (.removeEdge 0)).quietFor = false := rfl

/-- `C01_conversion_agrees_with_C02` applies to every reachable state, e.g. after `demoOps2` -/
example : ∃ s', rebuild (run (G.empty 255 true) demoOps2).1 = .ok s' ∧
    SG.toGraph (toStable false true (run (G.empty 255 true) demoOps2).1) = .ok (toStable false true s') :=
  let ⟨s', h1, h2, _⟩ := C01_conversion_agrees_with_C02 _ (C01_inv_all_histories 255 true demoOps2) false true
  ⟨s', h1, h2⟩

/-- a `StableGraph` history that leaves a vacancy (node 0 removed) and re-uses a vacant edge slot -/
def demoSGops : List SG.Op :=
  [.addNode 1, .addNode 2, .addNode 3, .addEdge 0 1 10, .addEdge 1 2 11, .addEdge 2 2 12, .removeNode 0, .addEdge 2 1 13]
def demoSG : SG.State :=
  ((SG.run (SG.empty true 255 false true) demoSGops).toOption.map (·.1)).getD (SG.empty true 255 false true)

/-- the hypotheses of `C01_from_stable_graph` hold for it, it has a vacancy, and the conversion
renames node 1 ↦ 0, node 2 ↦ 1 -/
example : SGProofs.Inv demoSG ∧ demoSG.nodeCount < SG.nodeBound demoSG ∧
    (∀ n ∈ demoSG.nodes, 0 ≤ n.w.getD 0) ∧ (∀ e ∈ demoSG.edges, 0 ≤ e.w.getD 0) ∧
    ((SG.toGraph demoSG).toOption.map fun r => r.edges.map fun e => (e.a, e.b)) = some [(1, 0), (0, 1), (1, 1)] := by
  refine ⟨?_, by decide, by decide, by decide, by decide⟩
  obtain ⟨s', outs, hrun, hinv⟩ := C01Conv.sg_run_inv demoSGops _ (SGProofs.inv_empty true 255 false true)
  have : demoSG = s' := by simp only [demoSG, hrun]; rfl
  rw [this]; exact hinv

/-! ### wave 6 — corners of the API: `clone_from`, `into_nodes_edges`, the harness-side laws -/

/-- **`a.clone_from(&b)` is `a = b.clone()` for EVERY prior graph `a`** — `Vec::clone_from` (truncate, element-wise
`clone_from` on the common prefix, extend with clones of the rest; `C01W6.vecCloneFrom`) with `Node`/`Edge`
clones that copy every field (`clone_fields!`) gives the source state, whatever the destination held; and the
source state is what the model's `clone` op yields, so every `clone k` line of the harness (clone; `clone_from`
onto an arbitrary smaller/larger prior graph; onto a mutated clone of itself; clone-then-mutate either copy) is
judged against the right state.  No hypothesis. -/
theorem C01_clone_from_is_clone (dst src : State) :
    C01W6.cloneFrom dst src = src ∧ (G.step src .clone).1 = src :=
  C01W6.clone_from_is_clone dst src

/-- the full-strength variant "`clone_from` = `clone` for every element `clone_from` that copies the weight and
the links" is FALSE: the round-5 seeded `Edge::clone_from` (forgets `node`) differs from `clone` as soon as the
destination holds an edge with other endpoints … -/
theorem C01_clone_from_every_field_false_witness :
    ∃ dst src : List Edge, C01W6.vecCloneFrom C01W6.edgeCloneFromSeeded dst src ≠ src :=
  C01W6.clone_from_needs_every_field

/-- … and it is invisible onto an edge-free destination, for ANY element `clone_from` (the element function is
never called): a `clone_from` test must start from a destination with edges of its own -/
theorem C01_clone_from_onto_empty (cf : Edge → Edge → Edge) (src : List Edge) : C01W6.vecCloneFrom cf [] src = src :=
  C01W6.clone_from_onto_empty_hides cf src

/-- **`into_nodes_edges` followed by re-insertion in index order is `rebuild`** (the conversion through
`StableGraph`, `filter_map` keeping everything): in every state satisfying the invariant both loops succeed —
no capacity panic, no absent endpoint — and produce exactly `rebuild s`.  The driver judges `rebuild 1`
(`into_nodes_edges`) with the op it uses for `rebuild 0`. -/
theorem C01_into_nodes_edges_is_rebuild (s : State) (h : Inv s) :
    ∃ g, C01W6.reAdd s = some g ∧ rebuild s = .ok g :=
  C01W6.into_nodes_edges_readd_inv s h

/-- … for every reachable state (any history, width, edge type) -/
theorem C01_into_nodes_edges_all_histories (endv : Nat) (directed : Bool) (ops : List Op) :
    ∃ g, C01W6.reAdd (run (G.empty endv directed) ops).1 = some g ∧ rebuild (run (G.empty endv directed) ops).1 = .ok g :=
  C01_into_nodes_edges_is_rebuild _ (C01_inv_all_histories endv directed ops)

/-- non-vacuity: after a history with removals (links no longer in index order) the re-insertion gives the
`rebuild` state, and that state differs from the original (the adjacency order is reset to index order) -/
example : ∃ g, C01W6.reAdd (run (G.empty 255 true) demoOps2).1 = some g ∧ rebuild (run (G.empty 255 true) demoOps2).1 = .ok g :=
  C01_into_nodes_edges_all_histories 255 true demoOps2
/-- non-vacuity of `C01_clone_from_is_clone`: a destination with more edges than the source, other endpoints -/
example : C01W6.cloneFrom (run (G.empty 255 true) demoOps2).1 (run (G.empty 255 false) [.addNode 1, .addNode 2, .addEdge 1 0 3]).1
    = (run (G.empty 255 false) [.addNode 1, .addNode 2, .addEdge 1 0 3]).1 :=
  (C01_clone_from_is_clone _ _).1

/-- run-time check: a `law …` line the driver answers `ok` is a line on which the harness-side law held
(`C01Checks.lawVerdict`); everything else — `VIOLATED <why>`, a panic inside the law — is a SPECFAIL -/
theorem C01_law_check (name impl : String) (h : C01Checks.lawVerdict name impl = none) : impl = "ok" :=
  C01W6.lawVerdict_ok name impl h

/-- run-time check: the optional item-form word of `extend_with_edges` / `from_edges` is absent or one of the
six `IntoWeightedEdge` forms; any other request is rejected as a bad request -/
theorem C01_form_check (form : List String) (h : C01Checks.formOkB form = true) :
    form = [] ∨ ∃ f, form = [f] ∧ f ∈ ["f0", "f1", "f2", "f3", "f4", "f5"] :=
  C01W6.formOk_cases form h

end PetgraphModel.C01T
