import PetgraphModel.Model.Acyclic
import PetgraphModel.Spec.Dag
import PetgraphModel.Proofs.Acyclic
import PetgraphModel.Proofs.AcyclicPK
import PetgraphModel.Proofs.AcyclicNP
import PetgraphModel.Proofs.AcyclicTS
import PetgraphModel.Proofs.C14W2Topo
/-
C14 — `Acyclic<G>` never lets a cycle in and keeps a valid topological order.

Only property theorems live here; helper lemmas are in `Proofs/Acyclic*.lean`.  Two layers:

* the SPECIFICATION (`Spec/Dag.lean`): acyclicity, topological orders, the dynamic clause
  "reject exactly self-loops and cycle-closing insertions", and the soundness of the executable
  judges that `./check C14` applies to every answer of the real crate (verified checker);
* the MIRROR MODEL (`Model/Acyclic.lean`, tied to /repo/src/acyclic.rs + order_map.rs by the exact
  correspondence run), for every call and every finite history:
    - `C14_ordermap_inv_*`      order map = bijection between live nodes and positions,
    - `C14_order_valid*`        every edge goes forward in the maintained order (Pearce–Kelly reorder lemma),
    - `C14_inner_graph_acyclic` hence the inner graph never has a cycle,
    - `C14_model_reject_iff_cycle`, `C14_never_lets_cycle_in`  rejected ⇔ self-loop or `b ⇝ a`,
    - `C14_reject_unchanged`, `C14_valid_edge_predicts`, `C14_is_valid_edge_pure`,
    - `C14_remove_absent_noop`, `C14_remove_keeps_others`  (D16 / D17 stay fixed),
    - `C14_no_panic*`           no mirrored assert / debug_assert / unreachable / bound check fires and the fuel suffices,
    - `C14_try_from_graph_sound` accepted ⇒ invariant + valid order (⇒ acyclic),
    - `C14_try_from_graph_complete` acyclic ⇒ accepted, given the fuel hypothesis `TopoFuelOk`
      (`C14_try_from_graph_complete_statement` without it is false: `…_statement_false_witness`),
      `C14_try_from_graph_no_false_cycle` (no fuel hypothesis), `C14_try_from_graph_exact` (⇔).

The inner graph is a parameter of the model: a call comes with the graph `v'` the inner `G` leaves
behind, constrained only by `Call.InnerOk` / `EdgesOk` (which indices are live and which edges exist
afterwards) — so the theorems hold for `DiGraph` (whose `remove_node` renumbers its last node) and
`StableDiGraph` (which reuses vacant indices) alike.
-/
namespace PetgraphModel.C14T
open PetgraphModel PetgraphModel.MGraph PetgraphModel.Oracle PetgraphModel.Dag PetgraphModel.Acy
open PetgraphModel.AcyProofs PetgraphModel.AcyPK PetgraphModel.AcyNP PetgraphModel.AcyTS PetgraphModel.AcyW2

/-! ### the specification and its judges -/

/-- a directed graph that has a topological order has no cycle -/
theorem C14_topo_order_acyclic (g : MGraph) (hd : g.directed = true) (order : List Nat)
    (h : TopoOrder g order) : Dag.Acyclic g :=
  topo_acyclic hd h

/-- JUDGE SOUNDNESS (order): a dump whose `nodes_iter` the judge accepts lists exactly the live
nodes, each once, with every edge going from an earlier to a later place — and therefore the inner
graph is acyclic. -/
theorem C14_judgeOrder_sound (g : MGraph) (hd : g.directed = true) (order : List Nat)
    (h : judgeOrder g order = none) : TopoOrder g order ∧ Dag.Acyclic g :=
  ⟨judgeOrder_sound g order h, topo_acyclic hd (judgeOrder_sound g order h)⟩

/-- JUDGE SOUNDNESS (`try_from_graph` / `TryFrom`): the oracle-based cycle test is exact:
`some none` only for acyclic graphs, `some (some e)` only with an edge `e` on a closed walk. -/
theorem C14_cycleEdge_sound (g : MGraph) (hd : g.directed = true) :
    (cycleEdge g = some none → Dag.Acyclic g) ∧
    (∀ e, cycleEdge g = some (some e) → e ∈ g.edges ∧ Reach1 g e.src e.src) :=
  cycleEdge_sound g hd

/-- THE DYNAMIC CLAUSE: inserting `a → b` into an acyclic graph produces a cycle exactly when
`a = b` or `b` already reaches `a`. -/
theorem C14_reject_iff_cycle (g : MGraph) (hd : g.directed = true) (hac : Dag.Acyclic g)
    (id a b : Nat) (w : Int) : ¬ Dag.Acyclic (addEdge g id a b w) ↔ MustReject g a b :=
  reject_iff_cycle hd hac id a b w

/-- JUDGE SOUNDNESS (insertions): the verdict the driver demands of `try_add_edge`,
`try_update_edge`, `Build::add_edge`, `Build::update_edge` is the specification's. -/
theorem C14_mustReject_sound (g : MGraph) (a b : Nat) (r : Bool) (h : mustRejectB g a b = some r) :
    r = true ↔ MustReject g a b :=
  mustRejectB_sound g a b r h

/-- JUDGE SOUNDNESS (`is_valid_edge`): accepted answers say `true` exactly for the insertions the
specification admits. -/
theorem C14_judgeValid_sound (g : MGraph) (l : List (Nat × Nat × Bool)) (h : judgeValid g l = none)
    (a b : Nat) (r x : Bool) (hm : (a, b, r) ∈ l) (ho : mustRejectB g a b = some x) :
    r = true ↔ ¬ MustReject g a b :=
  judgeValid_sound g l h a b r x hm ho

/-! ### the mirror model: the order map -/

/-- the order-map invariant: `pos_to_node` is a well-formed map and `pos_to_node` / `node_to_pos`
are mutually inverse on exactly the live nodes -/
abbrev OMInv := AcyProofs.OMInv
/-- order-map invariant + both scratch bit sets clear + the inner graph's neighbour lists stay
within its live nodes -/
abbrev Inv := AcyProofs.Inv
abbrev Call := AcyProofs.Call
abbrev stepCall := AcyProofs.stepCall
abbrev runCalls := AcyProofs.runCalls
abbrev HistoryOk := AcyProofs.HistoryOk

/-- `Acyclic::new()` establishes the invariant. -/
theorem C14_ordermap_inv_new :
    Inv { (default : View) with g := { directed := true, nodes := [], edges := [] } } {} :=
  inv_new

/-- `C14_ordermap_inv` (one call): `add_node`, `try_add_edge` / `try_update_edge` / `Build::add_edge`
/ `Build::update_edge` (accepted with or without a reorder, or rejected), `remove_node` (present —
for both behaviours of the inner graph — or absent), `remove_edge`, `is_valid_edge` all preserve
the invariant, whenever the call does not panic. -/
theorem C14_ordermap_inv_step (v : View) (s : AState) (c : Call) (v1 : View) (s1 : AState)
    (hinv : Inv v s) (hok : c.InnerOk v) (h : stepCall v s c = .ok (v1, s1)) : Inv v1 s1 :=
  inv_step hinv hok h

/-- `C14_ordermap_inv` (all histories): after any finite call sequence from a state satisfying the
invariant, the invariant holds. -/
theorem C14_ordermap_inv_history (cs : List Call) (v : View) (s : AState) (vn : View) (sn : AState)
    (hinv : Inv v s) (hok : HistoryOk v s cs) (h : runCalls v s cs = .ok (vn, sn)) : Inv vn sn :=
  inv_history cs v s vn sn hinv hok h

/-- under the invariant the maintained order (`nodes_iter`) lists exactly the live nodes, each once -/
theorem C14_order_lists_live (L : List Nat) (om : OrderMap) (h : OMInv L om) :
    om.nodesIter.Nodup ∧ ∀ x, x ∈ om.nodesIter ↔ x ∈ L :=
  h.nodesIter

/-- under the invariant `at_position` is the inverse of `get_position` on the live nodes, and
distinct live nodes have distinct positions -/
theorem C14_at_position_inverse (L : List Nat) (om : OrderMap) (h : OMInv L om) :
    (∀ p n, om.atPos p = some n ↔ n ∈ L ∧ om.getPos n = .ok p) ∧
    (∀ a b, a ∈ L → b ∈ L → a ≠ b → om.getPos a ≠ om.getPos b) :=
  ⟨h.atPos, fun _ _ ha hb hab => h.pos_inj ha hb hab⟩

/-- `C14_reject_unchanged`: a rejected insertion (`Err(SelfLoop)`, `Err(Cycle)`) leaves the order
map and both scratch sets exactly as they were (only the capacity of the scratch sets may have
grown, which no call can observe). -/
theorem C14_reject_unchanged (v : View) (hc : Closed v) (s s' : AState) (a b : Nat) (r : EdgeRes)
    (hinv : OMInv v.g.nodes s.om) (hclr : Clear s) (ha : a ∈ v.g.nodes) (hb : b ∈ v.g.nodes)
    (h : tryAddEdge v s a b = .ok (s', r)) (hrej : r ≠ .accepted) :
    s'.om = s.om ∧ s'.disc = s.disc ∧ s'.fin = s.fin ∧ s.cap ≤ s'.cap :=
  let t := tryAddEdge_spec hc hinv hclr ha hb h
  ⟨(t.2.2.2 hrej).1, (t.2.2.2 hrej).2.1, (t.2.2.2 hrej).2.2, t.2.2.1⟩

/-- `C14_valid_edge_predicts`: on live nodes, `is_valid_edge(a, b)` is `true` exactly when
`try_add_edge(a, b)` / `try_update_edge(a, b)` accepts. -/
theorem C14_valid_edge_predicts (v : View) (s s1 s2 : AState) (a b : Nat) (r : Bool) (res : EdgeRes)
    (hinv : OMInv v.g.nodes s.om) (ha : a ∈ v.g.nodes) (hb : b ∈ v.g.nodes)
    (h1 : isValidEdge v s a b = .ok (s1, r)) (h2 : tryAddEdge v s a b = .ok (s2, res)) :
    r = true ↔ res = .accepted :=
  valid_iff_accepts hinv ha hb h1 h2

/-- `is_valid_edge` changes nothing observable (it may only grow the scratch sets). -/
theorem C14_is_valid_edge_pure (v : View) (hc : Closed v) (s s' : AState) (a b : Nat) (r : Bool)
    (ha : a ∈ v.g.nodes) (hb : b ∈ v.g.nodes) (hclr : Clear s)
    (h : isValidEdge v s a b = .ok (s', r)) : s'.om = s.om ∧ Clear s' ∧ s.cap ≤ s'.cap :=
  isValidEdge_spec hc ha hb hclr h

/-- removing an absent node is a no-op returning `None` (D17 stays fixed). -/
theorem C14_remove_absent_noop (v v' : View) (s : AState) (n : Nat) (hn : n ∉ v.g.nodes) :
    Acy.removeNode v v' s n = .ok (s, false) :=
  removeNode_absent v v' s n hn

/-- removing a node never disturbs the bookkeeping of the others: every other index keeps its
position, and when the inner graph moved its last node into the freed index, that index now has
the moved node's position (D16 stays fixed). -/
theorem C14_remove_keeps_others (v v' : View) (s s' : AState) (n : Nat) (r : Bool)
    (h : Acy.removeNode v v' s n = .ok (s', r)) :
    (∀ x, x ≠ n → s'.om.getPos x = s.om.getPos x) ∧
    (n ∈ v.g.nodes → n ∈ v'.g.nodes → v.nb - 1 ≠ n → s'.om.getPos n = s.om.getPos (v.nb - 1)) :=
  removeNode_positions h

/-! ### the mirror model: valid order, cycle rejection, no panic, `try_from_graph` -/

/-- every edge of the view goes forward in the maintained order -/
abbrev OrderValid := AcyProofs.OrderValid
/-- the view's neighbour lists are the adjacency of its abstract graph -/
abbrev ViewOk := AcyProofs.ViewOk

/-- `C14_order_valid` (the Pearce–Kelly reorder lemma): an accepted insertion `a → b` — whether
`b` already was after `a`, or the two bounded cone searches ran and their positions were reassigned
— leaves an order in which every old edge AND the new edge go forward. -/
theorem C14_order_valid (v : View) (s s' : AState) (a b : Nat) (hv : ViewOk v) (hinv : Inv v s)
    (hov : OrderValid v s.om) (hsrc : ∀ x y, y ∈ v.succ x → x ∈ v.g.nodes)
    (ha : a ∈ v.g.nodes) (hb : b ∈ v.g.nodes)
    (h : tryAddEdge v s a b = .ok (s', .accepted)) :
    OrderValid v s'.om ∧ ∀ pa pb, s'.om.getPos a = .ok pa → s'.om.getPos b = .ok pb → pa < pb :=
  order_valid_accept hv hinv hov hsrc ha hb h

/-- order-map invariant + valid order + well-formed view -/
abbrev Inv2 := AcyPK.Inv2
abbrev EdgesOk := AcyPK.EdgesOk
abbrev HistoryOk2 := AcyPK.HistoryOk2

/-- `C14_order_valid` (one call): every call keeps the maintained order a valid topological order of
the inner graph it leaves behind — including `remove_node` on a `DiGraph`, where the last node is
renumbered into the freed index (`rho`). -/
theorem C14_order_valid_step (v : View) (s : AState) (c : Call) (v1 : View) (s1 : AState)
    (hinv : Inv2 v s) (hok : c.InnerOk v) (hek : EdgesOk v c) (h : stepCall v s c = .ok (v1, s1)) :
    Inv2 v1 s1 :=
  inv2_step hinv hok hek h

/-- `C14_order_valid` (all histories): after any finite call sequence the order map is a bijection
with the live nodes AND every edge of the inner graph goes from an earlier to a later position. -/
theorem C14_order_valid_history (cs : List Call) (v : View) (s : AState) (vn : View) (sn : AState)
    (hinv : Inv2 v s) (hok : HistoryOk2 v s cs) (h : runCalls v s cs = .ok (vn, sn)) : Inv2 vn sn :=
  inv2_history cs v s vn sn hinv hok h

/-- what `Inv2` means for the abstract graph: every edge has its endpoints positioned, source first. -/
theorem C14_order_is_topological (v : View) (s : AState) (h : Inv2 v s)
    (hwf : ∀ e ∈ v.g.edges, e.src ∈ v.g.nodes ∧ e.tgt ∈ v.g.nodes) :
    ∀ e ∈ v.g.edges, ∃ ps pt, s.om.getPos e.src = .ok ps ∧ s.om.getPos e.tgt = .ok pt ∧ ps < pt :=
  inv2_topo h hwf

/-- NEVER LETS A CYCLE IN (model level): on a valid order, an insertion `a → b` that the model
accepts had no path `b ⇝ a` — so by `C14_reject_iff_cycle` the graph with the new edge is acyclic. -/
theorem C14_never_lets_cycle_in (v : View) (s s' : AState) (a b : Nat) (hv : ViewOk v) (hinv : Inv v s)
    (hov : OrderValid v s.om) (hd : v.g.directed = true) (hac : Dag.Acyclic v.g)
    (ha : a ∈ v.g.nodes) (hb : b ∈ v.g.nodes)
    (h : tryAddEdge v s a b = .ok (s', .accepted)) (id : Nat) (w : Int) :
    a ≠ b ∧ ¬ Reach v.g b a ∧ Dag.Acyclic (addEdge v.g id a b w) := by
  have hab : a ≠ b := by
    intro hab
    unfold tryAddEdge at h
    simp [hab] at h
  have hnp := accepted_no_path hv hinv hov ha hb hab h
  refine ⟨hab, hnp, ?_⟩
  apply Classical.byContradiction
  intro hcyc
  rcases (reject_iff_cycle hd hac id a b w).mp hcyc with h1 | h1
  · exact hab h1
  · exact hnp h1

/-- `C14_reject_iff_cycle` at the model level: on a valid order, `try_add_edge(a, b)` /
`try_update_edge(a, b)` on live nodes is rejected exactly when the specification demands it —
`Err(SelfLoop)` iff `a = b`, `Err(Cycle(b))` iff `a ≠ b` and `b` reaches `a` — and accepted otherwise. -/
theorem C14_model_reject_iff_cycle (v : View) (s s' : AState) (a b : Nat) (r : EdgeRes) (hv : ViewOk v)
    (hinv : Inv v s) (hov : OrderValid v s.om) (ha : a ∈ v.g.nodes) (hb : b ∈ v.g.nodes)
    (h : tryAddEdge v s a b = .ok (s', r)) :
    (r = .selfLoop ↔ a = b) ∧ (r = .cycle b ↔ a ≠ b ∧ Reach v.g b a) ∧ (r ≠ .accepted ↔ MustReject v.g a b) := by
  have hself : r = .selfLoop ↔ a = b := by
    unfold tryAddEdge at h
    split at h
    · rename_i hab; cases h; exact ⟨fun _ => hab, fun _ => rfl⟩
    rename_i hab
    split at h
    · cases h
    · cases h; exact ⟨fun hh => (by cases hh), fun hh => absurd hh hab⟩
    · split at h
      · cases h; exact ⟨fun hh => (by cases hh), fun hh => absurd hh hab⟩
      · cases h
  have hcyc : r = .cycle b ↔ a ≠ b ∧ Reach v.g b a := by
    constructor
    · intro hr
      subst hr
      exact ⟨(tryAddEdge_cycle_inv h).1, cycle_has_path hv hinv hov ha hb h⟩
    · rintro ⟨hab, hreach⟩
      cases r with
      | accepted => exact absurd hreach (accepted_no_path hv hinv hov ha hb hab h)
      | selfLoop => exact absurd (hself.mp rfl) hab
      | cycle n =>
        have : n = b := by
          have hu := (tryAddEdge_cycle_inv h).2
          unfold tryAddEdge at h
          simp only [hab, ↓reduceIte, hu] at h
          cases h; rfl
        rw [this]
  refine ⟨hself, hcyc, ?_⟩
  unfold MustReject
  constructor
  · intro hne
    cases r with
    | accepted => exact absurd rfl hne
    | selfLoop => exact Or.inl (hself.mp rfl)
    | cycle n => exact Or.inr (cycle_has_path hv hinv hov ha hb h)
  · rintro (hab | hreach) hacc
    · subst hacc
      have := hself.mpr hab
      cases this
    · subst hacc
      by_cases hab : a = b
      · have := hself.mpr hab
        cases this
      · exact accepted_no_path hv hinv hov ha hb hab h hreach

/-- the hypotheses under which nothing can go wrong: `Inv2`, live indices below `node_bound`, and
neighbour lists no longer than the edge list allows (the driver checks the last two on every graph line) -/
abbrev Safe := AcyNP.Safe

/-- NO PANIC, FUEL SUFFICES: under the invariant with a valid order, `try_add_edge` /
`try_update_edge` and `is_valid_edge` on live nodes always return — none of the asserts,
`debug_assert!`s, `unreachable!`, `expect` or bit-set bound checks mirrored in the model can fire and
the fuel of the model's recursion is never exhausted. -/
theorem C14_no_panic (v : View) (s : AState) (a b : Nat) (hs : Safe v s)
    (ha : a ∈ v.g.nodes) (hb : b ∈ v.g.nodes) :
    (∃ r, tryAddEdge v s a b = .ok r) ∧ (∃ r, isValidEdge v s a b = .ok r) :=
  ⟨tryAddEdge_total hs ha hb, isValidEdge_total hs ha hb⟩

/-- NO PANIC (any call): every call admitted by the inner-graph contract returns. -/
theorem C14_no_panic_step (v : View) (s : AState) (c : Call) (hs : Safe v s) (hok : c.InnerOk v)
    (hnb : ∀ i v', c = .addNode i v' → i < v'.nb) : ∃ r, stepCall v s c = .ok r :=
  stepCall_total hs hok hnb

/-- NEVER A CYCLE (all histories): whenever the invariant with a valid order holds — i.e. after
`new`, after an accepted `try_from_graph`, and after every history (`C14_order_valid_history`) — the
inner graph has no directed cycle. -/
theorem C14_inner_graph_acyclic (v : View) (s : AState) (h : Inv2 v s) (hd : v.g.directed = true)
    (hwf : ∀ e ∈ v.g.edges, e.src ∈ v.g.nodes ∧ e.tgt ∈ v.g.nodes) : Dag.Acyclic v.g :=
  inv2_acyclic h hd hwf

/-- `try_from_graph` / `TryFrom` (soundness): a graph that is accepted is accepted with an order map
that satisfies the invariant and in which every edge goes forward — so only acyclic graphs
(in particular none with a self-loop) are ever accepted. -/
theorem C14_try_from_graph_sound (v : View) (hc : Closed v) (hv : ViewOk v)
    (hsrc : ∀ x y, y ∈ v.succ x → x ∈ v.g.nodes) (hd : v.g.directed = true)
    (hwf : ∀ e ∈ v.g.edges, e.src ∈ v.g.nodes ∧ e.tgt ∈ v.g.nodes)
    (s : AState) (h : tryFromGraph v = .ok (.inr s)) : Inv2 v s ∧ Dag.Acyclic v.g :=
  ⟨tryFromGraph_sound hc hv hsrc h, inv2_acyclic (tryFromGraph_sound hc hv hsrc h) hd hwf⟩

/-- `try_from_graph` (completeness): every acyclic graph is accepted (the model neither reports a
cycle nor runs out of fuel nor panics). -/
def C14_try_from_graph_complete_statement : Prop :=
  ∀ (v : View), Closed v → ViewOk v → v.g.nodes.Nodup → (∀ x y, y ∈ v.succ x → x ∈ v.g.nodes) →
    (∀ x ∈ v.g.nodes, x < v.nb) → Dag.Acyclic v.g → ∃ s, tryFromGraph v = .ok (.inr s)

/-- proved part: what `try_from_graph` builds from the toposort result — positions `0, 1, 2, …` in
that order, scratch sets clear with capacity `node_bound`. -/
theorem C14_try_from_graph_complete_partial (v : View) (s : AState) (h : tryFromGraph v = .ok (.inr s)) :
    ∃ order, toposort v = some (.inr order) ∧ s.om.p2n = enumFrom 0 order ∧ Clear s ∧ s.cap = v.nb ∧
      s.om.n2p.length = v.nb := by
  unfold tryFromGraph at h
  split at h
  · cases h
  · cases h
  · rename_i order ho
    simp only at h
    split at h
    · cases h
    · rename_i n2p hn
      cases h
      refine ⟨order, ho, rfl, ⟨rfl, rfl⟩, rfl, ?_⟩
      have : ∀ (l : List (Nat × Nat)) (a b : List Nat), setAll a l = some b → b.length = a.length := by
        intro l
        induction l with
        | nil => intro a b hh; simp only [setAll] at hh; cases hh; rfl
        | cons e r ih =>
          intro a b hh
          obtain ⟨p, i⟩ := e
          simp only [setAll] at hh
          split at hh
          · have := ih _ _ hh; simpa using this
          · cases hh
      simpa using this _ _ _ hn

/-! ### `try_from_graph` completeness (wave 2)

`C14_try_from_graph_complete_statement` is FALSE as written: `ViewOk` only relates the neighbour
iterations to the edges as SETS, so a view may list one edge any number of times in `v.succ x`, and
the first phase of the `toposort` model (one loop iteration per stack entry) then outruns `tsFuel v`,
which is computed from the edge list.  The witness below is such a view; it is an artefact of the
view encoding (a real `neighbors()` yields every edge once, which `./check C14` verifies on every
graph line), not a behaviour of `acyclic.rs`.  The repaired statement adds exactly the fuel
hypothesis — one unit per node and per neighbour-list entry, the measure `needL` already used by
`Safe` — and drops the hypothesis `v.g.nodes.Nodup`, which is not needed. -/

/-- the edge `0 → 1`, listed 25 times by the neighbour iteration of node `0` -/
def completeWitness : View :=
  { g := { directed := true, nodes := [0, 1], edges := [⟨0, 0, 1, 0⟩] }, nb := 2, ix := [],
    out := [(0, List.replicate 25 (1, 0)), (1, [])], inn := [(0, []), (1, [(0, 0)])] }

/-- the witness meets every hypothesis of `C14_try_from_graph_complete_statement`, and the model
runs out of fuel on it (24 copies are still accepted: it is the smallest witness of this shape) -/
theorem C14_try_from_graph_complete_statement_false_witness :
    Closed completeWitness ∧ ViewOk completeWitness ∧ completeWitness.g.nodes.Nodup ∧
    (∀ x y, y ∈ completeWitness.succ x → x ∈ completeWitness.g.nodes) ∧
    (∀ x ∈ completeWitness.g.nodes, x < completeWitness.nb) ∧ Dag.Acyclic completeWitness.g ∧
    tryFromGraph completeWitness = .error "FUEL" := by
  have hadj : ∀ x y, completeWitness.g.Adj x y ↔ x = 0 ∧ y = 1 := by
    intro x y; simp [MGraph.Adj, completeWitness, eq_comm]
  have hsucc : ∀ x y, y ∈ completeWitness.succ x ↔ x = 0 ∧ y = 1 := by
    intro x y
    match x with
    | 0 => simp [View.succ, View.outOf, completeWitness]
    | 1 => simp [View.succ, View.outOf, completeWitness, List.lookup]
    | n + 2 => simp [View.succ, View.outOf, completeWitness, List.lookup]
  have hpred : ∀ x y, y ∈ completeWitness.pred x ↔ y = 0 ∧ x = 1 := by
    intro x y
    match x with
    | 0 => simp [View.pred, View.innOf, completeWitness]
    | 1 => simp [View.pred, View.innOf, completeWitness, List.lookup]
    | n + 2 => simp [View.pred, View.innOf, completeWitness, List.lookup]
  have htopo : toposort completeWitness = none := by decide
  refine ⟨?_, ⟨?_, ?_⟩, by decide, ?_, by decide, ?_, ?_⟩
  · intro x _
    refine ⟨fun y hy => ?_, fun y hy => ?_⟩
    · rw [((hsucc x y).mp hy).2]; decide
    · rw [((hpred x y).mp hy).1]; decide
  · intro x y; rw [hsucc, hadj]
  · intro x y; rw [hpred, hadj]
  · intro x y hy; rw [((hsucc x y).mp hy).1]; decide
  · exact topo_acyclic (order := [0, 1]) rfl ⟨by decide, fun _ => Iff.rfl, by decide⟩
  · unfold tryFromGraph; rw [htopo]

/-- hence the statement, as written, does not hold -/
theorem C14_try_from_graph_complete_statement_false : ¬ C14_try_from_graph_complete_statement := by
  intro h
  obtain ⟨hc, hv, hnd, hsrc, hnb, hac, herr⟩ := C14_try_from_graph_complete_statement_false_witness
  obtain ⟨s, hs⟩ := h completeWitness hc hv hnd hsrc hnb hac
  rw [herr] at hs
  cases hs

/-- the neighbour lists fit the fuel of the `toposort` model: one unit per node and per entry of its
successor list, plus two (`needL … [] nodes = |nodes| + Σ |succ x|`, see `C14_fuelOk_of_edge_count`) -/
def TopoFuelOk (v : View) : Prop :=
  needL (fun x => (v.succ x).length) [] v.g.nodes + 2 ≤ tsFuel v

/-- `try_from_graph` (completeness, no fuel assumption): on an acyclic view the model never answers
`Err(Cycle(_))` and never fails the bound check of `node_to_pos` — it accepts, unless its own fuel
runs out in `toposort`. -/
theorem C14_try_from_graph_no_false_cycle (v : View) (hc : Closed v) (hv : ViewOk v)
    (hsrc : ∀ x y, y ∈ v.succ x → x ∈ v.g.nodes) (hnb : ∀ x ∈ v.g.nodes, x < v.nb)
    (hac : Dag.Acyclic v.g) :
    (toposort v = none ∧ tryFromGraph v = .error "FUEL") ∨ ∃ s, tryFromGraph v = .ok (.inr s) :=
  tryFromGraph_acyclic hc hv hsrc hnb hac

/-- the `toposort` model on an acyclic view: whenever it returns, it returns an order listing every
node exactly once (never `Err(Cycle(_))`), and it does return when the fuel hypothesis holds. -/
theorem C14_toposort_complete (v : View) (hc : Closed v) (hv : ViewOk v)
    (hsrc : ∀ x y, y ∈ v.succ x → x ∈ v.g.nodes) (hac : Dag.Acyclic v.g) :
    (∀ r, toposort v = some r → ∃ order, r = .inr order ∧ order.Nodup ∧ ∀ x, x ∈ order ↔ x ∈ v.g.nodes) ∧
    (TopoFuelOk v → ∃ r, toposort v = some r) :=
  ⟨fun _ h => toposort_acyclic hc hv hsrc hac h, fun hf => toposort_total hc hv hsrc hac hf⟩

/-- **`try_from_graph` (completeness)** — `C14_try_from_graph_complete_statement` repaired with the
fuel hypothesis: every acyclic graph is accepted (the model neither reports a cycle nor runs out of
fuel nor panics). -/
theorem C14_try_from_graph_complete (v : View) (hc : Closed v) (hv : ViewOk v)
    (hsrc : ∀ x y, y ∈ v.succ x → x ∈ v.g.nodes) (hnb : ∀ x ∈ v.g.nodes, x < v.nb)
    (hac : Dag.Acyclic v.g) (hfuel : TopoFuelOk v) : ∃ s, tryFromGraph v = .ok (.inr s) :=
  tryFromGraph_complete hc hv hsrc hnb hac hfuel

/-- the fuel hypothesis holds whenever the successor lists together are no longer than the edge list
(every edge is listed once by the `neighbors` of its source — what a real graph does) -/
theorem C14_fuelOk_of_edge_count (v : View)
    (h : (v.g.nodes.map fun x => (v.succ x).length).sum ≤ v.g.edges.length) : TopoFuelOk v := by
  unfold TopoFuelOk
  rw [needL_nil_eq]
  unfold tsFuel
  omega

/-- **`try_from_graph` / `TryFrom` accept exactly the acyclic graphs** (soundness + completeness):
on a well-formed directed view whose neighbour lists fit the fuel, the model answers `Ok` iff the
graph has no directed cycle, and `Err(Cycle(_))` iff it has one. -/
theorem C14_try_from_graph_exact (v : View) (hc : Closed v) (hv : ViewOk v)
    (hsrc : ∀ x y, y ∈ v.succ x → x ∈ v.g.nodes) (hd : v.g.directed = true)
    (hwf : ∀ e ∈ v.g.edges, e.src ∈ v.g.nodes ∧ e.tgt ∈ v.g.nodes)
    (hnb : ∀ x ∈ v.g.nodes, x < v.nb) (hfuel : TopoFuelOk v) :
    ((∃ s, tryFromGraph v = .ok (.inr s)) ↔ Dag.Acyclic v.g) ∧
    (∀ x, tryFromGraph v = .ok (.inl x) → ¬ Dag.Acyclic v.g) := by
  refine ⟨⟨?_, fun hac => tryFromGraph_complete hc hv hsrc hnb hac hfuel⟩, ?_⟩
  · rintro ⟨s, hs⟩
    exact inv2_acyclic (tryFromGraph_sound hc hv hsrc hs) hd hwf
  · intro x hx hac
    obtain ⟨s, hs⟩ := tryFromGraph_complete hc hv hsrc hnb hac hfuel
    rw [hx] at hs
    cases hs

/-! ### non-vacuity: a concrete state meets the hypotheses and exercises a reorder -/

/-- inner graph `0 → 1`, nodes `0 1 2`, in concrete indices -/
def exView : View :=
  { g := { directed := true, nodes := [0, 1, 2], edges := [⟨0, 0, 1, 7⟩] }, nb := 3, ix := [],
    out := [(0, [(1, 0)]), (1, []), (2, [])], inn := [(0, []), (1, [(0, 0)]), (2, [])] }

def exState : AState := { om := { p2n := [(0, 0), (1, 1), (2, 2)], n2p := [0, 1, 2] }, cap := 3 }

/-- the example view meets the fuel hypothesis of `C14_try_from_graph_complete` and is accepted -/
example : TopoFuelOk exView := by unfold TopoFuelOk; decide

def okOf {α : Type} : Except String α → Option α
  | .ok a => some a
  | .error _ => none

example : (okOf (tryAddEdge exView exState 2 0)).map (fun r => (r.1.om.p2n, r.1.om.n2p, r.2)) =
    some ([(0, 2), (1, 0), (2, 1)], [1, 2, 0], .accepted) := by decide
example : (okOf (tryAddEdge exView exState 1 0)).map (·.2) = some (.cycle 0) := by decide
example : (okOf (isValidEdge exView exState 1 0)).map (·.2) = some false := by decide
example : (okOf (tryFromGraph exView)).map (fun r => r.elim (fun _ => []) (·.om.p2n)) =
    some [(0, 2), (1, 0), (2, 1)] := by decide

example : Inv exView exState := by
  refine ⟨⟨by unfold Sorted; decide, ?_, ?_⟩, ⟨rfl, rfl⟩, ?_⟩
  · intro p n h
    simp only [exState, List.mem_cons, Prod.mk.injEq, List.mem_nil_iff, or_false] at h
    rcases h with ⟨rfl, rfl⟩ | ⟨rfl, rfl⟩ | ⟨rfl, rfl⟩ <;> decide
  · intro n h
    simp only [exView, List.mem_cons, List.mem_nil_iff, or_false] at h
    rcases h with rfl | rfl | rfl
    · exact ⟨0, by decide, by decide⟩
    · exact ⟨1, by decide, by decide⟩
    · exact ⟨2, by decide, by decide⟩
  · intro x hx
    simp only [exView, List.mem_cons, List.mem_nil_iff, or_false] at hx
    rcases hx with rfl | rfl | rfl <;> decide

end PetgraphModel.C14T
