import PetgraphModel.Model.Acyclic
import PetgraphModel.Spec.Dag
import PetgraphModel.Proofs.Acyclic
import PetgraphModel.Proofs.AcyclicPK
import PetgraphModel.Proofs.AcyclicNP
import PetgraphModel.Proofs.AcyclicTS
import PetgraphModel.Proofs.C14W2Topo
import PetgraphModel.Proofs.C14W4Checks
import PetgraphModel.Proofs.C14W4Range
import PetgraphModel.Proofs.C14W4Graph
import PetgraphModel.Proofs.C14W4Stable
import PetgraphModel.Proofs.C14W6
/-
C14 — `Acyclic<G>` never lets a cycle in and keeps a valid topological order.

Only property theorems live here; helper lemmas are in `Proofs/Acyclic*.lean`.  Two layers:

* the SPECIFICATION (`Spec/Dag.lean`): acyclicity, topological orders, the dynamic clause
  "reject exactly self-loops and cycle-closing insertions", and the soundness of the executable
  judges that `./check C14` applies to every answer of the real crate (verified checker);
* the MIRROR MODEL (`Model/Acyclic.lean`, tied to /repo/src/acyclic.rs + order_map.rs by the exact
  correspondence run), for every call and every finite history:
    - `C14_ordermap_inv_*`      order map = bijection between live nodes and positions,
    - `C14_order_valid*`        every edge goes forward in the maintained order (Pearce–Kelly reorder lemma),
    - `C14_inner_graph_acyclic` hence the inner graph never has a cycle,
    - `C14_model_reject_iff_cycle`, `C14_never_lets_cycle_in`  rejected ⇔ self-loop or `b ⇝ a`,
    - `C14_reject_unchanged`, `C14_valid_edge_predicts`, `C14_is_valid_edge_pure`,
    - `C14_remove_absent_noop`, `C14_remove_keeps_others`  (D16 / D17 stay fixed),
    - `C14_no_panic*`           no mirrored assert / debug_assert / unreachable / bound check fires and the fuel suffices,
    - `C14_try_from_graph_sound` accepted ⇒ invariant + valid order (⇒ acyclic),
    - `C14_try_from_graph_complete` acyclic ⇒ accepted, given the fuel hypothesis `TopoFuelOk`
      (`C14_try_from_graph_complete_statement` without it is false: `…_statement_false_witness`),
      `C14_try_from_graph_no_false_cycle` (no fuel hypothesis), `C14_try_from_graph_exact` (⇔).

The inner graph is a parameter of the model: a call comes with the graph `v'` the inner `G` leaves
behind, constrained only by `Call.InnerOk` / `EdgesOk` (which indices are live and which edges exist
afterwards) — so the theorems hold for `DiGraph` (whose `remove_node` renumbers its last node) and
`StableDiGraph` (which reuses vacant indices) alike.

Wave 4 (the last sections of this file):
    - `C14_range_*`             `range` lists exactly the nodes of the position interval, in topological order,
    - `C14_reject_unchanged_any`, `C14_reject_changes_nothing`, `C14_absent_endpoint_*`, `C14_absent_target_panics`,
    - `C14_*_check`, `C14_checked_step`, `C14_checked_from`   the driver's run-time Booleans
      (`Driver/C14Checks.lean`) imply every hypothesis above (`ViewOk`, `Closed`, `Safe`, `TopoFuelOk`,
      `Call.InnerOk`, `EdgesOk`): every judged case is inside the theorems' scope,
    - `C14_storage_*`, `C14_digraph_*`, `C14_stable_*`   the contracts INSTANTIATED with the C01 (`Graph`) and
      C02 (`StableGraph`) storage models: both satisfy `InnerOk` / `EdgesOk` for every call, so the
      all-histories, rejection, no-panic and `try_from_graph` theorems hold for `Acyclic<DiGraph>` and
      `Acyclic<StableDiGraph>` unconditionally (no contract, no fuel hypothesis).
-/
namespace PetgraphModel.C14T
open PetgraphModel PetgraphModel.MGraph PetgraphModel.Oracle PetgraphModel.Dag PetgraphModel.Acy
open PetgraphModel.AcyProofs PetgraphModel.AcyPK PetgraphModel.AcyNP PetgraphModel.AcyTS PetgraphModel.AcyW2
open PetgraphModel.AcyW4

/-! ### the specification and its judges -/

/-- a directed graph that has a topological order has no cycle -/
theorem C14_topo_order_acyclic (g : MGraph) (hd : g.directed = true) (order : List Nat)
    (h : TopoOrder g order) : Dag.Acyclic g :=
  topo_acyclic hd h

/-- JUDGE SOUNDNESS (order): a dump whose `nodes_iter` the judge accepts lists exactly the live
nodes, each once, with every edge going from an earlier to a later place — and therefore the inner
graph is acyclic. -/
theorem C14_judgeOrder_sound (g : MGraph) (hd : g.directed = true) (order : List Nat)
    (h : judgeOrder g order = none) : TopoOrder g order ∧ Dag.Acyclic g :=
  ⟨judgeOrder_sound g order h, topo_acyclic hd (judgeOrder_sound g order h)⟩

/-- JUDGE SOUNDNESS (`try_from_graph` / `TryFrom`): the oracle-based cycle test is exact:
`some none` only for acyclic graphs, `some (some e)` only with an edge `e` on a closed walk. -/
theorem C14_cycleEdge_sound (g : MGraph) (hd : g.directed = true) :
    (cycleEdge g = some none → Dag.Acyclic g) ∧
    (∀ e, cycleEdge g = some (some e) → e ∈ g.edges ∧ Reach1 g e.src e.src) :=
  cycleEdge_sound g hd

/-- THE DYNAMIC CLAUSE: inserting `a → b` into an acyclic graph produces a cycle exactly when
`a = b` or `b` already reaches `a`. -/
theorem C14_reject_iff_cycle (g : MGraph) (hd : g.directed = true) (hac : Dag.Acyclic g)
    (id a b : Nat) (w : Int) : ¬ Dag.Acyclic (addEdge g id a b w) ↔ MustReject g a b :=
  reject_iff_cycle hd hac id a b w

/-- JUDGE SOUNDNESS (insertions): the verdict the driver demands of `try_add_edge`,
`try_update_edge`, `Build::add_edge`, `Build::update_edge` is the specification's. -/
theorem C14_mustReject_sound (g : MGraph) (a b : Nat) (r : Bool) (h : mustRejectB g a b = some r) :
    r = true ↔ MustReject g a b :=
  mustRejectB_sound g a b r h

/-- JUDGE SOUNDNESS (`is_valid_edge`): accepted answers say `true` exactly for the insertions the
specification admits. -/
theorem C14_judgeValid_sound (g : MGraph) (l : List (Nat × Nat × Bool)) (h : judgeValid g l = none)
    (a b : Nat) (r x : Bool) (hm : (a, b, r) ∈ l) (ho : mustRejectB g a b = some x) :
    r = true ↔ ¬ MustReject g a b :=
  judgeValid_sound g l h a b r x hm ho

/-! ### the mirror model: the order map -/

/-- the order-map invariant: `pos_to_node` is a well-formed map and `pos_to_node` / `node_to_pos`
are mutually inverse on exactly the live nodes -/
abbrev OMInv := AcyProofs.OMInv
/-- order-map invariant + both scratch bit sets clear + the inner graph's neighbour lists stay
within its live nodes -/
abbrev Inv := AcyProofs.Inv
abbrev Call := AcyProofs.Call
abbrev stepCall := AcyProofs.stepCall
abbrev runCalls := AcyProofs.runCalls
abbrev HistoryOk := AcyProofs.HistoryOk

/-- `Acyclic::new()` establishes the invariant. -/
theorem C14_ordermap_inv_new :
    Inv { (default : View) with g := { directed := true, nodes := [], edges := [] } } {} :=
  inv_new

/-- `C14_ordermap_inv` (one call): `add_node`, `try_add_edge` / `try_update_edge` / `Build::add_edge`
/ `Build::update_edge` (accepted with or without a reorder, or rejected), `remove_node` (present —
for both behaviours of the inner graph — or absent), `remove_edge`, `is_valid_edge` all preserve
the invariant, whenever the call does not panic. -/
theorem C14_ordermap_inv_step (v : View) (s : AState) (c : Call) (v1 : View) (s1 : AState)
    (hinv : Inv v s) (hok : c.InnerOk v) (h : stepCall v s c = .ok (v1, s1)) : Inv v1 s1 :=
  inv_step hinv hok h

/-- `C14_ordermap_inv` (all histories): after any finite call sequence from a state satisfying the
invariant, the invariant holds. -/
theorem C14_ordermap_inv_history (cs : List Call) (v : View) (s : AState) (vn : View) (sn : AState)
    (hinv : Inv v s) (hok : HistoryOk v s cs) (h : runCalls v s cs = .ok (vn, sn)) : Inv vn sn :=
  inv_history cs v s vn sn hinv hok h

/-- under the invariant the maintained order (`nodes_iter`) lists exactly the live nodes, each once -/
theorem C14_order_lists_live (L : List Nat) (om : OrderMap) (h : OMInv L om) :
    om.nodesIter.Nodup ∧ ∀ x, x ∈ om.nodesIter ↔ x ∈ L :=
  h.nodesIter

/-- under the invariant `at_position` is the inverse of `get_position` on the live nodes, and
distinct live nodes have distinct positions -/
theorem C14_at_position_inverse (L : List Nat) (om : OrderMap) (h : OMInv L om) :
    (∀ p n, om.atPos p = some n ↔ n ∈ L ∧ om.getPos n = .ok p) ∧
    (∀ a b, a ∈ L → b ∈ L → a ≠ b → om.getPos a ≠ om.getPos b) :=
  ⟨h.atPos, fun _ _ ha hb hab => h.pos_inj ha hb hab⟩

/-- `C14_reject_unchanged`: a rejected insertion (`Err(SelfLoop)`, `Err(Cycle)`) leaves the order
map and both scratch sets exactly as they were (only the capacity of the scratch sets may have
grown, which no call can observe). -/
theorem C14_reject_unchanged (v : View) (hc : Closed v) (s s' : AState) (a b : Nat) (r : EdgeRes)
    (hinv : OMInv v.g.nodes s.om) (hclr : Clear s) (ha : a ∈ v.g.nodes) (hb : b ∈ v.g.nodes)
    (h : tryAddEdge v s a b = .ok (s', r)) (hrej : r ≠ .accepted) :
    s'.om = s.om ∧ s'.disc = s.disc ∧ s'.fin = s.fin ∧ s.cap ≤ s'.cap :=
  let t := tryAddEdge_spec hc hinv hclr ha hb h
  ⟨(t.2.2.2 hrej).1, (t.2.2.2 hrej).2.1, (t.2.2.2 hrej).2.2, t.2.2.1⟩

/-- `C14_valid_edge_predicts`: on live nodes, `is_valid_edge(a, b)` is `true` exactly when
`try_add_edge(a, b)` / `try_update_edge(a, b)` accepts. -/
theorem C14_valid_edge_predicts (v : View) (s s1 s2 : AState) (a b : Nat) (r : Bool) (res : EdgeRes)
    (hinv : OMInv v.g.nodes s.om) (ha : a ∈ v.g.nodes) (hb : b ∈ v.g.nodes)
    (h1 : isValidEdge v s a b = .ok (s1, r)) (h2 : tryAddEdge v s a b = .ok (s2, res)) :
    r = true ↔ res = .accepted :=
  valid_iff_accepts hinv ha hb h1 h2

/-- `is_valid_edge` changes nothing observable (it may only grow the scratch sets). -/
theorem C14_is_valid_edge_pure (v : View) (hc : Closed v) (s s' : AState) (a b : Nat) (r : Bool)
    (ha : a ∈ v.g.nodes) (hb : b ∈ v.g.nodes) (hclr : Clear s)
    (h : isValidEdge v s a b = .ok (s', r)) : s'.om = s.om ∧ Clear s' ∧ s.cap ≤ s'.cap :=
  isValidEdge_spec hc ha hb hclr h

/-- removing an absent node is a no-op returning `None` (D17 stays fixed). -/
theorem C14_remove_absent_noop (v v' : View) (s : AState) (n : Nat) (hn : n ∉ v.g.nodes) :
    Acy.removeNode v v' s n = .ok (s, false) :=
  removeNode_absent v v' s n hn

/-- removing a node never disturbs the bookkeeping of the others: every other index keeps its
position, and when the inner graph moved its last node into the freed index, that index now has
the moved node's position (D16 stays fixed). -/
theorem C14_remove_keeps_others (v v' : View) (s s' : AState) (n : Nat) (r : Bool)
    (h : Acy.removeNode v v' s n = .ok (s', r)) :
    (∀ x, x ≠ n → s'.om.getPos x = s.om.getPos x) ∧
    (n ∈ v.g.nodes → n ∈ v'.g.nodes → v.nb - 1 ≠ n → s'.om.getPos n = s.om.getPos (v.nb - 1)) :=
  removeNode_positions h

/-! ### the mirror model: valid order, cycle rejection, no panic, `try_from_graph` -/

/-- every edge of the view goes forward in the maintained order -/
abbrev OrderValid := AcyProofs.OrderValid
/-- the view's neighbour lists are the adjacency of its abstract graph -/
abbrev ViewOk := AcyProofs.ViewOk

/-- `C14_order_valid` (the Pearce–Kelly reorder lemma): an accepted insertion `a → b` — whether
`b` already was after `a`, or the two bounded cone searches ran and their positions were reassigned
— leaves an order in which every old edge AND the new edge go forward. -/
theorem C14_order_valid (v : View) (s s' : AState) (a b : Nat) (hv : ViewOk v) (hinv : Inv v s)
    (hov : OrderValid v s.om) (hsrc : ∀ x y, y ∈ v.succ x → x ∈ v.g.nodes)
    (ha : a ∈ v.g.nodes) (hb : b ∈ v.g.nodes)
    (h : tryAddEdge v s a b = .ok (s', .accepted)) :
    OrderValid v s'.om ∧ ∀ pa pb, s'.om.getPos a = .ok pa → s'.om.getPos b = .ok pb → pa < pb :=
  order_valid_accept hv hinv hov hsrc ha hb h

/-- order-map invariant + valid order + well-formed view -/
abbrev Inv2 := AcyPK.Inv2
abbrev EdgesOk := AcyPK.EdgesOk
abbrev HistoryOk2 := AcyPK.HistoryOk2

/-- `C14_order_valid` (one call): every call keeps the maintained order a valid topological order of
the inner graph it leaves behind — including `remove_node` on a `DiGraph`, where the last node is
renumbered into the freed index (`rho`). -/
theorem C14_order_valid_step (v : View) (s : AState) (c : Call) (v1 : View) (s1 : AState)
    (hinv : Inv2 v s) (hok : c.InnerOk v) (hek : EdgesOk v c) (h : stepCall v s c = .ok (v1, s1)) :
    Inv2 v1 s1 :=
  inv2_step hinv hok hek h

/-- `C14_order_valid` (all histories): after any finite call sequence the order map is a bijection
with the live nodes AND every edge of the inner graph goes from an earlier to a later position. -/
theorem C14_order_valid_history (cs : List Call) (v : View) (s : AState) (vn : View) (sn : AState)
    (hinv : Inv2 v s) (hok : HistoryOk2 v s cs) (h : runCalls v s cs = .ok (vn, sn)) : Inv2 vn sn :=
  inv2_history cs v s vn sn hinv hok h

/-- what `Inv2` means for the abstract graph: every edge has its endpoints positioned, source first. -/
theorem C14_order_is_topological (v : View) (s : AState) (h : Inv2 v s)
    (hwf : ∀ e ∈ v.g.edges, e.src ∈ v.g.nodes ∧ e.tgt ∈ v.g.nodes) :
    ∀ e ∈ v.g.edges, ∃ ps pt, s.om.getPos e.src = .ok ps ∧ s.om.getPos e.tgt = .ok pt ∧ ps < pt :=
  inv2_topo h hwf

/-- NEVER LETS A CYCLE IN (model level): on a valid order, an insertion `a → b` that the model
accepts had no path `b ⇝ a` — so by `C14_reject_iff_cycle` the graph with the new edge is acyclic. -/
theorem C14_never_lets_cycle_in (v : View) (s s' : AState) (a b : Nat) (hv : ViewOk v) (hinv : Inv v s)
    (hov : OrderValid v s.om) (hd : v.g.directed = true) (hac : Dag.Acyclic v.g)
    (ha : a ∈ v.g.nodes) (hb : b ∈ v.g.nodes)
    (h : tryAddEdge v s a b = .ok (s', .accepted)) (id : Nat) (w : Int) :
    a ≠ b ∧ ¬ Reach v.g b a ∧ Dag.Acyclic (addEdge v.g id a b w) := by
  have hab : a ≠ b := by
    intro hab
    unfold tryAddEdge at h
    simp [hab] at h
  have hnp := accepted_no_path hv hinv hov ha hb hab h
  refine ⟨hab, hnp, ?_⟩
  apply Classical.byContradiction
  intro hcyc
  rcases (reject_iff_cycle hd hac id a b w).mp hcyc with h1 | h1
  · exact hab h1
  · exact hnp h1

/-- `C14_reject_iff_cycle` at the model level: on a valid order, `try_add_edge(a, b)` /
`try_update_edge(a, b)` on live nodes is rejected exactly when the specification demands it —
`Err(SelfLoop)` iff `a = b`, `Err(Cycle(b))` iff `a ≠ b` and `b` reaches `a` — and accepted otherwise. -/
theorem C14_model_reject_iff_cycle (v : View) (s s' : AState) (a b : Nat) (r : EdgeRes) (hv : ViewOk v)
    (hinv : Inv v s) (hov : OrderValid v s.om) (ha : a ∈ v.g.nodes) (hb : b ∈ v.g.nodes)
    (h : tryAddEdge v s a b = .ok (s', r)) :
    (r = .selfLoop ↔ a = b) ∧ (r = .cycle b ↔ a ≠ b ∧ Reach v.g b a) ∧ (r ≠ .accepted ↔ MustReject v.g a b) := by
  have hself : r = .selfLoop ↔ a = b := by
    unfold tryAddEdge at h
    split at h
    · rename_i hab; cases h; exact ⟨fun _ => hab, fun _ => rfl⟩
    rename_i hab
    split at h
    · cases h
    · cases h; exact ⟨fun hh => (by cases hh), fun hh => absurd hh hab⟩
    · split at h
      · cases h; exact ⟨fun hh => (by cases hh), fun hh => absurd hh hab⟩
      · cases h
  have hcyc : r = .cycle b ↔ a ≠ b ∧ Reach v.g b a := by
    constructor
    · intro hr
      subst hr
      exact ⟨(tryAddEdge_cycle_inv h).1, cycle_has_path hv hinv hov ha hb h⟩
    · rintro ⟨hab, hreach⟩
      cases r with
      | accepted => exact absurd hreach (accepted_no_path hv hinv hov ha hb hab h)
      | selfLoop => exact absurd (hself.mp rfl) hab
      | cycle n =>
        have : n = b := by
          have hu := (tryAddEdge_cycle_inv h).2
          unfold tryAddEdge at h
          simp only [hab, ↓reduceIte, hu] at h
          cases h; rfl
        rw [this]
  refine ⟨hself, hcyc, ?_⟩
  unfold MustReject
  constructor
  · intro hne
    cases r with
    | accepted => exact absurd rfl hne
    | selfLoop => exact Or.inl (hself.mp rfl)
    | cycle n => exact Or.inr (cycle_has_path hv hinv hov ha hb h)
  · rintro (hab | hreach) hacc
    · subst hacc
      have := hself.mpr hab
      cases this
    · subst hacc
      by_cases hab : a = b
      · have := hself.mpr hab
        cases this
      · exact accepted_no_path hv hinv hov ha hb hab h hreach

/-- the hypotheses under which nothing can go wrong: `Inv2`, live indices below `node_bound`, and
neighbour lists no longer than the edge list allows (the driver checks the last two on every graph line) -/
abbrev Safe := AcyNP.Safe

/-- NO PANIC, FUEL SUFFICES: under the invariant with a valid order, `try_add_edge` /
`try_update_edge` and `is_valid_edge` on live nodes always return — none of the asserts,
`debug_assert!`s, `unreachable!`, `expect` or bit-set bound checks mirrored in the model can fire and
the fuel of the model's recursion is never exhausted. -/
theorem C14_no_panic (v : View) (s : AState) (a b : Nat) (hs : Safe v s)
    (ha : a ∈ v.g.nodes) (hb : b ∈ v.g.nodes) :
    (∃ r, tryAddEdge v s a b = .ok r) ∧ (∃ r, isValidEdge v s a b = .ok r) :=
  ⟨tryAddEdge_total hs ha hb, isValidEdge_total hs ha hb⟩

/-- NO PANIC (any call): every call admitted by the inner-graph contract returns. -/
theorem C14_no_panic_step (v : View) (s : AState) (c : Call) (hs : Safe v s) (hok : c.InnerOk v)
    (hnb : ∀ i v', c = .addNode i v' → i < v'.nb) : ∃ r, stepCall v s c = .ok r :=
  stepCall_total hs hok hnb

/-- NEVER A CYCLE (all histories): whenever the invariant with a valid order holds — i.e. after
`new`, after an accepted `try_from_graph`, and after every history (`C14_order_valid_history`) — the
inner graph has no directed cycle. -/
theorem C14_inner_graph_acyclic (v : View) (s : AState) (h : Inv2 v s) (hd : v.g.directed = true)
    (hwf : ∀ e ∈ v.g.edges, e.src ∈ v.g.nodes ∧ e.tgt ∈ v.g.nodes) : Dag.Acyclic v.g :=
  inv2_acyclic h hd hwf

/-- `try_from_graph` / `TryFrom` (soundness): a graph that is accepted is accepted with an order map
that satisfies the invariant and in which every edge goes forward — so only acyclic graphs
(in particular none with a self-loop) are ever accepted. -/
theorem C14_try_from_graph_sound (v : View) (hc : Closed v) (hv : ViewOk v)
    (hsrc : ∀ x y, y ∈ v.succ x → x ∈ v.g.nodes) (hd : v.g.directed = true)
    (hwf : ∀ e ∈ v.g.edges, e.src ∈ v.g.nodes ∧ e.tgt ∈ v.g.nodes)
    (s : AState) (h : tryFromGraph v = .ok (.inr s)) : Inv2 v s ∧ Dag.Acyclic v.g :=
  ⟨tryFromGraph_sound hc hv hsrc h, inv2_acyclic (tryFromGraph_sound hc hv hsrc h) hd hwf⟩

/-- `try_from_graph` (completeness): every acyclic graph is accepted (the model neither reports a
cycle nor runs out of fuel nor panics). -/
def C14_try_from_graph_complete_statement : Prop :=
  ∀ (v : View), Closed v → ViewOk v → v.g.nodes.Nodup → (∀ x y, y ∈ v.succ x → x ∈ v.g.nodes) →
    (∀ x ∈ v.g.nodes, x < v.nb) → Dag.Acyclic v.g → ∃ s, tryFromGraph v = .ok (.inr s)

/-- proved part: what `try_from_graph` builds from the toposort result — positions `0, 1, 2, …` in
that order, scratch sets clear with capacity `node_bound`. -/
theorem C14_try_from_graph_complete_partial (v : View) (s : AState) (h : tryFromGraph v = .ok (.inr s)) :
    ∃ order, toposort v = some (.inr order) ∧ s.om.p2n = enumFrom 0 order ∧ Clear s ∧ s.cap = v.nb ∧
      s.om.n2p.length = v.nb := by
  unfold tryFromGraph at h
  split at h
  · cases h
  · cases h
  · rename_i order ho
    simp only at h
    split at h
    · cases h
    · rename_i n2p hn
      cases h
      refine ⟨order, ho, rfl, ⟨rfl, rfl⟩, rfl, ?_⟩
      have : ∀ (l : List (Nat × Nat)) (a b : List Nat), setAll a l = some b → b.length = a.length := by
        intro l
        induction l with
        | nil => intro a b hh; simp only [setAll] at hh; cases hh; rfl
        | cons e r ih =>
          intro a b hh
          obtain ⟨p, i⟩ := e
          simp only [setAll] at hh
          split at hh
          · have := ih _ _ hh; simpa using this
          · cases hh
      simpa using this _ _ _ hn

/-! ### `try_from_graph` completeness (wave 2)

`C14_try_from_graph_complete_statement` is FALSE as written: `ViewOk` only relates the neighbour
iterations to the edges as SETS, so a view may list one edge any number of times in `v.succ x`, and
the first phase of the `toposort` model (one loop iteration per stack entry) then outruns `tsFuel v`,
which is computed from the edge list.  The witness below is such a view; it is an artefact of the
view encoding (a real `neighbors()` yields every edge once, which `./check C14` verifies on every
graph line), not a behaviour of `acyclic.rs`.  The repaired statement adds exactly the fuel
hypothesis — one unit per node and per neighbour-list entry, the measure `needL` already used by
`Safe` — and drops the hypothesis `v.g.nodes.Nodup`, which is not needed. -/

/-- the edge `0 → 1`, listed 25 times by the neighbour iteration of node `0` -/
def completeWitness : View :=
  { g := { directed := true, nodes := [0, 1], edges := [⟨0, 0, 1, 0⟩] }, nb := 2, ix := [],
    out := [(0, List.replicate 25 (1, 0)), (1, [])], inn := [(0, []), (1, [(0, 0)])] }

/-- the witness meets every hypothesis of `C14_try_from_graph_complete_statement`, and the model
runs out of fuel on it (24 copies are still accepted: it is the smallest witness of this shape) -/
theorem C14_try_from_graph_complete_statement_false_witness :
    Closed completeWitness ∧ ViewOk completeWitness ∧ completeWitness.g.nodes.Nodup ∧
    (∀ x y, y ∈ completeWitness.succ x → x ∈ completeWitness.g.nodes) ∧
    (∀ x ∈ completeWitness.g.nodes, x < completeWitness.nb) ∧ Dag.Acyclic completeWitness.g ∧
    tryFromGraph completeWitness = .error "FUEL" := by
  have hadj : ∀ x y, completeWitness.g.Adj x y ↔ x = 0 ∧ y = 1 := by
    intro x y; simp [MGraph.Adj, completeWitness, eq_comm]
  have hsucc : ∀ x y, y ∈ completeWitness.succ x ↔ x = 0 ∧ y = 1 := by
    intro x y
    match x with
    | 0 => simp [View.succ, View.outOf, completeWitness]
    | 1 => simp [View.succ, View.outOf, completeWitness, List.lookup]
    | n + 2 => simp [View.succ, View.outOf, completeWitness, List.lookup]
  have hpred : ∀ x y, y ∈ completeWitness.pred x ↔ y = 0 ∧ x = 1 := by
    intro x y
    match x with
    | 0 => simp [View.pred, View.innOf, completeWitness]
    | 1 => simp [View.pred, View.innOf, completeWitness, List.lookup]
    | n + 2 => simp [View.pred, View.innOf, completeWitness, List.lookup]
  have htopo : toposort completeWitness = none := by decide
  refine ⟨?_, ⟨?_, ?_⟩, by decide, ?_, by decide, ?_, ?_⟩
  · intro x _
    refine ⟨fun y hy => ?_, fun y hy => ?_⟩
    · rw [((hsucc x y).mp hy).2]; decide
    · rw [((hpred x y).mp hy).1]; decide
  · intro x y; rw [hsucc, hadj]
  · intro x y; rw [hpred, hadj]
  · intro x y hy; rw [((hsucc x y).mp hy).1]; decide
  · exact topo_acyclic (order := [0, 1]) rfl ⟨by decide, fun _ => Iff.rfl, by decide⟩
  · unfold tryFromGraph; rw [htopo]

/-- hence the statement, as written, does not hold -/
theorem C14_try_from_graph_complete_statement_false : ¬ C14_try_from_graph_complete_statement := by
  intro h
  obtain ⟨hc, hv, hnd, hsrc, hnb, hac, herr⟩ := C14_try_from_graph_complete_statement_false_witness
  obtain ⟨s, hs⟩ := h completeWitness hc hv hnd hsrc hnb hac
  rw [herr] at hs
  cases hs

/-- the neighbour lists fit the fuel of the `toposort` model: one unit per node and per entry of its
successor list, plus two (`needL … [] nodes = |nodes| + Σ |succ x|`, see `C14_fuelOk_of_edge_count`) -/
def TopoFuelOk (v : View) : Prop :=
  needL (fun x => (v.succ x).length) [] v.g.nodes + 2 ≤ tsFuel v

/-- `try_from_graph` (completeness, no fuel assumption): on an acyclic view the model never answers
`Err(Cycle(_))` and never fails the bound check of `node_to_pos` — it accepts, unless its own fuel
runs out in `toposort`. -/
theorem C14_try_from_graph_no_false_cycle (v : View) (hc : Closed v) (hv : ViewOk v)
    (hsrc : ∀ x y, y ∈ v.succ x → x ∈ v.g.nodes) (hnb : ∀ x ∈ v.g.nodes, x < v.nb)
    (hac : Dag.Acyclic v.g) :
    (toposort v = none ∧ tryFromGraph v = .error "FUEL") ∨ ∃ s, tryFromGraph v = .ok (.inr s) :=
  tryFromGraph_acyclic hc hv hsrc hnb hac

/-- the `toposort` model on an acyclic view: whenever it returns, it returns an order listing every
node exactly once (never `Err(Cycle(_))`), and it does return when the fuel hypothesis holds. -/
theorem C14_toposort_complete (v : View) (hc : Closed v) (hv : ViewOk v)
    (hsrc : ∀ x y, y ∈ v.succ x → x ∈ v.g.nodes) (hac : Dag.Acyclic v.g) :
    (∀ r, toposort v = some r → ∃ order, r = .inr order ∧ order.Nodup ∧ ∀ x, x ∈ order ↔ x ∈ v.g.nodes) ∧
    (TopoFuelOk v → ∃ r, toposort v = some r) :=
  ⟨fun _ h => toposort_acyclic hc hv hsrc hac h, fun hf => toposort_total hc hv hsrc hac hf⟩

/-- **`try_from_graph` (completeness)** — `C14_try_from_graph_complete_statement` repaired with the
fuel hypothesis: every acyclic graph is accepted (the model neither reports a cycle nor runs out of
fuel nor panics). -/
theorem C14_try_from_graph_complete (v : View) (hc : Closed v) (hv : ViewOk v)
    (hsrc : ∀ x y, y ∈ v.succ x → x ∈ v.g.nodes) (hnb : ∀ x ∈ v.g.nodes, x < v.nb)
    (hac : Dag.Acyclic v.g) (hfuel : TopoFuelOk v) : ∃ s, tryFromGraph v = .ok (.inr s) :=
  tryFromGraph_complete hc hv hsrc hnb hac hfuel

/-- the fuel hypothesis holds whenever the successor lists together are no longer than the edge list
(every edge is listed once by the `neighbors` of its source — what a real graph does) -/
theorem C14_fuelOk_of_edge_count (v : View)
    (h : (v.g.nodes.map fun x => (v.succ x).length).sum ≤ v.g.edges.length) : TopoFuelOk v := by
  unfold TopoFuelOk
  rw [needL_nil_eq]
  unfold tsFuel
  omega

/-- **`try_from_graph` / `TryFrom` accept exactly the acyclic graphs** (soundness + completeness):
on a well-formed directed view whose neighbour lists fit the fuel, the model answers `Ok` iff the
graph has no directed cycle, and `Err(Cycle(_))` iff it has one. -/
theorem C14_try_from_graph_exact (v : View) (hc : Closed v) (hv : ViewOk v)
    (hsrc : ∀ x y, y ∈ v.succ x → x ∈ v.g.nodes) (hd : v.g.directed = true)
    (hwf : ∀ e ∈ v.g.edges, e.src ∈ v.g.nodes ∧ e.tgt ∈ v.g.nodes)
    (hnb : ∀ x ∈ v.g.nodes, x < v.nb) (hfuel : TopoFuelOk v) :
    ((∃ s, tryFromGraph v = .ok (.inr s)) ↔ Dag.Acyclic v.g) ∧
    (∀ x, tryFromGraph v = .ok (.inl x) → ¬ Dag.Acyclic v.g) := by
  refine ⟨⟨?_, fun hac => tryFromGraph_complete hc hv hsrc hnb hac hfuel⟩, ?_⟩
  · rintro ⟨s, hs⟩
    exact inv2_acyclic (tryFromGraph_sound hc hv hsrc hs) hd hwf
  · intro x hx hac
    obtain ⟨s, hs⟩ := tryFromGraph_complete hc hv hsrc hnb hac hfuel
    rw [hx] at hs
    cases hs

/-! ### non-vacuity: a concrete state meets the hypotheses and exercises a reorder -/

/-- inner graph `0 → 1`, nodes `0 1 2`, in concrete indices -/
def exView : View :=
  { g := { directed := true, nodes := [0, 1, 2], edges := [⟨0, 0, 1, 7⟩] }, nb := 3, ix := [],
    out := [(0, [(1, 0)]), (1, []), (2, [])], inn := [(0, []), (1, [(0, 0)]), (2, [])] }

def exState : AState := { om := { p2n := [(0, 0), (1, 1), (2, 2)], n2p := [0, 1, 2] }, cap := 3 }

/-- the example view meets the fuel hypothesis of `C14_try_from_graph_complete` and is accepted -/
example : TopoFuelOk exView := by unfold TopoFuelOk; decide

def okOf {α : Type} : Except String α → Option α
  | .ok a => some a
  | .error _ => none

example : (okOf (tryAddEdge exView exState 2 0)).map (fun r => (r.1.om.p2n, r.1.om.n2p, r.2)) =
    some ([(0, 2), (1, 0), (2, 1)], [1, 2, 0], .accepted) := by decide
example : (okOf (tryAddEdge exView exState 1 0)).map (·.2) = some (.cycle 0) := by decide
example : (okOf (isValidEdge exView exState 1 0)).map (·.2) = some false := by decide
example : (okOf (tryFromGraph exView)).map (fun r => r.elim (fun _ => []) (·.om.p2n)) =
    some [(0, 2), (1, 0), (2, 1)] := by decide

example : Inv exView exState := by
  refine ⟨⟨by unfold Sorted; decide, ?_, ?_⟩, ⟨rfl, rfl⟩, ?_⟩
  · intro p n h
    simp only [exState, List.mem_cons, Prod.mk.injEq, List.mem_nil_iff, or_false] at h
    rcases h with ⟨rfl, rfl⟩ | ⟨rfl, rfl⟩ | ⟨rfl, rfl⟩ <;> decide
  · intro n h
    simp only [exView, List.mem_cons, List.mem_nil_iff, or_false] at h
    rcases h with rfl | rfl | rfl
    · exact ⟨0, by decide, by decide⟩
    · exact ⟨1, by decide, by decide⟩
    · exact ⟨2, by decide, by decide⟩
  · intro x hx
    simp only [exView, List.mem_cons, List.mem_nil_iff, or_false] at hx
    rcases hx with rfl | rfl | rfl <;> decide

/-! ### wave 4: `range`

`range(lo, hi)` was mirrored only; these are its order-map theorems (`nodes_iter`, `get_position`,
`at_position` have theirs above). -/

/-- `range(lo, hi)` panics exactly when std's `BTreeMap::range` does: inverted (or empty-excluded)
bounds on a map that has a root. -/
theorem C14_range_panics_iff (om : OrderMap) (lo hi : Bnd) :
    om.range lo hi = none ↔ rangePanics lo hi = true ∧ om.p2n ≠ [] :=
  range_none_iff om lo hi

/-- `range(..)` is `nodes_iter()`. -/
theorem C14_range_unbounded (om : OrderMap) : om.range .unb .unb = some om.nodesIter :=
  range_unbounded om

/-- **`range` lists exactly the live nodes whose position lies in the interval**, each once, by
increasing position, as a sublist of `nodes_iter`. -/
theorem C14_range_lists_interval (L : List Nat) (om : OrderMap) (h : OMInv L om) (lo hi : Bnd) (l : List Nat)
    (hr : om.range lo hi = some l) :
    l.Nodup ∧
    (∀ x, x ∈ l ↔ x ∈ L ∧ ∃ p, om.getPos x = .ok p ∧ lo.loOk p = true ∧ hi.hiOk p = true) ∧
    l.Sublist om.nodesIter ∧
    l.Pairwise (fun x y => ∀ px py, om.getPos x = .ok px → om.getPos y = .ok py → px < py) :=
  range_spec h hr

/-- **`range` is topologically ordered**: under the invariant with a valid order (i.e. after every
history), every edge between two nodes listed by `range(lo, hi)` goes from an earlier to a later
place of that list. -/
theorem C14_range_topological (v : View) (s : AState) (h : Inv2 v s) (lo hi : Bnd) (l : List Nat)
    (hr : s.om.range lo hi = some l) :
    ∀ a b, b ∈ v.succ a → a ∈ l → b ∈ l → l.idxOf a < l.idxOf b :=
  range_topological h hr

/-- JUDGE (`range`): the specification function the driver judges a `range` answer with
(`Dag.rangeSpec`: the reported order filtered by the reported positions), applied to the model's own
`nodes_iter` and `get_position`, is the model's `range`. -/
theorem C14_range_judge (L : List Nat) (om : OrderMap) (h : OMInv L om) (lo hi : Bnd) (l : List Nat)
    (pos : List (Nat × Nat)) (hpos : ∀ n ∈ L, ∀ p, om.getPos n = .ok p → pos.lookup n = some p)
    (hr : om.range lo hi = some l) : l = rangeSpec om.nodesIter pos lo.loOk hi.hiOk :=
  range_eq_rangeSpec h pos hpos hr

example : exState.om.range (.inc 1) .unb = some [1, 2] ∧ exState.om.range (.exc 2) (.exc 2) = none ∧
    ({} : OrderMap).range (.exc 2) (.exc 2) = some [] := by decide

/-! ### wave 4: a rejected insertion changes nothing; insertions with an absent endpoint -/

/-- **reject ⇒ unchanged, unconditionally** (sharpens `C14_reject_unchanged`): whenever
`try_add_edge` / `try_update_edge` / `Build::add_edge` / `Build::update_edge` returns anything but
"accepted", the order map and both scratch bit sets are exactly what they were (only the capacity of
the scratch sets may have grown) — in ANY state and for ANY indices: no invariant, no liveness, no
well-formed view is assumed. -/
theorem C14_reject_unchanged_any (v : View) (s s' : AState) (a b : Nat) (r : EdgeRes)
    (h : tryAddEdge v s a b = .ok (s', r)) (hrej : r ≠ .accepted) :
    s'.om = s.om ∧ s'.disc = s.disc ∧ s'.fin = s.fin ∧ s.cap ≤ s'.cap :=
  reject_unchanged_any h hrej

/-- **a rejected insertion leaves the inner graph AND the order map as they were**: in the model a
rejected call never reaches the inner graph — whatever graph `v'` an accepted call would have left,
the transition keeps the old graph `v` — and the bookkeeping is equal. -/
theorem C14_reject_changes_nothing (v v' : View) (s s' : AState) (a b : Nat) (r : EdgeRes)
    (h : tryAddEdge v s a b = .ok (s', r)) (hrej : r ≠ .accepted) :
    stepCall v s (.edge a b v') = .ok (v, s') ∧
    s'.om = s.om ∧ s'.disc = s.disc ∧ s'.fin = s.fin ∧ s.cap ≤ s'.cap := by
  refine ⟨?_, reject_unchanged_any h hrej⟩
  cases r with
  | accepted => exact absurd rfl hrej
  | selfLoop => simp only [AcyProofs.stepCall, h]
  | cycle n => simp only [AcyProofs.stepCall, h]

/-- an insertion naming an ABSENT endpoint is never accepted; if the call returns at all (instead of
the documented panic) it was rejected and nothing changed. -/
theorem C14_absent_endpoint_never_accepted (v : View) (s s' : AState) (a b : Nat) (r : EdgeRes)
    (habs : a ∉ v.g.nodes ∨ b ∉ v.g.nodes) (h : tryAddEdge v s a b = .ok (s', r)) :
    r ≠ .accepted ∧ s'.om = s.om ∧ s'.disc = s.disc ∧ s'.fin = s.fin ∧ s.cap ≤ s'.cap :=
  absent_never_accepted habs h

/-- … and the only answers it can return are `Err(SelfLoop)` (then `a = b`, state equal) and
`Err(Cycle(b))`. -/
theorem C14_absent_endpoint_shape (v : View) (s s' : AState) (a b : Nat) (r : EdgeRes)
    (habs : a ∉ v.g.nodes ∨ b ∉ v.g.nodes) (h : tryAddEdge v s a b = .ok (s', r)) :
    (r = .selfLoop ∧ a = b ∧ s' = s) ∨ (r = .cycle b ∧ a ≠ b) :=
  absent_source_shape habs h

/-- an absent TARGET always panics, as documented: with `b` not live, `a ≠ b`, the model's
`try_add_edge(a, b)` ends in one of the mirrored panics in every state.  (`v.succ b = []`: an absent
index has no neighbours — part of `viewOkB`.)  With an absent SOURCE the model — like the crate — may
instead answer `Err(Cycle(b))` from a stale `node_to_pos` entry; see `C14_absent_endpoint_shape`. -/
theorem C14_absent_target_panics (v : View) (s : AState) (a b : Nat) (hb : b ∉ v.g.nodes) (hab : a ≠ b)
    (hdead : v.succ b = []) : ∃ e, tryAddEdge v s a b = .error e :=
  absent_target_panics s hb hab hdead

/-- non-vacuity: index 7 is absent from `exView`; as a target the call panics, as a source too here
(`get_position(7)` is out of bounds), and `try_add_edge(7, 7)` is `Err(SelfLoop)` -/
example : (okOf (tryAddEdge exView exState 0 7)) = none ∧ (okOf (tryAddEdge exView exState 7 0)) = none ∧
    (okOf (tryAddEdge exView exState 7 7)).map (·.2) = some .selfLoop := by decide

/-- a stale slot: after `remove_node(1)` on a `DiGraph` `0 → 2` (node 2 moves into index 1 and keeps
position 2, slot 2 of `node_to_pos` keeps the stale 2), `try_add_edge(2, 0)` with the absent source
`2` answers `Err(Cycle(0))` instead of panicking — and changes nothing. -/
def staleView : View :=
  { g := { directed := true, nodes := [0, 1], edges := [⟨0, 0, 1, 7⟩] }, nb := 2, ix := [],
    out := [(0, [(1, 0)]), (1, [])], inn := [(0, []), (1, [(0, 0)])] }
def staleState : AState := { om := { p2n := [(0, 0), (2, 1)], n2p := [0, 2, 2] }, cap := 3 }
example : (okOf (tryAddEdge staleView staleState 2 0)).map (fun r => (r.1.om == staleState.om, r.2)) =
    some (true, .cycle 0) := by decide

/-! ### wave 4: run-time checks of the hypotheses

Every hypothesis of the theorems above that concerns the concrete case is an executable Boolean of
`Driver/C14Checks.lean`, evaluated by the driver on every graph line / state / call it judges
(`SPECFAIL side condition <name> does not hold` otherwise).  These theorems say the Booleans imply the
hypotheses — so every judged case is inside the theorems' scope. -/

/-- the Boolean forms of `Call.InnerOk` / `EdgesOk` (they include `viewOkB` of the graph after the call) -/
abbrev innerOkB := AcyW4.innerOkB
abbrev edgesOkB := AcyW4.edgesOkB

/-- `viewOkB` (every `graph` line): the view hypotheses of all theorems — directed, nodes listed once,
edge endpoints live (`hd`, `hwf`), `ViewOk`, `Closed`, sources live (`hsrc`), live index below
`node_bound` (`hnb`, `Safe.index`), both DFS fuel bounds (`Safe.fuel`) and the `toposort` fuel bound
`TopoFuelOk`; and an absent index has no neighbours. -/
theorem C14_viewOk_check (v : View) (h : C14.viewOkB v = true) :
    v.g.directed = true ∧ v.g.nodes.Nodup ∧ (∀ e ∈ v.g.edges, e.src ∈ v.g.nodes ∧ e.tgt ∈ v.g.nodes) ∧
    ViewOk v ∧ Closed v ∧ (∀ x y, y ∈ v.succ x → x ∈ v.g.nodes) ∧ (∀ x ∈ v.g.nodes, x < v.nb) ∧
    (∀ dir, needL (fun x => (nbrs dir v x).length) [] v.g.nodes + 1 ≤ dfsFuel v) ∧ TopoFuelOk v ∧
    (∀ a, a ∉ v.g.nodes → v.succ a = [] ∧ v.pred a = []) :=
  let c := viewChecked_of_viewOkB h
  ⟨c.directed, c.nodup, c.edgesLive, c.viewOk, c.closed, c.srcLive, c.index, c.dfsFuelOk, c.topoFuelOk,
    fun a ha => ⟨c.succDead a ha, c.predDead a ha⟩⟩

/-- `safeB` (every state of the mirror model the driver judges in): `Safe v s` — hence `Inv2`, `Inv`,
`OMInv`, `Clear`, `OrderValid`, i.e. every state hypothesis of the step, history, rejection, range
and no-panic theorems — and the inner graph is acyclic (`hac` of the dynamic clause). -/
theorem C14_safe_check (v : View) (s : AState) (hv : C14.viewOkB v = true) (h : C14.safeB v s = true) :
    Safe v s ∧ Inv2 v s ∧ Inv v s ∧ OMInv v.g.nodes s.om ∧ Clear s ∧ OrderValid v s.om ∧ Dag.Acyclic v.g :=
  let hs := safe_of_checks hv h
  let c := viewChecked_of_viewOkB hv
  ⟨hs, hs.inv2, hs.inv2.1, hs.inv2.1.1, hs.inv2.1.2.1, hs.inv2.2.1, inv2_acyclic hs.inv2 c.directed c.edgesLive⟩

/-- the liveness test of the driver (`live v a`) is membership in the node list (`ha`, `hb`) -/
theorem C14_live_check (v : View) (a : Nat) : live v a = true ↔ a ∈ v.g.nodes := live_iff v a

/-- `innerOkB` (every graph line that follows a call): the contract `Call.InnerOk`, and the extra
hypothesis of `C14_no_panic_step` (a new index is below the new `node_bound`). -/
theorem C14_innerOk_check (v : View) (c : Call) (h : innerOkB v c = true) :
    c.InnerOk v ∧ ∀ i v', c = .addNode i v' → i < v'.nb :=
  ⟨innerOk_of_check h, addNode_index_of_check h⟩

/-- `edgesOkB` (every graph line that follows a call): the contract `EdgesOk`. -/
theorem C14_edgesOk_check (v : View) (c : Call) (h : edgesOkB v c = true) : EdgesOk v c :=
  edgesOk_of_check h

/-- **a checked step is inside every theorem's scope**: if the graph line, the model state and the
call pass the driver's checks, then the call returns in the model (no mirrored panic, fuel suffices),
and the state it leaves again satisfies `Safe` and the graph it leaves is acyclic. -/
theorem C14_checked_step (v : View) (s : AState) (c : Call) (hv : C14.viewOkB v = true)
    (hs : C14.safeB v s = true) (hi : innerOkB v c = true) (he : edgesOkB v c = true) :
    ∃ v1 s1, stepCall v s c = .ok (v1, s1) ∧ Safe v1 s1 ∧ Dag.Acyclic v1.g := by
  have hsafe := safe_of_checks hv hs
  obtain ⟨⟨v1, s1⟩, hstep⟩ := stepCall_total hsafe (innerOk_of_check hi) (addNode_index_of_check hi)
  have hinv2 := inv2_step hsafe.inv2 (innerOk_of_check hi) (edgesOk_of_check he) hstep
  have hview : C14.viewOkB v1 = true := by
    cases c with
    | addNode i v' =>
      simp only [AcyW4.innerOkB, Bool.and_eq_true] at hi
      simp only [AcyProofs.stepCall] at hstep
      split at hstep
      · cases hstep; exact hi.1
      · cases hstep
    | edge a b v' =>
      simp only [AcyW4.innerOkB, Bool.and_eq_true] at hi
      simp only [AcyProofs.stepCall] at hstep
      split at hstep
      · cases hstep; exact hi.1
      · cases hstep; exact hv
      · cases hstep
    | removeNode n v' =>
      simp only [AcyW4.innerOkB, Bool.and_eq_true] at hi
      simp only [AcyProofs.stepCall] at hstep
      split at hstep
      · cases hstep; exact hi.1
      · cases hstep; exact hv
      · cases hstep
    | removeEdge v' =>
      simp only [AcyW4.innerOkB, Bool.and_eq_true] at hi
      simp only [AcyProofs.stepCall] at hstep
      cases hstep; exact hi.1
    | isValid a b =>
      simp only [AcyProofs.stepCall] at hstep
      split at hstep
      · cases hstep; exact hv
      · cases hstep
  have c1 := viewChecked_of_viewOkB hview
  exact ⟨v1, s1, hstep, ⟨hinv2, c1.index, c1.dfsFuelOk⟩, inv2_acyclic hinv2 c1.directed c1.edgesLive⟩

/-- **a checked `try_from_graph` is inside the exactness theorem's scope** (`TopoFuelOk` included):
on a graph line that passed `viewOkB`, the model accepts iff the graph is acyclic, answers
`Err(Cycle(_))` only if it is not, and an accepted state is `Safe`. -/
theorem C14_checked_from (v : View) (hv : C14.viewOkB v = true) :
    ((∃ s, tryFromGraph v = .ok (.inr s)) ↔ Dag.Acyclic v.g) ∧
    (∀ x, tryFromGraph v = .ok (.inl x) → ¬ Dag.Acyclic v.g) ∧
    (∀ s, tryFromGraph v = .ok (.inr s) → Safe v s) := by
  have c := viewChecked_of_viewOkB hv
  have hex := C14_try_from_graph_exact v c.closed c.viewOk c.srcLive c.directed c.edgesLive c.index c.topoFuelOk
  exact ⟨hex.1, hex.2, fun s hs => ⟨tryFromGraph_sound c.closed c.viewOk c.srcLive hs, c.index, c.dfsFuelOk⟩⟩

/-- non-vacuity of the checks: the example view and state pass them, and so does a real call -/
example : C14.viewOkB exView = true ∧ C14.safeB exView exState = true := by decide
/-- … and the checks can fail: a view whose neighbour iteration repeats an edge 25 times (the witness
of `C14_try_from_graph_complete_statement_false`) is rejected, and so is a state whose order has the
edge `0 → 1` going backwards -/
example : C14.viewOkB completeWitness = false ∧ C14.viewWhy completeWitness = "neighbour-lists-fit-dfs-fuel" ∧
    C14.viewWhy { completeWitness with nb := 20 } = "successor-lists-fit-toposort-fuel (TopoFuelOk)" ∧
    C14.safeB exView { om := { p2n := [(0, 1), (1, 0), (2, 2)], n2p := [1, 0, 2] }, cap := 3 } = false := by decide
example : innerOkB exView (.isValid 2 0) = true ∧ edgesOkB exView (.isValid 2 0) = true := by decide

/-! ### wave 4: the contracts instantiated with the C01 / C02 storage models

Above, "all histories" quantifies over every inner-graph behaviour satisfying `Call.InnerOk` /
`EdgesOk`.  Here the inner graph is no longer a parameter: `Acyclic<DiGraph>` is the machine
`AcyG.AG` = the C01 mirror model of `Graph` (`Model/Graph.lean`, linked-list adjacency, `swap_remove`
removal) + the C14 bookkeeping, and `Acyclic<StableDiGraph>` is `AcyS.AS` = the C02 mirror model of
`StableGraph` (`Model/StableGraph.lean`, vacant slots, both free lists, index reuse) + the same
bookkeeping; `gView` / `sView` is what the generic code of `acyclic.rs` sees of them
(`node_identifiers`, `node_bound`, `neighbors_directed`); the definitions are core-only
(`Model/AcyclicGraph.lean`, `Model/AcyclicStable.lean`) and the C14 driver replays both machines
beside every case of the correspondence run, comparing `gView` / `sView` with the real crate's inner
graph after every call.  Using the representation invariants and
refinement theorems of C01 / C02, both storage models are proved to satisfy the contracts for every
call, so the `C14_*` theorems hold for them UNCONDITIONALLY — for all histories of calls with
arbitrary (also absent) arguments, all index limits (`endv` / `fin` arbitrary), debug and release. -/

/-- what a well-formed inner graph presents (`ViewOk`, `Closed`, sources live, index < `node_bound`,
both fuel bounds): the view part of `Safe` + `TopoFuelOk` -/
abbrev ViewGood := AcyG.ViewGood

/-- **a directed `Graph` / `StableGraph` presents a well-formed view** in every state satisfying its
own (C01 / C02) representation invariant — i.e. in every reachable state (`C01_inv_all_histories`,
`C02_all_histories`).  In particular `TopoFuelOk` holds: a real graph lists every edge once. -/
theorem C14_storage_views_ok :
    (∀ s : G.State, GProofs.Inv s → s.directed = true → ViewGood (AcyG.gView s)) ∧
    (∀ s : SG.State, SGProofs.Inv s → s.directed = true → ViewGood (AcyS.sView s)) :=
  ⟨fun _ h hd => AcyG.gView_good h hd, fun _ h hd => AcyS.sView_good h hd⟩

/-- **`DiGraph` satisfies the contracts** (C01 model): `add_node`, `add_edge`, `update_edge`,
`remove_edge`, `remove_node` — the last through C01's `swap_remove` theorem: the last node moves into
the freed index (`RemoveContract`, second clause; the `rho` clause of `EdgesOk`). -/
theorem C14_digraph_contracts (s : G.State) (h : GProofs.Inv s) (hd : s.directed = true) :
    (∀ s' w i, G.tryAddNode s w = (s', some i) →
      (Call.addNode i (AcyG.gView s')).InnerOk (AcyG.gView s) ∧ EdgesOk (AcyG.gView s) (.addNode i (AcyG.gView s'))) ∧
    (∀ s' a b w e, G.tryAddEdge s a b w = (s', .ok e) →
      (Call.edge a b (AcyG.gView s')).InnerOk (AcyG.gView s) ∧ EdgesOk (AcyG.gView s) (.edge a b (AcyG.gView s'))) ∧
    (∀ s' a b w e, a < s.nodes.length → b < s.nodes.length → G.tryUpdateEdge s a b w = .ok (s', .ok e) →
      (Call.edge a b (AcyG.gView s')).InnerOk (AcyG.gView s) ∧ EdgesOk (AcyG.gView s) (.edge a b (AcyG.gView s'))) ∧
    (∀ e ed, s.edges[e]? = some ed → ∃ s', G.removeEdge s e = .ok (s', some ed.weight) ∧
      (Call.removeEdge (AcyG.gView s')).InnerOk (AcyG.gView s) ∧ EdgesOk (AcyG.gView s) (.removeEdge (AcyG.gView s'))) ∧
    (∀ a nd, s.nodes[a]? = some nd → ∃ s', G.removeNode s a = .ok (s', some nd.weight) ∧
      (Call.removeNode a (AcyG.gView s')).InnerOk (AcyG.gView s) ∧ EdgesOk (AcyG.gView s) (.removeNode a (AcyG.gView s'))) := by
  refine ⟨fun s' w i hs => ?_, fun s' a b w e hs => ?_, fun s' a b w e ha hb hs => ?_, fun e ed hed => ?_, fun a nd hnd => ?_⟩
  · exact (AcyG.contract_addNode h hd hs).2.2.2
  · exact (AcyG.contract_addEdge h hd hs).2.2
  · exact (AcyG.contract_updateEdge h hd ha hb hs).2.2
  · obtain ⟨s', h1, _, _, h2⟩ := AcyG.contract_removeEdge h hd hed
    exact ⟨s', h1, h2⟩
  · obtain ⟨s', h1, _, _, _, h2⟩ := AcyG.contract_removeNode h hd hnd
    exact ⟨s', h1, h2⟩

/-- **`StableDiGraph` satisfies the contracts** (C02 model): `add_node` hands out any fresh index
(a reused vacancy or a new slot), `remove_node` makes the index vanish and renumbers nothing
(`RemoveContract`, first clause; `rho` = identity). -/
theorem C14_stable_contracts (s : SG.State) (h : SGProofs.Inv s) (hd : s.directed = true) :
    (∀ s' w i, SG.tryAddNode s w = .ok (s', .ok i) →
      (Call.addNode i (AcyS.sView s')).InnerOk (AcyS.sView s) ∧ EdgesOk (AcyS.sView s) (.addNode i (AcyS.sView s'))) ∧
    (∀ s' a b w e, SG.tryAddEdge s a b w = .ok (s', .ok e) →
      (Call.edge a b (AcyS.sView s')).InnerOk (AcyS.sView s) ∧ EdgesOk (AcyS.sView s) (.edge a b (AcyS.sView s'))) ∧
    (∀ s' a b w e, AcyS.Live s a → AcyS.Live s b → SG.tryUpdateEdge s a b w = .ok (s', .ok e) →
      (Call.edge a b (AcyS.sView s')).InnerOk (AcyS.sView s) ∧ EdgesOk (AcyS.sView s) (.edge a b (AcyS.sView s'))) ∧
    (∀ s' e r, SG.removeEdge s e = .ok (s', r) →
      (Call.removeEdge (AcyS.sView s')).InnerOk (AcyS.sView s) ∧ EdgesOk (AcyS.sView s) (.removeEdge (AcyS.sView s'))) ∧
    (∀ s' a r, SG.removeNode s a = .ok (s', r) →
      (Call.removeNode a (AcyS.sView s')).InnerOk (AcyS.sView s) ∧ EdgesOk (AcyS.sView s) (.removeNode a (AcyS.sView s'))) :=
  ⟨fun _ _ _ hs => (AcyS.scontract_addNode h hd hs).2.2, fun _ _ _ _ _ hs => (AcyS.scontract_addEdge h hd hs).2.2,
   fun _ _ _ _ _ ha hb hs => (AcyS.scontract_updateEdge h hd ha hb hs).2.2,
   fun _ _ _ hs => (AcyS.scontract_removeEdge h hd hs).2.2, fun _ _ _ hs => (AcyS.scontract_removeNode h hd hs).2.2.2.2⟩

/-- the invariant of `Acyclic<DiGraph>` / `Acyclic<StableDiGraph>`: the storage model's own
representation invariant, directedness, and `Inv2` over the view it presents -/
abbrev AGInv := AcyG.AGInv
abbrev ASInv := AcyS.ASInv

/-- `Acyclic::new()` / `with_capacity` establish the invariant, for every index limit -/
theorem C14_storage_inv_new :
    (∀ endv cap, AGInv (AcyG.AG.new endv cap)) ∧ (∀ fin noLimit debug cap, ASInv (AcyS.AS.new fin noLimit debug cap)) :=
  ⟨AcyG.ag_inv_new, AcyS.as_inv_new⟩

/-- **every call of `Acyclic<DiGraph>` / `Acyclic<StableDiGraph>` preserves the invariant**, with
arbitrary arguments (live or absent), whenever it returns — NO hypothesis about the inner graph. -/
theorem C14_storage_inv_step :
    (∀ (x x' : AcyG.AG) (op : AcyG.AOp), AGInv x → x.step op = .ok x' → AGInv x') ∧
    (∀ (x x' : AcyS.AS) (op : AcyG.AOp), ASInv x → x.step op = .ok x' → ASInv x') :=
  ⟨fun _ _ _ hx h => AcyG.ag_inv_step hx h, fun _ _ _ hx h => AcyS.as_inv_step hx h⟩

/-- **ALL HISTORIES, `Acyclic<DiGraph>`** (unconditional): after any finite sequence of `add_node`,
`try_add_edge` / `add_edge`, `try_update_edge` / `update_edge`, `remove_edge`, `remove_node`,
`is_valid_edge` with arbitrary arguments on a graph built by `new` / `with_capacity` (any index width),
the wrapped graph has no directed cycle, the order lists exactly the node indices `0 .. node_count`,
each once, every edge goes from an earlier to a later position, and the state is `Safe` (so none of
the following calls on live arguments can panic). -/
theorem C14_digraph_all_histories (endv cap : Nat) (ops : List AcyG.AOp) (x : AcyG.AG)
    (h : AcyG.AG.run (AcyG.AG.new endv cap) ops = .ok x) :
    Dag.Acyclic (AcyG.gView x.g).g ∧
    x.a.om.nodesIter.Nodup ∧ (∀ n, n ∈ x.a.om.nodesIter ↔ n < x.g.nodes.length) ∧
    (∀ e ∈ (AcyG.gView x.g).g.edges, ∃ ps pt, x.a.om.getPos e.src = .ok ps ∧ x.a.om.getPos e.tgt = .ok pt ∧ ps < pt) ∧
    Safe (AcyG.gView x.g) x.a := by
  have hx := AcyG.ag_inv_run ops _ x (AcyG.ag_inv_new endv cap) h
  obtain ⟨h1, h2, h3, h4⟩ := AcyG.ag_inv_meaning hx
  exact ⟨h2, h3, h4, inv2_topo hx.2.2 (AcyG.gView_good hx.1 hx.2.1).edgesLive, h1⟩

/-- **ALL HISTORIES, `Acyclic<StableDiGraph>`** (unconditional), debug and release, any index width:
the same with "the live node indices" for "`0 .. node_count`". -/
theorem C14_stable_all_histories (fin : Nat) (noLimit debug : Bool) (cap : Nat) (ops : List AcyG.AOp) (x : AcyS.AS)
    (h : AcyS.AS.run (AcyS.AS.new fin noLimit debug cap) ops = .ok x) :
    Dag.Acyclic (AcyS.sView x.g).g ∧
    x.a.om.nodesIter.Nodup ∧ (∀ n, n ∈ x.a.om.nodesIter ↔ (SG.nodeWeight x.g n).isSome = true) ∧
    (∀ e ∈ (AcyS.sView x.g).g.edges, ∃ ps pt, x.a.om.getPos e.src = .ok ps ∧ x.a.om.getPos e.tgt = .ok pt ∧ ps < pt) ∧
    Safe (AcyS.sView x.g) x.a := by
  have hx := AcyS.as_inv_run ops _ x (AcyS.as_inv_new fin noLimit debug cap) h
  obtain ⟨h1, h2, h3, h4⟩ := AcyS.as_inv_meaning hx
  exact ⟨h2, h3, h4, inv2_topo hx.2.2 (AcyS.sView_good hx.1 hx.2.1).edgesLive, h1⟩

/-- **a rejected (failed) `try_add_edge` / `try_update_edge` leaves `OrderMap` AND graph equal**: the
inner graph afterwards is the SAME storage state — every vector, link and free list — not merely an
equal graph, and the order map and scratch sets are equal.  Both storage models, any state. -/
theorem C14_storage_reject_unchanged :
    (∀ (x x' : AcyG.AG) (a b w : Nat) (a' : AState) (r : EdgeRes),
      tryAddEdge (AcyG.gView x.g) x.a a b = .ok (a', r) → r ≠ .accepted →
      (x.step (.tryAddEdge a b w) = .ok x' ∨ x.step (.tryUpdateEdge a b w) = .ok x') →
      x'.g = x.g ∧ x'.a.om = x.a.om ∧ x'.a.disc = x.a.disc ∧ x'.a.fin = x.a.fin) ∧
    (∀ (x x' : AcyS.AS) (a b w : Nat) (a' : AState) (r : EdgeRes),
      tryAddEdge (AcyS.sView x.g) x.a a b = .ok (a', r) → r ≠ .accepted →
      (x.step (.tryAddEdge a b w) = .ok x' ∨ x.step (.tryUpdateEdge a b w) = .ok x') →
      x'.g = x.g ∧ x'.a.om = x.a.om ∧ x'.a.disc = x.a.disc ∧ x'.a.fin = x.a.fin) := by
  constructor
  · intro x x' a b w a' r hres hr hstep
    rcases hstep with hs | hs
    · exact (AcyG.ag_reject_unchanged hres hr).1 hs
    · exact (AcyG.ag_reject_unchanged hres hr).2 hs
  · intro x x' a b w a' r hres hr hstep
    rcases hstep with hs | hs
    · exact (AcyS.as_reject_unchanged hres hr).1 hs
    · exact (AcyS.as_reject_unchanged hres hr).2 hs

/-- **NO PANIC except the documented ones, `Acyclic<DiGraph>`**: in every state satisfying the
invariant (every reachable state), `add_node` returns unless the node-index limit is reached;
`try_add_edge` / `try_update_edge` on live endpoints return unless the edge-index limit is reached;
`remove_edge`, `remove_node` with ANY argument and `is_valid_edge` on live arguments always return —
no mirrored assertion of `acyclic.rs` fires, no fuel runs out, the C01 model never faults. -/
theorem C14_digraph_no_panic (x : AcyG.AG) (hx : AGInv x) :
    (∀ w, x.g.nodes.length ≠ x.g.endv → ∃ x', x.step (.addNode w) = .ok x') ∧
    (∀ a b w, a < x.g.nodes.length → b < x.g.nodes.length → x.g.edges.length ≠ x.g.endv →
      (∃ x', x.step (.tryAddEdge a b w) = .ok x') ∧ (∃ x', x.step (.tryUpdateEdge a b w) = .ok x')) ∧
    (∀ e, ∃ x', x.step (.removeEdge e) = .ok x') ∧
    (∀ n, ∃ x', x.step (.removeNode n) = .ok x') ∧
    (∀ a b, a < x.g.nodes.length → b < x.g.nodes.length → ∃ x', x.step (.isValidEdge a b) = .ok x') :=
  AcyG.ag_no_panic hx

/-- **NO PANIC except the documented ones, `Acyclic<StableDiGraph>`** (debug and release) -/
theorem C14_stable_no_panic (x : AcyS.AS) (hx : ASInv x) :
    (∀ w, x.g.nodeCount ≠ x.g.fin → ∃ x', x.step (.addNode w) = .ok x') ∧
    (∀ a b w, AcyS.Live x.g a → AcyS.Live x.g b → x.g.edgeCount ≠ x.g.fin →
      (∃ x', x.step (.tryAddEdge a b w) = .ok x') ∧ (∃ x', x.step (.tryUpdateEdge a b w) = .ok x')) ∧
    (∀ e, ∃ x', x.step (.removeEdge e) = .ok x') ∧
    (∀ n, ∃ x', x.step (.removeNode n) = .ok x') ∧
    (∀ a b, AcyS.Live x.g a → AcyS.Live x.g b → ∃ x', x.step (.isValidEdge a b) = .ok x') :=
  AcyS.as_no_panic hx

/-- **`try_from_graph` / `TryFrom` accept exactly the acyclic graphs — without `TopoFuelOk`**: for a
`DiGraph` / `StableDiGraph` (with or without vacancies) in any state satisfying its representation
invariant the call never panics, answers `Ok` iff the graph has no directed cycle, wraps the graph
unchanged, and establishes the invariant (so every history continues from there). -/
theorem C14_storage_try_from_graph :
    (∀ g : G.State, GProofs.Inv g → g.directed = true →
      ((∃ x, AcyG.AG.tryFromGraph g = .ok (.inr x)) ↔ Dag.Acyclic (AcyG.gView g).g) ∧
      (∀ x, AcyG.AG.tryFromGraph g = .ok (.inr x) → x.g = g ∧ AGInv x) ∧
      (∀ n, AcyG.AG.tryFromGraph g = .ok (.inl n) → ¬ Dag.Acyclic (AcyG.gView g).g)) ∧
    (∀ g : SG.State, SGProofs.Inv g → g.directed = true →
      ((∃ x, AcyS.AS.tryFromGraph g = .ok (.inr x)) ↔ Dag.Acyclic (AcyS.sView g).g) ∧
      (∀ x, AcyS.AS.tryFromGraph g = .ok (.inr x) → x.g = g ∧ ASInv x) ∧
      (∀ n, AcyS.AS.tryFromGraph g = .ok (.inl n) → ¬ Dag.Acyclic (AcyS.sView g).g)) := by
  constructor
  · intro g hi hd
    obtain ⟨h1, h2, h3, _⟩ := AcyG.ag_tryFromGraph hi hd
    exact ⟨h1, h2, h3⟩
  · intro g hi hd
    exact AcyS.as_tryFromGraph hi hd

/-- all histories continue from any state satisfying the invariant — in particular from an accepted
`try_from_graph` -/
theorem C14_storage_inv_history :
    (∀ (ops : List AcyG.AOp) (x x' : AcyG.AG), AGInv x → AcyG.AG.run x ops = .ok x' → AGInv x') ∧
    (∀ (ops : List AcyG.AOp) (x x' : AcyS.AS), ASInv x → AcyS.AS.run x ops = .ok x' → ASInv x') :=
  ⟨AcyG.ag_inv_run, AcyS.as_inv_run⟩

/-- non-vacuity: a concrete history of `Acyclic<DiGraph>` over the C01 model — two nodes, the insertion
`1 → 0` against the initial order forces a reorder, the reverse insertion `0 → 1` is then rejected -/
example : (okOf (AcyG.AG.run (AcyG.AG.new 255 0) [.addNode 10, .addNode 11, .tryAddEdge 1 0 7, .tryAddEdge 0 1 8])).map
    (fun x => (x.a.om.nodesIter, x.g.edges.length)) = some ([1, 0], 1) := by decide

/-- … and of `Acyclic<StableDiGraph>` over the C02 model (debug build, `u8` indices): the insertion
`1 → 0` reorders -/
example : (okOf (AcyS.AS.run (AcyS.AS.new 255 false true 0) [.addNode 10, .addNode 11, .tryAddEdge 1 0 7])).map
    (fun x => (x.a.om.nodesIter, SG.nodeIndices x.g, x.g.edgeCount)) = some ([1, 0], [0, 1], 1) := by decide

/-! ### wave 6: the corners

The one-position range, the half-open empty ranges, what an inverted range really does, and the index
limits of the inner graph (node limit: `add_node`; edge limit: an accepted insertion) — the calls the
correspondence run now reaches with `fam=ncap` / `fam=ecap` and the `range` corner generator. -/

open PetgraphModel.AcyW6

/-- **`range(p..=p)` is `at_position(p)`** — the node at that position, or nothing; needs only that the
position map is sorted (it is in every state, `OMInv.sorted`). -/
theorem C14_range_single (om : OrderMap) (hs : Sorted om.p2n) (p : Nat) :
    om.range (.inc p) (.inc p) = some (om.atPos p).toList :=
  range_single hs p

/-- for every live node `n`: `range(get_position(n)..=get_position(n))` yields exactly `[n]` -/
theorem C14_range_single_live (L : List Nat) (om : OrderMap) (h : OMInv L om) (n p : Nat) (hn : n ∈ L)
    (hp : om.getPos n = .ok p) : om.range (.inc p) (.inc p) = some [n] :=
  range_single_live h hn hp

/-- `p..p` and `(Excluded(p), Included(p))` are empty and never panic -/
theorem C14_range_half_open_empty (om : OrderMap) (p : Nat) :
    om.range (.inc p) (.exc p) = some [] ∧ om.range (.exc p) (.inc p) = some [] :=
  range_half_open_empty om p

example : exState.om.range (.inc 1) (.inc 1) = some [1] ∧ exState.om.range (.inc 7) (.inc 7) = some [] ∧
    exState.om.range (.inc 1) (.exc 1) = some [] := by decide

/-- NOT what the code does: "a range whose bounds are the wrong way round is empty". -/
def C14_range_inverted_empty_statement : Prop :=
  ∀ (om : OrderMap) (lo hi : Bnd), rangePanics lo hi = true → om.range lo hi = some []

/-- refuted: on a non-empty order `range(2..=1)` panics (std's `BTreeMap::range`) -/
theorem C14_range_inverted_empty_statement_false_witness :
    rangePanics (.inc 2) (.inc 1) = true ∧ exState.om.range (.inc 2) (.inc 1) = none := by decide

theorem C14_range_inverted_empty_statement_false : ¬ C14_range_inverted_empty_statement := fun h =>
  absurd (h exState.om (.inc 2) (.inc 1) (by decide)) (by decide)

/-- the repaired statement: an inverted range is empty exactly on the empty order, and panics otherwise -/
theorem C14_range_inverted (om : OrderMap) (lo hi : Bnd) (h : rangePanics lo hi = true) :
    (om.p2n = [] → om.range lo hi = some []) ∧ (om.p2n ≠ [] → om.range lo hi = none) := by
  constructor
  · intro he; simp [OrderMap.range, he]
  · intro hne; exact (C14_range_panics_iff om lo hi).mpr ⟨h, hne⟩

/-- **the node limit, `Acyclic<DiGraph>`**: in every reachable state `add_node` returns iff fewer than
`Ix::max()` nodes exist; at the limit it panics in `Graph::add_node` (documented there), before the
bookkeeping is touched. -/
theorem C14_digraph_node_limit (x : AcyG.AG) (hx : AGInv x) (w : Nat) :
    ((∃ x', x.step (.addNode w) = .ok x') ↔ x.g.nodes.length ≠ x.g.endv) ∧
    (x.g.nodes.length = x.g.endv → x.step (.addNode w) = .error "Graph::add_node: index limit") :=
  ⟨ag_node_limit_iff hx w, ag_node_limit_panics x w⟩

/-- **the node limit, `Acyclic<StableDiGraph>`** (debug and release): `add_node` returns iff fewer than
`Ix::max()` nodes are live (a vacancy is reused even when no new slot fits). -/
theorem C14_stable_node_limit (x : AcyS.AS) (hx : ASInv x) (w : Nat) :
    ((∃ x', x.step (.addNode w) = .ok x') ↔ x.g.nodeCount ≠ x.g.fin) ∧
    (x.g.nodeCount = x.g.fin → x.step (.addNode w) = .error "StableGraph::add_node: index limit") :=
  ⟨as_node_limit_iff hx w, as_node_limit_panics hx.1 w⟩

/-- **the edge limit, `Acyclic<DiGraph>`**: with `Ix::max()` edges in the inner graph an insertion that
the bookkeeping accepts panics in `Graph::add_edge` — after the reorder, so the object has to be
dropped (the harness runs these on a clone) —, a rejected one answers as always and leaves the inner
graph and the order untouched (`C14_storage_reject_unchanged`). -/
theorem C14_digraph_edge_limit (x : AcyG.AG) (a b w : Nat) (a' : AState) (r : EdgeRes)
    (hfull : x.g.edges.length = x.g.endv) (hres : tryAddEdge (AcyG.gView x.g) x.a a b = .ok (a', r)) :
    (r = .accepted → x.step (.tryAddEdge a b w) = .error "Graph::add_edge: index limit") ∧
    (r ≠ .accepted → x.step (.tryAddEdge a b w) = .ok ⟨x.g, a'⟩ ∧ x.step (.tryUpdateEdge a b w) = .ok ⟨x.g, a'⟩) :=
  ag_edge_limit x a b w a' r hfull hres

/-- non-vacuity: a `u8`-like machine with limit 2 — the third `add_node` panics, and with two edges
the third accepted insertion panics while the cycle-closing one is still answered -/
example : (okOf (AcyG.AG.run (AcyG.AG.new 2 0) [.addNode 10, .addNode 11])).isSome = true ∧
    (okOf (AcyG.AG.run (AcyG.AG.new 2 0) [.addNode 10, .addNode 11, .addNode 12])).isSome = false ∧
    (okOf (AcyG.AG.run (AcyG.AG.new 2 0) [.addNode 10, .addNode 11, .tryAddEdge 0 1 1, .tryAddEdge 0 1 2, .tryAddEdge 1 0 3])).isSome = true ∧
    (okOf (AcyG.AG.run (AcyG.AG.new 2 0) [.addNode 10, .addNode 11, .tryAddEdge 0 1 1, .tryAddEdge 0 1 2, .tryAddEdge 0 1 3])).isSome = false := by
  decide

/-! #### run-time checks of the wave-6 hypotheses

The driver expects `add_node => panic` exactly when the graph line lists `≥ Ix::max()` live nodes, and
accepts the harness's claim `full` for a `Graph` only when the graph line lists `≥ Ix::max()` edges;
the graph line is compared with the view of the replayed storage machine on every line.  These
Booleans are the hypotheses of the limit theorems: -/

theorem C14_node_limit_check (g : G.State) (h : GProofs.Inv g)
    (hb : decide ((AcyG.gView g).g.nodes.length ≥ g.endv) = true) : g.nodes.length = g.endv :=
  ag_node_limit_check h hb

theorem C14_edge_limit_check (g : G.State) (h : GProofs.Inv g)
    (hb : decide ((AcyG.gView g).g.edges.length ≥ g.endv) = true) : g.edges.length = g.endv :=
  ag_edge_limit_check h hb

theorem C14_stable_node_limit_check (g : SG.State) (h : SGProofs.Inv g)
    (hb : decide ((AcyS.sView g).g.nodes.length ≥ g.fin) = true) : g.nodeCount = g.fin :=
  as_node_limit_check h hb

end PetgraphModel.C14T
