import PetgraphModel.Proofs.C09Judge
import PetgraphModel.Proofs.C09Models
import PetgraphModel.Proofs.C09CC
import PetgraphModel.Proofs.C09CycU
import PetgraphModel.Proofs.C09Bip
import PetgraphModel.Proofs.C09CycD
import PetgraphModel.Proofs.C09Partial
import PetgraphModel.Proofs.C09Topo
import PetgraphModel.Proofs.C09Kosaraju
import PetgraphModel.Proofs.C09Cond
import PetgraphModel.Proofs.C09W2Cond
import PetgraphModel.Proofs.C09W2Tarjan
import PetgraphModel.Proofs.C09W2TjBig
import PetgraphModel.Proofs.C09W3Total
import PetgraphModel.Proofs.C09W3Tarjan
import PetgraphModel.Proofs.C09W3Driver
import PetgraphModel.Proofs.C09W4Space
import PetgraphModel.Proofs.C09W4Complete
import PetgraphModel.Proofs.C09W4Abstract
import PetgraphModel.Proofs.C09W4Checks
import PetgraphModel.Proofs.C09W6Adapt
/-
C09 — SCC, connectivity, cycle detection, toposort and condensation are exact.

Part 1 (this file, all fully proved): soundness of every per-run checker the C09 driver uses
(`Oracle/C09Judge.lean`): for ALL graphs and ALL candidate outputs, `checker accepts → the clause of
the property holds` on the abstract multigraph.  The clauses (`SccSpec`, `IndexSpec`, `IsWccCount`,
`CyclicD`, `CyclicU`, `TwoCol`, `TopoOrder`, `CondSpec`, `CondAcyclicSpec`) are `Prop`s over
`MGraph`/`Reach`; the checkers rest on the proved oracle `Oracle.reachFrom`.

Part 2: correctness of mirror models (`Model/C09Algo.lean`) for all views, where proved.
-/
namespace PetgraphModel.C09T
open PetgraphModel PetgraphModel.MGraph PetgraphModel.Oracle PetgraphModel.C09J PetgraphModel.C09M PetgraphModel.Trav

/-! ## Part 1 — verified checkers -/

/-- SCC clause (`kosaraju_scc`, `tarjan_scc`, `TarjanScc::run`): an accepted answer lists every node
exactly once, every component is exactly a class of mutual reachability, and no component can reach
a later one. -/
theorem C09_scc_checker_sound (g : MGraph) (comps : List (List Nat)) (h : sccOkB g comps = true) :
    SccSpec g comps :=
  C09P.sccOkB_sound h

/-- "return the same partition": any two accepted answers (of any of the three functions, in any
order of components and members) put the same pairs of nodes together — the partition is determined
by the graph: `x`, `y` share a component iff `x` is a node and they are mutually reachable. -/
theorem C09_scc_partition_unique (g : MGraph) (c1 c2 : List (List Nat))
    (h1 : sccOkB g c1 = true) (h2 : sccOkB g c2 = true) (x y : Nat) :
    ((∃ c ∈ c1, x ∈ c ∧ y ∈ c) ↔ (∃ c ∈ c2, x ∈ c ∧ y ∈ c)) ∧
    ((∃ c ∈ c1, x ∈ c ∧ y ∈ c) ↔ (x ∈ g.nodes ∧ Reach g x y ∧ Reach g y x)) := by
  have p1 := C09P.SccSpec.toPart (C09P.sccOkB_sound h1)
  have p2 := C09P.SccSpec.toPart (C09P.sccOkB_sound h2)
  exact ⟨(C09P.part_same_iff p1 x y).trans (C09P.part_same_iff p2 x y).symm, C09P.part_same_iff p1 x y⟩

/-- `node_component_index`: an accepted index table covers every node of the components and gives
two nodes the same index exactly when they are in the same component. -/
theorem C09_index_checker_sound (comps : List (List Nat)) (idx : List (Nat × Nat))
    (h : indexOkB comps idx = true) : IndexSpec comps idx :=
  C09P.indexOkB_sound h

/-- `connected_components`: the number the checker compares with is the number of weakly connected
components (a system of that many pairwise unconnected representatives reaching every node,
direction ignored). -/
theorem C09_wcc_checker_sound (g : MGraph) (k : Nat) (h : wccCount g = some k) : IsWccCount g k :=
  C09P.wccCount_sound h

/-- `has_path_connecting`: the oracle's answer is reachability (restated from `Oracle/Reach.lean`). -/
theorem C09_has_path_checker_sound (g : MGraph) (a b : Nat) (r : Bool) (h : reachB g a b = some r) :
    r = true ↔ Reach g a b :=
  reachB_spec g a b r h

/-- `is_cyclic_directed`: `true` is accepted only if some node lies on a cycle (a self-loop counts),
`false` only if none does. -/
theorem C09_cyclic_directed_checker_sound (g : MGraph) :
    (cycDYes g = true → CyclicD g) ∧ (cycDNo g = true → ¬ CyclicD g) :=
  ⟨C09P.cycDYes_sound, C09P.cycDNo_sound⟩

/-- `is_cyclic_undirected`: `true` is accepted only if some edge occurrence joins two nodes that stay
connected (direction ignored) without that one occurrence — self-loops and parallel edges included —,
`false` only if no edge does. -/
theorem C09_cyclic_undirected_checker_sound (g : MGraph) :
    (cycUYes g = true → CyclicU g) ∧ (cycUNo g = true → ¬ CyclicU g) :=
  ⟨C09P.cycUYes_sound, C09P.cycUNo_sound⟩

/-- a self-loop and a pair of parallel edges are cycles in the sense of `CyclicU`. -/
theorem C09_cyclic_undirected_loop_parallel (g : MGraph) :
    (∀ (i : Nat) (e : Edge), g.edges[i]? = some e → e.src = e.tgt → CyclicU g) ∧
    (∀ (i j : Nat) (e f : Edge), i ≠ j → g.edges[i]? = some e → g.edges[j]? = some f →
      ((f.src = e.src ∧ f.tgt = e.tgt) ∨ (f.src = e.tgt ∧ f.tgt = e.src)) → CyclicU g) :=
  ⟨C09P.cyclicU_loop, C09P.cyclicU_parallel⟩

/-- `is_bipartite_undirected`: the enumeration decides 2-colourability of the component of `s`. -/
theorem C09_bipartite_checker_sound (g : MGraph) (s : Nat) (b : Bool) (h : twoColB g s = some b) :
    b = true ↔ TwoCol g s :=
  C09P.twoColB_sound h

/-- `toposort` `Ok(order)`: an accepted order has every node exactly once and every edge pointing
forward — and then the graph has no cycle (so `Ok` is accepted only on acyclic graphs). -/
theorem C09_toposort_ok_checker_sound (g : MGraph) (ord : List Nat) (h : topoOkB g ord = true) :
    TopoOrder g ord ∧ ¬ CyclicD g :=
  ⟨C09P.topoOkB_sound h, C09P.topoOrder_acyclic (C09P.topoOkB_sound h)⟩

/-- `toposort` `Err(Cycle(x))`: accepted only if `x` lies on a cycle (so `Err` is accepted only on
cyclic graphs). -/
theorem C09_toposort_err_checker_sound (g : MGraph) (x : Nat) (h : onCycleB g x = true) :
    Reach1 g x x ∧ CyclicD g :=
  ⟨C09P.onCycleB_sound h, ⟨x, C09P.onCycleB_sound h⟩⟩

/-- `condensation(g, false)`: one node per mutual-reachability class holding exactly its members, and
the edges are exactly the original edges mapped to their components (as a multiset, weights kept). -/
theorem C09_condensation_checker_sound (g : MGraph) (nodes : List (List Nat)) (es : List (Nat × Nat × Int))
    (h : condOkB g nodes es = true) : CondSpec g nodes es :=
  C09P.condOkB_sound h

/-- `condensation(g, true)`: additionally no self-loop, no parallel edge, no cycle; an edge between two
components exactly when an original edge joins them, carrying the weight of such an edge. -/
theorem C09_condensation_acyclic_checker_sound (g : MGraph) (nodes : List (List Nat))
    (es : List (Nat × Nat × Int)) (h : condAcyclicOkB g nodes es = true) : CondAcyclicSpec g nodes es :=
  C09P.condAcyclicOkB_sound h

/-! ## Part 2 — correctness of mirror models, for all views / inputs -/

/-- the encoding's neighbour iteration describes the abstract graph (checked per case by the driver) -/
abbrev ViewOk := C09P.ViewOk

/-- the number of weakly connected components is well defined: two systems of representatives have
the same size. -/
theorem C09_wcc_count_unique (g : MGraph) (k k' : Nat) (h : IsWccCount g k) (h' : IsWccCount g k') :
    k = k' :=
  C09P.wccCount_unique h h'

/-- **`has_path_connecting` (mirror model) is exactly reachability**, for every view and every pair of
nodes; the real function resets the workspace first, so a reused `DfsSpace` starts from this state too. -/
theorem C09_has_path (v : View) (hv : ViewOk v) (a b : Nat) (r : Bool) (h : hasPath v a b = some r) :
    r = true ↔ Reach v.g a b :=
  C09P.hasPath_spec v hv a b r h

/-- the graph `connected_components` / `is_cyclic_undirected` see through `to_index` and
`edge_references()`: nodes `0..nb`, one undirected edge per reported pair -/
abbrev pairGraph := C09P.pairGraph

/-- **`connected_components` (mirror model over the C19 union–find model) is the number of weakly
connected components**, for every edge sequence with in-range endpoints — corollary of
`C19_all_histories`, `C19_qf_connected` and the `into_labeling` specification. -/
theorem C09_connected_components (nb : Nat) (pairs : List (Nat × Nat)) (k : Nat)
    (hin : ∀ p ∈ pairs, p.1 < nb ∧ p.2 < nb) (h : connectedComponents nb pairs = some k) :
    IsWccCount (pairGraph nb pairs) k :=
  C09P.connectedComponents_spec nb pairs k hin h

/-- **`is_cyclic_undirected` (mirror model over the C19 union–find model) decides whether the
multigraph, direction ignored, has a cycle** (self-loops and parallel edges included): `true` ⇔ some
edge joins two endpoints already connected by the earlier edges (C19) ⇔ some edge's endpoints stay
connected without that one occurrence (every edge of a forest is a bridge). -/
theorem C09_cyclic_undirected (nb : Nat) (pairs : List (Nat × Nat)) (b : Bool)
    (hin : ∀ p ∈ pairs, p.1 < nb ∧ p.2 < nb) (h : cyclicUndirected nb pairs (UF.new 0 nb) = some b) :
    b = true ↔ CyclicU (pairGraph nb pairs) :=
  C09P.cyclicUndirected_spec nb pairs b hin h

/-- **`is_bipartite_undirected` (mirror model) decides 2-colourability of the component of the start
node**, for every view; its internal assertion (`is_red ^ is_blue`) never fires. -/
theorem C09_bipartite (v : View) (hv : ViewOk v) (s : Nat) :
    (∀ b, bipartite v s = .answer b → (b = true ↔ TwoCol v.g s)) ∧ bipartite v s ≠ .panic :=
  C09P.bipartite_spec v hv s

/-- **`is_cyclic_directed` (mirror model: `depth_first_search`, stop at the first `BackEdge`) decides
whether some node lies on a directed cycle**, for every view: `true` only with a cycle (a back edge
goes to an unfinished ancestor), `false` only without one (then the finishing order is a reverse
topological order; needs every edge endpoint to be a node). -/
theorem C09_cyclic_directed (v : View) (hv : ViewOk v) (b : Bool) (h : cyclicDirected v = some b) :
    (b = true → CyclicD v.g) ∧ (b = false → v.g.WellFormed → ¬ CyclicD v.g) :=
  C09P.cyclicDirected_spec v hv b h

/-- **`toposort` `Ok(order)` (mirror model) is a topological order**, for every view with consistent
successor / predecessor iteration over a well-formed graph: every node exactly once, every edge
pointing forward — hence the graph is acyclic (a self-loop included).  The first pass yields a
duplicate-free list of exactly the nodes, none with a self-loop; the second pass is itself a check
that every predecessor of a node was placed before it. -/
theorem C09_toposort_ok (v : View) (hv : ViewOk v) (hp : ∀ a b, b ∈ v.pred a ↔ v.g.Adj b a)
    (hwf : v.g.WellFormed) (ord : List Nat) (h : toposort v = some (.ok ord)) :
    TopoOrder v.g ord ∧ ¬ CyclicD v.g :=
  ⟨C09P.toposort_ok v hv hp hwf ord h, C09P.topoOrder_acyclic (C09P.toposort_ok v hv hp hwf ord h)⟩

/-- **`toposort` `Err(Cycle(x))` (mirror model) names a node that lies on a cycle**, for every such
view: a `Cycle` of the first pass is a self-loop; in the second pass the offending node `j` is a
predecessor of the restart node `i` that finished before `i`, and a successor that is unfinished when
a node finishes reaches it back (invariant of the explicit-stack DFS), so `i` reaches `j`. -/
theorem C09_toposort_cycle (v : View) (hv : ViewOk v) (hp : ∀ a b, b ∈ v.pred a ↔ v.g.Adj b a)
    (hwf : v.g.WellFormed) (x : Nat) (h : toposort v = some (.cycle x)) : Reach1 v.g x x ∧ CyclicD v.g :=
  ⟨C09P.toposort_cycle v hv hp hwf x h, ⟨x, C09P.toposort_cycle v hv hp hwf x h⟩⟩

/-- **`toposort` is exact**: `Ok` exactly when the graph has no cycle (then with a valid order),
otherwise a `Cycle` naming a node on a cycle; the model is a function of the view alone, so a reused
`DfsSpace` (reset at the start of the real function) gives the same answer. -/
theorem C09_toposort (v : View) (hv : ViewOk v) (hp : ∀ a b, b ∈ v.pred a ↔ v.g.Adj b a)
    (hwf : v.g.WellFormed) (r : TopoRes) (h : toposort v = some r) :
    match r with
    | .ok ord => TopoOrder v.g ord ∧ ¬ CyclicD v.g
    | .cycle x => Reach1 v.g x x ∧ CyclicD v.g := by
  cases r with
  | ok ord => exact C09_toposort_ok v hv hp hwf ord h
  | cycle x => exact C09_toposort_cycle v hv hp hwf x h

/-- **`kosaraju_scc` (mirror model) is exact**, for every view with consistent successor / predecessor
iteration over a well-formed graph: every node exactly once, every component a class of mutual
reachability, no component reaching a later one.  First phase (`DfsPostOrder` on `Reversed(g)`): the
explicit-stack DFS invariant gives "if `x` finished before `y` and reaches `y`, some node of the class
of `x` finished after `y`"; second phase (`Dfs` restarted in decreasing finish time): a restart at `i`
collects what `i` reaches through undiscovered nodes, which by that fact is exactly the class of `i`. -/
theorem C09_kosaraju (v : View) (hv : ViewOk v) (hp : ∀ a b, b ∈ v.pred a ↔ v.g.Adj b a)
    (hwf : v.g.WellFormed) (comps : List (List Nat)) (h : kosaraju v = some comps) : SccSpec v.g comps :=
  C09P.kosaraju_spec v hv hp hwf comps h

/-- the second phase alone, for ANY finish list: no empty component, no node in two components or twice
in one, and every node of the finish list is placed in a component. -/
theorem C09_kosaraju_collect (v : View) (finish : List Nat) (sccs : List (List Nat))
    (h : kosarajuCollect v finish = some sccs) :
    (∀ c ∈ sccs, c ≠ []) ∧ sccs.flatten.Nodup ∧ ∀ x ∈ finish, x ∈ sccs.flatten :=
  C09P.kosarajuCollect_partial v finish sccs h

/-- **`condensation(g, false)` (mirror model, on `Graph`) is exact**: one node per class of mutual
reachability holding exactly its members, and the edges are exactly the original edges mapped to the
components of their endpoints (`eo` = the edge ids in edge-index order, enumerating the edges). -/
theorem C09_condensation (v : View) (hv : ViewOk v) (hp : ∀ a b, b ∈ v.pred a ↔ v.g.Adj b a)
    (hwf : v.g.WellFormed) (eo : List Nat) (heo : (eo.filterMap v.edge?).Perm v.g.edges) (c : Cond)
    (h : condensation v eo false = some c) : CondSpec v.g c.nodes c.edges :=
  C09P.condensation_spec v hv hp hwf eo heo c h

/-! ### statements whose proof is not finished (validated per run by the proved checkers of Part 1,
and compared exactly with the implementation) -/

/-- `Reversed(g).neighbors` of the encoding describes the abstract graph -/
def PredOk (v : View) : Prop := ∀ a b, b ∈ v.pred a ↔ v.g.Adj b a
/-- `to_index` is injective on the nodes and below `node_bound` -/
def IxOk (v : View) : Prop :=
  (∀ a ∈ v.g.nodes, v.toIndex a < v.nb) ∧ ∀ a ∈ v.g.nodes, ∀ b ∈ v.g.nodes, v.toIndex a = v.toIndex b → a = b

/-- `TarjanScc::run` (fresh, and again on the used value) emits the classes of mutual reachability in
reverse topological order and `node_component_index` is consistent with them.
MISSING: the low-link invariant of Pearce's variant (rootindex / componentcount encoding) and the
`index < componentcount` bound. -/
def C09_tarjan_statement : Prop :=
  ∀ (v : View), ViewOk v → IxOk v → v.g.WellFormed → ∀ t1, tjRun v {} = some t1 →
    (SccSpec v.g t1.out ∧ IndexSpec t1.out (v.g.nodes.map fun x => (x, tjIndex v t1 x))) ∧
    ∀ t2, tjRun v t1 = some t2 →
      SccSpec v.g t2.out ∧ IndexSpec t2.out (v.g.nodes.map fun x => (x, tjIndex v t2 x))

/-- proved part: from any state, with any fuel, no empty component is ever emitted. -/
theorem C09_tarjan_partial (v : View) (t t' : TJ) (h : tjRun v t = some t') : ∀ c ∈ t'.out, c ≠ [] :=
  C09P.tjRun_nonempty v t t' h

/-- **`TarjanScc::run` (mirror model of Pearce's variant) is exact, fresh and again on the used value**,
and `node_component_index` is consistent with the components: `C09_tarjan_statement` under the one
hypothesis it lacks, `2·|nodes| + 1 ≤ usize::MAX`.  The hypothesis is what the implementation itself
relies on (`index` counts up from 1, `componentcount` down from `usize::MAX`, and a `rootindex` below
`index` means "still on the stack"); no graph in memory can violate it.  Without it the statement is
false — see `C09_tarjan_statement_false_witness` below.
Proof (`Proofs/C09W2Tj*.lean`, `Proofs/C09W2Tarjan.lean`): the low-link invariant `TjInv` with the ghost entry
numbers `num` — `rootindex` of an active node is the entry number of an active node it reaches, every
edge of a stacked node goes to a finished component or to an active node not older than its
`rootindex`, finished nodes are closed under edges — preserved by enter / lower / push / pop, and the
contracts of `visit` and of its neighbour loop by mutual induction on the fuel. -/
theorem C09_tarjan (v : View) (hv : ViewOk v) (hix : IxOk v) (hwf : v.g.WellFormed)
    (hsize : 2 * v.g.nodes.length + 1 ≤ usizeMax) (t1 : TJ) (h1 : tjRun v {} = some t1) :
    (SccSpec v.g t1.out ∧ IndexSpec t1.out (v.g.nodes.map fun x => (x, tjIndex v t1 x))) ∧
    ∀ t2, tjRun v t1 = some t2 →
      SccSpec v.g t2.out ∧ IndexSpec t2.out (v.g.nodes.map fun x => (x, tjIndex v t2 x)) :=
  C09P.tarjan_spec v hv hix.2 hwf hsize t1 h1

/-- `C09_tarjan_statement` as written (no size hypothesis) is false: on `usize::MAX + 2` isolated nodes
`componentcount` (counting down from `usize::MAX`; the model has no wrap-around) reaches 0 and stays
there, so the last two nodes — two different components — get the same `node_component_index`.  Not a
defect of petgraph: such a graph cannot exist in memory (the implementation would need more than
`usize::MAX` node slots), and the property statement speaks about graphs that do. -/
theorem C09_tarjan_statement_false_witness : ¬ C09_tarjan_statement := by
  intro h
  obtain ⟨t1, h1, hbad⟩ := C09P.tarjan_unbounded_counterexample (usizeMax + 2) rfl
  obtain ⟨hv, hix, hwf⟩ := C09P.isoView_ok (usizeMax + 2)
  exact hbad (h _ hv hix hwf t1 h1).1.2

/-- the same for ANY clean `TarjanScc` value (stack empty, `index + |nodes| ≤ componentcount ≤ usize::MAX`),
so for any number of reuses: the components are exact and in reverse topological order, the value is
clean again (`index` restored, stack empty, `componentcount` lowered by the number of components),
and `node_component_index` is consistent. -/
theorem C09_tarjan_run (v : View) (hv : ViewOk v) (hix : IxOk v) (hwf : v.g.WellFormed) (t t' : TJ)
    (hst : t.stack = []) (hB : t.index + v.g.nodes.length ≤ t.cc) (hcc : t.cc ≤ usizeMax)
    (h : tjRun v t = some t') :
    SccSpec v.g t'.out ∧ IndexSpec t'.out (v.g.nodes.map fun x => (x, tjIndex v t' x)) ∧
    t'.stack = [] ∧ t'.index = t.index ∧ t'.cc + t'.out.length = t.cc ∧ t'.out.length ≤ v.g.nodes.length := by
  have r := C09P.tjRun_spec v hv hwf hix.2 t t' hst hB h
  exact ⟨r.scc, C09P.tjIndex_spec r hcc, r.stack, r.index, r.cc, r.len⟩

/-- `condensation(g, true)` on `Graph` (`eo` enumerates the edges in edge-index order): the condensed
graph satisfies `CondAcyclicSpec`.  MISSING: the bookkeeping of `update_edge` on the quotient (one edge
per joined pair of components) and acyclicity of the quotient from the order clause of `C09_kosaraju`. -/
def C09_condensation_acyclic_statement : Prop :=
  ∀ (v : View) (eo : List Nat), ViewOk v → PredOk v → v.g.WellFormed →
    (eo.filterMap v.edge?).Perm v.g.edges →
    ∀ c, condensation v eo true = some c → CondAcyclicSpec v.g c.nodes c.edges

/-- proved part (both modes): one condensed node per component of `kosaraju_scc`, and without
`make_acyclic` one condensed edge per original edge. -/
theorem C09_condensation_acyclic_partial (v : View) (eo : List Nat) (acyc : Bool) (c : Cond)
    (h : condensation v eo acyc = some c) :
    ∃ sccs, kosaraju v = some sccs ∧ c.nodes.length = sccs.length ∧
      (acyc = false → c.edges.length = (eo.filterMap v.edge?).length) := by
  obtain ⟨sccs, h1, h2, h3⟩ := C09P.condensation_counts v eo acyc c h
  refine ⟨sccs, h1, h2, fun ha => ?_⟩
  rw [h3 ha]
  clear h h1 h2 h3
  induction eo with
  | nil => rfl
  | cons k l ih =>
    simp only [List.filter_cons, List.filterMap_cons]
    cases v.edge? k <;> simp [ih]

/-- **`condensation(g, true)` (mirror model, on `Graph`) is exact**: one node per class of mutual
reachability, no self-loop, no parallel edge, no cycle, an edge between two components exactly when an
original edge joins them, carrying the weight of such an edge.  Proof (`Proofs/C09W2Cond.lean`): the
`update_edge` bookkeeping invariant `QInv` over the edge loop (an undirected graph never adds an edge),
and every quotient edge goes from a later to an earlier component by the order clause of `C09_kosaraju`. -/
theorem C09_condensation_acyclic : C09_condensation_acyclic_statement :=
  fun v eo hv hp hwf heo c h => C09P.condensation_acyclic_spec v hv hp hwf eo heo c h

/-! non-vacuity: the checkers accept the right answers on a graph with two non-trivial components,
a self-loop and a parallel edge, and reject wrong ones -/
def exG : MGraph := ⟨true, [0, 1, 2, 3, 4],
  [⟨0, 0, 1, 1⟩, ⟨1, 1, 0, 2⟩, ⟨2, 1, 2, 0⟩, ⟨3, 2, 3, 1⟩, ⟨4, 3, 2, 1⟩, ⟨5, 4, 4, 0⟩, ⟨6, 1, 2, 5⟩]⟩
example : sccOkB exG [[2, 3], [1, 0], [4]] = true := by decide +kernel
example : sccOkB exG [[1, 0], [2, 3], [4]] = false := by decide +kernel
example : sccOkB exG [[2], [3], [1, 0], [4]] = false := by decide +kernel
example : wccCount exG = some 2 := by decide +kernel
example : cycDYes exG = true ∧ cycUYes exG = true := by decide +kernel
example : onCycleB exG 4 = true ∧ onCycleB exG 1 = true := by decide +kernel
example : condOkB exG [[2, 3], [1, 0], [4]] [(1, 1, 1), (1, 1, 2), (1, 0, 0), (0, 0, 1), (0, 0, 1), (2, 2, 0), (1, 0, 5)] = true := by decide +kernel
example : condAcyclicOkB exG [[2, 3], [1, 0], [4]] [(1, 0, 5)] = true := by decide +kernel
example : condAcyclicOkB exG [[2, 3], [1, 0], [4]] [(1, 0, 5), (1, 0, 0)] = false := by decide +kernel
def exU : MGraph := ⟨false, [0, 1, 2, 3], [⟨0, 0, 1, 1⟩, ⟨1, 1, 2, 1⟩, ⟨2, 3, 3, 1⟩]⟩
example : twoColB exU 0 = some true ∧ twoColB exU 3 = some false := by decide +kernel
example : cycUNo ⟨false, [0, 1, 2, 3], exU.edges.take 2⟩ = true := by decide +kernel
example : topoOkB ⟨true, [0, 1, 2, 3, 4], [⟨0, 0, 1, 1⟩, ⟨1, 2, 1, 1⟩]⟩ [4, 3, 2, 0, 1] = true := by decide +kernel

/-! the mirror models do answer (hypotheses of Part 2 are met by a concrete non-trivial view) -/
def exV : View := ⟨exG, 5, [(0,0),(1,1),(2,2),(3,3),(4,4)],
  [(0,[(1,0)]), (1,[(0,1),(2,2),(2,6)]), (2,[(3,3)]), (3,[(2,4)]), (4,[(4,5)])],
  [(0,[(1,1)]), (1,[(0,0)]), (2,[(1,2),(3,4),(1,6)]), (3,[(2,3)]), (4,[(4,5)])]⟩
example : kosaraju exV = some [[4], [2, 3], [0, 1]] := by decide +kernel
example : (tjRun exV {}).map (·.out) = some [[3, 2], [1, 0], [4]] := by decide +kernel
example : toposort exV = some (.cycle 4) := by decide +kernel
example : hasPath exV 0 3 = some true ∧ hasPath exV 3 0 = some false := by decide +kernel
example : cyclicDirected exV = some true := by decide +kernel
example : connectedComponents 5 [(0,1),(1,0),(1,2),(2,3),(3,2),(4,4),(1,2)] = some 2 := by decide +kernel
example : cyclicUndirected 5 [(0,1),(1,2)] (UF.new 0 5) = some false := by decide +kernel
example : (condensation exV [0,1,2,3,4,5,6] true).map (·.edges) = some [(2, 1, 5)] := by decide +kernel

/-! ## Part 3 (wave 3) — totality of the mirror models

Every model theorem of Part 2 is conditional on the model returning (`… = some r`; `none` / `.fuel` =
the model's fixed fuel `fuel v = 4|E| + 2|V| + 16` ran out).  `ViewOk` / `PredOk` alone do not
exclude that: they fix the *set* of neighbours a view enumerates, not how often
(`C09_toposort_needs_bound_witness`).  With the length bound `SuccBound` / `PredBound` (no node has
more listed neighbours than the abstract graph has incident edges — true of every view the driver
accepts, `C09_driver_view_check`) every model returns, so the statements hold unconditionally. -/

/-- the successor lists of the nodes are no longer than those of the abstract graph -/
def SuccBound (v : View) : Prop := ∀ a, a ∈ v.g.nodes → (v.succ a).length ≤ (v.g.succ a).length
/-- the predecessor lists of the nodes are no longer than those of the abstract graph -/
def PredBound (v : View) : Prop := ∀ a, a ∈ v.g.nodes → (v.pred a).length ≤ (v.g.pred a).length

/-- the fuel of the models covers the bound of the C08 totality theorems, on the view and on the
reversed view: `Σ_{u ∈ nodes} (|succ u| + 2) + 2 ≤ 2|E| + 2|V| + 2 ≤ fuel v`. -/
theorem C09_fuel_suffices (v : View) (hwf : v.g.WellFormed) (hb : SuccBound v) (hbp : PredBound v) :
    TravProofs.walkFuel v ≤ fuel v ∧ TravProofs.walkFuel (rev v) ≤ fuel v :=
  ⟨C09P.walkFuel_le_fuel v hwf hb, C09P.walkFuel_rev_le_fuel v hwf hbp⟩

/-- what the driver's `viewOkB` checks, as propositions: on every node the successor / predecessor
iteration is a permutation of the abstract graph's — so `ViewOk` / `PredOk` on the nodes and the two
length bounds; a view that moreover enumerates nothing for a non-node satisfies `ViewOk` and `PredOk`
in full (over a well-formed graph). -/
theorem C09_driver_view_check (v : View) (h : C09.viewOkB v = true) :
    SuccBound v ∧ PredBound v ∧
    (∀ a, a ∈ v.g.nodes → (v.succ a).Perm (v.g.succ a) ∧ (v.pred a).Perm (v.g.pred a)) ∧
    (∀ a, a ∈ v.g.nodes → ∀ b, (b ∈ v.succ a ↔ v.g.Adj a b) ∧ (b ∈ v.pred a ↔ v.g.Adj b a)) ∧
    (v.g.WellFormed → (∀ a, a ∉ v.g.nodes → v.succ a = [] ∧ v.pred a = []) → ViewOk v ∧ PredOk v) :=
  ⟨C09P.viewOkB_succLe v h, C09P.viewOkB_predLe v h, C09P.viewOkB_perm v h,
   fun a ha b => ⟨C09P.viewOkB_succ_iff v h a ha b, C09P.viewOkB_pred_iff v h a ha b⟩,
   fun hwf hout => C09P.viewOkB_viewOk v h hwf hout⟩

/-- all four hypotheses of the theorems below hold for a view the driver accepts, over a well-formed
graph, that enumerates nothing for a non-node. -/
theorem C09_driver_views (v : View) (h : C09.viewOkB v = true) (hwf : v.g.WellFormed)
    (hout : ∀ a, a ∉ v.g.nodes → v.succ a = [] ∧ v.pred a = []) :
    ViewOk v ∧ PredOk v ∧ SuccBound v ∧ PredBound v :=
  ⟨(C09P.viewOkB_viewOk v h hwf hout).1, (C09P.viewOkB_viewOk v h hwf hout).2,
   C09P.viewOkB_succLe v h, C09P.viewOkB_predLe v h⟩

/-- **`toposort` (mirror model) is total.** -/
theorem C09_toposort_total (v : View) (hv : ViewOk v) (hp : PredOk v) (hwf : v.g.WellFormed)
    (hb : SuccBound v) (hbp : PredBound v) : ∃ r, toposort v = some r := by
  have h1 := C09P.walkFuel_le_fuel v hwf hb
  have h2 := C09P.walkFuel_rev_le_fuel v hwf hbp
  exact C09P.toposort_total v (C09P.closed_of_viewOk hv hwf) (C09P.closed_rev hp hwf)
    (by simp only [C09P.walkFuel] at h1 ⊢; omega) (by simp only [C09P.walkFuel] at h2 ⊢; omega)

/-- **`toposort` returns `Ok` exactly when the graph is acyclic** — unconditionally: the model
returns; `Ok(order)` happens iff no node lies on a cycle (and then `order` is a topological order),
otherwise the answer is `Err(Cycle(x))` with `x` on a cycle. -/
theorem C09_toposort_ok_iff_acyclic (v : View) (hv : ViewOk v) (hp : PredOk v) (hwf : v.g.WellFormed)
    (hb : SuccBound v) (hbp : PredBound v) :
    ((∃ ord, toposort v = some (.ok ord)) ↔ ¬ CyclicD v.g) ∧
    (¬ CyclicD v.g → ∃ ord, toposort v = some (.ok ord) ∧ TopoOrder v.g ord) ∧
    (CyclicD v.g → ∃ x, toposort v = some (.cycle x) ∧ Reach1 v.g x x) := by
  obtain ⟨r, hr⟩ := C09_toposort_total v hv hp hwf hb hbp
  cases r with
  | ok ord =>
    have h := C09_toposort_ok v hv hp hwf ord hr
    exact ⟨⟨fun _ => h.2, fun _ => ⟨ord, hr⟩⟩, fun _ => ⟨ord, hr, h.1⟩, fun hc => absurd hc h.2⟩
  | cycle x =>
    have h := C09_toposort_cycle v hv hp hwf x hr
    refine ⟨⟨?_, fun hn => absurd h.2 hn⟩, fun hn => absurd h.2 hn, fun _ => ⟨x, hr, h.1⟩⟩
    rintro ⟨ord, ho⟩
    rw [hr] at ho
    cases ho

/-- the same, for every view the driver accepts (no run hypothesis, no separate view hypotheses). -/
theorem C09_driver_toposort_ok_iff_acyclic (v : View) (h : C09.viewOkB v = true) (hwf : v.g.WellFormed)
    (hout : ∀ a, a ∉ v.g.nodes → v.succ a = [] ∧ v.pred a = []) :
    ((∃ ord, toposort v = some (.ok ord)) ↔ ¬ CyclicD v.g) ∧
    (¬ CyclicD v.g → ∃ ord, toposort v = some (.ok ord) ∧ TopoOrder v.g ord) ∧
    (CyclicD v.g → ∃ x, toposort v = some (.cycle x) ∧ Reach1 v.g x x) := by
  obtain ⟨hv, hp, hb, hbp⟩ := C09_driver_views v h hwf hout
  exact C09_toposort_ok_iff_acyclic v hv hp hwf hb hbp

/-- **`kosaraju_scc` (mirror model) is total and exact.** -/
theorem C09_kosaraju_total (v : View) (hv : ViewOk v) (hp : PredOk v) (hwf : v.g.WellFormed)
    (hb : SuccBound v) (hbp : PredBound v) : ∃ comps, kosaraju v = some comps ∧ SccSpec v.g comps := by
  have h1 := C09P.walkFuel_le_fuel v hwf hb
  have h2 := C09P.walkFuel_rev_le_fuel v hwf hbp
  obtain ⟨comps, hc⟩ := C09P.kosaraju_total v hv hp hwf h1 (by simp only [C09P.walkFuel] at h2 ⊢; omega)
  exact ⟨comps, hc, C09_kosaraju v hv hp hwf comps hc⟩

/-- **`has_path_connecting` (mirror model) is total and exactly reachability**, from every node. -/
theorem C09_has_path_total (v : View) (hv : ViewOk v) (hwf : v.g.WellFormed) (hb : SuccBound v)
    (a b : Nat) (ha : a ∈ v.g.nodes) : ∃ r, hasPath v a b = some r ∧ (r = true ↔ Reach v.g a b) := by
  obtain ⟨r, hr⟩ := C09P.hasPath_total v (C09P.closed_of_viewOk hv hwf) (C09P.walkFuel_le_fuel v hwf hb) a b ha
  exact ⟨r, hr, C09_has_path v hv a b r hr⟩

/-- **`TarjanScc::run` (mirror model) is total**, from any `TarjanScc` value (fresh or used), and no
injectivity of `to_index` is needed for that. -/
theorem C09_tarjan_total (v : View) (hv : ViewOk v) (hwf : v.g.WellFormed) (hb : SuccBound v) (t : TJ) :
    ∃ t', tjRun v t = some t' := by
  have h1 := C09P.walkFuel_le_fuel v hwf hb
  have h2 := C09P.dfsFuel_le v
  exact C09P.tjRun_total v (C09P.closed_of_viewOk hv hwf) (by simp only [C09P.walkFuel] at h1 h2; omega) t

/-- **`TarjanScc::run` is total and exact, fresh and again on the used value** (`C09_tarjan` with its
run hypotheses discharged). -/
theorem C09_tarjan_exact (v : View) (hv : ViewOk v) (hix : IxOk v) (hwf : v.g.WellFormed) (hb : SuccBound v)
    (hsize : 2 * v.g.nodes.length + 1 ≤ usizeMax) :
    ∃ t1 t2, tjRun v {} = some t1 ∧ tjRun v t1 = some t2 ∧
      (SccSpec v.g t1.out ∧ IndexSpec t1.out (v.g.nodes.map fun x => (x, tjIndex v t1 x))) ∧
      (SccSpec v.g t2.out ∧ IndexSpec t2.out (v.g.nodes.map fun x => (x, tjIndex v t2 x))) := by
  obtain ⟨t1, h1⟩ := C09_tarjan_total v hv hwf hb {}
  obtain ⟨t2, h2⟩ := C09_tarjan_total v hv hwf hb t1
  have h := C09_tarjan v hv hix hwf hsize t1 h1
  exact ⟨t1, t2, h1, h2, h.1, h.2 t2 h2⟩

/-- **`is_cyclic_directed` (mirror model) is total and exact**: it answers, and the answer is `true`
exactly when some node lies on a directed cycle. -/
theorem C09_cyclic_directed_total (v : View) (hv : ViewOk v) (hwf : v.g.WellFormed) (hb : SuccBound v) :
    ∃ b, cyclicDirected v = some b ∧ (b = true ↔ CyclicD v.g) := by
  have h1 := C09P.walkFuel_le_fuel v hwf hb
  have h2 := C09P.dfsFuel_le v
  obtain ⟨b, hb'⟩ := C09P.cyclicDirected_total v (C09P.closed_of_viewOk hv hwf)
    (by simp only [C09P.walkFuel] at h1 h2; omega)
  have h := C09_cyclic_directed v hv b hb'
  refine ⟨b, hb', h.1, fun hc => ?_⟩
  cases b with
  | true => rfl
  | false => exact absurd hc (h.2 rfl hwf)

/-- **`is_bipartite_undirected` (mirror model) is total and exact** from every node: it neither runs
out of fuel nor trips its assertion, and answers `true` exactly when the component of the start node
is 2-colourable.  (No bound on the neighbour lists is needed: every node is queued at most once.) -/
theorem C09_bipartite_total (v : View) (hv : ViewOk v) (hwf : v.g.WellFormed) (s : Nat) (hs : s ∈ v.g.nodes) :
    ∃ b, bipartite v s = .answer b ∧ (b = true ↔ TwoCol v.g s) := by
  have h1 := C09P.bipartite_total v (C09P.closed_of_viewOk hv hwf) s hs
  have h2 := C09_bipartite v hv s
  cases hr : bipartite v s with
  | answer b => exact ⟨b, rfl, h2.1 b hr⟩
  | panic => exact absurd hr h2.2
  | fuel => exact absurd hr h1

/-- **`condensation` (mirror model, on `Graph`) is total and exact**, with and without `make_acyclic`. -/
theorem C09_condensation_total (v : View) (hv : ViewOk v) (hp : PredOk v) (hwf : v.g.WellFormed)
    (hb : SuccBound v) (hbp : PredBound v) (eo : List Nat) (heo : (eo.filterMap v.edge?).Perm v.g.edges) :
    (∃ c, condensation v eo false = some c ∧ CondSpec v.g c.nodes c.edges) ∧
    (∃ c, condensation v eo true = some c ∧ CondAcyclicSpec v.g c.nodes c.edges) := by
  have h1 := C09P.walkFuel_le_fuel v hwf hb
  have h2 := C09P.walkFuel_rev_le_fuel v hwf hbp
  have h2' : C09P.walkFuel (rev v) ≤ 2 * fuel v := by simp only [C09P.walkFuel] at h2 ⊢; omega
  obtain ⟨c1, hc1⟩ := C09P.condensation_total v hv hp hwf h1 h2' eo false
  obtain ⟨c2, hc2⟩ := C09P.condensation_total v hv hp hwf h1 h2' eo true
  exact ⟨⟨c1, hc1, C09_condensation v hv hp hwf eo heo c1 hc1⟩,
    ⟨c2, hc2, C09_condensation_acyclic v eo hv hp hwf heo c2 hc2⟩⟩

/-- `ViewOk` / `PredOk` alone are not enough (the auditor's witness): the graph `0 → 1` seen through a
view that lists the neighbour `1` of `0` sixty times satisfies both over a well-formed graph, yet
`toposort` and `has_path_connecting` (for a target that is not found early) run out of their fuel
(`none`).  The view violates
`SuccBound`, and the driver's `viewOkB` rejects it. -/
theorem C09_toposort_needs_bound_witness :
    ∃ v : View, ViewOk v ∧ PredOk v ∧ v.g.WellFormed ∧ ¬ SuccBound v ∧ C09.viewOkB v = false ∧
      toposort v = none ∧ hasPath v 0 2 = none := by
  let g : MGraph := ⟨true, [0, 1], [⟨0, 0, 1, 1⟩]⟩
  let v : View := ⟨g, 2, [(0, 0), (1, 1)], [(0, List.replicate 60 (1, 0))], [(1, [(0, 0)])]⟩
  have hv : ViewOk v := by
    intro a b
    by_cases ha : a = 0
    · subst ha
      simp only [View.succ, View.outOf, v, g, MGraph.Adj]
      simp [List.lookup]
      constructor
      · rintro rfl; rfl
      · intro e; exact e.symm
    · have e0 : (a == 0) = false := by simpa using ha
      simp only [View.succ, View.outOf, v, g, MGraph.Adj]
      simp [List.lookup, e0]
      intro e; exact (ha e.symm).elim
  have hp : PredOk v := by
    intro a b
    by_cases ha : a = 1
    · subst ha
      simp only [View.pred, View.innOf, v, g, MGraph.Adj]
      simp [List.lookup]
      constructor
      · rintro rfl; rfl
      · intro e; exact e.symm
    · have e0 : (a == 1) = false := by simpa using ha
      simp only [View.pred, View.innOf, v, g, MGraph.Adj]
      simp [List.lookup, e0]
      intro _ e; exact (ha e.symm).elim
  refine ⟨v, hv, hp, ?_, ?_, by decide, by decide, by decide⟩
  · refine ⟨by simp [v, g], ?_⟩
    intro e he
    simp only [v, g, List.mem_singleton] at he
    subst he
    simp [v, g]
  · intro h
    have := h 0 (by simp [v, g])
    revert this
    decide

/-! ## Part 4 (wave 4) — completeness of the checkers: the driver raises no false `SPECFAIL`

Part 1 is soundness (`checker accepts → clause`).  Here the converse, for all graphs and all candidate
outputs: `clause → checker accepts`; the Option-valued checkers always answer.  So every checker
DECIDES its clause.  The one ingredient beyond Part 1 is totality of the reachability oracle
(`Proofs/ReachTotal.lean`: `reachFrom` never exhausts its fuel, for any graph).  Nothing had to be
refuted: all 13 checkers are complete. -/

theorem C09_scc_checker_complete (g : MGraph) (comps : List (List Nat)) (h : SccSpec g comps) :
    sccOkB g comps = true :=
  C09P.sccOkB_complete h

theorem C09_index_checker_complete (comps : List (List Nat)) (idx : List (Nat × Nat))
    (h : IndexSpec comps idx) : indexOkB comps idx = true :=
  C09P.indexOkB_complete h

/-- the count checker always answers, and with THE number of weak components -/
theorem C09_wcc_checker_complete (g : MGraph) :
    (∃ k, wccCount g = some k) ∧ ∀ k, IsWccCount g k → wccCount g = some k :=
  ⟨C09P.wccCount_total g, fun _ h => C09P.wccCount_complete h⟩

/-- the reachability oracle always answers, hence decides `Reach` -/
theorem C09_has_path_checker_complete (g : MGraph) (a b : Nat) :
    (Reach g a b → reachB g a b = some true) ∧ (¬ Reach g a b → reachB g a b = some false) :=
  ⟨(reachB_iff g a b).mpr, (reachB_false_iff g a b).mpr⟩

theorem C09_cyclic_directed_checker_complete (g : MGraph) :
    (CyclicD g → cycDYes g = true) ∧ (¬ CyclicD g → cycDNo g = true) :=
  ⟨C09P.cycDYes_complete, C09P.cycDNo_complete⟩

theorem C09_cyclic_undirected_checker_complete (g : MGraph) :
    (CyclicU g → cycUYes g = true) ∧ (¬ CyclicU g → cycUNo g = true) :=
  ⟨C09P.cycUYes_complete, C09P.cycUNo_complete⟩

theorem C09_bipartite_checker_complete (g : MGraph) (s : Nat) :
    (TwoCol g s → twoColB g s = some true) ∧ (¬ TwoCol g s → twoColB g s = some false) :=
  C09P.twoColB_complete g s

theorem C09_toposort_ok_checker_complete (g : MGraph) (ord : List Nat) (h : TopoOrder g ord) :
    topoOkB g ord = true :=
  C09P.topoOkB_complete h

theorem C09_toposort_err_checker_complete (g : MGraph) (x : Nat) (h : Reach1 g x x) : onCycleB g x = true :=
  C09P.onCycleB_complete h

theorem C09_condensation_checker_complete (g : MGraph) (nodes : List (List Nat)) (es : List (Nat × Nat × Int))
    (h : CondSpec g nodes es) : condOkB g nodes es = true :=
  C09P.condOkB_complete h

theorem C09_condensation_acyclic_checker_complete (g : MGraph) (nodes : List (List Nat))
    (es : List (Nat × Nat × Int)) (h : CondAcyclicSpec g nodes es) : condAcyclicOkB g nodes es = true :=
  C09P.condAcyclicOkB_complete h

/-- all Boolean checkers at once: each DECIDES its clause -/
theorem C09_checkers_decide (g : MGraph) :
    (∀ comps, sccOkB g comps = true ↔ SccSpec g comps) ∧
    (∀ comps idx, indexOkB comps idx = true ↔ IndexSpec comps idx) ∧
    (∀ k, wccCount g = some k ↔ IsWccCount g k) ∧
    (∀ a b, reachB g a b = some true ↔ Reach g a b) ∧
    (cycDYes g = true ↔ CyclicD g) ∧ (cycDNo g = true ↔ ¬ CyclicD g) ∧
    (cycUYes g = true ↔ CyclicU g) ∧ (cycUNo g = true ↔ ¬ CyclicU g) ∧
    (∀ s, twoColB g s = some true ↔ TwoCol g s) ∧
    (∀ ord, topoOkB g ord = true ↔ TopoOrder g ord) ∧
    (∀ x, onCycleB g x = true ↔ Reach1 g x x) ∧
    (∀ nodes es, condOkB g nodes es = true ↔ CondSpec g nodes es) ∧
    (∀ nodes es, condAcyclicOkB g nodes es = true ↔ CondAcyclicSpec g nodes es) :=
  ⟨fun _ => ⟨C09P.sccOkB_sound, C09P.sccOkB_complete⟩,
   fun _ _ => ⟨C09P.indexOkB_sound, C09P.indexOkB_complete⟩,
   fun _ => ⟨C09P.wccCount_sound, C09P.wccCount_complete⟩,
   fun a b => reachB_iff g a b,
   ⟨C09P.cycDYes_sound, C09P.cycDYes_complete⟩, ⟨C09P.cycDNo_sound, C09P.cycDNo_complete⟩,
   ⟨C09P.cycUYes_sound, C09P.cycUYes_complete⟩, ⟨C09P.cycUNo_sound, C09P.cycUNo_complete⟩,
   fun s => ⟨fun h => (C09P.twoColB_sound h).mp rfl, (C09P.twoColB_complete g s).1⟩,
   fun _ => ⟨C09P.topoOkB_sound, C09P.topoOkB_complete⟩,
   fun _ => ⟨C09P.onCycleB_sound, C09P.onCycleB_complete⟩,
   fun _ _ => ⟨C09P.condOkB_sound, C09P.condOkB_complete⟩,
   fun _ _ => ⟨C09P.condAcyclicOkB_sound, C09P.condAcyclicOkB_complete⟩⟩

/-- the driver's judges built from them raise an alarm exactly when the clause fails -/
theorem C09_driver_judges_exact (g : MGraph) :
    (∀ comps, C09.judgeScc g comps = none ↔ SccSpec g comps) ∧
    (∀ comps idx, C09.judgeIndex comps idx = none ↔ IndexSpec comps idx) ∧
    (∀ nodes es, C09.judgeCond g false nodes es = none ↔ CondSpec g nodes es) ∧
    (∀ nodes es, C09.judgeCond g true nodes es = none ↔ CondAcyclicSpec g nodes es) := by
  refine ⟨fun comps => ?_, fun comps idx => ?_, fun nodes es => ?_, fun nodes es => ?_⟩
  · rw [← (C09_checkers_decide g).1 comps]
    unfold C09.judgeScc
    cases sccOkB g comps <;> cases partOkB g comps <;> simp
  · rw [← (C09_checkers_decide g).2.1 comps idx]
    unfold C09.judgeIndex
    cases indexOkB comps idx <;> simp
  · rw [← (C09_checkers_decide g).2.2.2.2.2.2.2.2.2.2.2.1 nodes es]
    unfold C09.judgeCond
    cases hp : partOkB g nodes <;> cases hc : condOkB g nodes es <;> simp
    simp [condOkB, hp] at hc
  · rw [← (C09_checkers_decide g).2.2.2.2.2.2.2.2.2.2.2.2 nodes es]
    unfold C09.judgeCond
    cases hp : partOkB g nodes <;> cases hc : condAcyclicOkB g nodes es <;> simp
    simp [condAcyclicOkB, hp] at hc

/-! non-vacuity: the specs are met by concrete answers (and then accepted) -/
example : SccSpec exG [[2, 3], [1, 0], [4]] := C09_scc_checker_sound _ _ (by decide +kernel)
example : ¬ CyclicU ⟨false, [0, 1, 2, 3], exU.edges.take 2⟩ :=
  (C09_cyclic_undirected_checker_sound _).2 (by decide +kernel)

/-! ## Part 5 (wave 4) — a reused `DfsSpace` gives the same answers

`Model/C09Space.lean` runs `has_path_connecting` / `toposort` on an explicit workspace `Space`: ANY
stack contents and ANY visit map — a `FixedBitSet` of any length with any bits set (`DfsSpace::default()`
= length 0; a space made for a smaller or larger graph; leftovers of earlier calls, including a
`toposort` that returned `Err(Cycle)` early with a non-empty stack) or a `HashSet` with any members.
Both functions start with `dfs.reset(g)` = `reset_map` (`clear(); grow(node_bound)`, never shrinks) +
`stack.clear()`; `visit` on a `FixedBitSet` panics beyond its length.  The theorems: the answer through
any workspace equals the workspace-free model (`hasPath` / `toposort`, to which Parts 2–3 apply) — fuel
included, and without a panic. -/

/-- what a workspace needs from the graph type: the `NodeIndexable` contract for a `FixedBitSet`,
nothing for a `HashSet` -/
abbrev MapOk := C09P.MapOk

/-- `IxOk` covers any kind of map -/
theorem C09_mapOk_of_ixOk (v : View) (hix : IxOk v) (m : VMap) : MapOk v m := by
  cases m with
  | bits b => exact hix
  | set s => trivial

/-- **`has_path_connecting(g, a, b, Some(space))` = `has_path_connecting(g, a, b, None)`** for every
workspace, and the workspace it leaves behind is usable again. -/
theorem C09_has_path_space (v : View) (hv : ViewOk v) (hwf : v.g.WellFormed) (ws : Space)
    (hm : MapOk v ws.map) (a b : Nat) (ha : a ∈ v.g.nodes) :
    (hasPathS v ws a b).map (·.1) = WR.ofOption (hasPath v a b) ∧
    ∀ r ws', hasPathS v ws a b = .ret (r, ws') → MapOk v ws'.map :=
  C09P.hasPathS_eq v (C09P.closed_of_viewOk hv hwf) ws hm a b ha

/-- **`toposort(g, Some(space))` = `toposort(g, None)`** for every workspace. -/
theorem C09_toposort_space (v : View) (hv : ViewOk v) (hp : PredOk v) (hwf : v.g.WellFormed) (ws : Space)
    (hm : MapOk v ws.map) :
    (toposortS v ws).map (·.1) = WR.ofOption (toposort v) ∧
    ∀ r ws', toposortS v ws = .ret (r, ws') → MapOk v ws'.map :=
  C09P.toposortS_eq v (C09P.closed_of_viewOk hv hwf) (C09P.closed_rev hp hwf) ws hm

/-- **a reused `DfsSpace` gives the same answers**: any sequence of `has_path_connecting` / `toposort`
calls through ONE workspace, whatever it holds at the start, answers call by call what the same calls
answer without a workspace. -/
theorem C09_space_reuse (v : View) (hv : ViewOk v) (hp : PredOk v) (hwf : v.g.WellFormed) (ws : Space)
    (hm : MapOk v ws.map) (ops : List SpaceOp) (hops : C09P.OpsOk v ops) :
    (runSpace v ws ops).1 = ops.map (freshAns v) :=
  C09P.runSpace_eq v (C09P.closed_of_viewOk hv hwf) (C09P.closed_rev hp hwf) ops ws hm hops

/-- … hence the answers do not depend on the workspace. -/
theorem C09_space_independent (v : View) (hv : ViewOk v) (hp : PredOk v) (hwf : v.g.WellFormed)
    (ws ws' : Space) (hm : MapOk v ws.map) (hm' : MapOk v ws'.map) (ops : List SpaceOp)
    (hops : C09P.OpsOk v ops) : (runSpace v ws ops).1 = (runSpace v ws' ops).1 := by
  rw [C09_space_reuse v hv hp hwf ws hm ops hops, C09_space_reuse v hv hp hwf ws' hm' ops hops]

/-- **through any workspace `has_path_connecting` answers, and with reachability** (no run hypothesis). -/
theorem C09_has_path_space_exact (v : View) (hv : ViewOk v) (hwf : v.g.WellFormed) (hb : SuccBound v)
    (ws : Space) (hm : MapOk v ws.map) (a b : Nat) (ha : a ∈ v.g.nodes) :
    ∃ r ws', hasPathS v ws a b = .ret (r, ws') ∧ (r = true ↔ Reach v.g a b) := by
  obtain ⟨r, hr, hspec⟩ := C09_has_path_total v hv hwf hb a b ha
  have h := (C09_has_path_space v hv hwf ws hm a b ha).1
  rw [hr] at h
  obtain ⟨⟨r', ws'⟩, e1, e2⟩ := C09P.wr_map_ret h
  exact ⟨r', ws', e1, by simp only at e2; rw [e2]; exact hspec⟩

/-- **through any workspace `toposort` answers `Ok(order)` with a topological order exactly when the graph
is acyclic, otherwise `Err(Cycle(x))` with `x` on a cycle** (no run hypothesis). -/
theorem C09_toposort_space_exact (v : View) (hv : ViewOk v) (hp : PredOk v) (hwf : v.g.WellFormed)
    (hb : SuccBound v) (hbp : PredBound v) (ws : Space) (hm : MapOk v ws.map) :
    ∃ r ws', toposortS v ws = .ret (r, ws') ∧
      match r with
      | .ok ord => TopoOrder v.g ord ∧ ¬ CyclicD v.g
      | .cycle x => Reach1 v.g x x ∧ CyclicD v.g := by
  obtain ⟨r, hr⟩ := C09_toposort_total v hv hp hwf hb hbp
  have h := (C09_toposort_space v hv hp hwf ws hm).1
  rw [hr] at h
  obtain ⟨⟨r', ws'⟩, e1, e2⟩ := C09P.wr_map_ret h
  simp only at e2
  subst e2
  refine ⟨r', ws', e1, ?_⟩
  cases r' with
  | ok ord => exact C09_toposort_ok v hv hp hwf ord hr
  | cycle x => exact C09_toposort_cycle v hv hp hwf x hr

/-- the `NodeIndexable` bound is needed: a (contract-violating) view whose only node has `to_index = 3`
with `node_bound = 1` makes the answer depend on the workspace — a fresh one (`FixedBitSet` of length
`node_bound`) panics in `visit`, one made for a larger graph answers.  Everything else holds. -/
theorem C09_space_needs_index_bound_witness :
    ∃ (v : View) (ws : Space), ViewOk v ∧ PredOk v ∧ v.g.WellFormed ∧ C09P.IxInj v ∧ ¬ C09P.IxLt v ∧
      (hasPathS v (Space.fresh v false) 0 0).map (·.1) = .panic ∧
      (hasPathS v ws 0 0).map (·.1) = .ret true := by
  let g : MGraph := ⟨true, [0], []⟩
  let v : View := ⟨g, 1, [(0, 3)], [], []⟩
  refine ⟨v, { stack := [7], map := .bits (List.replicate 10 true) }, ?_, ?_, ?_, ?_, ?_, by decide, by decide⟩
  · intro a b; simp [View.succ, View.outOf, v, g, MGraph.Adj]
  · intro a b; simp [View.pred, View.innOf, v, g, MGraph.Adj]
  · exact ⟨by simp [v, g], by intro e he; simp [v, g] at he⟩
  · intro a ha b hb _
    simp only [v, g, List.mem_singleton] at ha hb
    rw [ha, hb]
  · intro h
    have := h 0 (by simp [v, g])
    revert this
    decide

/-! non-vacuity: on `exV` a dirty workspace (made for 2 nodes, all bits set, leftovers on the stack) and one
made for 40 nodes answer as the fresh model does -/
example : (hasPathS exV { stack := [9, 9], map := .bits [true, true] } 0 3).map (·.1) = .ret true := by decide +kernel
example : (hasPathS exV { stack := [], map := .bits (List.replicate 40 true) } 3 0).map (·.1) = .ret false := by
  decide +kernel
example : (toposortS exV { stack := [1, 2], map := .set [0, 1, 2, 3, 4] }).map (·.1) = .ret (.cycle 4) := by
  decide +kernel
example : (runSpace exV { stack := [3], map := .bits [true] } [.toposort, .hasPath 0 3, .toposort, .hasPath 3 0]).1 =
    [.topo (.cycle 4), .bool true, .topo (.cycle 4), .bool false] := by decide +kernel

/-! ## Part 6 (wave 4) — from the index graph to the abstract graph

`C09_connected_components` / `C09_cyclic_undirected` speak about `pairGraph nb pairs`, the graph the two
functions see through `to_index` and `edge_references()`.  Under the C06 consistency conditions (all
checked per case by the driver) they hold for the abstract graph `v.g`. -/

/-- `edge_references()` (in abstract ids) reports the edges, orientation ignored, as a set / multiset -/
abbrev ErSet := C09P.ErSet
abbrev ErOk := C09P.ErOk
/-- every index below `node_bound` is the index of a node (`NodeCompactIndexable`) -/
abbrev Compact := C09P.Compact
/-- the pairs handed to the union–find: `(to_index(source), to_index(target))` per edge reference -/
abbrev ixPairs := C09P.ixPairs

/-- **`connected_components` (mirror model) is the number of weakly connected components of the
abstract graph**; a set-level `edge_references` suffices (so `Csr<Undirected>`, D7, is covered). -/
theorem C09_connected_components_abstract (v : View) (er : List (Nat × Nat)) (hwf : v.g.WellFormed)
    (hix : IxOk v) (hc : Compact v) (her : ErSet v.g er) (k : Nat)
    (h : connectedComponents v.nb (ixPairs v er) = some k) : IsWccCount v.g k :=
  C09P.connectedComponents_abstract v er hwf hix.1 hix.2 hc her k h

/-- **`is_cyclic_undirected` (mirror model) decides whether the abstract multigraph, direction ignored,
has a cycle** (self-loops and parallel edges count); needs the multiset-level `edge_references`. -/
theorem C09_cyclic_undirected_abstract (v : View) (er : List (Nat × Nat)) (hwf : v.g.WellFormed)
    (hix : IxOk v) (her : ErOk v.g er) (b : Bool)
    (h : cyclicUndirected v.nb (ixPairs v er) (UF.new 0 v.nb) = some b) : b = true ↔ CyclicU v.g :=
  C09P.cyclicUndirected_abstract v er hwf hix.1 hix.2 her b h

/-- the documented exception, open finding D7 (`Csr<Undirected>::edge_references` reports every non-loop
edge in both orientations): as soon as ONE non-loop pair is reported both ways the function answers
`true`, whatever the graph. -/
theorem C09_cyclic_undirected_doubled (nb : Nat) (pairs : List (Nat × Nat))
    (hin : ∀ p ∈ pairs, p.1 < nb ∧ p.2 < nb) (a b : Nat) (hab : a ≠ b) (h1 : (a, b) ∈ pairs)
    (h2 : (b, a) ∈ pairs) (r : Bool) (h : cyclicUndirected nb pairs (UF.new 0 nb) = some r) : r = true :=
  C09P.cyclicUndirected_doubled nb pairs hin a b hab h1 h2 r h

/-- `C09_cyclic_undirected_abstract` with `ErSet` in place of `ErOk` is false (the D7 shape): one edge
`0 – 1` reported as `(0,1),(1,0)`. -/
theorem C09_cyclic_undirected_set_false_witness :
    ∃ (v : View) (er : List (Nat × Nat)), v.g.WellFormed ∧ IxOk v ∧ Compact v ∧ ErSet v.g er ∧
      cyclicUndirected v.nb (ixPairs v er) (UF.new 0 v.nb) = some true ∧ ¬ CyclicU v.g := by
  let g : MGraph := ⟨false, [0, 1], [⟨0, 0, 1, 1⟩]⟩
  let v : View := ⟨g, 2, [(0, 0), (1, 1)], [], []⟩
  have hix : C09J.ixOkB v = true := by decide
  refine ⟨v, [(0, 1), (1, 0)], C09P.wfB_sound (by decide), C09P.ixOkB_sound hix,
    C09P.compactB_sound (by decide), C09P.erSetOkB_sound (by decide), by decide +kernel, ?_⟩
  exact (C09_cyclic_undirected_checker_sound _).2 (by decide +kernel)

/-- `Compact` is needed for the count: a vacant index is counted as a component. -/
theorem C09_connected_components_needs_compact_witness :
    ∃ (v : View) (er : List (Nat × Nat)), v.g.WellFormed ∧ IxOk v ∧ ErOk v.g er ∧ ¬ Compact v ∧
      connectedComponents v.nb (ixPairs v er) = some 2 ∧ IsWccCount v.g 1 ∧ ¬ IsWccCount v.g 2 := by
  let g : MGraph := ⟨false, [0], []⟩
  let v : View := ⟨g, 2, [(0, 0)], [], []⟩
  have hix : C09J.ixOkB v = true := by decide
  have h1 : IsWccCount v.g 1 := C09_wcc_checker_sound _ _ (by decide +kernel)
  refine ⟨v, [], C09P.wfB_sound (by decide), C09P.ixOkB_sound hix, C09P.erOkB_sound (by decide), ?_,
    by decide +kernel, h1, fun h2 => absurd (C09_wcc_count_unique _ _ _ h1 h2) (by decide)⟩
  intro hc
  obtain ⟨a, ha, hai⟩ := hc 1 (by decide)
  simp only [v, g, List.mem_singleton] at ha
  subst ha
  revert hai
  decide

/-! ## run-time checks of the hypotheses (G-A)

Every hypothesis of the theorems above that concerns the concrete case has an executable Boolean
(`Oracle/C09Checks.lean`, `Driver/C09.lean`) which the driver evaluates on every case it judges; a
failure is reported as `SPECFAIL side condition <name> does not hold`.  Here: `check = true → hypothesis`,
and, for every function, the property clause with NO hypothesis left but the checks. -/

theorem C09_wf_check (g : MGraph) (h : wfB g = true) : g.WellFormed := C09P.wfB_sound h

theorem C09_hout_check (v : View) (h : houtB v = true) :
    ∀ a, a ∉ v.g.nodes → v.succ a = [] ∧ v.pred a = [] := C09P.houtB_sound h

theorem C09_ix_check (v : View) (h : ixOkB v = true) : IxOk v := C09P.ixOkB_sound h

theorem C09_size_check (v : View) (h : sizeB v = true) : 2 * v.g.nodes.length + 1 ≤ usizeMax :=
  C09P.sizeB_sound h

theorem C09_compact_check (v : View) (h : compactB v = true) : Compact v := C09P.compactB_sound h

theorem C09_erset_check (g : MGraph) (er : List (Nat × Nat)) (h : erSetOkB g er = true) : ErSet g er :=
  C09P.erSetOkB_sound h

theorem C09_er_check (g : MGraph) (er : List (Nat × Nat)) (h : erOkB g er = true) : ErOk g er :=
  C09P.erOkB_sound h

theorem C09_eo_check (v : View) (eo : List Nat) (h : eoOkB v eo = true) :
    (eo.filterMap v.edge?).Perm v.g.edges := C09P.eoOkB_sound h

theorem C09_node_check (g : MGraph) (a : Nat) (h : nodeB g a = true) : a ∈ g.nodes := C09P.nodeB_sound h

/-- the `graph` line is accepted (`ok`) exactly when `caseOkB` holds, and then ALL view hypotheses of
Parts 2, 3, 5, 6 hold. -/
theorem C09_case_check (v : View) :
    (C09.caseWhy v = none ↔ C09.caseOkB v = true) ∧
    (C09.caseOkB v = true → ViewOk v ∧ PredOk v ∧ SuccBound v ∧ PredBound v ∧ v.g.WellFormed ∧ IxOk v ∧
      2 * v.g.nodes.length + 1 ≤ usizeMax) :=
  ⟨C09P.caseWhy_none_iff v, fun h =>
    let c := C09P.caseOkB_sound h
    ⟨c.view, c.pred, c.succLe, c.predLe, c.wf, ⟨c.ixLt, c.ixInj⟩, c.size⟩⟩

/-- **every function on every checked case**: the mirror model answers and its answer satisfies the
property's clause — no hypothesis but the run-time checks. -/
theorem C09_checked_case (v : View) (h : C09.caseOkB v = true) :
    (∃ comps, kosaraju v = some comps ∧ SccSpec v.g comps) ∧
    (∃ t1 t2, tjRun v {} = some t1 ∧ tjRun v t1 = some t2 ∧
      (SccSpec v.g t1.out ∧ IndexSpec t1.out (v.g.nodes.map fun x => (x, tjIndex v t1 x))) ∧
      (SccSpec v.g t2.out ∧ IndexSpec t2.out (v.g.nodes.map fun x => (x, tjIndex v t2 x)))) ∧
    (∀ a b, nodeB v.g a = true → ∃ r, hasPath v a b = some r ∧ (r = true ↔ Reach v.g a b)) ∧
    (∃ b, cyclicDirected v = some b ∧ (b = true ↔ CyclicD v.g)) ∧
    (∀ s, nodeB v.g s = true → ∃ b, bipartite v s = .answer b ∧ (b = true ↔ TwoCol v.g s)) ∧
    (((∃ ord, toposort v = some (.ok ord)) ↔ ¬ CyclicD v.g) ∧
      (¬ CyclicD v.g → ∃ ord, toposort v = some (.ok ord) ∧ TopoOrder v.g ord) ∧
      (CyclicD v.g → ∃ x, toposort v = some (.cycle x) ∧ Reach1 v.g x x)) ∧
    (∀ eo, eoOkB v eo = true →
      (∃ c, condensation v eo false = some c ∧ CondSpec v.g c.nodes c.edges) ∧
      (∃ c, condensation v eo true = some c ∧ CondAcyclicSpec v.g c.nodes c.edges)) := by
  obtain ⟨hv, hp, hb, hbp, hwf, hix, hsize⟩ := (C09_case_check v).2 h
  exact ⟨C09_kosaraju_total v hv hp hwf hb hbp, C09_tarjan_exact v hv hix hwf hb hsize,
    fun a b ha => C09_has_path_total v hv hwf hb a b (C09P.nodeB_sound ha),
    C09_cyclic_directed_total v hv hwf hb,
    fun s hs => C09_bipartite_total v hv hwf s (C09P.nodeB_sound hs),
    C09_toposort_ok_iff_acyclic v hv hp hwf hb hbp,
    fun eo heo => C09_condensation_total v hv hp hwf hb hbp eo (C09P.eoOkB_sound heo)⟩

/-- **`connected_components` / `is_cyclic_undirected` on every checked case**, about the abstract graph. -/
theorem C09_checked_union_find (v : View) (h : C09.caseOkB v = true) (er : List (Nat × Nat)) :
    (erSetOkB v.g er = true → compactB v = true → ∀ k,
      connectedComponents v.nb (ixPairs v er) = some k → IsWccCount v.g k) ∧
    (erOkB v.g er = true → ∀ b,
      cyclicUndirected v.nb (ixPairs v er) (UF.new 0 v.nb) = some b → (b = true ↔ CyclicU v.g)) := by
  obtain ⟨_, _, _, _, hwf, hix, _⟩ := (C09_case_check v).2 h
  exact ⟨fun h1 h2 k hk => C09_connected_components_abstract v er hwf hix (C09P.compactB_sound h2)
      (C09P.erSetOkB_sound h1) k hk,
    fun h1 b hb => C09_cyclic_undirected_abstract v er hwf hix (C09P.erOkB_sound h1) b hb⟩

/-- **a reused `DfsSpace` on every checked case**: whatever workspace (of either kind, any length, any
content) the calls go through, every `has_path_connecting` from a node and every `toposort` answers what
the workspace-free call answers, which is exact by `C09_checked_case`. -/
theorem C09_checked_space (v : View) (h : C09.caseOkB v = true) (ws : Space) (ops : List SpaceOp)
    (hops : ∀ op ∈ ops, match op with | .hasPath a _ => nodeB v.g a = true | .toposort => True) :
    (runSpace v ws ops).1 = ops.map (freshAns v) := by
  obtain ⟨hv, hp, _, _, hwf, hix, _⟩ := (C09_case_check v).2 h
  refine C09_space_reuse v hv hp hwf ws (C09_mapOk_of_ixOk v hix ws.map) ops ?_
  intro op hop
  have := hops op hop
  cases op with
  | hasPath a b => exact C09P.nodeB_sound this
  | toposort => trivial

/-! non-vacuity: `exV` passes every check -/
example : C09.caseOkB exV = true := by decide +kernel
example : eoOkB exV [0, 1, 2, 3, 4, 5, 6] = true ∧ compactB exV = true ∧ nodeB exV.g 3 = true := by decide +kernel
example : erOkB exG [(1, 0), (0, 1), (2, 1), (2, 3), (3, 2), (4, 4), (1, 2)] = true ∧
    erOkB exG [(1, 0), (0, 1), (2, 1), (2, 3), (3, 2), (4, 4)] = false ∧
    erSetOkB exG [(1, 0), (2, 1), (2, 3), (4, 4)] = true := by decide +kernel

/-! ## Part 7 (wave 6) — corners: graph adaptors, ids that are not nodes, a `TarjanScc` used on other graphs

The C09 functions are generic; "all graph types satisfying the bounds" includes the adaptors of
`petgraph::visit`.  The driver judges an adaptor case against the abstract graph the adaptor is documented
to present (`Oracle/C09Adapt.lean`: `applyAd`), recomputed from the base graph by `adaptOkB`. -/

/-- **run-time check of an adaptor case**: an accepted `graph` line of an adaptor case carries the graph
the adaptor chain presents over the base — the same direction flag, the same edge list, the same nodes. -/
theorem C09_adapt_check (base g : MGraph) (ads : List Ad) (h : adaptOkB base ads g = true) :
    (applyAds base ads).directed = g.directed ∧ (applyAds base ads).edges = g.edges ∧
      ∀ x, x ∈ (applyAds base ads).nodes ↔ x ∈ g.nodes :=
  let s := C09P.adaptOkB_sound h
  ⟨s.directed, s.edges, s.nodes⟩

/-- **every clause means the same on two graphs of the same shape** (direction flag, edge list, node set):
so judging against the line's graph is judging against the adaptor's graph. -/
theorem C09_same_shape (g g' : MGraph) (hd : g.directed = g'.directed) (he : g.edges = g'.edges)
    (hn : ∀ x, x ∈ g.nodes ↔ x ∈ g'.nodes) :
    (∀ a b, Reach g a b ↔ Reach g' a b) ∧ (∀ comps, SccSpec g comps ↔ SccSpec g' comps) ∧
    (∀ k, IsWccCount g k ↔ IsWccCount g' k) ∧ (CyclicD g ↔ CyclicD g') ∧ (CyclicU g ↔ CyclicU g') ∧
    (∀ s, TwoCol g s ↔ TwoCol g' s) ∧ (∀ ord, TopoOrder g ord ↔ TopoOrder g' ord) := by
  have s : C09P.SameShape g g' := ⟨hd, he, hn⟩
  have a := s.adjEq
  exact ⟨C09P.adjEq_reach a, C09P.adjEq_scc a, C09P.adjEq_wcc a, C09P.adjEq_cyclicD a, C09P.sameShape_cyclicU s,
    C09P.adjEq_twoCol a, C09P.adjEq_topo a⟩

/-- **every clause that does not count edges depends on the nodes and the adjacency relation only.** -/
theorem C09_adj_congr (g g' : MGraph) (hn : ∀ x, x ∈ g.nodes ↔ x ∈ g'.nodes) (ha : ∀ a b, g.Adj a b ↔ g'.Adj a b) :
    (∀ a b, Reach g a b ↔ Reach g' a b) ∧ (∀ comps, SccSpec g comps ↔ SccSpec g' comps) ∧
    (∀ k, IsWccCount g k ↔ IsWccCount g' k) ∧ (CyclicD g ↔ CyclicD g') ∧
    (∀ s, TwoCol g s ↔ TwoCol g' s) ∧ (∀ ord, TopoOrder g ord ↔ TopoOrder g' ord) := by
  have a : C09P.AdjEq g g' := ⟨hn, ha⟩
  exact ⟨C09P.adjEq_reach a, C09P.adjEq_scc a, C09P.adjEq_wcc a, C09P.adjEq_cyclicD a, C09P.adjEq_twoCol a,
    C09P.adjEq_topo a⟩

/-- full strength would be "`CyclicU` depends on the adjacency only" — false: a doubled edge is a cycle of
the multigraph ("parallel edges count as cycles"), so the doubled listing of `UndirectedAdaptor::neighbors`
is not what `is_cyclic_undirected` may be judged against (the driver judges it against `g.undirect`, the
`unde` line). -/
theorem C09_cyclicU_not_adj_congr_witness :
    ∃ g g' : MGraph, (∀ x, x ∈ g.nodes ↔ x ∈ g'.nodes) ∧ (∀ a b, g.Adj a b ↔ g'.Adj a b) ∧
      CyclicU g ∧ ¬ CyclicU g' := by
  refine ⟨undAdaptor ⟨false, [0, 1], [⟨0, 0, 1, 1⟩]⟩, (⟨false, [0, 1], [⟨0, 0, 1, 1⟩]⟩ : MGraph).undirect,
    (C09P.undAdaptor_adjEq _).nodes, (C09P.undAdaptor_adjEq _).adj, ?_, ?_⟩
  · exact C09P.cycUYes_sound (by decide +kernel)
  · exact C09P.cycUNo_sound (by decide +kernel)

/-- **`Reversed(g)`**: adjacency and reachability turned around, the same classes of mutual reachability,
and an answer is a correct SCC answer for `Reversed(g)` exactly when, read backwards, it is one for `g`
(the components of `g` in topological instead of reverse topological order). -/
theorem C09_adaptor_reversed (g : MGraph) :
    (∀ a b, g.reverse.Adj a b ↔ g.Adj b a) ∧ (∀ a b, Reach g.reverse a b ↔ Reach g b a) ∧
    (∀ comps, SccSpec g.reverse comps ↔ SccSpec g comps.reverse) :=
  ⟨fun _ _ => C09P.adj_reverse, fun _ _ => C09P.reach_reverse, C09P.sccSpec_reverse g⟩

/-- **`EdgeFiltered(g, weight ≥ thr)`** presents the kept edges: adjacent exactly along a kept edge. -/
theorem C09_adaptor_edge_filtered (g : MGraph) (thr : Int) (a b : Nat) :
    (filterEdges g thr).Adj a b ↔
      ∃ e ∈ g.edges, thr ≤ e.w ∧ ((e.src = a ∧ e.tgt = b) ∨ (g.directed = false ∧ e.src = b ∧ e.tgt = a)) :=
  C09P.adj_filterEdges g thr a b

/-- **`NodeFiltered(g, keep)`** presents the induced subgraph: the kept nodes, adjacent exactly when adjacent
in `g`; a walk of the view is a walk of `g` all of whose nodes are kept. -/
theorem C09_adaptor_node_filtered (g : MGraph) (keep : List Nat) :
    (∀ x, x ∈ (induced g keep).nodes ↔ x ∈ g.nodes ∧ x ∈ keep) ∧
    (∀ a b, (induced g keep).Adj a b ↔ g.Adj a b ∧ a ∈ keep ∧ b ∈ keep) ∧
    (∀ a b, Reach (induced g keep) a b → Reach g a b ∧ (a ≠ b → a ∈ keep ∧ b ∈ keep)) :=
  ⟨C09P.mem_induced_nodes g keep, C09P.adj_induced g keep, fun _ _ => C09P.reach_induced_sub⟩

/-- **`UndirectedAdaptor(g)`**: what its `neighbors` list (incoming chained with outgoing: every self-loop
of a directed base twice, every edge of an undirected base twice) has the nodes and the adjacency of `g`
with direction ignored, so every clause that does not count edges is the clause for `g.undirect`. -/
theorem C09_adaptor_undirected (g : MGraph) :
    (∀ a b, (undAdaptor g).Adj a b ↔ g.Adj a b ∨ g.Adj b a) ∧
    (∀ a b, Reach (undAdaptor g) a b ↔ Reach g.undirect a b) ∧
    (∀ comps, SccSpec (undAdaptor g) comps ↔ SccSpec g.undirect comps) ∧
    (∀ k, IsWccCount (undAdaptor g) k ↔ IsWccCount g.undirect k) ∧
    (CyclicD (undAdaptor g) ↔ CyclicD g.undirect) ∧
    (∀ s, TwoCol (undAdaptor g) s ↔ TwoCol g.undirect s) := by
  have a := C09P.undAdaptor_adjEq g
  exact ⟨fun x y => (a.adj x y).trans (C09P.adj_undirect g x y), C09P.adjEq_reach a, C09P.adjEq_scc a,
    C09P.adjEq_wcc a, C09P.adjEq_cyclicD a, C09P.adjEq_twoCol a⟩

/-- **every function on every checked adaptor case**: the mirror model answers and its answer satisfies the
property's clause FOR THE GRAPH THE ADAPTOR CHAIN PRESENTS over the base — no hypothesis but the two
run-time checks (`caseOkB` on the view, `adaptOkB` on the chain). -/
theorem C09_checked_adaptor (v : View) (base : MGraph) (ads : List Ad) (h : C09.caseOkB v = true)
    (ha : adaptOkB base ads v.g = true) :
    (∃ comps, kosaraju v = some comps ∧ SccSpec (applyAds base ads) comps) ∧
    (∃ t1, tjRun v {} = some t1 ∧ SccSpec (applyAds base ads) t1.out) ∧
    (∀ a b, nodeB v.g a = true → ∃ r, hasPath v a b = some r ∧ (r = true ↔ Reach (applyAds base ads) a b)) ∧
    (∃ b, cyclicDirected v = some b ∧ (b = true ↔ CyclicD (applyAds base ads))) ∧
    (∀ s, nodeB v.g s = true → ∃ b, bipartite v s = .answer b ∧ (b = true ↔ TwoCol (applyAds base ads) s)) ∧
    ((∃ ord, toposort v = some (.ok ord)) ↔ ¬ CyclicD (applyAds base ads)) ∧
    (∀ ord, toposort v = some (.ok ord) → TopoOrder (applyAds base ads) ord) ∧
    (∀ x, toposort v = some (.cycle x) → Reach1 (applyAds base ads) x x) := by
  have a := (C09P.adaptOkB_sound ha).adjEq
  obtain ⟨⟨c, hk, hs⟩, ⟨t1, _, h1, _, ⟨hs1, _⟩, _⟩, hp, ⟨b, hb, hcd⟩, hbip, ⟨htopo, hacy, hcyc⟩, _⟩ := C09_checked_case v h
  refine ⟨⟨c, hk, (C09P.adjEq_scc a c).mpr hs⟩, ⟨t1, h1, (C09P.adjEq_scc a _).mpr hs1⟩, ?_,
    ⟨b, hb, hcd.trans (C09P.adjEq_cyclicD a).symm⟩, ?_, htopo.trans (not_congr (C09P.adjEq_cyclicD a).symm), ?_, ?_⟩
  · intro x y hx
    obtain ⟨r, hr, hrr⟩ := hp x y hx
    exact ⟨r, hr, hrr.trans (C09P.adjEq_reach a x y).symm⟩
  · intro s hs
    obtain ⟨b, hb, hbb⟩ := hbip s hs
    exact ⟨b, hb, hbb.trans (C09P.adjEq_twoCol a s).symm⟩
  · intro ord ho
    by_cases hc : CyclicD v.g
    · obtain ⟨x, hx, _⟩ := hcyc hc
      rw [ho] at hx; cases hx
    · obtain ⟨ord', ho', ht⟩ := hacy hc
      rw [ho] at ho'
      cases ho'
      exact (C09P.adjEq_topo a ord).mpr ht
  · intro x hx
    by_cases hc : CyclicD v.g
    · obtain ⟨x', hx', hr⟩ := hcyc hc
      rw [hx] at hx'
      cases hx'
      exact (C09P.adjEq_reach1 a x x).mpr hr
    · obtain ⟨ord', ho', _⟩ := hacy hc
      rw [hx] at ho'; cases ho'

/-- **ids that are not nodes** (a vacancy of a `StableGraph`, an absent `GraphMap` node — documented to have
no neighbours): on a checked case `has_path_connecting(a, b)` with such an `a` or `b` answers `a == b`, and
that is reachability in the graph: the id reaches itself only and only itself reaches it. -/
theorem C09_checked_stale (v : View) (h : C09.caseOkB v = true) (a b : Nat)
    (hs : nodeB v.g a = false ∨ nodeB v.g b = false) :
    hasPath v a b = some (decide (a = b)) ∧ (Reach v.g a b ↔ a = b) := by
  obtain ⟨hv, _, hb, _, hwf, _, _⟩ := (C09_case_check v).2 h
  have hout := C09P.houtB_sound (by
    have : C09.caseOkB v = true := h
    simp only [C09.caseOkB, Bool.and_eq_true] at this
    exact this.1.1.2)
  by_cases ha : a ∈ v.g.nodes
  · have hbn : b ∉ v.g.nodes := by
      rcases hs with hs | hs
      · exact absurd ha (by simpa [nodeB] using hs)
      · simpa [nodeB] using hs
    have hne : a ≠ b := fun e => hbn (e ▸ ha)
    have hreach := C09P.reach_stale_right hwf (a := a) hbn
    obtain ⟨r, hr, hrr⟩ := C09_has_path_total v hv hwf hb a b ha
    refine ⟨?_, hreach⟩
    rw [hr]
    cases r with
    | false => simp [hne]
    | true => exact absurd (hreach.mp (hrr.mp rfl)) hne
  · exact ⟨C09P.hasPath_stale_left v a b (hout a ha).1, C09P.reach_stale_left hwf ha⟩

/-- **a `TarjanScc` that was used on ANOTHER graph before** (`tarjan-foreign`, `tarjan-after-mutation`):
`run` clears the per-node table and keeps `index` / `componentcount`; from any clean value with room for both
graphs, the run on the first graph and then the run on the second graph are both exact, with consistent
`node_component_index`, and the value is clean again (so any number of graphs in a row). -/
theorem C09_tarjan_across (v1 v2 : View) (hv1 : ViewOk v1) (hix1 : IxOk v1) (hwf1 : v1.g.WellFormed)
    (hv2 : ViewOk v2) (hix2 : IxOk v2) (hwf2 : v2.g.WellFormed) (t t1 t2 : TJ)
    (hst : t.stack = []) (hB : t.index + v1.g.nodes.length + v2.g.nodes.length ≤ t.cc) (hcc : t.cc ≤ usizeMax)
    (h1 : tjRun v1 t = some t1) (h2 : tjRun v2 t1 = some t2) :
    (SccSpec v1.g t1.out ∧ IndexSpec t1.out (v1.g.nodes.map fun x => (x, tjIndex v1 t1 x))) ∧
    (SccSpec v2.g t2.out ∧ IndexSpec t2.out (v2.g.nodes.map fun x => (x, tjIndex v2 t2 x))) ∧
    t2.stack = [] ∧ t2.index = t.index ∧ t2.cc + t1.out.length + t2.out.length = t.cc := by
  obtain ⟨s1, i1, st1, ix1, cc1, l1⟩ := C09_tarjan_run v1 hv1 hix1 hwf1 t t1 hst (by omega) hcc h1
  obtain ⟨s2, i2, st2, ix2, cc2, _⟩ := C09_tarjan_run v2 hv2 hix2 hwf2 t1 t2 st1 (by omega) (by omega) h2
  exact ⟨⟨s1, i1⟩, ⟨s2, i2⟩, st2, by omega, by omega⟩

/-- run-time check of `C09_tarjan_across` for a new value (`law tarjan-foreign <m>` lines): both node counts
together leave room below `usize::MAX` -/
theorem C09_across_check (m : Nat) (v : View) (h : acrossB m v = true) :
    ({} : TJ).index + m + v.g.nodes.length ≤ ({} : TJ).cc := by
  simpa [acrossB] using h

/-! non-vacuity of Part 7 -/
example : adaptOkB exG [.rev, .ef 1] (filterEdges exG.reverse 1) = true := by decide +kernel
example : adaptOkB exG [.nf [1, 2, 3]] ⟨true, [3, 1, 2], [⟨2, 1, 2, 0⟩, ⟨3, 2, 3, 1⟩, ⟨4, 3, 2, 1⟩, ⟨6, 1, 2, 5⟩]⟩ = true := by decide +kernel
example : adaptOkB exG [.nf [1, 2, 3]] exG = false := by decide +kernel
example : C09.caseOkB exV = true ∧ adaptOkB exG.reverse [.rev, .frz] exV.g = true := by decide +kernel
example : (undAdaptor exG).edges.length = 8 ∧ (undAdaptor exU).edges.length = 6 := by decide +kernel
example : sccOkB exG.reverse [[4], [1, 0], [2, 3]] = true ∧ sccOkB exG [[2, 3], [1, 0], [4]] = true := by decide +kernel
example : nodeB exV.g 7 = false ∧ hasPath exV 7 7 = some true ∧ hasPath exV 7 0 = some false ∧
    hasPath exV 0 7 = some false := by decide +kernel
example : ((tjRun exV {}).bind (tjRun (rev exV))).map (fun t => (t.out, t.index, t.stack)) =
    some ([[1, 0], [3, 2], [4]], 1, []) := by decide +kernel
example : acrossB 40 exV = true := by decide +kernel

end PetgraphModel.C09T
