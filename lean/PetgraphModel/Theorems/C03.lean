import PetgraphModel.Model.GraphMap
import PetgraphModel.Spec.SimpleGraph
import PetgraphModel.Proofs.GraphMap
import PetgraphModel.Spec.SimpleGraphJudge
import PetgraphModel.Proofs.GraphMapJudge
import PetgraphModel.Spec.C03Dump
import PetgraphModel.Spec.C03Ordered
import PetgraphModel.Proofs.C03W4Dump
import PetgraphModel.Proofs.C03W4Ordered
import PetgraphModel.Proofs.C03W4Perm
import PetgraphModel.Proofs.C03W4Index
import PetgraphModel.Proofs.C03W4Checks
import PetgraphModel.Proofs.C03W6
/-
C03 — `GraphMap` is a simple graph keyed by node value under every history.

Only property theorems live here; definitions and helper lemmas are in `Proofs/GraphMap.lean`.
Every theorem is about the mirror model `GM` (tied to `/repo/src/graphmap.rs` + the `Build` impl in
`/repo/src/data.rs` by the exact correspondence run of `./check C03`, three hashers) and the abstract
simple graph `SimpleGraphSpec.SG`.

Three layers of specification (wave 4):
* `SimpleGraphSpec.SG` / `OutOk` — the UNORDERED simple graph: exactly what property C03 states.  The
  run-time judge `judgeB` decides `OutOk` and is the only source of `SPECFAIL`.
* `OrderedGraphSpec.OSG` / `ospecOut` — the same graph WITH the order the documented `IndexMap` / `Vec`
  contract (insertion order, `swap_remove`) gives to nodes, edges and incidences, and the exact answer
  of every call incl. the compact numbering.  petgraph's own docs promise no order (`all_edges`: "in
  arbitrary order"), so this layer never produces a `SPECFAIL`; the mirror model is proved to refine it
  for all histories, and the exact comparison with the mirror (`MODELDIFF`) is the comparison with it.
* `C03Dump.DumpOk` — what the property says about a whole dump (simultaneous observations): numbering
  bijection consistent with the iterators, `rev`/`last`/`nth` agreement.

"Any `BuildHasher`": no model function has a hasher parameter — the order of an `IndexMap` is its
insertion/swap-remove history.  The implementation side of that clause is the harness, which executes
every history under `RandomState`, `fxhash` and `ahash` and requires identical observations.
-/
namespace PetgraphModel.C03T
open PetgraphModel PetgraphModel.GM PetgraphModel.SimpleGraphSpec

/-- representation invariant: duplicate-free keys of both maps, canonical edge keys, edges join present
nodes, and the adjacency vectors mirror the edge map (`GMProofs.Good`) -/
abbrev Inv := GMProofs.Inv
/-- the abstract simple graph a concrete state denotes -/
abbrev abs := GMProofs.abs
/-- answers of a history judged call by call against the running abstract graph -/
abbrev OutsOk := GMProofs.OutsOk

/-- `new`/`default`/`with_capacity`/`with_capacity_and_hasher` establish the invariant and denote the
empty graph. -/
theorem C03_inv_init (directed : Bool) :
    Inv (State.empty directed) ∧ abs (State.empty directed) = SG.empty directed :=
  ⟨GMProofs.inv_empty directed, GMProofs.abs_empty directed⟩

/-- every public call (mutating or not, with arbitrary arguments) preserves the invariant. -/
theorem C03_inv_step (s : State) (op : Op) (h : Inv s) : Inv (step s op).1 :=
  (GMProofs.step_spec s op h).1

/-- what the invariant says, spelled out: the adjacency vectors mirror the edge map. Directed: no
duplicate entries, `(b, Outgoing)` is listed at `a` iff `a → b` is an edge, `(b, Incoming)` iff `b → a`
is an edge and `a ≠ b` (self-loops have no `Incoming` entry). Undirected: each neighbour is listed once,
`b` at `a` iff `{a, b}` is an edge. Keys are canonical and edges join present nodes. -/
theorem C03_adjacency_mirrors_edges (s : State) (h : Inv s) (a : Nat) :
    (s.directed = true →
      (adjOf s a).Nodup ∧
      (∀ b, (b, Dir.out) ∈ adjOf s a ↔ (IMap.get? s.edges (a, b)).isSome = true) ∧
      (∀ b, (b, Dir.inc) ∈ adjOf s a ↔ a ≠ b ∧ (IMap.get? s.edges (b, a)).isSome = true)) ∧
    (s.directed = false →
      ((adjOf s a).map (·.1)).Nodup ∧
      ∀ b, b ∈ (adjOf s a).map (·.1) ↔ (IMap.get? s.edges (edgeKey false a b)).isSome = true) ∧
    (∀ b, (IMap.get? s.edges (a, b)).isSome = true →
      (s.directed = true ∨ a ≤ b) ∧ containsNode s a = true ∧ containsNode s b = true) :=
  ⟨fun hd => h.good.adjD hd a, fun hd => h.good.adjU hd a,
   fun b hb => ⟨h.good.canon a b hb, h.good.ends a b hb⟩⟩

/-- Refinement, one call: the abstract graph moves by the spec machine's transition and the answer is
the one the property prescribes in the abstract graph (`OutOk`: previous weight for `add_edge`,
presence for `remove_node`, lists as duplicate-free enumerations of the named set, the queried node as
source resp. target for `Incoming`, a self-loop once, …). -/
theorem C03_refines (s : State) (op : Op) (h : Inv s) :
    abs (step s op).1 = specStep (abs s) op ∧ OutOk (abs s) op (step s op).2 :=
  ⟨(GMProofs.step_spec s op h).2, GMProofs.out_ok s op h⟩

/-- Refinement, all histories: after any call sequence on a fresh map the invariant holds, the state
denotes the abstract graph the spec machine reaches, and every answer along the way was the prescribed one. -/
theorem C03_all_histories (directed : Bool) (ops : List Op) :
    let r := run (State.empty directed) ops
    Inv r.1 ∧ abs r.1 = specRun (SG.empty directed) ops ∧ OutsOk (SG.empty directed) ops r.2 := by
  have := GMProofs.run_spec (State.empty directed) ops (GMProofs.inv_empty directed)
  rw [GMProofs.abs_empty] at this
  exact this

/-- the abstract graph of every reachable state is well-formed: edges join nodes, and an undirected
graph is symmetric (an undirected edge is the same edge seen from both ends). -/
theorem C03_spec_wf (s : State) (h : Inv s) : (abs s).WF := GMProofs.abs_wf s h

/-- `add_edge` returns the previous weight, inserts missing endpoints, and afterwards the edge carries
the new weight (seen from both ends when undirected); no other pair changes. -/
theorem C03_add_edge (s : State) (a b w : Nat) (h : Inv s) :
    let r := addEdge s a b w
    r.2 = (abs s).w a b ∧ (abs r.1).node a = true ∧ (abs r.1).node b = true ∧ (abs r.1).w a b = some w ∧
    (s.directed = false → (abs r.1).w b a = some w) ∧
    (∀ x y, ¬ (samePair s.directed a b x y = true) → (abs r.1).w x y = (abs s).w x y) ∧
    (∀ x, x ≠ a → x ≠ b → (abs r.1).node x = (abs s).node x) := by
  intro r
  have hr : abs r.1 = (abs s).addEdge a b w := GMProofs.addEdge_abs s a b w h
  refine ⟨GMProofs.addEdge_out s a b w, ?_, ?_, ?_, ?_, ?_, ?_⟩ <;> rw [hr] <;> simp only [SG.addEdge]
  · simp
  · simp
  · simp [samePair]
  · intro hd; simp [samePair, GMProofs.abs, hd]
  · intro x y hxy
    have : samePair (abs s).directed a b x y = false := by
      cases hh : samePair (abs s).directed a b x y
      · rfl
      · exact absurd hh hxy
    simp [this]
  · intro x hxa hxb; simp [hxa, hxb]

/-- `remove_node` answers whether the node was there and removes exactly the node and its incident
edges: every pair not touching `n` keeps its edge and weight. -/
theorem C03_remove_node (s : State) (n : Nat) (h : Inv s) :
    let r := removeNode s n
    r.2 = (abs s).node n ∧ (abs r.1).node n = false ∧
    (∀ x, x ≠ n → (abs r.1).node x = (abs s).node x) ∧
    (∀ x y, (abs r.1).w x y = if x = n ∨ y = n then none else (abs s).w x y) := by
  intro r
  obtain ⟨_, h2, h3⟩ := GMProofs.removeNode_spec s n h
  have h3' : abs r.1 = (abs s).removeNode n := h3
  refine ⟨h2, ?_, ?_, ?_⟩ <;> rw [h3'] <;> simp only [SG.removeNode]
  · simp
  · intro x hx; simp [hx]
  · intro x y; by_cases hx : x = n <;> by_cases hy : y = n <;> simp [hx, hy]

/-- `remove_edge` returns the weight if the edge existed (its `debug_assert!` cannot fire) and removes
exactly that edge. -/
theorem C03_remove_edge (s : State) (a b : Nat) (h : Inv s) :
    let r := removeEdge s a b
    r.2 = some ((abs s).w a b) ∧ abs r.1 = (abs s).removeEdge a b :=
  (GMProofs.removeEdge_spec s a b h).2

/-- an undirected edge is visible symmetrically: `b` is listed among the neighbours of `a` iff `a` is
among those of `b`, and `edges_directed(a, Incoming)` lists it as `(b, a, w)` iff `edges(a)` lists it as
`(a, b, w)`. -/
theorem C03_undirected_symmetric (s : State) (h : Inv s) (hu : s.directed = false) (a b : Nat) :
    (b ∈ neighbors s a ↔ a ∈ neighbors s b) ∧
    (∀ w, (b, a, some w) ∈ edgesDirected s a .inc ↔ (a, b, some w) ∈ edgesOf s a) := by
  have hsym := (GMProofs.abs_wf s h).symm hu
  constructor
  · rw [(GMProofs.neighbors_ok s h a).2, (GMProofs.neighbors_ok s h b).2]
    simp only [SG.hasEdge, hsym a b]
  · intro w
    rw [GMProofs.edgesOf_eq s h, GMProofs.edgesDirected_eq s h, GMProofs.edgesDirected_eq s h]
    have h1 := (GMProofs.edgeTriples_ok s h a .inc).2 b a w
    have h2 := (GMProofs.edgeTriples_ok s h a .out).2 a b w
    simp only [true_and] at h1 h2
    have m : ∀ (t : List (Nat × Nat × Nat)) x y, (x, y, some w) ∈ someWeights t ↔ (x, y, w) ∈ t := by
      intro t x y; unfold someWeights; simp only [List.mem_map]
      constructor
      · rintro ⟨⟨p, q, r⟩, hm, he⟩; simp at he; obtain ⟨rfl, rfl, rfl⟩ := he; exact hm
      · intro hm; exact ⟨(x, y, w), hm, rfl⟩
    rw [m, m, h1, h2, hsym b a]

/-- a self-loop (and every other neighbour) is reported once by each iterator. -/
theorem C03_reported_once (s : State) (h : Inv s) (a : Nat) (d : Dir) :
    (neighbors s a).Nodup ∧ (neighborsDirected s a d).Nodup ∧ (nodesOf s).Nodup ∧ (allEdges s).Nodup :=
  ⟨(GMProofs.neighbors_ok s h a).1, (GMProofs.neighborsDirected_ok s h a d).1, (GMProofs.nodes_ok s h).1,
   (GMProofs.allEdges_ok s h).1⟩

/-- `into_graph` followed by `from_graph` succeeds and describes the same abstract graph (and the
result satisfies the invariant again). -/
theorem C03_into_from_graph (s : State) (h : Inv s) :
    ∃ s', roundTrip s = some s' ∧ Inv s' ∧ abs s' = abs s :=
  GMProofs.roundTrip_spec s h

/-- the compact numbering is the list position, in both directions: `to_index` and `from_index` are
inverse to each other on nodes and on edge ids.  For edge ids: `to_index((a, b)) = i` iff `from_index(i)`
is the canonical form `edge_key(a, b)` of the id (the id itself when directed, the ascending pair when
undirected — either orientation of an undirected edge is accepted since the repair of D33), and
`from_index(i) = (a, b)` implies `to_index((a, b)) = i`. -/
theorem C03_index_roundtrip (s : State) (h : Inv s) :
    (∀ n i, (step s (.toIndex n)).2 = .nat i ↔ (step s (.fromIndex i)).2 = .nat n) ∧
    (∀ a b i, (step s (.edgeToIndex a b)).2 = .nat i ↔
      (step s (.edgeFromIndex i)).2 = .pair (edgeKey s.directed a b).1 (edgeKey s.directed a b).2) ∧
    (∀ a b i, (step s (.edgeFromIndex i)).2 = .pair a b → (step s (.edgeToIndex a b)).2 = .nat i) := by
  have hedge : ∀ a b i, (step s (.edgeToIndex a b)).2 = .nat i ↔
      (step s (.edgeFromIndex i)).2 = .pair (edgeKey s.directed a b).1 (edgeKey s.directed a b).2 := by
    intro a b i
    rw [C03W4.edgeToIndex_iff s h, C03W4.edgeFromIndex_iff]
  refine ⟨?_, hedge, ?_⟩
  · intro n i
    have := GMProofs.indexOf?_eq_some_iff s.nodes h.nodesNodup n i
    simp only [step]
    cases h1 : IMap.indexOf? s.nodes n <;> cases h2 : s.nodes[i]? <;> simp_all
  · intro a b i hf
    rw [hedge]
    have hk : edgeKey s.directed a b = (a, b) := by
      obtain ⟨w, hw⟩ := (C03W4.edgeFromIndex_iff s i a b).1 hf
      have hm : (a, b, w) ∈ allEdges s := List.mem_of_getElem? hw
      have hg := (GMProofs.allEdges_ok s h).2.1 a b w hm
      have hs : (IMap.get? s.edges (edgeKey s.directed a b)).isSome = true := by
        have : (abs s).w a b = IMap.get? s.edges (edgeKey s.directed a b) := rfl
        rw [← this, hg]; rfl
      have hmem : ((a, b), w) ∈ s.edges := by
        simp only [allEdges, List.mem_map] at hm
        obtain ⟨⟨⟨x, y⟩, w'⟩, hm, he⟩ := hm
        simp only [Prod.mk.injEq] at he
        obtain ⟨rfl, rfl, rfl⟩ := he
        exact hm
      exact GMProofs.canon_key s h a b (by rw [GMProofs.get?_of_mem _ h.edgesNodup _ _ hmem]; rfl)
    rw [hk]; exact hf

/-- under the invariant the internal "cannot happen" sites are not reached: `remove_edge` does not trip
its `debug_assert!`, the `edges`/`edges_directed` iterators never reach `unreachable!()`, `into_graph`'s
`unwrap()`s succeed, and the `into_graph`/`from_graph` round trip does not panic. -/
theorem C03_no_internal_panic (s : State) (h : Inv s) (a b : Nat) (d : Dir) :
    (step s (.removeEdge a b)).2 ≠ .panic ∧
    (∀ e ∈ edgesOf s a, e.2.2.isSome = true) ∧ (∀ e ∈ edgesDirected s a d, e.2.2.isSome = true) ∧
    (∀ e ∈ (intoGraph s).2, e.1.isSome = true ∧ e.2.1.isSome = true) ∧
    (step s .roundTrip).2 = .unit := by
  refine ⟨?_, ?_, ?_, ?_, ?_⟩
  · have := GMProofs.out_ok s (.removeEdge a b) h
    simp only [OutOk] at this; rw [this]; simp
  · rw [GMProofs.edgesOf_eq s h, GMProofs.edgesDirected_eq s h]
    intro e he; unfold someWeights at he
    obtain ⟨t, _, rfl⟩ := List.mem_map.1 he; rfl
  · rw [GMProofs.edgesDirected_eq s h]
    intro e he; unfold someWeights at he
    obtain ⟨t, _, rfl⟩ := List.mem_map.1 he; rfl
  · obtain ⟨ws, es, heq, _⟩ := GMProofs.intoGraph_ok s h
    simp only [Out.graph.injEq] at heq
    rw [heq.2]
    intro e he
    obtain ⟨t, _, rfl⟩ := List.mem_map.1 he
    exact ⟨rfl, rfl⟩
  · have := GMProofs.out_ok s .roundTrip h
    simpa only [OutOk] using this

/-- every node value a call mentions is below `k` (the harness draws node values from `0..k`) -/
abbrev OpBounded := GMJudge.OpBounded

/-- The per-run judge is exact: on the abstract graph reached by any history over node values below
`k`, the executable `judgeB` (what `./check` applies to every answer of the implementation) accepts an
answer if and only if it is the one the property prescribes (`OutOk`) — sound (an accepted answer
satisfies the property) and complete (no false alarm). -/
theorem C03_judge_decides (directed : Bool) (k : Nat) (ops : List Op) (hops : ∀ op ∈ ops, OpBounded k op)
    (op : Op) (o : Out) :
    judgeB (specRun (SG.empty directed) ops) k op o = true ↔ OutOk (specRun (SG.empty directed) ops) op o := by
  have h := C03_all_histories directed ops
  simp only at h
  have hwf : (specRun (SG.empty directed) ops).WF := by rw [← h.2.1]; exact GMProofs.abs_wf _ h.1
  exact GMJudge.judgeB_iff _ k (GMJudge.specRun_bounded _ k ops (GMJudge.bounded_empty directed k) hops) hwf op o

/-- consequently the judge accepts every answer of the mirror model, after every such history. -/
theorem C03_judge_accepts_model (directed : Bool) (k : Nat) (ops : List Op) (hops : ∀ op ∈ ops, OpBounded k op)
    (op : Op) :
    judgeB (specRun (SG.empty directed) ops) k op (step (run (State.empty directed) ops).1 op).2 = true := by
  rw [C03_judge_decides directed k ops hops]
  have h := C03_all_histories directed ops
  simp only at h
  rw [← h.2.1]
  exact (C03_refines _ op h.1).2

open PetgraphModel.OrderedGraphSpec

/-! ## wave 4

### goal 1 — exact answers of the numbering and of `Build::add_edge` / `update_edge` -/

/-- `EdgeIndexable::to_index((a, b))` exactly (after the repair of D33, /repo 30a7cbc): it answers `i` iff
`all_edges()` lists the canonical name of the pair — `edge_key(a, b)`: the pair itself when directed, the
ascending pair when undirected — at position `i`, and it panics ("edge not found") iff `(a, b)` is not an
edge; on an undirected graph both orientations of a pair get the same answer. -/
theorem C03_edge_to_index_exact (s : State) (h : Inv s) (a b : Nat) :
    (∀ i, (step s (.edgeToIndex a b)).2 = .nat i ↔
      ∃ w, (allEdges s)[i]? = some ((edgeKey s.directed a b).1, (edgeKey s.directed a b).2, w)) ∧
    ((step s (.edgeToIndex a b)).2 = .panic ↔ (abs s).hasEdge a b = false) ∧
    (s.directed = false → (step s (.edgeToIndex a b)).2 = (step s (.edgeToIndex b a)).2) :=
  ⟨fun i => C03W4.edgeToIndex_iff s h a b i, C03W4.edgeToIndex_panic_iff s a b,
   fun hu => C03W4.edgeToIndex_symm s hu a b⟩

/-- The witness of finding D33, repaired: after `add_edge(1, 2, 7)` on an undirected map, `edges(2)` yields
the edge as `(2, 1, 7)` (id `(2, 1)`), `Build::update_edge(2, 1, _)` returns the id `(2, 1)`, and now
`to_index((2, 1)) = to_index((1, 2)) = 0` (before /repo 30a7cbc `to_index((2, 1))` panicked: the pair was
looked up without `edge_key`); `from_index(0)` is the canonical form `(1, 2)`. -/
theorem C03_D33_witness_repaired :
    let s := (run (State.empty false) [.addEdge 1 2 7]).1
    (step s (.edges 2)).2 = .wtriples [(2, 1, some 7)] ∧ (step s (.buildUpdateEdge 2 1 7)).2 = .pair 2 1 ∧
    (step s (.edgeToIndex 2 1)).2 = .nat 0 ∧ (step s (.edgeToIndex 1 2)).2 = .nat 0 ∧
    (step s (.edgeFromIndex 0)).2 = .pair 1 2 ∧
    (step (step s (.buildUpdateEdge 2 1 7)).1 (.edgeToIndex 2 1)).2 = .nat 0 ∧
    (abs s).hasEdge 2 1 = true := by decide

/-- the edge id `(x, y)` is accepted in state `s`: `EdgeIndexable::to_index((x, y))` answers some `i` (no
panic) and `from_index(i)` is the canonical form `edge_key(x, y)` of the id -/
abbrev Accepted := C03W4.Accepted

example (s : State) (x y : Nat) : Accepted s x y ↔
    ∃ i, (step s (.edgeToIndex x y)).2 = .nat i ∧
      (step s (.edgeFromIndex i)).2 = .pair (edgeKey s.directed x y).1 (edgeKey s.directed x y).2 := Iff.rfl

/-- Every edge id the graph hands out is accepted by `EdgeIndexable::to_index` — the general statement whose
failure was finding D33.  In every reachable state (any history from the empty graph, directed or not):
every id yielded by `edges(a)`, by `edges_directed(a, d)`, by `all_edges()` (= `edge_references()`), and —
in the state after the call — every id returned by `Build::add_edge` and by `Build::update_edge` is accepted
(no panic), and `from_index(to_index(id))` is the canonical form of `id`.  Moreover an id is accepted iff
it names an edge of the abstract graph. -/
theorem C03_edge_ids_handed_out_are_accepted (directed : Bool) (ops : List Op) :
    let s := (run (State.empty directed) ops).1
    (∀ a, ∀ e ∈ edgesOf s a, Accepted s e.1 e.2.1) ∧
    (∀ a d, ∀ e ∈ edgesDirected s a d, Accepted s e.1 e.2.1) ∧
    (∀ e ∈ allEdges s, Accepted s e.1 e.2.1) ∧
    (∀ a b w p, (step s (.buildAddEdge a b w)).2 = .optPair (some p) →
      Accepted (step s (.buildAddEdge a b w)).1 p.1 p.2) ∧
    (∀ a b w x y, (step s (.buildUpdateEdge a b w)).2 = .pair x y →
      Accepted (step s (.buildUpdateEdge a b w)).1 x y) ∧
    (∀ x y, Accepted s x y ↔ (abs s).hasEdge x y = true) := by
  intro s
  have h : Inv s := (C03_all_histories directed ops).1
  exact ⟨fun a e he => C03W4.accepted_edgesOf s h a e he,
    fun a d e he => C03W4.accepted_edgesDirected s h a d e he,
    fun e he => C03W4.accepted_allEdges s h e he,
    fun a b w p ho => C03W4.accepted_buildAddEdge s h a b w p ho,
    fun a b w x y ho => C03W4.accepted_buildUpdateEdge s h a b w x y ho,
    C03W4.accepted_iff_hasEdge s⟩

/-- `Build::add_edge` / `Build::update_edge` answer exactly the pair they were given (`None` for
`add_edge` when the edge exists) — the unordered `OutOk` only asks for a name of that edge. -/
theorem C03_build_edge_id_exact (s : State) (a b w : Nat) :
    (step s (.buildUpdateEdge a b w)).2 = .pair a b ∧
    (step s (.buildAddEdge a b w)).2 = (if (abs s).hasEdge a b then .optPair none else .optPair (some (a, b))) := by
  refine ⟨rfl, ?_⟩
  simp only [step, buildAddEdge, GMProofs.abshas, containsEdge, IMap.contains]
  by_cases hc : (IMap.get? s.edges (edgeKey s.directed a b)).isSome = true <;> simp [hc]

/-! ### goal 2 — the ordered specification machine -/

/-- the ordered graph a concrete state denotes (node order, edge order, incidence sequences) -/
abbrev oabs := C03W4.oabs

/-- Refinement of the ORDERED machine, one call: the mirror model moves exactly as the ordered
specification (insertion order, `swap_remove`) and answers exactly its answer — every iteration order, the
compact numbering, the returned edge ids; forgetting the order gives the unordered abstraction. -/
theorem C03_ordered_refines (s : State) (op : Op) (h : Inv s) :
    oabs (step s op).1 = ospecStep (oabs s) op ∧ (step s op).2 = ospecOut (oabs s) op ∧
    (oabs s).toSG = abs s :=
  ⟨C03W4.ordered_state s op h, C03W4.ordered_out s op h, C03W4.toSG_oabs s⟩

/-- Refinement of the ORDERED machine, all histories: from the empty graph the mirror model and the
ordered specification stay in the same ordered state and give the same answers; the ordered machine in
turn refines the unordered one (its state forgets to `specRun`, its answers satisfy `OutOk`). -/
theorem C03_ordered_all_histories (directed : Bool) (ops : List Op) :
    let r := run (State.empty directed) ops
    oabs r.1 = ospecRun (OSG.empty directed) ops ∧ r.2 = ospecOuts (OSG.empty directed) ops ∧
    (ospecRun (OSG.empty directed) ops).toSG = specRun (SG.empty directed) ops ∧
    OutsOk (SG.empty directed) ops (ospecOuts (OSG.empty directed) ops) := by
  intro r
  have h1 := C03W4.ordered_run (State.empty directed) ops (GMProofs.inv_empty directed)
  have h2 := C03_all_histories directed ops
  simp only at h2
  rw [C03W4.oabs_empty] at h1
  refine ⟨h1.1, h1.2, ?_, ?_⟩
  · rw [← h1.1, C03W4.toSG_oabs]; exact h2.2.1
  · rw [← h1.2]; exact h2.2.2

/-- what the two order primitives of the ordered machine do, in the words of the `IndexMap` / `Vec`
documentation: a new element goes last and an old one keeps its place; `swap_remove` of an absent
element does nothing, of the last element pops it, of an inner element puts the LAST element in its
place — all other positions stay. -/
theorem C03_order_primitives {α : Type} [DecidableEq α] (p : α → Bool) (pre mid : List α) (x z : α)
    (hpre : ∀ y ∈ pre, p y = false) (hx : p x = true) :
    (x ∉ pre → pushNew pre x = pre ++ [x]) ∧ (x ∈ pre → pushNew pre x = pre) ∧
    swapDel p pre = pre ∧ swapDel p (pre ++ [x]) = pre ∧
    swapDel p (pre ++ x :: (mid ++ [z])) = pre ++ z :: mid :=
  ⟨C03W4.pushNew_new pre x, C03W4.pushNew_old pre x, C03W4.swapDel_absent p pre hpre,
   C03W4.swapDel_last p pre x hpre hx, C03W4.swapDel_inner p pre mid x z hpre hx⟩

example : OrderedGraphSpec.swapDel (fun x => x == 2) [1, 2, 3, 4] = [1, 4, 3] ∧
    OrderedGraphSpec.pushNew [1, 2] 3 = [1, 2, 3] ∧ OrderedGraphSpec.pushNew [1, 2] 1 = [1, 2] := by decide

/-- petgraph promises no iteration order; whatever order the ordered machine (hence the mirror model)
produces after any history over node values below `k` is a PERMUTATION of the set the unordered
specification names: `nodes()` of the node set, `neighbors(a)` / `neighbors_directed(a, d)` of the
out- or in-neighbours, `all_edges()` (names made canonical) of the edge set with the right weights. -/
theorem C03_orders_are_permutations (directed : Bool) (k : Nat) (ops : List Op)
    (hops : ∀ op ∈ ops, OpBounded k op) :
    let g := ospecRun (OSG.empty directed) ops
    let sg := specRun (SG.empty directed) ops
    g.ns.Perm ((univ k).filter sg.node) ∧
    (∀ a, (g.neighbors a).Perm ((univ k).filter (hasDir sg a .out))) ∧
    (∀ a d, (g.neighborsDirected a d).Perm ((univ k).filter (hasDir sg a d))) ∧
    (g.triples.map fun e => canon directed (e.1, e.2.1)).Perm (specEdgeKeys sg k) ∧
    (∀ e ∈ g.triples, sg.w e.1 e.2.1 = some e.2.2) := by
  intro g sg
  have h1 := C03W4.ordered_run (State.empty directed) ops (GMProofs.inv_empty directed)
  have h2 := C03_all_histories directed ops
  simp only at h2
  rw [C03W4.oabs_empty] at h1
  obtain ⟨hinv, habs, _⟩ := h2
  have hb : sg.Bounded k := GMJudge.specRun_bounded _ k ops (GMJudge.bounded_empty directed k) hops
  have hwf : sg.WF := by show (specRun (SG.empty directed) ops).WF; rw [← habs]; exact GMProofs.abs_wf _ hinv
  have hdir : sg.directed = directed := by
    show (specRun (SG.empty directed) ops).directed = directed
    have : ∀ (g0 : SG) (l : List Op), (specRun g0 l).directed = g0.directed := by
      intro g0 l; induction l generalizing g0 with
      | nil => rfl
      | cons o t ih => simp only [specRun]; rw [ih, GMProofs.specStep_directed]
    rw [this]; rfl
  obtain ⟨s, hs⟩ : ∃ s, s = (run (State.empty directed) ops).1 := ⟨_, rfl⟩
  rw [← hs] at hinv habs h1
  have hg : g = C03W4.oabs s := h1.1.symm
  have habs : abs s = sg := habs
  refine ⟨?_, ?_, ?_, ?_, ?_⟩
  · have := C03W4.nodesOk_perm sg k hb (nodesOf s) (habs ▸ GMProofs.nodes_ok s hinv)
    rw [hg]; exact this
  · intro a
    have := C03W4.neighborsOk_perm sg k hb a .out (neighbors s a) (habs ▸ GMProofs.neighbors_ok s hinv a)
    rw [hg]; exact this
  · intro a d
    have := C03W4.neighborsOk_perm sg k hb a d (neighborsDirected s a d) (habs ▸ GMProofs.neighborsDirected_ok s hinv a d)
    rw [hg]; exact this
  · have := (C03W4.allEdgesOk_perm sg k hb hwf (allEdges s) (habs ▸ GMProofs.allEdges_ok s hinv)).1
    rw [hdir] at this
    rw [hg]; exact this
  · have := (C03W4.allEdgesOk_perm sg k hb hwf (allEdges s) (habs ▸ GMProofs.allEdges_ok s hinv)).2
    rw [hg]; exact this

/-! ### goal 3 — the dump-level checks -/

/-- the compact numbering IS the iteration order: `from_index(i)` is the `i`-th element of `nodes()`
and `to_index` is its inverse (panicking exactly outside the node set / at `node_count` and beyond); the
same for `EdgeIndexable` against `all_edges()`, an edge id being looked up under its canonical name
`edge_key(a, b)` and refused exactly when it names no edge. -/
theorem C03_numbering_is_iteration_order (s : State) (h : Inv s) :
    (∀ i n, (step s (.fromIndex i)).2 = .nat n ↔ (nodesOf s)[i]? = some n) ∧
    (∀ n i, (step s (.toIndex n)).2 = .nat i ↔ (nodesOf s)[i]? = some n) ∧
    (∀ n, (step s (.toIndex n)).2 = .panic ↔ n ∉ nodesOf s) ∧
    (∀ i, (step s (.fromIndex i)).2 = .panic ↔ nodeCount s ≤ i) ∧
    (∀ i a b, (step s (.edgeFromIndex i)).2 = .pair a b ↔ ∃ w, (allEdges s)[i]? = some (a, b, w)) ∧
    (∀ a b i, (step s (.edgeToIndex a b)).2 = .nat i ↔
      ∃ w, (allEdges s)[i]? = some ((edgeKey s.directed a b).1, (edgeKey s.directed a b).2, w)) ∧
    (∀ a b, (step s (.edgeToIndex a b)).2 = .panic ↔ (abs s).hasEdge a b = false) ∧
    (∀ i, (step s (.edgeFromIndex i)).2 = .panic ↔ edgeCount s ≤ i) :=
  ⟨C03W4.fromIndex_iff s, C03W4.toIndex_iff s h, C03W4.toIndex_panic_iff s, C03W4.fromIndex_panic_iff s,
   C03W4.edgeFromIndex_iff s, C03W4.edgeToIndex_iff s h, C03W4.edgeToIndex_panic_iff s,
   C03W4.edgeFromIndex_panic_iff s⟩

/-- the statement about a whole dump (`DumpOk`: counts, listings, the numbering bijection of nodes and
of edges consistent with the iterators, `rev`/`last`/`nth` agreeing with the forward iteration, the
per-node incidence iterators and rows) -/
abbrev DumpOk := C03Dump.DumpOk

/-- the mirror model's dump satisfies every dump-level statement after every history (no side condition). -/
theorem C03_dump_model_ok (directed : Bool) (k : Nat) (ops : List Op) :
    DumpOk (specRun (SG.empty directed) ops) k (C03Dump.modelDumpS (run (State.empty directed) ops).1 k) := by
  have h := C03_all_histories directed ops
  simp only at h
  rw [← h.2.1]
  exact C03W4.modelDump_ok _ h.1 k

/-- the executable dump check of the driver decides `DumpOk` on every abstract graph reachable over node
values below `k` — and therefore accepts the mirror model's dump. -/
theorem C03_dump_check_decides (directed : Bool) (k : Nat) (ops : List Op) (hops : ∀ op ∈ ops, OpBounded k op)
    (d : C03Dump.Dump) :
    (C03Dump.dumpOkB (specRun (SG.empty directed) ops) k d = true ↔ DumpOk (specRun (SG.empty directed) ops) k d) ∧
    C03Dump.dumpOkB (specRun (SG.empty directed) ops) k
      (C03Dump.modelDumpS (run (State.empty directed) ops).1 k) = true := by
  have h := C03_all_histories directed ops
  simp only at h
  have hb := GMJudge.specRun_bounded _ k ops (GMJudge.bounded_empty directed k) hops
  have hwf : (specRun (SG.empty directed) ops).WF := by rw [← h.2.1]; exact GMProofs.abs_wf _ h.1
  exact ⟨C03W4.dumpOkB_iff _ k hb hwf d, (C03W4.dumpOkB_iff _ k hb hwf _).2 (C03_dump_model_ok directed k ops)⟩

/-! ### run-time checks of the hypotheses

The only hypothesis of a C03 theorem that concerns the concrete case is `OpBounded k` (node values
below the case's `k`; needed by the judge and dump-check theorems).  `Inv` is not a run-time hypothesis:
it holds after every history (`C03_all_histories`).  The driver evaluates `opBoundedB` on every call
(`Driver/C03.lean::advance`) and answers `SPECFAIL generator left the proved range` when it fails. -/

theorem C03_opBounded_check (k : Nat) (op : Op) (h : opBoundedB k op = true) : OpBounded k op :=
  (C03W4.opBoundedB_iff k op).1 h

/-- the driver is always in scope: its mirror state and its abstract graph are the results of ONE history
of calls that passed `opBoundedB`, from the empty graph — initially and after every protocol line,
whatever the line says. -/
theorem C03_driver_in_scope :
    C03W4.InScope {} ∧
    ∀ (d : C03.DState) (req : List String) (impl : String), C03W4.InScope d → C03W4.InScope (C03.step d req impl).1 :=
  ⟨C03W4.inScope_default, C03W4.step_inScope⟩

/-- hence on every line the driver judges: the mirror state satisfies the invariant and denotes the
driver's abstract graph, the judge decides `OutOk`, the dump check decides `DumpOk`, and both accept the
mirror model's own answer (a `SPECFAIL` is never the model's fault). -/
theorem C03_in_scope_facts (d : C03.DState) (h : C03W4.InScope d) :
    Inv d.s ∧ abs d.s = d.g ∧
    (∀ op o, judgeB d.g d.k op o = true ↔ OutOk d.g op o) ∧
    (∀ dd, C03Dump.dumpOkB d.g d.k dd = true ↔ DumpOk d.g d.k dd) ∧
    (∀ op, judgeB d.g d.k op (step d.s op).2 = true) ∧
    C03Dump.dumpOkB d.g d.k (C03Dump.modelDumpS d.s d.k) = true := by
  obtain ⟨hinv, habs, hb, hwf⟩ := C03W4.inScope_facts d h
  refine ⟨hinv, habs, GMJudge.judgeB_iff _ _ hb hwf, C03W4.dumpOkB_iff _ _ hb hwf, ?_, ?_⟩
  · intro op
    rw [GMJudge.judgeB_iff _ _ hb hwf, ← habs]
    exact GMProofs.out_ok d.s op hinv
  · rw [← habs] at hb ⊢
    exact C03W4.dumpOkB_model d.s hinv d.k hb

/-! non-vacuity: concrete histories satisfy the hypotheses and exercise the interesting paths
(reciprocal directed edges, a self-loop, `swap_remove` in both maps, remove-then-re-add) -/
example :
    (run (State.empty true) [.addEdge 1 2 7, .addEdge 2 1 8, .addEdge 1 1 9, .addEdge 0 1 3,
      .removeNode 0, .removeEdge 1 2, .addEdge 1 2 5, .neighborsDirected 1 .inc, .edgesDirected 1 .inc]).2 =
    [.optNat none, .optNat none, .optNat none, .optNat none, .bool true, .optNat (some 7), .optNat none,
     .natList [1, 2], .wtriples [(1, 1, some 9), (2, 1, some 8)]] := by decide
example :
    (run (State.empty false) [.addEdge 2 1 7, .addEdge 1 2 8, .addEdge 1 1 9, .edges 2, .edgesDirected 2 .inc,
      .allEdges, .removeNode 1, .nodes, .edgeCount]).2 =
    [.optNat none, .optNat (some 7), .optNat none, .wtriples [(2, 1, some 8)], .wtriples [(1, 2, some 8)],
     .triples [(1, 2, 8), (1, 1, 9)], .bool true, .natList [2], .nat 0] := by decide

example : OpBounded 3 (.addEdge 1 2 7) ∧ OpBounded 3 (.fromGraph [0, 2, 2] [(0, 1, 5)]) := by
  refine ⟨⟨by decide, by decide⟩, ?_⟩
  intro n hn; simp at hn; omega
example : judgeB (specRun (SG.empty false) [.addEdge 2 1 7, .addEdge 1 1 9]) 3 (.neighbors 1) (.natList [1, 2]) = true ∧
    judgeB (specRun (SG.empty false) [.addEdge 2 1 7, .addEdge 1 1 9]) 3 (.neighbors 1) (.natList [2]) = false ∧
    judgeB (specRun (SG.empty false) [.addEdge 2 1 7, .addEdge 1 1 9]) 3 .allEdges (.triples [(2, 1, 7), (1, 1, 9)]) = true := by
  decide

/-! non-vacuity of the wave-4 statements -/
-- a bounded history (hypothesis of `C03_orders_are_permutations` / `C03_dump_check_decides`)
example : ∀ op ∈ [Op.addEdge 1 2 7, .removeNode 1, .extend [(0, 2, 1)]], OpBounded 3 op := by
  intro op hop
  simp only [List.mem_cons, List.not_mem_nil, or_false] at hop
  rcases hop with rfl | rfl | rfl
  · exact ⟨by decide, by decide⟩
  · trivial
  · intro e he; simp at he; subst he; exact ⟨by decide, by decide⟩
-- a driver state that is in scope (hypothesis of `C03_in_scope_facts`) after real protocol lines
example : C03W4.InScope
    (C03.step (C03.step (C03.step {} ["case", "1", "undir", "k=3"] "").1 ["add_edge", "2", "1", "7"] "none").1
      ["remove_node", "1"] "true").1 :=
  C03_driver_in_scope.2 _ _ _ (C03_driver_in_scope.2 _ _ _ (C03_driver_in_scope.2 _ _ _ C03_driver_in_scope.1))
example : opBoundedB 3 (.addEdge 1 2 7) = true ∧ opBoundedB 3 (.addEdge 1 3 7) = false := by decide
-- the ordered machine on a history with reciprocal edges, a self-loop, swap_remove in all three orders
example :
    OrderedGraphSpec.ospecOuts (OrderedGraphSpec.OSG.empty false)
      [.addEdge 2 1 7, .addEdge 1 1 9, .addEdge 0 2 1, .addEdge 0 1 4, .allEdges, .neighbors 1, .removeNode 1,
       .allEdges, .nodes, .neighbors 2, .edgeToIndex 2 0, .edgeToIndex 0 2, .buildUpdateEdge 2 0 5] =
    [.optNat none, .optNat none, .optNat none, .optNat none,
     .triples [(1, 2, 7), (1, 1, 9), (0, 2, 1), (0, 1, 4)], .natList [2, 1, 0], .bool true,
     .triples [(0, 2, 1)], .natList [2, 0], .natList [0], .nat 0, .nat 0, .pair 2 0] := by decide
-- a dump the check accepts / rejects (numbering not the inverse of from_index)
example :
    C03Dump.dumpOkB (specRun (SG.empty true) [.addEdge 0 1 5]) 2
      (C03Dump.modelDumpS (run (State.empty true) [.addEdge 0 1 5]).1 2) = true ∧
    C03Dump.dumpOkB (specRun (SG.empty true) [.addEdge 0 1 5]) 2
      { C03Dump.modelDumpS (run (State.empty true) [.addEdge 0 1 5]).1 2 with ni := [some 1, some 0] } = false := by
  decide

/-! ## wave 6 — the corners of the public surface

The harness now addresses everything public in graphmap.rs / the `GraphMap` impls of data.rs (docs/C03_api.md).
What has state-dependent semantics of its own got a model reading (`from_elements` on arbitrary element
sequences, below); everything else is a LAW that equates the entry point with calls the theorems above cover
(`law …` protocol lines: the driver accepts `ok` only and never moves its machines for them). -/

open PetgraphModel.C03 (Elem fromElemsGo fromElemsOps elemNodes) in
/-- `FromElements for GraphMap` (`data.rs::from_elements_indexable`: `add_node` per node element; per edge element two
`from_index` look-ups — an `assert!`, i.e. a panic, for a position that does not exist at that moment — and
`Build::add_edge`), transcribed on the mirror model (`C03W6.fromElemsModel`), is exactly the call list the driver
derives from the element list alone: panic for panic, final state for final state, for EVERY element list and
from every state (the call starts from a fresh graph).  No side condition. -/
theorem C03_from_elems_is_the_indexable_loop (s : State) (el : List Elem) :
    (fromElemsOps el).map (fun ops => (run s ops).1) = C03W6.fromElemsModel (State.empty s.directed) el :=
  C03W6.fromElemsOps_model s el

open PetgraphModel.C03 (Elem fromElemsGo fromElemsOps elemNodes) in
/-- the documentation of `Element` ("nodes are implicitly given the index of their appearance in the sequence"; what
the default `FromElements::from_elements` does with its `map` vector — `C03W6.fromElemsDoc`) and the indexable loop
make the same calls when the node weights are distinct. -/
theorem C03_from_elems_documented_positions (el : List Elem) (h : (elemNodes el).Nodup) :
    fromElemsGo [] el = C03W6.fromElemsDoc [] el :=
  C03W6.fromElemsGo_doc el h

open PetgraphModel.C03 (Elem fromElemsGo fromElemsOps elemNodes) in
/-- … and the hypothesis cannot be dropped: with a repeated node weight the positions shift (the repeated node is
not inserted again), and the edge element `1 → 2` of `[5, 5, 7, 9]` joins `7 → 9` in the indexable loop but
`5 → 7` in the documented reading (observed on /repo: `DiGraphMap::from_elements` gives `[(7, 9, 1)]`,
`DiGraph::from_elements` the edge `5 → 7`).  Hence the driver's side condition below. -/
theorem C03_from_elems_duplicates_false_witness :
    ¬ (∀ el : List Elem, fromElemsGo [] el = C03W6.fromElemsDoc [] el) := by
  intro h
  have h1 := C03W6.doc_differs_witness
  rw [h] at h1
  exact absurd (h1.1.symm.trans h1.2) (by decide)

open PetgraphModel.C03 (Elem fromElemsGo fromElemsOps elemNodes) in
/-- the nodes-first form of waves 1–5 (`from_elements <weights> <edges>`) is the special case: same call list. -/
theorem C03_from_elems_nodes_first (ws : List Nat) (es : List (Nat × Nat × Nat)) (hn : ws.Nodup)
    (h : ∀ e ∈ es, e.1 < ws.length ∧ e.2.1 < ws.length) :
    fromElemsOps (ws.map Elem.node ++ es.map fun e => Elem.edge e.1 e.2.1 e.2.2) = some (C03.fromElementsOps ws es) :=
  C03W6.fromElemsOps_nodes_first ws es hn h

/-! ### run-time checks of the hypotheses (wave 6) -/

open PetgraphModel.C03 (Elem fromElemsGo fromElemsOps elemNodes) in
/-- the Boolean the driver evaluates on every `from_elems` line (a failure: `SPECFAIL generator left the proved
range`) decides the hypothesis of `C03_from_elems_documented_positions` -/
theorem C03_from_elems_nodup_check (el : List Elem) (h : nodupB (elemNodes el) = true) : (elemNodes el).Nodup :=
  (GMJudge.nodupB_iff _).1 h

/-- a `law` line never moves the driver's machines; `ok` is the only answer that is not a `SPECFAIL`; an
`instances` line (the same history under other node / weight types) is compared with `same`. -/
theorem C03_law_lines (d : C03.DState) (r : List String) (impl : String) :
    (C03.step d ("law" :: r) impl).1 = d ∧
    (impl = "ok" → (C03.step d ("law" :: r) impl).2 = "ok") ∧
    (impl ≠ "ok" → ∃ why, (C03.step d ("law" :: r) impl).2 = C03.verdict (some why) "ok" impl) ∧
    C03.step d ["instances"] impl = (d, cmpExact "same" impl) :=
  ⟨(C03W6.law_line d r impl).1, (C03W6.law_line d r impl).2.1, (C03W6.law_line d r impl).2.2,
   C03W6.instances_line d impl⟩

/-! non-vacuity of the wave-6 statements -/
-- an interleaved element sequence with distinct weights: the calls, and a dangling position = panic
example :
    C03.fromElemsOps [.node 3, .edge 0 0 13, .node 6, .edge 1 0 50, .node 0] =
      some [.clear, .addNode 3, .buildAddEdge 3 3 13, .addNode 6, .buildAddEdge 6 3 50, .addNode 0] ∧
    C03.fromElemsOps [.node 3, .edge 0 1 13, .node 6] = none ∧
    (C03.elemNodes [.node 3, .edge 0 0 13, .node 6, .edge 1 0 50, .node 0]).Nodup := by decide
-- … run on the mirror model, from a non-empty state
example :
    (C03W6.fromElemsModel (State.empty true) [.node 3, .edge 0 0 13, .node 6, .edge 1 0 50, .node 0]).map allEdges
      = some [(3, 3, 13), (6, 3, 50)] := by decide
example : nodupB (C03.elemNodes [.node 5, .node 5, .node 7]) = false ∧
    nodupB (C03.elemNodes [.node 5, .edge 0 0 1, .node 7]) = true := by decide
-- the driver on real protocol lines: `ok` is accepted, anything else is a SPECFAIL verdict; a `from_elems`
-- line keeps the driver in scope
example : (C03.step {} ["law", "iter", "s=1"] "ok").2 = "ok" := (C03_law_lines {} _ "ok").2.1 rfl
example : ∃ why, (C03.step {} ["law", "iter", "s=1"] "VIOLATED nodes(): nth_back(1)").2 =
    C03.verdict (some why) "ok" "VIOLATED nodes(): nth_back(1)" :=
  (C03_law_lines {} _ _).2.2.1 (by decide)
example : C03W4.InScope
    (C03.step (C03.step {} ["case", "1", "dir", "k=7"] "").1 ["from_elems", "n3,e0:0:13,n6,e1:0:50"] "ok").1 :=
  C03_driver_in_scope.2 _ _ _ (C03_driver_in_scope.2 _ _ _ C03_driver_in_scope.1)

end PetgraphModel.C03T
