import PetgraphModel.Model.GraphMap
import PetgraphModel.Spec.SimpleGraph
import PetgraphModel.Proofs.GraphMap
import PetgraphModel.Spec.SimpleGraphJudge
import PetgraphModel.Proofs.GraphMapJudge
/-
C03 — `GraphMap` is a simple graph keyed by node value under every history.

Only property theorems live here; definitions and helper lemmas are in `Proofs/GraphMap.lean`.
Every theorem is about the mirror model `GM` (tied to `/repo/src/graphmap.rs` + the `Build` impl in
`/repo/src/data.rs` by the exact correspondence run of `./check C03`, three hashers) and the abstract
simple graph `SimpleGraphSpec.SG`.

"Any `BuildHasher`": no model function has a hasher parameter — the order of an `IndexMap` is its
insertion/swap-remove history.  The implementation side of that clause is the harness, which executes
every history under `RandomState`, `fxhash` and `ahash` and requires identical observations.
-/
namespace PetgraphModel.C03T
open PetgraphModel PetgraphModel.GM PetgraphModel.SimpleGraphSpec

/-- representation invariant: duplicate-free keys of both maps, canonical edge keys, edges join present
nodes, and the adjacency vectors mirror the edge map (`GMProofs.Good`) -/
abbrev Inv := GMProofs.Inv
/-- the abstract simple graph a concrete state denotes -/
abbrev abs := GMProofs.abs
/-- answers of a history judged call by call against the running abstract graph -/
abbrev OutsOk := GMProofs.OutsOk

/-- `new`/`default`/`with_capacity`/`with_capacity_and_hasher` establish the invariant and denote the
empty graph. -/
theorem C03_inv_init (directed : Bool) :
    Inv (State.empty directed) ∧ abs (State.empty directed) = SG.empty directed :=
  ⟨GMProofs.inv_empty directed, GMProofs.abs_empty directed⟩

/-- every public call (mutating or not, with arbitrary arguments) preserves the invariant. -/
theorem C03_inv_step (s : State) (op : Op) (h : Inv s) : Inv (step s op).1 :=
  (GMProofs.step_spec s op h).1

/-- what the invariant says, spelled out: the adjacency vectors mirror the edge map. Directed: no
duplicate entries, `(b, Outgoing)` is listed at `a` iff `a → b` is an edge, `(b, Incoming)` iff `b → a`
is an edge and `a ≠ b` (self-loops have no `Incoming` entry). Undirected: each neighbour is listed once,
`b` at `a` iff `{a, b}` is an edge. Keys are canonical and edges join present nodes. -/
theorem C03_adjacency_mirrors_edges (s : State) (h : Inv s) (a : Nat) :
    (s.directed = true →
      (adjOf s a).Nodup ∧
      (∀ b, (b, Dir.out) ∈ adjOf s a ↔ (IMap.get? s.edges (a, b)).isSome = true) ∧
      (∀ b, (b, Dir.inc) ∈ adjOf s a ↔ a ≠ b ∧ (IMap.get? s.edges (b, a)).isSome = true)) ∧
    (s.directed = false →
      ((adjOf s a).map (·.1)).Nodup ∧
      ∀ b, b ∈ (adjOf s a).map (·.1) ↔ (IMap.get? s.edges (edgeKey false a b)).isSome = true) ∧
    (∀ b, (IMap.get? s.edges (a, b)).isSome = true →
      (s.directed = true ∨ a ≤ b) ∧ containsNode s a = true ∧ containsNode s b = true) :=
  ⟨fun hd => h.good.adjD hd a, fun hd => h.good.adjU hd a,
   fun b hb => ⟨h.good.canon a b hb, h.good.ends a b hb⟩⟩

/-- Refinement, one call: the abstract graph moves by the spec machine's transition and the answer is
the one the property prescribes in the abstract graph (`OutOk`: previous weight for `add_edge`,
presence for `remove_node`, lists as duplicate-free enumerations of the named set, the queried node as
source resp. target for `Incoming`, a self-loop once, …). -/
theorem C03_refines (s : State) (op : Op) (h : Inv s) :
    abs (step s op).1 = specStep (abs s) op ∧ OutOk (abs s) op (step s op).2 :=
  ⟨(GMProofs.step_spec s op h).2, GMProofs.out_ok s op h⟩

/-- Refinement, all histories: after any call sequence on a fresh map the invariant holds, the state
denotes the abstract graph the spec machine reaches, and every answer along the way was the prescribed one. -/
theorem C03_all_histories (directed : Bool) (ops : List Op) :
    let r := run (State.empty directed) ops
    Inv r.1 ∧ abs r.1 = specRun (SG.empty directed) ops ∧ OutsOk (SG.empty directed) ops r.2 := by
  have := GMProofs.run_spec (State.empty directed) ops (GMProofs.inv_empty directed)
  rw [GMProofs.abs_empty] at this
  exact this

/-- the abstract graph of every reachable state is well-formed: edges join nodes, and an undirected
graph is symmetric (an undirected edge is the same edge seen from both ends). -/
theorem C03_spec_wf (s : State) (h : Inv s) : (abs s).WF := GMProofs.abs_wf s h

/-- `add_edge` returns the previous weight, inserts missing endpoints, and afterwards the edge carries
the new weight (seen from both ends when undirected); no other pair changes. -/
theorem C03_add_edge (s : State) (a b w : Nat) (h : Inv s) :
    let r := addEdge s a b w
    r.2 = (abs s).w a b ∧ (abs r.1).node a = true ∧ (abs r.1).node b = true ∧ (abs r.1).w a b = some w ∧
    (s.directed = false → (abs r.1).w b a = some w) ∧
    (∀ x y, ¬ (samePair s.directed a b x y = true) → (abs r.1).w x y = (abs s).w x y) ∧
    (∀ x, x ≠ a → x ≠ b → (abs r.1).node x = (abs s).node x) := by
  intro r
  have hr : abs r.1 = (abs s).addEdge a b w := GMProofs.addEdge_abs s a b w h
  refine ⟨GMProofs.addEdge_out s a b w, ?_, ?_, ?_, ?_, ?_, ?_⟩ <;> rw [hr] <;> simp only [SG.addEdge]
  · simp
  · simp
  · simp [samePair]
  · intro hd; simp [samePair, GMProofs.abs, hd]
  · intro x y hxy
    have : samePair (abs s).directed a b x y = false := by
      cases hh : samePair (abs s).directed a b x y
      · rfl
      · exact absurd hh hxy
    simp [this]
  · intro x hxa hxb; simp [hxa, hxb]

/-- `remove_node` answers whether the node was there and removes exactly the node and its incident
edges: every pair not touching `n` keeps its edge and weight. -/
theorem C03_remove_node (s : State) (n : Nat) (h : Inv s) :
    let r := removeNode s n
    r.2 = (abs s).node n ∧ (abs r.1).node n = false ∧
    (∀ x, x ≠ n → (abs r.1).node x = (abs s).node x) ∧
    (∀ x y, (abs r.1).w x y = if x = n ∨ y = n then none else (abs s).w x y) := by
  intro r
  obtain ⟨_, h2, h3⟩ := GMProofs.removeNode_spec s n h
  have h3' : abs r.1 = (abs s).removeNode n := h3
  refine ⟨h2, ?_, ?_, ?_⟩ <;> rw [h3'] <;> simp only [SG.removeNode]
  · simp
  · intro x hx; simp [hx]
  · intro x y; by_cases hx : x = n <;> by_cases hy : y = n <;> simp [hx, hy]

/-- `remove_edge` returns the weight if the edge existed (its `debug_assert!` cannot fire) and removes
exactly that edge. -/
theorem C03_remove_edge (s : State) (a b : Nat) (h : Inv s) :
    let r := removeEdge s a b
    r.2 = some ((abs s).w a b) ∧ abs r.1 = (abs s).removeEdge a b :=
  (GMProofs.removeEdge_spec s a b h).2

/-- an undirected edge is visible symmetrically: `b` is listed among the neighbours of `a` iff `a` is
among those of `b`, and `edges_directed(a, Incoming)` lists it as `(b, a, w)` iff `edges(a)` lists it as
`(a, b, w)`. -/
theorem C03_undirected_symmetric (s : State) (h : Inv s) (hu : s.directed = false) (a b : Nat) :
    (b ∈ neighbors s a ↔ a ∈ neighbors s b) ∧
    (∀ w, (b, a, some w) ∈ edgesDirected s a .inc ↔ (a, b, some w) ∈ edgesOf s a) := by
  have hsym := (GMProofs.abs_wf s h).symm hu
  constructor
  · rw [(GMProofs.neighbors_ok s h a).2, (GMProofs.neighbors_ok s h b).2]
    simp only [SG.hasEdge, hsym a b]
  · intro w
    rw [GMProofs.edgesOf_eq s h, GMProofs.edgesDirected_eq s h, GMProofs.edgesDirected_eq s h]
    have h1 := (GMProofs.edgeTriples_ok s h a .inc).2 b a w
    have h2 := (GMProofs.edgeTriples_ok s h a .out).2 a b w
    simp only [true_and] at h1 h2
    have m : ∀ (t : List (Nat × Nat × Nat)) x y, (x, y, some w) ∈ someWeights t ↔ (x, y, w) ∈ t := by
      intro t x y; unfold someWeights; simp only [List.mem_map]
      constructor
      · rintro ⟨⟨p, q, r⟩, hm, he⟩; simp at he; obtain ⟨rfl, rfl, rfl⟩ := he; exact hm
      · intro hm; exact ⟨(x, y, w), hm, rfl⟩
    rw [m, m, h1, h2, hsym b a]

/-- a self-loop (and every other neighbour) is reported once by each iterator. -/
theorem C03_reported_once (s : State) (h : Inv s) (a : Nat) (d : Dir) :
    (neighbors s a).Nodup ∧ (neighborsDirected s a d).Nodup ∧ (nodesOf s).Nodup ∧ (allEdges s).Nodup :=
  ⟨(GMProofs.neighbors_ok s h a).1, (GMProofs.neighborsDirected_ok s h a d).1, (GMProofs.nodes_ok s h).1,
   (GMProofs.allEdges_ok s h).1⟩

/-- `into_graph` followed by `from_graph` succeeds and describes the same abstract graph (and the
result satisfies the invariant again). -/
theorem C03_into_from_graph (s : State) (h : Inv s) :
    ∃ s', roundTrip s = some s' ∧ Inv s' ∧ abs s' = abs s :=
  GMProofs.roundTrip_spec s h

/-- the compact numbering is the list position, in both directions: `to_index` and `from_index` are
inverse to each other on nodes and on edge ids. -/
theorem C03_index_roundtrip (s : State) (h : Inv s) :
    (∀ n i, (step s (.toIndex n)).2 = .nat i ↔ (step s (.fromIndex i)).2 = .nat n) ∧
    (∀ a b i, (step s (.edgeToIndex a b)).2 = .nat i ↔ (step s (.edgeFromIndex i)).2 = .pair a b) := by
  constructor
  · intro n i
    have := GMProofs.indexOf?_eq_some_iff s.nodes h.nodesNodup n i
    simp only [step]
    cases h1 : IMap.indexOf? s.nodes n <;> cases h2 : s.nodes[i]? <;> simp_all
  · intro a b i
    have := GMProofs.indexOf?_eq_some_iff s.edges h.edgesNodup (a, b) i
    simp only [step]
    cases h1 : IMap.indexOf? s.edges (a, b) <;> cases h2 : s.edges[i]? <;> simp_all
    all_goals grind

/-- under the invariant the internal "cannot happen" sites are not reached: `remove_edge` does not trip
its `debug_assert!`, the `edges`/`edges_directed` iterators never reach `unreachable!()`, `into_graph`'s
`unwrap()`s succeed, and the `into_graph`/`from_graph` round trip does not panic. -/
theorem C03_no_internal_panic (s : State) (h : Inv s) (a b : Nat) (d : Dir) :
    (step s (.removeEdge a b)).2 ≠ .panic ∧
    (∀ e ∈ edgesOf s a, e.2.2.isSome = true) ∧ (∀ e ∈ edgesDirected s a d, e.2.2.isSome = true) ∧
    (∀ e ∈ (intoGraph s).2, e.1.isSome = true ∧ e.2.1.isSome = true) ∧
    (step s .roundTrip).2 = .unit := by
  refine ⟨?_, ?_, ?_, ?_, ?_⟩
  · have := GMProofs.out_ok s (.removeEdge a b) h
    simp only [OutOk] at this; rw [this]; simp
  · rw [GMProofs.edgesOf_eq s h, GMProofs.edgesDirected_eq s h]
    intro e he; unfold someWeights at he
    obtain ⟨t, _, rfl⟩ := List.mem_map.1 he; rfl
  · rw [GMProofs.edgesDirected_eq s h]
    intro e he; unfold someWeights at he
    obtain ⟨t, _, rfl⟩ := List.mem_map.1 he; rfl
  · obtain ⟨ws, es, heq, _⟩ := GMProofs.intoGraph_ok s h
    simp only [Out.graph.injEq] at heq
    rw [heq.2]
    intro e he
    obtain ⟨t, _, rfl⟩ := List.mem_map.1 he
    exact ⟨rfl, rfl⟩
  · have := GMProofs.out_ok s .roundTrip h
    simpa only [OutOk] using this

/-- every node value a call mentions is below `k` (the harness draws node values from `0..k`) -/
abbrev OpBounded := GMJudge.OpBounded

/-- The per-run judge is exact: on the abstract graph reached by any history over node values below
`k`, the executable `judgeB` (what `./check` applies to every answer of the implementation) accepts an
answer if and only if it is the one the property prescribes (`OutOk`) — sound (an accepted answer
satisfies the property) and complete (no false alarm). -/
theorem C03_judge_decides (directed : Bool) (k : Nat) (ops : List Op) (hops : ∀ op ∈ ops, OpBounded k op)
    (op : Op) (o : Out) :
    judgeB (specRun (SG.empty directed) ops) k op o = true ↔ OutOk (specRun (SG.empty directed) ops) op o := by
  have h := C03_all_histories directed ops
  simp only at h
  have hwf : (specRun (SG.empty directed) ops).WF := by rw [← h.2.1]; exact GMProofs.abs_wf _ h.1
  exact GMJudge.judgeB_iff _ k (GMJudge.specRun_bounded _ k ops (GMJudge.bounded_empty directed k) hops) hwf op o

/-- consequently the judge accepts every answer of the mirror model, after every such history. -/
theorem C03_judge_accepts_model (directed : Bool) (k : Nat) (ops : List Op) (hops : ∀ op ∈ ops, OpBounded k op)
    (op : Op) :
    judgeB (specRun (SG.empty directed) ops) k op (step (run (State.empty directed) ops).1 op).2 = true := by
  rw [C03_judge_decides directed k ops hops]
  have h := C03_all_histories directed ops
  simp only at h
  rw [← h.2.1]
  exact (C03_refines _ op h.1).2

/-! non-vacuity: concrete histories satisfy the hypotheses and exercise the interesting paths
(reciprocal directed edges, a self-loop, `swap_remove` in both maps, remove-then-re-add) -/
example :
    (run (State.empty true) [.addEdge 1 2 7, .addEdge 2 1 8, .addEdge 1 1 9, .addEdge 0 1 3,
      .removeNode 0, .removeEdge 1 2, .addEdge 1 2 5, .neighborsDirected 1 .inc, .edgesDirected 1 .inc]).2 =
    [.optNat none, .optNat none, .optNat none, .optNat none, .bool true, .optNat (some 7), .optNat none,
     .natList [1, 2], .wtriples [(1, 1, some 9), (2, 1, some 8)]] := by decide
example :
    (run (State.empty false) [.addEdge 2 1 7, .addEdge 1 2 8, .addEdge 1 1 9, .edges 2, .edgesDirected 2 .inc,
      .allEdges, .removeNode 1, .nodes, .edgeCount]).2 =
    [.optNat none, .optNat (some 7), .optNat none, .wtriples [(2, 1, some 8)], .wtriples [(1, 2, some 8)],
     .triples [(1, 2, 8), (1, 1, 9)], .bool true, .natList [2], .nat 0] := by decide

example : OpBounded 3 (.addEdge 1 2 7) ∧ OpBounded 3 (.fromGraph [0, 2, 2] [(0, 1, 5)]) := by
  refine ⟨⟨by decide, by decide⟩, ?_⟩
  intro n hn; simp at hn; omega
example : judgeB (specRun (SG.empty false) [.addEdge 2 1 7, .addEdge 1 1 9]) 3 (.neighbors 1) (.natList [1, 2]) = true ∧
    judgeB (specRun (SG.empty false) [.addEdge 2 1 7, .addEdge 1 1 9]) 3 (.neighbors 1) (.natList [2]) = false ∧
    judgeB (specRun (SG.empty false) [.addEdge 2 1 7, .addEdge 1 1 9]) 3 .allEdges (.triples [(2, 1, 7), (1, 1, 9)]) = true := by
  decide

end PetgraphModel.C03T
