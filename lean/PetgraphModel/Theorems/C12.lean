import PetgraphModel.Driver.C12
import PetgraphModel.Proofs.C12Forest
import PetgraphModel.Proofs.C12Driver
import PetgraphModel.Proofs.C12Count
import PetgraphModel.Proofs.C12Min
import PetgraphModel.Proofs.C12Kruskal
import PetgraphModel.Proofs.C12Heap
import PetgraphModel.Proofs.C12Prim
import PetgraphModel.Proofs.C12W2Complete
import PetgraphModel.Proofs.C12W4FromElements
import PetgraphModel.Proofs.C12W4PrimDirected
import PetgraphModel.Proofs.C12W4Heap
import PetgraphModel.Proofs.C12W6Order
/-
C12 — `min_spanning_tree` yields a minimum spanning forest; `min_spanning_tree_prim` a minimum
spanning tree of the first node's component.

Only property theorems live here.  Definitions of the specification (`Conn`, `Acyclic`, `Spanning`,
`SpanningForest`, `IsRepSystem`, `weight`) are in `Spec/C12Forest.lean`; the executable judge the
driver runs on every answer of the real crate is `C12.judgeStream` (`Driver/C12.lean`, built from
`Oracle/C12Forest.lean` on the proved reachability oracle); lemmas are in `Proofs/C12*.lean`.

Part 1 — verified checker: whatever stream the judge accepts satisfies every clause of the property
statement (for ALL graphs and ALL streams; the brute-force bound limits only where the minimality
clause is *decided by enumeration*, and the theorem says exactly that).
-/
namespace PetgraphModel.C12T
open PetgraphModel PetgraphModel.MST PetgraphModel.MstModel PetgraphModel.C12

/-- **Judge soundness, Kruskal.**  If the judge accepts the stream (node weights `ns`, edge elements
`es` with positions into `ns`) for the graph `g`, then: the node elements are the graph's nodes in
order; the edge elements denote (same endpoints in either orientation, same weight) pairwise distinct
edges `M` of `g` (`M` plus the unused edges `R` is a rearrangement of `g.edges`); `M` has no cycle;
`M` connects whatever `g` connects, direction ignored; `|M| = |V| − c` for a system of `c`
representatives of the connected components; the cycle property holds; and if `g` has at most
`bruteBound` edges, no spanning forest of `g` weighs less than `M`. -/
theorem C12_judge_kruskal_sound (g : MGraph) (ns : List Nat) (es : List EdgeEl) (feN feE : String)
    (h : judgeStream g false ns es feN feE = none) :
    ns = g.nodes ∧ ∃ S, absEdges ns es = some S ∧ S.length = es.length ∧
      ∃ M R, Accepted g.nodes g.edges bruteBound S M R ∧ M.length = es.length := by
  unfold judgeStream judgeStreamK at h
  split at h
  · cases h
  · rename_i hns
    refine ⟨by simpa using hns, ?_⟩
    split at h
    · cases h
    · rename_i S hS
      split at h
      · cases h
      · simp only [Bool.false_eq_true, if_false] at h
        obtain ⟨M, R, acc⟩ := judgeForest_sound h
        have hlen : S.length = es.length := absEdges_length hS
        exact ⟨S, hS, hlen, M, R, acc, by rw [← acc.denotes.length_eq, hlen]⟩

/-- **Accepted ⇒ minimum, for graphs of EVERY size**: the accepted `M` is a minimum spanning forest
of `g` in the sense of `Spec/C12Forest.lean` — no sub-multiset of `g`'s edges that is acyclic and
spanning weighs less.  (The judge checks the cycle property for every size; `C12_cycle_property_min`
shows that it certifies minimality.  The brute-force comparison on graphs with at most `bruteBound`
edges is an independent, definitional second opinion.) -/
theorem C12_judge_kruskal_minimum (g : MGraph) (ns : List Nat) (es : List EdgeEl) (feN feE : String)
    (h : judgeStream g false ns es feN feE = none) :
    ∃ S M, absEdges ns es = some S ∧ DenotesAll S M ∧ MinSpanningForest g.edges M := by
  obtain ⟨_, S, hS, _, M, R, acc, _⟩ := C12_judge_kruskal_sound g ns es feN feE h
  exact ⟨S, M, hS, acc.denotes, acc.spanningForest,
    cycleProperty_minimal acc.perm acc.acyclic acc.spanning acc.cycleProp⟩

/-- **Judge soundness, Prim** (undirected graphs, the documented domain): all nodes in order, and the
edge elements denote a spanning tree `M` of the first node's component `comp` — acyclic, reaching
everything the first node reaches, `|comp| − 1` edges — that is a minimum spanning forest of the
component's edges (cycle property; brute-force minimality under the bound). -/
theorem C12_judge_prim_sound (g : MGraph) (hd : g.directed = false) (ns : List Nat) (es : List EdgeEl)
    (feN feE : String) (h : judgeStream g true ns es feN feE = none) :
    ns = g.nodes ∧ ∃ S, absEdges ns es = some S ∧ PrimAccepted g.nodes g.edges bruteBound S := by
  unfold judgeStream judgeStreamK at h
  split at h
  · cases h
  · rename_i hns
    refine ⟨by simpa using hns, ?_⟩
    split at h
    · cases h
    · rename_i S hS
      split at h
      · cases h
      · simp only [if_true, hd, Bool.false_eq_true, if_false] at h
        exact ⟨S, hS, judgePrimEdges_sound h⟩

/-- `Conn` of the specification is `Reach` of the shared graph foundation with directions ignored. -/
theorem C12_conn_is_undirected_reach (g : MGraph) (a b : Nat) :
    Conn g.edges a b ↔ MGraph.Reach g.undirect a b :=
  conn_iff_reach_undirect g a b

/-- **Brute-force enumerator: sound and complete** — `subs` lists exactly the sublists. -/
theorem C12_subs_complete {α : Type} (l L : List α) : L ∈ subs l ↔ L.Sublist l :=
  ⟨sublist_of_mem_subs, mem_subs⟩

/-- the brute-force minimum is a lower bound for the weight of EVERY spanning forest (sub-multiset of
the edges, acyclic, spanning) — no candidate is lost by the `may` filters or the oracle's fuel -/
theorem C12_bruteMin_lower_bound (E : List Edge) (m : Int) (hm : bruteMin E = some m) (F' : List Edge)
    (hF : SpanningForest E F') : m ≤ weight F' :=
  bruteMin_le hm hF

/-- acyclicity (every edge a bridge) does not depend on the order in which the edges are listed -/
theorem C12_acyclic_perm (F F' : List Edge) (hp : F.Perm F') : Acyclic F ↔ Acyclic F' :=
  ⟨Acyclic.perm hp, Acyclic.perm hp.symm⟩

/-- the sequential test the judge uses ("no inserted edge joins two already connected nodes") decides
acyclicity: sound on definite oracle answers … -/
theorem C12_forestMust_sound (F : List Edge) (h : forestMust [] F = true) : Acyclic F :=
  forestMust_acyclic h

/-- … and never rejects a genuine forest. -/
theorem C12_forestMay_complete (F : List Edge) (h : Acyclic F) : forestMay [] F = true :=
  forestMay_complete F [] (by simpa using h)

/-- Prim, accepted ⇒ minimum for every size: the tree is a minimum spanning forest of the edges inside
the first node's component. -/
theorem C12_judge_prim_minimum (g : MGraph) (hd : g.directed = false) (ns : List Nat) (es : List EdgeEl)
    (feN feE : String) (h : judgeStream g true ns es feN feE = none) (s : Nat) (rest : List Nat)
    (hV : g.nodes = s :: rest) :
    ∃ S M comp, absEdges ns es = some S ∧ DenotesAll S M ∧ (∀ x, x ∈ comp ↔ Conn g.edges s x) ∧
      MinSpanningForest (edgesWithin comp g.edges) M ∧ (∀ x, Conn g.edges s x → Conn M s x) ∧
      M.length + 1 = comp.length := by
  obtain ⟨_, S, hS, hp⟩ := C12_judge_prim_sound g hd ns es feN feE h
  cases hp with
  | empty h1 _ => rw [hV] at h1; cases h1
  | tree s' rest' comp M R hV' hnd hcomp acc hreach hcnt =>
    rw [hV] at hV'
    simp only [List.cons.injEq] at hV'
    obtain ⟨rfl, _⟩ := hV'
    exact ⟨S, M, comp, hS, acc.denotes, hcomp,
      ⟨acc.spanningForest, cycleProperty_minimal acc.perm acc.acyclic acc.spanning acc.cycleProp⟩,
      hreach, hcnt⟩

/-! Part 2 — graph theory behind the clauses -/

/-- **The cycle property certifies minimality** (all sizes): a spanning forest `M` of `E` (unused
edges `R`) in which every forest edge on the forest path between the endpoints of an unused non-loop
edge `e` weighs at most `e.w` has minimum weight among all spanning forests of `E`. -/
theorem C12_cycle_property_min (E M R : List Edge) (hperm : (M ++ R).Perm E) (hac : Acyclic M)
    (hsp : Spanning E M) (hcp : CycleProperty M R) : MinSpanningForest E M :=
  ⟨⟨⟨R, hperm⟩, hac, hsp⟩, cycleProperty_minimal hperm hac hsp hcp⟩

/-- the number `c` of connected components is well defined: all systems of representatives of
`(V, E)` have the same size -/
theorem C12_component_count_unique (E : List Edge) (V reps1 reps2 : List Nat)
    (h1 : IsRepSystem E V reps1) (h2 : IsRepSystem E V reps2) : reps1.length = reps2.length :=
  repSystem_length_unique h1 h2

/-- **every spanning forest has exactly `|V| − c` edges**: the count clause of the property follows
from "sub-multiset of the edges, acyclic, spanning" on a well-formed graph -/
theorem C12_spanning_forest_count (g : MGraph) (hg : g.WellFormed) (F : List Edge)
    (hF : SpanningForest g.edges F) (reps : List Nat) (hr : IsRepSystem g.edges g.nodes reps) :
    F.length + reps.length = g.nodes.length :=
  spanningForest_count hg.1 hg.2 hF hr

/-! Part 3 — the Kruskal mirror model (over the C19 union–find model) -/

/-- **Kruskal model, every pop order**: on a view whose `to_index` is injective and below
`node_bound`, scanning ANY list of edges between nodes of the graph with the C19 union–find model
never panics or faults, emits the nodes in order, then one edge element per accepted item (positions
of its endpoints, its weight); the accepted items are a sub-sequence of the scanned ones, acyclic,
connect whatever the scanned edges connect, and number `|V| − c`; and if the items were popped in
order of non-decreasing weight they satisfy the cycle property. -/
theorem C12_kruskal_model_forest (v : View) (hv : KView v) (hnd : v.g.nodes.Nodup) (items : List Item)
    (hitems : ∀ it ∈ items, it.a ∈ v.g.nodes ∧ it.b ∈ v.g.nodes) :
    ∃ A Rej : List Item,
      kruskalScan v (UF.new 0 v.nb) items [] = .ok v.g.nodes (A.map (toEl v.g.nodes)) ∧
      KruskalResult v items A Rej :=
  kruskalScan_correct v hv hnd items hitems

/-- **Kruskal model, sorted pop order ⇒ MINIMUM spanning forest** (the exchange argument, via the
cycle property). -/
theorem C12_kruskal_model_min (v : View) (hv : KView v) (hnd : v.g.nodes.Nodup) (items : List Item)
    (hitems : ∀ it ∈ items, it.a ∈ v.g.nodes ∧ it.b ∈ v.g.nodes)
    (hsorted : items.Pairwise fun x y => x.w ≤ y.w) :
    ∃ A : List Item,
      kruskalScan v (UF.new 0 v.nb) items [] = .ok v.g.nodes (A.map (toEl v.g.nodes)) ∧
      MinSpanningForest (items.map Item.toEdge) (A.map Item.toEdge) := by
  obtain ⟨A, Rej, hrun, hres⟩ := kruskalScan_correct v hv hnd items hitems
  exact ⟨A, hrun, kruskalScan_minimum hres hsorted⟩

/-- **The binary-heap mirror is a priority queue**: what `min_spanning_tree` pops is a rearrangement
of the pushed edge references, in order of non-decreasing weight (`push` = sift-up, `pop` =
sift-down-to-bottom then sift-up, as in `alloc::collections::BinaryHeap`). -/
theorem C12_heap_pop_order (v : View) (er : List (Nat × Nat × Nat)) :
    (popAll ((buildHeap v er).length + 1) (buildHeap v er)).Perm (erItems v er) ∧
    (popAll ((buildHeap v er).length + 1) (buildHeap v er)).Pairwise fun x y => x.w ≤ y.w :=
  ⟨popAll_buildHeap_perm v er, popAll_buildHeap_sorted v er⟩

/-- **Kruskal model, end to end** (`MstModel.kruskal`, the function the driver compares exactly with
the real `min_spanning_tree`): for every view and every list `er` of edge references between nodes
of the graph it returns — no panic, no fault — the nodes in order and the edge elements of a
MINIMUM spanning forest of the scanned edges, with `|V| − c` elements. -/
theorem C12_kruskal_model_correct (v : View) (hv : KView v) (hnd : v.g.nodes.Nodup)
    (er : List (Nat × Nat × Nat)) (her : ∀ x ∈ er, x.1 ∈ v.g.nodes ∧ x.2.1 ∈ v.g.nodes) :
    ∃ A : List Item,
      kruskal v er = .ok v.g.nodes (A.map (toEl v.g.nodes)) ∧
      (∀ it ∈ A, it ∈ erItems v er) ∧
      MinSpanningForest ((erItems v er).map Item.toEdge) (A.map Item.toEdge) ∧
      ∀ reps, IsRepSystem ((erItems v er).map Item.toEdge) v.g.nodes reps →
        A.length + reps.length = v.g.nodes.length :=
  kruskal_correct v hv hnd er her

/-- **Kruskal model ⇒ minimum spanning forest of the abstract graph**: when the encoding's
`edge_references` describe `g` (`ErOk`: every entry is an edge of `g` with its weight, every edge of
`g` is listed — more than once is harmless, as `Csr<Undirected>` does), the emitted forest
(`KruskalOnGraph`) consists of edges of `g`, is acyclic, connects whatever `g` connects, has
`|V| − c` edges for `c` = number of connected components of `g`, and no spanning forest of `g` weighs
less. -/
theorem C12_kruskal_model_on_graph (v : View) (hv : KView v) (hg : v.g.WellFormed)
    (er : List (Nat × Nat × Nat)) (her : ErOk v er) :
    ∃ A : List Item,
      kruskal v er = .ok v.g.nodes (A.map (toEl v.g.nodes)) ∧ KruskalOnGraph v A :=
  kruskal_on_graph v hv hg er her

/-! Part 4 — the Prim mirror model -/

/-- **Prim model: all nodes and a MINIMUM spanning tree of the first node's component**
(`MstModel.prim`, the function the driver compares exactly with the real `min_spanning_tree_prim`).
On every view of an undirected graph (`PView`: `to_index` injective, `g.edges(a)` lists exactly the
edges at `a` with their weights) the model terminates without fault or panic; on the empty graph it
emits nothing; otherwise it emits the nodes in order and the edge elements of a tree `A`
(`PrimTree`): edges of `g` with their weights, acyclic, reaching exactly what the first node reaches,
one edge less than nodes reached, and of minimum total weight among ALL spanning forests of the
edges inside that component (cut property through the heap invariant, then the threshold counting
argument). -/
theorem C12_prim_model_correct (v : View) (hv : PView v) :
    (v.g.nodes = [] → prim v = .ok [] []) ∧
    ∀ s rest, v.g.nodes = s :: rest →
      ∃ A : List Item, prim v = .ok v.g.nodes (A.map (toEl v.g.nodes)) ∧ PrimTree v s A :=
  prim_correct v hv

/-- the minimality clause of the above, spelled out -/
theorem C12_prim_model_min (v : View) (hv : PView v) (s : Nat) (rest : List Nat)
    (hV : v.g.nodes = s :: rest) :
    ∃ A : List Item, prim v = .ok v.g.nodes (A.map (toEl v.g.nodes)) ∧
      ∀ comp : List Nat, (∀ x, x ∈ comp ↔ Conn v.g.edges s x) →
        ∀ F', SpanningForest (edgesWithin comp v.g.edges) F' → weight (A.map Item.toEdge) ≤ weight F' := by
  obtain ⟨A, hrun, ht⟩ := (prim_correct v hv).2 s rest hV
  exact ⟨A, hrun, ht.minimal⟩

/-! Part 5 — the per-case checks of the driver establish the hypotheses above -/

/-- an accepted `graph` line (`viewOkB`) gives `WellFormed`, `KView`, and `PView` for undirected
graphs; an accepted `er` field (`erOkB`) gives `ErOk` -/
theorem C12_driver_checks_sound (v : View) (er : List (Nat × Nat × Nat)) :
    (viewOkB v = true → v.g.WellFormed ∧ KView v ∧ (v.g.directed = false → PView v)) ∧
    (erOkB v er = true → ErOk v er) :=
  ⟨viewOkB_sound, erOkB_sound⟩

/-- **What an `ok` verdict of `./check C12` means**: on every case whose `graph` line and `er` field
the driver accepted, the mirror models' streams — which the real crate's streams were found equal to
— are: for Kruskal the nodes in order plus a minimum spanning forest of the abstract graph; for Prim
(undirected graph) the nodes in order plus a minimum spanning tree of the first node's component. -/
theorem C12_accepted_case (v : View) (er : List (Nat × Nat × Nat)) (hv : viewOkB v = true)
    (her : erOkB v er = true) :
    (∃ A : List Item, kruskal v er = .ok v.g.nodes (A.map (toEl v.g.nodes)) ∧ KruskalOnGraph v A) ∧
    (v.g.directed = false → ∀ s rest, v.g.nodes = s :: rest →
      ∃ A : List Item, prim v = .ok v.g.nodes (A.map (toEl v.g.nodes)) ∧ PrimTree v s A) := by
  obtain ⟨hg, hk, hp⟩ := viewOkB_sound hv
  exact ⟨kruskal_on_graph v hk hg er (erOkB_sound her), fun hd => (prim_correct v (hp hd)).2⟩

/-! Part 6 — what wave 1 left open (the statement below is now PROVED in Part 7 as
`C12_judge_complete`; the definition and the partial result are kept for reference) -/

/-- Completeness of the judge: every stream that satisfies the property is accepted (no false
alarms).  Missing: (a) fuel sufficiency of `Oracle.reachFrom` (it never answers `none` — the `must`
checks and `compReps` treat `none` as a rejection), (b) necessity of the cycle property for minimum
spanning forests.  False alarms would show up as SPECFAIL on the unchanged crate; none occurs. -/
def C12_judge_complete_statement : Prop :=
  ∀ (V : List Nat) (E : List Edge) (bound : Nat) (S : List (Nat × Nat × Int)) (M R : List Edge),
    V.Nodup → (∀ e ∈ E, e.src ∈ V ∧ e.tgt ∈ V) →
    (M ++ R).Perm E → DenotesAll S M → MinSpanningForest E M → judgeForest V E bound S = none

/-- proved part: the brute-force side never loses a genuine spanning forest, whatever the oracle's
fuel does — a sublist that is acyclic and spanning passes both filters. -/
theorem C12_judge_complete_partial (E F : List Edge) (hs : F.Sublist E) (hac : Acyclic F)
    (hsp : Spanning E F) : F ∈ (subs E).filter fun F => forestMay [] F && spanMay E F := by
  simp only [List.mem_filter, Bool.and_eq_true]
  exact ⟨mem_subs hs, forestMay_complete F [] (by simpa using hac), spanMay_complete hsp⟩

/-! Part 7 — wave 2: the judge is complete (what Part 6 left open, now proved) -/

/-- the reachability oracle never runs out of fuel (`Proofs/ReachTotal.lean`), so the judge's
connectivity question is a decision procedure for `Conn` -/
theorem C12_connQ_decides (F : List Edge) (a b : Nat) :
    (connQ F a b = some true ↔ Conn F a b) ∧ (connQ F a b = some false ↔ ¬ Conn F a b) :=
  ⟨connQ_true_iff, connQ_false_iff⟩

/-- **Necessity of the cycle property** (the exchange argument): in a minimum spanning forest `M` of
`E` with unused edges `R`, every forest edge on the forest path between the endpoints of an unused
non-loop edge `e` weighs at most `e.w` — otherwise replacing it by `e` gives a lighter spanning
forest.  With `C12_cycle_property_min` the certificate the judge checks is *equivalent* to minimality
(`C12_cycle_property_iff_min`). -/
theorem C12_min_cycle_property (E M R : List Edge) (hperm : (M ++ R).Perm E)
    (hmin : MinSpanningForest E M) : CycleProperty M R :=
  minimal_cycleProperty hperm hmin

theorem C12_cycle_property_iff_min (E M R : List Edge) (hperm : (M ++ R).Perm E) :
    MinSpanningForest E M ↔ Acyclic M ∧ Spanning E M ∧ CycleProperty M R :=
  ⟨fun h => ⟨h.1.acyclic, h.1.spanning, minimal_cycleProperty hperm h⟩,
   fun h => C12_cycle_property_min E M R hperm h.1 h.2.1 h.2.2⟩

/-- the greedy matching of stream edges with distinct graph edges never fails on a stream that
denotes some sub-multiset of the edges, and what it finds has, position by position, the same
unordered endpoints and weight -/
theorem C12_matchEdges_complete (E M R : List Edge) (S : List (Nat × Nat × Int))
    (hperm : (M ++ R).Perm E) (hd : DenotesAll S M) :
    ∃ M' R', matchEdges S E = some (M', R') ∧ (M' ++ R').Perm E ∧ DenotesAll S M' ∧ Sim M M' := by
  obtain ⟨M', R', h⟩ := matchEdges_of_subMulti hperm hd
  obtain ⟨hp, hd'⟩ := matchEdges_spec h
  exact ⟨M', R', h, hp, hd', sim_of_denotes hd hd'⟩

/-- **Completeness of the judge — no false alarms** (`C12_judge_complete_statement`, as stated): on a
well-formed graph, every edge stream that denotes a minimum spanning forest is accepted, for every
brute-force bound. -/
theorem C12_judge_complete : C12_judge_complete_statement :=
  fun _ _ _ _ _ _ hV hends hperm hd hmin => judgeForest_complete hV hends hperm hd hmin

/-- hence the judge *decides* the property on well-formed graphs: accepted ⇔ the stream denotes a
minimum spanning forest of `(V, E)` -/
theorem C12_judge_iff (V : List Nat) (E : List Edge) (bound : Nat) (S : List (Nat × Nat × Int))
    (hV : V.Nodup) (hends : ∀ e ∈ E, e.src ∈ V ∧ e.tgt ∈ V) :
    judgeForest V E bound S = none ↔
      ∃ M R, (M ++ R).Perm E ∧ DenotesAll S M ∧ MinSpanningForest E M := by
  constructor
  · intro h
    obtain ⟨M, R, acc⟩ := judgeForest_sound h
    exact ⟨M, R, acc.perm, acc.denotes, acc.spanningForest,
      cycleProperty_minimal acc.perm acc.acyclic acc.spanning acc.cycleProp⟩
  · rintro ⟨M, R, hperm, hd, hmin⟩
    exact judgeForest_complete hV hends hperm hd hmin

/-- completeness of Prim's clause: on a non-empty graph, a stream that denotes a minimum spanning
forest of the edges inside the first node's component is accepted; on the empty graph the empty
stream is -/
theorem C12_judge_prim_complete (V : List Nat) (E : List Edge) (bound : Nat)
    (S : List (Nat × Nat × Int)) :
    (V = [] → S = [] → judgePrimEdges V E bound S = none) ∧
    ∀ s rest comp M R, V = s :: rest → (∀ x, x ∈ comp ↔ Conn E s x) →
      (M ++ R).Perm (edgesWithin comp E) → DenotesAll S M → MinSpanningForest (edgesWithin comp E) M →
      judgePrimEdges V E bound S = none := by
  constructor
  · rintro rfl rfl; rfl
  · rintro s rest comp M R rfl hcomp hperm hd hmin
    obtain ⟨comp', hc'⟩ := Oracle.reachFrom_total (ug E) s
    obtain ⟨hnd, hmem⟩ := Oracle.reachFrom_spec _ _ _ hc'
    have hmem' : ∀ x, x ∈ comp' ↔ Conn E s x := hmem
    have hew : edgesWithin comp E = edgesWithin comp' E := by
      unfold edgesWithin
      apply List.filter_congr
      intro e _
      have h1 : comp.contains e.src = comp'.contains e.src := by
        rw [Bool.eq_iff_iff]; simp only [List.contains_iff_mem]; rw [hcomp, hmem']
      have h2 : comp.contains e.tgt = comp'.contains e.tgt := by
        rw [Bool.eq_iff_iff]; simp only [List.contains_iff_mem]; rw [hcomp, hmem']
      rw [h1, h2]
    rw [hew] at hperm hmin
    simp only [judgePrimEdges, hc']
    exact judgeForest_complete hnd (fun e he => (mem_edgesWithin.mp he).2) hperm hd hmin

/-! non-vacuity: the judge accepts a genuine minimum spanning forest of a graph with a cycle, a
parallel pair, a self-loop and two components, and rejects a heavier spanning forest -/
def exE : List Edge := [⟨0, 0, 1, 1⟩, ⟨1, 1, 2, 2⟩, ⟨2, 0, 2, 3⟩, ⟨3, 0, 0, -5⟩, ⟨4, 3, 4, 7⟩, ⟨5, 4, 3, 6⟩]
example : judgeForest [0, 1, 2, 3, 4, 5] exE 12 [(0, 1, 1), (2, 1, 2), (4, 3, 6)] = none := by decide
example : (judgeForest [0, 1, 2, 3, 4, 5] exE 12 [(0, 1, 1), (2, 1, 2), (4, 3, 7)]).isSome = true := by decide

/-! the hypotheses of the model theorems are satisfiable: a concrete view (triangle with a pendant
node, StableGraph-style indices with a vacancy) on which both models run -/
def exView : View :=
  { g := { directed := false, nodes := [2, 0, 1, 3],
           edges := [⟨0, 0, 1, 5⟩, ⟨1, 1, 2, 3⟩, ⟨2, 2, 0, 4⟩, ⟨3, 3, 3, 1⟩] },
    nb := 6, ix := [(2, 0), (0, 2), (1, 3), (3, 5)],
    out := [(2, [(1, 1), (0, 2)]), (0, [(1, 0), (2, 2)]), (1, [(0, 0), (2, 1)]), (3, [(3, 3)])],
    inn := [] }
example : kruskal exView [(0, 1, 0), (1, 2, 1), (2, 0, 2), (3, 3, 3)] =
    .ok [2, 0, 1, 3] [⟨2, 0, 3⟩, ⟨0, 1, 4⟩] := by decide
example : prim exView = .ok [2, 0, 1, 3] [⟨0, 2, 3⟩, ⟨0, 1, 4⟩] := by decide
example : viewOkB exView = true ∧ erOkB exView [(0, 1, 0), (1, 2, 1), (2, 0, 2), (3, 3, 3)] = true := by decide

/-! Part 8 — wave 4, goal 1: `from_elements` collects the stream into the forest -/

/-- **`Graph::from_elements` on an element stream** (`MstModel.collectGraphState` = the C01 `Graph`
model's transcription `G.fromElements` of `from_elements_indexable`, run on the stream; edge weights
travel through the bijective coding `encW`).  For every stream in range (`FeFits`: every edge position
is a node position; both vectors fit the index type) `from_elements` does not panic and the collected
graph IS the stream: node `i` carries the `i`-th node weight, edge `j` joins the nodes at the two
positions of the `j`-th edge element and carries its weight, the edge type is the requested one, and
the C01 representation invariant (coherent adjacency lists) holds. -/
theorem C12_from_elements_graph (endv : Nat) (directed : Bool) (ns : List Nat) (es : List EdgeEl)
    (h : FeFits endv ns es) :
    ∃ s, collectGraphState endv directed ns es = some s ∧ s.nodes.map (·.weight) = ns ∧
      s.edges.map (fun e => (e.src, e.tgt, decW e.weight)) = es.map (fun e => (e.s, e.t, e.w)) ∧
      s.directed = directed ∧ GProofs.Inv s := by
  obtain ⟨s, h1, h2, h3, h4, h5⟩ := collectGraphState_spec endv directed ns es h
  refine ⟨s, h1, h2, ?_, h4, h5⟩
  have : s.edges.map (fun e => (e.src, e.tgt, decW e.weight)) =
      (gEdges s).map (fun x => (x.1, x.2.1, decW x.2.2)) := by simp [gEdges, List.map_map, Function.comp]
  rw [this, h3]
  simp [List.map_map, Function.comp, decW_encW]

/-- the coding of the edge weights loses nothing -/
theorem C12_weight_coding (w : Int) : decW (encW w) = w := decW_encW w

/-- **`StableGraph::from_elements` on an element stream** (the same loop over the C02 model): no
fault (`debug_assert!`, bounds), no panic, no vacancy; the slots are the elements in order. -/
theorem C12_from_elements_stable (fin : Nat) (ns : List Nat) (es : List EdgeEl) (h : FeFits fin ns es) :
    ∃ s, collectStableState fin ns es = .ok (some s) ∧ s.nodes.map (·.w) = ns.map natSome ∧
      s.edges.map (fun e => (e.a, e.b, e.w)) = es.map (fun e => (e.s, e.t, some e.w)) := by
  obtain ⟨s, h1, h2, h3⟩ := collectStableState_spec fin ns es h
  exact ⟨s, h1, h2, h3⟩

/-- **what the harness observes of the collected graph** (all three graph types of the `fe=` field):
the node weights in index order are the node elements, and the edges in index order, each as
(weight of its source node, weight of its target node, edge weight), are the edge elements with the
positions looked up in the node elements — which is what the judge's `absEdges` computes, i.e. the
collected graph is the forest the judge judged. -/
theorem C12_from_elements_observed (kind : String) (ns : List Nat) (es : List EdgeEl)
    (h : FeFits u32max ns es) :
    collect kind ns es = .ok ns (streamEdges ns es) ∧ absEdges ns es = some (streamEdges ns es) :=
  ⟨collect_spec kind ns es h, absEdges_eq_streamEdges h.pos⟩

/-- outside the range because of a position: `add_edge` panics (documented: index out of bounds) -/
theorem C12_from_elements_bad_position_panics (endv : Nat) (directed : Bool) (ns : List Nat) (e : EdgeEl)
    (hn : ns.length ≤ endv) (hbad : ns.length ≤ e.s ∨ ns.length ≤ e.t) :
    collectGraph endv directed ns [e] = .panic :=
  collectGraph_panic_of_bad_position endv directed ns e hn hbad

/-- the streams of the MST models are in range and collect into the accepted items -/
theorem C12_from_elements_items (kind : String) (nodes : List Nat) (A : List Item)
    (hin : ∀ it ∈ A, it.a ∈ nodes ∧ it.b ∈ nodes) (hn : nodes.length ≤ u32max) (hA : A.length ≤ nodes.length) :
    collect kind nodes (A.map (toEl nodes)) = .ok nodes (A.map itemTriple) := by
  obtain ⟨hpos, hse⟩ := streamEdges_toEl hin
  have hfit : FeFits u32max nodes (A.map (toEl nodes)) := ⟨hn, by simp; omega, hpos⟩
  rw [collect_spec kind _ _ hfit, hse]; rfl

/-- **Kruskal, end to end**: on every case the driver accepts, collecting the Kruskal model's stream
with `from_elements` (any of the three graph types) gives a graph whose node weights are the graph's
nodes in order and whose edges — endpoints read off the node weights — are exactly the accepted
items `A`, a minimum spanning forest of the abstract graph (`KruskalOnGraph`). -/
theorem C12_from_elements_kruskal (v : View) (er : List (Nat × Nat × Nat)) (hv : viewOkB v = true)
    (her : erOkB v er = true) (hn : v.g.nodes.length ≤ u32max) (kind : String) :
    ∃ A : List Item, kruskal v er = .ok v.g.nodes (A.map (toEl v.g.nodes)) ∧ KruskalOnGraph v A ∧
      collect kind v.g.nodes (A.map (toEl v.g.nodes)) = .ok v.g.nodes (A.map itemTriple) := by
  obtain ⟨hg, hk, _⟩ := viewOkB_sound hv
  obtain ⟨A, hrun, hres⟩ := kruskal_on_graph v hk hg er (erOkB_sound her)
  refine ⟨A, hrun, hres, C12_from_elements_items kind _ A ?_ hn ?_⟩
  · intro it hit
    obtain ⟨e, he, _, hends⟩ := hres.edges it hit
    rcases hends with ⟨h1, h2⟩ | ⟨h1, h2⟩
    · rw [← h1, ← h2]; exact hg.2 e he
    · rw [← h1, ← h2]; exact ⟨(hg.2 e he).2, (hg.2 e he).1⟩
  · obtain ⟨reps, hr⟩ := repSystem_exists v.g.edges v.g.nodes
    have := hres.count reps hr; omega

/-- **Prim (undirected), end to end**: the collected graph of the Prim model's stream has the graph's
nodes in order and, as edges, the minimum spanning tree `A` of the first node's component. -/
theorem C12_from_elements_prim (v : View) (hv : viewOkB v = true) (hd : v.g.directed = false)
    (hn : v.g.nodes.length ≤ u32max) (kind : String) (s : Nat) (rest : List Nat) (hV : v.g.nodes = s :: rest) :
    ∃ A : List Item, prim v = .ok v.g.nodes (A.map (toEl v.g.nodes)) ∧ PrimTree v s A ∧
      collect kind v.g.nodes (A.map (toEl v.g.nodes)) = .ok v.g.nodes (A.map itemTriple) := by
  obtain ⟨hg, _, hp⟩ := viewOkB_sound hv
  obtain ⟨A, hrun, ht⟩ := (prim_correct v (hp hd)).2 s rest hV
  have hsN : s ∈ v.g.nodes := by rw [hV]; exact List.mem_cons_self ..
  refine ⟨A, hrun, ht, C12_from_elements_items kind _ A ?_ hn ?_⟩
  · intro it hit
    obtain ⟨h1, h2⟩ := ht.within it hit
    exact ⟨conn_stays hg.2 h1 hsN, conn_stays hg.2 h2 hsN⟩
  · obtain ⟨comp, hnd, hmem, hcnt⟩ := ht.count
    have := hnd.length_le_of_subset (l₂ := v.g.nodes) (fun x hx => conn_stays hg.2 ((hmem x).mp hx) hsN)
    omega

/-! non-vacuity: the stream of `exView`'s Kruskal run, collected into the three graph types -/
example : feFitsB u32max [2, 0, 1, 3] [⟨2, 0, 3⟩, ⟨0, 1, 4⟩] = true := by decide
example : collectGraph 255 false [2, 0, 1, 3] [⟨2, 0, 3⟩, ⟨0, 1, -4⟩] = .ok [2, 0, 1, 3] [(1, 2, 3), (2, 0, -4)] := by
  decide
example : collectStable 255 [2, 0, 1, 3] [⟨2, 0, 3⟩, ⟨0, 1, -4⟩] = .ok [2, 0, 1, 3] [(1, 2, 3), (2, 0, -4)] := by
  decide
example : collectGraph 255 true [2, 0] [⟨0, 2, 1⟩] = .panic := by decide

/-! Part 9 — wave 4, goal 2: `min_spanning_tree_prim` on directed storage

The documentation says "Graph is treated as if undirected.  The computed minimum spanning tree can be
wrong if this is not true."  On directed storage the iterator pushes `g.edges(a)` — the OUT-edges of
`a` only — so the graph is NOT treated as if undirected; what it computes there is specified by
`DirPrimTree` (`Oracle/C12W4.lean`) and proved below; that this is neither a spanning tree of the
undirected component nor of minimum weight is refuted by the two witnesses. -/

/-- **Judge soundness, Prim on directed storage**: an accepted stream lists all nodes in order and
then a greedy out-tree from the first node — every edge element is a stored edge of `g` in its stored
direction with its weight, starts in the tree built so far, ends at a new node, and is a lightest
stored edge leaving the tree; at the end no stored edge leaves the tree. -/
theorem C12_judge_prim_directed_sound (g : MGraph) (hd : g.directed = true) (ns : List Nat)
    (es : List EdgeEl) (feN feE : String) (h : judgeStream g true ns es feN feE = none) :
    ns = g.nodes ∧ ∃ S, absEdges ns es = some S ∧
      ((g.nodes = [] ∧ S = []) ∨ ∃ r rest, g.nodes = r :: rest ∧ DirPrimTree g.edges r S) := by
  unfold judgeStream judgeStreamK at h
  split at h
  · cases h
  · rename_i hns
    refine ⟨by simpa using hns, ?_⟩
    split at h
    · cases h
    · rename_i S hS
      split at h
      · cases h
      · simp only [if_true, hd] at h
        exact ⟨S, hS, (judgePrimDirected_iff g.nodes g.edges S).mp h⟩

/-- the judge for directed storage decides its specification (sound and complete) -/
theorem C12_judge_prim_directed_iff (V : List Nat) (E : List Edge) (S : List (Nat × Nat × Int)) :
    judgePrimDirected V E S = none ↔ (V = [] ∧ S = []) ∨ ∃ r rest, V = r :: rest ∧ DirPrimTree E r S :=
  judgePrimDirected_iff V E S

/-- **what a greedy out-tree is** (directed graph): its nodes — the first node and the targets of the
edge elements, each once — are EXACTLY the nodes reachable from the first node by directed walks;
one edge less than nodes; every edge element is a stored edge in stored direction, starts at the
first node or at the target of an earlier element, and ends at a node no earlier element ends at;
read as undirected edges the stream has no cycle. -/
theorem C12_prim_directed_tree_facts (g : MGraph) (hd : g.directed = true) (r : Nat)
    (S : List (Nat × Nat × Int)) (h : DirPrimTree g.edges r S) : ∃ T, DirPrimFacts g r S T :=
  dirPrimTree_facts hd h

/-- **Prim model on directed storage** (`DView`: `g.edges(a)` = the stored out-edges of `a`): it
terminates within `primFuel` without fault or panic; on the empty graph it emits nothing; otherwise
the nodes in order and a greedy out-tree from the first node. -/
theorem C12_prim_model_directed (v : View) (hv : DView v) :
    (v.g.nodes = [] → prim v = .ok [] []) ∧
    ∀ s rest, v.g.nodes = s :: rest →
      ∃ A : List Item, prim v = .ok v.g.nodes (A.map (toEl v.g.nodes)) ∧
        DirPrimTree v.g.edges s (A.map itemTriple) ∧ ∀ it ∈ A, it.a ∈ v.g.nodes ∧ it.b ∈ v.g.nodes :=
  prim_directed_correct v hv

/-- … and its stream collects, with `from_elements`, into that out-tree -/
theorem C12_from_elements_prim_directed (v : View) (hv : viewOkB v = true) (hd : v.g.directed = true)
    (hn : v.g.nodes.length ≤ u32max) (kind : String) (s : Nat) (rest : List Nat) (hV : v.g.nodes = s :: rest) :
    ∃ A : List Item, prim v = .ok v.g.nodes (A.map (toEl v.g.nodes)) ∧
      DirPrimTree v.g.edges s (A.map itemTriple) ∧
      collect kind v.g.nodes (A.map (toEl v.g.nodes)) = .ok v.g.nodes (A.map itemTriple) := by
  have hdv := viewOkB_dview hv hd
  obtain ⟨A, hrun, ht, hin⟩ := (prim_directed_correct v hdv).2 s rest hV
  refine ⟨A, hrun, ht, C12_from_elements_items kind _ A hin hn ?_⟩
  obtain ⟨T, hg, _⟩ := ht
  have hsN : s ∈ v.g.nodes := by rw [hV]; exact List.mem_cons_self ..
  have hnd : T.Nodup := hg.nodup (by simp)
  have hsub : ∀ x ∈ T, x ∈ v.g.nodes := by
    intro x hx
    rw [hg.nodes_eq] at hx
    rcases List.mem_append.mp hx with hx | hx
    · simp only [List.mem_reverse, List.mem_map] at hx
      obtain ⟨t, ⟨it, hit, rfl⟩, rfl⟩ := hx
      exact (hin it hit).2
    · have : x = s := by simpa using hx
      rw [this]; exact hsN
  have h1 := hnd.length_le_of_subset (l₂ := v.g.nodes) hsub
  have h2 := hg.length
  simp at h2; omega

/-- a directed view: nodes 0, 1 and the single stored edge 1 → 0 -/
def dirView1 : View :=
  { g := { directed := true, nodes := [0, 1], edges := [⟨0, 1, 0, 1⟩] },
    nb := 2, ix := [(0, 0), (1, 1)], out := [(0, []), (1, [(0, 0)])], inn := [] }

/-- **"treated as if undirected" does not hold on directed storage** (refutation of the undirected
reading of `C12_prim_model_correct` for directed views): the view `dirView1` passes every check of
the driver, Kruskal connects its two nodes, but Prim — starting at node 0, which has no out-edge —
emits no edge, so its output does not span the first node's component. -/
theorem C12_prim_directed_undirected_reading_false_witness :
    ¬ ∀ v : View, viewOkB v = true → ∀ s rest, v.g.nodes = s :: rest →
      ∃ A : List Item, prim v = .ok v.g.nodes (A.map (toEl v.g.nodes)) ∧ PrimTree v s A := by
  intro hall
  obtain ⟨A, hrun, ht⟩ := hall dirView1 (by decide) 0 [1] rfl
  have hp : prim dirView1 = .ok [0, 1] [] := by decide
  rw [hp] at hrun
  have hA : A = [] := by
    cases A with
    | nil => rfl
    | cons a A' => simp at hrun
  subst hA
  have hc : Conn dirView1.g.edges 0 1 := (Conn.edge (e := ⟨0, 1, 0, 1⟩) (by simp [dirView1])).symm
  have := ht.spans 1 hc
  exact (connQ_false_iff (F := []) (a := 0) (b := 1)).mp (by decide) this

/-- the same view under Kruskal: the edge is found (the graph IS treated as undirected there) -/
example : kruskal dirView1 [(1, 0, 0)] = .ok [0, 1] [⟨1, 0, 1⟩] := by decide
example : judgePrimDirected [0, 1] dirView1.g.edges [] = none := by decide

/-- a directed view in which every node is reachable from the first: 0 → 1 (1), 0 → 2 (10), 2 → 1 (2) -/
def dirView2 : View :=
  { g := { directed := true, nodes := [0, 1, 2], edges := [⟨0, 0, 1, 1⟩, ⟨1, 0, 2, 10⟩, ⟨2, 2, 1, 2⟩] },
    nb := 3, ix := [(0, 0), (1, 1), (2, 2)], out := [(0, [(1, 0), (2, 1)]), (1, []), (2, [(1, 2)])], inn := [] }

/-- **"the computed minimum spanning tree can be wrong"**: on `dirView2` Prim reaches every node but
with total weight 11, while the spanning tree {0–1, 2–1} of the same graph weighs 3. -/
theorem C12_prim_directed_not_minimum_witness :
    viewOkB dirView2 = true ∧ prim dirView2 = .ok [0, 1, 2] [⟨0, 1, 1⟩, ⟨0, 2, 10⟩] ∧
    judgePrimDirected [0, 1, 2] dirView2.g.edges [(0, 1, 1), (0, 2, 10)] = none ∧
    SpanningForest dirView2.g.edges [⟨0, 0, 1, 1⟩, ⟨2, 2, 1, 2⟩] ∧
    weight [⟨0, 0, 1, 1⟩, ⟨2, 2, 1, 2⟩] < weight [⟨0, 0, 1, 1⟩, ⟨1, 0, 2, 10⟩] := by
  refine ⟨by decide, by decide, by decide, ⟨⟨[⟨1, 0, 2, 10⟩], by decide⟩, ?_, ?_⟩, by decide⟩
  · exact forestMust_acyclic (by decide)
  · exact spanMay_sound (by decide)

/-! Part 10 — wave 4, goal 3: the heap mirror, the priority-queue specification, `MinScored` keys -/

/-- **the heap mirror refines the priority-queue specification**: for EVERY script of `push`, `pop`,
`clear` calls the mirror's answers (internal vector included) are accepted by `pqJudge` — the judge
every answer of the real `BinaryHeap<MinScored<_, _>>` is held against in the `heap` cases. -/
theorem C12_heap_refines_priority_queue (ops : List HOp) : pqJudgeAll [] ops (heapRun [] ops) = none :=
  heapRun_accepted ops

/-- what the priority-queue judge accepts of a `pop`: `None` only on the empty queue; otherwise a
queued item of least score, which leaves the queue, and the heap's vector holds the rest -/
theorem C12_pq_pop_sound (m m' : List Item) (r : Option Item) (lay : List Nat)
    (h : pqJudge m .pop (.popped r lay) = .ok m') :
    (r = none → m = [] ∧ m' = []) ∧
    (∀ x, r = some x → x ∈ m ∧ (∀ y ∈ m, x.w ≤ y.w) ∧ m' = m.erase x ∧ lay.Perm (m'.map (·.a))) :=
  pqJudge_pop_sound h

/-- **`MinScored<f64, _>` keys**: `MinScored::cmp` (transcribed branch by branch, NaN cases included,
as `SP.scoreCmp` of the C10 model) orders float-like scores in range exactly as the heap mirror
orders the integer keys `scoreKey` (finite `x ↦ x`, `-∞ ↦ -10^30`, `+∞ ↦ 10^30`, NaN ↦ `10^30 + 1`:
NaN is the LAST score to be popped). -/
theorem C12_minscored_key_embedding (a b : SP.Score) (ha : scoreInRangeB a = true)
    (hb : scoreInRangeB b = true) (pa pb qa qb : Nat) :
    scoreRle a b = rle ⟨scoreKey a, pa, qa⟩ ⟨scoreKey b, pb, qb⟩ :=
  scoreRle_eq_rle a b ha hb pa pb qa qb

/-! non-vacuity: a script with equal keys, NaN and infinities; the judge rejects a wrong pop -/
example : heapRun [] [.push ⟨3, 0, 0⟩, .push ⟨3, 1, 0⟩, .push ⟨scoreKey .nan, 2, 0⟩, .push ⟨scoreKey .ninf, 3, 0⟩, .pop, .pop] =
    [.pushed [0], .pushed [0, 1], .pushed [0, 1, 2], .pushed [3, 0, 2, 1],
     .popped (some ⟨scoreKey .ninf, 3, 0⟩) [0, 1, 2], .popped (some ⟨3, 0, 0⟩) [1, 2]] := by decide
example : (pqJudge [⟨3, 0, 0⟩, ⟨1, 1, 0⟩] .pop (.popped (some ⟨3, 0, 0⟩) [1])).toOption = none := by decide

/-! Part 11 — run-time checks of the hypotheses

Every hypothesis of the model theorems that concerns the concrete case is a Boolean the driver
evaluates on every case it judges (`Driver/C12.lean`, `step`/`answer`/`heapAnswer`):
`viewFailure` (= `viewOkB`, by name) on the `graph` line, `erOkB` on every `kruskal` request,
`feFitsB` on every judged stream, `scoreInRangeB` on every heap key.  The first two concern the
encoding (`SPECFAIL side condition …`), the last two the generated input (`SPECFAIL generator left
the proved range …`). -/

/-- the named side conditions of the `graph` line are `viewOkB` -/
theorem C12_view_check (v : View) : viewFailure v = none ↔ viewOkB v = true := viewFailure_none_iff v

theorem C12_wellformed_check (v : View) (h : viewFailure v = none) : v.g.WellFormed :=
  (viewOkB_sound ((viewFailure_none_iff v).mp h)).1

/-- scope of `C12_judge_iff` / `C12_judge_complete` (well-formed graph) -/
theorem C12_judge_scope_check (v : View) (h : viewFailure v = none) :
    v.g.nodes.Nodup ∧ ∀ e ∈ v.g.edges, e.src ∈ v.g.nodes ∧ e.tgt ∈ v.g.nodes :=
  C12_wellformed_check v h

theorem C12_kview_check (v : View) (h : viewFailure v = none) : KView v :=
  (viewOkB_sound ((viewFailure_none_iff v).mp h)).2.1

theorem C12_pview_check (v : View) (h : viewFailure v = none) (hd : v.g.directed = false) : PView v :=
  (viewOkB_sound ((viewFailure_none_iff v).mp h)).2.2 hd

theorem C12_dview_check (v : View) (h : viewFailure v = none) (hd : v.g.directed = true) : DView v :=
  viewOkB_dview ((viewFailure_none_iff v).mp h) hd

theorem C12_erok_check (v : View) (er : List (Nat × Nat × Nat)) (h : erOkB v er = true) : ErOk v er :=
  erOkB_sound h

/-- hypothesis `her` of `C12_kruskal_model_correct`: the edge references join nodes of the graph -/
theorem C12_er_endpoints_check (v : View) (er : List (Nat × Nat × Nat)) (hv : viewFailure v = none)
    (her : erOkB v er = true) : ∀ x ∈ er, x.1 ∈ v.g.nodes ∧ x.2.1 ∈ v.g.nodes := by
  intro x hx
  obtain ⟨e, he, _, hends⟩ := (erOkB_sound her).sound x hx
  have hw := (C12_wellformed_check v hv).2 e he
  rcases hends with ⟨h1, h2⟩ | ⟨h1, h2⟩
  · rw [← h1, ← h2]; exact hw
  · rw [← h1, ← h2]; exact ⟨hw.2, hw.1⟩

theorem C12_fefits_check (endv : Nat) (ns : List Nat) (es : List EdgeEl) (h : feFitsB endv ns es = true) :
    FeFits endv ns es :=
  feFitsB_sound h

/-- `feFitsB` implies the bound on the node count used by the end-to-end theorems -/
theorem C12_nodecount_check (ns : List Nat) (es : List EdgeEl) (h : feFitsB u32max ns es = true) :
    ns.length ≤ u32max :=
  (feFitsB_sound h).nodes

theorem C12_heapkey_check (k : SP.Score) (h : scoreInRangeB k = true) :
    ∀ x, k = .fin x → -bigKey < x ∧ x < bigKey := by
  intro x hx
  subst hx
  simpa [scoreInRangeB] using h

/-- **What an `ok` verdict means, wave 4**: on every case whose side conditions hold, for every
graph type of the `fe=` field — Kruskal: the model's stream collects into a minimum spanning forest of
the abstract graph; Prim on an undirected graph: into a minimum spanning tree of the first node's
component; Prim on directed storage: into a greedy out-tree spanning exactly the nodes reachable from
the first node. -/
theorem C12_accepted_case_w4 (v : View) (er : List (Nat × Nat × Nat)) (hv : viewFailure v = none)
    (her : erOkB v er = true) (hn : v.g.nodes.length ≤ u32max) (kind : String) :
    (∃ A : List Item, kruskal v er = .ok v.g.nodes (A.map (toEl v.g.nodes)) ∧ KruskalOnGraph v A ∧
      collect kind v.g.nodes (A.map (toEl v.g.nodes)) = .ok v.g.nodes (A.map itemTriple)) ∧
    (∀ s rest, v.g.nodes = s :: rest →
      (v.g.directed = false → ∃ A : List Item, prim v = .ok v.g.nodes (A.map (toEl v.g.nodes)) ∧
        PrimTree v s A ∧ collect kind v.g.nodes (A.map (toEl v.g.nodes)) = .ok v.g.nodes (A.map itemTriple)) ∧
      (v.g.directed = true → ∃ A : List Item, prim v = .ok v.g.nodes (A.map (toEl v.g.nodes)) ∧
        (∃ T, DirPrimFacts v.g s (A.map itemTriple) T) ∧
        collect kind v.g.nodes (A.map (toEl v.g.nodes)) = .ok v.g.nodes (A.map itemTriple))) := by
  have hv' := (viewFailure_none_iff v).mp hv
  refine ⟨C12_from_elements_kruskal v er hv' her hn kind, fun s rest hV => ⟨fun hd => ?_, fun hd => ?_⟩⟩
  · exact C12_from_elements_prim v hv' hd hn kind s rest hV
  · obtain ⟨A, h1, h2, h3⟩ := C12_from_elements_prim_directed v hv' hd hn kind s rest hV
    exact ⟨A, h1, dirPrimTree_facts hd h2, h3⟩

/-! non-vacuity of the checks: the three example views pass -/
example : viewFailure exView = none ∧ viewFailure dirView1 = none ∧ viewFailure dirView2 = none := by decide

/-! Part 12 — wave 6: the corners

(a) float weights that are not numbers are judged by KEYS; that this is the judgement of the scores
themselves rests on two facts proved here: a minimum spanning forest depends on the order of the
weights only, and `MinScored`'s documented total order is the (reversed) order of the keys.
(b) the judge theorems of Part 1 / Part 9 hold for every collecting kind of the `fe=` field.
(c) `MaxScored` (same file, `src/scored.rs`) is the order of the keys with NaN least.
(d) run-time checks of the new hypotheses. -/

/-- **Order invariance.**  Re-weighing every edge by a strictly increasing function keeps exactly the
same minimum spanning forests: `M` (unused edges `R`) is a minimum spanning forest of `E` iff the
re-weighed `M` is one of the re-weighed `E`.  Hence ANY assignment of integer keys to float-like
scores that is strictly increasing along the order `MinScored` sorts by judges the same streams; the
driver's `scoreKey` (`-∞ ↦ -10^30`, finite `x ↦ x`, `+∞ ↦ 10^30`, NaN ↦ `10^30 + 1`) is one. -/
theorem C12_msf_order_invariant (f : Int → Int) (hf : ∀ x y, x < y → f x < f y) (E M R : List Edge)
    (hperm : (M ++ R).Perm E) :
    MinSpanningForest (E.map (rew f)) (M.map (rew f)) ↔ MinSpanningForest E M :=
  msf_order_invariant hf E M R hperm

/-- the hypothesis "strictly increasing" cannot be weakened to "non-decreasing": collapsing two
weights makes a non-minimum forest minimum (triangle-free witness: two parallel edges 1 and 2, the
forest that uses the heavier one) -/
theorem C12_msf_order_invariant_monotone_false_witness :
    ∃ (f : Int → Int) (E M R : List Edge), (∀ x y, x ≤ y → f x ≤ f y) ∧ (M ++ R).Perm E ∧
      MinSpanningForest (E.map (rew f)) (M.map (rew f)) ∧ ¬ MinSpanningForest E M := by
  refine ⟨fun _ => 0, [⟨0, 0, 1, 1⟩, ⟨1, 0, 1, 2⟩], [⟨1, 0, 1, 2⟩], [⟨0, 0, 1, 1⟩], fun _ _ _ => Int.le_refl _, ?_, ?_, ?_⟩
  · exact (List.Perm.swap _ _ _)
  · have h : judgeForest [0, 1] ([⟨0, 0, 1, 1⟩, ⟨1, 0, 1, 2⟩].map (rew fun _ => 0)) 12 [(0, 1, 0)] = none := by decide
    obtain ⟨M, R, hp, hd, hm⟩ := (C12_judge_iff [0, 1] _ 12 [(0, 1, 0)] (by decide) (by decide)).mp h
    -- every one-edge sub-multiset denoted by `(0, 1, 0)` has the same weight and endpoints; use the
    -- cycle-property characterisation directly instead
    refine (C12_cycle_property_iff_min _ _ ([⟨0, 0, 1, 1⟩].map (rew fun _ => 0)) (List.Perm.swap _ _ _)).mpr ?_
    refine ⟨C12_forestMust_sound _ (by decide), ?_, cycleCert_sound (by decide)⟩
    intro a b hc
    have hs : spanMust ([⟨0, 0, 1, 1⟩, ⟨1, 0, 1, 2⟩].map (rew fun _ => 0)) ([⟨1, 0, 1, 2⟩].map (rew fun _ => 0)) = true := by decide
    exact Conn.of_edges (fun e he => by
      have := (List.all_eq_true.mp hs) e he
      exact connQ_true_iff.mp (by simpa using this)) hc
  · intro hmin
    have hcp := C12_min_cycle_property _ _ [⟨0, 0, 1, 1⟩] (List.Perm.swap _ _ _) hmin
    have := hcp ⟨0, 0, 1, 1⟩ (List.mem_singleton.mpr rfl) (by decide) [] ⟨1, 0, 1, 2⟩ [] rfl
      (by intro hc; have h01 := conn_nil hc; exact absurd h01 (by decide))
    exact absurd this (by decide)

/-- non-vacuity of `C12_msf_order_invariant`: doubling-plus-one is strictly increasing -/
example : ∀ x y : Int, x < y → (fun z => 2 * z + 1) x < (fun z => 2 * z + 1) y := by
  intro x y h; show 2 * x + 1 < 2 * y + 1; omega

/-- **`MinScored::cmp` is the reversed order of the keys** (three-valued; `C12_minscored_key_embedding`
is its `<=` shadow): finite scores by value, `-∞` below, `+∞` above, NaN greatest — "last in the
MinScore order", as `src/scored.rs` documents -/
theorem C12_minscored_cmp_keys (a b : SP.Score) (ha : scoreInRangeB a = true) (hb : scoreInRangeB b = true) :
    SP.scoreCmp a b = cmpInt (scoreKey b) (scoreKey a) :=
  scoreCmp_eq_cmpInt a b ha hb

/-- **`MaxScored::cmp` is the order of the keys `maxKey`**: NaN is the LEAST score (so it is again
the last one a max-heap pops) -/
theorem C12_maxscored_cmp_keys (a b : SP.Score) (ha : scoreInRangeB a = true) (hb : scoreInRangeB b = true) :
    maxCmp a b = cmpInt (maxKey a) (maxKey b) :=
  maxCmp_eq_cmpInt a b ha hb

/-- hence both are total preorders: `cmp b a` is `cmp a b` reversed, and `<=` is transitive — what
`BinaryHeap` needs of `Ord` -/
theorem C12_scored_total_order (a b c : SP.Score) (ha : scoreInRangeB a = true) (hb : scoreInRangeB b = true)
    (hc : scoreInRangeB c = true) :
    (SP.scoreCmp a b = (match SP.scoreCmp b a with | .less => .greater | .equal => .equal | .greater => .less)) ∧
    (maxCmp a b = (match maxCmp b a with | .less => .greater | .equal => .equal | .greater => .less)) ∧
    (SP.scoreCmp a b ≠ .greater → SP.scoreCmp b c ≠ .greater → SP.scoreCmp a c ≠ .greater) ∧
    (maxCmp a b ≠ .greater → maxCmp b c ≠ .greater → maxCmp a c ≠ .greater) := by
  rw [scoreCmp_eq_cmpInt a b ha hb, scoreCmp_eq_cmpInt b a hb ha, scoreCmp_eq_cmpInt b c hb hc,
    scoreCmp_eq_cmpInt a c ha hc, maxCmp_eq_cmpInt a b ha hb, maxCmp_eq_cmpInt b a hb ha,
    maxCmp_eq_cmpInt b c hb hc, maxCmp_eq_cmpInt a c ha hc]
  refine ⟨cmpInt_flip _ _, cmpInt_flip _ _, ?_, cmpInt_le_trans _ _ _⟩
  -- reversed keys: `a ≤ b ≤ c` in MinScored's order is `key c ≤ key b ≤ key a`
  intro h1 h2
  rw [cmpInt_ne_greater_iff] at h1 h2 ⊢
  omega

/-- the two orders differ exactly on NaN: `MinScored` is not `MaxScored` with the arguments swapped
(the rewrite "`MinScored::cmp a b = MaxScored::cmp b a`" is wrong) -/
theorem C12_minscored_is_not_swapped_maxscored_witness :
    SP.scoreCmp .nan (.fin 0) = .less ∧ maxCmp (.fin 0) .nan = .greater ∧
    ∀ a b, a ≠ .nan → b ≠ .nan → SP.scoreCmp a b = maxCmp b a := by
  refine ⟨by decide, by decide, ?_⟩
  intro a b ha hb
  unfold SP.scoreCmp SP.minScoredCmp maxCmp maxScoredCmp
  cases a <;> cases b
  case fin.fin x y =>
    simp only [SP.Score.eq, SP.Score.lt]
    by_cases h1 : x = y
    · subst h1; simp
    · have h1' : ¬ y = x := fun h => h1 h.symm
      by_cases h2 : x < y
      · have h3 : ¬ y < x := by omega
        simp [h1, h1', h2, h3]
      · have h3 : y < x := by omega
        simp [h1, h1', h2, h3]
  all_goals first
    | (exfalso; exact ha rfl)
    | (exfalso; exact hb rfl)
    | decide
    | (simp [SP.Score.eq, SP.Score.lt]; done)

/-- **Judge soundness for every collecting kind** (`fe=` g, s, d, b, m): the clauses of Part 1 do not
depend on which graph type the stream was collected into -/
theorem C12_judgeK_kruskal_sound (kind : String) (g : MGraph) (ns : List Nat) (es : List EdgeEl)
    (feN feE : String) (h : judgeStreamK kind g false ns es feN feE = none) :
    ns = g.nodes ∧ ∃ S, absEdges ns es = some S ∧
      ∃ M R, Accepted g.nodes g.edges bruteBound S M R ∧ MinSpanningForest g.edges M := by
  unfold judgeStreamK at h
  split at h
  · cases h
  · rename_i hns
    refine ⟨by simpa using hns, ?_⟩
    split at h
    · cases h
    · rename_i S hS
      split at h
      · cases h
      · simp only [Bool.false_eq_true, if_false] at h
        obtain ⟨M, R, acc⟩ := judgeForest_sound h
        exact ⟨S, hS, M, R, acc, acc.spanningForest,
          cycleProperty_minimal acc.perm acc.acyclic acc.spanning acc.cycleProp⟩

theorem C12_judgeK_prim_sound (kind : String) (g : MGraph) (ns : List Nat) (es : List EdgeEl)
    (feN feE : String) (h : judgeStreamK kind g true ns es feN feE = none) :
    ns = g.nodes ∧ ∃ S, absEdges ns es = some S ∧
      (g.directed = false → PrimAccepted g.nodes g.edges bruteBound S) ∧
      (g.directed = true → (g.nodes = [] ∧ S = []) ∨ ∃ r rest, g.nodes = r :: rest ∧ DirPrimTree g.edges r S) := by
  unfold judgeStreamK at h
  split at h
  · cases h
  · rename_i hns
    refine ⟨by simpa using hns, ?_⟩
    split at h
    · cases h
    · rename_i S hS
      split at h
      · cases h
      · refine ⟨S, hS, fun hd => ?_, fun hd => ?_⟩
        · simp only [if_true, hd, Bool.false_eq_true, if_false] at h
          exact judgePrimEdges_sound h
        · simp only [if_true, hd] at h
          exact (judgePrimDirected_iff g.nodes g.edges S).mp h

/-- what the `from_elements` check of kind `b` accepts beyond capacity is the documented panic only;
of kind `m`, a rearrangement of the stream's edges as unordered pairs -/
theorem C12_feOk_kinds (ns : List Nat) (S : List (Nat × Nat × Int)) (feN feE : String) :
    ((ns.length > 255 ∨ S.length > 255) → feOk "b" ns S feN feE = none → feN = "panic") ∧
    (feOk "m" ns S feN feE = none → parseNats feN = ns ∧
      ∃ got, parseTriples feE = some got ∧ (got.map normTriple).Perm (S.map normTriple)) := by
  constructor
  · intro hbig h
    unfold feOk at h
    have hc : (("b" : String) == "b" && (decide (ns.length > 255) || decide (S.length > 255))) = true := by
      rcases hbig with h1 | h1 <;> simp [h1]
    rw [if_pos hc] at h
    split at h
    · rename_i hp; simpa using hp
    · cases h
  · intro h
    unfold feOk at h
    have hmb : (("m" : String) == "b") = false := by decide
    have hc : ¬ ((("m" : String) == "b" && (decide (ns.length > 255) || decide (S.length > 255))) = true) := by
      rw [hmb]; simp
    rw [if_neg hc] at h
    split at h
    · cases h
    · split at h
      · cases h
      · rename_i hn
        refine ⟨by simpa using hn, ?_⟩
        simp only [show (("m" : String) == "m") = true by decide, if_true] at h
        split at h
        · cases h
        · rename_i got hg
          split at h
          · rename_i hp
            exact ⟨got, hg, List.isPerm_iff.mp hp⟩
          · cases h

/-! run-time checks of the hypotheses (wave 6) -/

/-- every weight the driver reads from a stream token is the key of an in-range score (hypothesis of
`C12_minscored_cmp_keys`; anything else is a malformed token, i.e. `SPECFAIL`) -/
theorem C12_token_range_check (s : String) (a b : Nat) (w : Int) (h : parseTok s = .edge a b w) :
    ∃ x : SP.Score, scoreInRangeB x = true ∧ w = scoreKey x := by
  unfold parseTok at h
  split at h
  · split at h <;> cases h
  · split at h
    · split at h
      · split at h
        · rename_i x _ _ _
          split at h
          · rename_i hr
            cases h
            exact ⟨_, hr, rfl⟩
          · cases h
        · cases h
      · cases h
    · cases h

/-- every weight of the judged graph is an integer of the `edges=` field or the key of a score of the
`sw=` field, which the driver checked to be in range -/
theorem C12_special_weights_check (sw : List (Nat × SP.Score)) (v : View)
    (hsw : (sw.all fun x => scoreInRangeB x.2) = true) (e : Edge) (he : e ∈ (applySW sw v).g.edges) :
    (∃ e0 ∈ v.g.edges, e = e0) ∨ ∃ x, scoreInRangeB x = true ∧ e.w = scoreKey x := by
  rcases applySW_weights sw v e he with h | ⟨x, ⟨k, hk⟩, hw⟩
  · exact Or.inl h
  · exact Or.inr ⟨x, (List.all_eq_true.mp hsw) (k, x) hk, hw⟩

/-- `applySW` leaves nodes, direction, edge ids and endpoints alone -/
theorem C12_special_weights_shape (sw : List (Nat × SP.Score)) (v : View) :
    (applySW sw v).g.nodes = v.g.nodes ∧ (applySW sw v).g.directed = v.g.directed ∧
    (applySW sw v).g.edges.map (fun e => (e.id, e.src, e.tgt)) = v.g.edges.map (fun e => (e.id, e.src, e.tgt)) :=
  applySW_shape sw v

/-- an `ok` verdict on a `graph` line: the named side conditions hold for the judged view and no
`edges(a)` entry reports a source other than `a` (so the Prim mirror, which pushes `(a, other)`, sees
what the iterator sees) -/
theorem C12_graph_ok_check (enc : String) (inc : List (Nat × List Nat)) (raw : View)
    (h : (graphVerdictOf enc inc raw).2 = .ok) :
    (graphVerdictOf enc inc raw).1.ok = true ∧ viewFailure (graphVerdictOf enc inc raw).1.v = none ∧
      (graphVerdictOf enc inc raw).1.incAny = false := by
  generalize hr : graphVerdictOf enc inc raw = r at h ⊢
  unfold graphVerdictOf at hr
  dsimp only at hr
  split at hr
  · subst hr; cases h
  · rename_i hw
    split at hr
    · split at hr
      · subst hr; cases h
      · split at hr <;> (subst hr; cases h)
    · rename_i hi
      split at hr
      · subst hr; cases h
      · subst hr
        exact ⟨rfl, hw, by simpa using hi⟩

/-- … and on a whole `graph` line -/
theorem C12_graph_line_ok_check (req : List String) (h : (graphVerdict req).2 = .ok) :
    (graphVerdict req).1.ok = true ∧ viewFailure (graphVerdict req).1.v = none ∧
      (graphVerdict req).1.incAny = false := by
  generalize hr : graphVerdict req = r at h ⊢
  unfold graphVerdict at hr
  split at hr
  · subst hr; cases h
  · dsimp only at hr
    split at hr
    · subst hr; cases h
    · subst hr
      exact C12_graph_ok_check _ _ _ h

/-- without flagged entries the view Prim's mirror runs on is the reported view -/
theorem C12_prim_view_check (v : View) : primView [] v = v := primView_nil v

/-- the self-loop surgery applied to `UndirectedAdaptor` views only removes entries, and none from a
row without self-loops -/
theorem C12_dedup_check (a : Nat) (row : List (Nat × Nat)) :
    (dedupRow a [] row).Sublist row ∧ ((∀ oe ∈ row, oe.1 ≠ a) → dedupRow a [] row = row) :=
  ⟨dedupRow_sublist a [] row, dedupRow_no_loops a [] row⟩

/-! non-vacuity (wave 6): a triangle with a NaN edge and a parallel pair; the judge, on keys, accepts
the forest that avoids NaN and rejects the one that uses it; `mscmp` answers; the graph verdict -/
def nanE : List Edge := [⟨0, 0, 1, scoreKey .nan⟩, ⟨1, 1, 2, 2⟩, ⟨2, 0, 2, 3⟩, ⟨3, 1, 2, scoreKey .pinf⟩]
example : judgeForest [0, 1, 2] nanE 12 [(1, 2, 2), (0, 2, 3)] = none := by decide
example : (judgeForest [0, 1, 2] nanE 12 [(0, 1, scoreKey .nan), (1, 2, 2)]).isSome = true := by decide
example : cmpAnswer (SP.scoreCmp .nan (.fin 1)) = "cmp=l pcmp=l eq=0 ne=1 lt=1 le=1 gt=0 ge=0 max=b min=a" := by decide
example : cmpAnswer (maxCmp .nan (.fin 1)) = "cmp=l pcmp=l eq=0 ne=1 lt=1 le=1 gt=0 ge=0 max=b min=a" := by decide
example : (([(7, 5, 1)] : List (Nat × Nat × Int)).map normTriple).isPerm ([(5, 7, 1)].map normTriple) = true ∧
    (([(7, 5, 1)] : List (Nat × Nat × Int)).map normTriple).isPerm ([(5, 7, 2)].map normTriple) = false := by decide
example : dedupRow 3 [] [(3, 9), (4, 1), (3, 9), (3, 8)] = [(3, 9), (4, 1), (3, 8)] := by decide

end PetgraphModel.C12T
