import PetgraphModel.Model.StableGraph
import PetgraphModel.Spec.StableGraphSpec
import PetgraphModel.Proofs.StableGraph
import PetgraphModel.Proofs.StableGraphRefine
import PetgraphModel.Proofs.StableGraphBulk
import PetgraphModel.Proofs.StableGraphQuery
import PetgraphModel.Proofs.StableGraphFilterMap
import PetgraphModel.Proofs.StableGraphExtend
import PetgraphModel.Proofs.StableGraphCompact
import PetgraphModel.Proofs.StableGraphHistory
import PetgraphModel.Proofs.C02W4Query
import PetgraphModel.Proofs.C02W4Calls
import PetgraphModel.Proofs.C02W4Extend
import PetgraphModel.Proofs.C02W4History
import PetgraphModel.Proofs.C02W6Iter
/-
C02 — `StableGraph` keeps every surviving index valid and its bookkeeping exact.

Only property theorems live here; definitions and helper lemmas are in `Proofs/StableGraph*.lean`.
Every theorem is about the mirror model `SG` (tied to `/repo/src/graph_impl/stable_graph/mod.rs` by the exact
correspondence run of `./check C02`) and the abstract reference multigraph `SGSpec`
(`abs : SG.State → SGSpec.Spec` forgets `next` pointers, free lists and counters).

In the model a fault (`Except.error`) stands for every way the real code could go wrong without being asked to:
bounds-checked indexing out of range, a loop that does not terminate, a failing `debug_assert!` (debug builds;
`State.debug` is a parameter, so every statement covers debug and release), counter underflow.  "`step s op = .ok _`"
therefore reads "the call returns normally".
-/
namespace PetgraphModel.C02T
open PetgraphModel PetgraphModel.SG PetgraphModel.SGProofs PetgraphModel.SGSpec

/-- the representation invariant between public calls: array lengths within the index type; vacant edge
slots carry `end()` endpoints; endpoints of live edges are live; for every live node and direction the
`next` chain lists exactly the live edges with that endpoint, each once; the free edge list is exactly the
vacant edge slots; the free node list is a well-formed doubly linked list (forward and back pointers) of
exactly the vacant node slots; `node_count`/`edge_count` are the numbers of live slots -/
abbrev Inv := SGProofs.Inv

/-- the reference multigraph a state stands for -/
abbrev abs := SGProofs.abs

/-- a new graph satisfies the invariant. -/
theorem C02_inv_init (directed : Bool) (fin : Nat) (noLimit debug : Bool) : Inv (empty directed fin noLimit debug) :=
  inv_empty directed fin noLimit debug

/-- **invariant + no panic**: from a state satisfying the invariant EVERY call of the alphabet
(`try_add_node`, `try_add_edge`, `try_update_edge`, `remove_node`, `remove_edge`, weight updates, `reverse`, `clear`,
`clear_edges`, `retain_nodes`, `retain_edges`, `map`, `filter_map`, `extend_with_edges`, the round trip through
`Graph`, `clone`) — with arbitrary arguments, valid or not, in debug and in release builds — returns normally
(no out-of-bounds access, no non-terminating loop, no failing `debug_assert!`/`check_free_lists`, no counter
underflow) and re-establishes the invariant. -/
theorem C02_inv_step (s : State) (op : Op) (hinv : Inv s) :
    ∃ s' out, step s op = .ok (s', out) ∧ Inv s' :=
  step_inv_all hinv op

/-- all histories: no call of any history faults, and the invariant holds at the end (hence after every prefix). -/
theorem C02_all_histories (directed : Bool) (fin : Nat) (noLimit debug : Bool) (ops : List Op) :
    ∃ s' outs, run (empty directed fin noLimit debug) ops = .ok (s', outs) ∧ Inv s' ∧ outs.length = ops.length := by
  suffices h : ∀ (ops : List Op) (s : State), Inv s →
      ∃ s' outs, run s ops = .ok (s', outs) ∧ Inv s' ∧ outs.length = ops.length from
    h ops _ (inv_empty directed fin noLimit debug)
  intro ops
  induction ops with
  | nil => intro s hinv; exact ⟨s, [], rfl, hinv, rfl⟩
  | cons op ops ih =>
    intro s hinv
    obtain ⟨s1, o, h1, hinv1⟩ := step_inv_all hinv op
    obtain ⟨s2, os, h2, hinv2, hlen⟩ := ih s1 hinv1
    exact ⟨s2, o :: os, by simp [run, h1, h2], hinv2, by simp [hlen]⟩

/-- **fresh index** (`try_add_node`): the index handed out is a valid index that was not live, the new graph is
the old one plus that node, nothing else changes. -/
theorem C02_add_node_refines (s s' : State) (w : Int) (i : Nat) (hinv : Inv s)
    (h : tryAddNode s w = .ok (s', .ok i)) :
    (abs s).freshNode s.fin i = true ∧ abs s' = (abs s).addNodeAt i w ∧ Inv s' :=
  addNode_refines hinv h

/-- `try_add_node` reports an error only when every valid index is live (`NodeIxLimit`), and then the concrete
state — not merely what can be observed of it — is unchanged. -/
theorem C02_add_node_error (s s' : State) (w : Int) (e : GErr) (hinv : Inv s)
    (h : tryAddNode s w = .ok (s', .error e)) :
    s' = s ∧ e = .nodeIxLimit ∧ (abs s).nodeCount = s.fin :=
  addNode_error hinv h

/-- **`try_add_edge`**: on `Ok(e)` both endpoints are live, `e` is a valid index that was not live and the new
graph is the old one plus that edge; on `Err` the concrete state is unchanged (this is where the repaired D2 lived:
the vacant slot taken from the free list is put back), `EdgeIxLimit` is reported only when every valid edge index is
live and `NodeMissed(i)` names an endpoint that is indeed absent. -/
theorem C02_add_edge_refines (s s' : State) (a b : Nat) (w : Int) (r : Except GErr Nat) (hinv : Inv s)
    (h : tryAddEdge s a b w = .ok (s', r)) :
    Inv s' ∧
    (∀ e, r = .ok e → (abs s).nodeLive a = true ∧ (abs s).nodeLive b = true ∧ (abs s).freshEdge s.fin e = true ∧
      abs s' = (abs s).addEdgeAt e a b w) ∧
    (∀ err, r = .error err → s' = s ∧
      (err = .edgeIxLimit → (abs s).edgeCount = s.fin) ∧
      (∀ i, err = .nodeMissed i → (i = a ∨ i = b) ∧ (abs s).nodeLive i = false) ∧ err ≠ .nodeIxLimit) :=
  addEdge_refines hinv h

/-- **error ⇒ unchanged**, for every fallible call: a `try_add_node` / `try_add_edge` / `try_update_edge` that
answers `Err` leaves the concrete state equal. -/
theorem C02_err_unchanged (s s' : State) (op : Op) (e : GErr) (hinv : Inv s)
    (h : step s op = .ok (s', .idx (.error e))) : s' = s := by
  cases op with
  | addNode w =>
    simp only [step] at h
    cases h1 : tryAddNode s w with
    | error x => rw [h1] at h; cases h
    | ok p =>
      obtain ⟨s1, r⟩ := p
      rw [h1] at h; simp only [Except.ok.injEq, Prod.mk.injEq, Out.idx.injEq] at h
      obtain ⟨rfl, rfl⟩ := h
      exact (addNode_error hinv h1).1
  | addEdge a b w =>
    simp only [step] at h
    cases h1 : tryAddEdge s a b w with
    | error x => rw [h1] at h; cases h
    | ok p =>
      obtain ⟨s1, r⟩ := p
      rw [h1] at h; simp only [Except.ok.injEq, Prod.mk.injEq, Out.idx.injEq] at h
      obtain ⟨rfl, rfl⟩ := h
      exact ((addEdge_refines hinv h1).2.2 e rfl).1
  | updateEdge a b w =>
    simp only [step] at h
    cases h1 : tryUpdateEdge s a b w with
    | error x => rw [h1] at h; cases h
    | ok p =>
      obtain ⟨s1, r⟩ := p
      rw [h1] at h; simp only [Except.ok.injEq, Prod.mk.injEq, Out.idx.injEq] at h
      obtain ⟨rfl, rfl⟩ := h
      obtain ⟨s2, r2, h2, _, herr⟩ := tryUpdateEdge_inv hinv a b w
      rw [h1] at h2; cases h2
      exact herr e rfl
  | removeNode a => simp only [step] at h; split at h <;> cases h
  | removeEdge a => simp only [step] at h; split at h <;> cases h
  | setNodeWeight a w => simp [step] at h
  | setEdgeWeight a w => simp [step] at h
  | reverse => simp [step] at h
  | clear => simp [step] at h
  | clearEdges => simp [step] at h
  | retainNodes rm => simp only [step] at h; split at h <;> cases h
  | retainEdges rm => simp only [step] at h; split at h <;> cases h
  | map cn ce => simp [step] at h
  | filterMap a b c d => simp only [step] at h; split at h <;> cases h
  | extendWithEdges l => simp only [step] at h; split at h <;> cases h
  | compact => simp only [step] at h; split at h <;> cases h
  | clone => simp [step] at h

/-- **`remove_node`**: answers the weight iff the node is live; the new graph is the old one without the node and
without every edge that had an endpoint in it; every other element keeps its index. -/
theorem C02_remove_node_refines (s s' : State) (a : Nat) (r : Option Int) (hinv : Inv s)
    (h : removeNode s a = .ok (s', r)) :
    Inv s' ∧ r = (abs s).node a ∧ abs s' = (abs s).removeNode a :=
  removeNode_refines hinv h

/-- **`remove_edge`**: answers the weight iff the edge is live; exactly that edge disappears. -/
theorem C02_remove_edge_refines (s s' : State) (e : Nat) (r : Option Int) (hinv : Inv s)
    (h : removeEdge s e = .ok (s', r)) :
    Inv s' ∧ r = ((abs s).edge e).map (·.w) ∧ abs s' = (abs s).removeEdge e :=
  removeEdge_refines hinv h

/-- **`find_edge`** (hence `contains_edge`, and the lookup of `update_edge`): never faults, answers a live edge
connecting `a` to `b` if it answers one, and `None` only if there is none. -/
theorem C02_find_edge (s : State) (a b : Nat) (hinv : Inv s) :
    ∃ r, findEdge s a b = .ok r ∧
      (∀ e, r = some e → ∃ x, s.edges[e]? = some x ∧ x.w.isSome ∧ Connects s x a b) ∧
      (r = none → ∀ (e : Nat) (x : Edge), s.edges[e]? = some x → x.w.isSome → ¬ Connects s x a b) :=
  findEdge_spec hinv a b

/-- **counts, bounds and index iterators describe the same set**: `node_count`/`edge_count` are the numbers of live
elements, `node_bound`/`edge_bound` are "last live index + 1", `node_indices`/`edge_indices`/`node_references`/
`edge_references` enumerate exactly the live elements of the reference multigraph, in index order. -/
theorem C02_counts_bounds_iterators (s : State) (hinv : Inv s) :
    s.nodeCount = (abs s).nodeCount ∧ s.edgeCount = (abs s).edgeCount ∧
    nodeBound s = (abs s).nodeBound ∧ edgeBound s = (abs s).edgeBound ∧
    nodeIndices s = (abs s).nodeIds ∧ edgeIndices s = (abs s).edgeIds ∧
    nodeReferences s = (abs s).nodeRefs ∧
    (edgeReferences s).map (fun r => (r.id, (⟨r.a, r.b, r.w⟩ : SEdge))) = (abs s).edgeRefs ∧
    (nodeIndices s).length = s.nodeCount ∧ (edgeIndices s).length = s.edgeCount :=
  ⟨(counts_abs hinv).1, (counts_abs hinv).2, nodeBound_abs s, edgeBound_abs s, nodeIndices_abs s, edgeIndices_abs s,
   nodeReferences_abs s, edgeReferences_abs s,
   by rw [nodeIndices_abs, (counts_abs hinv).1]; rfl, by rw [edgeIndices_abs, (counts_abs hinv).2]; rfl⟩

/-- **bounds**: there is no live node at or above `node_bound`, and if it is positive the node just below it is
live (same for edges: `boundOf` is the common loop). -/
theorem C02_bounds (s : State) :
    nodeBound s ≤ s.nodes.length ∧ (∀ i, nodeBound s ≤ i → nodeWeight s i = none) ∧
    (0 < nodeBound s → (nodeWeight s (nodeBound s - 1)).isSome) := by
  have hb : nodeBound s = boundOf (s.nodes.map (·.w)) := rfl
  refine ⟨by rw [hb]; simpa using boundOf_le (s.nodes.map (·.w)), fun i hi => ?_, fun h => ?_⟩
  · have := boundOf_above (s.nodes.map (·.w)) i (hb ▸ hi)
    unfold nodeWeight
    rw [List.getElem?_map] at this
    cases hn : s.nodes[i]? with
    | none => rfl
    | some n => rw [hn] at this; simpa using this
  · obtain ⟨a, ha⟩ := boundOf_last (s.nodes.map (·.w)) (hb ▸ h)
    unfold nodeWeight
    rw [hb]
    rw [List.getElem?_map] at ha
    cases hn : s.nodes[boundOf (s.nodes.map (·.w)) - 1]? with
    | none => rw [hn] at ha; simp at ha
    | some n => rw [hn] at ha; simp at ha; simp [ha]

/-- **adjacency iterators**: for every index `a` there are the two adjacency lists `l0` (outgoing) and `l1` (incoming) —
duplicate-free, consisting of exactly the live edges with source resp. target `a` when `a` is a live node, empty
otherwise — and every iterator of the API runs over them without a fault (no out-of-bounds access, no failing
`debug_assert!`, termination), yielding one item per list element; in the modes that walk both lists a self-loop is
reported once (`nbIn`/`erIn`/`wkIn` drop the incoming-list entry whose source is `a`). -/
theorem C02_adjacency_iterators (s : State) (a : Nat) (hinv : Inv s) :
    ∃ l0 l1 : List Nat, l0.Nodup ∧ l1.Nodup ∧
      (∀ e, e ∈ l0 ↔ (nodeWeight s a).isSome ∧ ∃ x, s.edges[e]? = some x ∧ x.w.isSome ∧ x.a = a) ∧
      (∀ e, e ∈ l1 ↔ (nodeWeight s a).isSome ∧ ∃ x, s.edges[e]? = some x ∧ x.w.isSome ∧ x.b = a) ∧
      neighborsUndirected s a = .ok (l0.filterMap (nbOut s.edges) ++ l1.filterMap (nbIn s.edges a)) ∧
      neighborsDirected s a 0 = .ok (if s.directed then l0.filterMap (nbOut s.edges)
        else l0.filterMap (nbOut s.edges) ++ l1.filterMap (nbIn s.edges a)) ∧
      neighborsDirected s a 1 = .ok (if s.directed then l1.filterMap (nbIn s.edges s.fin)
        else l0.filterMap (nbOut s.edges) ++ l1.filterMap (nbIn s.edges a)) ∧
      (∀ dirIn, edgesDirected s a dirIn = .ok (
        if s.directed then
          (if dirIn then l1.filterMap (erIn s.edges true true a) else l0.filterMap (erOut s.edges true false))
        else l0.filterMap (erOut s.edges false dirIn) ++ l1.filterMap (erIn s.edges false dirIn a))) ∧
      (∀ k, walker s a k = .ok (
        if s.directed && decide (k < 2) then
          (if k = 0 then l0.filterMap (wkOut s.edges) else l1.filterMap (wkIn s.edges s.fin))
        else l0.filterMap (wkOut s.edges) ++ l1.filterMap (wkIn s.edges a))) := by
  obtain ⟨l0, l1, h⟩ := adjLists_exist hinv a
  exact ⟨l0, l1, h.c0.nodup, h.c1.nodup, h.m0, h.m1, neighborsUndirected_spec hinv h,
    (neighborsDirected_spec hinv h).1, (neighborsDirected_spec hinv h).2, edgesDirected_spec hinv h, walker_spec hinv h⟩

/-- **`externals(dir)`** lists exactly the live nodes without an edge in that direction (without any edge, in an
undirected graph). -/
theorem C02_externals (s : State) (k : Nat) (hk : k < 2) (i : Nat) (hinv : Inv s) :
    i ∈ externals s k ↔ (nodeWeight s i).isSome ∧
      (∀ (e : Nat) (x : Edge), s.edges[e]? = some x → x.w.isSome → x.node k ≠ i) ∧
      (s.directed = false → ∀ (e : Nat) (x : Edge), s.edges[e]? = some x → x.w.isSome → x.node (1 - k) ≠ i) :=
  externals_spec hinv k hk i

/-- **`try_update_edge`**: if a live edge connecting `a` to `b` exists, one such edge gets the weight and its index is
answered; otherwise the call behaves exactly as `try_add_edge` (`C02_add_edge_refines`). -/
theorem C02_update_edge_refines (s s' : State) (a b : Nat) (w : Int) (r : Except GErr Nat) (hinv : Inv s)
    (h : tryUpdateEdge s a b w = .ok (s', r)) :
    Inv s' ∧
    ((∃ e x, r = .ok e ∧ s.edges[e]? = some x ∧ x.w.isSome ∧ Connects s x a b ∧ abs s' = (abs s).setEdgeWeight e w) ∨
     ((∀ (e : Nat) (x : Edge), s.edges[e]? = some x → x.w.isSome → ¬ Connects s x a b) ∧
       tryAddEdge s a b w = .ok (s', r))) :=
  updateEdge_refines hinv h

/-- **`retain_nodes` / `retain_edges`**: the closure is called for exactly the live elements, in index order, and exactly
the rejected ones are removed (nodes together with their incident edges); all other indices are kept. -/
theorem C02_retain_refines (s s' : State) (rm vis : List Nat) (hinv : Inv s) :
    (retainNodes s rm = .ok (s', vis) →
      abs s' = (abs s).retainNodes rm ∧ vis = (List.range (abs s).nodeBound).filter (fun i => (abs s).nodeLive i)) ∧
    (retainEdges s rm = .ok (s', vis) →
      abs s' = (abs s).retainEdges rm ∧ vis = (List.range (abs s).edgeBound).filter (fun i => (abs s).edgeLive i)) :=
  ⟨retainNodes_refines hinv, retainEdges_refines hinv⟩

/-- **`reverse`, `clear`, `clear_edges`, `map`, weight updates** keep exactly the elements — and the indices — they
should: in the reference every edge has its endpoints swapped / everything is gone / all edges are gone / only weights
change (and the closures of `map` are called for exactly the live elements). -/
theorem C02_whole_graph_refines (s : State) (cn ce : Int) (a : Nat) (w : Int) :
    abs (reverse s) = (abs s).reverse ∧ abs (clear s) = (abs s).clear ∧ abs (clearEdges s) = (abs s).clearEdges ∧
    abs (mapGraph s cn ce).1 = (abs s).mapWeights cn ce ∧
    (mapGraph s cn ce).2.1 = (abs s).nodeIds ∧ (mapGraph s cn ce).2.2 = (abs s).edgeIds ∧
    abs (setNodeWeight s a w).1 = (abs s).setNodeWeight a w ∧ (setNodeWeight s a w).2 = (abs s).nodeLive a ∧
    abs (setEdgeWeight s a w).1 = (abs s).setEdgeWeight a w ∧ (setEdgeWeight s a w).2 = (abs s).edgeLive a :=
  ⟨reverse_refines s, clear_refines s, clearEdges_refines s, (mapGraph_refines s cn ce).1, (mapGraph_refines s cn ce).2.1,
   (mapGraph_refines s cn ce).2.2, (setNodeWeight_refines s a w).1, (setNodeWeight_refines s a w).2,
   (setEdgeWeight_refines s a w).1, (setEdgeWeight_refines s a w).2⟩

/-- **no valid call panics** (the one documented panic of the alphabet): `extend_with_edges` answers with the index-limit
panic of its inner `add_node`/`add_edge` only when the request does not fit the index type — if every named node index is
a valid index and the edges fit, it completes. (All other calls of the model never panic at all: their panicking
variants `add_node`, `add_edge`, `update_edge`, `Index` are the `try_`/`Option` calls followed by `unwrap`, which panics
exactly on the answers characterised by `C02_add_node_error`, `C02_add_edge_refines`, `C02_whole_graph_refines`.) -/
theorem C02_no_panic_extend (s : State) (l : List (Nat × Nat × Int)) (hinv : Inv s)
    (hvalid : ∀ x ∈ l, x.1 < s.fin ∧ x.2.1 < s.fin) (hfit : s.edgeCount + l.length ≤ s.fin) :
    ∃ s', extendWithEdges s l = .ok (s', false) ∧ Inv s' :=
  extendWithEdges_no_panic l hinv hvalid hfit

/-- the debug-only self check `check_free_lists` (called from `retain_*` and `filter_map`) passes in every state
satisfying the invariant. -/
theorem C02_check_free_lists (s : State) (hinv : Inv s) : checkFreeLists s = .ok () :=
  checkFreeLists_ok hinv

/-- **refinement, one call**: EVERY call is a transition of the reference machine `SpecStep` (partial maps; insertion may
hand out any valid index that is not live; errors leave the reference unchanged and are reported only for the documented
reasons; removals take exactly the named element and, for a node, its incident edges; `retain_*`, `filter_map`, `map`,
`reverse`, `clear`, `clear_edges`, `extend_with_edges`, the `Graph` round trip and `clone` keep exactly the elements — and
the indices — they should). -/
theorem C02_refines (s s' : State) (op : Op) (out : Out) (hinv : Inv s)
    (h : step s op = .ok (s', out)) : SpecStep s.fin (abs s) op out (abs s') :=
  step_refines hinv h

/-- **refinement, all histories**: for every finite sequence of calls of the whole alphabet, with valid or invalid
arguments, for both edge types and every index width, in debug and release — the answers and the final state of the model
are a run of the reference multigraph machine (and the invariant holds at the end). With `C02_all_histories` (no run ever
faults) this is the property statement over the model. -/
theorem C02_history_refines (ops : List Op) (s s' : State) (outs : List Out) (hinv : Inv s)
    (h : run s ops = .ok (s', outs)) :
    SpecRun s.fin (abs s) ops outs (abs s') ∧ Inv s' :=
  run_refines ops hinv h

/-- **`filter_map`** keeps exactly the elements — and the indices — it should: a node survives iff it is live and its closure
answers `Some` (then it keeps its index and gets the mapped weight); an edge survives iff it is live, both endpoints survive
and its closure answers `Some`; nothing else appears; `node_map` is called for exactly the live nodes and `edge_map` for
exactly the live edges whose endpoints survived. (`map` is `C02_whole_graph_refines`.) -/
theorem C02_filter_map_refines (s s' : State) (dn de vn ve : List Nat) (cn ce : Int) (hinv : Inv s)
    (h : filterMap s dn de cn ce = .ok (s', vn, ve)) :
    Inv s' ∧ (abs s').equiv ((abs s).filterMap dn de cn ce) ∧ vn = (abs s).nodeIds ∧
      ve = (abs s).filterMapEdgeCalls dn :=
  filterMap_refines hinv h

/-- **conversions `Graph ↔ StableGraph`**: `Graph::from(stable_graph)` never indexes `node_index_map` out of range nor trips
its `debug_assert!`s, and its result — read back with `StableGraph::from(graph)`, which keeps all indices — is the compaction
of the reference: the live nodes in index order (a node's new index is its rank among the live nodes), the live edges in
index order with endpoints renamed accordingly, all weights kept; and — the documented clause — if there is no vacancy
(`node_count == node_bound`, `edge_count == edge_bound`) every node and edge keeps its index. -/
theorem C02_conversions (s g : State) (hinv : Inv s) (h : toGraph s = .ok g) :
    abs g = (abs s).compact ∧ Inv g ∧
    (s.nodeCount = nodeBound s → s.edgeCount = edgeBound s → (abs g).equiv (abs s)) :=
  ⟨(toGraph_refines hinv h).1, (toGraph_refines hinv h).2.1, toGraph_no_vacancy hinv h⟩

/-! non-vacuity: a concrete history with removals, a failed `try_add_edge` through the free-edge branch, re-use of
vacancies, `reverse`, `retain_nodes`, `filter_map`, `extend_with_edges` with a gap, the `Graph` round trip and `clear_edges`\non a graph with vacancies -/
def demoOps : List Op :=
  [.addNode 1, .addNode 2, .addNode 3, .addEdge 0 1 10, .addEdge 1 2 11, .addEdge 2 2 12, .removeEdge 1,
   .removeNode 0, .addEdge 0 1 13, .addEdge 1 2 14, .addNode 4, .reverse, .retainNodes [1], .filterMap [] [0] 0 0,
   .extendWithEdges [(5, 1, 7)], .compact, .clearEdges, .addNode 5]

example : (run (empty true 255 false true) demoOps).toOption.map (fun p => (p.1.nodeCount, p.1.edgeCount, nodeIndices p.1)) =
    some (5, 0, [0, 1, 2, 3, 4]) := by decide

/-! ## wave 4: queries, panicking variants, `extend_with_edges` in general, constructors

`Spec/C02W4Queries.lean` gives the reference multigraph its OBSERVATIONS: `SpecQuery sp q out` says — in terms of the two
partial maps only — which answers the reference admits for the query `q` (counts and bounds are determined, iterators up to
order, the endpoint order of an undirected edge up to swapping, `find_edge*` any connecting live edge).  `SG.query` is the
mirror model's implementation of all 23 read-only calls, `SG.pstep` the panicking call variants, `SG.callStep`/`SG.runCalls` one
call / a history of mutating calls, panicking variants and queries, `SG.construct` the constructors. -/

/-- **queries refine the reference, through `abs`**: in every state satisfying the invariant EVERY query — counts, bounds,
`node_indices`/`edge_indices`/`node_references`/`edge_references`, `node_weight`/`contains_node`/`edge_weight`/
`edge_endpoints`, `neighbors`/`neighbors_directed`/`neighbors_undirected`, `edges`/`edges_directed`, the detached walkers,
`externals`, `find_edge`/`find_edge_undirected`/`contains_edge`, `edges_connecting` — returns normally (no out-of-bounds
access, no non-termination, no failing `debug_assert!`) and its answer is one the reference multigraph `abs s` admits. -/
theorem C02_query_refines (s : State) (q : Query) (hinv : Inv s) :
    ∃ out, query s q = .ok out ∧ SpecQuery (abs s) q out :=
  query_refines hinv q

/-- the adjacency iterators spelled out (instances of `C02_query_refines`): each lists — in some order — exactly the items the
reference computes from its edge map: `neighborsOf`/`walkOf`/`edgesOf` filter `edgeRefs` by `source = a` / `target = a` / either
(a self-loop once), an undirected graph always uses "either" and orients `edges_directed` so that `a` is the source
(`Outgoing`) resp. the target (`Incoming`). -/
theorem C02_adjacency_refines (s : State) (a : Nat) (hinv : Inv s) :
    (∃ l, neighbors s a = .ok l ∧ l.Perm ((abs s).neighborsOf a 0)) ∧
    (∃ l, neighborsDirected s a 0 = .ok l ∧ l.Perm ((abs s).neighborsOf a 0)) ∧
    (∃ l, neighborsDirected s a 1 = .ok l ∧ l.Perm ((abs s).neighborsOf a 1)) ∧
    (∃ l, neighborsUndirected s a = .ok l ∧ l.Perm ((abs s).neighborsOf a 2)) ∧
    (∀ dirIn, ∃ l, edgesDirected s a dirIn = .ok l ∧ (l.map erefT).Perm ((abs s).edgesOf a dirIn)) ∧
    (∀ k, ∃ l, walker s a k = .ok l ∧ l.Perm ((abs s).walkOf a k)) :=
  ⟨(neighbors_refines hinv a).1, (neighbors_refines hinv a).1, (neighbors_refines hinv a).2.1, (neighbors_refines hinv a).2.2,
   fun d => edgesDirected_refines hinv a d, fun k => walker_refines hinv a k⟩

/-- **`edges_connecting(a, b)`** lists — in some order — exactly the live edges of the reference that lead from `a` to `b`
(that connect `a` and `b`, in an undirected graph; a self-loop once), each reported as `(id, a, b, weight)`. -/
theorem C02_edges_connecting (s : State) (a b : Nat) (hinv : Inv s) :
    ∃ l, edgesConnecting s a b = .ok l ∧ (l.map erefT).Perm ((abs s).connecting a b) :=
  edgesConnecting_refines hinv a b

/-- `externals(dir)` through `abs` (all directions, both edge types): exactly the live nodes of the reference without an
incident edge in that mode. -/
theorem C02_externals_refines (s : State) (dirIn : Bool) (hinv : Inv s) :
    (externals s (dirK dirIn)).Perm ((abs s).externalsOf dirIn) :=
  externals_refines hinv dirIn

/-- **the executable judge IS the specification**: the Boolean `specQueryB`, which the driver evaluates on every answer of the
IMPLEMENTATION to a query, accepts exactly the answers the reference admits. -/
theorem C02_query_judge_iff (sp : Spec) (q : Query) (out : QOut) : specQueryB sp q out = true ↔ SpecQuery sp q out :=
  specQueryB_iff sp q out

/-- **the panicking call variants** (`add_node`, `add_edge`, `update_edge`, `Index`, `IndexMut`, `index_twice_mut`): no fault;
the invariant is kept; the call is a transition `SpecPStep` of the reference, i.e. it panics EXACTLY under its documented
condition `Spec.panics` — `add_node`: every valid node index is live; `add_edge`: an endpoint is absent or every valid edge
index is live; `update_edge`: no connecting edge exists and `add_edge` would panic; `Index`/`IndexMut`: the element is absent;
`index_twice_mut`: same kind and same index, or an element is absent — and otherwise does what the `try_`/`Option` twin does;
and a panic leaves the CONCRETE state equal. -/
theorem C02_panicking_variants (s : State) (c : PCall) (hinv : Inv s) :
    ∃ s' out, pstep s c = .ok (s', out) ∧ Inv s' ∧ s'.fin = s.fin ∧ SpecPStep s.fin (abs s) c out (abs s') ∧
      (out = .panic → s' = s) :=
  pstep_refines hinv c

/-- **no valid call panics, and every invalid one does**: the answer is `panic` iff the documented panic condition holds in
the reference. -/
theorem C02_panic_iff (s s' : State) (c : PCall) (out : POut) (hinv : Inv s) (h : pstep s c = .ok (s', out)) :
    out = .panic ↔ (abs s).panics s.fin c = true := by
  obtain ⟨s1, o1, h1, _, _, href, _⟩ := pstep_refines hinv c
  rw [h] at h1; cases h1
  unfold SpecPStep at href
  by_cases hp : (abs s).panics s.fin c = true
  · simp only [hp, if_true] at href; simp [href.1, hp]
  · simp only [hp, Bool.false_eq_true, if_false] at href
    constructor
    · rintro rfl; cases c <;> simp at href
    · intro h'; exact absurd h' hp

/-- **`extend_with_edges` in general** (no `hvalid`/`hfit`): it never faults and keeps the invariant; it completes iff the
request fits the index type (`extendFits`, spelled out in `C02_extend_fits_iff`) and panics otherwise; a completed call is a
run of `SpecExtend` — for every listed edge, in order, the missing endpoints are created with the default weight and the edge
gets ANY valid index that was not live; exactly `l.length` edges are added — and a panicking call is a run of `SpecExtendP`:
the edges before the first one that does not fit have been inserted as above, and of the offending edge only the endpoints that
are valid indices have been created (source first); nothing else is observable. -/
theorem C02_extend_general (s : State) (l : List (Nat × Nat × Int)) (hinv : Inv s) :
    ∃ s' p, extendWithEdges s l = .ok (s', p) ∧ Inv s' ∧ s'.fin = s.fin ∧
      p = !extendFits s.fin s.edgeCount l ∧
      (p = false → SpecExtend s.fin (abs s) l (abs s') ∧ s'.edgeCount = s.edgeCount + l.length) ∧
      (p = true → SpecExtendP s.fin (abs s) l (abs s')) :=
  extendWithEdges_general l hinv

/-- the request fits iff every named node index is a valid index of the index type and the live edges plus the listed ones do
not exceed the number of valid edge indices. -/
theorem C02_extend_fits_iff (fin ec : Nat) (l : List (Nat × Nat × Int)) :
    extendFits fin ec l = true ↔ (∀ x ∈ l, x.1 < fin ∧ x.2.1 < fin) ∧ (l = [] ∨ ec + l.length ≤ fin) :=
  extendFits_iff fin ec l

/-- why `SpecExtendP` speaks of `equiv` and not of equality: the statement "a panicking `extend_with_edges` whose first source is
not a valid index leaves the reference EQUAL" is false — the padding pushed before the inner `add_node` panics stays behind
as vacant slots (unobservable through the API: counts, bounds and every iterator skip them).  Witness: index type with 3 valid
indices, `extend_with_edges([(5, 0, 1)])` on the empty graph. -/
theorem C02_extend_panic_eq_false_witness :
    ∃ (s s' : State) (l : List (Nat × Nat × Int)), Inv s ∧ (extendWithEdges s l).toOption = some (s', true) ∧
      abs s' ≠ abs s ∧ (abs s').equiv (abs s) := by
  refine ⟨SG.empty true 3 false true,
    { SG.empty true 3 false true with nodes := [⟨none, 3, 1⟩, ⟨none, 0, 2⟩, ⟨none, 1, 3⟩], freeNode := 2 },
    [(5, 0, 1)], inv_empty _ _ _ _, by decide, by decide, rfl, fun i => ?_, fun e => rfl⟩
  rcases i with _ | _ | _ | i <;> rfl

/-- **constructors.** `new()` / `default()` / `with_capacity(_, _)`: the empty reference.  `from_edges(l)`: `extend_with_edges`
on the empty graph — it panics iff the request does not fit.  `from_elements(els)`: never a fault; the result is EXACTLY
`fromElementsSpecW` — the `i`-th `Node` element is node `i`, the `j`-th `Edge` element is edge `j` between the nodes its
(`from_index`-wrapped) endpoints name, and the documented panic occurs iff an edge names a node that has not been created or
the index type is exhausted.  Every constructed graph satisfies the invariant. -/
theorem C02_constructors (directed : Bool) (fin : Nat) (noLimit debug : Bool) :
    (construct directed fin noLimit debug .new = .ok (some (empty directed fin noLimit debug)) ∧
      abs (empty directed fin noLimit debug) = SGSpec.empty directed) ∧
    (∀ l, ∃ r, construct directed fin noLimit debug (.fromEdges l) = .ok r ∧
      (r = none ↔ extendFits fin 0 l = false) ∧
      (∀ g, r = some g → Inv g ∧ g.fin = fin ∧ SpecExtend fin (SGSpec.empty directed) l (abs g))) ∧
    (∀ els, ∃ r, construct directed fin noLimit debug (.fromElements els) = .ok r ∧
      r.map abs = fromElementsSpecW fin (wrapIx fin noLimit) els (SGSpec.empty directed) ∧
      (∀ g, r = some g → Inv g ∧ g.fin = fin)) := by
  have hinv := inv_empty directed fin noLimit debug
  refine ⟨⟨rfl, rfl⟩, fun l => ?_, fun els => ?_⟩
  · obtain ⟨s', p, h, hinv', hfin, hp, hok, _⟩ := extendWithEdges_general l hinv
    cases p with
    | false =>
      refine ⟨some s', by simp [construct, h], ?_, fun g hg => ?_⟩
      · have : extendFits fin 0 l = true := by simpa [SG.empty] using hp
        simp [this]
      · cases hg; exact ⟨hinv', hfin, (hok rfl).1⟩
    | true =>
      refine ⟨none, by simp [construct, h], ?_, fun g hg => by cases hg⟩
      have : extendFits fin 0 l = false := by simpa [SG.empty] using hp
      simp [this]
  · obtain ⟨r, hr, hspec, hrest⟩ := fromElementsLoop_refines els hinv ⟨rfl, rfl⟩
    exact ⟨r, hr, hspec, fun g hg => ⟨(hrest g hg).1, (hrest g hg).2.2⟩⟩

/-- **all histories of the whole public API**: starting from ANY constructor, for every finite sequence of calls — the 17
mutating call forms, the panicking variants, the 23 queries, in any order, with valid or invalid arguments — for both edge
types, every index width, debug and release: the constructor does not fault; if it does not panic the graph satisfies the
invariant, no call of the history faults, the invariant holds at the end, and all answers and states are a run `SpecCalls` of
the reference machine (`SpecCall`: a mutating call is a `SpecStep`, and `extend_with_edges` panics exactly when the request does
not fit and then leaves exactly the processed prefix; a panicking variant is a `SpecPStep`, i.e. panics exactly under its
documented condition and then changes nothing; a query leaves the state unchanged and answers what `SpecQuery` admits). -/
theorem C02_calls_all_histories (directed : Bool) (fin : Nat) (noLimit debug : Bool) (ctor : Ctor) (cs : List Call) :
    ∃ r, construct directed fin noLimit debug ctor = .ok r ∧
      ∀ g, r = some g → Inv g ∧ g.fin = fin ∧
        ∃ s' outs, runCalls g cs = .ok (s', outs) ∧ Inv s' ∧ outs.length = cs.length ∧
          SpecCalls fin (abs g) cs outs (abs s') := by
  have hc := C02_constructors directed fin noLimit debug
  have key : ∀ g, Inv g → g.fin = fin → ∃ s' outs, runCalls g cs = .ok (s', outs) ∧ Inv s' ∧ outs.length = cs.length ∧
      SpecCalls fin (abs g) cs outs (abs s') := by
    intro g hg hf
    obtain ⟨s', outs, h, hinv', _, hlen, href⟩ := runCalls_refines cs hg
    rw [hf] at href
    exact ⟨s', outs, h, hinv', hlen, href⟩
  cases ctor with
  | new =>
    exact ⟨_, hc.1.1, fun g hg => by cases hg; exact ⟨inv_empty _ _ _ _, rfl, key _ (inv_empty _ _ _ _) rfl⟩⟩
  | fromEdges l =>
    obtain ⟨r, hr, _, hrest⟩ := hc.2.1 l
    exact ⟨r, hr, fun g hg => ⟨(hrest g hg).1, (hrest g hg).2.1, key g (hrest g hg).1 (hrest g hg).2.1⟩⟩
  | fromElements els =>
    obtain ⟨r, hr, _, hrest⟩ := hc.2.2 els
    exact ⟨r, hr, fun g hg => ⟨(hrest g hg).1, (hrest g hg).2, key g (hrest g hg).1 (hrest g hg).2⟩⟩

/-! ### run-time checks of the hypotheses

The theorems above have no hypothesis about the concrete case except `Inv s`, which `C02_calls_all_histories` discharges for
every state the driver can be in (its model state is `construct` followed by `callStep`s).  The one place where the driver
relies on a condition of the generated INPUT is `from_elements`: it judges the implementation against `fromElementsSpec` (no
index wrap-around), which coincides with the proved `fromElementsSpecW` when every endpoint named by an `Edge` element is
representable in the index type.  The driver evaluates `elemsInRangeB` on every `from_elements` request and answers
`SPECFAIL generator left the proved range` otherwise. -/

theorem C02_elems_in_range_check (directed : Bool) (fin : Nat) (noLimit debug : Bool) (els : List Elem)
    (h : elemsInRangeB fin els = true) :
    ∃ r, construct directed fin noLimit debug (.fromElements els) = .ok r ∧
      r.map abs = fromElementsSpec directed fin els (SGSpec.empty directed) := by
  obtain ⟨r, hr, hspec, _⟩ := (C02_constructors directed fin noLimit debug).2.2 els
  refine ⟨r, hr, ?_⟩
  rw [hspec]
  apply fromElementsSpecW_id
  intro a b w hm
  have := List.all_eq_true.1 h _ hm
  simp only [Bool.and_eq_true, decide_eq_true_eq] at this
  unfold wrapIx
  cases noLimit
  · simp only [Bool.false_eq_true, if_false]
    exact ⟨Nat.mod_eq_of_lt (by omega), Nat.mod_eq_of_lt (by omega)⟩
  · simp

/-! non-vacuity of the wave-4 statements: a `u8` history through a constructor, panicking variants that panic and that do not,
queries on a state with vacancies, a self-loop and parallel edges; an `extend_with_edges` that panics half-way -/
def demoCalls : List Call :=
  [.p (.addNode 1), .p (.addNode 2), .p (.addNode 3), .p (.addEdge 0 1 10), .p (.addEdge 1 1 11), .p (.addEdge 0 1 12),
   .op (.removeNode 2), .p (.addEdge 0 2 13), .p (.indexNode 2), .p (.updateEdge 1 0 14), .q (.neighborsUndirected 1),
   .q (.edgesConnecting 0 1), .q (.edgesDirected 1 true), .q (.externals false), .q (.findEdgeUndirected 1 0),
   .p (.indexTwice true false 0 1 7 8)]

/-- the answers of the panicking variants and of the queries of a history -/
def pqOuts (outs : List COut) : List (POut ⊕ QOut) :=
  outs.filterMap fun o => match o with | .p x => some (.inl x) | .q y => some (.inr y) | .op _ => none

example : (runCalls (SG.empty false 255 false true) demoCalls).toOption.map (fun p => (pqOuts p.2).drop 6) =
    some [.inl .panic, .inl .panic, .inl (.idx 2), .inr (.nats [1, 0, 0]), .inr (.erefs [(2, 0, 1, 14), (0, 0, 1, 10)]),
      .inr (.erefs [(1, 1, 1, 11), (2, 0, 1, 14), (0, 0, 1, 10)]), .inr (.nats []), .inr (.optDir (some (2, true))),
      .inl .unit] := by
  decide

example : (extendWithEdges (SG.empty true 3 false true) [(0, 2, 5), (1, 3, 6), (0, 0, 7)]).toOption.map
      (fun p => (p.2, nodeReferences p.1)) = some (true, [(0, 0), (1, 0), (2, 0)]) ∧
    (extendWithEdges (SG.empty true 3 false true) [(0, 2, 5), (1, 3, 6), (0, 0, 7)]).toOption.map
      (fun p => (edgeReferences p.1).map erefT) = some [(0, 0, 2, 5)] := by decide

example : extendFits 3 0 [(0, 2, 5), (1, 3, 6), (0, 0, 7)] = false ∧ extendFits 3 0 [(0, 2, 5), (1, 2, 6), (0, 0, 7)] = true := by
  decide

example : (construct true 255 false true (.fromElements [.node 5, .node 6, .edge 0 1 7, .edge 1 1 8])).toOption.map
      (fun r => r.map abs) =
    some (fromElementsSpec true 255 [.node 5, .node 6, .edge 0 1 7, .edge 1 1 8] (SGSpec.empty true)) ∧
    (construct true 255 false true (.fromElements [.node 5, .edge 0 1 7])).toOption = some none := by decide

/-! ## wave 6: corners of the public API

The state-free corners (iterator contracts, `clone`/`clone_from`/`Default`, trait views, `Debug` never panics, `visit_map`/
`reset_map`, `GetAdjacencyMatrix`, the `IntoWeightedEdge` forms, `filter_elements`, the `u16` limit) are LAWS the harness
checks on the implementation itself (`harness/src/c02laws.rs`, `docs/C02_api.md`).  Two of them have a mirror and are proved
here: the content of the `Debug` rendering, and the `Iterator`/`DoubleEndedIterator` contract of the slice iterators
`NodeIndices`/`EdgeIndices`/`NodeReferences`/`EdgeReferences` (`SG.Win`: `next` = `ex_find_map`, `next_back` = `ex_rfind_map`,
`size_hint = (0, upper bound of the slice)`). -/

/-- **`Debug`**: under the invariant everything the rendering shows except the heads of the two vacancy lists — edge type, the
two counts, the endpoints of the live edges, the weight maps of the live nodes and edges, all in index order — is a function of
the reference multigraph (`specDbg`): a removed element is never shown, a live one always.  (The driver compares the whole
text with `renderDbg (dbgView s)` and judges the live parts of the implementation's text against `specDbg` of the reference.) -/
theorem C02_debug_refines (s : State) (hinv : Inv s) : (dbgView s).live = specDbg (abs s) := by
  obtain ⟨hn, he, _, _, _, _, hnr, her, _, _⟩ := C02_counts_bounds_iterators s hinv
  have hd : (abs s).directed = s.directed := rfl
  simp only [dbgView, DbgView.live, specDbg, hd, ← hn, ← he, ← hnr, ← her, List.map_map]
  rfl

/-- **`next`** of a slice iterator: `None` exactly when no live slot is left (and the iterator stays exhausted), otherwise the
first item of the remaining sequence; the rest remains. -/
theorem C02_iter_next (w : Win) :
    match w.next with
    | (none, w') => w.items = [] ∧ w'.items = [] ∧ w'.slots = []
    | (some i, w') => w.items = i :: w'.items ∧ w'.slots.length < w.slots.length :=
  Win.next_spec w.slots w.base

/-- **`next_back`**: `None` exactly when no live slot is left, otherwise the LAST item of the remaining sequence; everything
before it remains — `rev()` yields the reverse of what `next` yields. -/
theorem C02_iter_next_back (w : Win) :
    match w.nextBack with
    | (none, w') => w.items = [] ∧ w'.items = [] ∧ w'.slots = []
    | (some i, w') => w.items = w'.items ++ [i] ∧ w'.slots.length < w.slots.length :=
  Win.nextBack_spec w

/-- **`size_hint`** brackets the number of items still to come, in every state of the iterator (fresh, after any number of
`next`/`next_back` calls). -/
theorem C02_iter_size_hint (w : Win) : w.sizeHint.1 ≤ w.items.length ∧ w.items.length ≤ w.sizeHint.2 :=
  Win.sizeHint_spec w

/-- the variant "forward the hint of the underlying slice" (lower bound = number of remaining SLOTS) is false as soon as a
vacant slot remains: a one-slot window whose slot is vacant promises one item and yields none. -/
theorem C02_iter_size_hint_slots_false_witness :
    ∃ w : Win, ¬ (w.slots.length ≤ w.items.length) :=
  ⟨⟨0, [false]⟩, by decide⟩

/-- **meet in the middle**: for ANY mixture of `next` and `next_back` calls the items obtained from the front, the items the
iterator that is left would still yield, and the items obtained from the back (latest first) are together exactly the one
sequence the iterator stood for — every way of reading the iterator describes the same set of elements. -/
theorem C02_iter_meet_in_the_middle (ds : List Bool) (w : Win) :
    w.items = (Win.drive ds w).1 ++ (Win.drive ds w).2.2.items ++ (Win.drive ds w).2.1 :=
  Win.drive_spec ds w

/-- a fresh `node_indices()` / `edge_indices()` (the index component of `node_references()` / `edge_references()`) stands for
the live nodes / edges of the reference multigraph, ascending; there are `node_count` / `edge_count` of them. -/
theorem C02_iter_fresh (s : State) (hinv : Inv s) :
    (Win.ofSlots (s.nodes.map (·.w))).items = (abs s).nodeIds ∧ (Win.ofSlots (s.edges.map (·.w))).items = (abs s).edgeIds ∧
    (Win.ofSlots (s.nodes.map (·.w))).items.length = s.nodeCount ∧ (Win.ofSlots (s.edges.map (·.w))).items.length = s.edgeCount := by
  obtain ⟨_, _, _, _, hni, hei, _, _, hnl, hel⟩ := C02_counts_bounds_iterators s hinv
  rw [Win.items_nodeIndices, Win.items_edgeIndices]
  exact ⟨hni, hei, hnl, hel⟩

/-- **`retain_*` whose closure also writes** (through `IndexMut` of the `Frozen` proxy it is handed): the driver runs such a call
as "add `c` to every live weight, then `retain_*`" — a write happens when the element is shown, i.e. before any later removal,
and removals never read weights.  That composite never faults, keeps the invariant, shows the closure exactly the live
elements in index order and refines "`map` the weights, then drop the rejected elements" of the reference. -/
theorem C02_retain_with_writes (s : State) (rm : List Nat) (c : Int) (hinv : Inv s) :
    (∃ s' vis, retainNodes (mapGraph s c 0).1 rm = .ok (s', vis) ∧ Inv s' ∧
      abs s' = ((abs s).mapWeights c 0).retainNodes rm ∧
      vis = (List.range ((abs s).mapWeights c 0).nodeBound).filter (fun i => ((abs s).mapWeights c 0).nodeLive i)) ∧
    (∃ s' vis, retainEdges (mapGraph s 0 c).1 rm = .ok (s', vis) ∧ Inv s' ∧
      abs s' = ((abs s).mapWeights 0 c).retainEdges rm ∧
      vis = (List.range ((abs s).mapWeights 0 c).edgeBound).filter (fun i => ((abs s).mapWeights 0 c).edgeLive i)) := by
  constructor
  · obtain ⟨s1, o1, h1, hinv1⟩ := C02_inv_step s (.map c 0) hinv
    have e1 : s1 = (mapGraph s c 0).1 := by
      simp only [step] at h1
      cases h1; rfl
    subst e1
    obtain ⟨s2, o2, h2, hinv2⟩ := C02_inv_step _ (.retainNodes rm) hinv1
    simp only [step] at h2
    cases hr : retainNodes (mapGraph s c 0).1 rm with
    | error x => rw [hr] at h2; cases h2
    | ok p =>
      rw [hr] at h2
      obtain ⟨s', vis⟩ := p
      have hs : s' = s2 := by simp only [Except.ok.injEq, Prod.mk.injEq] at h2; exact h2.1
      subst hs
      have := (C02_retain_refines _ s' rm vis hinv1).1 hr
      rw [(C02_whole_graph_refines s c 0 0 0).2.2.2.1] at this
      exact ⟨s', vis, rfl, hinv2, this.1, this.2⟩
  · obtain ⟨s1, o1, h1, hinv1⟩ := C02_inv_step s (.map 0 c) hinv
    have e1 : s1 = (mapGraph s 0 c).1 := by
      simp only [step] at h1
      cases h1; rfl
    subst e1
    obtain ⟨s2, o2, h2, hinv2⟩ := C02_inv_step _ (.retainEdges rm) hinv1
    simp only [step] at h2
    cases hr : retainEdges (mapGraph s 0 c).1 rm with
    | error x => rw [hr] at h2; cases h2
    | ok p =>
      rw [hr] at h2
      obtain ⟨s', vis⟩ := p
      have hs : s' = s2 := by simp only [Except.ok.injEq, Prod.mk.injEq] at h2; exact h2.1
      subst hs
      have := (C02_retain_refines _ s' rm vis hinv1).2 hr
      rw [(C02_whole_graph_refines s 0 c 0 0).2.2.2.1] at this
      exact ⟨s', vis, rfl, hinv2, this.1, this.2⟩

/-! non-vacuity of the wave-6 statements: a window with vacancies at both ends and in the middle, read from both ends; the `Debug`
view of a state with a vacancy of each kind. -/
example : (Win.drive [false, true, true, false, false] ⟨0, [false, true, true, false, true, true, false]⟩) =
    ([1, 2], [4, 5], ⟨4, []⟩) := by decide

example : (Win.mk 3 [false, true, false, true]).items = [4, 6] ∧ (Win.mk 3 [false, true, false, true]).sizeHint = (0, 4) := by decide

example : (run (empty true 255 false true) (demoOps.take 9)).toOption.map (fun p => dbgView p.1) =
    some ⟨true, 2, 1, [(2, 2)], [(1, 2), (2, 3)], [(2, 12)], 0, 0⟩ := by decide

end PetgraphModel.C02T
