import PetgraphModel.Proofs.C13Iso
import PetgraphModel.Proofs.C13Vf2
import PetgraphModel.Proofs.C13W2Top
import PetgraphModel.Proofs.C13W2Spec
import PetgraphModel.Proofs.C13W2Iso
import PetgraphModel.Proofs.C13W3Relabel
import PetgraphModel.Proofs.C13W4Check
import PetgraphModel.Proofs.C13W4Relabel
import PetgraphModel.Proofs.C13W4Link
import PetgraphModel.Proofs.C13W4Driver
import PetgraphModel.Proofs.C13W6Hint
import PetgraphModel.Proofs.C13W6Prefix
/-
C13 — the VF2 family agrees with the definition of (sub)graph isomorphism.

What is proved here, for ALL graphs, weights and predicates:

* the specification (`Spec/C13Iso.lean`: `Embeds`, `SubIso`, `Iso`) is decided by the executable oracle
  (`Oracle/C13Iso.lean`): the enumerator of injections is complete and duplicate-free, `subIsoAll` lists every
  embedding exactly once, `subIsoB`/`isoB` decide `SubIso`/`Iso`;
* the judges the driver applies to every answer of the real petgraph are sound: an accepted answer satisfies
  the property's clause (bool answers; the multiset of vectors yielded by `subgraph_isomorphisms_iter`);
* the definition is invariant under relabeling either argument, with the embeddings in bijection;
* the early size rejections of the public wrappers (`node_count` / `edge_count` comparisons) are necessary
  conditions, so they never reject a pair that the definition accepts (simple graphs);
* the mirror model of VF2 (`Model/C13Vf2.lean`: `Vf2State`, `is_feasible`, `next_candidate`, the frame stack)
  is SOUND for all concrete graphs, both modes, any number of `next()` calls: whatever it yields is a total
  injective mapping preserving adjacency and non-adjacency and satisfying the predicates, i.e. an `Embeds` of
  the specification; `true` from the model's `is_isomorphic*` implies `Iso` / `SubIso`.  Its COMPLETENESS
  (every embedding is yielded, exactly once; `None` only if there is none) is proved in wave 2 for the iterator:
  `C13_vf2_complete` (the statement `C13_vf2_complete_statement` as first written is false, see there).
  Wave 3 removes the remaining conditions: the search TERMINATES within the explicit bound `explicitBound I`
  (`C13_vf2_terminates`, `C13_vf2_step_decreases`, `C13_vf2_fuel_mono`), the iff / exactness theorems hold for
  every fuel `≥ explicitBound I` (`…_fuel`) and for the model's `bigFuel` under `explicitBound I ≤ bigFuel`
  (`…_bounded`; true for all graphs on ≤ 9 nodes), the empty pattern is covered (`C13_vf2_empty_pattern`), the
  iterator's end flag is always `true` (`C13_vf2_iter_flag`), and the model's answers are invariant under
  relabeling the concrete indices (`C13_vf2_relabel_invariant`, `…_iter`).

  Wave 4 turns every hypothesis about the concrete case into a run-time check of the driver (section "run-time
  checks of the hypotheses": `sideFail`, the fuel-reporting wrappers `isoModelR` / `subModelR` / `iterModelR`)
  and proves the exactness of every answer the driver compares with NO fuel or size hypothesis left
  (`C13_vf2_sub_checked`, `C13_vf2_iso_checked`, `C13_vf2_iter_checked`), their relabeling invariance incl. the
  iterator's set of mappings and its `None` (`C13_vf2_relabel_invariant_checked`), and spells the `_matching`
  variants out for an arbitrary compatibility relation (`C13_vf2_matching_*`).

  Wave 6 covers the rest of the public surface of isomorphism.rs (`docs/C13_api.md`): the iterator's
  `size_hint` is mirrored (`sizeHintModel`: the literal factorial table, indexed by the TARGET's node count —
  finding D34, repaired in the code by a69e23d) and judged against the number of embeddings still to come
  (`C13_judgeHint_sound`, `C13_judgeHintBig_sound`, `C13_embeddings_le_falling`); the statement "the model's
  size_hint brackets the number of embeddings still to come, at every point of the iteration" — FALSE for the code
  before the repair — is now proved (`C13_size_hint`, `C13_size_hint_total`; `C13_D34_witness_repaired`: the old
  counterexample, and no panic for 21 nodes; `C13_size_hint_tighter`: `n1!/(n1-n0)!` would do too); a prefix of the
  iterator's output on a pair too big to enumerate is judged by `judgePrefix` (`C13_judgePrefix_sound`).

VF2 itself (petgraph's search) is tied to this reference per run: `./check C13` compares the implementation's
answers with the oracle (spec level) and with the mirror model (exactly, including the yield order).
-/
namespace PetgraphModel.C13T
open PetgraphModel PetgraphModel.C13

/-! ### the enumerator -/

/-- `injections k cod` lists exactly the duplicate-free length-`k` vectors over `cod` … -/
theorem C13_injections_complete (k : Nat) (cod l : List Nat) (h : cod.Nodup) :
    l ∈ injections k cod ↔ l.length = k ∧ l.Nodup ∧ ∀ x ∈ l, x ∈ cod :=
  mem_injections h

/-- … each exactly once. -/
theorem C13_injections_nodup (k : Nat) (cod : List Nat) (h : cod.Nodup) : (injections k cod).Nodup :=
  nodup_injections h

/-! ### oracle = definition -/

/-- `subIsoAll` is the set of embeddings: duplicate-free, every listed vector is an embedding of the right
length, and the vector of every embedding (as a function) is listed. -/
theorem C13_subIsoAll_spec (P : Problem) (wf0 : P.g0.WellFormed) (h1 : P.g1.nodes.Nodup) :
    (subIsoAll P).Nodup ∧
    (∀ l, l ∈ subIsoAll P ↔ l.length = P.g0.nodes.length ∧ Embeds P (mapOf P.g0.nodes l)) ∧
    (∀ f, Embeds P f → P.g0.nodes.map f ∈ subIsoAll P) :=
  ⟨nodup_subIsoAll P h1, mem_subIsoAll P wf0.1 h1, fun _ e => subIsoAll_complete P wf0 h1 e⟩

/-- the vector of a function and the function of a vector are inverse to each other on the nodes of `g0`. -/
theorem C13_vector_function_roundtrip (dom l : List Nat) (f : Nat → Nat) (hd : dom.Nodup) :
    (l.length = dom.length → dom.map (mapOf dom l) = l) ∧ (∀ a ∈ dom, mapOf dom (dom.map f) a = f a) :=
  ⟨fun hl => map_mapOf hd hl, fun _ ha => mapOf_map dom f ha⟩

theorem C13_subIsoB_iff (P : Problem) (wf0 : P.g0.WellFormed) (h1 : P.g1.nodes.Nodup) :
    subIsoB P = true ↔ SubIso P :=
  subIsoB_iff P wf0 h1

theorem C13_isoB_iff (P : Problem) (wf0 : P.g0.WellFormed) (h1 : P.g1.nodes.Nodup) :
    isoB P = true ↔ Iso P :=
  isoB_iff P wf0 h1

/-- the side conditions the driver checks on every pair are the ones the theorems assume -/
theorem C13_problemOkB_iff (P : Problem) : problemOkB P = true ↔ P.Ok := by
  simp only [problemOkB, wfB, simpleB, Bool.and_eq_true, decide_eq_true_eq, beq_iff_eq]
  exact ⟨fun ⟨⟨⟨⟨a, b⟩, c⟩, d⟩, e⟩ => ⟨a, b, c, d, e⟩, fun ⟨a, b, c, d, e⟩ => ⟨⟨⟨⟨a, b⟩, c⟩, d⟩, e⟩⟩

/-- for the plain functions (no predicates) an embedding is exactly an injection of the nodes that preserves
adjacency and non-adjacency -/
theorem C13_plain_embeds_iff (g0 g1 : MGraph) (f : Nat → Nat) :
    Embeds { g0 := g0, g1 := g1 } f ↔
      (∀ a ∈ g0.nodes, f a ∈ g1.nodes) ∧ (∀ a ∈ g0.nodes, ∀ b ∈ g0.nodes, f a = f b → a = b) ∧
      (∀ a ∈ g0.nodes, ∀ b ∈ g0.nodes, (g0.Adj a b ↔ g1.Adj (f a) (f b))) :=
  ⟨fun e => ⟨e.mapsTo, e.inj, e.adj⟩, fun ⟨a, b, c⟩ => ⟨a, b, c, fun _ _ => rfl, fun _ _ _ _ _ => rfl⟩⟩

/-! ### soundness of the judges applied to the implementation's answers -/

/-- an accepted answer of `is_isomorphic[_matching]` is `true` exactly when the graphs are isomorphic -/
theorem C13_judgeIso_sound (P : Problem) (ok : problemOkB P = true) (ans : Bool)
    (h : judgeIso P ans = true) : ans = true ↔ Iso P := by
  have ok := (C13_problemOkB_iff P).mp ok
  rw [← isoB_iff P ok.wf0 ok.wf1.1]
  simp only [judgeIso, beq_iff_eq] at h
  rw [h]

/-- an accepted answer of `is_isomorphic_subgraph[_matching]` is `true` exactly when `g0` is isomorphic to a
node-induced subgraph of `g1` -/
theorem C13_judgeSub_sound (P : Problem) (ok : problemOkB P = true) (ans : Bool)
    (h : judgeSub P ans = true) : ans = true ↔ SubIso P := by
  have ok := (C13_problemOkB_iff P).mp ok
  rw [← subIsoB_iff P ok.wf0 ok.wf1.1]
  simp only [judgeSub, beq_iff_eq] at h
  rw [h]

/-- an accepted answer of `subgraph_isomorphisms_iter`: `None` only if no embedding exists; otherwise the
yielded vectors are pairwise different, each is a valid injective adjacency- and non-adjacency-preserving
mapping satisfying the predicates, and every embedding is among them. -/
theorem C13_judgeIter_sound (P : Problem) (ok : problemOkB P = true) (ans : Option (List (List Nat)))
    (h : judgeIter P ans = true) : IterSpec P ans := by
  have ok := (C13_problemOkB_iff P).mp ok
  exact judgeIter_sound P ok.wf0 ok.wf1.1 ans h

/-! ### relabeling invariance of the definition -/

/-- relabel `g0` by `σ0` and `g1` by `σ1` (injective on the nodes: they have left inverses `τ0`, `τ1`):
isomorphism and induced-subgraph isomorphism are unchanged, and the embeddings correspond
(`f ↦ σ1 ∘ f ∘ τ0`, `f' ↦ τ1 ∘ f' ∘ σ0`). -/
theorem C13_relabel_invariant (P : Problem) (σ0 τ0 σ1 τ1 : Nat → Nat)
    (wf0 : P.g0.WellFormed) (wf1 : P.g1.WellFormed)
    (h0 : ∀ a ∈ P.g0.nodes, τ0 (σ0 a) = a) (h1 : ∀ b ∈ P.g1.nodes, τ1 (σ1 b) = b) :
    (Iso (P.relabel σ0 τ0 σ1 τ1) ↔ Iso P) ∧ (SubIso (P.relabel σ0 τ0 σ1 τ1) ↔ SubIso P) ∧
    (∀ f, Embeds P f → Embeds (P.relabel σ0 τ0 σ1 τ1) (fun a' => σ1 (f (τ0 a')))) ∧
    (∀ f', Embeds (P.relabel σ0 τ0 σ1 τ1) f' → Embeds P (fun a => τ1 (f' (σ0 a)))) :=
  ⟨iso_relabel wf0 wf1 h0 h1, subIso_relabel wf0 wf1 h0 h1,
   fun _ e => e.relabel wf0 wf1 h0 h1, fun _ e => e.unrelabel wf0 wf1 h0 h1⟩

/-! ### the early size rejections of the public wrappers are necessary conditions -/

/-- `if g0.node_count() != g1.node_count() || g0.edge_count() != g1.edge_count() { return false }` -/
theorem C13_early_reject_iso (P : Problem) (ok : P.Ok)
    (h : P.g0.nodes.length ≠ P.g1.nodes.length ∨ P.g0.edges.length ≠ P.g1.edges.length) : ¬ Iso P := by
  intro hi
  rcases h with h | h
  · exact h (hi.node_count_eq ok.wf0.1 ok.wf1.1)
  · exact h (hi.edge_count_eq ok.wf0 ok.wf1 ok.simple0 ok.simple1 ok.sameType)

/-- `if g0.node_count() > g1.node_count() || g0.edge_count() > g1.edge_count() { return false / None }` -/
theorem C13_early_reject_sub (P : Problem) (ok : P.Ok)
    (h : P.g0.nodes.length > P.g1.nodes.length ∨ P.g0.edges.length > P.g1.edges.length) : ¬ SubIso P := by
  intro hs
  rcases h with h | h
  · exact absurd (hs.node_count_le ok.wf0.1) (by omega)
  · exact absurd (hs.edge_count_le ok.wf0 ok.simple0 ok.sameType) (by omega)

/-! ### the mirror model of VF2 is sound -/

section Vf2
open PetgraphModel.C13.Vf2

/-- the function a yielded `mapping` vector (index = g0 node, `none` = `usize::MAX`) stands for -/
def vecFun (mp : List (Option Nat)) : Nat → Nat := fun i => ((mp[i]?).getD none).getD 0

/-- the consistency check the driver runs on both concrete graphs of every round yields the hypotheses
of the soundness theorems -/
theorem C13_vf2_cgOkB_sound (g : CG) (h : cgOkB g = true) : CGOk g := cgOkB_sound h

/-- `isomorphisms()` — the body of the iterator's `next()` and of `try_match`: the initial machine state
satisfies the invariant; from any state satisfying it, a call returns a state satisfying it again, and the
vector it returns (if any) is total, into the nodes of g1, injective, preserves adjacency and non-adjacency
and satisfies the predicates: an embedding in the sense of the specification.  Both modes, any fuel. -/
theorem C13_vf2_next_sound (I : Inst) (h0 : cgOkB I.g0 = true) (h1 : cgOkB I.g1 = true)
    (hd : I.g0.directed = I.g1.directed) :
    Inv I (M.init I) ∧
    ∀ (sub : Bool) (fuel : Nat) (m m' : M) (r : Result), Inv I m → isomorphisms I sub fuel m = some (m', r) →
      Inv I m' ∧ ∀ mp, r = some mp → Final I mp ∧ Embeds I.problem (vecFun mp) := by
  have ok0 := cgOkB_sound h0
  have ok1 := cgOkB_sound h1
  refine ⟨init_inv I, ?_⟩
  intro sub fuel m m' r hinv h
  have := isomorphisms_sound ok0 ok1 hd sub fuel m m' r hinv h
  exact ⟨this.1, fun mp hmp => ⟨this.2 mp hmp, (this.2 mp hmp).embeds ok0 ok1⟩⟩

/-- every vector the model's `subgraph_isomorphisms_iter` reports comes from an embedding -/
theorem C13_vf2_iter_sound (I : Inst) (h0 : cgOkB I.g0 = true) (h1 : cgOkB I.g1 = true)
    (hd : I.g0.directed = I.g1.directed) (vs : List (List Nat)) (fin : Bool)
    (h : iterModel I = some (vs, fin)) :
    ∀ v ∈ vs, ∃ mp, Final I mp ∧ Embeds I.problem (vecFun mp) ∧ v = toAbstract I mp := by
  have ok0 := cgOkB_sound h0
  have ok1 := cgOkB_sound h1
  intro v hv
  obtain ⟨mp, hf, rfl⟩ := iterModel_sound ok0 ok1 hd h v hv
  exact ⟨mp, hf, hf.embeds ok0 ok1, rfl⟩

/-- `true` from the model's `is_isomorphic_subgraph[_matching]` is correct -/
theorem C13_vf2_sub_sound (I : Inst) (h0 : cgOkB I.g0 = true) (h1 : cgOkB I.g1 = true)
    (hd : I.g0.directed = I.g1.directed) (h : subModel I = true) : SubIso I.problem := by
  have ok0 := cgOkB_sound h0
  have ok1 := cgOkB_sound h1
  unfold subModel at h
  split at h
  · cases h
  · obtain ⟨mp, hf⟩ := tryMatch_sound ok0 ok1 hd h
    exact ⟨_, hf.embeds ok0 ok1⟩

/-- `true` from the model's `is_isomorphic[_matching]` is correct -/
theorem C13_vf2_iso_sound (I : Inst) (h0 : cgOkB I.g0 = true) (h1 : cgOkB I.g1 = true)
    (hd : I.g0.directed = I.g1.directed) (h : isoModel I = true) : Iso I.problem := by
  have ok0 := cgOkB_sound h0
  have ok1 := cgOkB_sound h1
  unfold isoModel at h
  split at h
  · cases h
  · rename_i hne
    simp only [Bool.or_eq_true, bne_iff_ne, ne_eq, not_or, Decidable.not_not] at hne
    obtain ⟨mp, hf⟩ := tryMatch_sound ok0 ok1 hd h
    refine ⟨_, hf.embeds ok0 ok1, ?_⟩
    intro b hb
    simp only [Inst.problem, CG.toMGraph, List.mem_range] at hb ⊢
    obtain ⟨i, hi, hm⟩ := hf.onto hne.1 b hb
    exact ⟨i, hi, by simp [hm]⟩

/-- Completeness of the search — NOT proved.  In subgraph mode, when the drained iterator reports its end,
the vectors it yielded are pairwise different and every valid complete mapping is among them; and `None`
is returned only if there is no valid mapping.  (Missing: a proof that the candidate order Out / In / Other
with the frontier-cardinality pruning never cuts off an extendable partial mapping, and that the generation
stamps restore `out`/`ins` exactly on `pop_mapping`.  Validated per run: the model's output is compared with
the real iterator exactly, and the real iterator with the proved oracle.) -/
def C13_vf2_complete_statement : Prop :=
  ∀ (I : Inst), cgOkB I.g0 = true → cgOkB I.g1 = true → I.g0.directed = I.g1.directed → 0 < I.g0.n →
    I.g0.abs.Perm (List.range I.g0.n) → I.g1.abs.Perm (List.range I.g1.n) →
    (iterModel I = none → ¬ ∃ mp, Final I mp) ∧
    (∀ vs, iterModel I = some (vs, true) → vs.Nodup ∧ ∀ mp, Final I mp → toAbstract I mp ∈ vs)

/-- the part of completeness that is proved: the `node_count` rejection loses nothing — a valid mapping
needs `n0 ≤ n1`, and with `n0 = n1` it is onto. -/
theorem C13_vf2_complete_partial (I : Inst) (mp : List (Option Nat)) (hf : Final I mp) :
    I.g0.n ≤ I.g1.n ∧ (I.g0.n = I.g1.n → ∀ j, j < I.g1.n → ∃ i, i < I.g0.n ∧ mp[i]? = some (some j)) :=
  ⟨hf.node_count_le, fun hn => hf.onto hn⟩

/-! ### wave 2: the mirror model of VF2 is COMPLETE (subgraph mode, the iterator)

`C13_vf2_complete_statement` as written above is FALSE (`C13_vf2_complete_statement_false_witness`,
`…_false_witness_inNb`): `cgOkB` does not tie the `ecount` field to the neighbour lists, does not forbid repeated
entries in an `Incoming` list (whose LENGTH `is_feasible` compares), and the model's `next()` gives up after
`bigFuel` loop iterations, which `iterLoop` reports as the end of the iteration.  None of the three reflects
petgraph (there `edge_count()` is the number of edges, a simple graph has duplicate-free in-neighbour lists, and
the loop has no fuel).  The repaired statement `C13_vf2_complete` adds exactly these three side conditions
(`ECountOk`, duplicate-free `inNb` when directed, `iterFuelOk`), all executable, and is proved for ALL
instances: candidate order, `is_feasible`, the frontier-cardinality pruning and the generation-stamp
bookkeeping of `push_mapping`/`pop_mapping` lose no embedding, and every embedding is yielded exactly once. -/

/-- the three pruning devices never cut off an extendable partial mapping: if the current state (the pushes of
the trail `tr`) is the restriction of a valid complete mapping `mp` and `a` is still unmapped, then the pair
`(a, mp a)` passes `is_feasible`, the frontier-cardinality test holds after pushing it, and `mp a` is a member of
the same open list (`Out` / `In` / `Other`) of g1 as `a` is of g0 — so the candidate scan reaches it. -/
theorem C13_vf2_pruning_complete (I : Inst) (h0 : cgOkB I.g0 = true) (h1 : cgOkB I.g1 = true)
    (hd : I.g0.directed = I.g1.directed) (hin : inNodupB I.g0 = true)
    (m : M) (tr : List (Nat × Nat)) (hs0 : m.s0 = SG I.g0 tr) (hs1 : m.s1 = SG I.g1 (tr.map Prod.swap))
    (hc : Core I m.s0 m.s1) (mp : List (Option Nat)) (hf : Final I mp)
    (het : ∀ p ∈ tr, mp[p.1]? = some (some p.2)) (a : Nat) (ha : a < I.g0.n) :
    isFeasible I m a (vecFun mp a) = true ∧ sizesOk true (pushState I m a (vecFun mp a)) = true ∧
    ∀ ol, inList I.g0 m.s0 ol a = true → inList I.g1 m.s1 ol (vecFun mp a) = true := by
  have ok0 := cgOkB_sound h0
  have ok1 := cgOkB_sound h1
  have e : Ext I mp m := mkExt hf hc hs0 het
  have hab : mp[a]? = some (some (fval mp a)) := (hf.get ha).1
  refine ⟨e.feasible ok0 ok1 hd (inNodupB_sound h0 hin) hab, ?_, fun ol h => ExtT.inList_transfer ok0 ok1 hd hs0 hs1 e het ha h⟩
  have et : ExtT mp ((a, fval mp a) :: tr) := (ExtT.cons_iff hf ha tr).mpr ⟨rfl, het⟩
  have sz := et.sizes ok0 ok1 hd hf
  have e0 : (pushState I m a (fval mp a)).s0 = SG I.g0 ((a, fval mp a) :: tr) := by
    show pushMapping I.g0 m.s0 a (fval mp a) = _
    rw [hs0]; rfl
  have e1 : (pushState I m a (fval mp a)).s1 = SG I.g1 (((a, fval mp a) :: tr).map Prod.swap) := by
    show pushMapping I.g1 m.s1 (fval mp a) a = _
    rw [hs1]; rfl
  show sizesOk true (pushState I m a (fval mp a)) = true
  unfold sizesOk
  rw [e0, e1]
  simp
  exact sz

/-- `pop_mapping` restores the `Vf2State` exactly (mapping, both stamp vectors, both counters, generation) -/
theorem C13_vf2_pop_push (g : CG) (h : cgOkB g = true) (tr : List (Nat × Nat)) (a b : Nat)
    (ha : (SG g tr).map a = none) (ha' : a < g.n) :
    popMapping g (pushMapping g (SG g tr) a b) a = SG g tr :=
  pop_push (cgOkB_sound h) (SG_ok (cgOkB_sound h) tr) b ha ha'

/-- the `None` answer of the model's `subgraph_isomorphisms_iter` (node- or edge-count rejection) is correct -/
theorem C13_vf2_complete_none (I : Inst) (h0 : cgOkB I.g0 = true) (h1 : cgOkB I.g1 = true)
    (hd : I.g0.directed = I.g1.directed) (e0 : ECountOk I.g0) (e1 : ECountOk I.g1)
    (h : iterModel I = none) : ¬ ∃ mp, Final I mp := by
  rintro ⟨mp, hf⟩
  unfold iterModel at h
  split at h
  · rename_i hc
    simp only [Bool.or_eq_true, decide_eq_true_eq] at hc
    have := hf.node_count_le
    have := hf.ecount_le (cgOkB_sound h0) (cgOkB_sound h1) hd e0 e1
    omega
  · cases h

/-- when the drained iterator reports its end, the vectors it yielded are pairwise different and every valid
complete mapping is among them -/
theorem C13_vf2_complete_iter (I : Inst) (h0 : cgOkB I.g0 = true) (h1 : cgOkB I.g1 = true)
    (hd : I.g0.directed = I.g1.directed) (hn : 0 < I.g0.n)
    (p0 : I.g0.abs.Perm (List.range I.g0.n)) (p1 : I.g1.abs.Perm (List.range I.g1.n))
    (hin : inNodupB I.g0 = true) (hfuel : iterFuelOk I = true)
    (vs : List (List Nat)) (h : iterModel I = some (vs, true)) :
    vs.Nodup ∧ ∀ mp, Final I mp → toAbstract I mp ∈ vs :=
  iterModel_complete (cgOkB_sound h0) (cgOkB_sound h1) hd (inNodupB_sound h0 hin) hn p0 p1 hfuel h

/-- `C13_vf2_complete_statement`, repaired: with the edge-count fields describing the neighbour lists,
duplicate-free `Incoming` lists and no `next()` call out of fuel, the model finds every embedding exactly once. -/
theorem C13_vf2_complete (I : Inst) (h0 : cgOkB I.g0 = true) (h1 : cgOkB I.g1 = true)
    (hd : I.g0.directed = I.g1.directed) (hn : 0 < I.g0.n)
    (p0 : I.g0.abs.Perm (List.range I.g0.n)) (p1 : I.g1.abs.Perm (List.range I.g1.n))
    (e0 : ECountOk I.g0) (e1 : ECountOk I.g1)
    (hin : inNodupB I.g0 = true) (hfuel : iterFuelOk I = true) :
    (iterModel I = none → ¬ ∃ mp, Final I mp) ∧
    (∀ vs, iterModel I = some (vs, true) → vs.Nodup ∧ ∀ mp, Final I mp → toAbstract I mp ∈ vs) :=
  ⟨C13_vf2_complete_none I h0 h1 hd e0 e1, C13_vf2_complete_iter I h0 h1 hd hn p0 p1 hin hfuel⟩

/-- soundness and completeness together: the drained iterator's vectors are exactly the (abstract vectors of
the) valid complete mappings, each once -/
theorem C13_vf2_iter_exact (I : Inst) (h0 : cgOkB I.g0 = true) (h1 : cgOkB I.g1 = true)
    (hd : I.g0.directed = I.g1.directed) (hn : 0 < I.g0.n)
    (p0 : I.g0.abs.Perm (List.range I.g0.n)) (p1 : I.g1.abs.Perm (List.range I.g1.n))
    (hin : inNodupB I.g0 = true) (hfuel : iterFuelOk I = true)
    (vs : List (List Nat)) (h : iterModel I = some (vs, true)) :
    vs.Nodup ∧ ∀ v, v ∈ vs ↔ ∃ mp, Final I mp ∧ v = toAbstract I mp := by
  have hc := C13_vf2_complete_iter I h0 h1 hd hn p0 p1 hin hfuel vs h
  refine ⟨hc.1, fun v => ⟨fun hv => ?_, ?_⟩⟩
  · obtain ⟨mp, hf, _, rfl⟩ := C13_vf2_iter_sound I h0 h1 hd vs true h v hv
    exact ⟨mp, hf, rfl⟩
  · rintro ⟨mp, hf, rfl⟩
    exact hc.2 mp hf

/-! #### the same at the level of the specification (`Embeds`, `SubIso` of `I.problem`) -/

/-- every embedding of the problem the instance poses is (as an abstract vector) among the yielded vectors,
and the yielded vectors are exactly the embeddings, each once -/
theorem C13_vf2_iter_complete_spec (I : Inst) (h0 : cgOkB I.g0 = true) (h1 : cgOkB I.g1 = true)
    (hd : I.g0.directed = I.g1.directed) (hn : 0 < I.g0.n)
    (p0 : I.g0.abs.Perm (List.range I.g0.n)) (p1 : I.g1.abs.Perm (List.range I.g1.n))
    (hin : inNodupB I.g0 = true) (hfuel : iterFuelOk I = true)
    (vs : List (List Nat)) (h : iterModel I = some (vs, true)) :
    vs.Nodup ∧
    (∀ f, Embeds I.problem f → toAbstract I (vecOf I f) ∈ vs) ∧
    (∀ v ∈ vs, ∃ mp, Embeds I.problem (vecFun mp) ∧ v = toAbstract I mp) := by
  have hc := C13_vf2_complete_iter I h0 h1 hd hn p0 p1 hin hfuel vs h
  refine ⟨hc.1, fun f e => hc.2 _ (Final.of_embeds (cgOkB_sound h0) (cgOkB_sound h1) e), fun v hv => ?_⟩
  obtain ⟨mp, _, he, rfl⟩ := C13_vf2_iter_sound I h0 h1 hd vs true h v hv
  exact ⟨mp, he, rfl⟩

/-- `None` from the model's `subgraph_isomorphisms_iter` only if g0 is not isomorphic to an induced subgraph -/
theorem C13_vf2_none_complete_spec (I : Inst) (h0 : cgOkB I.g0 = true) (h1 : cgOkB I.g1 = true)
    (hd : I.g0.directed = I.g1.directed) (e0 : ECountOk I.g0) (e1 : ECountOk I.g1)
    (h : iterModel I = none) : ¬ SubIso I.problem := by
  rintro ⟨f, e⟩
  exact C13_vf2_complete_none I h0 h1 hd e0 e1 h ⟨_, Final.of_embeds (cgOkB_sound h0) (cgOkB_sound h1) e⟩

/-- the model's `is_isomorphic_subgraph[_matching]` decides `SubIso` (soundness: `C13_vf2_sub_sound`;
completeness needs the side conditions and that the one `next()` call it makes does not run out of fuel) -/
theorem C13_vf2_sub_iff (I : Inst) (h0 : cgOkB I.g0 = true) (h1 : cgOkB I.g1 = true)
    (hd : I.g0.directed = I.g1.directed) (hn : 0 < I.g0.n) (e0 : ECountOk I.g0) (e1 : ECountOk I.g1)
    (hin : inNodupB I.g0 = true)
    (hfuel : (isomorphisms I true bigFuel (M.init I)).isSome = true) :
    subModel I = true ↔ SubIso I.problem := by
  constructor
  · exact C13_vf2_sub_sound I h0 h1 hd
  · rintro ⟨f, e⟩
    cases h : subModel I with
    | true => rfl
    | false =>
      exact absurd ⟨_, Final.of_embeds (cgOkB_sound h0) (cgOkB_sound h1) e⟩
        (subModel_complete (cgOkB_sound h0) (cgOkB_sound h1) hd (inNodupB_sound h0 hin) hn e0 e1 hfuel h)

/-- the model's `is_isomorphic[_matching]` decides `Iso` (soundness: `C13_vf2_iso_sound`; completeness: the
`!=` size rejections and the `==` frontier pruning of isomorphism mode lose no bijection) -/
theorem C13_vf2_iso_iff (I : Inst) (h0 : cgOkB I.g0 = true) (h1 : cgOkB I.g1 = true)
    (hd : I.g0.directed = I.g1.directed) (hn : 0 < I.g0.n) (e0 : ECountOk I.g0) (e1 : ECountOk I.g1)
    (hin : inNodupB I.g0 = true)
    (hfuel : (isomorphisms I false bigFuel (M.init I)).isSome = true) :
    isoModel I = true ↔ Iso I.problem := by
  constructor
  · exact C13_vf2_iso_sound I h0 h1 hd
  · rintro ⟨f, e, honto⟩
    have ok0 := cgOkB_sound h0
    have ok1 := cgOkB_sound h1
    have hf := Final.of_embeds ok0 ok1 e
    have hnn : I.g0.n = I.g1.n := by
      apply node_count_eq_of_onto hf (f := f)
      intro b hb
      obtain ⟨a, ha, hab⟩ := honto b (by simpa [Inst.problem, CG.toMGraph] using hb)
      exact ⟨a, by simpa [Inst.problem, CG.toMGraph] using ha, hab⟩
    cases h : isoModel I with
    | true => rfl
    | false => exact absurd ⟨_, hf, hnn⟩ (isoModel_complete ok0 ok1 hd (inNodupB_sound h0 hin) hn e0 e1 hfuel h)

/-- counterexample 1 to the statement as written: `ecount` is not constrained by `cgOkB` -/
def exBadEcount : Inst :=
  { g0 := { n := 1, ecount := 1, directed := true, outE := [[]], inN := [[]], abs := [0], nw := [0] },
    g1 := { n := 1, ecount := 0, directed := true, outE := [[]], inN := [[]], abs := [0], nw := [0] },
    nm := fun _ _ => true, em := fun _ _ => true, semantic := false }

theorem exBadEcount_final : Final exBadEcount [some 0] := by
  have hadj : ∀ (g : CG) (x y : Nat), g.outE = [[]] → g.adj x y = false := by
    intro g x y hg
    cases x <;> simp [CG.adj, CG.outN, hg]
  refine ⟨rfl, ?_, ?_, ⟨?_, ?_, ?_⟩⟩
  · intro i hi
    have hi : i < 1 := hi
    have : i = 0 := by omega
    subst this
    exact ⟨0, rfl, by decide⟩
  · intro i i' j hi hi'
    cases i <;> cases i' <;> simp at hi hi' ⊢
  · intro i j i' j' _ _
    rw [hadj _ _ _ rfl, hadj _ _ _ rfl]
  · intro hs; exact absurd hs (by decide)
  · intro hs; exact absurd hs (by decide)

theorem C13_vf2_complete_statement_false_witness : ¬ C13_vf2_complete_statement := by
  intro h
  exact (h exBadEcount (by decide) (by decide) rfl (by decide) (List.Perm.refl _) (List.Perm.refl _)).1
    (by decide) ⟨_, exBadEcount_final⟩

/-- counterexample 2 (edge counts right): a repeated entry in an `Incoming` list passes `cgOkB`, and the
in-degree comparison of `is_feasible` then rejects the only embedding -/
def exDupIn : Inst :=
  { g0 := { n := 2, ecount := 1, directed := true, outE := [[], [(0, 0)]], inN := [[1, 1], []], abs := [0, 1],
            nw := [0, 0] },
    g1 := { n := 2, ecount := 1, directed := true, outE := [[], [(0, 0)]], inN := [[1], []], abs := [0, 1],
            nw := [0, 0] },
    nm := fun _ _ => true, em := fun _ _ => true, semantic := false }

theorem exDupIn_final : Final exDupIn [some 0, some 1] := by
  have hid : ∀ i j : Nat, ([some 0, some 1][i]?).getD none = some j → i = j := by
    intro i j h
    rcases i with _ | _ | i <;> simp at h <;> omega
  refine ⟨rfl, ?_, ?_, ⟨?_, ?_, ?_⟩⟩
  · intro i hi
    have hi : i < 2 := hi
    rcases i with _ | _ | i
    · exact ⟨0, rfl, by decide⟩
    · exact ⟨1, rfl, by decide⟩
    · omega
  · intro i i' j hi hi'
    have a := hid i j (by rw [hi]; rfl)
    have b := hid i' j (by rw [hi']; rfl)
    omega
  · intro i j i' j' hi hi'
    have a := hid i j hi
    have b := hid i' j' hi'
    subst a; subst b
    rfl
  · intro hs; exact absurd hs (by decide)
  · intro hs; exact absurd hs (by decide)

theorem C13_vf2_complete_statement_false_witness_inNb :
    cgOkB exDupIn.g0 = true ∧ cgOkB exDupIn.g1 = true ∧ ECountOk exDupIn.g0 ∧ ECountOk exDupIn.g1 ∧
    iterFuelOk exDupIn = true ∧ inNodupB exDupIn.g0 = false ∧
    iterModel exDupIn = some ([], true) ∧ ∃ mp, Final exDupIn mp :=
  ⟨by decide, by decide, by decide, by decide, by decide, by decide, by decide, _, exDupIn_final⟩

/- counterexample 3 (not evaluated: it needs > 4·10⁶ loop iterations): 11 isolated pattern nodes and 12 isolated
target nodes, `nm x y := x < 10 || y == 0` on node weights `nw i = i`: node 0 is first matched with target 0,
which only the pattern node 10 may take, and the 11!/2! assignments of the nodes 1..9 are tried before that
choice is revised — the first `next()` runs out of `bigFuel`, which `iterLoop` reports as `([], true)`. -/

end Vf2

/-! ### wave 3: termination with an explicit bound, fuel-generic wrappers, the empty pattern, the end flag,
relabeling invariance of the model's answers

The wave-2 theorems above are conditional on the fixed fuel `bigFuel` hard-wired into `tryMatch` / `iterLoop`
(`hfuel`, `iterFuelOk`), exclude the empty pattern (`0 < I.g0.n`) and speak about the iterator only when its end
flag is `true`.  Here:

* the frame-stack search TERMINATES: a potential of the stack (`Phi`) strictly decreases with every loop
  iteration; `explicitBound I = outerCost n0 n1 n0 + 1`, with `outerCost k = 1 + (n1 - (n0-k))·(2 + outerCost (k-1))`
  (≈ 3 · the number of partial injective mappings, `≤ 3·(n1+1)^n0`, and `≤ bigFuel` whenever `n0, n1 ≤ 9`),
  suffices for every `next()` call; the loop is monotone in its fuel;
* `tryMatchF` / `isoModelF` / `subModelF` / `iterLoopF` / `iterModelF` are the wrappers over an arbitrary fuel,
  the model's are their instances at `bigFuel`; the iff theorems hold for every fuel `≥ explicitBound I`, the
  `_bounded` versions are the instances at `bigFuel`; none of them excludes the empty pattern;
* out of fuel is NOT reported by the model: `tryMatch` maps it to `false`, `iterLoop` to "iterator ended"
  (end flag `true`) — so the end flag of `iterModel` is `true` for ANY fuel (`C13_vf2_iter_flag`), and only
  the fuel condition makes the answer complete. -/

section Vf2W3
open PetgraphModel.C13.Vf2

/-- the model's wrappers are the fuel-generic ones at `bigFuel` -/
theorem C13_vf2_fuel_instances (I : Inst) :
    (∀ sub, tryMatch I sub = tryMatchF I sub bigFuel) ∧ isoModel I = isoModelF I bigFuel ∧
    subModel I = subModelF I bigFuel ∧ (∀ k m acc, iterLoop I k m acc = iterLoopF I bigFuel k m acc) ∧
    iterModel I = iterModelF I bigFuel :=
  ⟨tryMatch_eq_F I, isoModel_eq_F I, subModel_eq_F I, iterLoop_eq_F I, iterModel_eq_F I⟩

/-- fuel monotonicity: once a `next()` call ends within `fuel` loop iterations, every larger fuel gives the same
state and the same answer (any state, both modes) -/
theorem C13_vf2_fuel_mono (I : Inst) (sub : Bool) (fuel fuel' : Nat) (m : M) (x : M × Result)
    (h : isomorphisms I sub fuel m = some x) (hle : fuel ≤ fuel') : isomorphisms I sub fuel' m = some x :=
  isomorphisms_mono h hle

/-- every loop iteration strictly decreases the potential of the frame stack -/
theorem C13_vf2_step_decreases (I : Inst) (h0 : cgOkB I.g0 = true) (h1 : cgOkB I.g1 = true)
    (hd : I.g0.directed = I.g1.directed) (sub : Bool) (m : M) (fr : Frame) (rest : List Frame) (result : Result)
    (hinv : Inv I m) (hs : m.stack = fr :: rest) (hg : ∀ mp, result = some mp → Final I mp)
    (m2 : M) (r2 : Result) (chk : Bool)
    (h : frameStep I sub { m with stack := rest } fr result = (m2, r2, chk)) :
    Phi I m2.stack < Phi I m.stack :=
  frameStep_pot (cgOkB_sound h0) (cgOkB_sound h1) hd hinv hs hg h

/-- TERMINATION with an explicit bound: the first `next()` call ends within `explicitBound I` loop iterations,
and so does every later one — from any state satisfying the invariant whose potential is below the fuel, the
call returns, the invariant holds again and the potential has not grown (both modes) -/
theorem C13_vf2_terminates (I : Inst) (h0 : cgOkB I.g0 = true) (h1 : cgOkB I.g1 = true)
    (hd : I.g0.directed = I.g1.directed) (sub : Bool) :
    Phi I (M.init I).stack + 1 = explicitBound I ∧
    (∀ fuel, explicitBound I ≤ fuel → (isomorphisms I sub fuel (M.init I)).isSome = true) ∧
    ∀ (fuel : Nat) (m : M), Inv I m → Phi I m.stack < fuel →
      ∃ m' r, isomorphisms I sub fuel m = some (m', r) ∧ Inv I m' ∧ Phi I m'.stack ≤ Phi I m.stack := by
  have ok0 := cgOkB_sound h0
  have ok1 := cgOkB_sound h1
  refine ⟨Phi_init I, fun fuel hb => isomorphisms_init_terminates ok0 ok1 hd sub hb, ?_⟩
  intro fuel m hinv hlt
  obtain ⟨m', r, h, hle⟩ := isomorphisms_terminates ok0 ok1 hd sub hinv hlt
  exact ⟨m', r, h, (isomorphisms_sound ok0 ok1 hd sub fuel m m' r hinv h).1, hle⟩

/-- the bound in closed form -/
theorem C13_vf2_explicitBound_le_pow (I : Inst) : explicitBound I + 1 ≤ 3 * (I.g1.n + 1) ^ I.g0.n := by
  have := outerCost_le_pow I.g0.n I.g1.n I.g0.n
  unfold explicitBound
  omega

/-- `bigFuel` suffices for all graphs on at most 9 nodes (the driver runs at most 6 / 7) -/
theorem C13_vf2_explicitBound_small (I : Inst) (hn0 : I.g0.n ≤ 9) (hn1 : I.g1.n ≤ 9) :
    explicitBound I ≤ bigFuel := by
  have key : ∀ a, a < 10 → ∀ b, b < 10 → outerCost a b a + 1 ≤ 4000000 := by decide
  exact key _ (by omega) _ (by omega)

/-- the fuel side conditions of the wave-2 theorems follow from the explicit bound -/
theorem C13_vf2_fuelOk_of_bound (I : Inst) (h0 : cgOkB I.g0 = true) (h1 : cgOkB I.g1 = true)
    (hd : I.g0.directed = I.g1.directed) (hb : explicitBound I ≤ bigFuel) :
    iterFuelOk I = true ∧ ∀ sub, (isomorphisms I sub bigFuel (M.init I)).isSome = true :=
  ⟨iterFuelOk_of_bound (cgOkB_sound h0) (cgOkB_sound h1) hd hb,
   fun sub => isomorphisms_init_terminates (cgOkB_sound h0) (cgOkB_sound h1) hd sub hb⟩

/-- the EMPTY PATTERN (`n0 = 0`, the repaired D30 path), any fuel: `is_isomorphic_subgraph*` answers `true`
and the empty pattern embeds; `subgraph_isomorphisms_iter` yields exactly one mapping, the empty one, and then
ends; the only valid complete mapping is the empty vector; `is_isomorphic*` answers `true` exactly when the
target has no node (and its `edge_count()` is 0), which is what `Iso` says -/
theorem C13_vf2_empty_pattern_fuel (I : Inst) (hn : I.g0.n = 0) (e0 : ECountOk I.g0) (fuel : Nat) :
    subModelF I fuel = true ∧ SubIso I.problem ∧
    iterModelF I fuel = some ([[]], true) ∧ (∀ mp, Final I mp ↔ mp = []) ∧ toAbstract I [] = [] ∧
    (isoModelF I fuel = true ↔ I.g1.n = 0 ∧ I.g1.ecount = 0) ∧ (Iso I.problem ↔ I.g1.n = 0) ∧
    (ECountOk I.g1 → (isoModelF I fuel = true ↔ Iso I.problem)) := by
  have hec := ecount_of_zero hn e0
  have hiso : isoModelF I fuel = true ↔ I.g1.n = 0 ∧ I.g1.ecount = 0 := by
    unfold isoModelF
    rw [tryMatchF_of_zero hn, hn, hec]
    simp only [Bool.or_eq_true, bne_iff_ne, ne_eq, Bool.if_false_left, Bool.and_true, Bool.not_eq_true']
    rw [decide_eq_false_iff_not]
    omega
  refine ⟨?_, ⟨id, embeds_of_zero hn id⟩, ?_, final_of_zero hn, toAbstract_of_zero hn [], hiso, iso_of_zero hn, ?_⟩
  · unfold subModelF
    rw [tryMatchF_of_zero hn, hn, hec]
    simp
  · unfold iterModelF
    rw [iterLoopF_of_zero hn, hn, hec]
    simp
  · intro e1
    rw [hiso, iso_of_zero hn]
    exact ⟨fun h => h.1, fun h => ⟨h, ecount_of_zero h e1⟩⟩

/-- the empty pattern, for the model's own wrappers (`bigFuel`) -/
theorem C13_vf2_empty_pattern (I : Inst) (hn : I.g0.n = 0) (e0 : ECountOk I.g0) :
    subModel I = true ∧ SubIso I.problem ∧
    iterModel I = some ([[]], true) ∧ (∀ mp, Final I mp ↔ mp = []) ∧ toAbstract I [] = [] ∧
    (isoModel I = true ↔ I.g1.n = 0 ∧ I.g1.ecount = 0) ∧ (Iso I.problem ↔ I.g1.n = 0) ∧
    (ECountOk I.g1 → (isoModel I = true ↔ Iso I.problem)) := by
  rw [subModel_eq_F, iterModel_eq_F, isoModel_eq_F]
  exact C13_vf2_empty_pattern_fuel I hn e0 bigFuel

/-- `is_isomorphic_subgraph[_matching]` over any fuel `≥ explicitBound I` decides `SubIso` (all patterns,
the empty one included) -/
theorem C13_vf2_sub_iff_fuel (I : Inst) (h0 : cgOkB I.g0 = true) (h1 : cgOkB I.g1 = true)
    (hd : I.g0.directed = I.g1.directed) (e0 : ECountOk I.g0) (e1 : ECountOk I.g1)
    (hin : inNodupB I.g0 = true) (fuel : Nat) (hb : explicitBound I ≤ fuel) :
    subModelF I fuel = true ↔ SubIso I.problem := by
  have ok0 := cgOkB_sound h0
  have ok1 := cgOkB_sound h1
  by_cases hn : I.g0.n = 0
  · have := C13_vf2_empty_pattern_fuel I hn e0 fuel
    exact ⟨fun _ => this.2.1, fun _ => this.1⟩
  have hn : 0 < I.g0.n := Nat.pos_of_ne_zero hn
  constructor
  · intro h
    unfold subModelF at h
    split at h
    · cases h
    · obtain ⟨mp, hf⟩ := tryMatchF_sound ok0 ok1 hd h
      exact ⟨_, hf.embeds ok0 ok1⟩
  · rintro ⟨f, e⟩
    have hf := Final.of_embeds ok0 ok1 e
    cases h : subModelF I fuel with
    | true => rfl
    | false =>
      exfalso
      unfold subModelF at h
      split at h
      · rename_i hc
        simp only [Bool.or_eq_true, decide_eq_true_eq] at hc
        have := hf.node_count_le
        have := hf.ecount_le ok0 ok1 hd e0 e1
        omega
      · exact tryMatchF_complete ok0 ok1 hd (inNodupB_sound h0 hin) hn (ExtT.sizesOkS_sub ok0 ok1 hd) hb h ⟨_, hf⟩

/-- `is_isomorphic[_matching]` over any fuel `≥ explicitBound I` decides `Iso` (all patterns) -/
theorem C13_vf2_iso_iff_fuel (I : Inst) (h0 : cgOkB I.g0 = true) (h1 : cgOkB I.g1 = true)
    (hd : I.g0.directed = I.g1.directed) (e0 : ECountOk I.g0) (e1 : ECountOk I.g1)
    (hin : inNodupB I.g0 = true) (fuel : Nat) (hb : explicitBound I ≤ fuel) :
    isoModelF I fuel = true ↔ Iso I.problem := by
  have ok0 := cgOkB_sound h0
  have ok1 := cgOkB_sound h1
  by_cases hn : I.g0.n = 0
  · exact (C13_vf2_empty_pattern_fuel I hn e0 fuel).2.2.2.2.2.2.2 e1
  have hn : 0 < I.g0.n := Nat.pos_of_ne_zero hn
  constructor
  · intro h
    unfold isoModelF at h
    split at h
    · cases h
    · rename_i hne
      simp only [Bool.or_eq_true, bne_iff_ne, ne_eq, not_or, Decidable.not_not] at hne
      obtain ⟨mp, hf⟩ := tryMatchF_sound ok0 ok1 hd h
      refine ⟨_, hf.embeds ok0 ok1, ?_⟩
      intro b hb
      simp only [Inst.problem, CG.toMGraph, List.mem_range] at hb ⊢
      obtain ⟨i, hi, hm⟩ := hf.onto hne.1 b hb
      exact ⟨i, hi, by simp [hm]⟩
  · rintro ⟨f, e, honto⟩
    have hf := Final.of_embeds ok0 ok1 e
    have hnn : I.g0.n = I.g1.n := by
      apply node_count_eq_of_onto hf (f := f)
      intro b hb
      obtain ⟨a, ha, hab⟩ := honto b (by simpa [Inst.problem, CG.toMGraph] using hb)
      exact ⟨a, by simpa [Inst.problem, CG.toMGraph] using ha, hab⟩
    cases h : isoModelF I fuel with
    | true => rfl
    | false =>
      exfalso
      unfold isoModelF at h
      split at h
      · rename_i hc
        simp only [Bool.or_eq_true, bne_iff_ne, ne_eq] at hc
        have := hf.ecount_eq ok0 ok1 hd e0 e1 hnn
        rcases hc with hc | hc
        · exact hc hnn
        · exact hc this
      · exact tryMatchF_complete ok0 ok1 hd (inNodupB_sound h0 hin) hn (ExtT.sizesOkS_iso ok0 ok1 hd hnn) hb h
          ⟨_, hf⟩

/-- `C13_vf2_sub_iff` with the fuel hypothesis replaced by the explicit bound, and without excluding the
empty pattern -/
theorem C13_vf2_sub_iff_bounded (I : Inst) (h0 : cgOkB I.g0 = true) (h1 : cgOkB I.g1 = true)
    (hd : I.g0.directed = I.g1.directed) (e0 : ECountOk I.g0) (e1 : ECountOk I.g1)
    (hin : inNodupB I.g0 = true) (hb : explicitBound I ≤ bigFuel) :
    subModel I = true ↔ SubIso I.problem := by
  rw [subModel_eq_F]
  exact C13_vf2_sub_iff_fuel I h0 h1 hd e0 e1 hin bigFuel hb

/-- `C13_vf2_iso_iff` with the fuel hypothesis replaced by the explicit bound, and without excluding the
empty pattern -/
theorem C13_vf2_iso_iff_bounded (I : Inst) (h0 : cgOkB I.g0 = true) (h1 : cgOkB I.g1 = true)
    (hd : I.g0.directed = I.g1.directed) (e0 : ECountOk I.g0) (e1 : ECountOk I.g1)
    (hin : inNodupB I.g0 = true) (hb : explicitBound I ≤ bigFuel) :
    isoModel I = true ↔ Iso I.problem := by
  rw [isoModel_eq_F]
  exact C13_vf2_iso_iff_fuel I h0 h1 hd e0 e1 hin bigFuel hb

/-- the END FLAG of the drained iterator is `true` — for ANY fuel, the model's `bigFuel` included: the
`n1!/(n1-n0)! + 2` calls always drain it, because no valid mapping is yielded twice and there are at most
`n1!/(n1-n0)!` of them; a call that runs out of fuel is reported as the end as well.  (So the hypothesis
`iterModel I = some (vs, true)` of the wave-2 theorems only says `iterModel I ≠ none`.) -/
theorem C13_vf2_iter_flag (I : Inst) (h0 : cgOkB I.g0 = true) (h1 : cgOkB I.g1 = true)
    (hd : I.g0.directed = I.g1.directed)
    (p0 : I.g0.abs.Perm (List.range I.g0.n)) (p1 : I.g1.abs.Perm (List.range I.g1.n))
    (hin : inNodupB I.g0 = true) :
    (∀ vs fin, iterModel I = some (vs, fin) → fin = true) ∧
    ∀ fuel vs fin, iterModelF I fuel = some (vs, fin) → fin = true := by
  have key : ∀ fuel vs fin, iterModelF I fuel = some (vs, fin) → fin = true := fun fuel vs fin h =>
    iterModelF_flag (cgOkB_sound h0) (cgOkB_sound h1) hd (inNodupB_sound h0 hin) p0 p1 fuel h
  refine ⟨fun vs fin h => ?_, key⟩
  rw [iterModel_eq_F] at h
  exact key bigFuel vs fin h

/-- `subgraph_isomorphisms_iter` over any fuel `≥ explicitBound I` (all patterns): the end flag is `true`, the
yielded vectors are pairwise different and are exactly the (abstract vectors of the) valid complete mappings -/
theorem C13_vf2_iter_exact_fuel (I : Inst) (h0 : cgOkB I.g0 = true) (h1 : cgOkB I.g1 = true)
    (hd : I.g0.directed = I.g1.directed)
    (p0 : I.g0.abs.Perm (List.range I.g0.n)) (p1 : I.g1.abs.Perm (List.range I.g1.n))
    (hin : inNodupB I.g0 = true) (fuel : Nat) (hb : explicitBound I ≤ fuel)
    (vs : List (List Nat)) (fin : Bool) (h : iterModelF I fuel = some (vs, fin)) :
    fin = true ∧ vs.Nodup ∧ ∀ v, v ∈ vs ↔ ∃ mp, Final I mp ∧ v = toAbstract I mp :=
  iterModelF_exact (cgOkB_sound h0) (cgOkB_sound h1) hd (inNodupB_sound h0 hin) p0 p1 hb h

/-- `C13_vf2_iter_exact` for the model's own iterator with the fuel hypothesis replaced by the explicit bound,
for whatever end flag, and without excluding the empty pattern -/
theorem C13_vf2_iter_exact_bounded (I : Inst) (h0 : cgOkB I.g0 = true) (h1 : cgOkB I.g1 = true)
    (hd : I.g0.directed = I.g1.directed)
    (p0 : I.g0.abs.Perm (List.range I.g0.n)) (p1 : I.g1.abs.Perm (List.range I.g1.n))
    (hin : inNodupB I.g0 = true) (hb : explicitBound I ≤ bigFuel)
    (vs : List (List Nat)) (fin : Bool) (h : iterModel I = some (vs, fin)) :
    fin = true ∧ vs.Nodup ∧ ∀ v, v ∈ vs ↔ ∃ mp, Final I mp ∧ v = toAbstract I mp := by
  rw [iterModel_eq_F] at h
  exact C13_vf2_iter_exact_fuel I h0 h1 hd p0 p1 hin bigFuel hb vs fin h

/-- the same against the specification: every embedding of the problem is yielded (exactly once), everything
yielded is an embedding; and `None` only if there is no embedding -/
theorem C13_vf2_iter_spec_bounded (I : Inst) (h0 : cgOkB I.g0 = true) (h1 : cgOkB I.g1 = true)
    (hd : I.g0.directed = I.g1.directed) (e0 : ECountOk I.g0) (e1 : ECountOk I.g1)
    (p0 : I.g0.abs.Perm (List.range I.g0.n)) (p1 : I.g1.abs.Perm (List.range I.g1.n))
    (hin : inNodupB I.g0 = true) (hb : explicitBound I ≤ bigFuel) :
    (iterModel I = none → ¬ SubIso I.problem) ∧
    ∀ vs fin, iterModel I = some (vs, fin) →
      fin = true ∧ vs.Nodup ∧ (∀ f, Embeds I.problem f → toAbstract I (vecOf I f) ∈ vs) ∧
      (∀ v ∈ vs, ∃ mp, Embeds I.problem (vecFun mp) ∧ v = toAbstract I mp) := by
  refine ⟨C13_vf2_none_complete_spec I h0 h1 hd e0 e1, fun vs fin h => ?_⟩
  obtain ⟨hfin, hnd, hmem⟩ := C13_vf2_iter_exact_bounded I h0 h1 hd p0 p1 hin hb vs fin h
  refine ⟨hfin, hnd, fun f e => (hmem _).mpr ⟨_, Final.of_embeds (cgOkB_sound h0) (cgOkB_sound h1) e, rfl⟩, ?_⟩
  intro v hv
  obtain ⟨mp, hf, rfl⟩ := (hmem v).mp hv
  exact ⟨mp, hf.embeds (cgOkB_sound h0) (cgOkB_sound h1), rfl⟩

/-- RELABELING INVARIANCE OF THE MODEL'S ANSWERS.  Let `I'` be an instance that poses the problem of `I`
relabeled by `σ0` (pattern) and `σ1` (target) — explicitly: `I'.problem` is the same problem as
`I.problem.relabel σ0 τ0 σ1 τ1` in the sense of `Problem.SameAs` (same nodes, same edge sets, same weights
and predicates; an EQUATION between the two records is the special case `Problem.SameAs.of_eq`, but it forces
`σ` to be the identity on the nodes because `Inst.problem` lists the nodes as `List.range n`).  Then, both
instances satisfying the executable side conditions and the fuel bound, the model gives the same Boolean
answers on both. -/
theorem C13_vf2_relabel_invariant (I I' : Inst) (ok : InstOk I) (ok' : InstOk I')
    (hb : explicitBound I ≤ bigFuel) (hb' : explicitBound I' ≤ bigFuel)
    (σ0 τ0 σ1 τ1 : Nat → Nat)
    (hl0 : ∀ a, a < I.g0.n → τ0 (σ0 a) = a) (hl1 : ∀ b, b < I.g1.n → τ1 (σ1 b) = b)
    (hP : Problem.SameAs I'.problem (I.problem.relabel σ0 τ0 σ1 τ1)) :
    subModel I' = subModel I ∧ isoModel I' = isoModel I := by
  have wf0 := toMGraph_wf (cgOkB_sound ok.h0)
  have wf1 := toMGraph_wf (cgOkB_sound ok.h1)
  have hl0' : ∀ a ∈ I.problem.g0.nodes, τ0 (σ0 a) = a := fun a ha =>
    hl0 a (by simpa [Inst.problem, CG.toMGraph] using ha)
  have hl1' : ∀ b ∈ I.problem.g1.nodes, τ1 (σ1 b) = b := fun b hb =>
    hl1 b (by simpa [Inst.problem, CG.toMGraph] using hb)
  have inv := C13_relabel_invariant I.problem σ0 τ0 σ1 τ1 wf0 wf1 hl0' hl1'
  constructor
  · apply Bool.eq_of_iff'
    rw [C13_vf2_sub_iff_bounded I' ok'.h0 ok'.h1 ok'.hd ok'.e0 ok'.e1 ok'.hin hb',
      C13_vf2_sub_iff_bounded I ok.h0 ok.h1 ok.hd ok.e0 ok.e1 ok.hin hb, hP.subIso_iff]
    exact inv.2.1
  · apply Bool.eq_of_iff'
    rw [C13_vf2_iso_iff_bounded I' ok'.h0 ok'.h1 ok'.hd ok'.e0 ok'.e1 ok'.hin hb',
      C13_vf2_iso_iff_bounded I ok.h0 ok.h1 ok.hd ok.e0 ok.e1 ok.hin hb, hP.iso_iff]
    exact inv.1

/-- relabeling invariance of the model's ITERATOR: if `I'` is `I` with its concrete indices relabeled by `σ0` /
`σ1` (`Relabeled`: the `problem` relation above plus the reporting vectors carried along,
`I'.g0.abs[σ0 i] = I.g0.abs[i]`, `I'.g1.abs[σ1 j] = I.g1.abs[j]`), both drained iterators yield the same
abstract vectors, each exactly once (in a possibly different order) -/
theorem C13_vf2_relabel_invariant_iter (I I' : Inst) (ok : InstOk I) (ok' : InstOk I')
    (hb : explicitBound I ≤ bigFuel) (hb' : explicitBound I' ≤ bigFuel)
    (p0 : I.g0.abs.Perm (List.range I.g0.n)) (p1 : I.g1.abs.Perm (List.range I.g1.n))
    (p0' : I'.g0.abs.Perm (List.range I'.g0.n)) (p1' : I'.g1.abs.Perm (List.range I'.g1.n))
    (σ0 τ0 σ1 τ1 : Nat → Nat) (r : Relabeled I I' σ0 τ0 σ1 τ1)
    (vs vs' : List (List Nat)) (fin fin' : Bool)
    (h : iterModel I = some (vs, fin)) (h' : iterModel I' = some (vs', fin')) :
    vs'.Perm vs ∧ fin = true ∧ fin' = true := by
  rw [iterModel_eq_F] at h h'
  refine ⟨iterModelF_relabel r (cgOkB_sound ok.h0) (cgOkB_sound ok.h1) ok.hd (inNodupB_sound ok.h0 ok.hin)
    (cgOkB_sound ok'.h0) (cgOkB_sound ok'.h1) ok'.hd (inNodupB_sound ok'.h0 ok'.hin) p0 p1 p0' p1' hb hb' h h',
    ?_, ?_⟩
  · exact (C13_vf2_iter_flag I ok.h0 ok.h1 ok.hd p0 p1 ok.hin).2 bigFuel vs fin h
  · exact (C13_vf2_iter_flag I' ok'.h0 ok'.h1 ok'.hd p0' p1' ok'.hin).2 bigFuel vs' fin' h'

end Vf2W3

/-! ### wave 4: run-time checks of the hypotheses

Every hypothesis of the theorems above that concerns the concrete case is evaluated by the driver
(`Driver/C13.lean`) on every round / query / model call it judges:

| hypothesis | executable check (driver) | theorem |
|---|---|---|
| `P.Ok` (well-formed simple graphs of one edge type) | `problemOkB P` | `C13_problemOk_check` |
| `CGOk g0`, `CGOk g1` | `cgOkB` | `C13_cgOk_check` |
| `I.g0.directed = I.g1.directed` | `!=` on the flags | `C13_sideFail_check` |
| `ECountOk g0`, `ECountOk g1` | `eCountOkB` | `C13_eCountOk_check` |
| duplicate-free `Incoming` lists of g0 | `inNodupB` | `C13_inNodup_check` |
| `abs` is a permutation of `0..n-1` (both) | `absPermB` | `C13_absPerm_check` |
| all of the above on the instance | `sideFail I = none` | `C13_sideFail_check`, `C13_sideFail_exact` |
| no `next()` call out of fuel (`hfuel`, `iterFuelOk`, `explicitBound I ≤ bigFuel`) | the reporting wrappers `isoModelR` / `subModelR` / `iterModelR` return `some _` | `C13_fuel_check` |
| the instance `I` given to the model poses the abstract problem `P` given to the oracle (`Link I P`) | `linkFail I P = none` | `C13_link_check` |
| all of it, as the driver evaluates it before judging a query | `queryFail d nm em semantic = none` | `C13_driver_query_check` |

The FUEL: instead of bounding the size of the graphs a priori (`explicitBound I ≤ bigFuel`, i.e. ≤ 9 nodes),
the driver checks per call that the call RETURNED within `bigFuel` iterations; by fuel monotonicity a returned
call is the call of the unbounded loop, so the exactness theorems `C13_vf2_*_checked` below hold for graphs of
ANY size, with no fuel hypothesis left.  A call that does not return is reported (`none` → the driver's
`SPECFAIL generator left the proved range: FUEL …`), never turned into `false` / "iterator ended"; it cannot
happen while `explicitBound I ≤ fuel` (`C13_vf2_fuel_never_reported`). -/

section Checks
open PetgraphModel.C13.Vf2

theorem C13_problemOk_check (P : Problem) (h : problemOkB P = true) : P.Ok := (C13_problemOkB_iff P).mp h

theorem C13_cgOk_check (g : CG) (h : cgOkB g = true) : CGOk g := cgOkB_sound h

theorem C13_eCountOk_check (g : CG) (h : eCountOkB g = true) : ECountOk g := (eCountOkB_iff g).mp h

theorem C13_inNodup_check (g : CG) (h : cgOkB g = true) (hb : inNodupB g = true) :
    g.directed = true → ∀ i, (g.inNb i).Nodup := inNodupB_sound h hb

theorem C13_absPerm_check (g : CG) (h : absPermB g = true) : g.abs.Perm (List.range g.n) := (absPermB_iff g).mp h

/-- the bundle the driver evaluates before every query: all side conditions of the exactness theorems -/
theorem C13_sideFail_check (I : Inst) (h : sideFail I = none) :
    InstOk I ∧ I.g0.abs.Perm (List.range I.g0.n) ∧ I.g1.abs.Perm (List.range I.g1.n) := sideFail_none h

/-- … and the check is exact: it fails only if one of them really fails -/
theorem C13_sideFail_exact (I : Inst) :
    sideFail I = none ↔ InstOk I ∧ I.g0.abs.Perm (List.range I.g0.n) ∧ I.g1.abs.Perm (List.range I.g1.n) := by
  constructor
  · exact sideFail_none
  · intro h
    cases hs : sideFail I with
    | none => rfl
    | some w => exact absurd h (sideFail_some hs)

/-- the FUEL check (the model's own fuel `bigFuel`): an answer the reporting wrappers return is the answer of
the model's wrappers, and the fuel hypotheses of the wave-2 theorems (`hfuel`, `iterFuelOk`) hold for it —
unless the early size test answered and no `next()` call was made at all -/
theorem C13_fuel_check (I : Inst) :
    (∀ b, isoModelR I bigFuel = some b → isoModel I = b ∧
      ((I.g0.n != I.g1.n || I.g0.ecount != I.g1.ecount) = true ∨
       (isomorphisms I false bigFuel (M.init I)).isSome = true)) ∧
    (∀ b, subModelR I bigFuel = some b → subModel I = b ∧
      ((decide (I.g0.n > I.g1.n) || decide (I.g0.ecount > I.g1.ecount)) = true ∨
       (isomorphisms I true bigFuel (M.init I)).isSome = true)) ∧
    (∀ r, iterModelR I bigFuel = some r → iterModel I = r ∧ (r = none ∨ iterFuelOk I = true)) := by
  have rm := reported_eq_model I
  refine ⟨fun b h => ⟨rm.1 b h, ?_⟩, fun b h => ⟨rm.2.1 b h, ?_⟩, fun r h => ⟨rm.2.2 r h, ?_⟩⟩
  · unfold isoModelR at h
    by_cases hc : (I.g0.n != I.g1.n || I.g0.ecount != I.g1.ecount) = true
    · exact Or.inl hc
    · rw [if_neg hc] at h
      exact Or.inr (tryMatchR_some h).1
  · unfold subModelR at h
    by_cases hc : (decide (I.g0.n > I.g1.n) || decide (I.g0.ecount > I.g1.ecount)) = true
    · exact Or.inl hc
    · rw [if_neg hc] at h
      exact Or.inr (tryMatchR_some h).1
  · have hm := rm.2.2 r h
    cases r with
    | none => exact Or.inl rfl
    | some x =>
      right
      have hne : iterModel I ≠ none := by rw [hm]; simp
      cases hf : iterFuelOk I with
      | true => rfl
      | false =>
        have := (iterModelR_bigFuel I).2.2 hne hf
        rw [this] at h
        cases h

/-- `FUEL` is reported only when a call really does not return: never with `explicitBound I ≤ fuel` — in
particular never at `bigFuel` for graphs on at most 9 nodes -/
theorem C13_vf2_fuel_never_reported (I : Inst) (h0 : cgOkB I.g0 = true) (h1 : cgOkB I.g1 = true)
    (hd : I.g0.directed = I.g1.directed) :
    (∀ fuel, explicitBound I ≤ fuel →
      (isoModelR I fuel).isSome = true ∧ (subModelR I fuel).isSome = true ∧ (iterModelR I fuel).isSome = true) ∧
    (I.g0.n ≤ 9 → I.g1.n ≤ 9 →
      (isoModelR I bigFuel).isSome = true ∧ (subModelR I bigFuel).isSome = true ∧
      (iterModelR I bigFuel).isSome = true) :=
  ⟨fun _ hb => never_reported (cgOkB_sound h0) (cgOkB_sound h1) hd hb,
   fun a b => never_reported (cgOkB_sound h0) (cgOkB_sound h1) hd (C13_vf2_explicitBound_small I a b)⟩

/-- a reported answer does not depend on the fuel: it is the answer of the fuel-generic wrapper for every
larger fuel (the unbounded loop of the Rust code) -/
theorem C13_vf2_reported_fuel_independent (I : Inst) (fuel : Nat) :
    (∀ b, isoModelR I fuel = some b → ∀ F, fuel ≤ F → isoModelF I F = b ∧ isoModelR I F = some b) ∧
    (∀ b, subModelR I fuel = some b → ∀ F, fuel ≤ F → subModelF I F = b ∧ subModelR I F = some b) ∧
    (∀ r, iterModelR I fuel = some r → ∀ F, fuel ≤ F → iterModelF I F = r ∧ iterModelR I F = some r) :=
  ⟨fun _ h F hF => ⟨isoModelR_some h F hF, isoModelR_mono h hF⟩,
   fun _ h F hF => ⟨subModelR_some h F hF, subModelR_mono h hF⟩,
   fun _ h F hF => ⟨iterModelR_some h F hF, iterModelR_mono h hF⟩⟩

/-- EXACTNESS of every answer of `is_isomorphic_subgraph[_matching]` the driver compares: all side conditions
are run-time checks (`sideFail I = none`, the call returned), no bound on the size of the graphs -/
theorem C13_vf2_sub_checked (I : Inst) (hs : sideFail I = none) (fuel : Nat) (b : Bool)
    (h : subModelR I fuel = some b) : b = true ↔ SubIso I.problem := by
  obtain ⟨ok, _, _⟩ := sideFail_none hs
  have hF := subModelR_some h (max fuel (explicitBound I)) (Nat.le_max_left _ _)
  rw [← hF]
  exact C13_vf2_sub_iff_fuel I ok.h0 ok.h1 ok.hd ok.e0 ok.e1 ok.hin _ (Nat.le_max_right _ _)

/-- EXACTNESS of every answer of `is_isomorphic[_matching]` the driver compares -/
theorem C13_vf2_iso_checked (I : Inst) (hs : sideFail I = none) (fuel : Nat) (b : Bool)
    (h : isoModelR I fuel = some b) : b = true ↔ Iso I.problem := by
  obtain ⟨ok, _, _⟩ := sideFail_none hs
  have hF := isoModelR_some h (max fuel (explicitBound I)) (Nat.le_max_left _ _)
  rw [← hF]
  exact C13_vf2_iso_iff_fuel I ok.h0 ok.h1 ok.hd ok.e0 ok.e1 ok.hin _ (Nat.le_max_right _ _)

/-- EXACTNESS of every answer of the drained `subgraph_isomorphisms_iter` the driver compares: `None` only if
there is no embedding; otherwise the end flag is `true`, the yielded vectors are pairwise different and are
exactly the (abstract vectors of the) valid complete mappings = the embeddings of the specification -/
theorem C13_vf2_iter_checked (I : Inst) (hs : sideFail I = none) (fuel : Nat)
    (r : Option (List (List Nat) × Bool)) (h : iterModelR I fuel = some r) :
    (r = none → ¬ SubIso I.problem) ∧
    ∀ vs fin, r = some (vs, fin) →
      fin = true ∧ vs.Nodup ∧ (∀ v, v ∈ vs ↔ ∃ mp, Final I mp ∧ v = toAbstract I mp) ∧
      (∀ f, Embeds I.problem f → toAbstract I (vecOf I f) ∈ vs) ∧
      (∀ v ∈ vs, ∃ mp, Embeds I.problem (vecFun mp) ∧ v = toAbstract I mp) := by
  obtain ⟨ok, p0, p1⟩ := sideFail_none hs
  have ok0 := cgOkB_sound ok.h0
  have ok1 := cgOkB_sound ok.h1
  have hF := iterModelR_some h (max fuel (explicitBound I)) (Nat.le_max_left _ _)
  constructor
  · rintro rfl
    have hb : iterModel I = none := by
      unfold iterModelF at hF
      unfold iterModel
      by_cases hc : (decide (I.g0.n > I.g1.n) || decide (I.g0.ecount > I.g1.ecount)) = true
      · rw [if_pos hc]
      · rw [if_neg hc] at hF; cases hF
    exact C13_vf2_none_complete_spec I ok.h0 ok.h1 ok.hd ok.e0 ok.e1 hb
  · rintro vs fin rfl
    obtain ⟨hfin, hnd, hmem⟩ := C13_vf2_iter_exact_fuel I ok.h0 ok.h1 ok.hd p0 p1 ok.hin _
      (Nat.le_max_right _ _) vs fin hF
    refine ⟨hfin, hnd, hmem, fun f e => (hmem _).mpr ⟨_, Final.of_embeds ok0 ok1 e, rfl⟩, ?_⟩
    intro v hv
    obtain ⟨mp, hf, rfl⟩ := (hmem v).mp hv
    exact ⟨mp, hf.embeds ok0 ok1, rfl⟩

/-- RELABELING INVARIANCE of everything the driver compares, the iterator's SET of mappings included, for
graphs of any size: an instance and a copy with relabeled concrete indices (`Relabeled`, reporting vectors
carried along), both passing the run-time checks, get the same Boolean answers; `subgraph_isomorphisms_iter`
returns `None` on both or on neither, and otherwise yields the same abstract vectors, each exactly once (in a
possibly different order) -/
theorem C13_vf2_relabel_invariant_checked (I I' : Inst) (hs : sideFail I = none) (hs' : sideFail I' = none)
    (σ0 τ0 σ1 τ1 : Nat → Nat) (r : Relabeled I I' σ0 τ0 σ1 τ1) (fuel fuel' : Nat) :
    (∀ b b', subModelR I fuel = some b → subModelR I' fuel' = some b' → b' = b) ∧
    (∀ b b', isoModelR I fuel = some b → isoModelR I' fuel' = some b' → b' = b) ∧
    (∀ res res', iterModelR I fuel = some res → iterModelR I' fuel' = some res' →
      (res' = none ↔ res = none) ∧
      ∀ vs fin vs' fin', res = some (vs, fin) → res' = some (vs', fin') →
        vs'.Perm vs ∧ fin = true ∧ fin' = true) := by
  obtain ⟨ok, p0, p1⟩ := sideFail_none hs
  obtain ⟨ok', p0', p1'⟩ := sideFail_none hs'
  have wf0 := toMGraph_wf (cgOkB_sound ok.h0)
  have wf1 := toMGraph_wf (cgOkB_sound ok.h1)
  have inv := C13_relabel_invariant I.problem σ0 τ0 σ1 τ1 wf0 wf1 r.hl0' r.hl1'
  refine ⟨fun b b' h h' => ?_, fun b b' h h' => ?_, fun res res' h h' => ?_⟩
  · apply Bool.eq_of_iff'
    rw [C13_vf2_sub_checked I' hs' fuel' b' h', C13_vf2_sub_checked I hs fuel b h, r.same.subIso_iff]
    exact inv.2.1
  · apply Bool.eq_of_iff'
    rw [C13_vf2_iso_checked I' hs' fuel' b' h', C13_vf2_iso_checked I hs fuel b h, r.same.iso_iff]
    exact inv.1
  · have hF := iterModelR_some h (max fuel (explicitBound I)) (Nat.le_max_left _ _)
    have hF' := iterModelR_some h' (max fuel' (explicitBound I')) (Nat.le_max_left _ _)
    constructor
    · rw [← hF, ← hF']
      exact r.iterModelF_none_iff ok ok' _ _
    · rintro vs fin vs' fin' rfl rfl
      refine ⟨iterModelF_relabel r (cgOkB_sound ok.h0) (cgOkB_sound ok.h1) ok.hd (inNodupB_sound ok.h0 ok.hin)
        (cgOkB_sound ok'.h0) (cgOkB_sound ok'.h1) ok'.hd (inNodupB_sound ok'.h0 ok'.hin) p0 p1 p0' p1'
        (Nat.le_max_right _ _) (Nat.le_max_right _ _) hF hF', ?_, ?_⟩
      · exact (C13_vf2_iter_flag I ok.h0 ok.h1 ok.hd p0 p1 ok.hin).2 _ vs fin hF
      · exact (C13_vf2_iter_flag I' ok'.h0 ok'.h1 ok'.hd p0' p1' ok'.hin).2 _ vs' fin' hF'

/-- relabeling keeps `node_count()` and `edge_count()` of both arguments (so the early size rejections of the
wrappers are relabeling-invariant) -/
theorem C13_vf2_relabel_counts (I I' : Inst) (ok : InstOk I) (ok' : InstOk I') (σ0 τ0 σ1 τ1 : Nat → Nat)
    (r : Relabeled I I' σ0 τ0 σ1 τ1) :
    I'.g0.n = I.g0.n ∧ I'.g0.ecount = I.g0.ecount ∧ I'.g1.n = I.g1.n ∧ I'.g1.ecount = I.g1.ecount :=
  r.counts_eq ok ok'

/-! #### the `_matching` variants: an ARBITRARY compatibility relation

`Inst.nm`, `Inst.em : Int → Int → Bool` are arbitrary (not symmetric, not transitive, not related to equality);
all theorems above are stated for every `Inst`.  Spelled out: with the matchers enabled the problem an instance
poses carries exactly the supplied predicates (first argument: the weight in g0, second: the weight in g1), with
the matchers disabled (the plain functions) it carries none; a valid complete mapping (`Final`) of a
`_matching` call is a total injective map that preserves adjacency and non-adjacency, satisfies `nm` on every
matched pair of nodes and `em` on the weights of every matched pair of edges (both weights are found); and the
answers the driver compares are exactly the existence / the set of such mappings. -/

theorem C13_vf2_matching_problem (I : Inst) :
    (I.semantic = true → I.problem.nm = I.nm ∧ I.problem.em = I.em) ∧
    (I.semantic = false → I.problem.nm = (fun _ _ => true) ∧ I.problem.em = (fun _ _ => true)) := by
  constructor
  · intro hs
    constructor <;> (funext x y; simp [Inst.problem, hs])
  · intro hs
    constructor <;> (funext x y; simp [Inst.problem, hs])

/-- what a yielded vector of a `_matching` call is, for arbitrary predicates -/
theorem C13_vf2_matching_final (I : Inst) (hs : I.semantic = true) (mp : List (Option Nat)) :
    Final I mp ↔
      mp.length = I.g0.n ∧
      (∀ i, i < I.g0.n → ∃ j, mp[i]? = some (some j) ∧ j < I.g1.n) ∧
      (∀ i i' j : Nat, mp[i]? = some (some j) → mp[i']? = some (some j) → i = i') ∧
      (∀ i j i' j', (mp[i]?).getD none = some j → (mp[i']?).getD none = some j' →
        I.g0.adj i i' = I.g1.adj j j' ∧
        I.nm ((I.g0.nw[i]?).getD 0) ((I.g1.nw[j]?).getD 0) = true ∧
        (I.g0.adj i i' = true →
          ∃ w w', I.g0.ew i i' = some w ∧ I.g1.ew j j' = some w' ∧ I.em w w' = true)) := by
  have edge_iff : ∀ i i' j j', edgeEq I i i' j j' = true ↔
      ∃ w w', I.g0.ew i i' = some w ∧ I.g1.ew j j' = some w' ∧ I.em w w' = true := by
    intro i i' j j'
    unfold edgeEq
    cases I.g0.ew i i' <;> cases I.g1.ew j j' <;> simp
  constructor
  · intro f
    refine ⟨f.len, f.total, f.inj, ?_⟩
    intro i j i' j' h h'
    refine ⟨f.ok.adj i j i' j' h h', f.ok.node hs i j h, fun ha => ?_⟩
    exact (edge_iff i i' j j').mp (f.ok.edge hs i j i' j' h h' ha)
  · rintro ⟨hl, ht, hi, hk⟩
    refine ⟨hl, ht, hi, ⟨?_, ?_, ?_⟩⟩
    · intro i j i' j' h h'
      exact (hk i j i' j' h h').1
    · intro _ i j h
      exact (hk i j i j h h).2.1
    · intro _ i j i' j' h h' ha
      exact (edge_iff i i' j j').mpr ((hk i j i' j' h h').2.2 ha)

/-- the answers of the `_matching` variants (and of the plain functions) the driver compares, in terms of
valid complete mappings, for arbitrary predicates -/
theorem C13_vf2_matching_exact (I : Inst) (hs : sideFail I = none) (fuel : Nat) :
    (∀ b, subModelR I fuel = some b → (b = true ↔ ∃ mp, Final I mp)) ∧
    (∀ b, isoModelR I fuel = some b → (b = true ↔ ∃ mp, Final I mp ∧ I.g0.n = I.g1.n)) ∧
    (∀ r, iterModelR I fuel = some r →
      (r = none → ¬ ∃ mp, Final I mp) ∧
      ∀ vs fin, r = some (vs, fin) → vs.Nodup ∧ ∀ v, v ∈ vs ↔ ∃ mp, Final I mp ∧ v = toAbstract I mp) := by
  obtain ⟨ok, p0, p1⟩ := sideFail_none hs
  have ok0 := cgOkB_sound ok.h0
  have ok1 := cgOkB_sound ok.h1
  have sub_iff : SubIso I.problem ↔ ∃ mp, Final I mp :=
    ⟨fun ⟨f, e⟩ => ⟨_, Final.of_embeds ok0 ok1 e⟩, fun ⟨mp, hf⟩ => ⟨_, hf.embeds ok0 ok1⟩⟩
  refine ⟨fun b h => ?_, fun b h => ?_, fun r h => ?_⟩
  · rw [C13_vf2_sub_checked I hs fuel b h, sub_iff]
  · rw [C13_vf2_iso_checked I hs fuel b h]
    constructor
    · rintro ⟨f, e, honto⟩
      have hf := Final.of_embeds ok0 ok1 e
      refine ⟨_, hf, ?_⟩
      apply node_count_eq_of_onto hf (f := f)
      intro b hb
      obtain ⟨a, ha, hab⟩ := honto b (by simpa [Inst.problem, CG.toMGraph] using hb)
      exact ⟨a, by simpa [Inst.problem, CG.toMGraph] using ha, hab⟩
    · rintro ⟨mp, hf, hn⟩
      refine ⟨_, hf.embeds ok0 ok1, ?_⟩
      intro b hb
      simp only [Inst.problem, CG.toMGraph, List.mem_range] at hb ⊢
      obtain ⟨i, hi, hm⟩ := hf.onto hn b hb
      exact ⟨i, hi, by simp [hm]⟩
  · have := C13_vf2_iter_checked I hs fuel r h
    refine ⟨fun hr => ?_, fun vs fin hr => ?_⟩
    · rw [← sub_iff]; exact this.1 hr
    · obtain ⟨_, hnd, hmem, _, _⟩ := this.2 vs fin hr
      exact ⟨hnd, hmem⟩

/-! #### the link between the oracle's problem and the model's instance -/

/-- a passed link check: adjacency, edge weights and node weights of the concrete graphs, read through the
index labelings, are those of the abstract graphs -/
theorem C13_link_check (I : Inst) (P : Problem) (h : linkFail I P = none) :
    LinkG I.g0 P.g0 P.nw0 ∧ LinkG I.g1 P.g1 P.nw1 := by
  have := linkFail_none h
  simp only [linkOkB, Bool.and_eq_true] at this
  exact ⟨linkGraphB_sound this.1, linkGraphB_sound this.2⟩

/-- under the link the two specifications coincide: an embedding of the abstract problem, re-indexed, is a
valid complete mapping of the instance and is reported as the vector of that embedding; a valid complete mapping
of the instance, read in abstract ids, is an embedding and is reported as its vector; so `SubIso` / `Iso` of
the abstract problem are the existence of a valid complete mapping (a bijective one), and the oracle's list
is exactly the set of vectors reported for the valid complete mappings -/
theorem C13_link_spec (I : Inst) (P : Problem) (L : Link I P) :
    (∀ f, Embeds P f → Final I (vecOf I (Link.fwd I f)) ∧
      toAbstract I (vecOf I (Link.fwd I f)) = P.g0.nodes.map f) ∧
    (∀ mp, Final I mp → Embeds P (Link.bwd I mp) ∧ toAbstract I mp = P.g0.nodes.map (Link.bwd I mp)) ∧
    (SubIso P ↔ ∃ mp, Final I mp) ∧ (Iso P ↔ ∃ mp, Final I mp ∧ I.g0.n = I.g1.n) ∧
    (∀ v, v ∈ subIsoAll P ↔ ∃ mp, Final I mp ∧ v = toAbstract I mp) :=
  ⟨fun _ e => ⟨L.forward e, L.toAbstract_forward e⟩, fun _ hf => ⟨L.backward hf, L.toAbstract_final hf⟩,
   L.subIso_iff, L.iso_iff, L.mem_subIsoAll⟩

/-- THE DRIVER'S BUNDLE: when `queryFail` passes (and it is evaluated before every query is judged, with the
predicates `step` passes on: `parsePreds_ok`), the abstract pair satisfies the side conditions of the property,
the concrete instance satisfies every side condition of the exactness theorems, and the two pose the same
problem -/
theorem C13_driver_query_check (d : DState) (nm em : Int → Int → Bool) (semantic : Bool)
    (h : queryFail d nm em semantic = none) (hp : PredsOk nm em semantic) :
    (problem d nm em).Ok ∧ sideFail (mkInst d nm em semantic) = none ∧
    Link (mkInst d nm em semantic) (problem d nm em) :=
  queryFail_none h hp

theorem C13_driver_preds (rest : List String) (nm em : Int → Int → Bool)
    (h : parsePreds rest = some (nm, em)) : PredsOk nm em (!rest.isEmpty) := parsePreds_ok h

/-- MODEL = ORACLE on every judged query.  With the run-time checks passed, whatever the mirror model reports
(it did not run out of fuel) is what the definitional oracle computes on the abstract pair: the same Booleans;
`None` exactly when the oracle's list is empty; otherwise the end flag is `true` and the reported vectors are a
permutation of the oracle's list — so the spec-level judge accepts the model's own answer.  (Consequently an
implementation answer that equals the model's is correct by theorem, and a Boolean `MODELDIFF` is impossible.) -/
theorem C13_checked_model_eq_oracle (I : Inst) (P : Problem) (hs : sideFail I = none) (L : Link I P) (fuel : Nat) :
    (∀ b, subModelR I fuel = some b → b = subIsoB P ∧ judgeSub P b = true) ∧
    (∀ b, isoModelR I fuel = some b → b = isoB P ∧ judgeIso P b = true) ∧
    (∀ r, iterModelR I fuel = some r →
      (r = none → subIsoAll P = []) ∧
      (∀ vs fin, r = some (vs, fin) → fin = true ∧ vs.Perm (subIsoAll P)) ∧
      judgeIter P (r.map (·.1)) = true) := by
  have mx := C13_vf2_matching_exact I hs fuel
  have sB := subIsoB_iff P L.wf0 L.wf1.1
  have iB := isoB_iff P L.wf0 L.wf1.1
  refine ⟨fun b h => ?_, fun b h => ?_, fun r h => ?_⟩
  · have : b = subIsoB P := by
      apply Bool.eq_of_iff'
      rw [mx.1 b h, sB, L.subIso_iff]
    exact ⟨this, by simp [judgeSub, this]⟩
  · have : b = isoB P := by
      apply Bool.eq_of_iff'
      rw [mx.2.1 b h, iB, L.iso_iff]
    exact ⟨this, by simp [judgeIso, this]⟩
  · have hi := mx.2.2 r h
    have hnone : r = none → subIsoAll P = [] := by
      intro hr
      have : ¬ SubIso P := by rw [L.subIso_iff]; exact hi.1 hr
      rw [← sB] at this
      simpa [subIsoB] using this
    have hsome : ∀ vs fin, r = some (vs, fin) → fin = true ∧ vs.Perm (subIsoAll P) := by
      intro vs fin hr
      obtain ⟨hnd, hmem⟩ := hi.2 vs fin hr
      refine ⟨((C13_vf2_iter_checked I hs fuel r h).2 vs fin hr).1, ?_⟩
      rw [List.perm_ext_iff_of_nodup hnd (nodup_subIsoAll P L.wf1.1)]
      intro v
      rw [hmem v, L.mem_subIsoAll v]
    refine ⟨hnone, hsome, ?_⟩
    cases r with
    | none => simp [judgeIter, hnone rfl]
    | some x =>
      obtain ⟨vs, fin⟩ := x
      have pm := (hsome vs fin rfl).2
      simp only [Option.map_some, judgeIter, sameMultisetB, Bool.and_eq_true, beq_iff_eq, List.all_eq_true,
        List.contains_iff_mem]
      exact ⟨⟨pm.length_eq, fun x hx => pm.symm.subset hx⟩, fun x hx => pm.subset hx⟩

end Checks


/-! ### wave 6: the rest of the public surface — `size_hint` of the iterator, prefixes on big pairs

`GraphMatcher` (the iterator `subgraph_isomorphisms_iter` returns) overrides `next` and `size_hint`.  `next` is
the mirror model above.  `size_hint` is mirrored by `sizeHintModel` and judged by `judgeHint`: after `k` vectors
were yielded, `lo ≤ (number of embeddings still to come) ≤ hi`.  The harness additionally checks, against the
implementation itself, that every other way of consuming the iterator agrees with `next` (`iterlaw` lines). -/

section W6

/-- there are at most `n1 (n1-1) … (n1-n0+1)` embeddings (the number of injections) -/
theorem C13_embeddings_le_falling (P : Problem) :
    (subIsoAll P).length ≤ falling P.g1.nodes.length P.g0.nodes.length :=
  subIsoAll_length_le P

/-- the mirror of `size_hint` (`n` = node count of the TARGET; code as repaired by a69e23d): `(0, Some(n!))` up to
20 nodes (the literal table is the factorials), `(0, None)` from 21 nodes on, never a panic -/
theorem C13_size_hint_model (n : Nat) :
    hintTable = (List.range 21).map fact ∧
    (n ≤ 20 → sizeHintModel n = some (0, some (fact n))) ∧
    (21 ≤ n → sizeHintModel n = some (0, none)) ∧
    (sizeHintModel n).isSome = true :=
  ⟨hintTable_eq, sizeHintModel_small, sizeHintModel_large, sizeHintModel_isSome n⟩

/-- the number of injections of `n0` into `n1` nodes is at most `n1!` -/
theorem C13_falling_le_fact (n1 n0 : Nat) : falling n1 n0 ≤ fact n1 := falling_le_fact n1 n0

/-- SOUNDNESS of the judge of `size_hint`: if `ys` are the `k` vectors yielded so far and `rest` those still to
come, and together they are the embeddings, each once (what the property demands of the iterator), then an
accepted `(lo, hi)` brackets the number of vectors still to come -/
theorem C13_judgeHint_sound (P : Problem) (k lo : Nat) (hi : Option Nat) (h : judgeHint P k lo hi = true)
    (ys rest : List (List Nat)) (hk : ys.length = k) (hp : (ys ++ rest).Perm (subIsoAll P)) :
    lo ≤ rest.length ∧ ∀ b, hi = some b → rest.length ≤ b := by
  have hl := hp.length_eq
  rw [List.length_append, hk] at hl
  obtain ⟨h1, h2⟩ := (judgeHint_iff P k lo hi).mp h
  refine ⟨by omega, fun b hb => ?_⟩
  have := h2 b hb
  omega

/-- the judge for pairs too big to enumerate (`lo = 0`, `hi` at least the number of injections) implies the
enumerating judge at every point of the iteration -/
theorem C13_judgeHintBig_sound (P : Problem) (lo : Nat) (hi : Option Nat)
    (h : judgeHintBig P.g0.nodes.length P.g1.nodes.length lo hi = true) (k : Nat) :
    judgeHint P k lo hi = true :=
  judgeHintBig_sound P lo hi h k

/-- the statement about `size_hint`: what it returns brackets the number of embeddings still to come, at every
point `k` of the iteration (FALSE for the code before a69e23d, whose `n` was the pattern's node count: D34) -/
def C13_size_hint_statement : Prop :=
  ∀ P : Problem, ∀ lo hi,
    sizeHintModel P.g1.nodes.length = some (lo, hi) → ∀ k, judgeHint P k lo hi = true

/-- … and it HOLDS for the repaired code, for every pair of graphs (no hypothesis on `P`): there are at most
`n1!/(n1-n0)! ≤ n1!` embeddings, and from 21 target nodes on the upper bound is `None` -/
theorem C13_size_hint : C13_size_hint_statement := by
  intro P lo hi hm k
  exact judgeHintBig_sound P lo hi (sizeHintModel_judgeBig _ _ lo hi hm) k

/-- the same, spelled out with `C13_judgeHint_sound`: `size_hint` never panics, and if `ys` are the vectors
yielded so far and `rest` those still to come (together the embeddings, each once), its answer brackets
`rest.length` -/
theorem C13_size_hint_total (P : Problem) (ys rest : List (List Nat)) (hp : (ys ++ rest).Perm (subIsoAll P)) :
    ∃ lo hi, sizeHintModel P.g1.nodes.length = some (lo, hi) ∧
      lo ≤ rest.length ∧ ∀ b, hi = some b → rest.length ≤ b := by
  cases hm : sizeHintModel P.g1.nodes.length with
  | none => have := sizeHintModel_isSome P.g1.nodes.length; rw [hm] at this; cases this
  | some r =>
    obtain ⟨lo, hi⟩ := r
    exact ⟨lo, hi, rfl, C13_judgeHint_sound P ys.length lo hi (C13_size_hint P lo hi hm ys.length) ys rest rfl hp⟩

/-- a one-node pattern and two isolated target nodes: two embeddings (the witness of D34: the code before the
repair answered `(0, Some(1))` = `(0, Some(n0!))`) -/
def exHint : Problem :=
  { g0 := { directed := true, nodes := [0], edges := [] },
    g1 := { directed := true, nodes := [0, 1], edges := [] } }

/-- the old witness of D34 on the repaired model: two embeddings exist, the answer is `(0, Some(2))`, which the
judge accepts — while it still rejects the old answer `(0, Some(1))`, and the old model's answer for this pair
(`sizeHintModel` of the PATTERN's node count) is that rejected one; and 21 nodes (pattern or target) no longer
panic: `(0, None)` -/
theorem C13_D34_witness_repaired :
    problemOkB exHint = true ∧ (subIsoAll exHint).length = 2 ∧
    sizeHintModel exHint.g1.nodes.length = some (0, some 2) ∧
    judgeHint exHint 0 0 (some 2) = true ∧
    judgeHint exHint 0 0 (some 1) = false ∧ sizeHintModel exHint.g0.nodes.length = some (0, some 1) ∧
    sizeHintModel 21 = some (0, none) := by decide

/-- the tighter bound `(0, Some(n1 (n1-1) … (n1-n0+1)))` would be a correct `size_hint` too, for every pair, at
every point of the iteration (the lemma behind `C13_size_hint`) -/
theorem C13_size_hint_tighter (P : Problem) (k : Nat) :
    judgeHint P k 0 (some (falling P.g1.nodes.length P.g0.nodes.length)) = true := by
  apply judgeHintBig_sound
  simp [judgeHintBig]

/-- SOUNDNESS of the judge of a prefix of the iterator's output (pairs too big to enumerate): the accepted
vectors are pairwise different and each is an embedding of the pattern -/
theorem C13_judgePrefix_sound (P : Problem) (ok : problemOkB P = true) (l : List (List Nat))
    (h : judgePrefix P l = true) :
    l.Nodup ∧ ∀ v ∈ l, v.length = P.g0.nodes.length ∧ Embeds P (mapOf P.g0.nodes v) := by
  have ok := (C13_problemOkB_iff P).mp ok
  obtain ⟨hnd, hmem⟩ := judgePrefix_sound P ok.wf1.1 l h
  exact ⟨hnd, fun v hv => (mem_subIsoAll P ok.wf0.1 ok.wf1.1 v).mp (hmem v hv)⟩

/-- THE PREFIX RUN of the model on a pair too big to enumerate (`biter <k>`): if it saw the iterator end, its
vectors are — up to order — ALL embeddings of the abstract problem, each once; if the function returned `None`
there is none.  (So an implementation that ends with fewer vectors, or has more when the model ended, violates the
property: the `SPECFAIL` of `prefixVerdict`.) -/
theorem C13_prefix_ended_complete (I : Vf2.Inst) (P : Problem) (hs : Vf2.sideFail I = none) (L : Vf2.Link I P)
    (fuel k : Nat) (hk : k ≤ Vf2.fallingFact I.g1.n I.g0.n + 2) :
    (∀ vs, iterPrefixR I fuel k = some (some (vs, true)) → vs.Perm (subIsoAll P)) ∧
    (iterPrefixR I fuel k = some none → subIsoAll P = []) := by
  have mo := (C13_checked_model_eq_oracle I P hs L fuel).2.2
  constructor
  · intro vs h
    exact ((mo _ (iterPrefixR_ended I fuel k vs hk h)).2.1 vs true rfl).2
  · intro h
    exact (mo _ ((iterPrefixR_none_iff I fuel k).mp h)).1 rfl

/-! non-vacuity -/
example : problemOkB exHint = true ∧ subIsoAll exHint = [[0], [1]] ∧ sizeHintModel 2 = some (0, some 2) ∧
    sizeHintModel 20 = some (0, some 2432902008176640000) ∧ sizeHintModel 22 = some (0, none) := by decide
example : judgeHint exHint 0 0 (some 2) = true ∧ judgeHint exHint 0 0 (some 1) = false ∧
    judgeHint exHint 1 0 (some 1) = true ∧ judgeHint exHint 0 3 none = false := by decide
example : judgeHintBig 1 2 0 (some 2) = true ∧ judgeHintBig 1 2 0 (some 1) = false ∧ judgeHintBig 20 20 0 (some (fact 20)) = true := by
  decide
example : judgePrefix exHint [[1]] = true ∧ judgePrefix exHint [[1], [1]] = false ∧ judgePrefix exHint [[2]] = false := by
  decide

end W6

/-! ### a non-trivial instance: the hypotheses are satisfiable and the oracle computes -/

/-- directed 3-cycle with a pendant arc vs. a relabeled copy with one extra node -/
def exP : Problem :=
  { g0 := { directed := true, nodes := [0, 1, 2], edges := [⟨0, 0, 1, 1⟩, ⟨1, 1, 2, 0⟩, ⟨2, 2, 0, 1⟩] },
    g1 := { directed := true, nodes := [0, 1, 2, 3], edges := [⟨0, 2, 0, 1⟩, ⟨1, 0, 3, 0⟩, ⟨2, 3, 2, 1⟩, ⟨3, 3, 1, 0⟩] },
    nm := fun a b => a == b, em := fun a b => a == b }

example : problemOkB exP = true := by decide
example : subIsoAll exP = [[2, 0, 3]] := by decide
example : isoB exP = false := by decide
example : judgeIter exP (some [[2, 0, 3]]) = true := by decide
example : judgeIter exP (some [[2, 0, 3], [2, 0, 3]]) = false := by decide

/-- the same pair as an instance of the VF2 model (g1 stored under the index labeling 0↦2, 1↦0, 2↦3, 3↦1) -/
def exI : Vf2.Inst :=
  { g0 := { n := 3, ecount := 3, directed := true, outE := [[(1, 1)], [(2, 0)], [(0, 1)]],
            inN := [[2], [0], [1]], abs := [0, 1, 2], nw := [0, 0, 0] },
    g1 := { n := 4, ecount := 4, directed := true, outE := [[], [(3, 1), (0, 0)], [(1, 0)], [(2, 1)]],
            inN := [[1], [2], [3], [1]], abs := [1, 3, 0, 2], nw := [0, 0, 0, 0] },
    nm := fun a b => a == b, em := fun a b => a == b, semantic := true }

example : Vf2.cgOkB exI.g0 = true ∧ Vf2.cgOkB exI.g1 = true := by decide
example : Vf2.iterModel exI = some ([[2, 0, 3]], true) := by decide
example : Vf2.subModel exI = true ∧ Vf2.isoModel exI = false := by decide
/-- the side conditions of `C13_vf2_complete` are executable and hold on the example -/
example : Vf2.ECountOk exI.g0 ∧ Vf2.ECountOk exI.g1 ∧ Vf2.iterFuelOk exI = true ∧
    Vf2.inNodupB exI.g0 = true ∧
    (Vf2.isomorphisms exI true Vf2.bigFuel (Vf2.M.init exI)).isSome = true ∧
    (Vf2.isomorphisms exI false Vf2.bigFuel (Vf2.M.init exI)).isSome = true := by decide

/-! wave 3: the explicit bound and the relabeling theorems on the example -/

example : Vf2.InstOk exI := by decide
example : Vf2.explicitBound exI = 122 ∧ Vf2.explicitBound exI ≤ Vf2.bigFuel := by decide
example : (Vf2.isomorphisms exI true 122 (Vf2.M.init exI)).isSome = true ∧
    (Vf2.isomorphisms exI true 20 (Vf2.M.init exI)).isSome = false := by decide

/-- `exI` with the concrete indices 0 and 1 of g1 exchanged (and `abs` carried along) -/
def exI' : Vf2.Inst :=
  { exI with
    g1 := { n := 4, ecount := 4, directed := true, outE := [[(3, 1), (1, 0)], [], [(0, 0)], [(2, 1)]],
            inN := [[2], [0], [3], [0]], abs := [3, 1, 0, 2], nw := [0, 0, 0, 0] } }

def exSw (x : Nat) : Nat := if x = 0 then 1 else if x = 1 then 0 else x

/-- the hypotheses of `C13_vf2_relabel_invariant[_iter]` are satisfiable by a non-identity relabeling -/
theorem exI'_relabeled : Vf2.Relabeled exI exI' id id exSw exSw := by
  refine ⟨fun _ _ => rfl, by decide, ⟨rfl, rfl, fun a => List.Perm.mem_iff (by decide),
    fun a => List.Perm.mem_iff (by decide), fun e => List.Perm.mem_iff (by decide),
    fun e => List.Perm.mem_iff (by decide), by decide, by decide, rfl, rfl⟩, by decide, by decide⟩

example : Vf2.subModel exI' = Vf2.subModel exI ∧ Vf2.isoModel exI' = Vf2.isoModel exI :=
  C13_vf2_relabel_invariant exI exI' (by decide) (by decide) (by decide) (by decide) id id exSw exSw
    exI'_relabeled.hl0 exI'_relabeled.hl1 exI'_relabeled.same
example : Vf2.iterModel exI' = some ([[2, 0, 3]], true) := by decide

/-- the empty pattern against a one-node target -/
def exEmpty : Vf2.Inst :=
  { g0 := { n := 0, ecount := 0, directed := true, outE := [], inN := [], abs := [], nw := [] },
    g1 := { n := 1, ecount := 1, directed := true, outE := [[(0, 0)]], inN := [[0]], abs := [0], nw := [0] },
    nm := fun _ _ => true, em := fun _ _ => true, semantic := false }
example : Vf2.iterModel exEmpty = some ([[]], true) ∧ Vf2.subModel exEmpty = true ∧ Vf2.isoModel exEmpty = false := by
  decide

/-! wave 4: the run-time checks and the reporting wrappers on the examples -/

/-- all side conditions hold on the example, and the reporting wrappers answer -/
example : Vf2.sideFail exI = none ∧ Vf2.sideFail exI' = none ∧ Vf2.sideFail exEmpty = none := by decide
example : Vf2.iterModelR exI Vf2.bigFuel = some (some ([[2, 0, 3]], true)) ∧
    Vf2.subModelR exI Vf2.bigFuel = some true ∧ Vf2.isoModelR exI Vf2.bigFuel = some false := by decide
/-- FUEL is reported (a call that needs more than 20 loop iterations), whereas the non-reporting wrappers turn
the exhausted call into an answer: `false` / "no mapping, iterator ended" — both wrong here -/
example : Vf2.iterModelR exI 20 = none ∧ Vf2.subModelR exI 20 = none ∧
    Vf2.iterModelF exI 20 = some ([], true) ∧ Vf2.subModelF exI 20 = false := by decide
/-- the side-condition check fires on the two counterexamples to the unconditioned completeness statement -/
example : (Vf2.sideFail exBadEcount).isSome = true ∧ (Vf2.sideFail exDupIn).isSome = true := by decide
/-- the hypotheses of `C13_vf2_relabel_invariant_checked` are satisfiable (non-identity relabeling) -/
example : ∀ res res', Vf2.iterModelR exI Vf2.bigFuel = some res → Vf2.iterModelR exI' 1000 = some res' →
    (res' = none ↔ res = none) ∧ ∀ vs fin vs' fin', res = some (vs, fin) → res' = some (vs', fin') →
      vs'.Perm vs ∧ fin = true ∧ fin' = true :=
  (C13_vf2_relabel_invariant_checked exI exI' (by decide) (by decide) id id exSw exSw exI'_relabeled
    Vf2.bigFuel 1000).2.2
example : Vf2.iterModelR exI' 1000 = some (some ([[2, 0, 3]], true)) := by decide

/-- an ASYMMETRIC compatibility relation (`≤`): the pattern of `exI` with all edge weights 0 matches under
`w0 ≤ w1` but not under `w1 ≤ w0` (nor under equality) — the `_matching` theorems cover both -/
def exLe (em : Int → Int → Bool) : Vf2.Inst :=
  { exI with g0 := { exI.g0 with outE := [[(1, 0)], [(2, 0)], [(0, 0)]] }, em := em }
example : Vf2.sideFail (exLe fun a b => decide (a ≤ b)) = none ∧
    Vf2.subModelR (exLe fun a b => decide (a ≤ b)) Vf2.bigFuel = some true ∧
    Vf2.subModelR (exLe fun a b => decide (b ≤ a)) Vf2.bigFuel = some false ∧
    Vf2.subModelR (exLe fun a b => a == b) Vf2.bigFuel = some false := by decide
example : ∃ mp, Vf2.Final (exLe fun a b => decide (a ≤ b)) mp :=
  ((C13_vf2_matching_exact _ (by decide) Vf2.bigFuel).1 true (by decide)).mp rfl

/-- the link hypotheses are satisfiable: `exI` is an encoding of `exP` (index labeling of g1: 0↦2, 1↦0, 2↦3, 3↦1) -/
example : Vf2.linkFail exI exP = none := by decide
theorem exLink : Vf2.Link exI exP :=
  ⟨Vf2.cgOkB_sound (by decide), Vf2.cgOkB_sound (by decide), rfl, by decide, by decide,
   Vf2.linkGraphB_sound (by decide), Vf2.linkGraphB_sound (by decide), by decide, by decide,
   fun _ _ => rfl, fun _ _ => rfl⟩
/-- … and the model's reported vectors are the oracle's list, as `C13_checked_model_eq_oracle` says -/
example : ∀ vs fin, Vf2.iterModelR exI Vf2.bigFuel = some (some (vs, fin)) → fin = true ∧ vs.Perm (subIsoAll exP) :=
  fun vs fin h => ((C13_checked_model_eq_oracle exI exP (by decide) exLink Vf2.bigFuel).2.2 _ h).2.1 vs fin rfl
/-- the link check fires when the concrete target carries another edge weight than the abstract one -/
example : (Vf2.linkFail { exI with g1 := { exI.g1 with outE := [[], [(3, 0), (0, 0)], [(1, 0)], [(2, 1)]] } } exP).isSome
    = true := by decide

/-! wave 6: the prefix run on the example (it sees the end after the single embedding), and `size_hint` -/
example : iterPrefixR exI Vf2.bigFuel 2 = some (some ([[2, 0, 3]], true)) ∧
    2 ≤ Vf2.fallingFact exI.g1.n exI.g0.n + 2 := by decide
example : judgePrefix exP [[2, 0, 3]] = true ∧ judgePrefix exP [[2, 0, 1]] = false := by decide
example : sizeHintModel exP.g1.nodes.length = some (0, some 24) ∧ judgeHint exP 0 0 (some 24) = true := by decide

end PetgraphModel.C13T
