import PetgraphModel.Model.Graph6
import PetgraphModel.Model.Dot
import PetgraphModel.Spec.Graph6
import PetgraphModel.Spec.Dot
import PetgraphModel.Proofs.Graph6
import PetgraphModel.Proofs.Dot
import PetgraphModel.Extracted.C18
/-
C18 — graph6 is spec-exact and round-trips; Dot output is well-formed and faithful.

Only property theorems live here; helper lemmas are in `Proofs/Graph6.lean` and `Proofs/Dot.lean`.
The theorems are about the mirror models `G6` (`/repo/src/graph6/*.rs`, the bitmaps of
`/repo/src/traits_graph.rs`) and `Dot` (`/repo/src/dot/mod.rs`), which `./check C18` ties to the source by
exact differential execution, and about the specifications `Spec.Graph6` (the format text) and `Spec.Dot`
(DOT lexer, statement parser, label un-escaping).  All of them are full (no `_partial`).
-/
namespace PetgraphModel.C18T
open PetgraphModel

/-! ## graph6 -/

/-- the running example of the format description: order 5, edges 0-2, 0-4, 1-3, 3-4, string `DQc` -/
def adjEx : Nat → Nat → Bool := fun a b => (a, b) ∈ [(0, 2), (0, 4), (1, 3), (3, 4)]

/-- `get_bits_as_decimal (get_number_as_bits n k) = n mod 2^k`: writing a number as `k` bits (most
significant first) and reading the bits back loses exactly the bits above `k`. -/
theorem C18_bits_roundtrip (n k : Nat) : G6.bitsToNat (G6.numberBits n k) = n % 2 ^ k :=
  G6P.bitsToNat_numberBits n k

/-- the other direction, which the decoder relies on: every bit vector is the `length`-bit form of its value. -/
theorem C18_bits_roundtrip_inv (l : List Bool) : G6.numberBits (G6.bitsToNat l) l.length = l :=
  G6P.numberBits_bitsToNat l

example : G6.bitsToNat (G6.numberBits 300 6) = 44 := by rw [C18_bits_roundtrip]; decide

/-- the size header: one byte `n + 63` below 63; `126` and the three 6-bit groups of the 18-bit form up to
258047; a panic beyond — exactly N(n) of the format text (`Spec.Graph6.Nn`). -/
theorem C18_header (n : Nat) :
    (G6.orderBits n).map (fun hb => (G6.chunks6 hb).map fun c => G6.N + G6.bitsToNat c) =
      if n ≤ 62 then some [n + 63]
      else if n ≤ 258047 then some [126, n / 4096 % 64 + 63, n / 64 % 64 + 63, n % 64 + 63]
      else none := by
  unfold G6.orderBits
  by_cases h1 : n < G6.N
  · have h62 : n ≤ 62 := by simp only [G6.N] at h1; omega
    have := G6P.header_short n h1
    simp only [h1, if_true, h62, Option.map_some]
    have e : ∀ l : List (List Bool), l.map (fun c => G6.N + G6.bitsToNat c) = (l.map G6.bitsToNat).map (G6.N + ·) := by
      intro l; simp
    rw [e, this]; simp [G6.N, Nat.add_comm]
  · have h62 : ¬ n ≤ 62 := by simp only [G6.N] at h1; omega
    by_cases h2 : n ≤ G6.maxOrder
    · have h2' : n ≤ 258047 := h2
      have := G6P.header_long n
      simp only [h1, if_false, h2, if_true, h62, h2', Option.map_some]
      have e : ∀ l : List (List Bool), l.map (fun c => G6.N + G6.bitsToNat c) = (l.map G6.bitsToNat).map (G6.N + ·) := by
        intro l; simp
      rw [e, this]; simp [G6.N, Nat.add_comm]
    · have h2' : ¬ n ≤ 258047 := h2
      simp [h1, h2, h62, h2']

theorem C18_header_matches_format (n : Nat) (h : n ≤ 258047) :
    (if n ≤ 62 then [n + 63] else [126, n / 4096 % 64 + 63, n / 64 % 64 + 63, n % 64 + 63]) =
      Spec.Graph6.Nn n := by
  unfold Spec.Graph6.Nn; simp [h]

/-- the encoder is the format: for every order up to 258047 and every adjacency predicate (given on
node-iteration positions) `get_graph6_representation` produces exactly N(n) R(x) of the format text,
x the upper triangle in the order (0,1),(0,2),(1,2),(0,3),…; beyond 258047 it panics. -/
theorem C18_encode_spec (n : Nat) (adj : Nat → Nat → Bool) :
    G6.encode n adj =
      if n ≤ 258047 then some ((Spec.Graph6.graph6 n adj).map Char.ofNat) else none :=
  G6P.encode_spec n adj

example : G6.encode 5 adjEx = some ['D', 'Q', 'c'] := by rw [C18_encode_spec]; decide
example : (G6.encode 63 fun _ _ => false).map (·.take 4) = some ['~', '?', '?', '~'] := by
  rw [C18_encode_spec]; decide

/-- what the bit vector of the specification means, independently of how it is enumerated: it has
n(n-1)/2 bits and bit j(j-1)/2 + i is the adjacency of the pair i < j. -/
theorem C18_spec_position (n : Nat) (adj : Nat → Nat → Bool) :
    (Spec.Graph6.x n adj).length = n * (n - 1) / 2 ∧
    ∀ i j, i < j → j < n → (Spec.Graph6.x n adj)[j * (j - 1) / 2 + i]? = some (adj i j) :=
  ⟨G6P.x_length n adj, fun i j hij hj => G6P.x_getElem n adj i j hij hj⟩

/-- decode ∘ encode: for every order up to 258047 and every adjacency predicate, decoding the encoder's
string yields the order and exactly the edges `i < j` with `adj i j` (each once, in the format's order);
in particular it does not panic. -/
theorem C18_decode_encode (n : Nat) (hn : n ≤ 258047) (adj : Nat → Nat → Bool) :
    (G6.encode n adj).bind G6.decode = some (n, Spec.Graph6.edges n adj) :=
  G6P.decode_encode n hn adj

example : (G6.encode 5 adjEx).bind G6.decode = some (5, [(0, 2), (1, 3), (0, 4), (3, 4)]) := by
  rw [C18_decode_encode 5 (by decide)]; decide

/-- the decoded edge list is the graph's adjacency: a pair is listed iff `i < j < n` and adjacent, and no
pair is listed twice — so for a symmetric loop-free `adj` the decoded graph has `adj`'s adjacency. -/
theorem C18_decoded_edges (n : Nat) (adj : Nat → Nat → Bool) :
    (∀ i j, (i, j) ∈ Spec.Graph6.edges n adj ↔ i < j ∧ j < n ∧ adj i j = true) ∧
    (Spec.Graph6.edges n adj).Nodup :=
  ⟨G6P.mem_edges n adj, G6P.edges_nodup n adj⟩

/-- decode ∘ encode on a simple undirected graph (symmetric, loop-free adjacency): two distinct nodes are
joined in the decoded graph — the pair, smaller endpoint first, is in its edge list — iff they are adjacent:
decode(encode(g)) has g's adjacency. -/
theorem C18_roundtrip_adjacency (n : Nat) (adj : Nat → Nat → Bool) (sym : ∀ i j, adj i j = adj j i)
    (i j : Nat) (hi : i < n) (hj : j < n) (hij : i ≠ j) :
    adj i j = true ↔ (min i j, max i j) ∈ Spec.Graph6.edges n adj :=
  G6P.roundtrip_adjacency n adj sym i j hi hj hij

/-- the adjacency bitmaps of `Graph` and `StableGraph` (`traits_graph.rs`): built and read with the same
width `w` that bounds every node index (`node_count()` for `Graph`, `node_bound()` for `StableGraph`),
`adjacency_matrix` does not panic and `is_adjacent(a, b)` holds iff some edge joins `a` and `b`
(in either orientation).  (D8 was a read with a smaller width than the bitmap was built with.) -/
theorem C18_adjacency_matrix (w : Nat) (es : List (Nat × Nat)) (h : ∀ e ∈ es, e.1 < w ∧ e.2 < w) :
    ∃ m, G6.adjMatrix w es = some m ∧ ∀ a b, a < w → b < w →
      (G6.isAdjacent w m a b = true ↔ ∃ e ∈ es, (e.1 = a ∧ e.2 = b) ∨ (e.1 = b ∧ e.2 = a)) :=
  G6P.adjMatrix_spec w es h

example : ∀ e ∈ [(0, 6), (3, 2)], e.1 < 7 ∧ e.2 < 7 := by decide

/-- `graph6_string()` of the bitmap types end to end: for node indices `ix` in node-iteration order
(any order, with vacancies: only `ix ⊆ 0..w` is needed), edges given by node index and a bitmap width `w`
above every index, the encoder run on `is_adjacent` of the bitmap `adjacency_matrix` built produces the
format's encoding of "some edge joins the p-th and the q-th node of the iteration". -/
theorem C18_graph6_of_bitmap (w : Nat) (es : List (Nat × Nat)) (ix : List Nat)
    (hes : ∀ e ∈ es, e.1 < w ∧ e.2 < w) (hix : ∀ i ∈ ix, i < w) (hn : ix.length ≤ 258047) :
    ∃ m, G6.adjMatrix w es = some m ∧
      G6.encode ix.length (fun p q => G6.isAdjacent w m (ix.getD p 0) (ix.getD q 0)) =
        some ((Spec.Graph6.graph6 ix.length fun p q => G6P.joined es (ix.getD p 0) (ix.getD q 0)).map Char.ofNat) :=
  G6P.graph6_of_bitmap w es ix hes hix hn

/-- a `StableGraph` after `remove_node(0)` of four nodes (the witness of D8): indices 1, 2, 3, bound 4 -/
example : ∀ i ∈ [1, 2, 3], i < 4 := by decide

/-! ## Dot -/

/-- no weight can end its label early: for every string `s` a weight prints and every continuation `r`,
the DOT quoted-string rule (Graphviz `scan.l`: `\"` and `\\` are units), started right after the opening
quote on `escape s ++ "\"" ++ r`, stops exactly at the closing quote `Dot` writes. -/
theorem C18_escape_lex (s r : List Char) :
    Spec.Dot.lexQuoted (Dot.escape s ++ '"' :: r) = some (Dot.escape s, r) :=
  DotP.escape_lex s r

example : Spec.Dot.lexQuoted (Dot.escape ['a', '"', ']', '\\'] ++ '"' :: [' ', ']']) =
    some (['a', '\\', '"', ']', '\\', '\\'], [' ', ']']) := by rw [C18_escape_lex]; decide

/-- the two formulations of the quoted-string rule agree: where `lexQuoted` finds the closing quote, the
tokenizer (a state machine over characters) emits exactly that string token and continues behind it. -/
theorem C18_lexer_coherent (cs : List Char) (toks : List Spec.Dot.Tok) (content rest : List Char)
    (h : Spec.Dot.lexQuoted cs = some (content, rest)) :
    Spec.Dot.lexRun ⟨toks, .top⟩ ('"' :: cs) = Spec.Dot.lexRun ⟨toks ++ [.str content], .top⟩ rest := by
  have := DotP.lexRun_str cs toks [] content rest h
  simp only [List.nil_append] at this
  rw [← this]
  simp [Spec.Dot.lexRun, Spec.Dot.lexStep, Spec.Dot.lexTop, Spec.Dot.isSpace]

/-- the label is faithful: un-escaping what `Escaper` wrote gives back what the weight printed. -/
theorem C18_escape_faithful (s : List Char) : Spec.Dot.unescape (Dot.escape s) = s :=
  DotP.unescape_escape s

/-- an escaped label contains no raw line break. -/
theorem C18_escape_no_newline (s : List Char) : '\n' ∉ Dot.escape s := by
  induction s with
  | nil => simp [Dot.escape]
  | cons c s ih =>
    simp only [Dot.escape, List.flatMap_cons, List.mem_append, not_or] at ih ⊢
    refine ⟨?_, ih⟩
    unfold Dot.escapeChar
    by_cases h1 : c = '"'
    · subst h1; decide
    · by_cases h2 : c = '\\'
      · subst h2; decide
      · by_cases h3 : c = '\n'
        · subst h3; decide
        · simp [h1, h2, h3]; exact fun h => h3 h.symm

/-- `Configs::extract`: a flag is set iff it is listed (repetitions are harmless), the last `RankDir` wins. -/
theorem C18_configs_extract (cs : List Dot.Config) :
    (Dot.Configs.extract cs).NodeIndexLabel = cs.contains .NodeIndexLabel ∧
    (Dot.Configs.extract cs).EdgeIndexLabel = cs.contains .EdgeIndexLabel ∧
    (Dot.Configs.extract cs).EdgeNoLabel = cs.contains .EdgeNoLabel ∧
    (Dot.Configs.extract cs).NodeNoLabel = cs.contains .NodeNoLabel ∧
    (Dot.Configs.extract cs).GraphContentOnly = cs.contains .GraphContentOnly ∧
    (Dot.Configs.extract cs).RankDir = (cs.filterMap DotP.rankOf).getLast? :=
  DotP.extract_spec cs

/-- line structure, for every graph, every `Config` combination and every format spec: the text is
header? · rankdir? · one line per node reference · one line per edge reference (with its `enumerate()`
number) · footer?; a node line is `INDENT index " [ " label? attr "]\n"`, an edge line is
`INDENT source " " connector " " target " [ " label? attr "]\n"`, a label is `label = "…" `. -/
theorem C18_dot_lines (c : Dot.Configs) (f : Dot.Fmt) (g : Dot.GraphView) :
    Dot.graphFmt c f g =
      DotP.headerText c g.directed ++ DotP.rankText c ++ g.nodes.flatMap (Dot.nodeStmt c f) ++
        (DotP.enumFrom 0 g.edges).flatMap (fun p => Dot.edgeStmt c f g.directed p.1 p.2) ++ DotP.footerText c ∧
    (∀ n, Dot.nodeStmt c f n =
      Dot.INDENT ++ (Dot.decimal n.index ++ [' ']) ++ ['[', ' '] ++ DotP.labelText (DotP.nodeLabel c f n) ++
        n.attr ++ [']', '\n']) ∧
    (∀ i e, Dot.edgeStmt c f g.directed i e =
      Dot.INDENT ++ (Dot.decimal e.source ++ [' ']) ++ (Dot.EDGE g.directed ++ [' ']) ++
        (Dot.decimal e.target ++ [' ']) ++ ['[', ' '] ++ DotP.labelText (DotP.edgeLabel c f i e) ++
        e.attr ++ [']', '\n']) :=
  ⟨DotP.graphFmt_lines c f g, DotP.nodeStmt_eq c f, fun i e => DotP.edgeStmt_eq c f g.directed i e⟩

/-- well-formedness and exactness of the statements, for every graph, edge type, `Config` list, format
spec and whatever the weights print (attribute getters returning nothing, as with `Dot::new` and
`Dot::with_config`): the DOT lexer and statement parser accept the text; it has the header `digraph {` /
`graph {` and the closing brace unless `GraphContentOnly`; and its statements are exactly: the `rankdir`
attribute if configured, one node statement per node reference, one edge statement per edge reference with
the connector of the edge type — no statement more, none less, no label cut short. -/
theorem C18_dot_parse (configs : List Dot.Config) (f : Dot.Fmt) (g : Dot.GraphView) (h : DotP.NoAttrs g) :
    let c := Dot.Configs.extract configs
    Spec.Dot.parse (Dot.dot configs f g) =
      some ⟨if c.GraphContentOnly then none else some g.directed,
        DotP.rankStmts c ++ g.nodes.map (DotP.nodeStmtOf c f) ++
          (DotP.enumFrom 0 g.edges).map (DotP.edgeStmtOf c f g.directed)⟩ :=
  DotP.dot_parse (Dot.Configs.extract configs) f g h

/-- … and the statements say what they should: a node statement's ID reads back as the node's index and
an edge statement's IDs as the indices of its endpoints, in that order. -/
theorem C18_dot_ids (c : Dot.Configs) (f : Dot.Fmt) (d : Bool) (n : Dot.NodeRef) (p : Nat × Dot.EdgeRef) :
    (∃ as, DotP.nodeStmtOf c f n = .node (Dot.decimal n.index) as ∧
      Spec.Dot.numeral (Dot.decimal n.index) = some n.index) ∧
    (∃ as, DotP.edgeStmtOf c f d p = .edge (Dot.decimal p.2.source) d (Dot.decimal p.2.target) as ∧
      Spec.Dot.numeral (Dot.decimal p.2.source) = some p.2.source ∧
      Spec.Dot.numeral (Dot.decimal p.2.target) = some p.2.target) :=
  ⟨⟨_, rfl, DotP.numeral_decimal _⟩, ⟨_, rfl, DotP.numeral_decimal _, DotP.numeral_decimal _⟩⟩

/-- … and the label of a statement is absent under `NodeNoLabel` / `EdgeNoLabel`, the index under
`NodeIndexLabel` (the `enumerate()` number under `EdgeIndexLabel`), and otherwise a quoted string that
un-escapes to what the weight's formatting trait printed (followed by a line break under `#`). -/
theorem C18_dot_labels (c : Dot.Configs) (f : Dot.Fmt) (n : Dot.NodeRef) (i : Nat) (e : Dot.EdgeRef) :
    DotP.labelAttrs (DotP.nodeLabel c f n) =
      (if c.NodeNoLabel then []
       else [(Spec.Dot.kwLabel, .str (if c.NodeIndexLabel then Dot.decimal n.index else Dot.escaped f n.weight))]) ∧
    DotP.labelAttrs (DotP.edgeLabel c f i e) =
      (if c.EdgeNoLabel then []
       else [(Spec.Dot.kwLabel, .str (if c.EdgeIndexLabel then Dot.decimal i else Dot.escaped f e.weight))]) ∧
    ∀ w : Dot.Weight, Spec.Dot.unescape (Dot.escaped f w) =
      if f.alternate then w.render f.kind true ++ ['\n'] else w.render f.kind false := by
  refine ⟨?_, ?_, DotP.unescape_escaped f⟩
  · unfold DotP.nodeLabel; split <;> rfl
  · unfold DotP.edgeLabel; split <;> rfl

/-- a non-trivial instance: a directed graph with a vacancy (indices 0 and 2), a weight that tries to
close its label and inject a statement, `{:#?}`-style formatting -/
def exGraph : Dot.GraphView :=
  let w1 : Dot.Weight := ⟨fun _ _ => ['"', ' ', ']', '\n', '9', ' ', '[', ' ', '"']⟩
  let w2 : Dot.Weight := ⟨fun _ _ => ['a', '\\']⟩
  { directed := true
    nodes := [{ index := 0, weight := w1 }, { index := 2, weight := w2 }]
    edges := [{ source := 2, target := 0, weight := w1 }] }

example : DotP.NoAttrs exGraph := by
  constructor <;> intro x hx <;> simp [exGraph] at hx
  · rcases hx with rfl | rfl <;> rfl
  · subst hx; rfl

example : (Spec.Dot.parse (Dot.dot [.RankDir .LR] ⟨.debug, true⟩ exGraph)).map (·.stmts.length) = some 4 := by
  rw [C18_dot_parse _ _ _ (by
    constructor <;> intro x hx <;> simp [exGraph] at hx
    · rcases hx with rfl | rfl <;> rfl
    · subst hx; rfl)]
  rfl

/-! ## the tie to the source by regeneration

`tools/extract_c18.py` re-derives `Extracted.C18` from `/repo/src`; these theorems state that the generated
constants and tables are the ones the mirror models (and hence all theorems above) are built from. -/

/-- graph6 constants: `N`, the largest supported order, the header decision list of the encoder (generated from
`get_graph_order_as_bits` as a function of `get_number_as_bits`), the group size, the padding bit, the header slices of
the decoder. -/
theorem C18_extracted_graph6 :
    Extracted.C18.encN = G6.N ∧ Extracted.C18.decN = G6.N ∧ Extracted.C18.maxOrder = G6.maxOrder ∧
    (∀ order, G6.orderBits order = Extracted.C18.orderBits G6.numberBits order) ∧
    (∀ bits, G6.padTo6 bits =
      bits ++ List.replicate ((Extracted.C18.encGroup - bits.length % Extracted.C18.encGroup) % Extracted.C18.encGroup)
        (Extracted.C18.padBit != 0)) ∧
    Extracted.C18.encChunk = 6 ∧
    (∀ bytes, G6.bytesToBits bytes = bytes.flatMap fun b => G6.numberBits b Extracted.C18.decGroup) ∧
    (∀ first rest, first = Extracted.C18.decN → 3 ≤ rest.length →
      G6.splitHeader (first :: rest) =
        some (((first :: rest).drop Extracted.C18.longFrom).take (Extracted.C18.longTo - Extracted.C18.longFrom + 1),
              (first :: rest).drop Extracted.C18.longBody)) ∧
    (∀ first rest, first ≠ Extracted.C18.decN →
      G6.splitHeader (first :: rest) = some ([first], (first :: rest).drop Extracted.C18.shortBody)) := by
  refine ⟨rfl, rfl, rfl, fun _ => rfl, fun _ => rfl, rfl, fun _ => rfl, ?_, ?_⟩
  · intro first rest h1 h2
    have : ¬ rest.length < 3 := by omega
    simp [G6.splitHeader, Extracted.C18.longFrom, Extracted.C18.longTo, Extracted.C18.longBody, this,
      show first = G6.N from h1]
  · intro first rest h1
    have : ¬ first = G6.N := h1
    simp [G6.splitHeader, Extracted.C18.shortBody, this]

/-- graph6 encoder, the byte of a chunk: `char::from((N + value) as u8)` where `value` is the big-endian base-2 number of
the chunk (the extractor recognises `from_str_radix(<joined digits>, 2)`, `fold(0, |v, b| 2 * v + b)` and
`fold(0, |v, b| (v << 1) | b)`) — the model's `Char.ofNat (N + bitsToNat c)`; and `get_number_as_bits` of the encoder and
of the decoder emit the most significant bit first (`(n >> i) & 1` for `i` over `(0..bits_length).rev()`), as `G6.numberBits`. -/
theorem C18_extracted_graph6_byte :
    Extracted.C18.encOffset = G6.N ∧
    (∀ c, G6.bitsToNat c = c.foldl (fun acc b => Extracted.C18.encRadix * acc + b.toNat) 0) ∧
    Extracted.C18.encMsbFirst = true ∧ Extracted.C18.decMsbFirst = true :=
  ⟨rfl, fun _ => rfl, rfl, rfl⟩

/-- Dot tables: the escaper's arms, `TYPE`, `EDGE`, `INDENT`, the `rankdir` values. -/
theorem C18_extracted_dot :
    (∀ c, Extracted.C18.escapeChar c = Dot.escapeChar c) ∧
    (∀ d, Extracted.C18.TYPE d = Dot.TYPE d) ∧ (∀ d, Extracted.C18.EDGE d = Dot.EDGE d) ∧
    Extracted.C18.INDENT = Dot.INDENT ∧
    Extracted.C18.rankdirValues = [Dot.RankDir.TB, .BT, .LR, .RL].map Dot.RankDir.value :=
  ⟨fun _ => rfl, fun _ => rfl, fun _ => rfl, rfl, rfl⟩

end PetgraphModel.C18T
