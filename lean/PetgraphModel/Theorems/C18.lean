import PetgraphModel.Model.Graph6
import PetgraphModel.Model.Dot
import PetgraphModel.Spec.Graph6
import PetgraphModel.Spec.Dot
import PetgraphModel.Proofs.Graph6
import PetgraphModel.Proofs.Dot
import PetgraphModel.Extracted.C18
import PetgraphModel.Proofs.C18W5Round
import PetgraphModel.Proofs.C18W5Dot
import PetgraphModel.Driver.C18
/-
C18 — graph6 is spec-exact and round-trips; Dot output is well-formed and faithful.

Only property theorems live here; helper lemmas are in `Proofs/Graph6.lean` and `Proofs/Dot.lean`.
The theorems are about the mirror models `G6` (`/repo/src/graph6/*.rs`, the bitmaps of
`/repo/src/traits_graph.rs`) and `Dot` (`/repo/src/dot/mod.rs`), which `./check C18` ties to the source by
exact differential execution, and about the specifications `Spec.Graph6` (the format text) and `Spec.Dot`
(DOT lexer, statement parser, label un-escaping).  All of them are full (no `_partial`).
-/
namespace PetgraphModel.C18T
open PetgraphModel

/-! ## graph6 -/

/-- the running example of the format description: order 5, edges 0-2, 0-4, 1-3, 3-4, string `DQc` -/
def adjEx : Nat → Nat → Bool := fun a b => (a, b) ∈ [(0, 2), (0, 4), (1, 3), (3, 4)]

/-- `get_bits_as_decimal (get_number_as_bits n k) = n mod 2^k`: writing a number as `k` bits (most
significant first) and reading the bits back loses exactly the bits above `k`. -/
theorem C18_bits_roundtrip (n k : Nat) : G6.bitsToNat (G6.numberBits n k) = n % 2 ^ k :=
  G6P.bitsToNat_numberBits n k

/-- the other direction, which the decoder relies on: every bit vector is the `length`-bit form of its value. -/
theorem C18_bits_roundtrip_inv (l : List Bool) : G6.numberBits (G6.bitsToNat l) l.length = l :=
  G6P.numberBits_bitsToNat l

example : G6.bitsToNat (G6.numberBits 300 6) = 44 := by rw [C18_bits_roundtrip]; decide

/-- the size header: one byte `n + 63` below 63; `126` and the three 6-bit groups of the 18-bit form up to
258047; a panic beyond — exactly N(n) of the format text (`Spec.Graph6.Nn`). -/
theorem C18_header (n : Nat) :
    (G6.orderBits n).map (fun hb => (G6.chunks6 hb).map fun c => G6.N + G6.bitsToNat c) =
      if n ≤ 62 then some [n + 63]
      else if n ≤ 258047 then some [126, n / 4096 % 64 + 63, n / 64 % 64 + 63, n % 64 + 63]
      else none := by
  unfold G6.orderBits
  by_cases h1 : n < G6.N
  · have h62 : n ≤ 62 := by simp only [G6.N] at h1; omega
    have := G6P.header_short n h1
    simp only [h1, if_true, h62, Option.map_some]
    have e : ∀ l : List (List Bool), l.map (fun c => G6.N + G6.bitsToNat c) = (l.map G6.bitsToNat).map (G6.N + ·) := by
      intro l; simp
    rw [e, this]; simp [G6.N, Nat.add_comm]
  · have h62 : ¬ n ≤ 62 := by simp only [G6.N] at h1; omega
    by_cases h2 : n ≤ G6.maxOrder
    · have h2' : n ≤ 258047 := h2
      have := G6P.header_long n
      simp only [h1, if_false, h2, if_true, h62, h2', Option.map_some]
      have e : ∀ l : List (List Bool), l.map (fun c => G6.N + G6.bitsToNat c) = (l.map G6.bitsToNat).map (G6.N + ·) := by
        intro l; simp
      rw [e, this]; simp [G6.N, Nat.add_comm]
    · have h2' : ¬ n ≤ 258047 := h2
      simp [h1, h2, h62, h2']

theorem C18_header_matches_format (n : Nat) (h : n ≤ 258047) :
    (if n ≤ 62 then [n + 63] else [126, n / 4096 % 64 + 63, n / 64 % 64 + 63, n % 64 + 63]) =
      Spec.Graph6.Nn n := by
  unfold Spec.Graph6.Nn; simp [h]

/-- the encoder is the format: for every order up to 258047 and every adjacency predicate (given on
node-iteration positions) `get_graph6_representation` produces exactly N(n) R(x) of the format text,
x the upper triangle in the order (0,1),(0,2),(1,2),(0,3),…; beyond 258047 it panics. -/
theorem C18_encode_spec (n : Nat) (adj : Nat → Nat → Bool) :
    G6.encode n adj =
      if n ≤ 258047 then some ((Spec.Graph6.graph6 n adj).map Char.ofNat) else none :=
  G6P.encode_spec n adj

example : G6.encode 5 adjEx = some ['D', 'Q', 'c'] := by rw [C18_encode_spec]; decide
example : (G6.encode 63 fun _ _ => false).map (·.take 4) = some ['~', '?', '?', '~'] := by
  rw [C18_encode_spec]; decide

/-- what the bit vector of the specification means, independently of how it is enumerated: it has
n(n-1)/2 bits and bit j(j-1)/2 + i is the adjacency of the pair i < j. -/
theorem C18_spec_position (n : Nat) (adj : Nat → Nat → Bool) :
    (Spec.Graph6.x n adj).length = n * (n - 1) / 2 ∧
    ∀ i j, i < j → j < n → (Spec.Graph6.x n adj)[j * (j - 1) / 2 + i]? = some (adj i j) :=
  ⟨G6P.x_length n adj, fun i j hij hj => G6P.x_getElem n adj i j hij hj⟩

/-- decode ∘ encode: for every order up to 258047 and every adjacency predicate, decoding the encoder's
string yields the order and exactly the edges `i < j` with `adj i j` (each once, in the format's order);
in particular it does not panic. -/
theorem C18_decode_encode (n : Nat) (hn : n ≤ 258047) (adj : Nat → Nat → Bool) :
    (G6.encode n adj).bind G6.decode = some (n, Spec.Graph6.edges n adj) :=
  G6P.decode_encode n hn adj

example : (G6.encode 5 adjEx).bind G6.decode = some (5, [(0, 2), (1, 3), (0, 4), (3, 4)]) := by
  rw [C18_decode_encode 5 (by decide)]; decide

/-- the decoded edge list is the graph's adjacency: a pair is listed iff `i < j < n` and adjacent, and no
pair is listed twice — so for a symmetric loop-free `adj` the decoded graph has `adj`'s adjacency. -/
theorem C18_decoded_edges (n : Nat) (adj : Nat → Nat → Bool) :
    (∀ i j, (i, j) ∈ Spec.Graph6.edges n adj ↔ i < j ∧ j < n ∧ adj i j = true) ∧
    (Spec.Graph6.edges n adj).Nodup :=
  ⟨G6P.mem_edges n adj, G6P.edges_nodup n adj⟩

/-- decode ∘ encode on a simple undirected graph (symmetric, loop-free adjacency): two distinct nodes are
joined in the decoded graph — the pair, smaller endpoint first, is in its edge list — iff they are adjacent:
decode(encode(g)) has g's adjacency. -/
theorem C18_roundtrip_adjacency (n : Nat) (adj : Nat → Nat → Bool) (sym : ∀ i j, adj i j = adj j i)
    (i j : Nat) (hi : i < n) (hj : j < n) (hij : i ≠ j) :
    adj i j = true ↔ (min i j, max i j) ∈ Spec.Graph6.edges n adj :=
  G6P.roundtrip_adjacency n adj sym i j hi hj hij

/-- the adjacency bitmaps of `Graph` and `StableGraph` (`traits_graph.rs`): built and read with the same
width `w` that bounds every node index (`node_count()` for `Graph`, `node_bound()` for `StableGraph`),
`adjacency_matrix` does not panic and `is_adjacent(a, b)` holds iff some edge joins `a` and `b`
(in either orientation).  (D8 was a read with a smaller width than the bitmap was built with.) -/
theorem C18_adjacency_matrix (w : Nat) (es : List (Nat × Nat)) (h : ∀ e ∈ es, e.1 < w ∧ e.2 < w) :
    ∃ m, G6.adjMatrix w es = some m ∧ ∀ a b, a < w → b < w →
      (G6.isAdjacent w m a b = true ↔ ∃ e ∈ es, (e.1 = a ∧ e.2 = b) ∨ (e.1 = b ∧ e.2 = a)) :=
  G6P.adjMatrix_spec w es h

example : ∀ e ∈ [(0, 6), (3, 2)], e.1 < 7 ∧ e.2 < 7 := by decide

/-- `graph6_string()` of the bitmap types end to end: for node indices `ix` in node-iteration order
(any order, with vacancies: only `ix ⊆ 0..w` is needed), edges given by node index and a bitmap width `w`
above every index, the encoder run on `is_adjacent` of the bitmap `adjacency_matrix` built produces the
format's encoding of "some edge joins the p-th and the q-th node of the iteration". -/
theorem C18_graph6_of_bitmap (w : Nat) (es : List (Nat × Nat)) (ix : List Nat)
    (hes : ∀ e ∈ es, e.1 < w ∧ e.2 < w) (hix : ∀ i ∈ ix, i < w) (hn : ix.length ≤ 258047) :
    ∃ m, G6.adjMatrix w es = some m ∧
      G6.encode ix.length (fun p q => G6.isAdjacent w m (ix.getD p 0) (ix.getD q 0)) =
        some ((Spec.Graph6.graph6 ix.length fun p q => G6P.joined es (ix.getD p 0) (ix.getD q 0)).map Char.ofNat) :=
  G6P.graph6_of_bitmap w es ix hes hix hn

/-- a `StableGraph` after `remove_node(0)` of four nodes (the witness of D8): indices 1, 2, 3, bound 4 -/
example : ∀ i ∈ [1, 2, 3], i < 4 := by decide

/-! ## Dot -/

/-- no weight can end its label early: for every string `s` a weight prints and every continuation `r`,
the DOT quoted-string rule (Graphviz `scan.l`: `\"` and `\\` are units), started right after the opening
quote on `escape s ++ "\"" ++ r`, stops exactly at the closing quote `Dot` writes. -/
theorem C18_escape_lex (s r : List Char) :
    Spec.Dot.lexQuoted (Dot.escape s ++ '"' :: r) = some (Dot.escape s, r) :=
  DotP.escape_lex s r

example : Spec.Dot.lexQuoted (Dot.escape ['a', '"', ']', '\\'] ++ '"' :: [' ', ']']) =
    some (['a', '\\', '"', ']', '\\', '\\'], [' ', ']']) := by rw [C18_escape_lex]; decide

/-- the two formulations of the quoted-string rule agree: where `lexQuoted` finds the closing quote, the
tokenizer (a state machine over characters) emits exactly that string token and continues behind it. -/
theorem C18_lexer_coherent (cs : List Char) (toks : List Spec.Dot.Tok) (content rest : List Char)
    (h : Spec.Dot.lexQuoted cs = some (content, rest)) :
    Spec.Dot.lexRun ⟨toks, .top⟩ ('"' :: cs) = Spec.Dot.lexRun ⟨toks ++ [.str content], .top⟩ rest := by
  have := DotP.lexRun_str cs toks [] content rest h
  simp only [List.nil_append] at this
  rw [← this]
  simp [Spec.Dot.lexRun, Spec.Dot.lexStep, Spec.Dot.lexTop, Spec.Dot.isSpace]

/-- the label is faithful: un-escaping what `Escaper` wrote gives back what the weight printed. -/
theorem C18_escape_faithful (s : List Char) : Spec.Dot.unescape (Dot.escape s) = s :=
  DotP.unescape_escape s

/-- an escaped label contains no raw line break. -/
theorem C18_escape_no_newline (s : List Char) : '\n' ∉ Dot.escape s := by
  induction s with
  | nil => simp [Dot.escape]
  | cons c s ih =>
    simp only [Dot.escape, List.flatMap_cons, List.mem_append, not_or] at ih ⊢
    refine ⟨?_, ih⟩
    unfold Dot.escapeChar
    by_cases h1 : c = '"'
    · subst h1; decide
    · by_cases h2 : c = '\\'
      · subst h2; decide
      · by_cases h3 : c = '\n'
        · subst h3; decide
        · simp [h1, h2, h3]; exact fun h => h3 h.symm

/-- `Configs::extract`: a flag is set iff it is listed (repetitions are harmless), the last `RankDir` wins. -/
theorem C18_configs_extract (cs : List Dot.Config) :
    (Dot.Configs.extract cs).NodeIndexLabel = cs.contains .NodeIndexLabel ∧
    (Dot.Configs.extract cs).EdgeIndexLabel = cs.contains .EdgeIndexLabel ∧
    (Dot.Configs.extract cs).EdgeNoLabel = cs.contains .EdgeNoLabel ∧
    (Dot.Configs.extract cs).NodeNoLabel = cs.contains .NodeNoLabel ∧
    (Dot.Configs.extract cs).GraphContentOnly = cs.contains .GraphContentOnly ∧
    (Dot.Configs.extract cs).RankDir = (cs.filterMap DotP.rankOf).getLast? :=
  DotP.extract_spec cs

/-- line structure, for every graph, every `Config` combination and every format spec: the text is
header? · rankdir? · one line per node reference · one line per edge reference (with its `enumerate()`
number) · footer?; a node line is `INDENT index " [ " label? attr "]\n"`, an edge line is
`INDENT source " " connector " " target " [ " label? attr "]\n"`, a label is `label = "…" `. -/
theorem C18_dot_lines (c : Dot.Configs) (f : Dot.Fmt) (g : Dot.GraphView) :
    Dot.graphFmt c f g =
      DotP.headerText c g.directed ++ DotP.rankText c ++ g.nodes.flatMap (Dot.nodeStmt c f) ++
        (DotP.enumFrom 0 g.edges).flatMap (fun p => Dot.edgeStmt c f g.directed p.1 p.2) ++ DotP.footerText c ∧
    (∀ n, Dot.nodeStmt c f n =
      Dot.INDENT ++ (Dot.decimal n.index ++ [' ']) ++ ['[', ' '] ++ DotP.labelText (DotP.nodeLabel c f n) ++
        n.attr ++ [']', '\n']) ∧
    (∀ i e, Dot.edgeStmt c f g.directed i e =
      Dot.INDENT ++ (Dot.decimal e.source ++ [' ']) ++ (Dot.EDGE g.directed ++ [' ']) ++
        (Dot.decimal e.target ++ [' ']) ++ ['[', ' '] ++ DotP.labelText (DotP.edgeLabel c f i e) ++
        e.attr ++ [']', '\n']) :=
  ⟨DotP.graphFmt_lines c f g, DotP.nodeStmt_eq c f, fun i e => DotP.edgeStmt_eq c f g.directed i e⟩

/-- well-formedness and exactness of the statements, for every graph, edge type, `Config` list, format
spec and whatever the weights print (attribute getters returning nothing, as with `Dot::new` and
`Dot::with_config`): the DOT lexer and statement parser accept the text; it has the header `digraph {` /
`graph {` and the closing brace unless `GraphContentOnly`; and its statements are exactly: the `rankdir`
attribute if configured, one node statement per node reference, one edge statement per edge reference with
the connector of the edge type — no statement more, none less, no label cut short. -/
theorem C18_dot_parse (configs : List Dot.Config) (f : Dot.Fmt) (g : Dot.GraphView) (h : DotP.NoAttrs g) :
    let c := Dot.Configs.extract configs
    Spec.Dot.parse (Dot.dot configs f g) =
      some ⟨if c.GraphContentOnly then none else some g.directed,
        DotP.rankStmts c ++ g.nodes.map (DotP.nodeStmtOf c f) ++
          (DotP.enumFrom 0 g.edges).map (DotP.edgeStmtOf c f g.directed)⟩ :=
  DotP.dot_parse (Dot.Configs.extract configs) f g h

/-- … and the statements say what they should: a node statement's ID reads back as the node's index and
an edge statement's IDs as the indices of its endpoints, in that order. -/
theorem C18_dot_ids (c : Dot.Configs) (f : Dot.Fmt) (d : Bool) (n : Dot.NodeRef) (p : Nat × Dot.EdgeRef) :
    (∃ as, DotP.nodeStmtOf c f n = .node (Dot.decimal n.index) as ∧
      Spec.Dot.numeral (Dot.decimal n.index) = some n.index) ∧
    (∃ as, DotP.edgeStmtOf c f d p = .edge (Dot.decimal p.2.source) d (Dot.decimal p.2.target) as ∧
      Spec.Dot.numeral (Dot.decimal p.2.source) = some p.2.source ∧
      Spec.Dot.numeral (Dot.decimal p.2.target) = some p.2.target) :=
  ⟨⟨_, rfl, DotP.numeral_decimal _⟩, ⟨_, rfl, DotP.numeral_decimal _, DotP.numeral_decimal _⟩⟩

/-- … and the label of a statement is absent under `NodeNoLabel` / `EdgeNoLabel`, the index under
`NodeIndexLabel` (the `enumerate()` number under `EdgeIndexLabel`), and otherwise a quoted string that
un-escapes to what the weight's formatting trait printed (followed by a line break under `#`). -/
theorem C18_dot_labels (c : Dot.Configs) (f : Dot.Fmt) (n : Dot.NodeRef) (i : Nat) (e : Dot.EdgeRef) :
    DotP.labelAttrs (DotP.nodeLabel c f n) =
      (if c.NodeNoLabel then []
       else [(Spec.Dot.kwLabel, .str (if c.NodeIndexLabel then Dot.decimal n.index else Dot.escaped f n.weight))]) ∧
    DotP.labelAttrs (DotP.edgeLabel c f i e) =
      (if c.EdgeNoLabel then []
       else [(Spec.Dot.kwLabel, .str (if c.EdgeIndexLabel then Dot.decimal i else Dot.escaped f e.weight))]) ∧
    ∀ w : Dot.Weight, Spec.Dot.unescape (Dot.escaped f w) =
      if f.alternate then w.render f.kind true ++ ['\n'] else w.render f.kind false := by
  refine ⟨?_, ?_, DotP.unescape_escaped f⟩
  · unfold DotP.nodeLabel; split <;> rfl
  · unfold DotP.edgeLabel; split <;> rfl

/-- a non-trivial instance: a directed graph with a vacancy (indices 0 and 2), a weight that tries to
close its label and inject a statement, `{:#?}`-style formatting -/
def exGraph : Dot.GraphView :=
  let w1 : Dot.Weight := ⟨fun _ _ => ['"', ' ', ']', '\n', '9', ' ', '[', ' ', '"']⟩
  let w2 : Dot.Weight := ⟨fun _ _ => ['a', '\\']⟩
  { directed := true
    nodes := [{ index := 0, weight := w1 }, { index := 2, weight := w2 }]
    edges := [{ source := 2, target := 0, weight := w1 }] }

example : DotP.NoAttrs exGraph := by
  constructor <;> intro x hx <;> simp [exGraph] at hx
  · rcases hx with rfl | rfl <;> rfl
  · subst hx; rfl

example : (Spec.Dot.parse (Dot.dot [.RankDir .LR] ⟨.debug, true⟩ exGraph)).map (·.stmts.length) = some 4 := by
  rw [C18_dot_parse _ _ _ (by
    constructor <;> intro x hx <;> simp [exGraph] at hx
    · rcases hx with rfl | rfl <;> rfl
    · subst hx; rfl)]
  rfl

/-! ## the tie to the source by regeneration

`tools/extract_c18.py` re-derives `Extracted.C18` from `/repo/src`; these theorems state that the generated
constants and tables are the ones the mirror models (and hence all theorems above) are built from. -/

/-- graph6 constants: `N`, the largest supported order, the header decision list of the encoder (generated from
`get_graph_order_as_bits` as a function of `get_number_as_bits`), the group size, the padding bit, the header slices of
the decoder. -/
theorem C18_extracted_graph6 :
    Extracted.C18.encN = G6.N ∧ Extracted.C18.decN = G6.N ∧ Extracted.C18.maxOrder = G6.maxOrder ∧
    (∀ order, G6.orderBits order = Extracted.C18.orderBits G6.numberBits order) ∧
    (∀ bits, G6.padTo6 bits =
      bits ++ List.replicate ((Extracted.C18.encGroup - bits.length % Extracted.C18.encGroup) % Extracted.C18.encGroup)
        (Extracted.C18.padBit != 0)) ∧
    Extracted.C18.encChunk = 6 ∧
    (∀ bytes, G6.bytesToBits bytes = bytes.flatMap fun b => G6.numberBits b Extracted.C18.decGroup) ∧
    (∀ first rest, first = Extracted.C18.decN → 3 ≤ rest.length →
      G6.splitHeader (first :: rest) =
        some (((first :: rest).drop Extracted.C18.longFrom).take (Extracted.C18.longTo - Extracted.C18.longFrom + 1),
              (first :: rest).drop Extracted.C18.longBody)) ∧
    (∀ first rest, first ≠ Extracted.C18.decN →
      G6.splitHeader (first :: rest) = some ([first], (first :: rest).drop Extracted.C18.shortBody)) := by
  refine ⟨rfl, rfl, rfl, fun _ => rfl, fun _ => rfl, rfl, fun _ => rfl, ?_, ?_⟩
  · intro first rest h1 h2
    have : ¬ rest.length < 3 := by omega
    simp [G6.splitHeader, Extracted.C18.longFrom, Extracted.C18.longTo, Extracted.C18.longBody, this,
      show first = G6.N from h1]
  · intro first rest h1
    have : ¬ first = G6.N := h1
    simp [G6.splitHeader, Extracted.C18.shortBody, this]

/-- graph6 encoder, the byte of a chunk: `char::from((N + value) as u8)` where `value` is the big-endian base-2 number of
the chunk (the extractor recognises `from_str_radix(<joined digits>, 2)`, `fold(0, |v, b| 2 * v + b)` and
`fold(0, |v, b| (v << 1) | b)`) — the model's `Char.ofNat (N + bitsToNat c)`; and `get_number_as_bits` of the encoder and
of the decoder emit the most significant bit first (`(n >> i) & 1` for `i` over `(0..bits_length).rev()`), as `G6.numberBits`. -/
theorem C18_extracted_graph6_byte :
    Extracted.C18.encOffset = G6.N ∧
    (∀ c, G6.bitsToNat c = c.foldl (fun acc b => Extracted.C18.encRadix * acc + b.toNat) 0) ∧
    Extracted.C18.encMsbFirst = true ∧ Extracted.C18.decMsbFirst = true :=
  ⟨rfl, fun _ => rfl, rfl, rfl⟩

/-- Dot tables: the escaper's arms, `TYPE`, `EDGE`, `INDENT`, the `rankdir` values. -/
theorem C18_extracted_dot :
    (∀ c, Extracted.C18.escapeChar c = Dot.escapeChar c) ∧
    (∀ d, Extracted.C18.TYPE d = Dot.TYPE d) ∧ (∀ d, Extracted.C18.EDGE d = Dot.EDGE d) ∧
    Extracted.C18.INDENT = Dot.INDENT ∧
    Extracted.C18.rankdirValues = [Dot.RankDir.TB, .BT, .LR, .RL].map Dot.RankDir.value :=
  ⟨fun _ => rfl, fun _ => rfl, fun _ => rfl, rfl, rfl⟩

/-! ## wave 5 — the decoder on ARBITRARY strings

`from_graph6_representation` has no error type: it panics or answers.  `G6.decodeClosed` (Model/C18Decode.lean) is its
behaviour in closed form; the harness exercises it with a malformed-input stream (`decx` lines: truncated strings, bytes
below 63 and above 126, wrong lengths, long header forms, non-zero padding, arbitrary text). -/

/-- **total characterisation**: for every string, the decoder answers exactly what the closed form says — a panic in the
four situations (P1)–(P4), otherwise the order read from the size header and the pairs whose bit is set. -/
theorem C18_decode_total (s : List Char) : G6.decode s = G6.decodeClosed s := G6P.decode_closed s

/-- the exact panic conditions, spelled out: (P1) a character below `'?'` (63); (P2) the empty string; (P3) a first `'~'`
followed by fewer than three characters; (P4) a size header that is readable but claims more pairs than bits follow. -/
theorem C18_decode_panics_iff (s : List Char) :
    G6.decode s = none ↔
      (∃ c ∈ s, c.toNat < 63) ∨ s = [] ∨ (s.head?.map Char.toNat = some 126 ∧ s.length < 4) ∨
      ∃ n body, G6.decodeHeader (G6.byteValues s) = some (n, body) ∧ 6 * body.length < n * (n - 1) / 2 := by
  rw [G6P.decode_none_iff]
  unfold G6.decodePanics
  by_cases hlow : ∃ c ∈ s, c.toNat < 63
  · have : s.any (fun c => decide (c.toNat < 63)) = true := by
      obtain ⟨c, hc, h⟩ := hlow
      exact List.any_eq_true.2 ⟨c, hc, by simpa using h⟩
    simp [this, hlow]
  · have hany : s.any (fun c => decide (c.toNat < 63)) = false := by
      rw [Bool.eq_false_iff]
      intro h
      obtain ⟨c, hc, h'⟩ := List.any_eq_true.1 h
      exact hlow ⟨c, hc, by simpa using h'⟩
    simp only [hany, Bool.false_or, hlow, false_or]
    cases s with
    | nil => simp [G6.byteValues, G6.decodeHeader]
    | cons c0 rest =>
      have hc0 : ¬ c0.toNat < 63 := fun h => hlow ⟨c0, by simp, h⟩
      have h63 : (c0.toNat - 63 = 63) ↔ c0.toNat = 126 := by omega
      simp only [G6.byteValues, List.map_cons, G6.decodeHeader, List.head?_cons, Option.map_some, Option.some.injEq,
        List.length_cons, reduceCtorEq, false_or]
      by_cases h126 : c0.toNat = 126
      · have hb : c0.toNat - 63 = 63 := h63.2 h126
        simp only [if_true, h126, true_and]
        match rest with
        | [] => simp
        | [_] => simp
        | [_, _] => simp
        | c1 :: c2 :: c3 :: body => simp
      · have hb : ¬ (c0.toNat - 63 = 63) := fun h => h126 (h63.1 h)
        simp [hb, h126]

example : G6.decode [] = none := by rw [C18_decode_total]; decide
example : G6.decode ['~', '?', '?'] = none := by rw [C18_decode_total]; decide
example : G6.decode ['A', ' '] = none := by rw [C18_decode_total]; decide
example : G6.decode ['C'] = none := by rw [C18_decode_total]; decide

/-- the guard the driver runs on arbitrary input computes the same function -/
theorem C18_decode_guarded (s : List Char) : G6.decodeGuarded s = G6.decode s := G6P.decodeGuarded_eq s

/-- **the same decoder compiled without overflow checks** (the release profile of the harness): (P1) does not exist there
— `(c as usize) - N` wraps modulo 2^64, so a byte below 63 contributes the six bits of `code + 1` and is never the
long-header marker — and the rest is the same closed form: (P2), (P3), (P4) or the order and the pairs whose bit is set. -/
theorem C18_decode_total_release (s : List Char) :
    G6.decodeWrap s = G6.decodeClosedBytes (G6.byteValuesWrap s) ∧
    ∀ c, c < 63 → (c + 18446744073709551616 - 63) % 64 = c + 1 ∧ c + 18446744073709551616 - 63 ≠ 63 :=
  ⟨G6P.decodeWrap_closed s, G6P.wrapped_byte⟩

/-- the two builds differ on (P1) only: a string without a byte below 63 — every valid graph6 string in particular — is
decoded alike -/
theorem C18_decode_release_agrees (s : List Char) (h : ∀ c ∈ s, 63 ≤ c.toNat) : G6.decodeWrap s = G6.decode s := by
  apply G6P.decodeWrap_eq_decode
  rw [Bool.eq_false_iff]
  intro hany
  obtain ⟨c, hc, hlt⟩ := List.any_eq_true.1 hany
  have := h c hc
  simp only [decide_eq_true_eq] at hlt
  omega

/-- a witness of the difference: one blank in the body — a panic with overflow checks, an answer without -/
example : G6.decode ['A', ' '] = none ∧ G6.decodeWrap ['A', ' '] = some (2, [(0, 1)]) := by
  constructor
  · rw [C18_decode_total]; decide
  · rw [(C18_decode_total_release _).1]; decide

/-- what the driver runs for the harness's build profile (`ovf=` of the case line) is that profile's decoder -/
theorem C18_decode_profile (checked : Bool) (s : List Char) :
    G6.decodeProfile checked s = if checked then G6.decode s else G6.decodeWrap s := by
  unfold G6.decodeProfile
  cases checked
  · simp [G6P.decodeWrapGuarded_eq]
  · simp [G6P.decodeGuarded_eq]

/-- whatever the decoder answers — on ANY string — is a simple graph on `0..n`: pairs `i < j < n`, none twice, an order
of at most 18 bits; it is the edge list of some adjacency predicate in the format's order. -/
theorem C18_decode_wf (s : List Char) (n : Nat) (es : List (Nat × Nat)) (h : G6.decode s = some (n, es)) :
    (∀ e ∈ es, e.1 < e.2 ∧ e.2 < n) ∧ es.Nodup ∧ n < 262144 ∧
      ∃ adj : Nat → Nat → Bool, es = Spec.Graph6.edges n adj :=
  G6P.decode_wf s n es h

/-- "`from_graph6_string` of a valid string rebuilds a graph with exactly those nodes and edges": every valid graph6 string
— the format's encoding of ANY graph of order ≤ 258047, whether or not an encoder of petgraph produced it — is decoded to
that order and exactly the pairs `i < j` with `adj i j`; no panic. -/
theorem C18_decode_valid (n : Nat) (hn : n ≤ 258047) (adj : Nat → Nat → Bool) :
    G6.decode ((Spec.Graph6.graph6 n adj).map Char.ofNat) = some (n, Spec.Graph6.edges n adj) :=
  G6V.decode_valid n hn adj

example : G6.decode ((Spec.Graph6.graph6 5 adjEx).map Char.ofNat) = some (5, [(0, 2), (1, 3), (0, 4), (3, 4)]) := by
  rw [C18_decode_valid 5 (by decide)]; decide

/-- the decoder accepts a strict superset of the format (it is lenient, never an error): surplus bytes, non-zero padding
bits, the four-byte size header for a small order and characters above 126 (only the low six bits of `code - 63` are
used) all decode to the graph of the valid string `A_` (two nodes, one edge). -/
theorem C18_decode_lenient_witness :
    G6.decode ['A', '_'] = some (2, [(0, 1)]) ∧
    G6.decode ['A', '_', 'z', 'z'] = some (2, [(0, 1)]) ∧
    G6.decode ['A', '~'] = some (2, [(0, 1)]) ∧
    G6.decode ['~', '?', '?', 'A', '_'] = some (2, [(0, 1)]) ∧
    G6.decode [Char.ofNat 129, Char.ofNat 223] = some (2, [(0, 1)]) := by
  simp only [C18_decode_total]
  decide

/-! ## wave 5 — every storage type that implements graph6

`graph6_string()` is the encoder run on the type's `node_identifiers` and `is_adjacent`; those are the fields `ids` and
`adj` of the C06 table of the storage model (`Model/C06Views.lean`), whose `is_adjacent` clause C06 proves from the
extracted bit positions and widths (`Extracted/AdjWidth.lean`).  `from_graph6_string` is the decoder followed by the
type's own construction calls, replayed on the storage model (`Model/C18Views.lean`).  `adj::List` implements neither. -/

/-- the abstract graph of a storage state as the encoder sees it: "some edge reference joins the `p`-th and the `q`-th
node of `node_identifiers()`" -/
abbrev absAdj := G6V.absAdj

/-- `Graph<N, E, Undirected, Ix>::graph6_string()`: in every state satisfying the C01 invariant — multi-edges, loops,
any removal history — the string is the format's encoding of the abstract graph in node-iteration order (the documented
panic beyond 258047 nodes). -/
theorem C18_graph6_string_Graph (s : G.State) (h : C01T.Inv s) :
    G6V.graph6Graph s =
      if s.nodes.length ≤ 258047
      then some ((Spec.Graph6.graph6 s.nodes.length (absAdj (Visit.graphTable s))).map Char.ofNat) else none :=
  G6V.graph6Graph_spec s h

/-- `StableGraph` (vacancies included: the bitmap has `node_bound` columns, the order is `node_count`) -/
theorem C18_graph6_string_StableGraph (s : SG.State) (h : C02T.Inv s) :
    G6V.graph6Stable s =
      if (SG.nodeIndices s).length ≤ 258047
      then some ((Spec.Graph6.graph6 (SG.nodeIndices s).length (absAdj (Visit.stableTable s))).map Char.ofNat)
      else none :=
  G6V.graph6Stable_spec s h

/-- `GraphMap` (`is_adjacent` = `contains_edge`; node order = insertion order with `swap_remove` holes filled) -/
theorem C18_graph6_string_GraphMap (s : GM.State) (h : C03T.Inv s) :
    G6V.graph6GraphMap s =
      if (GM.nodesOf s).length ≤ 258047
      then some ((Spec.Graph6.graph6 (GM.nodesOf s).length (absAdj (Visit.graphMapTable s))).map Char.ofNat) else none :=
  G6V.graph6GraphMap_spec s h

/-- `MatrixGraph` (`is_adjacent` = `has_edge` on the stored matrix; removed ids are skipped by `node_identifiers`);
holds in every state of the model -/
theorem C18_graph6_string_MatrixGraph (s : Matrix.State) :
    G6V.graph6Matrix s =
      if s.nodes.ids.length ≤ 258047
      then some ((Spec.Graph6.graph6 s.nodes.ids.length (absAdj (Visit.matrixTable s))).map Char.ofNat) else none :=
  G6V.graph6Matrix_spec s

/-- `Csr` (the bitmap built from `edge_references`, which for `Undirected` lists every edge in both rows — D7 of C06 —
and therefore sets every bit twice: harmless here); `adjacency_matrix()` does not panic -/
theorem C18_graph6_string_Csr (s : CsrM.State) (h : C05T.Inv s) (hf : Visit.CsrW2.IxFits s) :
    G6V.graph6Csr s =
      if (CsrM.nodeIdentifiers s).length ≤ 258047
      then some ((Spec.Graph6.graph6 (CsrM.nodeIdentifiers s).length (absAdj (Visit.csrTable s))).map Char.ofNat)
      else none := by
  obtain ⟨R, good⟩ := h
  exact G6V.graph6Csr_spec s R good hf

/-- … hence after EVERY history of public calls (the invariants are those of C01, C02, C03, C05, proved for all histories
there; `MatrixGraph` needs none): whatever sequence of adds, removals, updates, `retain_*`, `clear*`, … produced the graph,
`graph6_string()` is the format's encoding of its abstract graph in node-iteration order. -/
theorem C18_graph6_string_all_histories :
    (∀ endv directed (ops : List G.Op),
      let s := (G.run (G.empty endv directed) ops).1
      G6V.graph6Graph s = G6V.specString (Visit.graphTable s) s.nodes.length) ∧
    (∀ directed fin noLimit debug (ops : List SG.Op),
      ∃ s outs, SG.run (SG.empty directed fin noLimit debug) ops = .ok (s, outs) ∧
        G6V.graph6Stable s = G6V.specString (Visit.stableTable s) (SG.nodeIndices s).length) ∧
    (∀ directed (ops : List GM.Op),
      let s := (GM.run (GM.State.empty directed) ops).1
      G6V.graph6GraphMap s = G6V.specString (Visit.graphMapTable s) (GM.nodesOf s).length) ∧
    (∀ s0 (ops : List Matrix.Op),
      let s := (Matrix.run s0 ops).1
      G6V.graph6Matrix s = G6V.specString (Visit.matrixTable s) s.nodes.ids.length) ∧
    (∀ d m c dbg n (ops : List CsrM.Op), (m = 0 ∨ n ≤ m) →
      let s := (CsrM.run (CsrM.withNodes d m c dbg n) ops).1
      G6V.graph6Csr s = G6V.specString (Visit.csrTable s) (CsrM.nodeIdentifiers s).length) := by
  refine ⟨?_, ?_, ?_, ?_, ?_⟩
  · intro endv directed ops
    exact G6V.graph6Graph_spec _ (C01T.C01_inv_all_histories endv directed ops)
  · intro directed fin noLimit debug ops
    obtain ⟨s, outs, h1, h2, _⟩ := C02T.C02_all_histories directed fin noLimit debug ops
    exact ⟨s, outs, h1, G6V.graph6Stable_spec s h2⟩
  · intro directed ops
    exact G6V.graph6GraphMap_spec _ (C03T.C03_all_histories directed ops).1
  · intro s0 ops
    exact G6V.graph6Matrix_spec _
  · intro d m c dbg n ops hfit
    have h0 := C05T.C05_csr_inv_init d m c dbg n
    have hix : Visit.CsrW2.IxFits (CsrM.withNodes d m c dbg n) := by
      unfold Visit.CsrW2.IxFits
      rcases hfit with h | h
      · left; exact h
      · right; simpa [CsrM.withNodes, CsrM.State.nodeCount] using h
    obtain ⟨R, good, _, _, hf⟩ := Visit.CsrW2.csr_run_facts (CsrProofs.good_withNodes d m c dbg n) h0.2.2 ops hix
    exact G6V.graph6Csr_spec _ R good hf

/-- what `from_graph6_string` must have built, read off the table of the result (`Proofs/C18W5Built.lean`): undirected,
`node_identifiers = 0, 1, …, n-1`, `node_count = n`, `edge_count = |es|`, and `edge_references` = the decoded pairs as
unordered pairs, each `mult` times -/
abbrev Built := @G6V.Built

/-- the format's string of a decoded graph -/
abbrev canonical := G6V.canonical

/-- **`Graph::from_graph6_string`**, for EVERY string the decoder accepts and every index type with room (`endv =
Ix::max()`): the call does not panic, the result satisfies the C01 invariant, its abstract graph is the decoded one
(nodes `0..n`, exactly the decoded edges), and `graph6_string()` of it is the format's string of that graph. -/
theorem C18_from_graph6_Graph (endv : Nat) (str : List Char) (n : Nat) (es : List (Nat × Nat))
    (hd : G6.decode str = some (n, es)) (hfit : n ≤ endv ∧ es.length ≤ endv) :
    ∃ s, G6V.fromGraph6Graph endv str = some s ∧ C01T.Inv s ∧ Built 1 (Visit.graphTable s) n es ∧
      (n ≤ 258047 → G6V.graph6Graph s = some (canonical n es)) :=
  G6V.graph_from_to endv str n es hd hfit

theorem C18_from_graph6_StableGraph (fin : Nat) (noLimit debug : Bool) (str : List Char) (n : Nat)
    (es : List (Nat × Nat)) (hd : G6.decode str = some (n, es)) (hfit : n ≤ fin ∧ es.length ≤ fin) :
    ∃ s, G6V.fromGraph6Stable fin noLimit debug str = some s ∧ C02T.Inv s ∧ Built 1 (Visit.stableTable s) n es ∧
      (n ≤ 258047 → G6V.graph6Stable s = some (canonical n es)) :=
  G6V.stable_from_to fin noLimit debug str n es hd hfit

theorem C18_from_graph6_GraphMap (str : List Char) (n : Nat) (es : List (Nat × Nat))
    (hd : G6.decode str = some (n, es)) :
    ∃ s, G6V.fromGraph6GraphMap str = some s ∧ C03T.Inv s ∧ Built 1 (Visit.graphMapTable s) n es ∧
      (n ≤ 258047 → G6V.graph6GraphMap s = some (canonical n es)) :=
  G6V.graphMap_from_to str n es hd

theorem C18_from_graph6_MatrixGraph (ixMax : Nat) (str : List Char) (n : Nat) (es : List (Nat × Nat))
    (hd : G6.decode str = some (n, es)) (hfit : n ≤ ixMax) :
    ∃ s g, G6V.fromGraph6Matrix ixMax str = some s ∧ C04T.Inv s ∧ C04T.R s g ∧ Built 1 (Visit.matrixTable s) n es ∧
      (n ≤ 258047 → G6V.graph6Matrix s = some (canonical n es)) :=
  G6V.matrix_from_to ixMax str n es hd hfit

/-- `Csr`: `edge_references()` of the result lists every decoded edge once per direction (`mult = 2`: open finding D7 of
C06), `edge_count()` counts each once -/
theorem C18_from_graph6_Csr (modulus cutoff : Nat) (debug : Bool) (str : List Char) (n : Nat) (es : List (Nat × Nat))
    (hd : G6.decode str = some (n, es)) (hfit : modulus = 0 ∨ n ≤ modulus) :
    ∃ s, G6V.fromGraph6Csr modulus cutoff debug str = some s ∧ C05T.Inv s ∧ Visit.CsrW2.IxFits s ∧
      Built 2 (Visit.csrTable s) n es ∧ (n ≤ 258047 → G6V.graph6Csr s = some (canonical n es)) :=
  G6V.csr_from_to modulus cutoff debug str n es hd hfit

/-- **when `from_graph6_string` panics**, per type: exactly when the decoder panics (`C18_decode_panics_iff`) or the index
type is too small for the decoded graph (the documented capacity panics of `add_node` / `add_edge`). -/
theorem C18_from_graph6_panics (str : List Char) :
    (∀ endv, G6V.fromGraph6Graph endv str = none ↔
      G6.decode str = none ∨ ∃ n es, G6.decode str = some (n, es) ∧ ¬ (n ≤ endv ∧ es.length ≤ endv)) ∧
    (∀ fin noLimit debug, G6V.fromGraph6Stable fin noLimit debug str = none ↔
      G6.decode str = none ∨ ∃ n es, G6.decode str = some (n, es) ∧ ¬ (n ≤ fin ∧ es.length ≤ fin)) ∧
    (G6V.fromGraph6GraphMap str = none ↔ G6.decode str = none) ∧
    (∀ ixMax, G6V.fromGraph6Matrix ixMax str = none ↔
      G6.decode str = none ∨ ∃ n es, G6.decode str = some (n, es) ∧ ¬ n ≤ ixMax) ∧
    (∀ modulus cutoff debug, G6V.fromGraph6Csr modulus cutoff debug str = none ↔
      G6.decode str = none ∨ ∃ n es, G6.decode str = some (n, es) ∧ ¬ (modulus = 0 ∨ n ≤ modulus)) :=
  ⟨fun e => G6V.graph_panics_iff e str, fun f nl dbg => G6V.stable_panics_iff f nl dbg str, G6V.graphMap_panics_iff str,
    fun i => G6V.matrix_panics_iff i str, fun m c dbg => G6V.csr_panics_iff m c dbg str⟩

/-- **string round trip through every storage type**: for every valid graph6 string — the format's encoding of any
graph `(n, adj)` of order ≤ 258047 that fits the index type — `from_graph6_string` followed by `graph6_string()` returns
the string itself, in all five types. -/
theorem C18_string_roundtrip (n : Nat) (hn : n ≤ 258047) (adj : Nat → Nat → Bool) :
    let str := (Spec.Graph6.graph6 n adj).map Char.ofNat
    let m := (Spec.Graph6.edges n adj).length
    (∀ endv, n ≤ endv ∧ m ≤ endv →
      ∃ s, G6V.fromGraph6Graph endv str = some s ∧ G6V.graph6Graph s = some str) ∧
    (∀ fin noLimit debug, n ≤ fin ∧ m ≤ fin →
      ∃ s, G6V.fromGraph6Stable fin noLimit debug str = some s ∧ G6V.graph6Stable s = some str) ∧
    (∃ s, G6V.fromGraph6GraphMap str = some s ∧ G6V.graph6GraphMap s = some str) ∧
    (∀ ixMax, n ≤ ixMax → ∃ s, G6V.fromGraph6Matrix ixMax str = some s ∧ G6V.graph6Matrix s = some str) ∧
    (∀ modulus cutoff debug, modulus = 0 ∨ n ≤ modulus →
      ∃ s, G6V.fromGraph6Csr modulus cutoff debug str = some s ∧ G6V.graph6Csr s = some str) := by
  intro str m
  have hd : G6.decode str = some (n, Spec.Graph6.edges n adj) := G6V.decode_valid n hn adj
  have hc : canonical n (Spec.Graph6.edges n adj) = str := G6V.canonical_valid n adj
  refine ⟨?_, ?_, ?_, ?_, ?_⟩
  · intro endv hfit
    obtain ⟨s, h1, _, _, h4⟩ := G6V.graph_from_to endv str n _ hd hfit
    exact ⟨s, h1, (h4 hn).trans (congrArg some hc)⟩
  · intro fin nl dbg hfit
    obtain ⟨s, h1, _, _, h4⟩ := G6V.stable_from_to fin nl dbg str n _ hd hfit
    exact ⟨s, h1, (h4 hn).trans (congrArg some hc)⟩
  · obtain ⟨s, h1, _, _, h4⟩ := G6V.graphMap_from_to str n _ hd
    exact ⟨s, h1, (h4 hn).trans (congrArg some hc)⟩
  · intro ixMax hfit
    obtain ⟨s, g, h1, _, _, _, h4⟩ := G6V.matrix_from_to ixMax str n _ hd hfit
    exact ⟨s, h1, (h4 hn).trans (congrArg some hc)⟩
  · intro md c dbg hfit
    obtain ⟨s, h1, _, _, _, h4⟩ := G6V.csr_from_to md c dbg str n _ hd hfit
    exact ⟨s, h1, (h4 hn).trans (congrArg some hc)⟩

/-- non-vacuity: the running example `DQc` (order 5, edges 0-2, 0-4, 1-3, 3-4) through `Graph<_, _, _, u8>` and back; with
an index type of four values the call panics -/
example : ∃ s, G6V.fromGraph6Graph 255 ['D', 'Q', 'c'] = some s ∧ G6V.graph6Graph s = some ['D', 'Q', 'c'] := by
  have e : (Spec.Graph6.graph6 5 adjEx).map Char.ofNat = ['D', 'Q', 'c'] := by decide
  have := (C18_string_roundtrip 5 (by decide) adjEx).1 255 (by decide)
  simp only [e] at this
  exact this

example : G6V.fromGraph6Graph 4 ['D', 'Q', 'c'] = none := by
  have hd : G6.decode ['D', 'Q', 'c'] = some (5, [(0, 2), (1, 3), (0, 4), (3, 4)]) := by
    rw [C18_decode_total]; decide
  exact ((C18_from_graph6_panics _).1 4).2 (Or.inr ⟨_, _, hd, by decide⟩)

/-- … and through `StableGraph<_, _, _, u16>`, `GraphMap`, `MatrixGraph<.., u16>` and `Csr<_, _, _, u32>` -/
example :
    (∃ s, G6V.fromGraph6Stable 65535 false true ['D', 'Q', 'c'] = some s ∧ G6V.graph6Stable s = some ['D', 'Q', 'c']) ∧
    (∃ s, G6V.fromGraph6GraphMap ['D', 'Q', 'c'] = some s ∧ G6V.graph6GraphMap s = some ['D', 'Q', 'c']) ∧
    (∃ s, G6V.fromGraph6Matrix 65535 ['D', 'Q', 'c'] = some s ∧ G6V.graph6Matrix s = some ['D', 'Q', 'c']) ∧
    (∃ s, G6V.fromGraph6Csr 4294967296 32 true ['D', 'Q', 'c'] = some s ∧ G6V.graph6Csr s = some ['D', 'Q', 'c']) := by
  have e : (Spec.Graph6.graph6 5 adjEx).map Char.ofNat = ['D', 'Q', 'c'] := by decide
  have h := C18_string_roundtrip 5 (by decide) adjEx
  simp only [e] at h
  exact ⟨h.2.1 65535 false true (by decide), h.2.2.1, h.2.2.2.1 65535 (by decide),
    h.2.2.2.2 4294967296 32 true (Or.inr (by decide))⟩

/-! ## wave 5 — `Dot` with arbitrary attribute-getter strings

`Dot::with_attr_getters` writes what the getters return VERBATIM (`C18_dot_lines`: `… label? attr "]\n"`); petgraph
neither escapes nor checks it.  The grammar consequence: the text is the expected DOT graph exactly as long as every
getter string is an `a_list` fragment (`Spec.Dot.attrFrag`); an arbitrary string can close the bracket and inject
statements. -/

/-- **`C18_dot_parse` for arbitrary getter strings**: for every graph, edge type, `Config` list, format spec, whatever the
weights print and whatever the getters return — as long as each returned string is an `a_list` fragment
(`( ID '=' (ID | "string") [;,] )*`, ending between tokens or in a name) — the DOT lexer and statement parser accept the
text, and its statements are exactly: the `rankdir` attribute if configured, one node statement per node reference, one
edge statement per edge reference with the connector of the edge type, each carrying its label (if any) followed by
exactly the attribute pairs of its getter string. -/
theorem C18_dot_parse_getters (configs : List Dot.Config) (f : Dot.Fmt) (g : Dot.GraphView) (h : DotP.GetterOK g) :
    let c := Dot.Configs.extract configs
    Spec.Dot.parse (Dot.dot configs f g) =
      some ⟨if c.GraphContentOnly then none else some g.directed,
        DotP.rankStmts c ++ g.nodes.map (DotP.nodeStmtOfG c f) ++
          (DotP.enumFrom 0 g.edges).map (DotP.edgeStmtOfG c f g.directed)⟩ :=
  DotP.dot_parse_getters (Dot.Configs.extract configs) f g h

/-- … and what such a statement is: ID(s) as in `C18_dot_ids`, attributes = label (as in `C18_dot_labels`) ++ the getter's
pairs; with empty getter strings these are the statements of `C18_dot_parse`. -/
theorem C18_dot_getter_stmts (c : Dot.Configs) (f : Dot.Fmt) (d : Bool) (n : Dot.NodeRef) (p : Nat × Dot.EdgeRef) :
    DotP.nodeStmtOfG c f n =
      .node (Dot.decimal n.index) (DotP.labelAttrs (DotP.nodeLabel c f n) ++ (Spec.Dot.attrFrag n.attr).getD []) ∧
    DotP.edgeStmtOfG c f d p =
      .edge (Dot.decimal p.2.source) d (Dot.decimal p.2.target)
        (DotP.labelAttrs (DotP.edgeLabel c f p.1 p.2) ++ (Spec.Dot.attrFrag p.2.attr).getD []) ∧
    (n.attr = [] → DotP.nodeStmtOfG c f n = DotP.nodeStmtOf c f n) ∧
    (p.2.attr = [] → DotP.edgeStmtOfG c f d p = DotP.edgeStmtOf c f d p) := by
  refine ⟨rfl, rfl, ?_, ?_⟩
  · intro h; simp [DotP.nodeStmtOfG, DotP.nodeStmtOf, h, DotP.attrFrag_nil]
  · intro h; simp [DotP.edgeStmtOfG, DotP.edgeStmtOf, h, DotP.attrFrag_nil]

/-- a graph whose getters return non-trivial fragments: quoted strings holding an escaped quote, a bracket, a raw line
break and non-ASCII text; separators; a name that ends the string -/
def exGetters : Dot.GraphView :=
  { directed := false
    nodes := [{ index := 0, weight := ⟨fun _ _ => ['"']⟩,
                attr := "tooltip=\"q\\\"uote ]\n9 [\" ; färbe=rot, w=1.5".toList },
              { index := 1, weight := ⟨fun _ _ => []⟩, attr := "color=red".toList }]
    edges := [{ source := 1, target := 0, weight := ⟨fun _ _ => ['\\']⟩, attr := "k=\"\" ".toList }] }

example : DotP.GetterOK exGetters := by
  constructor <;> intro x hx <;> simp [exGetters] at hx
  · rcases hx with rfl | rfl <;> decide
  · subst hx; decide

example : (Spec.Dot.parse (Dot.dot [] ⟨.display, false⟩ exGetters)).map (·.stmts.length) = some 3 := by
  rw [C18_dot_parse_getters _ _ _ (by
    constructor <;> intro x hx <;> simp [exGetters] at hx
    · rcases hx with rfl | rfl <;> decide
    · subst hx; decide)]
  rfl

/-- one node whose getter returns `] 9 [ ` -/
def exInjection : Dot.GraphView :=
  { directed := true, nodes := [{ index := 0, weight := ⟨fun _ _ => ['a']⟩, attr := "]\n    9 [ ".toList }], edges := [] }

/-- **without the condition the statement is false** (petgraph does not escape getter output): a getter string that is not
an `a_list` fragment can close the bracket and inject a statement — one node reference, two node statements. -/
theorem C18_dot_getter_injection_witness :
    Spec.Dot.attrFrag (exInjection.nodes.map (·.attr)).head! = none ∧
    exInjection.nodes.length = 1 ∧
    (Spec.Dot.parse (Dot.dot [] ⟨.display, false⟩ exInjection)).map (fun p => p.stmts.map fun s =>
        match s with | .node a _ => some a | _ => none) = some [some ['0'], some ['9']] := by
  decide

/-! ## wave 5 — the acceptance test of a `dot` line is sound

The driver accepts a `dot` line iff `C18.dotAcceptB`: the `iter` line (what `node_references()` / `edge_references()`
yield) lists exactly the graph of the `graph` line, every getter string is an `a_list` fragment, and the text equals the
printer model's text for that view.  The statement-comparison code (`C18.judgeDot`) no longer decides acceptance. -/

/-- **accepted ⇒ the text is the printer's image of that graph**, and hence a well-formed DOT text with exactly the
statements of that graph: the view lists exactly the (index, weight) pairs and the (source, target, weight) triples the
harness built (an undirected edge in either orientation), the text is `Dot.dot` of the view character for character, and
it parses to the header the edge type asks for and exactly the view's statements. -/
theorem C18_dot_accept_sound (W : C18.WTable) (directed : Bool) (tn : List (Nat × Nat)) (te : List (Nat × Nat × Nat))
    (itNodes : List (Nat × Nat × List Char)) (itEdges : List (Nat × Nat × Nat × List Char)) (withAttrs : Bool)
    (configs : List Dot.Config) (fmt : Dot.Fmt) (text : List Char)
    (h : C18.dotAcceptB W directed tn te itNodes itEdges withAttrs configs fmt text = true) :
    let g := C18.viewOf W directed itNodes itEdges withAttrs
    let c := Dot.Configs.extract configs
    (itNodes.map fun x => (x.1, x.2.1)).Perm tn ∧
    (itEdges.map fun x => C18.orient directed (x.1, x.2.1, x.2.2.1)).Perm (te.map (C18.orient directed)) ∧
    text = Dot.dot configs fmt g ∧
    Spec.Dot.parse text =
      some ⟨if c.GraphContentOnly then none else some directed,
        DotP.rankStmts c ++ g.nodes.map (DotP.nodeStmtOfG c fmt) ++
          (DotP.enumFrom 0 g.edges).map (DotP.edgeStmtOfG c fmt directed)⟩ := by
  intro g c
  unfold C18.dotAcceptB at h
  simp only [Bool.and_eq_true] at h
  obtain ⟨⟨⟨h1, h2⟩, h3⟩, h4⟩ := h
  have htext : text = Dot.dot configs fmt g := eq_of_beq h4
  have hget : DotP.GetterOK g := by
    unfold C18.getterOkB at h3
    simp only [Bool.and_eq_true, List.all_eq_true] at h3
    exact ⟨h3.1, h3.2⟩
  refine ⟨List.isPerm_iff.1 h1, List.isPerm_iff.1 h2, htext, ?_⟩
  rw [htext]
  exact C18_dot_parse_getters configs fmt g hget

/-- non-vacuity: an undirected graph whose edge `edge_references()` reports in the other orientation, a weight that prints a
quote, a getter string; the printer's text is accepted -/
example :
    C18.dotAcceptB #[#[some ['"'], some ['"']]] false [(0, 0), (2, 0)] [(0, 2, 0)]
      [(0, 0, "color=red".toList), (2, 0, [])] [(2, 0, 0, "k=\"]\" ".toList)] true [.EdgeNoLabel] ⟨.display, false⟩
      (Dot.dot [.EdgeNoLabel] ⟨.display, false⟩
        (C18.viewOf #[#[some ['"'], some ['"']]] false [(0, 0, "color=red".toList), (2, 0, [])]
          [(2, 0, 0, "k=\"]\" ".toList)] true)) = true := by
  decide

/-! ## run-time checks of the hypotheses

Every hypothesis of the theorems above that concerns the concrete case is an executable Boolean of
`Driver/C18Checks.lean` / `Driver/C18.lean` which the driver evaluates on every case it judges; a failing check is a
`SPECFAIL side condition …` (something the implementation must guarantee) or a `SPECFAIL generator left the proved
range …` (something only the generated input must respect). -/

/-- `orderOkB` ⇒ the order hypothesis of `C18_decode_encode`, `C18_graph6_of_bitmap`, `C18_header_matches_format`, … -/
theorem C18_order_check (n : Nat) (h : C18.orderOkB n = true) : n ≤ 258047 := by
  simpa [C18.orderOkB] using h

theorem strictlyAsc_pairwise (es : List (Nat × Nat)) (h : C18.strictlyAscB es = true) :
    es.Pairwise fun p q => C18.pairLt p q = true := by
  have trans : ∀ p q r : Nat × Nat, C18.pairLt p q = true → C18.pairLt q r = true → C18.pairLt p r = true := by
    intro p q r h1 h2
    simp only [C18.pairLt, Bool.or_eq_true, Bool.and_eq_true, decide_eq_true_eq, beq_iff_eq] at h1 h2 ⊢
    omega
  induction es with
  | nil => exact List.Pairwise.nil
  | cons p rest ih =>
    cases rest with
    | nil => exact List.pairwise_singleton _ _
    | cons q r =>
      simp only [C18.strictlyAscB, Bool.and_eq_true] at h
      have ih' := ih h.2
      refine List.Pairwise.cons ?_ ih'
      intro x hx
      rcases List.mem_cons.1 hx with rfl | hx
      · exact h.1
      · exact trans p q x h.1 ((List.pairwise_cons.1 ih').1 x hx)

/-- `truthSimpleB` ⇒ the `truth` line is a simple graph on `0..n`: pairs `a < b < n`, none twice (the quantifier of the
property: "for every simple undirected graph") -/
theorem C18_truth_simple_check (n : Nat) (es : List (Nat × Nat)) (h : C18.truthSimpleB n es = true) :
    (∀ e ∈ es, e.1 < e.2 ∧ e.2 < n) ∧ es.Nodup := by
  simp only [C18.truthSimpleB, Bool.and_eq_true, List.all_eq_true, decide_eq_true_eq] at h
  refine ⟨h.1, ?_⟩
  refine (strictlyAsc_pairwise es h.2).imp ?_
  intro p q hlt heq
  subst heq
  simp [C18.pairLt] at hlt

/-- the adjacency the judge derives from the `truth` line is symmetric (the hypothesis of `C18_roundtrip_adjacency`) -/
theorem C18_truth_adjacency_symmetric (a b : Nat) : C18.normPair a b = C18.normPair b a := by
  unfold C18.normPair
  by_cases h1 : a ≤ b <;> by_cases h2 : b ≤ a <;> simp [h1, h2]
  · have : a = b := by omega
    subst this; exact ⟨rfl, rfl⟩
  · omega

/-- `bitmapRangeB` ⇒ the hypotheses `hes`, `hix` of `C18_graph6_of_bitmap` / `C18_adjacency_matrix` -/
theorem C18_bitmap_range_check (w : Nat) (es : List (Nat × Nat)) (ix : List Nat) (h : C18.bitmapRangeB w es ix = true) :
    (∀ e ∈ es, e.1 < w ∧ e.2 < w) ∧ (∀ i ∈ ix, i < w) := by
  simpa [C18.bitmapRangeB, List.all_eq_true] using h

/-- `fitsB` ⇒ the capacity hypotheses `hfit` of `C18_from_graph6_*` and `C18_string_roundtrip`, for the parameters the
replay uses (`endv = fin = ixMax = 2^bits - 1`; `modulus = 2^bits`, `0` for `usize`) -/
theorem C18_fits_check (bits n m : Nat) :
    (C18.fitsB "graph" bits n m = true → n ≤ 2 ^ bits - 1 ∧ m ≤ 2 ^ bits - 1) ∧
    (C18.fitsB "stable" bits n m = true → n ≤ 2 ^ bits - 1 ∧ m ≤ 2 ^ bits - 1) ∧
    (C18.fitsB "matrix" bits n m = true → n ≤ 2 ^ bits - 1) ∧
    (C18.fitsB "csr" bits n m = true →
      (if bits == 64 then 0 else 2 ^ bits) = 0 ∨ n ≤ (if bits == 64 then 0 else 2 ^ bits)) := by
  refine ⟨?_, ?_, ?_, ?_⟩
  · intro h; simpa [C18.fitsB] using h
  · intro h; simpa [C18.fitsB] using h
  · intro h; simpa [C18.fitsB] using h
  · intro h
    simp only [C18.fitsB, Bool.or_eq_true, decide_eq_true_eq] at h
    by_cases hb : (bits == 64) = true
    · left; simp [hb]
    · right
      simp only [hb, Bool.false_eq_true, if_false]
      rcases h with h | h
      · exact absurd h hb
      · exact h

/-- `validB` ⇒ the string of a `dec` line is a valid graph6 string of a supported order (the hypothesis of
`C18_decode_valid` / `C18_string_roundtrip`): it is the format's encoding of the graph the decoder model answers -/
theorem C18_valid_check (s : List Char) (h : C18.validB s = true) :
    ∃ n adj, n ≤ 258047 ∧ s = (Spec.Graph6.graph6 n adj).map Char.ofNat := by
  unfold C18.validB at h
  split at h
  · cases h
  · next order es _ =>
    simp only [Bool.and_eq_true] at h
    exact ⟨order, _, C18_order_check order h.1, (eq_of_beq h.2).symm⟩

/-- `getterOkB` ⇒ `GetterOK`, the hypothesis of `C18_dot_parse_getters` -/
theorem C18_getter_check (g : Dot.GraphView) (h : C18.getterOkB g = true) : DotP.GetterOK g := by
  unfold C18.getterOkB at h
  simp only [Bool.and_eq_true, List.all_eq_true] at h
  exact ⟨h.1, h.2⟩

/-- with `attrs=0` the view has empty getter strings: the hypothesis `NoAttrs` of `C18_dot_parse` -/
theorem C18_noattrs_check (W : C18.WTable) (directed : Bool) (itNodes : List (Nat × Nat × List Char))
    (itEdges : List (Nat × Nat × Nat × List Char)) : DotP.NoAttrs (C18.viewOf W directed itNodes itEdges false) := by
  constructor <;> intro x hx <;> simp [C18.viewOf] at hx <;> obtain ⟨_, _, _, _, rfl⟩ := hx <;> rfl

/-- `nodesMatchB` / `edgesMatchB` ⇒ the trait iterators list exactly the graph the harness built -/
theorem C18_view_check (directed : Bool) (tn : List (Nat × Nat)) (te : List (Nat × Nat × Nat))
    (itNodes : List (Nat × Nat × List Char)) (itEdges : List (Nat × Nat × Nat × List Char))
    (h1 : C18.nodesMatchB itNodes tn = true) (h2 : C18.edgesMatchB directed itEdges te = true) :
    (itNodes.map fun x => (x.1, x.2.1)).Perm tn ∧
    (itEdges.map fun x => C18.orient directed (x.1, x.2.1, x.2.2.1)).Perm (te.map (C18.orient directed)) :=
  ⟨List.isPerm_iff.1 h1, List.isPerm_iff.1 h2⟩

/-- the checks are satisfiable by non-trivial inputs (and fail on the inputs they are there to exclude) -/
example : C18.truthSimpleB 5 [(0, 2), (1, 3), (0, 4), (3, 4)] = true ∧ C18.truthSimpleB 5 [(0, 4), (0, 2)] = false ∧
    C18.truthSimpleB 5 [(2, 2)] = false ∧ C18.bitmapRangeB 4 [(1, 3), (3, 2)] [1, 2, 3] = true ∧
    C18.bitmapRangeB 3 [(1, 3)] [1, 2, 3] = false ∧ C18.fitsB "graph" 8 22 231 = true ∧ C18.fitsB "graph" 8 24 276 = false ∧
    C18.getterOkB exGetters = true ∧ C18.getterOkB exInjection = false := by
  decide

end PetgraphModel.C18T
