import PetgraphModel.Proofs.C15Matching
import PetgraphModel.Proofs.C15Flow
import PetgraphModel.Proofs.C15Greedy
import PetgraphModel.Proofs.C15FlowModel
import PetgraphModel.Proofs.C15W2Hyp
import PetgraphModel.Proofs.C15W5Main
import PetgraphModel.Proofs.C15W5BarrierLabels
import PetgraphModel.Proofs.C15W5Acc
import PetgraphModel.Proofs.C15W5FlowB
import PetgraphModel.Proofs.C15W5Canon
/-
C15 — `maximum_matching` is maximum, `greedy_matching` valid, `ford_fulkerson` a maximum flow.

Part 1: soundness of every judge the driver applies to the implementation's answers, for ALL graphs
and ALL answers (the judges speak about the abstract `MGraph` only).
Part 2: theorems over the mirror models of `Model/C15Matching.lean` for all views (accessor
consistency, validity of `greedy_matching`).
Part 3: Gabow's `maximum_matching`: the original full statements as `_statement` (both false as written
for views with a stale index-map entry, see the `_false_witness` theorems), the validity clause proved
with the vacancy hypothesis added (`C15_maximum_valid`, wave 2, `Proofs/C15W2*.lean`), the earlier partial
results on the maximality clause (`C15_maximum_partial`, `C15_maximum_maximum_partial2`), and the D25
witness on the model.
Part 4: the maximality clause PROVED for undirected storage with the vacancy hypothesis added
(`C15_maximum_maximum`, wave 5, `Proofs/C15W5*.lean`), with the ladder it rests on: Berge's theorem,
failed roots stay failed, the Tutte–Berge bound with a sound certificate checker, completeness of one
search of Gabow's labelling.
Part 5: run-time checks of the hypotheses (every hypothesis of the model theorems has an executable form
that the driver evaluates on every case it judges, with a `_check` theorem), and the soundness of the
driver's complete matching judge: `judgeAccessors` (sound and complete), the barrier certificate found
by the untrusted `findBarrierFast`, the definitional maximum by the proved Gabow model on the canonical
view for graphs of any size, `judgeMaximum`, `judgeMatching`.
Part 2b (at the end of the file): the Edmonds–Karp mirror model of `Model/C15Flow.lean` returns a
feasible maximum flow and the capacity of a minimum cut, for all views and non-negative integer
capacities.
-/
namespace PetgraphModel.C15T
open PetgraphModel PetgraphModel.C15 PetgraphModel.C15M PetgraphModel.C15P

/-! ## Part 1 — verified checkers -/

/-- **matching judge**: a `mate` table accepted by `checkMate` is symmetric, a function (no node is
matched twice), every entry is joined by a non-loop edge (direction ignored), and its pairs form a
matching of the graph. -/
theorem C15_checkMate_sound (g : MGraph) (mate : List (Nat × Nat)) (h : checkMate g mate = true) :
    (∀ a b, (a, b) ∈ mate → (b, a) ∈ mate) ∧
    (∀ a b c, (a, b) ∈ mate → (a, c) ∈ mate → b = c) ∧
    (∀ a b, (a, b) ∈ mate → Joined g a b) ∧
    IsMatching g (pairsOf mate) := by
  have hv := checkMate_sound g mate h
  exact ⟨hv.symmetric, functional_of_nodup mate hv.functional, hv.joined, mateValid_isMatching g mate hv⟩

/-- the matching judge rejects no valid table (no false alarm) -/
theorem C15_checkMate_complete (g : MGraph) (mate : List (Nat × Nat)) (h : MateValid g mate) :
    checkMate g mate = true :=
  checkMate_complete g mate h

/-- **enumerator completeness**: no matching of `g` has more pairs than the exhaustive search finds -/
theorem C15_maxMatchingSize_upper (g : MGraph) (M : List (Nat × Nat)) (h : IsMatching g M) :
    M.length ≤ maxMatchingSize g :=
  maxMatchingSize_upper g M h

/-- the exhaustive-search number is attained by a matching of `g` -/
theorem C15_maxMatchingSize_attained (g : MGraph) :
    ∃ M, IsMatching g M ∧ M.length = maxMatchingSize g :=
  maxMatchingSize_attained g

/-- **maximum judge, sound**: an accepted table whose number of pairs equals `maxMatchingSize g`
is a maximum matching -/
theorem C15_maximum_judge_sound (g : MGraph) (mate : List (Nat × Nat)) (h : checkMate g mate = true)
    (hlen : (pairsOf mate).length = maxMatchingSize g) : IsMaximumMatching g (pairsOf mate) :=
  ⟨(C15_checkMate_sound g mate h).2.2.2, fun M' hM' => hlen ▸ maxMatchingSize_upper g M' hM'⟩

/-- **maximum judge, complete**: every maximum matching has exactly `maxMatchingSize g` pairs, so
the judge never rejects a correct answer and always rejects a smaller one -/
theorem C15_maximum_judge_complete (g : MGraph) (M : List (Nat × Nat)) (h : IsMaximumMatching g M) :
    M.length = maxMatchingSize g := by
  obtain ⟨M', hM', hl⟩ := maxMatchingSize_attained g
  have h1 := h.2 M' hM'
  have h2 := maxMatchingSize_upper g M h.1
  omega

/-- **flow judge**: an accepted `(flows, value)` is a feasible flow (capacities respected,
conservation at every node other than `s`, `t`), the value is the net flow out of `s`, it equals the
capacity of an `s`-`t` cut, no `s`-`t` cut has a smaller capacity (so it is the capacity of a
minimum cut) and no feasible flow has a larger value (so the flow is maximum). -/
theorem C15_flow_judge_sound (g : MGraph) (s t : Nat) (fl : List (Nat × Int)) (v : Int)
    (h : judgeFlow g s t fl v = none) :
    s ≠ t ∧ Feasible g s t (flowFn fl) ∧ v = excess g (flowFn fl) s ∧
    (∃ S : List Nat, S.Nodup ∧ IsCut s t S ∧ cutCap g S = v) ∧
    (∀ S : List Nat, IsCut s t S → v ≤ cutCap g S) ∧
    (∀ f' : Nat → Int, Feasible g s t f' → excess g f' s ≤ v) := by
  have c := judgeFlow_sound g s t fl v h
  exact ⟨c.distinct, c.feasible, c.value, c.cut, c.minCut, c.maxFlow⟩

/-- weak duality on its own: any feasible flow is bounded by any cut -/
theorem C15_weak_duality (g : MGraph) (s t : Nat) (f : Nat → Int) (S : List Nat)
    (hf : Feasible g s t f) (hS : IsCut s t S) : excess g f s ≤ cutCap g S :=
  value_le_cut' g s t f S hf hS.1 hS.2

/-! ## Part 2 — the mirror models, for every view -/

/-- the driver's per-case checks establish the hypotheses of the model theorems -/
theorem C15_view_checks_sound (v : View) (h1 : ixOkB v = true) (h2 : viewSoundB v = true)
    (h3 : wfB v.g = true) : IxOk v ∧ ViewSound v ∧ v.g.WellFormed :=
  ⟨ixOkB_sound v h1, viewSoundB_sound v h2, wfB_sound v.g h3⟩

/-- **accessor consistency**: for a well-formed `Matching` (symmetric irreflexive `mate` vector with
entries at live indices only, `n_edges` = half the number of entries) `nodes()`, `edges()`, `len()`,
`contains_node`, `contains_edge`, `is_perfect()`, `is_empty()` are the functions of `mate` the
documentation says. -/
theorem C15_matching_accessors (v : View) (hix : IxOk v) (m : Matching) (hm : MWF v m) :
    (∀ a, a ∈ m.nodes v ↔ a ∈ v.g.nodes ∧ (m.mateOf v a).isSome = true) ∧
    (∀ a b, (a, b) ∈ m.edges v ↔ a ∈ v.g.nodes ∧ m.mateOf v a = some b ∧ v.toIndex a < v.toIndex b) ∧
    (∀ a ∈ v.g.nodes, ∀ b, m.mateOf v a = some b → (a, b) ∈ m.edges v ∨ (b, a) ∈ m.edges v) ∧
    m.len = (m.edges v).length ∧
    2 * m.len = (v.g.nodes.filter fun a => m.containsNode v a).length ∧
    (∀ a, m.containsNode v a = (m.mateOf v a).isSome) ∧
    (∀ a b, m.containsEdge v a b = true ↔ m.mateOf v a = some b) ∧
    (m.isPerfect v = true ↔ ∀ a ∈ v.g.nodes, m.containsNode v a = true) ∧
    (m.isEmpty = true ↔ m.edges v = []) := by
  refine ⟨mem_nodes v hix m hm, mem_edges v hix m hm, fun a ha b hb => edges_complete v hix m hm a b ha hb, hm.cntE, hm.cntN,
    fun _ => rfl, ?_, isPerfect_iff v m hm, ?_⟩
  · intro a b
    unfold Matching.containsEdge
    cases m.mateOf v a with
    | none => simp
    | some x => simp
  · unfold Matching.isEmpty Matching.len
    rw [hm.cntE]
    simp [List.length_eq_zero_iff]

/-- **`greedy_matching` is valid** (model, all views): no out-of-bounds access, the resulting
`Matching` is well formed (so all accessors agree with `mate`), `mate` is symmetric, nobody is
matched twice, every matched pair is joined by a non-loop edge (direction ignored). -/
theorem C15_greedy_valid (v : View) (hix : IxOk v) (hwf : v.g.WellFormed) (hs : ViewSound v) :
    (greedyInner v).fault = false ∧ MWF v (greedyInner v) ∧
    MateValid v.g (mateTable v (greedyInner v)) ∧
    IsMatching v.g (pairsOf (mateTable v (greedyInner v))) := by
  have h := greedy_valid v hix hwf hs
  exact ⟨h.1.nofault, h.1, h.2, mateValid_isMatching _ _ h.2⟩

/-- the same from the driver's executable per-case checks -/
theorem C15_greedy_valid_checked (v : View) (h1 : ixOkB v = true) (h2 : viewSoundB v = true)
    (h3 : wfB v.g = true) :
    (greedyInner v).fault = false ∧ IsMatching v.g (pairsOf (mateTable v (greedyInner v))) :=
  let h := C15_greedy_valid v (ixOkB_sound v h1) (wfB_sound v.g h3) (viewSoundB_sound v h2)
  ⟨h.1, h.2.2.2⟩

/-- the greedy result never exceeds the definitional maximum -/
theorem C15_greedy_le_maximum (v : View) (hix : IxOk v) (hwf : v.g.WellFormed) (hs : ViewSound v) :
    (pairsOf (mateTable v (greedyInner v))).length ≤ maxMatchingSize v.g :=
  maxMatchingSize_upper _ _ (C15_greedy_valid v hix hwf hs).2.2.2

/-- a triangle with a pendant node, encoded with a vacancy at index 1: the hypotheses hold and the
greedy model matches two pairs -/
def exampleView : View :=
  { g := { directed := false, nodes := [0, 1, 2, 3],
           edges := [⟨0, 0, 1, 1⟩, ⟨1, 1, 2, 1⟩, ⟨2, 2, 0, 1⟩, ⟨3, 2, 3, 1⟩] },
    nb := 5, ix := [(0, 0), (1, 2), (2, 3), (3, 4)],
    out := [(0, [(1, 0), (2, 2)]), (1, [(0, 0), (2, 1)]), (2, [(1, 1), (0, 2), (3, 3)]), (3, [(2, 3)])],
    inn := [(0, [(1, 0), (2, 2)]), (1, [(0, 0), (2, 1)]), (2, [(1, 1), (0, 2), (3, 3)]), (3, [(2, 3)])] }

example : ixOkB exampleView = true ∧ viewSoundB exampleView = true ∧ wfB exampleView.g = true ∧
    (greedyInner exampleView).nEdges = 2 ∧ maxMatchingSize exampleView.g = 2 := by decide

/-! ## Part 3 — judged per run, not proved for all inputs -/

/-- the view lists, for every node, exactly its incident edges with their true other endpoint
(what the maximum-matching and flow models need in addition to `ViewSound`) -/
structure ViewExact (v : View) : Prop where
  ids : (v.g.edges.map (·.id)).Nodup
  out_sound : ∀ a b eid, (b, eid) ∈ v.outOf a → ∃ e ∈ v.g.edges, e.id = eid ∧
    ((e.src = a ∧ e.tgt = b) ∨ (v.g.directed = false ∧ e.src = b ∧ e.tgt = a))
  out_complete : ∀ e ∈ v.g.edges, (e.tgt, e.id) ∈ v.outOf e.src ∧
    (v.g.directed = false → (e.src, e.id) ∈ v.outOf e.tgt)
  inn_sound : ∀ a b eid, (b, eid) ∈ v.innOf a → ∃ e ∈ v.g.edges, e.id = eid ∧
    ((e.src = b ∧ e.tgt = a) ∨ (v.g.directed = false ∧ e.src = a ∧ e.tgt = b))
  inn_complete : ∀ e ∈ v.g.edges, (e.src, e.id) ∈ v.innOf e.tgt

/-- `maximum_matching` (Gabow) returns a valid matching: full statement (not proved; the model is
compared exactly with /repo and its answers are judged by `checkMate` on every run) -/
def C15_maximum_valid_statement : Prop :=
  ∀ (v : View) (mode : Nat), IxOk v → v.g.WellFormed → ViewExact v →
    (maximumMatching v mode).fault = false ∧ MWF v (maximumMatching v mode) ∧
    MateValid v.g (mateTable v (maximumMatching v mode))

/-- the executable form of `ViewExact` is sound -/
theorem viewExactB_sound (v : View) (h : C15W2.viewExactB v = true) : ViewExact v := by
  unfold C15W2.viewExactB at h
  simp only [Bool.and_eq_true] at h
  obtain ⟨⟨⟨⟨h1, h2⟩, h3⟩, h4⟩, h5⟩ := h
  refine ⟨nodupB_nodup _ h1, ?_, ?_, ?_, ?_⟩
  · intro a b eid hb
    unfold View.outOf at hb
    cases hl : v.out.lookup a with
    | none => simp [hl] at hb
    | some row =>
      simp only [hl, Option.getD_some] at hb
      have hmem := mem_of_lookup v.out a row hl
      have := List.all_eq_true.mp (List.all_eq_true.mp h2 (a, row) hmem) (b, eid) hb
      obtain ⟨e, he, hp⟩ := List.any_eq_true.mp this
      simp only [Bool.and_eq_true, beq_iff_eq, Bool.or_eq_true, Bool.not_eq_true'] at hp
      refine ⟨e, he, hp.1, ?_⟩
      rcases hp.2 with hh | hh
      · exact Or.inl hh
      · exact Or.inr ⟨hh.1.1, hh.1.2, hh.2⟩
  · intro e he
    have := List.all_eq_true.mp h3 e he
    simp only [Bool.and_eq_true, List.contains_eq_mem, decide_eq_true_eq, Bool.or_eq_true] at this
    refine ⟨this.1, fun hd => ?_⟩
    rcases this.2 with hh | hh
    · rw [hd] at hh; cases hh
    · exact hh
  · intro a b eid hb
    unfold View.innOf at hb
    cases hl : v.inn.lookup a with
    | none => simp [hl] at hb
    | some row =>
      simp only [hl, Option.getD_some] at hb
      have hmem := mem_of_lookup v.inn a row hl
      have := List.all_eq_true.mp (List.all_eq_true.mp h4 (a, row) hmem) (b, eid) hb
      obtain ⟨e, he, hp⟩ := List.any_eq_true.mp this
      simp only [Bool.and_eq_true, beq_iff_eq, Bool.or_eq_true, Bool.not_eq_true'] at hp
      refine ⟨e, he, hp.1, ?_⟩
      rcases hp.2 with hh | hh
      · exact Or.inl hh
      · exact Or.inr ⟨hh.1.1, hh.1.2, hh.2⟩
  · intro e he
    have := List.all_eq_true.mp h5 e he
    simpa using this

/-- **`maximum_matching` (the Gabow mirror model) returns a valid matching**, for every view whose
index map is injective, whose neighbour rows are exact, and where `from_index` of a vacant index is
not a live node (`VacOk`; for `StableGraph` the vacant index names a node without edges): no fault
(no out-of-bounds access, no `unwrap` of `None`, no unexpected label; `find_join` and `augment_path`
end within their fuel), the resulting `Matching` is well formed (so all accessors agree with `mate`),
`mate` is symmetric, nobody is matched twice, every matched pair is joined by a non-loop edge.

This is `C15_maximum_valid_statement` with the additional hypothesis `VacOk`, without which the
statement is false for the model (`C15_maximum_valid_statement_false_witness`).  The proof keeps
Gabow's labelling invariant (every outer vertex has a simple alternating path to the start vertex
that the labels describe, `first_inner` names the first non-outer vertex of every such path) through
the vertex labelling and `find_join`, and shows that `augment_path` re-matches exactly such a path. -/
theorem C15_maximum_valid (v : View) (mode : Nat) (hix : IxOk v) (hwf : v.g.WellFormed)
    (hex : ViewExact v) (hvac : C15W2.VacOk v) :
    (maximumMatching v mode).fault = false ∧ MWF v (maximumMatching v mode) ∧
    MateValid v.g (mateTable v (maximumMatching v mode)) := by
  have hv : C15W2.VHyp v mode := C15W2.VHyp.of_exact v mode hix hwf hex.ids hex.out_sound hvac
  have hs : ViewSound v := by
    intro a b hb
    unfold View.succ at hb
    obtain ⟨p, hp, rfl⟩ := List.mem_map.mp hb
    obtain ⟨e, he, _, hh⟩ := hex.out_sound a p.1 p.2 hp
    exact ⟨e, he, hh⟩
  have h := C15W2.maximumMatching_valid v mode hv hs hwf
  exact ⟨h.1, h.2.1, h.2.2.1⟩

/-- the same from executable checks of the hypotheses -/
theorem C15_maximum_valid_checked (v : View) (mode : Nat) (h1 : ixOkB v = true) (h2 : wfB v.g = true)
    (h3 : C15W2.viewExactB v = true) (h4 : C15W2.vacOkB v = true) :
    (maximumMatching v mode).fault = false ∧
    IsMatching v.g (pairsOf (mateTable v (maximumMatching v mode))) ∧
    (pairsOf (mateTable v (maximumMatching v mode))).length ≤ maxMatchingSize v.g := by
  have h := C15_maximum_valid v mode (ixOkB_sound v h1) (wfB_sound v.g h2) (viewExactB_sound v h3)
    (C15W2.vacOkB_sound v h4)
  have hm := mateValid_isMatching _ _ h.2.2
  exact ⟨h.1, hm, maxMatchingSize_upper _ _ hm⟩

/-- the hypotheses of `C15_maximum_valid` hold for the example view (a vacancy at index 1) -/
example : ixOkB exampleView = true ∧ wfB exampleView.g = true ∧ C15W2.viewExactB exampleView = true ∧
    C15W2.vacOkB exampleView = true := by decide

/-- a view with a stale entry in its index map: `from_index 3` is the live node `0` although the
index of node `0` is `0` (no petgraph graph type behaves like this) -/
def staleIxView : View :=
  { g := { directed := false, nodes := [0, 1, 2],
           edges := [⟨0, 0, 1, 1⟩, ⟨1, 0, 2, 1⟩] },
    nb := 4, ix := [(0, 0), (1, 1), (2, 2), (0, 3)],
    out := [(0, [(1, 0), (2, 1)]), (1, [(0, 0)]), (2, [(0, 1)])],
    inn := [(0, [(1, 0), (2, 1)]), (1, [(0, 0)]), (2, [(0, 1)])] }

/-- **`C15_maximum_valid_statement` is false as written** (smallest witness: 3 nodes, 2 edges): for
`staleIxView` all its hypotheses hold, but the search "from the vacant index 3" starts at the matched
node `0`, finds the free neighbour `2`, and `augment_path` hits a vertex without a label (a panic in
the Rust code, `fault` in the model).  The missing hypothesis is `VacOk`. -/
theorem C15_maximum_valid_statement_false_witness : ¬ C15_maximum_valid_statement := by
  intro h
  have h1 : ixOkB staleIxView = true := by decide
  have h2 : wfB staleIxView.g = true := by decide
  have h3 : C15W2.viewExactB staleIxView = true := by decide
  have := (h staleIxView 0 (ixOkB_sound _ h1) (wfB_sound _ h2) (viewExactB_sound _ h3)).1
  have hf : (maximumMatching staleIxView 0).fault = true := by decide +kernel
  rw [hf] at this
  cases this

/-- `maximum_matching` returns a maximum matching on undirected storage: full statement as first
written.  It is false as written (`C15_maximum_maximum_statement_false_witness`: a view with a stale
index-map entry); with the hypothesis `VacOk` added it is PROVED: `C15_maximum_maximum` (Part 4).
On directed storage the statement is false for the code as it stands (open finding D25). -/
def C15_maximum_maximum_statement : Prop :=
  ∀ (v : View) (mode : Nat), IxOk v → v.g.WellFormed → ViewExact v → v.g.directed = false →
    IsMaximumMatching v.g (pairsOf (mateTable v (maximumMatching v mode)))

/-- proved part: the model starts from a valid greedy matching, and whenever its result is a valid
table its size is bounded by the definitional maximum; equality is what the per-run judge checks -/
theorem C15_maximum_partial (v : View) (mode : Nat) (hix : IxOk v) (hwf : v.g.WellFormed)
    (hs : ViewSound v) :
    IsMatching v.g (pairsOf (mateTable v (greedyInner v))) ∧
    (MateValid v.g (mateTable v (maximumMatching v mode)) →
      (pairsOf (mateTable v (maximumMatching v mode))).length ≤ maxMatchingSize v.g ∧
      ((pairsOf (mateTable v (maximumMatching v mode))).length = maxMatchingSize v.g →
        IsMaximumMatching v.g (pairsOf (mateTable v (maximumMatching v mode))))) := by
  refine ⟨(C15_greedy_valid v hix hwf hs).2.2.2, fun hv => ?_⟩
  have hm := mateValid_isMatching _ _ hv
  exact ⟨maxMatchingSize_upper _ _ hm, fun hl => ⟨hm, fun M' hM' => hl ▸ maxMatchingSize_upper _ M' hM'⟩⟩

/-- another view with a stale entry in its index map (`from_index 4` is the live node `2`): the path
`0 - 2 - 1` and an isolated node -/
def staleIxView2 : View :=
  { g := { directed := false, nodes := [0, 1, 2, 3],
           edges := [⟨0, 0, 2, 1⟩, ⟨1, 1, 2, 1⟩] },
    nb := 5, ix := [(0, 0), (1, 1), (2, 2), (3, 3), (2, 4)],
    out := [(0, [(2, 0)]), (1, [(2, 1)]), (2, [(0, 0), (1, 1)]), (3, [])],
    inn := [(0, [(2, 0)]), (1, [(2, 1)]), (2, [(0, 0), (1, 1)]), (3, [])] }

/-- **`C15_maximum_maximum_statement` is false as written**, for the same reason as
`C15_maximum_valid_statement`: on `staleIxView2` (undirected, all hypotheses hold) the search "from the
vacant index 4" starts at the matched node `2` and matches the free node `1` to it as well, so the
returned pairs `0-2`, `1-2` are not a matching.  With `VacOk` added the validity part is
`C15_maximum_valid` and the maximality part is `C15_maximum_maximum` (Part 4). -/
theorem C15_maximum_maximum_statement_false_witness : ¬ C15_maximum_maximum_statement := by
  intro h
  have h1 : ixOkB staleIxView2 = true := by decide
  have h2 : wfB staleIxView2.g = true := by decide
  have h3 : C15W2.viewExactB staleIxView2 = true := by decide
  have hp := (h staleIxView2 0 (ixOkB_sound _ h1) (wfB_sound _ h2) (viewExactB_sound _ h3) rfl).1.2
  have e : pairsOf (mateTable staleIxView2 (maximumMatching staleIxView2 0)) = [(0, 2), (1, 2)] := by
    decide +kernel
  rw [e] at hp
  simp [Disjoint2] at hp

/-- proved part of the maximality clause, now without any assumption on the result (for every view
satisfying the hypotheses of `C15_maximum_valid`, directed or not): the pairs returned by the Gabow
mirror model form a matching of the graph, their number is `len()`, it is at least the number of pairs
of the greedy matching the search starts from (every search either leaves `mate` alone or adds one
edge), at most the definitional maximum, and the result is a maximum matching exactly if the per-run
judge `len = maxMatchingSize` accepts.
What was still missing here for undirected storage — that a search which ends without an augmentation
certifies that no augmenting path starts at its start vertex (completeness of Gabow's labelling: every
edge out of an outer vertex has been scanned and leads to an outer vertex or to the mate of one, the
blossoms are odd and closed), that this survives later augmentations, and Berge's theorem — is
formalised in wave 5: `C15_search_complete`, `C15_failed_roots_stay_failed`, `C15_berge`, and the
composition `C15_maximum_maximum` (Part 4). -/
theorem C15_maximum_maximum_partial2 (v : View) (mode : Nat) (hix : IxOk v) (hwf : v.g.WellFormed)
    (hex : ViewExact v) (hvac : C15W2.VacOk v) :
    IsMatching v.g (pairsOf (mateTable v (maximumMatching v mode))) ∧
    (pairsOf (mateTable v (maximumMatching v mode))).length = (maximumMatching v mode).len ∧
    (pairsOf (mateTable v (greedyInner v))).length ≤ (pairsOf (mateTable v (maximumMatching v mode))).length ∧
    (pairsOf (mateTable v (maximumMatching v mode))).length ≤ maxMatchingSize v.g ∧
    ((pairsOf (mateTable v (maximumMatching v mode))).length = maxMatchingSize v.g ↔
      IsMaximumMatching v.g (pairsOf (mateTable v (maximumMatching v mode)))) := by
  have hv : C15W2.VHyp v mode := C15W2.VHyp.of_exact v mode hix hwf hex.ids hex.out_sound hvac
  have hs : ViewSound v := by
    intro a b hb
    unfold View.succ at hb
    obtain ⟨p, hp, rfl⟩ := List.mem_map.mp hb
    obtain ⟨e, he, _, hh⟩ := hex.out_sound a p.1 p.2 hp
    exact ⟨e, he, hh⟩
  obtain ⟨_, hmw, hmv, hmono⟩ := C15W2.maximumMatching_valid v mode hv hs hwf
  have hm := mateValid_isMatching _ _ hmv
  have hg := (greedy_valid v hix hwf hs).1
  have e1 := C15W2.pairs_length v hwf.1 _ hmw
  have e2 := C15W2.pairs_length v hwf.1 _ hg
  refine ⟨hm, e1, by rw [e1, e2]; exact hmono, maxMatchingSize_upper _ _ hm, ?_, ?_⟩
  · intro hl
    exact ⟨hm, fun M' hM' => hl ▸ maxMatchingSize_upper _ M' hM'⟩
  · intro h
    exact C15_maximum_judge_complete _ _ h

/-- the witness of open finding D25: the digraph `u→s, u→v, v→t` in `Graph`'s iteration order -/
def d25View : View :=
  { g := { directed := true, nodes := [0, 1, 2, 3],
           edges := [⟨0, 0, 1, 1⟩, ⟨1, 0, 2, 1⟩, ⟨2, 2, 3, 1⟩] },
    nb := 4, ix := [(0, 0), (1, 1), (2, 2), (3, 3)],
    out := [(0, [(2, 1), (1, 0)]), (1, []), (2, [(3, 2)]), (3, [])],
    inn := [(0, []), (1, [(0, 0)]), (2, [(0, 1)]), (3, [(2, 2)])] }

/-- **D25 on the model**: on directed storage the mirrored `maximum_matching` (which, like the code,
follows out-edges only) returns a valid matching with one pair although two are possible when the
direction is ignored; so `C15_maximum_maximum_statement` cannot drop `directed = false` for the code
as it stands. -/
theorem C15_maximum_directed_counterexample :
    ixOkB d25View = true ∧ viewSoundB d25View = true ∧ wfB d25View.g = true ∧
    checkMate d25View.g (mateTable d25View (maximumMatching d25View 0)) = true ∧
    (pairsOf (mateTable d25View (maximumMatching d25View 0))).length = 1 ∧
    maxMatchingSize d25View.g = 2 := by decide +kernel

/-! ## Part 4 — maximality of `maximum_matching` (wave 5, `Proofs/C15W5*.lean`)

The ladder: Berge's theorem (R1), failed roots stay failed (R2), the easy direction of the Tutte–Berge
formula with a proved-sound certificate checker (R3), completeness of one search of the Gabow mirror
model (R4), and the composition (R5): on undirected storage the model returns a maximum matching. -/

open PetgraphModel.C15W5 in
/-- **R1, Berge's theorem** (matchings as lists of node pairs of an `MGraph`, direction ignored): a
matching is maximum iff it has no augmenting path (`AugPath`: a simple path with at least one edge whose
edges are alternately outside and inside `M`, starting outside, both end nodes not covered by `M`). -/
theorem C15_berge (g : MGraph) (M : List (Nat × Nat)) (hM : IsMatching g M) :
    IsMaximumMatching g M ↔ ∀ p, ¬ AugPath g M p :=
  berge g M hM

open PetgraphModel.C15W5 in
/-- R1, the constructive half: flipping an augmenting path gives a matching with one more pair that covers
everything `M` covers and both ends of the path -/
theorem C15_augment_exists (g : MGraph) (M : List (Nat × Nat)) (p : List Nat) (hM : IsMatching g M)
    (hp : AugPath g M p) :
    ∃ N, IsMatching g N ∧ N.length = M.length + 1 ∧ (∀ a, Covered M a → Covered N a) ∧
      (∀ a, p.head? = some a → Covered N a) ∧ (∀ a, p.getLast? = some a → Covered N a) :=
  augment_exists g M p hM hp

open PetgraphModel.C15W5 in
/-- R1, the hard half: a larger matching yields an augmenting path -/
theorem C15_augPath_of_larger (g : MGraph) (M N : List (Nat × Nat)) (hM : IsMatching g M) (hN : IsMatching g N)
    (hlt : M.length < N.length) : ∃ p, AugPath g M p :=
  augPath_of_larger g M N hM hN hlt

open PetgraphModel.C15W5 in
/-- **R2, failed roots stay failed** (what justifies one search per free vertex): if no `M`-augmenting
path starts at `u` and `M'` is a matching that covers every node `M` covers — in particular `M'` = `M`
flipped along ANY `M`-augmenting path (`C15_augment_exists`; such a path cannot pass through `u`) — then
no `M'`-augmenting path starts at `u`. -/
theorem C15_failed_roots_stay_failed (g : MGraph) (M M' : List (Nat × Nat)) (hM : IsMatching g M)
    (hM' : IsMatching g M') (hcov : ∀ a, Covered M a → Covered M' a) (u : Nat) (hu : NoAugFrom g M u) :
    NoAugFrom g M' u :=
  noAugFrom_persist g M M' hM hM' hcov u hu

open PetgraphModel.C15W5 in
/-- for a free node, "no augmenting path starts at `u`" and "no matching covers `u` together with
everything `M` covers" are the same -/
theorem C15_noAugFrom_iff_noExt (g : MGraph) (M : List (Nat × Nat)) (hM : IsMatching g M) (u : Nat)
    (hu : ¬ Covered M u) : NoAugFrom g M u ↔ NoExt g M u :=
  noAugFrom_iff_noExt g M hM u hu

open PetgraphModel.C15W5 in
/-- **R3, Tutte–Berge, easy direction** ("blocks" form): if the nodes outside `A` are labelled so that no
non-loop edge joins two of them with different labels (e.g. by connected component of `G − A`), then for
every matching `N`: `2|N| + #(listed odd classes) ≤ |V| + |A|`. -/
theorem C15_tutte_berge_easy (g : MGraph) (hwf : g.WellFormed) (N : List (Nat × Nat)) (hN : IsMatching g N)
    (A : List Nat) (hA : A.Nodup) (hAsub : ∀ a ∈ A, a ∈ g.nodes) (lab : Nat → Nat)
    (hlab : ∀ a b, Joined g a b → a ∉ A → b ∉ A → lab a = lab b)
    (labels : List Nat) (hlabels : labels.Nodup)
    (hodd : ∀ ℓ ∈ labels, (g.nodes.filter fun x => decide (x ∉ A) && lab x == ℓ).length % 2 = 1) :
    2 * N.length + labels.length ≤ g.nodes.length + A.length :=
  tutte_berge_easy g hwf N hN A hA hAsub lab hlab labels hlabels hodd

/-- **R3, the certificate checker is sound**: `checkBarrier g M A` (executable, `Oracle/C15Barrier.lean`:
`g` well formed, `M` a matching, `A` a duplicate-free set of nodes, a re-verified labelling of `G − A`, and
`|V| + |A| ≤ 2|M| + #odd classes`) accepts only maximum matchings, and then `|M| = maxMatchingSize g`. -/
theorem C15_checkBarrier_sound (g : MGraph) (M : List (Nat × Nat)) (A : List Nat)
    (h : checkBarrier g M A = true) : IsMaximumMatching g M ∧ M.length = maxMatchingSize g :=
  ⟨C15W5.checkBarrier_sound g M A h, C15W5.checkBarrier_size g M A h⟩

/-- the star `K_{1,3}` -/
def starGraph : MGraph :=
  { directed := false, nodes := [0, 1, 2, 3], edges := [⟨0, 0, 1, 1⟩, ⟨1, 0, 2, 1⟩, ⟨2, 0, 3, 1⟩] }

/-- the centre of the star is a barrier for a one-pair matching, the empty set is not; a non-maximum
matching of a path has no barrier -/
example : checkBarrier starGraph [(0, 1)] [0] = true ∧ checkBarrier starGraph [(0, 1)] [] = false := by decide

/-- on undirected storage the exact rows are complete: joined nodes appear in each other's row -/
theorem viewExact_comp (v : View) (hex : ViewExact v) (hund : v.g.directed = false) : C15W5.VComp v := by
  refine ⟨?_⟩
  intro a b hJ
  obtain ⟨_, e, he, hh⟩ := hJ
  obtain ⟨h1, h2⟩ := hex.out_complete e he
  rcases hh with ⟨e1, e2⟩ | ⟨e1, e2⟩
  · exact ⟨e.id, by rw [← e1, ← e2]; exact h1⟩
  · exact ⟨e.id, by rw [← e1, ← e2]; exact h2 hund⟩

theorem viewExact_sound (v : View) (hex : ViewExact v) : ViewSound v := by
  intro a b hb
  unfold View.succ at hb
  obtain ⟨p, hp, rfl⟩ := List.mem_map.mp hb
  obtain ⟨e, he, _, hh⟩ := hex.out_sound a p.1 p.2 hp
  exact ⟨e, he, hh⟩

open PetgraphModel.C15W5 in
/-- **R4, completeness of one search** (the Gabow mirror model, blossoms included; undirected storage):
let `s` be a state between two searches (`BInv`: no fault, `mate` a valid matching with `n` pairs, all
labels `None`) and `u` a live node whose `mate` entry is `None`.  After `gabowSearch` from the index of `u`
either `u` is matched, or `mate` is unchanged and NO AUGMENTING PATH with respect to the matching that
`mate` stands for starts at `u`.
Proof: at the end of a search without augmentation the queue is empty within the fuel `node_bound + 2`,
every outer vertex has been scanned, every neighbour of an outer vertex is outer with the same
`first_inner` entry or is non-outer with an outer mate; the classes of `first_inner` (the blossoms) of the
dummy entry and of every such non-outer vertex are odd, so they form a Tutte–Berge barrier for the start
vertex (`Proofs/C15W5Cert.lean`, `failed_noExt`). -/
theorem C15_search_complete (v : View) (mode : Nat) (hix : IxOk v) (hwf : v.g.WellFormed) (hex : ViewExact v)
    (hvac : C15W2.VacOk v) (hund : v.g.directed = false) (s : GS) (n : Nat) (hB : C15W2.BInv v s n)
    (u : Nat) (hu : u ∈ v.g.nodes) (hfree : getM s.mate (v.toIndex u) = none) :
    (getM (gabowSearch v mode (v.toIndex u) s n).1.mate (v.toIndex u)).isSome = true ∨
    ((gabowSearch v mode (v.toIndex u) s n).1.mate = s.mate ∧
      NoAugFrom v.g (pairsOf (mateTable v (matchingOf v s n))) u) :=
  gabowSearch_noAug v mode (C15W2.VHyp.of_exact v mode hix hwf hex.ids hex.out_sound hvac)
    (viewExact_comp v hex hund) s n hB (v.toIndex u) (hix.lt u hu) hfree u hu rfl

/-- **R5, `maximum_matching` (the Gabow mirror model) returns a MAXIMUM matching on undirected storage**:
`C15_maximum_maximum_statement` with the hypothesis `VacOk` added (without it the statement is false,
`C15_maximum_maximum_statement_false_witness`; on directed storage it is false for the code as it stands,
`C15_maximum_directed_counterexample`, finding D25).  For every `mode` of comparing edge ids.
Proof: every search either augments — no `mate` entry is cleared and the start vertex gets matched — or
certifies that its start vertex cannot be matched in addition to the vertices matched so far
(`C15_search_complete`); the certificate survives later augmentations because the covered set only
grows (`C15_failed_roots_stay_failed`); at the end every free node carries a certificate and Berge's
theorem (`C15_berge`) makes the matching maximum. -/
theorem C15_maximum_maximum (v : View) (mode : Nat) (hix : IxOk v) (hwf : v.g.WellFormed) (hex : ViewExact v)
    (hvac : C15W2.VacOk v) (hund : v.g.directed = false) :
    IsMaximumMatching v.g (pairsOf (mateTable v (maximumMatching v mode))) :=
  C15W5.maximumMatching_maximum v mode (C15W2.VHyp.of_exact v mode hix hwf hex.ids hex.out_sound hvac)
    (viewExact_sound v hex) hwf (viewExact_comp v hex hund)

/-- the per-run judge `len = maxMatchingSize` always accepts the model's answer on undirected storage -/
theorem C15_maximum_len_eq_max (v : View) (mode : Nat) (hix : IxOk v) (hwf : v.g.WellFormed)
    (hex : ViewExact v) (hvac : C15W2.VacOk v) (hund : v.g.directed = false) :
    (maximumMatching v mode).len = maxMatchingSize v.g := by
  have h := C15_maximum_maximum_partial2 v mode hix hwf hex hvac
  rw [← h.2.1]
  exact C15_maximum_judge_complete _ _ (C15_maximum_maximum v mode hix hwf hex hvac hund)

/-- the same from executable checks of the hypotheses -/
theorem C15_maximum_maximum_checked (v : View) (mode : Nat) (h1 : ixOkB v = true) (h2 : wfB v.g = true)
    (h3 : C15W2.viewExactB v = true) (h4 : C15W2.vacOkB v = true) (h5 : v.g.directed = false) :
    (maximumMatching v mode).fault = false ∧
    IsMaximumMatching v.g (pairsOf (mateTable v (maximumMatching v mode))) ∧
    (maximumMatching v mode).len = maxMatchingSize v.g :=
  ⟨(C15_maximum_valid_checked v mode h1 h2 h3 h4).1,
   C15_maximum_maximum v mode (ixOkB_sound v h1) (wfB_sound v.g h2) (viewExactB_sound v h3)
     (C15W2.vacOkB_sound v h4) h5,
   C15_maximum_len_eq_max v mode (ixOkB_sound v h1) (wfB_sound v.g h2) (viewExactB_sound v h3)
     (C15W2.vacOkB_sound v h4) h5⟩

/-- non-vacuity: the hypotheses of `C15_maximum_maximum` hold for the example view (a triangle with a
pendant node, a vacancy at index 1), and the model finds the two pairs -/
example : ixOkB exampleView = true ∧ wfB exampleView.g = true ∧ C15W2.viewExactB exampleView = true ∧
    C15W2.vacOkB exampleView = true ∧ exampleView.g.directed = false ∧
    (maximumMatching exampleView 0).len = 2 := by decide +kernel

example : IsMaximumMatching exampleView.g (pairsOf (mateTable exampleView (maximumMatching exampleView 0))) :=
  (C15_maximum_maximum_checked exampleView 0 (by decide) (by decide) (by decide) (by decide) (by decide)).2.1


/-- a triangle `0-1-2` with the pendant edge `1-3`, in an iteration order in which the greedy matching
takes `0-1` only: the search from node `2` labels `0`, `1` through the blossom `0-1-2` before it reaches
the free node `3` -/
def blossomView : View :=
  { g := { directed := false, nodes := [0, 1, 2, 3],
           edges := [⟨0, 0, 1, 1⟩, ⟨1, 0, 2, 1⟩, ⟨2, 1, 2, 1⟩, ⟨3, 1, 3, 1⟩] },
    nb := 4, ix := [(0, 0), (1, 1), (2, 2), (3, 3)],
    out := [(0, [(1, 0), (2, 1)]), (1, [(0, 0), (2, 2), (3, 3)]), (2, [(0, 1), (1, 2)]), (3, [(1, 3)])],
    inn := [(0, [(1, 0), (2, 1)]), (1, [(0, 0), (2, 2), (3, 3)]), (2, [(0, 1), (1, 2)]), (3, [(1, 3)])] }

/-- non-vacuity with a blossom: the hypotheses of `C15_maximum_maximum` hold for `blossomView`, the greedy
matching has one pair, the Gabow model finds two (for every way of comparing edge ids) -/
example : ixOkB blossomView = true ∧ wfB blossomView.g = true ∧ C15W2.viewExactB blossomView = true ∧
    C15W2.vacOkB blossomView = true ∧ blossomView.g.directed = false ∧
    (greedyInner blossomView).nEdges = 1 ∧ (maximumMatching blossomView 0).len = 2 ∧
    (maximumMatching blossomView 1).len = 2 ∧ (maximumMatching blossomView 2).len = 2 ∧
    maxMatchingSize blossomView.g = 2 := by decide +kernel

/-! ## Part 5 — run-time checks of the hypotheses, and the driver's matching judge (wave 5)

Every hypothesis of `C15_greedy_valid`, `C15_maximum_valid`, `C15_maximum_maximum` that concerns the
concrete case has an executable form which `Driver/C15.lean` evaluates on every matching case
(`viewSideCondition` per `graph` line, `matchingSideCondition` per request); a failure is answered
`SPECFAIL side condition <name> does not hold`.  `directed = false` is read off the `graph` line; on
directed storage the maximality clause is the open finding D25. -/

/-- run-time check of `IxOk` -/
theorem C15_ixOk_check (v : View) (h : ixOkB v = true) : IxOk v := ixOkB_sound v h

/-- run-time check of `WellFormed` -/
theorem C15_wf_check (g : MGraph) (h : wfB g = true) : g.WellFormed := wfB_sound g h

/-- run-time check of `ViewSound` -/
theorem C15_viewSound_check (v : View) (h : viewSoundB v = true) : ViewSound v := viewSoundB_sound v h

/-- run-time check of `ViewExact` (the core-only copy of the Boolean that the driver links) -/
theorem C15_viewExact_check (v : View) (h : C15M.viewExactB v = true) : ViewExact v :=
  viewExactB_sound v h

/-- run-time check of `VacOk` -/
theorem C15_vacOk_check (v : View) (h : C15M.vacOkB v = true) : C15W2.VacOk v :=
  C15W2.vacOkB_sound v h

/-- the `graph`-line checks of the driver establish `IxOk`, `ViewSound`, `WellFormed` -/
theorem C15_graph_line_check (v : View) (h : viewSideCondition v = none) :
    IxOk v ∧ ViewSound v ∧ v.g.WellFormed := by
  unfold viewSideCondition at h
  split at h; · cases h
  rename_i h1
  split at h; · cases h
  split at h; · cases h
  split at h; · cases h
  rename_i h4
  split at h; · cases h
  rename_i h5
  simp only [Bool.not_eq_true', Bool.not_eq_false] at h1 h4 h5
  exact ⟨ixOkB_sound v h4, viewSoundB_sound v h5, wfB_sound v.g h1⟩

/-- the per-request checks of the driver establish `ViewExact` and `VacOk` -/
theorem C15_matching_request_check (v : View) (h : matchingSideCondition v = none) :
    ViewExact v ∧ C15W2.VacOk v := by
  unfold matchingSideCondition at h
  split at h; · cases h
  rename_i h1
  split at h; · cases h
  rename_i h2
  simp only [Bool.not_eq_true', Bool.not_eq_false] at h1 h2
  exact ⟨C15_viewExact_check v h1, C15_vacOk_check v h2⟩

/-- **every matching case the driver judges is inside the scope of the model theorems**: if the
`graph` line and the request pass the side conditions, then (for every way of comparing edge ids) the
greedy model and the Gabow model do not fault and return matchings of the graph, and on undirected
storage the Gabow model's matching is a maximum matching with `len = maxMatchingSize`. -/
theorem C15_driver_matching (v : View) (mode : Nat) (h1 : viewSideCondition v = none)
    (h2 : matchingSideCondition v = none) :
    (greedyInner v).fault = false ∧ IsMatching v.g (pairsOf (mateTable v (greedyInner v))) ∧
    (maximumMatching v mode).fault = false ∧ MWF v (maximumMatching v mode) ∧
    IsMatching v.g (pairsOf (mateTable v (maximumMatching v mode))) ∧
    (v.g.directed = false →
      IsMaximumMatching v.g (pairsOf (mateTable v (maximumMatching v mode))) ∧
      (maximumMatching v mode).len = maxMatchingSize v.g) := by
  obtain ⟨hix, hs, hwf⟩ := C15_graph_line_check v h1
  obtain ⟨hex, hvac⟩ := C15_matching_request_check v h2
  have hg := C15_greedy_valid v hix hwf hs
  have hm := C15_maximum_valid v mode hix hwf hex hvac
  exact ⟨hg.1, hg.2.2.2, hm.1, hm.2.1, mateValid_isMatching _ _ hm.2.2,
    fun hund => ⟨C15_maximum_maximum v mode hix hwf hex hvac hund,
      C15_maximum_len_eq_max v mode hix hwf hex hvac hund⟩⟩

/-- non-vacuity: both sets of side conditions hold for the example views (vacancy; blossom) -/
example : viewSideCondition exampleView = none ∧ matchingSideCondition exampleView = none ∧
    viewSideCondition blossomView = none ∧ matchingSideCondition blossomView = none := by decide

/-- the side conditions can fail: the stale-index view is rejected by `vacOk` -/
example : (matchingSideCondition staleIxView).isSome = true := by decide

/-! ### the accessor judge -/

/-- **the accessor judge is sound**: an accepted observation has every accessor equal to the
documented function of `mate` (`AccessorsAgree`: `mate` has entries for nodes of the graph only, `len()`
= number of matched pairs, `edges()` = the matched pairs each once, `nodes()` and `contains_node` = the
matched nodes each once, `contains_edge` = the entries of `mate`, `is_perfect()` iff every node is
matched, `is_empty()` iff `len() = 0`, no probe with a non-existent id answered as matched). -/
theorem C15_judgeAccessors_sound (g : MGraph) (o : MObs) (h : judgeAccessors g o = none) :
    C15W5A.AccessorsAgree g o :=
  (C15W5A.judgeAccessors_iff g o).mp h

/-- **the accessor judge is complete**: no false alarm -/
theorem C15_judgeAccessors_complete (g : MGraph) (o : MObs) (h : C15W5A.AccessorsAgree g o) :
    judgeAccessors g o = none :=
  (C15W5A.judgeAccessors_iff g o).mpr h

/-- **"len/edges/nodes/contains_*/is_perfect agree with `mate`"** for every answer that `checkMate` and
`judgeAccessors` accept, clause by clause in terms of membership in the observed `mate` table. -/
theorem C15_accessors_judged (g : MGraph) (o : MObs) (hwf : wfB g = true)
    (hc : checkMate g o.mate = true) (h : judgeAccessors g o = none) :
    (∀ a, a ∈ o.nodes ↔ ∃ b, (a, b) ∈ o.mate) ∧ o.nodes.Nodup ∧
    (∀ a, a ∈ o.cn ↔ ∃ b, (a, b) ∈ o.mate) ∧
    (∀ a b, (a, b) ∈ o.ce ↔ (a, b) ∈ o.mate) ∧
    (∀ a b, (a, b) ∈ o.edges → (a, b) ∈ o.mate) ∧
    (∀ a b, (a, b) ∈ o.mate → (a, b) ∈ o.edges ∨ (b, a) ∈ o.edges) ∧
    o.edges.length = o.len ∧ 2 * o.len = o.nodes.length ∧
    (o.perfect = true ↔ ∀ a ∈ g.nodes, ∃ b, (a, b) ∈ o.mate) ∧
    (o.empty = true ↔ o.mate = []) :=
  C15W5A.accessors_readable g o (wfB_sound g hwf).1 (checkMate_sound g o.mate hc)
    (C15_judgeAccessors_sound g o h)

/-- an observation of the two-pair matching of `exampleView` that the judge accepts, and one with a wrong
`len()` that it rejects -/
def exampleObs : MObs :=
  { mate := [(0, 1), (1, 0), (2, 3), (3, 2)], len := 2, edges := [(0, 1), (2, 3)], nodes := [0, 1, 2, 3],
    perfect := true, cn := [0, 1, 2, 3], ce := [(0, 1), (1, 0), (2, 3), (3, 2)], empty := false, bad := 0 }

example : checkMate exampleView.g exampleObs.mate = true ∧ judgeAccessors exampleView.g exampleObs = none ∧
    (judgeAccessors exampleView.g { exampleObs with len := 1 }).isSome = true ∧
    (judgeAccessors exampleView.g { exampleObs with perfect := false }).isSome = true := by decide

/-! ### the maximality judge -/

/-- **barrier certificate**: whatever the untrusted search `findBarrierFast` proposes, if the proved
checker accepts it then `M` is a maximum matching of `g` with `maxMatchingSize g` pairs — for graphs
of any size. -/
theorem C15_barrierCert_sound (g : MGraph) (M : List (Nat × Nat)) (h : C15M.barrierCertB g M = true) :
    IsMaximumMatching g M ∧ M.length = maxMatchingSize g := by
  unfold C15M.barrierCertB at h
  split at h
  · exact C15_checkBarrier_sound g M _ h
  · cases h

/-- **the definitional maximum for graphs of any size**: the number that the proved Gabow model returns
on the canonical undirected view of `g` (index = position, rows in edge-list order) — computed only
when the executable side conditions hold for that view — is `maxMatchingSize g`, the size of a maximum
matching (direction ignored). -/
theorem C15_canonical_maximum (g : MGraph) (k : Nat) (h : C15M.canonicalMax g = some k) :
    k = maxMatchingSize g := by
  unfold C15M.canonicalMax at h
  simp only at h
  split at h
  · rename_i hc
    split at h
    · cases h
    · unfold C15M.gabowChecksB at hc
      simp only [Bool.and_eq_true] at hc
      obtain ⟨⟨⟨c1, c2⟩, c3⟩, c4⟩ := hc
      have := (C15_maximum_maximum_checked (C15M.uview g) 0 c1 c2
        (by exact c3) (by exact c4) rfl).2.2
      cases h
      exact this
  · cases h

/-- **the canonical run is total**: for every well-formed graph with distinct edge ids the canonical view
passes all side conditions of the Gabow theorems and the model does not fault, so `canonicalMax`
answers — with `maxMatchingSize g` (`C15_canonical_maximum`). -/
theorem C15_canonical_total (g : MGraph) (hwf : wfB g = true) (hids : nodupB (g.edges.map (·.id)) = true) :
    C15M.canonicalMax g = some (maxMatchingSize g) := by
  have hc := C15W5C.uview_checks g hwf hids
  have hc' := hc
  unfold C15M.gabowChecksB at hc'
  simp only [Bool.and_eq_true] at hc'
  obtain ⟨⟨⟨c1, c2⟩, c3⟩, c4⟩ := hc'
  have hm := C15_maximum_maximum_checked (C15M.uview g) 0 c1 c2 (by exact c3) (by exact c4) rfl
  have : C15M.canonicalMax g = some (maximumMatching (C15M.uview g) 0).len := by
    unfold C15M.canonicalMax
    simp only [hc, if_true, hm.1, Bool.false_eq_true, if_false]
  rw [this, hm.2.2]
  rfl

/-- the size judge of the driver (exhaustive search up to `exhaustiveLimit` nodes, the canonical
Gabow run beyond) only ever answers the definitional maximum -/
theorem C15_maxSizeJudge_sound (g : MGraph) (k : Nat) (h : C15M.maxSizeJudge g = some k) :
    k = maxMatchingSize g := by
  unfold C15M.maxSizeJudge at h
  split at h
  · cases h; rfl
  · exact C15_canonical_maximum g k h

/-- **the maximality judge is sound in both directions**: for a table that `checkMate` accepts,
`.maximum _` means the pairs form a maximum matching, `.smaller k` means that a maximum matching has
`k` pairs and the answer has fewer — so it is NOT a maximum matching. -/
theorem C15_judgeMaximum_sound (g : MGraph) (mate : List (Nat × Nat)) (hc : checkMate g mate = true) :
    (∀ c, judgeMaximum g mate = .maximum c → IsMaximumMatching g (pairsOf mate)) ∧
    (∀ k, judgeMaximum g mate = .smaller k →
      k = maxMatchingSize g ∧ (pairsOf mate).length < k ∧ ¬ IsMaximumMatching g (pairsOf mate)) := by
  have hM : IsMatching g (pairsOf mate) := (C15_checkMate_sound g mate hc).2.2.2
  have hle := maxMatchingSize_upper g _ hM
  unfold judgeMaximum
  simp only
  constructor
  · intro c h
    split at h
    · rename_i hcert
      simp only [Bool.and_eq_true] at hcert
      exact (C15_barrierCert_sound g _ hcert.1).1
    · split at h
      · rename_i k hk
        have hk' := C15_maxSizeJudge_sound g k hk
        split at h
        · rename_i heq
          have heq' : (pairsOf mate).length = k := by simpa using heq
          exact C15_maximum_judge_sound g mate hc (by rw [heq', hk'])
        · cases h
      · cases h
  · intro k h
    split at h
    · cases h
    · split at h
      · rename_i k' hk
        have hk' := C15_maxSizeJudge_sound g k' hk
        split at h
        · cases h
        · rename_i hne
          have hne' : (pairsOf mate).length ≠ k' := by simpa using hne
          cases h
          refine ⟨hk', by omega, fun hmax => ?_⟩
          have := C15_maximum_judge_complete g _ hmax
          omega
      · cases h

/-- **the maximality judge always decides** on the cases the driver judges: when the `graph` line and
the request pass their side conditions, `judgeMaximum` never answers `.undecided` (for any table). -/
theorem C15_judgeMaximum_total (v : View) (h1 : viewSideCondition v = none)
    (h2 : matchingSideCondition v = none) (mate : List (Nat × Nat)) :
    judgeMaximum v.g mate ≠ .undecided := by
  have hwf : wfB v.g = true := by
    unfold viewSideCondition at h1
    split at h1; · cases h1
    rename_i h; simpa using h
  have hids : nodupB (v.g.edges.map (·.id)) = true := by
    unfold matchingSideCondition at h2
    split at h2; · cases h2
    rename_i h
    simp only [Bool.not_eq_true', Bool.not_eq_false] at h
    unfold C15M.viewExactB at h
    simp only [Bool.and_eq_true] at h
    exact h.1.1.1.1
  have hms : C15M.maxSizeJudge v.g = some (maxMatchingSize v.g) := by
    unfold C15M.maxSizeJudge
    split
    · rfl
    · exact C15_canonical_total v.g hwf hids
  unfold judgeMaximum
  simp only [hms]
  split
  · intro h; cases h
  · split
    · intro h; cases h
    · intro h; cases h

/-- **the driver's complete verdict on a `maximum_matching` answer**: if `judgeMatching … true` accepts,
then the observed `mate` is symmetric, nobody is matched twice, every pair is joined by a non-loop edge,
the pairs form a MAXIMUM matching of the graph, and every accessor agrees with `mate`. -/
theorem C15_judgeMatching_sound (g : MGraph) (o : MObs) (maxReq : Bool)
    (h : judgeMatching g o maxReq = .inr none) :
    MateValid g o.mate ∧ IsMatching g (pairsOf o.mate) ∧ C15W5A.AccessorsAgree g o ∧
    (maxReq = true → IsMaximumMatching g (pairsOf o.mate)) := by
  unfold judgeMatching at h
  split at h; · cases h
  rename_i hc
  simp only [Bool.not_eq_true', Bool.not_eq_false] at hc
  split at h
  · cases h
  · rename_i ha
    refine ⟨checkMate_sound g o.mate hc, (C15_checkMate_sound g o.mate hc).2.2.2,
      C15_judgeAccessors_sound g o ha, fun hm => ?_⟩
    subst hm
    simp only [if_true] at h
    split at h
    · rename_i c hj
      exact (C15_judgeMaximum_sound g o.mate hc).1 c hj
    · cases h
    · cases h

/-- a `Sum.inr (some k)` verdict means: valid, but not maximum (this is what the D25 classifier and the
`SPECFAIL maximum: …` message report) -/
theorem C15_judgeMatching_smaller (g : MGraph) (o : MObs) (k : Nat)
    (h : judgeMatching g o true = .inr (some k)) :
    IsMatching g (pairsOf o.mate) ∧ k = maxMatchingSize g ∧ (pairsOf o.mate).length < k ∧
    ¬ IsMaximumMatching g (pairsOf o.mate) := by
  unfold judgeMatching at h
  split at h; · cases h
  rename_i hc
  simp only [Bool.not_eq_true', Bool.not_eq_false] at hc
  split at h
  · cases h
  · simp only [if_true] at h
    split at h
    · cases h
    · rename_i k' hj
      have : k' = k := by
        injection h with h'
        injection h'
      subst this
      exact ⟨(C15_checkMate_sound g o.mate hc).2.2.2, (C15_judgeMaximum_sound g o.mate hc).2 k' hj⟩
    · cases h

/-- non-vacuity of the composed judge: the example observation is accepted as a maximum matching; the
answer of the D25 witness (one pair, valid) gets the verdict "valid, but a maximum matching has 2 pairs" -/
example : judgeMatching exampleView.g exampleObs true = .inr none ∧
    judgeMatching d25View.g
      { mate := [(0, 2), (2, 0)], len := 1, edges := [(0, 2)], nodes := [0, 2], perfect := false, cn := [0, 2],
        ce := [(0, 2), (2, 0)], empty := false, bad := 0 } true = .inr (some 2) := by decide +kernel

/-- a 22-node graph (beyond the exhaustive limit): two pentagons with pendant nodes, a path and a star;
the size judge runs the Gabow model on the canonical view -/
def bigGraph : MGraph :=
  { directed := true, nodes := List.range 22,
    edges := ([(0, 1), (1, 2), (2, 3), (3, 4), (4, 0), (0, 5), (5, 6), (6, 7), (7, 8), (8, 9), (9, 5), (2, 10),
      (10, 11), (11, 12), (12, 13), (14, 13), (14, 15), (14, 16), (14, 17), (18, 19), (19, 20), (20, 18),
      (20, 21)] : List (Nat × Nat)).zipIdx.map fun (p, i) => ⟨i, p.1, p.2, 1⟩ }

def bigMatching : List (Nat × Nat) :=
  [(1, 2), (3, 4), (0, 5), (6, 7), (8, 9), (10, 11), (12, 13), (14, 15), (18, 19), (20, 21)]

/-- the `mate` table of a list of pairs -/
def tableOf (M : List (Nat × Nat)) : List (Nat × Nat) := M ++ M.map Prod.swap

/-- non-vacuity of the judges beyond the exhaustive limit: the canonical run answers 10; a maximum
matching gets the barrier certificate `{14}` and the verdict `.maximum true`, a smaller one `.smaller 10` -/
example : C15M.canonicalMax bigGraph = some 10 ∧
    C15M.findBarrierFast bigGraph bigMatching = some [14] ∧
    C15M.barrierCertB bigGraph bigMatching = true ∧
    C15M.barrierCertB bigGraph (bigMatching.drop 1) = false ∧
    judgeMaximum bigGraph (tableOf bigMatching) = .maximum true ∧
    judgeMaximum bigGraph (tableOf (bigMatching.drop 1)) = .smaller 10 := by
  decide +kernel

/-! ## Part 2b — the Edmonds–Karp model is a maximum-flow algorithm (all views, integer capacities) -/

/-- the driver's per-case checks establish the hypotheses of the flow model theorems -/
theorem C15_flow_view_checks_sound (v : View) (h1 : C15F.flowViewB v = true) (h2 : wfB v.g = true)
    (h3 : C15F.capsNonnegB v.g = true) :
    FlowView v ∧ v.g.WellFormed ∧ ∀ e ∈ v.g.edges, 0 ≤ e.w :=
  ⟨flowViewB_sound v h1, wfB_sound v.g h2, capsNonnegB_sound v.g h3⟩

/-- **`ford_fulkerson` returns a feasible flow** (model, all views, `s ≠ t`, non-negative integer
capacities): no fault (no illegal endpoint, no out-of-bounds access, the loop ends within its fuel),
every capacity is respected, flow is conserved at every node other than `s` and `t`, and the returned
value is the net flow out of `s`.  (Capacity and conservation are invariants of augmentation along
the BFS tree path; the path is simple, so no edge is pushed twice.) -/
theorem C15_flow_feasible (v : View) (hv : FlowView v) (hwf : v.g.WellFormed)
    (hw : ∀ e ∈ v.g.edges, 0 ≤ e.w) (s t : Nat) (hne : s ≠ t) :
    (C15F.fordFulkerson v s t).fault = false ∧
    Feasible v.g s t (C15F.getFlow (C15F.fordFulkerson v s t).flows) ∧
    (C15F.fordFulkerson v s t).maxFlow = excess v.g (C15F.getFlow (C15F.fordFulkerson v s t).flows) s := by
  have h := fordFulkerson_spec v hv hwf.2 hw s t hne
  exact ⟨h.inv.nofault, h.inv.feas, h.inv.value⟩

/-- **`ford_fulkerson` returns a maximum flow and the capacity of a minimum cut** (model): when the
last BFS fails its visited set is a cut whose forward edges are saturated and whose backward edges
are empty, so the value equals that cut's capacity; hence no `s`-`t` cut is smaller and no feasible
flow is larger. -/
theorem C15_flow_max (v : View) (hv : FlowView v) (hwf : v.g.WellFormed)
    (hw : ∀ e ∈ v.g.edges, 0 ≤ e.w) (s t : Nat) (hne : s ≠ t) :
    (∃ S : List Nat, S.Nodup ∧ IsCut s t S ∧ cutCap v.g S = (C15F.fordFulkerson v s t).maxFlow) ∧
    (∀ S : List Nat, IsCut s t S → (C15F.fordFulkerson v s t).maxFlow ≤ cutCap v.g S) ∧
    (∀ f' : Nat → Int, Feasible v.g s t f' → excess v.g f' s ≤ (C15F.fordFulkerson v s t).maxFlow) := by
  have h := fordFulkerson_spec v hv hwf.2 hw s t hne
  obtain ⟨S, hS1, hS2, hS3⟩ := h.cut
  refine ⟨⟨S, hS1, hS2, hS3⟩, ?_, ?_⟩
  · intro S' hS'
    rw [h.inv.value]
    exact value_le_cut' v.g s t _ S' h.inv.feas hS'.1 hS'.2
  · intro f' hf'
    rw [← hS3]
    exact value_le_cut v.g s t f' S hf' hS1 hS2.1 hS2.2

/-- the same from the driver's executable per-case checks -/
theorem C15_flow_checked (v : View) (h1 : C15F.flowViewB v = true) (h2 : wfB v.g = true)
    (h3 : C15F.capsNonnegB v.g = true) (s t : Nat) (hne : s ≠ t) :
    (C15F.fordFulkerson v s t).fault = false ∧
    Feasible v.g s t (C15F.getFlow (C15F.fordFulkerson v s t).flows) ∧
    (∀ f' : Nat → Int, Feasible v.g s t f' → excess v.g f' s ≤ (C15F.fordFulkerson v s t).maxFlow) :=
  let c := C15_flow_view_checks_sound v h1 h2 h3
  ⟨(C15_flow_feasible v c.1 c.2.1 c.2.2 s t hne).1, (C15_flow_feasible v c.1 c.2.1 c.2.2 s t hne).2.1,
   (C15_flow_max v c.1 c.2.1 c.2.2 s t hne).2.2⟩

/-- the CLRS network of the doc example, in `Graph`'s iteration order: the hypotheses hold and the
model finds the flow of value 23 -/
def clrsView : View :=
  { g := { directed := true, nodes := [0, 1, 2, 3, 4, 5],
           edges := [⟨0, 0, 1, 16⟩, ⟨1, 0, 2, 13⟩, ⟨2, 1, 2, 10⟩, ⟨3, 1, 3, 12⟩, ⟨4, 2, 1, 4⟩,
                     ⟨5, 2, 4, 14⟩, ⟨6, 3, 2, 9⟩, ⟨7, 3, 5, 20⟩, ⟨8, 4, 3, 7⟩, ⟨9, 4, 5, 4⟩] },
    nb := 6, ix := [(0, 0), (1, 1), (2, 2), (3, 3), (4, 4), (5, 5)],
    out := [(0, [(2, 1), (1, 0)]), (1, [(3, 3), (2, 2)]), (2, [(4, 5), (1, 4)]), (3, [(5, 7), (2, 6)]),
            (4, [(5, 9), (3, 8)]), (5, [])],
    inn := [(0, []), (1, [(2, 4), (0, 0)]), (2, [(3, 6), (1, 2), (0, 1)]), (3, [(4, 8), (1, 3)]),
            (4, [(2, 5)]), (5, [(4, 9), (3, 7)])] }

example : C15F.flowViewB clrsView = true ∧ wfB clrsView.g = true ∧ C15F.capsNonnegB clrsView.g = true ∧
    (C15F.fordFulkerson clrsView 0 5).maxFlow = 23 := by decide +kernel

/-! ## Part 2c — bounded capacity types (wave 5, `Proofs/C15W5FlowB.lean`) -/

open PetgraphModel.C15FB in
/-- **bounded capacity types.**  `fordFulkersonG o` is `ford_fulkerson` over partial arithmetic `o`
(`none` = an operation left the range of the type; the operations are `capacity - flow`, `flow - delta`,
`flow + delta`, `max_flow + path_flow`).  If `o` is exact on results in `0..M` (`Agrees`: the
overflow-checked and the wrapping arithmetic of an unsigned type with maximum `M`, `f64`/`f32` on
integers up to `2^53`/`2^24`), every capacity lies in `0..M`, and the capacity of SOME `s`-`t` cut is at
most `M`, then no operation leaves the range and the run returns exactly what the exact-integer model
returns — a feasible maximum flow with the capacity of a minimum cut as its value
(`C15_flow_feasible`, `C15_flow_max`).  All views, all `s ≠ t`. -/
theorem C15_bounded_capacities (o : Ops) (M : Int) (ho : Agrees o M) (v : View) (hv : FlowView v)
    (hwf : v.g.WellFormed) (hw : ∀ e ∈ v.g.edges, 0 ≤ e.w ∧ e.w ≤ M) (s t : Nat) (hne : s ≠ t)
    (S : List Nat) (hS : IsCut s t S) (hcap : cutCap v.g S ≤ M) :
    fordFulkersonG o v s t = some (C15F.fordFulkerson v s t) :=
  fordFulkersonG_eq ho v hv hwf.2 hw s t hne S hS hcap

/-- run-time check of the range hypothesis of `C15_bounded_capacities` (with the cut `{s}`: the sum of
the capacities out of the source fits the type) -/
theorem C15_capsFit_check (M : Int) (g : MGraph) (s : Nat) (h : capsFitB M g s = true) :
    (∀ e ∈ g.edges, 0 ≤ e.w ∧ e.w ≤ M) ∧ cutCap g [s] ≤ M :=
  C15FB.capsFitB_sound M g s h

open PetgraphModel.C15FB in
/-- **every flow case the driver judges is inside the proved range**: from the Boolean checks of the
driver (`flowViewB`, `wfB`, `capsFitB M` with `M` the exact range of the request's capacity type) the
overflow-checked run (debug build) does not abort, the wrapping run (release build) computes the same,
and both are the exact-integer model's answer, which is a feasible maximum flow. -/
theorem C15_driver_flow (v : View) (M : Int) (s t : Nat) (h1 : C15F.flowViewB v = true)
    (h2 : wfB v.g = true) (h3 : capsFitB M v.g s = true) (hne : s ≠ t) :
    fordFulkersonG (opsB M) v s t = some (C15F.fordFulkerson v s t) ∧
    fordFulkersonG (opsW M) v s t = some (C15F.fordFulkerson v s t) ∧
    (C15F.fordFulkerson v s t).fault = false ∧
    Feasible v.g s t (C15F.getFlow (C15F.fordFulkerson v s t).flows) ∧
    (∀ f' : Nat → Int, Feasible v.g s t f' → excess v.g f' s ≤ (C15F.fordFulkerson v s t).maxFlow) := by
  obtain ⟨hw, hcap⟩ := C15_capsFit_check M v.g s h3
  have hv := flowViewB_sound v h1
  have hwf := wfB_sound v.g h2
  have hcut : IsCut s t [s] := ⟨by simp, by simpa using fun h => hne h.symm⟩
  have hw0 : ∀ e ∈ v.g.edges, 0 ≤ e.w := fun e he => (hw e he).1
  exact ⟨C15_bounded_capacities _ M (agrees_B M) v hv hwf hw s t hne [s] hcut hcap,
    C15_bounded_capacities _ M (agrees_W M) v hv hwf hw s t hne [s] hcut hcap,
    (C15_flow_feasible v hv hwf hw0 s t hne).1, (C15_flow_feasible v hv hwf hw0 s t hne).2.1,
    (C15_flow_max v hv hwf hw0 s t hne).2.2⟩

/-- **the bound on a cut cannot be dropped** (two parallel edges of capacity 2 in a type with maximum
3): all capacities fit, the maximum flow 4 does not; the overflow-checked run aborts and the wrapping run
returns the value 0.  (For the Rust code: `ford_fulkerson` on `u8` weights `200, 200` panics in a debug
build and returns `144` in a release build — inherent to returning the value in the weight type.) -/
theorem C15_bounded_needs_cut_bound :
    C15F.flowViewB C15FB.twoPipes = true ∧ (∀ e ∈ C15FB.twoPipes.g.edges, 0 ≤ e.w ∧ e.w ≤ 3) ∧
    (C15F.fordFulkerson C15FB.twoPipes 0 1).maxFlow = 4 ∧
    C15FB.fordFulkersonG (C15FB.opsB 3) C15FB.twoPipes 0 1 = none ∧
    (C15FB.fordFulkersonG (C15FB.opsW 3) C15FB.twoPipes 0 1).map (·.maxFlow) = some 0 :=
  C15FB.needs_cut_bound

/-- non-vacuity: the CLRS network in `u8` (`M = 255`): the range check passes, and the checked run over
`u8` arithmetic returns the flow of value 23 -/
example : capsFitB 255 clrsView.g 0 = true ∧
    (C15FB.fordFulkersonG (C15FB.opsB 255) clrsView 0 5).map (·.maxFlow) = some 23 := by decide +kernel

end PetgraphModel.C15T
