import PetgraphModel.Proofs.C15Matching
import PetgraphModel.Proofs.C15Flow
import PetgraphModel.Proofs.C15Greedy
import PetgraphModel.Proofs.C15FlowModel
/-
C15 — `maximum_matching` is maximum, `greedy_matching` valid, `ford_fulkerson` a maximum flow.

Part 1: soundness of every judge the driver applies to the implementation's answers, for ALL graphs
and ALL answers (the judges speak about the abstract `MGraph` only).
Part 2: theorems over the mirror models of `Model/C15Matching.lean` for all views (accessor
consistency, validity of `greedy_matching`).
Part 3: what is only judged per run (Gabow's `maximum_matching`): full statements as `_statement`,
proved part as `_partial`, and the D25 witness on the model.
Part 2b (at the end of the file): the Edmonds–Karp mirror model of `Model/C15Flow.lean` returns a
feasible maximum flow and the capacity of a minimum cut, for all views and non-negative integer
capacities.
-/
namespace PetgraphModel.C15T
open PetgraphModel PetgraphModel.C15 PetgraphModel.C15M PetgraphModel.C15P

/-! ## Part 1 — verified checkers -/

/-- **matching judge**: a `mate` table accepted by `checkMate` is symmetric, a function (no node is
matched twice), every entry is joined by a non-loop edge (direction ignored), and its pairs form a
matching of the graph. -/
theorem C15_checkMate_sound (g : MGraph) (mate : List (Nat × Nat)) (h : checkMate g mate = true) :
    (∀ a b, (a, b) ∈ mate → (b, a) ∈ mate) ∧
    (∀ a b c, (a, b) ∈ mate → (a, c) ∈ mate → b = c) ∧
    (∀ a b, (a, b) ∈ mate → Joined g a b) ∧
    IsMatching g (pairsOf mate) := by
  have hv := checkMate_sound g mate h
  exact ⟨hv.symmetric, functional_of_nodup mate hv.functional, hv.joined, mateValid_isMatching g mate hv⟩

/-- the matching judge rejects no valid table (no false alarm) -/
theorem C15_checkMate_complete (g : MGraph) (mate : List (Nat × Nat)) (h : MateValid g mate) :
    checkMate g mate = true :=
  checkMate_complete g mate h

/-- **enumerator completeness**: no matching of `g` has more pairs than the exhaustive search finds -/
theorem C15_maxMatchingSize_upper (g : MGraph) (M : List (Nat × Nat)) (h : IsMatching g M) :
    M.length ≤ maxMatchingSize g :=
  maxMatchingSize_upper g M h

/-- the exhaustive-search number is attained by a matching of `g` -/
theorem C15_maxMatchingSize_attained (g : MGraph) :
    ∃ M, IsMatching g M ∧ M.length = maxMatchingSize g :=
  maxMatchingSize_attained g

/-- **maximum judge, sound**: an accepted table whose number of pairs equals `maxMatchingSize g`
is a maximum matching -/
theorem C15_maximum_judge_sound (g : MGraph) (mate : List (Nat × Nat)) (h : checkMate g mate = true)
    (hlen : (pairsOf mate).length = maxMatchingSize g) : IsMaximumMatching g (pairsOf mate) :=
  ⟨(C15_checkMate_sound g mate h).2.2.2, fun M' hM' => hlen ▸ maxMatchingSize_upper g M' hM'⟩

/-- **maximum judge, complete**: every maximum matching has exactly `maxMatchingSize g` pairs, so
the judge never rejects a correct answer and always rejects a smaller one -/
theorem C15_maximum_judge_complete (g : MGraph) (M : List (Nat × Nat)) (h : IsMaximumMatching g M) :
    M.length = maxMatchingSize g := by
  obtain ⟨M', hM', hl⟩ := maxMatchingSize_attained g
  have h1 := h.2 M' hM'
  have h2 := maxMatchingSize_upper g M h.1
  omega

/-- **flow judge**: an accepted `(flows, value)` is a feasible flow (capacities respected,
conservation at every node other than `s`, `t`), the value is the net flow out of `s`, it equals the
capacity of an `s`-`t` cut, no `s`-`t` cut has a smaller capacity (so it is the capacity of a
minimum cut) and no feasible flow has a larger value (so the flow is maximum). -/
theorem C15_flow_judge_sound (g : MGraph) (s t : Nat) (fl : List (Nat × Int)) (v : Int)
    (h : judgeFlow g s t fl v = none) :
    s ≠ t ∧ Feasible g s t (flowFn fl) ∧ v = excess g (flowFn fl) s ∧
    (∃ S : List Nat, S.Nodup ∧ IsCut s t S ∧ cutCap g S = v) ∧
    (∀ S : List Nat, IsCut s t S → v ≤ cutCap g S) ∧
    (∀ f' : Nat → Int, Feasible g s t f' → excess g f' s ≤ v) := by
  have c := judgeFlow_sound g s t fl v h
  exact ⟨c.distinct, c.feasible, c.value, c.cut, c.minCut, c.maxFlow⟩

/-- weak duality on its own: any feasible flow is bounded by any cut -/
theorem C15_weak_duality (g : MGraph) (s t : Nat) (f : Nat → Int) (S : List Nat)
    (hf : Feasible g s t f) (hS : IsCut s t S) : excess g f s ≤ cutCap g S :=
  value_le_cut' g s t f S hf hS.1 hS.2

/-! ## Part 2 — the mirror models, for every view -/

/-- the driver's per-case checks establish the hypotheses of the model theorems -/
theorem C15_view_checks_sound (v : View) (h1 : ixOkB v = true) (h2 : viewSoundB v = true)
    (h3 : wfB v.g = true) : IxOk v ∧ ViewSound v ∧ v.g.WellFormed :=
  ⟨ixOkB_sound v h1, viewSoundB_sound v h2, wfB_sound v.g h3⟩

/-- **accessor consistency**: for a well-formed `Matching` (symmetric irreflexive `mate` vector with
entries at live indices only, `n_edges` = half the number of entries) `nodes()`, `edges()`, `len()`,
`contains_node`, `contains_edge`, `is_perfect()`, `is_empty()` are the functions of `mate` the
documentation says. -/
theorem C15_matching_accessors (v : View) (hix : IxOk v) (m : Matching) (hm : MWF v m) :
    (∀ a, a ∈ m.nodes v ↔ a ∈ v.g.nodes ∧ (m.mateOf v a).isSome = true) ∧
    (∀ a b, (a, b) ∈ m.edges v ↔ a ∈ v.g.nodes ∧ m.mateOf v a = some b ∧ v.toIndex a < v.toIndex b) ∧
    (∀ a ∈ v.g.nodes, ∀ b, m.mateOf v a = some b → (a, b) ∈ m.edges v ∨ (b, a) ∈ m.edges v) ∧
    m.len = (m.edges v).length ∧
    2 * m.len = (v.g.nodes.filter fun a => m.containsNode v a).length ∧
    (∀ a, m.containsNode v a = (m.mateOf v a).isSome) ∧
    (∀ a b, m.containsEdge v a b = true ↔ m.mateOf v a = some b) ∧
    (m.isPerfect v = true ↔ ∀ a ∈ v.g.nodes, m.containsNode v a = true) ∧
    (m.isEmpty = true ↔ m.edges v = []) := by
  refine ⟨mem_nodes v hix m hm, mem_edges v hix m hm, fun a ha b hb => edges_complete v hix m hm a b ha hb, hm.cntE, hm.cntN,
    fun _ => rfl, ?_, isPerfect_iff v m hm, ?_⟩
  · intro a b
    unfold Matching.containsEdge
    cases m.mateOf v a with
    | none => simp
    | some x => simp
  · unfold Matching.isEmpty Matching.len
    rw [hm.cntE]
    simp [List.length_eq_zero_iff]

/-- **`greedy_matching` is valid** (model, all views): no out-of-bounds access, the resulting
`Matching` is well formed (so all accessors agree with `mate`), `mate` is symmetric, nobody is
matched twice, every matched pair is joined by a non-loop edge (direction ignored). -/
theorem C15_greedy_valid (v : View) (hix : IxOk v) (hwf : v.g.WellFormed) (hs : ViewSound v) :
    (greedyInner v).fault = false ∧ MWF v (greedyInner v) ∧
    MateValid v.g (mateTable v (greedyInner v)) ∧
    IsMatching v.g (pairsOf (mateTable v (greedyInner v))) := by
  have h := greedy_valid v hix hwf hs
  exact ⟨h.1.nofault, h.1, h.2, mateValid_isMatching _ _ h.2⟩

/-- the same from the driver's executable per-case checks -/
theorem C15_greedy_valid_checked (v : View) (h1 : ixOkB v = true) (h2 : viewSoundB v = true)
    (h3 : wfB v.g = true) :
    (greedyInner v).fault = false ∧ IsMatching v.g (pairsOf (mateTable v (greedyInner v))) :=
  let h := C15_greedy_valid v (ixOkB_sound v h1) (wfB_sound v.g h3) (viewSoundB_sound v h2)
  ⟨h.1, h.2.2.2⟩

/-- the greedy result never exceeds the definitional maximum -/
theorem C15_greedy_le_maximum (v : View) (hix : IxOk v) (hwf : v.g.WellFormed) (hs : ViewSound v) :
    (pairsOf (mateTable v (greedyInner v))).length ≤ maxMatchingSize v.g :=
  maxMatchingSize_upper _ _ (C15_greedy_valid v hix hwf hs).2.2.2

/-- a triangle with a pendant node, encoded with a vacancy at index 1: the hypotheses hold and the
greedy model matches two pairs -/
def exampleView : View :=
  { g := { directed := false, nodes := [0, 1, 2, 3],
           edges := [⟨0, 0, 1, 1⟩, ⟨1, 1, 2, 1⟩, ⟨2, 2, 0, 1⟩, ⟨3, 2, 3, 1⟩] },
    nb := 5, ix := [(0, 0), (1, 2), (2, 3), (3, 4)],
    out := [(0, [(1, 0), (2, 2)]), (1, [(0, 0), (2, 1)]), (2, [(1, 1), (0, 2), (3, 3)]), (3, [(2, 3)])],
    inn := [(0, [(1, 0), (2, 2)]), (1, [(0, 0), (2, 1)]), (2, [(1, 1), (0, 2), (3, 3)]), (3, [(2, 3)])] }

example : ixOkB exampleView = true ∧ viewSoundB exampleView = true ∧ wfB exampleView.g = true ∧
    (greedyInner exampleView).nEdges = 2 ∧ maxMatchingSize exampleView.g = 2 := by decide

/-! ## Part 3 — judged per run, not proved for all inputs -/

/-- the view lists, for every node, exactly its incident edges with their true other endpoint
(what the maximum-matching and flow models need in addition to `ViewSound`) -/
structure ViewExact (v : View) : Prop where
  ids : (v.g.edges.map (·.id)).Nodup
  out_sound : ∀ a b eid, (b, eid) ∈ v.outOf a → ∃ e ∈ v.g.edges, e.id = eid ∧
    ((e.src = a ∧ e.tgt = b) ∨ (v.g.directed = false ∧ e.src = b ∧ e.tgt = a))
  out_complete : ∀ e ∈ v.g.edges, (e.tgt, e.id) ∈ v.outOf e.src ∧
    (v.g.directed = false → (e.src, e.id) ∈ v.outOf e.tgt)
  inn_sound : ∀ a b eid, (b, eid) ∈ v.innOf a → ∃ e ∈ v.g.edges, e.id = eid ∧
    ((e.src = b ∧ e.tgt = a) ∨ (v.g.directed = false ∧ e.src = a ∧ e.tgt = b))
  inn_complete : ∀ e ∈ v.g.edges, (e.src, e.id) ∈ v.innOf e.tgt

/-- `maximum_matching` (Gabow) returns a valid matching: full statement (not proved; the model is
compared exactly with /repo and its answers are judged by `checkMate` on every run) -/
def C15_maximum_valid_statement : Prop :=
  ∀ (v : View) (mode : Nat), IxOk v → v.g.WellFormed → ViewExact v →
    (maximumMatching v mode).fault = false ∧ MWF v (maximumMatching v mode) ∧
    MateValid v.g (mateTable v (maximumMatching v mode))

/-- `maximum_matching` returns a maximum matching on undirected storage: full statement (not
proved: the correctness proof of Gabow's labelling algorithm is out of reach here; judged per run
against `maxMatchingSize`, whose correctness is proved above).  On directed storage the statement is
false for the code as it stands (open finding D25). -/
def C15_maximum_maximum_statement : Prop :=
  ∀ (v : View) (mode : Nat), IxOk v → v.g.WellFormed → ViewExact v → v.g.directed = false →
    IsMaximumMatching v.g (pairsOf (mateTable v (maximumMatching v mode)))

/-- proved part: the model starts from a valid greedy matching, and whenever its result is a valid
table its size is bounded by the definitional maximum; equality is what the per-run judge checks -/
theorem C15_maximum_partial (v : View) (mode : Nat) (hix : IxOk v) (hwf : v.g.WellFormed)
    (hs : ViewSound v) :
    IsMatching v.g (pairsOf (mateTable v (greedyInner v))) ∧
    (MateValid v.g (mateTable v (maximumMatching v mode)) →
      (pairsOf (mateTable v (maximumMatching v mode))).length ≤ maxMatchingSize v.g ∧
      ((pairsOf (mateTable v (maximumMatching v mode))).length = maxMatchingSize v.g →
        IsMaximumMatching v.g (pairsOf (mateTable v (maximumMatching v mode))))) := by
  refine ⟨(C15_greedy_valid v hix hwf hs).2.2.2, fun hv => ?_⟩
  have hm := mateValid_isMatching _ _ hv
  exact ⟨maxMatchingSize_upper _ _ hm, fun hl => ⟨hm, fun M' hM' => hl ▸ maxMatchingSize_upper _ M' hM'⟩⟩

/-- the witness of open finding D25: the digraph `u→s, u→v, v→t` in `Graph`'s iteration order -/
def d25View : View :=
  { g := { directed := true, nodes := [0, 1, 2, 3],
           edges := [⟨0, 0, 1, 1⟩, ⟨1, 0, 2, 1⟩, ⟨2, 2, 3, 1⟩] },
    nb := 4, ix := [(0, 0), (1, 1), (2, 2), (3, 3)],
    out := [(0, [(2, 1), (1, 0)]), (1, []), (2, [(3, 2)]), (3, [])],
    inn := [(0, []), (1, [(0, 0)]), (2, [(0, 1)]), (3, [(2, 2)])] }

/-- **D25 on the model**: on directed storage the mirrored `maximum_matching` (which, like the code,
follows out-edges only) returns a valid matching with one pair although two are possible when the
direction is ignored; so `C15_maximum_maximum_statement` cannot drop `directed = false` for the code
as it stands. -/
theorem C15_maximum_directed_counterexample :
    ixOkB d25View = true ∧ viewSoundB d25View = true ∧ wfB d25View.g = true ∧
    checkMate d25View.g (mateTable d25View (maximumMatching d25View 0)) = true ∧
    (pairsOf (mateTable d25View (maximumMatching d25View 0))).length = 1 ∧
    maxMatchingSize d25View.g = 2 := by decide +kernel

/-! ## Part 2b — the Edmonds–Karp model is a maximum-flow algorithm (all views, integer capacities) -/

/-- the driver's per-case checks establish the hypotheses of the flow model theorems -/
theorem C15_flow_view_checks_sound (v : View) (h1 : C15F.flowViewB v = true) (h2 : wfB v.g = true)
    (h3 : C15F.capsNonnegB v.g = true) :
    FlowView v ∧ v.g.WellFormed ∧ ∀ e ∈ v.g.edges, 0 ≤ e.w :=
  ⟨flowViewB_sound v h1, wfB_sound v.g h2, capsNonnegB_sound v.g h3⟩

/-- **`ford_fulkerson` returns a feasible flow** (model, all views, `s ≠ t`, non-negative integer
capacities): no fault (no illegal endpoint, no out-of-bounds access, the loop ends within its fuel),
every capacity is respected, flow is conserved at every node other than `s` and `t`, and the returned
value is the net flow out of `s`.  (Capacity and conservation are invariants of augmentation along
the BFS tree path; the path is simple, so no edge is pushed twice.) -/
theorem C15_flow_feasible (v : View) (hv : FlowView v) (hwf : v.g.WellFormed)
    (hw : ∀ e ∈ v.g.edges, 0 ≤ e.w) (s t : Nat) (hne : s ≠ t) :
    (C15F.fordFulkerson v s t).fault = false ∧
    Feasible v.g s t (C15F.getFlow (C15F.fordFulkerson v s t).flows) ∧
    (C15F.fordFulkerson v s t).maxFlow = excess v.g (C15F.getFlow (C15F.fordFulkerson v s t).flows) s := by
  have h := fordFulkerson_spec v hv hwf.2 hw s t hne
  exact ⟨h.inv.nofault, h.inv.feas, h.inv.value⟩

/-- **`ford_fulkerson` returns a maximum flow and the capacity of a minimum cut** (model): when the
last BFS fails its visited set is a cut whose forward edges are saturated and whose backward edges
are empty, so the value equals that cut's capacity; hence no `s`-`t` cut is smaller and no feasible
flow is larger. -/
theorem C15_flow_max (v : View) (hv : FlowView v) (hwf : v.g.WellFormed)
    (hw : ∀ e ∈ v.g.edges, 0 ≤ e.w) (s t : Nat) (hne : s ≠ t) :
    (∃ S : List Nat, S.Nodup ∧ IsCut s t S ∧ cutCap v.g S = (C15F.fordFulkerson v s t).maxFlow) ∧
    (∀ S : List Nat, IsCut s t S → (C15F.fordFulkerson v s t).maxFlow ≤ cutCap v.g S) ∧
    (∀ f' : Nat → Int, Feasible v.g s t f' → excess v.g f' s ≤ (C15F.fordFulkerson v s t).maxFlow) := by
  have h := fordFulkerson_spec v hv hwf.2 hw s t hne
  obtain ⟨S, hS1, hS2, hS3⟩ := h.cut
  refine ⟨⟨S, hS1, hS2, hS3⟩, ?_, ?_⟩
  · intro S' hS'
    rw [h.inv.value]
    exact value_le_cut' v.g s t _ S' h.inv.feas hS'.1 hS'.2
  · intro f' hf'
    rw [← hS3]
    exact value_le_cut v.g s t f' S hf' hS1 hS2.1 hS2.2

/-- the same from the driver's executable per-case checks -/
theorem C15_flow_checked (v : View) (h1 : C15F.flowViewB v = true) (h2 : wfB v.g = true)
    (h3 : C15F.capsNonnegB v.g = true) (s t : Nat) (hne : s ≠ t) :
    (C15F.fordFulkerson v s t).fault = false ∧
    Feasible v.g s t (C15F.getFlow (C15F.fordFulkerson v s t).flows) ∧
    (∀ f' : Nat → Int, Feasible v.g s t f' → excess v.g f' s ≤ (C15F.fordFulkerson v s t).maxFlow) :=
  let c := C15_flow_view_checks_sound v h1 h2 h3
  ⟨(C15_flow_feasible v c.1 c.2.1 c.2.2 s t hne).1, (C15_flow_feasible v c.1 c.2.1 c.2.2 s t hne).2.1,
   (C15_flow_max v c.1 c.2.1 c.2.2 s t hne).2.2⟩

/-- the CLRS network of the doc example, in `Graph`'s iteration order: the hypotheses hold and the
model finds the flow of value 23 -/
def clrsView : View :=
  { g := { directed := true, nodes := [0, 1, 2, 3, 4, 5],
           edges := [⟨0, 0, 1, 16⟩, ⟨1, 0, 2, 13⟩, ⟨2, 1, 2, 10⟩, ⟨3, 1, 3, 12⟩, ⟨4, 2, 1, 4⟩,
                     ⟨5, 2, 4, 14⟩, ⟨6, 3, 2, 9⟩, ⟨7, 3, 5, 20⟩, ⟨8, 4, 3, 7⟩, ⟨9, 4, 5, 4⟩] },
    nb := 6, ix := [(0, 0), (1, 1), (2, 2), (3, 3), (4, 4), (5, 5)],
    out := [(0, [(2, 1), (1, 0)]), (1, [(3, 3), (2, 2)]), (2, [(4, 5), (1, 4)]), (3, [(5, 7), (2, 6)]),
            (4, [(5, 9), (3, 8)]), (5, [])],
    inn := [(0, []), (1, [(2, 4), (0, 0)]), (2, [(3, 6), (1, 2), (0, 1)]), (3, [(4, 8), (1, 3)]),
            (4, [(2, 5)]), (5, [(4, 9), (3, 7)])] }

example : C15F.flowViewB clrsView = true ∧ wfB clrsView.g = true ∧ C15F.capsNonnegB clrsView.g = true ∧
    (C15F.fordFulkerson clrsView 0 5).maxFlow = 23 := by decide +kernel

end PetgraphModel.C15T
