import PetgraphModel.Proofs.C15Matching
import PetgraphModel.Proofs.C15Flow
import PetgraphModel.Proofs.C15Greedy
import PetgraphModel.Proofs.C15FlowModel
import PetgraphModel.Proofs.C15W2Hyp
/-
C15 — `maximum_matching` is maximum, `greedy_matching` valid, `ford_fulkerson` a maximum flow.

Part 1: soundness of every judge the driver applies to the implementation's answers, for ALL graphs
and ALL answers (the judges speak about the abstract `MGraph` only).
Part 2: theorems over the mirror models of `Model/C15Matching.lean` for all views (accessor
consistency, validity of `greedy_matching`).
Part 3: Gabow's `maximum_matching`: the original full statements as `_statement` (both false as written
for views with a stale index-map entry, see the `_false_witness` theorems), the validity clause proved
with the vacancy hypothesis added (`C15_maximum_valid`, wave 2, `Proofs/C15W2*.lean`), the maximality
clause still judged per run (`C15_maximum_partial`, `C15_maximum_maximum_partial2`), and the D25
witness on the model.
Part 2b (at the end of the file): the Edmonds–Karp mirror model of `Model/C15Flow.lean` returns a
feasible maximum flow and the capacity of a minimum cut, for all views and non-negative integer
capacities.
-/
namespace PetgraphModel.C15T
open PetgraphModel PetgraphModel.C15 PetgraphModel.C15M PetgraphModel.C15P

/-! ## Part 1 — verified checkers -/

/-- **matching judge**: a `mate` table accepted by `checkMate` is symmetric, a function (no node is
matched twice), every entry is joined by a non-loop edge (direction ignored), and its pairs form a
matching of the graph. -/
theorem C15_checkMate_sound (g : MGraph) (mate : List (Nat × Nat)) (h : checkMate g mate = true) :
    (∀ a b, (a, b) ∈ mate → (b, a) ∈ mate) ∧
    (∀ a b c, (a, b) ∈ mate → (a, c) ∈ mate → b = c) ∧
    (∀ a b, (a, b) ∈ mate → Joined g a b) ∧
    IsMatching g (pairsOf mate) := by
  have hv := checkMate_sound g mate h
  exact ⟨hv.symmetric, functional_of_nodup mate hv.functional, hv.joined, mateValid_isMatching g mate hv⟩

/-- the matching judge rejects no valid table (no false alarm) -/
theorem C15_checkMate_complete (g : MGraph) (mate : List (Nat × Nat)) (h : MateValid g mate) :
    checkMate g mate = true :=
  checkMate_complete g mate h

/-- **enumerator completeness**: no matching of `g` has more pairs than the exhaustive search finds -/
theorem C15_maxMatchingSize_upper (g : MGraph) (M : List (Nat × Nat)) (h : IsMatching g M) :
    M.length ≤ maxMatchingSize g :=
  maxMatchingSize_upper g M h

/-- the exhaustive-search number is attained by a matching of `g` -/
theorem C15_maxMatchingSize_attained (g : MGraph) :
    ∃ M, IsMatching g M ∧ M.length = maxMatchingSize g :=
  maxMatchingSize_attained g

/-- **maximum judge, sound**: an accepted table whose number of pairs equals `maxMatchingSize g`
is a maximum matching -/
theorem C15_maximum_judge_sound (g : MGraph) (mate : List (Nat × Nat)) (h : checkMate g mate = true)
    (hlen : (pairsOf mate).length = maxMatchingSize g) : IsMaximumMatching g (pairsOf mate) :=
  ⟨(C15_checkMate_sound g mate h).2.2.2, fun M' hM' => hlen ▸ maxMatchingSize_upper g M' hM'⟩

/-- **maximum judge, complete**: every maximum matching has exactly `maxMatchingSize g` pairs, so
the judge never rejects a correct answer and always rejects a smaller one -/
theorem C15_maximum_judge_complete (g : MGraph) (M : List (Nat × Nat)) (h : IsMaximumMatching g M) :
    M.length = maxMatchingSize g := by
  obtain ⟨M', hM', hl⟩ := maxMatchingSize_attained g
  have h1 := h.2 M' hM'
  have h2 := maxMatchingSize_upper g M h.1
  omega

/-- **flow judge**: an accepted `(flows, value)` is a feasible flow (capacities respected,
conservation at every node other than `s`, `t`), the value is the net flow out of `s`, it equals the
capacity of an `s`-`t` cut, no `s`-`t` cut has a smaller capacity (so it is the capacity of a
minimum cut) and no feasible flow has a larger value (so the flow is maximum). -/
theorem C15_flow_judge_sound (g : MGraph) (s t : Nat) (fl : List (Nat × Int)) (v : Int)
    (h : judgeFlow g s t fl v = none) :
    s ≠ t ∧ Feasible g s t (flowFn fl) ∧ v = excess g (flowFn fl) s ∧
    (∃ S : List Nat, S.Nodup ∧ IsCut s t S ∧ cutCap g S = v) ∧
    (∀ S : List Nat, IsCut s t S → v ≤ cutCap g S) ∧
    (∀ f' : Nat → Int, Feasible g s t f' → excess g f' s ≤ v) := by
  have c := judgeFlow_sound g s t fl v h
  exact ⟨c.distinct, c.feasible, c.value, c.cut, c.minCut, c.maxFlow⟩

/-- weak duality on its own: any feasible flow is bounded by any cut -/
theorem C15_weak_duality (g : MGraph) (s t : Nat) (f : Nat → Int) (S : List Nat)
    (hf : Feasible g s t f) (hS : IsCut s t S) : excess g f s ≤ cutCap g S :=
  value_le_cut' g s t f S hf hS.1 hS.2

/-! ## Part 2 — the mirror models, for every view -/

/-- the driver's per-case checks establish the hypotheses of the model theorems -/
theorem C15_view_checks_sound (v : View) (h1 : ixOkB v = true) (h2 : viewSoundB v = true)
    (h3 : wfB v.g = true) : IxOk v ∧ ViewSound v ∧ v.g.WellFormed :=
  ⟨ixOkB_sound v h1, viewSoundB_sound v h2, wfB_sound v.g h3⟩

/-- **accessor consistency**: for a well-formed `Matching` (symmetric irreflexive `mate` vector with
entries at live indices only, `n_edges` = half the number of entries) `nodes()`, `edges()`, `len()`,
`contains_node`, `contains_edge`, `is_perfect()`, `is_empty()` are the functions of `mate` the
documentation says. -/
theorem C15_matching_accessors (v : View) (hix : IxOk v) (m : Matching) (hm : MWF v m) :
    (∀ a, a ∈ m.nodes v ↔ a ∈ v.g.nodes ∧ (m.mateOf v a).isSome = true) ∧
    (∀ a b, (a, b) ∈ m.edges v ↔ a ∈ v.g.nodes ∧ m.mateOf v a = some b ∧ v.toIndex a < v.toIndex b) ∧
    (∀ a ∈ v.g.nodes, ∀ b, m.mateOf v a = some b → (a, b) ∈ m.edges v ∨ (b, a) ∈ m.edges v) ∧
    m.len = (m.edges v).length ∧
    2 * m.len = (v.g.nodes.filter fun a => m.containsNode v a).length ∧
    (∀ a, m.containsNode v a = (m.mateOf v a).isSome) ∧
    (∀ a b, m.containsEdge v a b = true ↔ m.mateOf v a = some b) ∧
    (m.isPerfect v = true ↔ ∀ a ∈ v.g.nodes, m.containsNode v a = true) ∧
    (m.isEmpty = true ↔ m.edges v = []) := by
  refine ⟨mem_nodes v hix m hm, mem_edges v hix m hm, fun a ha b hb => edges_complete v hix m hm a b ha hb, hm.cntE, hm.cntN,
    fun _ => rfl, ?_, isPerfect_iff v m hm, ?_⟩
  · intro a b
    unfold Matching.containsEdge
    cases m.mateOf v a with
    | none => simp
    | some x => simp
  · unfold Matching.isEmpty Matching.len
    rw [hm.cntE]
    simp [List.length_eq_zero_iff]

/-- **`greedy_matching` is valid** (model, all views): no out-of-bounds access, the resulting
`Matching` is well formed (so all accessors agree with `mate`), `mate` is symmetric, nobody is
matched twice, every matched pair is joined by a non-loop edge (direction ignored). -/
theorem C15_greedy_valid (v : View) (hix : IxOk v) (hwf : v.g.WellFormed) (hs : ViewSound v) :
    (greedyInner v).fault = false ∧ MWF v (greedyInner v) ∧
    MateValid v.g (mateTable v (greedyInner v)) ∧
    IsMatching v.g (pairsOf (mateTable v (greedyInner v))) := by
  have h := greedy_valid v hix hwf hs
  exact ⟨h.1.nofault, h.1, h.2, mateValid_isMatching _ _ h.2⟩

/-- the same from the driver's executable per-case checks -/
theorem C15_greedy_valid_checked (v : View) (h1 : ixOkB v = true) (h2 : viewSoundB v = true)
    (h3 : wfB v.g = true) :
    (greedyInner v).fault = false ∧ IsMatching v.g (pairsOf (mateTable v (greedyInner v))) :=
  let h := C15_greedy_valid v (ixOkB_sound v h1) (wfB_sound v.g h3) (viewSoundB_sound v h2)
  ⟨h.1, h.2.2.2⟩

/-- the greedy result never exceeds the definitional maximum -/
theorem C15_greedy_le_maximum (v : View) (hix : IxOk v) (hwf : v.g.WellFormed) (hs : ViewSound v) :
    (pairsOf (mateTable v (greedyInner v))).length ≤ maxMatchingSize v.g :=
  maxMatchingSize_upper _ _ (C15_greedy_valid v hix hwf hs).2.2.2

/-- a triangle with a pendant node, encoded with a vacancy at index 1: the hypotheses hold and the
greedy model matches two pairs -/
def exampleView : View :=
  { g := { directed := false, nodes := [0, 1, 2, 3],
           edges := [⟨0, 0, 1, 1⟩, ⟨1, 1, 2, 1⟩, ⟨2, 2, 0, 1⟩, ⟨3, 2, 3, 1⟩] },
    nb := 5, ix := [(0, 0), (1, 2), (2, 3), (3, 4)],
    out := [(0, [(1, 0), (2, 2)]), (1, [(0, 0), (2, 1)]), (2, [(1, 1), (0, 2), (3, 3)]), (3, [(2, 3)])],
    inn := [(0, [(1, 0), (2, 2)]), (1, [(0, 0), (2, 1)]), (2, [(1, 1), (0, 2), (3, 3)]), (3, [(2, 3)])] }

example : ixOkB exampleView = true ∧ viewSoundB exampleView = true ∧ wfB exampleView.g = true ∧
    (greedyInner exampleView).nEdges = 2 ∧ maxMatchingSize exampleView.g = 2 := by decide

/-! ## Part 3 — judged per run, not proved for all inputs -/

/-- the view lists, for every node, exactly its incident edges with their true other endpoint
(what the maximum-matching and flow models need in addition to `ViewSound`) -/
structure ViewExact (v : View) : Prop where
  ids : (v.g.edges.map (·.id)).Nodup
  out_sound : ∀ a b eid, (b, eid) ∈ v.outOf a → ∃ e ∈ v.g.edges, e.id = eid ∧
    ((e.src = a ∧ e.tgt = b) ∨ (v.g.directed = false ∧ e.src = b ∧ e.tgt = a))
  out_complete : ∀ e ∈ v.g.edges, (e.tgt, e.id) ∈ v.outOf e.src ∧
    (v.g.directed = false → (e.src, e.id) ∈ v.outOf e.tgt)
  inn_sound : ∀ a b eid, (b, eid) ∈ v.innOf a → ∃ e ∈ v.g.edges, e.id = eid ∧
    ((e.src = b ∧ e.tgt = a) ∨ (v.g.directed = false ∧ e.src = a ∧ e.tgt = b))
  inn_complete : ∀ e ∈ v.g.edges, (e.src, e.id) ∈ v.innOf e.tgt

/-- `maximum_matching` (Gabow) returns a valid matching: full statement (not proved; the model is
compared exactly with /repo and its answers are judged by `checkMate` on every run) -/
def C15_maximum_valid_statement : Prop :=
  ∀ (v : View) (mode : Nat), IxOk v → v.g.WellFormed → ViewExact v →
    (maximumMatching v mode).fault = false ∧ MWF v (maximumMatching v mode) ∧
    MateValid v.g (mateTable v (maximumMatching v mode))

/-- the executable form of `ViewExact` is sound -/
theorem viewExactB_sound (v : View) (h : C15W2.viewExactB v = true) : ViewExact v := by
  unfold C15W2.viewExactB at h
  simp only [Bool.and_eq_true] at h
  obtain ⟨⟨⟨⟨h1, h2⟩, h3⟩, h4⟩, h5⟩ := h
  refine ⟨nodupB_nodup _ h1, ?_, ?_, ?_, ?_⟩
  · intro a b eid hb
    unfold View.outOf at hb
    cases hl : v.out.lookup a with
    | none => simp [hl] at hb
    | some row =>
      simp only [hl, Option.getD_some] at hb
      have hmem := mem_of_lookup v.out a row hl
      have := List.all_eq_true.mp (List.all_eq_true.mp h2 (a, row) hmem) (b, eid) hb
      obtain ⟨e, he, hp⟩ := List.any_eq_true.mp this
      simp only [Bool.and_eq_true, beq_iff_eq, Bool.or_eq_true, Bool.not_eq_true'] at hp
      refine ⟨e, he, hp.1, ?_⟩
      rcases hp.2 with hh | hh
      · exact Or.inl hh
      · exact Or.inr ⟨hh.1.1, hh.1.2, hh.2⟩
  · intro e he
    have := List.all_eq_true.mp h3 e he
    simp only [Bool.and_eq_true, List.contains_eq_mem, decide_eq_true_eq, Bool.or_eq_true] at this
    refine ⟨this.1, fun hd => ?_⟩
    rcases this.2 with hh | hh
    · rw [hd] at hh; cases hh
    · exact hh
  · intro a b eid hb
    unfold View.innOf at hb
    cases hl : v.inn.lookup a with
    | none => simp [hl] at hb
    | some row =>
      simp only [hl, Option.getD_some] at hb
      have hmem := mem_of_lookup v.inn a row hl
      have := List.all_eq_true.mp (List.all_eq_true.mp h4 (a, row) hmem) (b, eid) hb
      obtain ⟨e, he, hp⟩ := List.any_eq_true.mp this
      simp only [Bool.and_eq_true, beq_iff_eq, Bool.or_eq_true, Bool.not_eq_true'] at hp
      refine ⟨e, he, hp.1, ?_⟩
      rcases hp.2 with hh | hh
      · exact Or.inl hh
      · exact Or.inr ⟨hh.1.1, hh.1.2, hh.2⟩
  · intro e he
    have := List.all_eq_true.mp h5 e he
    simpa using this

/-- **`maximum_matching` (the Gabow mirror model) returns a valid matching**, for every view whose
index map is injective, whose neighbour rows are exact, and where `from_index` of a vacant index is
not a live node (`VacOk`; for `StableGraph` the vacant index names a node without edges): no fault
(no out-of-bounds access, no `unwrap` of `None`, no unexpected label; `find_join` and `augment_path`
end within their fuel), the resulting `Matching` is well formed (so all accessors agree with `mate`),
`mate` is symmetric, nobody is matched twice, every matched pair is joined by a non-loop edge.

This is `C15_maximum_valid_statement` with the additional hypothesis `VacOk`, without which the
statement is false for the model (`C15_maximum_valid_statement_false_witness`).  The proof keeps
Gabow's labelling invariant (every outer vertex has a simple alternating path to the start vertex
that the labels describe, `first_inner` names the first non-outer vertex of every such path) through
the vertex labelling and `find_join`, and shows that `augment_path` re-matches exactly such a path. -/
theorem C15_maximum_valid (v : View) (mode : Nat) (hix : IxOk v) (hwf : v.g.WellFormed)
    (hex : ViewExact v) (hvac : C15W2.VacOk v) :
    (maximumMatching v mode).fault = false ∧ MWF v (maximumMatching v mode) ∧
    MateValid v.g (mateTable v (maximumMatching v mode)) := by
  have hv : C15W2.VHyp v mode := C15W2.VHyp.of_exact v mode hix hwf hex.ids hex.out_sound hvac
  have hs : ViewSound v := by
    intro a b hb
    unfold View.succ at hb
    obtain ⟨p, hp, rfl⟩ := List.mem_map.mp hb
    obtain ⟨e, he, _, hh⟩ := hex.out_sound a p.1 p.2 hp
    exact ⟨e, he, hh⟩
  have h := C15W2.maximumMatching_valid v mode hv hs hwf
  exact ⟨h.1, h.2.1, h.2.2.1⟩

/-- the same from executable checks of the hypotheses -/
theorem C15_maximum_valid_checked (v : View) (mode : Nat) (h1 : ixOkB v = true) (h2 : wfB v.g = true)
    (h3 : C15W2.viewExactB v = true) (h4 : C15W2.vacOkB v = true) :
    (maximumMatching v mode).fault = false ∧
    IsMatching v.g (pairsOf (mateTable v (maximumMatching v mode))) ∧
    (pairsOf (mateTable v (maximumMatching v mode))).length ≤ maxMatchingSize v.g := by
  have h := C15_maximum_valid v mode (ixOkB_sound v h1) (wfB_sound v.g h2) (viewExactB_sound v h3)
    (C15W2.vacOkB_sound v h4)
  have hm := mateValid_isMatching _ _ h.2.2
  exact ⟨h.1, hm, maxMatchingSize_upper _ _ hm⟩

/-- the hypotheses of `C15_maximum_valid` hold for the example view (a vacancy at index 1) -/
example : ixOkB exampleView = true ∧ wfB exampleView.g = true ∧ C15W2.viewExactB exampleView = true ∧
    C15W2.vacOkB exampleView = true := by decide

/-- a view with a stale entry in its index map: `from_index 3` is the live node `0` although the
index of node `0` is `0` (no petgraph graph type behaves like this) -/
def staleIxView : View :=
  { g := { directed := false, nodes := [0, 1, 2],
           edges := [⟨0, 0, 1, 1⟩, ⟨1, 0, 2, 1⟩] },
    nb := 4, ix := [(0, 0), (1, 1), (2, 2), (0, 3)],
    out := [(0, [(1, 0), (2, 1)]), (1, [(0, 0)]), (2, [(0, 1)])],
    inn := [(0, [(1, 0), (2, 1)]), (1, [(0, 0)]), (2, [(0, 1)])] }

/-- **`C15_maximum_valid_statement` is false as written** (smallest witness: 3 nodes, 2 edges): for
`staleIxView` all its hypotheses hold, but the search "from the vacant index 3" starts at the matched
node `0`, finds the free neighbour `2`, and `augment_path` hits a vertex without a label (a panic in
the Rust code, `fault` in the model).  The missing hypothesis is `VacOk`. -/
theorem C15_maximum_valid_statement_false_witness : ¬ C15_maximum_valid_statement := by
  intro h
  have h1 : ixOkB staleIxView = true := by decide
  have h2 : wfB staleIxView.g = true := by decide
  have h3 : C15W2.viewExactB staleIxView = true := by decide
  have := (h staleIxView 0 (ixOkB_sound _ h1) (wfB_sound _ h2) (viewExactB_sound _ h3)).1
  have hf : (maximumMatching staleIxView 0).fault = true := by decide +kernel
  rw [hf] at this
  cases this

/-- `maximum_matching` returns a maximum matching on undirected storage: full statement (not
proved: the correctness proof of Gabow's labelling algorithm is out of reach here; judged per run
against `maxMatchingSize`, whose correctness is proved above).  On directed storage the statement is
false for the code as it stands (open finding D25). -/
def C15_maximum_maximum_statement : Prop :=
  ∀ (v : View) (mode : Nat), IxOk v → v.g.WellFormed → ViewExact v → v.g.directed = false →
    IsMaximumMatching v.g (pairsOf (mateTable v (maximumMatching v mode)))

/-- proved part: the model starts from a valid greedy matching, and whenever its result is a valid
table its size is bounded by the definitional maximum; equality is what the per-run judge checks -/
theorem C15_maximum_partial (v : View) (mode : Nat) (hix : IxOk v) (hwf : v.g.WellFormed)
    (hs : ViewSound v) :
    IsMatching v.g (pairsOf (mateTable v (greedyInner v))) ∧
    (MateValid v.g (mateTable v (maximumMatching v mode)) →
      (pairsOf (mateTable v (maximumMatching v mode))).length ≤ maxMatchingSize v.g ∧
      ((pairsOf (mateTable v (maximumMatching v mode))).length = maxMatchingSize v.g →
        IsMaximumMatching v.g (pairsOf (mateTable v (maximumMatching v mode))))) := by
  refine ⟨(C15_greedy_valid v hix hwf hs).2.2.2, fun hv => ?_⟩
  have hm := mateValid_isMatching _ _ hv
  exact ⟨maxMatchingSize_upper _ _ hm, fun hl => ⟨hm, fun M' hM' => hl ▸ maxMatchingSize_upper _ M' hM'⟩⟩

/-- another view with a stale entry in its index map (`from_index 4` is the live node `2`): the path
`0 - 2 - 1` and an isolated node -/
def staleIxView2 : View :=
  { g := { directed := false, nodes := [0, 1, 2, 3],
           edges := [⟨0, 0, 2, 1⟩, ⟨1, 1, 2, 1⟩] },
    nb := 5, ix := [(0, 0), (1, 1), (2, 2), (3, 3), (2, 4)],
    out := [(0, [(2, 0)]), (1, [(2, 1)]), (2, [(0, 0), (1, 1)]), (3, [])],
    inn := [(0, [(2, 0)]), (1, [(2, 1)]), (2, [(0, 0), (1, 1)]), (3, [])] }

/-- **`C15_maximum_maximum_statement` is false as written**, for the same reason as
`C15_maximum_valid_statement`: on `staleIxView2` (undirected, all hypotheses hold) the search "from the
vacant index 4" starts at the matched node `2` and matches the free node `1` to it as well, so the
returned pairs `0-2`, `1-2` are not a matching.  With `VacOk` added the validity part is
`C15_maximum_valid`; the maximality part remains open (`C15_maximum_maximum_partial2`). -/
theorem C15_maximum_maximum_statement_false_witness : ¬ C15_maximum_maximum_statement := by
  intro h
  have h1 : ixOkB staleIxView2 = true := by decide
  have h2 : wfB staleIxView2.g = true := by decide
  have h3 : C15W2.viewExactB staleIxView2 = true := by decide
  have hp := (h staleIxView2 0 (ixOkB_sound _ h1) (wfB_sound _ h2) (viewExactB_sound _ h3) rfl).1.2
  have e : pairsOf (mateTable staleIxView2 (maximumMatching staleIxView2 0)) = [(0, 2), (1, 2)] := by
    decide +kernel
  rw [e] at hp
  simp [Disjoint2] at hp

/-- proved part of the maximality clause, now without any assumption on the result (for every view
satisfying the hypotheses of `C15_maximum_valid`, directed or not): the pairs returned by the Gabow
mirror model form a matching of the graph, their number is `len()`, it is at least the number of pairs
of the greedy matching the search starts from (every search either leaves `mate` alone or adds one
edge), at most the definitional maximum, and the result is a maximum matching exactly if the per-run
judge `len = maxMatchingSize` accepts.
Still missing for `C15_maximum_maximum_statement` (undirected storage): that a search which ends
without an augmentation certifies that no augmenting path starts at its start vertex (completeness
of Gabow's labelling: every edge out of an outer vertex has been scanned and leads to an outer
vertex or to the mate of one, the blossoms are odd and closed), that this survives later
augmentations, and Berge's theorem; none of this is formalised. -/
theorem C15_maximum_maximum_partial2 (v : View) (mode : Nat) (hix : IxOk v) (hwf : v.g.WellFormed)
    (hex : ViewExact v) (hvac : C15W2.VacOk v) :
    IsMatching v.g (pairsOf (mateTable v (maximumMatching v mode))) ∧
    (pairsOf (mateTable v (maximumMatching v mode))).length = (maximumMatching v mode).len ∧
    (pairsOf (mateTable v (greedyInner v))).length ≤ (pairsOf (mateTable v (maximumMatching v mode))).length ∧
    (pairsOf (mateTable v (maximumMatching v mode))).length ≤ maxMatchingSize v.g ∧
    ((pairsOf (mateTable v (maximumMatching v mode))).length = maxMatchingSize v.g ↔
      IsMaximumMatching v.g (pairsOf (mateTable v (maximumMatching v mode)))) := by
  have hv : C15W2.VHyp v mode := C15W2.VHyp.of_exact v mode hix hwf hex.ids hex.out_sound hvac
  have hs : ViewSound v := by
    intro a b hb
    unfold View.succ at hb
    obtain ⟨p, hp, rfl⟩ := List.mem_map.mp hb
    obtain ⟨e, he, _, hh⟩ := hex.out_sound a p.1 p.2 hp
    exact ⟨e, he, hh⟩
  obtain ⟨_, hmw, hmv, hmono⟩ := C15W2.maximumMatching_valid v mode hv hs hwf
  have hm := mateValid_isMatching _ _ hmv
  have hg := (greedy_valid v hix hwf hs).1
  have e1 := C15W2.pairs_length v hwf.1 _ hmw
  have e2 := C15W2.pairs_length v hwf.1 _ hg
  refine ⟨hm, e1, by rw [e1, e2]; exact hmono, maxMatchingSize_upper _ _ hm, ?_, ?_⟩
  · intro hl
    exact ⟨hm, fun M' hM' => hl ▸ maxMatchingSize_upper _ M' hM'⟩
  · intro h
    exact C15_maximum_judge_complete _ _ h

/-- the witness of open finding D25: the digraph `u→s, u→v, v→t` in `Graph`'s iteration order -/
def d25View : View :=
  { g := { directed := true, nodes := [0, 1, 2, 3],
           edges := [⟨0, 0, 1, 1⟩, ⟨1, 0, 2, 1⟩, ⟨2, 2, 3, 1⟩] },
    nb := 4, ix := [(0, 0), (1, 1), (2, 2), (3, 3)],
    out := [(0, [(2, 1), (1, 0)]), (1, []), (2, [(3, 2)]), (3, [])],
    inn := [(0, []), (1, [(0, 0)]), (2, [(0, 1)]), (3, [(2, 2)])] }

/-- **D25 on the model**: on directed storage the mirrored `maximum_matching` (which, like the code,
follows out-edges only) returns a valid matching with one pair although two are possible when the
direction is ignored; so `C15_maximum_maximum_statement` cannot drop `directed = false` for the code
as it stands. -/
theorem C15_maximum_directed_counterexample :
    ixOkB d25View = true ∧ viewSoundB d25View = true ∧ wfB d25View.g = true ∧
    checkMate d25View.g (mateTable d25View (maximumMatching d25View 0)) = true ∧
    (pairsOf (mateTable d25View (maximumMatching d25View 0))).length = 1 ∧
    maxMatchingSize d25View.g = 2 := by decide +kernel

/-! ## Part 2b — the Edmonds–Karp model is a maximum-flow algorithm (all views, integer capacities) -/

/-- the driver's per-case checks establish the hypotheses of the flow model theorems -/
theorem C15_flow_view_checks_sound (v : View) (h1 : C15F.flowViewB v = true) (h2 : wfB v.g = true)
    (h3 : C15F.capsNonnegB v.g = true) :
    FlowView v ∧ v.g.WellFormed ∧ ∀ e ∈ v.g.edges, 0 ≤ e.w :=
  ⟨flowViewB_sound v h1, wfB_sound v.g h2, capsNonnegB_sound v.g h3⟩

/-- **`ford_fulkerson` returns a feasible flow** (model, all views, `s ≠ t`, non-negative integer
capacities): no fault (no illegal endpoint, no out-of-bounds access, the loop ends within its fuel),
every capacity is respected, flow is conserved at every node other than `s` and `t`, and the returned
value is the net flow out of `s`.  (Capacity and conservation are invariants of augmentation along
the BFS tree path; the path is simple, so no edge is pushed twice.) -/
theorem C15_flow_feasible (v : View) (hv : FlowView v) (hwf : v.g.WellFormed)
    (hw : ∀ e ∈ v.g.edges, 0 ≤ e.w) (s t : Nat) (hne : s ≠ t) :
    (C15F.fordFulkerson v s t).fault = false ∧
    Feasible v.g s t (C15F.getFlow (C15F.fordFulkerson v s t).flows) ∧
    (C15F.fordFulkerson v s t).maxFlow = excess v.g (C15F.getFlow (C15F.fordFulkerson v s t).flows) s := by
  have h := fordFulkerson_spec v hv hwf.2 hw s t hne
  exact ⟨h.inv.nofault, h.inv.feas, h.inv.value⟩

/-- **`ford_fulkerson` returns a maximum flow and the capacity of a minimum cut** (model): when the
last BFS fails its visited set is a cut whose forward edges are saturated and whose backward edges
are empty, so the value equals that cut's capacity; hence no `s`-`t` cut is smaller and no feasible
flow is larger. -/
theorem C15_flow_max (v : View) (hv : FlowView v) (hwf : v.g.WellFormed)
    (hw : ∀ e ∈ v.g.edges, 0 ≤ e.w) (s t : Nat) (hne : s ≠ t) :
    (∃ S : List Nat, S.Nodup ∧ IsCut s t S ∧ cutCap v.g S = (C15F.fordFulkerson v s t).maxFlow) ∧
    (∀ S : List Nat, IsCut s t S → (C15F.fordFulkerson v s t).maxFlow ≤ cutCap v.g S) ∧
    (∀ f' : Nat → Int, Feasible v.g s t f' → excess v.g f' s ≤ (C15F.fordFulkerson v s t).maxFlow) := by
  have h := fordFulkerson_spec v hv hwf.2 hw s t hne
  obtain ⟨S, hS1, hS2, hS3⟩ := h.cut
  refine ⟨⟨S, hS1, hS2, hS3⟩, ?_, ?_⟩
  · intro S' hS'
    rw [h.inv.value]
    exact value_le_cut' v.g s t _ S' h.inv.feas hS'.1 hS'.2
  · intro f' hf'
    rw [← hS3]
    exact value_le_cut v.g s t f' S hf' hS1 hS2.1 hS2.2

/-- the same from the driver's executable per-case checks -/
theorem C15_flow_checked (v : View) (h1 : C15F.flowViewB v = true) (h2 : wfB v.g = true)
    (h3 : C15F.capsNonnegB v.g = true) (s t : Nat) (hne : s ≠ t) :
    (C15F.fordFulkerson v s t).fault = false ∧
    Feasible v.g s t (C15F.getFlow (C15F.fordFulkerson v s t).flows) ∧
    (∀ f' : Nat → Int, Feasible v.g s t f' → excess v.g f' s ≤ (C15F.fordFulkerson v s t).maxFlow) :=
  let c := C15_flow_view_checks_sound v h1 h2 h3
  ⟨(C15_flow_feasible v c.1 c.2.1 c.2.2 s t hne).1, (C15_flow_feasible v c.1 c.2.1 c.2.2 s t hne).2.1,
   (C15_flow_max v c.1 c.2.1 c.2.2 s t hne).2.2⟩

/-- the CLRS network of the doc example, in `Graph`'s iteration order: the hypotheses hold and the
model finds the flow of value 23 -/
def clrsView : View :=
  { g := { directed := true, nodes := [0, 1, 2, 3, 4, 5],
           edges := [⟨0, 0, 1, 16⟩, ⟨1, 0, 2, 13⟩, ⟨2, 1, 2, 10⟩, ⟨3, 1, 3, 12⟩, ⟨4, 2, 1, 4⟩,
                     ⟨5, 2, 4, 14⟩, ⟨6, 3, 2, 9⟩, ⟨7, 3, 5, 20⟩, ⟨8, 4, 3, 7⟩, ⟨9, 4, 5, 4⟩] },
    nb := 6, ix := [(0, 0), (1, 1), (2, 2), (3, 3), (4, 4), (5, 5)],
    out := [(0, [(2, 1), (1, 0)]), (1, [(3, 3), (2, 2)]), (2, [(4, 5), (1, 4)]), (3, [(5, 7), (2, 6)]),
            (4, [(5, 9), (3, 8)]), (5, [])],
    inn := [(0, []), (1, [(2, 4), (0, 0)]), (2, [(3, 6), (1, 2), (0, 1)]), (3, [(4, 8), (1, 3)]),
            (4, [(2, 5)]), (5, [(4, 9), (3, 7)])] }

example : C15F.flowViewB clrsView = true ∧ wfB clrsView.g = true ∧ C15F.capsNonnegB clrsView.g = true ∧
    (C15F.fordFulkerson clrsView 0 5).maxFlow = 23 := by decide +kernel

end PetgraphModel.C15T
